import FcpptProofs.C05.Basic
set_option linter.unusedSimpArgs false
set_option linter.unusedVariables false
/-!
# C05 lemmas — a program that never touches an object it has moved from (or destroyed) logs no
read-after-move and no access to a non-existing object; the objects it killed stay dead
-/
namespace Fcppt.C05

/-- nothing is used after it was killed -/
def Clean (p : List Instr) : Prop := p.Pairwise fun x y => ∀ a i, x.kills a i → ¬ y.uses a i

/-- every element object of the original arguments that has not been killed exists and is live; nothing was logged -/
structure Alive (sz : Nat → Nat) (K : Nat → Nat → Prop) (nargs : Nat) (st : St) : Prop where
  len : st.args.length = nargs
  slot : ∀ a i, i < sz a → ¬ K a i → ∃ s, getSlot st.args a i = some s ∧ s.st = .live
  ram : st.ram = []
  oob : st.oob = []
  /-- containers never shrink (destroyed elements stay as `gone` slots) -/
  lenGe : ∀ a l, st.args[a]? = some l → sz a ≤ l.length
  /-- every killed object of the original arguments is moved-from or destroyed -/
  dead : ∀ a i, i < sz a → K a i → ∀ s, getSlot st.args a i = some s → s.st ≠ .live

theorem noteRam_live (st : St) {s : Slot} (h : s.st = .live) : noteRam st s = st := by
  simp [noteRam, h]

theorem getSlot_modify_ne (args : List (List Slot)) (f : List Slot → List Slot) {a b : Nat} (j : Nat) (h : a ≠ b) :
    getSlot (args.modify a f) b j = getSlot args b j := by
  simp [getSlot, List.getElem?_modify, h]

theorem getSlot_modify_gone (args : List (List Slot)) (a j : Nat) :
    getSlot (args.modify a (·.map fun s => { s with st := SlotSt.gone })) a j = none := by
  unfold getSlot
  rw [List.getElem?_modify]
  cases args[a]? with
  | none => simp
  | some l =>
    cases hj : l[j]? <;> simp [hj]

theorem getSlot_setSlot_gone (args : List (List Slot)) (a i : Nat) (s : Slot) (h : s.st = .gone) :
    getSlot (setSlot args a i s) a i = none := by
  unfold getSlot
  rw [setSlot_getElem?]
  cases args[a]? with
  | none => simp
  | some l =>
    by_cases hi : i < l.length <;> simp [hi, h]

theorem getSlot_put_eq (st : St) (d : Dest) (vs : List Slot) (b j : Nat) (h : ∀ l, st.args[b]? = some l → j < l.length) :
    getSlot (put st d vs).args b j = getSlot st.args b j := by
  unfold put
  cases d with
  | res => rfl
  | drop => rfl
  | arg a =>
    simp only
    split
    · by_cases hab : a = b
      · subst hab
        unfold getSlot
        rw [List.getElem?_modify]
        cases hl : st.args[a]? with
        | none => simp
        | some l =>
          simp [List.getElem?_append_left (h l hl)]
      · exact getSlot_modify_ne _ _ _ hab
    · rfl

theorem lenGe_put {sz : Nat → Nat} (st : St) (d : Dest) (vs : List Slot)
    (h : ∀ a l, st.args[a]? = some l → sz a ≤ l.length) : ∀ a l, (put st d vs).args[a]? = some l → sz a ≤ l.length := by
  unfold put
  cases d with
  | res => exact h
  | drop => exact h
  | arg c =>
    simp only
    split
    · intro a l hl
      rw [List.getElem?_modify] at hl
      cases hc : st.args[a]? with
      | none => simp [hc] at hl
      | some l0 =>
        have := h a l0 hc
        simp only [hc, Option.map_eq_map, Option.map_some, Option.some.injEq] at hl
        subst hl
        split <;> simp <;> omega
    · exact h

theorem lenGe_setSlot {sz : Nat → Nat} (args : List (List Slot)) (a i : Nat) (s : Slot)
    (h : ∀ b l, args[b]? = some l → sz b ≤ l.length) : ∀ b l, (setSlot args a i s)[b]? = some l → sz b ≤ l.length := by
  intro b l hl
  rw [setSlot_getElem?] at hl
  split at hl
  · cases hc : args[b]? with
    | none => simp [hc] at hl
    | some l0 =>
      simp only [hc, Option.map_some, Option.some.injEq] at hl
      subst hl
      simpa using h b l0 hc
  · exact h b l hl

theorem lenGe_modify_map {sz : Nat → Nat} (args : List (List Slot)) (a : Nat) (f : Slot → Slot)
    (h : ∀ b l, args[b]? = some l → sz b ≤ l.length) : ∀ b l, (args.modify a (·.map f))[b]? = some l → sz b ≤ l.length := by
  intro b l hl
  rw [List.getElem?_modify] at hl
  cases hc : args[b]? with
  | none => simp [hc] at hl
  | some l0 =>
    have := h b l0 hc
    simp only [hc, Option.map_eq_map, Option.map_some, Option.some.injEq] at hl
    subst hl
    split <;> simp <;> omega

/-- a slot below the original size exists in the list -/
theorem lt_of_lenGe {sz : Nat → Nat} {st : St} (h : ∀ a l, st.args[a]? = some l → sz a ≤ l.length) {b j : Nat} (hj : j < sz b) :
    ∀ l, st.args[b]? = some l → j < l.length := fun l hl => Nat.lt_of_lt_of_le hj (h b l hl)

private theorem alive_put {sz : Nat → Nat} {K' : Nat → Nat → Prop} {nargs : Nat} {st' : St} (d : Dest) (vs : List Slot)
    (hlen : st'.args.length = nargs)
    (hslot : ∀ a i, i < sz a → ¬ K' a i → ∃ s, getSlot st'.args a i = some s ∧ s.st = .live)
    (hram : st'.ram = []) (hoob : st'.oob = [])
    (hge : ∀ a l, st'.args[a]? = some l → sz a ≤ l.length)
    (hdead : ∀ a i, i < sz a → K' a i → ∀ s, getSlot st'.args a i = some s → s.st ≠ .live)
    (hd : ∀ a, d = .arg a → a < nargs) : Alive sz K' nargs (put st' d vs) where
  len := by rw [put_args_length, hlen]
  slot := fun a i hi hk => by
    obtain ⟨s, hs, hl⟩ := hslot a i hi hk
    exact ⟨s, getSlot_put d vs hs, hl⟩
  ram := by rw [put_ram, hram]
  oob := by rw [put_oob _ _ _ (fun a ha => hlen ▸ hd a ha), hoob]
  lenGe := lenGe_put st' d vs hge
  dead := fun a i hi hk s hs => by
    rw [getSlot_put_eq st' d vs a i (lt_of_lenGe hge hi)] at hs
    exact hdead a i hi hk s hs

theorem step_alive {sz : Nat → Nat} {K : Nat → Nat → Prop} {nargs : Nat} {st : St} {x : Instr}
    (h : Alive sz K nargs st)
    (hu : ∀ a i, x.uses a i → i < sz a ∧ ¬ K a i)
    (hn : ∀ a, x.needsArg a → a < nargs) :
    Alive sz (fun a i => K a i ∨ x.kills a i) nargs (step st x) := by
  cases x with
  | xfer a i m d =>
    obtain ⟨hi, hk⟩ := hu a i ⟨rfl, rfl⟩
    obtain ⟨s, hs, hl⟩ := h.slot a i hi hk
    have hd : ∀ c, d = .arg c → c < nargs := fun c hc => hn c (by subst hc; cases m <;> exact rfl)
    cases m with
    | move =>
      simp only [step, hs, noteRam_live st hl]
      refine alive_put d _ (by simp [setSlot_length, h.len]) ?_ (by exact h.ram) (by exact h.oob)
        (lenGe_setSlot _ _ _ _ h.lenGe) ?_ hd
      · intro b j hj hkb
        simp only [Instr.kills, not_or] at hkb
        obtain ⟨t, ht, htl⟩ := h.slot b j hj hkb.1
        exact ⟨t, by simp only; rw [getSlot_setSlot_ne _ _ _ _ _ _ hkb.2]; exact ht, htl⟩
      · intro b j hj hkb t ht
        simp only at ht
        by_cases hbj : a = b ∧ i = j
        · obtain ⟨rfl, rfl⟩ := hbj
          rw [getSlot_setSlot_eq _ hs (by simp)] at ht
          cases ht; simp
        · rw [getSlot_setSlot_ne _ _ _ _ _ _ hbj] at ht
          rcases hkb with hkb | hkb
          · exact h.dead b j hj hkb t ht
          · exact absurd hkb hbj
    | copy =>
      simp only [step, hs, noteRam_live st hl]
      refine alive_put d _ (by exact h.len) ?_ (by exact h.ram) (by exact h.oob) (by exact h.lenGe) ?_ hd
      · intro b j hj hkb
        simp only [Instr.kills, or_false] at hkb
        exact h.slot b j hj hkb
      · intro b j hj hkb t ht
        simp only [Instr.kills, or_false] at hkb
        exact h.dead b j hj hkb t ht
  | derive a i k d =>
    obtain ⟨hi, hk⟩ := hu a i ⟨rfl, rfl⟩
    obtain ⟨s, hs, hl⟩ := h.slot a i hi hk
    have hd : ∀ c, d = .arg c → c < nargs := fun c hc => hn c (by subst hc; exact rfl)
    simp only [step, hs, noteRam_live st hl]
    refine alive_put d _ (by exact h.len) ?_ (by exact h.ram) (by exact h.oob) (by exact h.lenGe) ?_ hd
    · intro b j hj hkb
      simp only [Instr.kills, or_false] at hkb
      exact h.slot b j hj hkb
    · intro b j hj hkb t ht
      simp only [Instr.kills, or_false] at hkb
      exact h.dead b j hj hkb t ht
  | read a i =>
    obtain ⟨hi, hk⟩ := hu a i ⟨rfl, rfl⟩
    obtain ⟨s, hs, hl⟩ := h.slot a i hi hk
    simp only [step, hs, noteRam_live st hl]
    refine ⟨h.len, ?_, h.ram, h.oob, h.lenGe, ?_⟩
    · intro b j hj hkb
      simp only [Instr.kills, or_false] at hkb
      exact h.slot b j hj hkb
    · intro b j hj hkb t ht
      simp only [Instr.kills, or_false] at hkb
      exact h.dead b j hj hkb t ht
  | steal a d =>
    have ha : a < st.args.length := h.len ▸ hn a (Or.inl rfl)
    have hd : ∀ c, d = .arg c → c < nargs := fun c hc => hn c (Or.inr hc)
    have hsome : st.args[a]? = some st.args[a] := List.getElem?_eq_getElem ha
    simp only [step, hsome]
    refine alive_put d _ (by simp [h.len]) ?_ (by exact h.ram) (by exact h.oob) (lenGe_modify_map _ _ _ h.lenGe) ?_ hd
    · intro b j hj hkb
      simp only [Instr.kills, not_or] at hkb
      obtain ⟨t, ht, htl⟩ := h.slot b j hj hkb.1
      exact ⟨t, by simp only; rw [getSlot_modify_ne _ _ _ hkb.2]; exact ht, htl⟩
    · intro b j hj hkb t ht
      simp only at ht
      by_cases hab : a = b
      · subst hab
        rw [getSlot_modify_gone] at ht; cases ht
      · rw [getSlot_modify_ne _ _ _ hab] at ht
        rcases hkb with hkb | hkb
        · exact h.dead b j hj hkb t ht
        · exact absurd hkb hab
  | pop a i d =>
    obtain ⟨hi, hk⟩ := hu a i ⟨rfl, rfl⟩
    obtain ⟨s, hs, hl⟩ := h.slot a i hi hk
    have hd : ∀ c, d = .arg c → c < nargs := fun c hc => hn c (by subst hc; exact rfl)
    simp only [step, hs, noteRam_live st hl]
    refine alive_put d _ (by simp [setSlot_length, h.len]) ?_ (by exact h.ram) (by exact h.oob)
      (lenGe_setSlot _ _ _ _ h.lenGe) ?_ hd
    · intro b j hj hkb
      simp only [Instr.kills, not_or] at hkb
      obtain ⟨t, ht, htl⟩ := h.slot b j hj hkb.1
      exact ⟨t, by simp only; rw [getSlot_setSlot_ne _ _ _ _ _ _ hkb.2]; exact ht, htl⟩
    · intro b j hj hkb t ht
      simp only at ht
      by_cases hbj : a = b ∧ i = j
      · obtain ⟨rfl, rfl⟩ := hbj
        rw [getSlot_setSlot_gone _ _ _ _ rfl] at ht; cases ht
      · rw [getSlot_setSlot_ne _ _ _ _ _ _ hbj] at ht
        rcases hkb with hkb | hkb
        · exact h.dead b j hj hkb t ht
        · exact absurd hkb hbj
  | swap a i j =>
    obtain ⟨hi, hki⟩ := hu a i ⟨rfl, Or.inl rfl⟩
    obtain ⟨hj, hkj⟩ := hu a j ⟨rfl, Or.inr rfl⟩
    obtain ⟨s, hs, hsl⟩ := h.slot a i hi hki
    obtain ⟨t, ht, htl⟩ := h.slot a j hj hkj
    simp only [step, hs, ht, noteRam_live st hsl, noteRam_live st htl]
    have htg : t.st ≠ .gone := by rw [htl]; decide
    have hsg : s.st ≠ .gone := by rw [hsl]; decide
    have h1 : getSlot (setSlot st.args a i t) a i = some t := getSlot_setSlot_eq t hs htg
    have h1j : ∃ u, getSlot (setSlot st.args a i t) a j = some u := by
      by_cases hij : i = j
      · subst hij; exact ⟨t, h1⟩
      · rw [getSlot_setSlot_ne _ _ _ _ _ _ (fun e => hij e.2)]; exact ⟨t, ht⟩
    obtain ⟨u, hu'⟩ := h1j
    refine ⟨by simp [setSlot_length, h.len], ?_, h.ram, h.oob,
      lenGe_setSlot _ _ _ _ (lenGe_setSlot _ _ _ _ h.lenGe), ?_⟩
    · intro b k hk hkb
      simp only [Instr.kills, or_false] at hkb
      by_cases hbj : a = b ∧ j = k
      · obtain ⟨rfl, rfl⟩ := hbj
        exact ⟨s, getSlot_setSlot_eq s hu' hsg, hsl⟩
      · simp only
        rw [getSlot_setSlot_ne _ _ _ _ _ _ hbj]
        by_cases hbi : a = b ∧ i = k
        · obtain ⟨rfl, rfl⟩ := hbi
          exact ⟨t, h1, htl⟩
        · rw [getSlot_setSlot_ne _ _ _ _ _ _ hbi]
          exact h.slot b k hk hkb
    · intro b k hk hkb v hv
      simp only [Instr.kills, or_false] at hkb
      simp only at hv
      have hbj : ¬ (a = b ∧ j = k) := by rintro ⟨rfl, rfl⟩; exact hkj hkb
      have hbi : ¬ (a = b ∧ i = k) := by rintro ⟨rfl, rfl⟩; exact hki hkb
      rw [getSlot_setSlot_ne _ _ _ _ _ _ hbj, getSlot_setSlot_ne _ _ _ _ _ _ hbi] at hv
      exact h.dead b k hk hkb v hv
  | fresh v d =>
    have hd : ∀ c, d = .arg c → c < nargs := fun c hc => hn c (by subst hc; exact rfl)
    simp only [step]
    refine alive_put d _ (by exact h.len) ?_ (by exact h.ram) (by exact h.oob) (by exact h.lenGe) ?_ hd
    · intro b j hj hkb
      simp only [Instr.kills, or_false] at hkb
      exact h.slot b j hj hkb
    · intro b j hj hkb t ht
      simp only [Instr.kills, or_false] at hkb
      exact h.dead b j hj hkb t ht
  | shift a i =>
    obtain ⟨hi, hk⟩ := hu a i ⟨rfl, rfl⟩
    obtain ⟨s, hs, hl⟩ := h.slot a i hi hk
    simp only [step, hs, noteRam_live st hl]
    refine ⟨h.len, ?_, h.ram, h.oob, h.lenGe, ?_⟩
    · intro b j hj hkb
      simp only [Instr.kills, or_false] at hkb
      exact h.slot b j hj hkb
    · intro b j hj hkb t ht
      simp only [Instr.kills, or_false] at hkb
      exact h.dead b j hj hkb t ht

theorem Alive.mono {sz : Nat → Nat} {K K' : Nat → Nat → Prop} {nargs : Nat} {st : St} (h : Alive sz K nargs st)
    (hk : ∀ a i, K a i ↔ K' a i) : Alive sz K' nargs st :=
  ⟨h.len, fun a i hi hn => h.slot a i hi (fun hK => hn ((hk a i).1 hK)), h.ram, h.oob, h.lenGe,
    fun a i hi hK => h.dead a i hi ((hk a i).2 hK)⟩

/-- the state after a clean, in-bounds program: what it did not kill is live, what it killed is dead, nothing was logged -/
theorem run_alive' {sz : Nat → Nat} {nargs : Nat} (p : List Instr) :
    ∀ {K : Nat → Nat → Prop} {st : St}, Alive sz K nargs st → Clean p →
    (∀ x ∈ p, ∀ a i, x.uses a i → i < sz a ∧ ¬ K a i) → (∀ x ∈ p, ∀ a, x.needsArg a → a < nargs) →
    Alive sz (fun a i => K a i ∨ ∃ x ∈ p, x.kills a i) nargs (run p st) := by
  induction p with
  | nil =>
    intro K st h _ _ _
    exact h.mono (fun a i => ⟨Or.inl, fun h => h.elim id (fun ⟨x, hx, _⟩ => absurd hx List.not_mem_nil)⟩)
  | cons x xs ih =>
    intro K st h hc hu hn
    simp only [run, List.foldl_cons]
    have hc' := List.pairwise_cons.1 hc
    have := ih (step_alive h (hu x (by simp)) (hn x (by simp))) hc'.2 (by
      intro y hy a i hyu
      obtain ⟨hi, hk⟩ := hu y (by simp [hy]) a i hyu
      exact ⟨hi, fun hK => hK.elim hk (fun hkill => hc'.1 y hy a i hkill hyu)⟩) (fun y hy => hn y (by simp [hy]))
    refine this.mono (fun a i => ?_)
    constructor
    · rintro ((hK | hx) | ⟨y, hy, hky⟩)
      · exact Or.inl hK
      · exact Or.inr ⟨x, by simp, hx⟩
      · exact Or.inr ⟨y, by simp [hy], hky⟩
    · rintro (hK | ⟨y, hy, hky⟩)
      · exact Or.inl (Or.inl hK)
      · rcases List.mem_cons.1 hy with rfl | hy
        · exact Or.inl (Or.inr hky)
        · exact Or.inr ⟨y, hy, hky⟩

theorem run_alive {sz : Nat → Nat} {nargs : Nat} (p : List Instr) {K : Nat → Nat → Prop} {st : St}
    (h : Alive sz K nargs st) (hc : Clean p)
    (hu : ∀ x ∈ p, ∀ a i, x.uses a i → i < sz a ∧ ¬ K a i) (hn : ∀ x ∈ p, ∀ a, x.needsArg a → a < nargs) :
    (run p st).ram = [] ∧ (run p st).oob = [] :=
  ⟨(run_alive' p h hc hu hn).ram, (run_alive' p h hc hu hn).oob⟩

/-- the initial state: every object exists and is live -/
theorem alive_init (args : List (List Nat)) :
    Alive (fun a => match args[a]? with | some l => l.length | none => 0) (fun _ _ => False) args.length (St.init args) where
  len := by simp [St.init]
  slot := fun a i hi _ => by
    cases ha : args[a]? with
    | none => simp [ha] at hi
    | some l =>
      simp only [ha] at hi
      refine ⟨⟨l[i], .live, true⟩, ?_, rfl⟩
      rw [getSlot_eq_some]
      refine ⟨mkArg l, by simp [St.init, ha], by simp [mkArg, hi], by simp⟩
  ram := rfl
  oob := rfl
  lenGe := fun a l hl => by
    simp only [St.init, List.getElem?_map] at hl
    cases ha : args[a]? with
    | none => simp [ha] at hl
    | some l0 =>
      simp only [ha, Option.map_some, Option.some.injEq] at hl
      subst hl
      simp [mkArg]
  dead := fun _ _ _ h => h.elim

end Fcppt.C05
