import FcpptProofs.C05.Basic
set_option linter.unusedSimpArgs false
set_option linter.unusedVariables false
/-!
# C05 lemmas — a program that never touches an object it has moved from (or destroyed) logs no
read-after-move and no access to a non-existing object
-/
namespace Fcppt.C05

/-- nothing is used after it was killed -/
def Clean (p : List Instr) : Prop := p.Pairwise fun x y => ∀ a i, x.kills a i → ¬ y.uses a i

/-- every element object of the original arguments that has not been killed exists and is live; nothing was logged -/
structure Alive (sz : Nat → Nat) (K : Nat → Nat → Prop) (nargs : Nat) (st : St) : Prop where
  len : st.args.length = nargs
  slot : ∀ a i, i < sz a → ¬ K a i → ∃ s, getSlot st.args a i = some s ∧ s.st = .live
  ram : st.ram = []
  oob : st.oob = []

theorem noteRam_live (st : St) {s : Slot} (h : s.st = .live) : noteRam st s = st := by
  simp [noteRam, h]

theorem getSlot_modify_ne (args : List (List Slot)) (f : List Slot → List Slot) {a b : Nat} (j : Nat) (h : a ≠ b) :
    getSlot (args.modify a f) b j = getSlot args b j := by
  simp [getSlot, List.getElem?_modify, h]

private theorem alive_put {sz : Nat → Nat} {K' : Nat → Nat → Prop} {nargs : Nat} {st' : St} (d : Dest) (vs : List Slot)
    (hlen : st'.args.length = nargs)
    (hslot : ∀ a i, i < sz a → ¬ K' a i → ∃ s, getSlot st'.args a i = some s ∧ s.st = .live)
    (hram : st'.ram = []) (hoob : st'.oob = [])
    (hd : ∀ a, d = .arg a → a < nargs) : Alive sz K' nargs (put st' d vs) where
  len := by rw [put_args_length, hlen]
  slot := fun a i hi hk => by
    obtain ⟨s, hs, hl⟩ := hslot a i hi hk
    exact ⟨s, getSlot_put d vs hs, hl⟩
  ram := by rw [put_ram, hram]
  oob := by rw [put_oob _ _ _ (fun a ha => hlen ▸ hd a ha), hoob]

theorem step_alive {sz : Nat → Nat} {K : Nat → Nat → Prop} {nargs : Nat} {st : St} {x : Instr}
    (h : Alive sz K nargs st)
    (hu : ∀ a i, x.uses a i → i < sz a ∧ ¬ K a i)
    (hn : ∀ a, x.needsArg a → a < nargs) :
    Alive sz (fun a i => K a i ∨ x.kills a i) nargs (step st x) := by
  cases x with
  | xfer a i m d =>
    obtain ⟨hi, hk⟩ := hu a i ⟨rfl, rfl⟩
    obtain ⟨s, hs, hl⟩ := h.slot a i hi hk
    have hd : ∀ c, d = .arg c → c < nargs := fun c hc => hn c (by subst hc; cases m <;> exact rfl)
    cases m with
    | move =>
      simp only [step, hs, noteRam_live st hl]
      refine alive_put d _ (by first | exact h.len | simp [setSlot_length, h.len]) ?_ (by exact h.ram) (by exact h.oob) hd
      intro b j hj hkb
      simp only [Instr.kills, not_or] at hkb
      obtain ⟨t, ht, htl⟩ := h.slot b j hj hkb.1
      exact ⟨t, by simp only; rw [getSlot_setSlot_ne _ _ _ _ _ _ hkb.2]; exact ht, htl⟩
    | copy =>
      simp only [step, hs, noteRam_live st hl]
      refine alive_put d _ (by first | exact h.len | simp [setSlot_length, h.len]) ?_ (by exact h.ram) (by exact h.oob) hd
      intro b j hj hkb
      simp only [Instr.kills, or_false] at hkb
      exact h.slot b j hj hkb
  | derive a i k d =>
    obtain ⟨hi, hk⟩ := hu a i ⟨rfl, rfl⟩
    obtain ⟨s, hs, hl⟩ := h.slot a i hi hk
    have hd : ∀ c, d = .arg c → c < nargs := fun c hc => hn c (by subst hc; exact rfl)
    simp only [step, hs, noteRam_live st hl]
    refine alive_put d _ (by first | exact h.len | simp [setSlot_length, h.len]) ?_ (by exact h.ram) (by exact h.oob) hd
    intro b j hj hkb
    simp only [Instr.kills, or_false] at hkb
    exact h.slot b j hj hkb
  | read a i =>
    obtain ⟨hi, hk⟩ := hu a i ⟨rfl, rfl⟩
    obtain ⟨s, hs, hl⟩ := h.slot a i hi hk
    simp only [step, hs, noteRam_live st hl]
    refine ⟨h.len, ?_, h.ram, h.oob⟩
    intro b j hj hkb
    simp only [Instr.kills, or_false] at hkb
    exact h.slot b j hj hkb
  | steal a d =>
    have ha : a < st.args.length := h.len ▸ hn a (Or.inl rfl)
    have hd : ∀ c, d = .arg c → c < nargs := fun c hc => hn c (Or.inr hc)
    have hsome : st.args[a]? = some st.args[a] := List.getElem?_eq_getElem ha
    simp only [step, hsome]
    refine alive_put d _ (by first | exact h.len | simp [setSlot_length, h.len]) ?_ (by exact h.ram) (by exact h.oob) hd
    intro b j hj hkb
    simp only [Instr.kills, not_or] at hkb
    obtain ⟨t, ht, htl⟩ := h.slot b j hj hkb.1
    exact ⟨t, by simp only; rw [getSlot_modify_ne _ _ _ hkb.2]; exact ht, htl⟩
  | pop a i d =>
    obtain ⟨hi, hk⟩ := hu a i ⟨rfl, rfl⟩
    obtain ⟨s, hs, hl⟩ := h.slot a i hi hk
    have hd : ∀ c, d = .arg c → c < nargs := fun c hc => hn c (by subst hc; exact rfl)
    simp only [step, hs, noteRam_live st hl]
    refine alive_put d _ (by first | exact h.len | simp [setSlot_length, h.len]) ?_ (by exact h.ram) (by exact h.oob) hd
    intro b j hj hkb
    simp only [Instr.kills, not_or] at hkb
    obtain ⟨t, ht, htl⟩ := h.slot b j hj hkb.1
    exact ⟨t, by simp only; rw [getSlot_setSlot_ne _ _ _ _ _ _ hkb.2]; exact ht, htl⟩
  | swap a i j =>
    obtain ⟨hi, hki⟩ := hu a i ⟨rfl, Or.inl rfl⟩
    obtain ⟨hj, hkj⟩ := hu a j ⟨rfl, Or.inr rfl⟩
    obtain ⟨s, hs, hsl⟩ := h.slot a i hi hki
    obtain ⟨t, ht, htl⟩ := h.slot a j hj hkj
    simp only [step, hs, ht, noteRam_live st hsl, noteRam_live st htl]
    have htg : t.st ≠ .gone := by rw [htl]; decide
    have hsg : s.st ≠ .gone := by rw [hsl]; decide
    have h1 : getSlot (setSlot st.args a i t) a i = some t := getSlot_setSlot_eq t hs htg
    have h1j : ∃ u, getSlot (setSlot st.args a i t) a j = some u := by
      by_cases hij : i = j
      · subst hij; exact ⟨t, h1⟩
      · rw [getSlot_setSlot_ne _ _ _ _ _ _ (fun e => hij e.2)]; exact ⟨t, ht⟩
    obtain ⟨u, hu'⟩ := h1j
    refine ⟨by simp [setSlot_length, h.len], ?_, h.ram, h.oob⟩
    intro b k hk hkb
    simp only [Instr.kills, or_false] at hkb
    by_cases hbj : a = b ∧ j = k
    · obtain ⟨rfl, rfl⟩ := hbj
      exact ⟨s, getSlot_setSlot_eq s hu' hsg, hsl⟩
    · simp only
      rw [getSlot_setSlot_ne _ _ _ _ _ _ hbj]
      by_cases hbi : a = b ∧ i = k
      · obtain ⟨rfl, rfl⟩ := hbi
        exact ⟨t, h1, htl⟩
      · rw [getSlot_setSlot_ne _ _ _ _ _ _ hbi]
        exact h.slot b k hk hkb
  | fresh v d =>
    have hd : ∀ c, d = .arg c → c < nargs := fun c hc => hn c (by subst hc; exact rfl)
    simp only [step]
    refine alive_put d _ (by first | exact h.len | simp [setSlot_length, h.len]) ?_ (by exact h.ram) (by exact h.oob) hd
    intro b j hj hkb
    simp only [Instr.kills, or_false] at hkb
    exact h.slot b j hj hkb

theorem run_alive {sz : Nat → Nat} {nargs : Nat} (p : List Instr) :
    ∀ {K : Nat → Nat → Prop} {st : St}, Alive sz K nargs st → Clean p →
    (∀ x ∈ p, ∀ a i, x.uses a i → i < sz a ∧ ¬ K a i) → (∀ x ∈ p, ∀ a, x.needsArg a → a < nargs) →
    (run p st).ram = [] ∧ (run p st).oob = [] := by
  induction p with
  | nil => intro K st h _ _ _; exact ⟨h.ram, h.oob⟩
  | cons x xs ih =>
    intro K st h hc hu hn
    simp only [run, List.foldl_cons]
    have hc' := List.pairwise_cons.1 hc
    refine ih (step_alive h (hu x (by simp)) (hn x (by simp))) hc'.2 ?_ (fun y hy => hn y (by simp [hy]))
    intro y hy a i hyu
    obtain ⟨hi, hk⟩ := hu y (by simp [hy]) a i hyu
    exact ⟨hi, fun hK => hK.elim hk (fun hkill => hc'.1 y hy a i hkill hyu)⟩

/-- the initial state: every object exists and is live -/
theorem alive_init (args : List (List Nat)) :
    Alive (fun a => match args[a]? with | some l => l.length | none => 0) (fun _ _ => False) args.length (St.init args) where
  len := by simp [St.init]
  slot := fun a i hi _ => by
    cases ha : args[a]? with
    | none => simp [ha] at hi
    | some l =>
      simp only [ha] at hi
      refine ⟨⟨l[i], .live, true⟩, ?_, rfl⟩
      rw [getSlot_eq_some]
      refine ⟨mkArg l, by simp [St.init, ha], by simp [mkArg, hi], by simp⟩
  ram := rfl
  oob := rfl

end Fcppt.C05
