import FcpptProofs.C05.Basic
set_option linter.unusedSimpArgs false
/-!
# C05 lemmas — where copies come from; programs that never touch a dead object log nothing
-/
namespace Fcppt.C05

def IsLvCr (c : Option Cat) : Prop := c = some .lv ∨ c = some .cr

theorem noteRam_cp (st : St) (s : Slot) : (noteRam st s).cp = st.cp := by
  unfold noteRam; split <;> rfl

/-- a copy event is a copy of an element of an argument the instruction copies from -/
theorem step_cp (st : St) (x : Instr) :
    ∀ y ∈ (step st x).cp, y ∈ st.cp ∨ ∃ a i s, x.copiesFrom a ∧ getSlot st.args a i = some s ∧ s.id = y := by
  intro y hy
  cases x with
  | xfer a i m d =>
    cases m with
    | move =>
      simp only [step] at hy
      split at hy
      · exact Or.inl hy
      · simp [noteRam_cp] at hy; exact Or.inl hy
    | copy =>
      simp only [step] at hy
      split at hy
      · exact Or.inl hy
      · rename_i s hs
        simp [noteRam_cp] at hy
        rcases hy with hy | hy
        · exact Or.inl hy
        · exact Or.inr ⟨a, i, s, rfl, hs, hy.symm⟩
  | derive a i k d =>
    simp only [step] at hy
    split at hy
    · exact Or.inl hy
    · simp [noteRam_cp] at hy; exact Or.inl hy
  | read a i =>
    simp only [step] at hy
    split at hy
    · exact Or.inl hy
    · simp [noteRam_cp] at hy; exact Or.inl hy
  | steal a d =>
    simp only [step] at hy
    split at hy
    · exact Or.inl hy
    · simp at hy; exact Or.inl hy
  | pop a i d =>
    simp only [step] at hy
    split at hy
    · exact Or.inl hy
    · simp [noteRam_cp] at hy; exact Or.inl hy
  | swap a i j =>
    simp only [step] at hy
    split at hy
    · simp [noteRam_cp] at hy; exact Or.inl hy
    · exact Or.inl hy
    · exact Or.inl hy
  | fresh v d =>
    simp only [step] at hy
    simp at hy; exact Or.inl hy
  | shift a i =>
    simp only [step] at hy
    split at hy
    · exact Or.inl hy
    · simp [noteRam_cp] at hy; exact Or.inl hy

/-- **Copies come from lvalue arguments only**: if the program copies only from `T&`/`T const&`
arguments and writes none of them, every identity in the copy log belongs to such an argument. -/
theorem run_cp (cat : Nat → Option Cat) (p : List Instr) (st0 : St)
    (hc : ∀ x ∈ p, ∀ a, x.copiesFrom a → IsLvCr (cat a))
    (hw : ∀ x ∈ p, ∀ a, x.writes a → ¬ IsLvCr (cat a)) :
    ∀ y ∈ (run p st0).cp, y ∈ st0.cp ∨ ∃ a l s, IsLvCr (cat a) ∧ st0.args[a]? = some l ∧ s ∈ l ∧ s.id = y := by
  suffices H : ∀ st : St, (∀ a, IsLvCr (cat a) → st.args[a]? = st0.args[a]?) →
      ∀ y ∈ (run p st).cp, y ∈ st.cp ∨ ∃ a l s, IsLvCr (cat a) ∧ st0.args[a]? = some l ∧ s ∈ l ∧ s.id = y from
    H st0 (fun _ _ => rfl)
  induction p with
  | nil => intro st _ y hy; exact Or.inl hy
  | cons x xs ih =>
    intro st hst y hy
    simp only [run, List.foldl_cons] at hy
    have hst' : ∀ a, IsLvCr (cat a) → (step st x).args[a]? = st0.args[a]? := by
      intro a ha
      rw [step_args_untouched st x a (fun hwr => hw x (by simp) a hwr ha), hst a ha]
    rcases ih (fun z hz => hc z (by simp [hz])) (fun z hz => hw z (by simp [hz])) (step st x) hst' y hy with h | h
    · rcases step_cp st x y h with h | ⟨a, i, s, hcf, hs, hid⟩
      · exact Or.inl h
      · have ha := hc x (by simp) a hcf
        obtain ⟨l, hl, hi, _⟩ := getSlot_eq_some.1 hs
        exact Or.inr ⟨a, l, s, ha, by rw [← hst a ha, hl], List.mem_of_getElem? hi, hid⟩
    · exact Or.inr h

end Fcppt.C05
