import FcpptProofs.C05.Keeps
set_option linter.unusedSimpArgs false
set_option linter.unusedVariables false
/-!
# C05 lemmas — the registered operations that keep all elements: their values all go to the result and the
program consumes every element object of an rvalue argument
-/
namespace Fcppt.C05

/-! ## all values go to the result -/

theorem allToRes_nil : AllToRes [] := fun x hx => absurd hx List.not_mem_nil

theorem allToRes_append {p q : List Instr} (hp : AllToRes p) (hq : AllToRes q) : AllToRes (p ++ q) :=
  fun x hx => (List.mem_append.1 hx).elim (hp x) (hq x)

theorem allToRes_cons {x : Instr} {q : List Instr} (hx : ∀ d, x.dest = some d → d = .res) (hq : AllToRes q) : AllToRes (x :: q) :=
  fun y hy => (List.mem_cons.1 hy).elim (fun e => e ▸ hx) (hq y)

theorem allToRes_ite {c : Prop} [Decidable c] {p q : List Instr} (hp : AllToRes p) (hq : AllToRes q) :
    AllToRes (if c then p else q) := by
  split <;> assumption

theorem allToRes_map {α : Type} (l : List α) (f : α → Instr) (h : ∀ i, ∀ d, (f i).dest = some d → d = .res) :
    AllToRes (l.map f) := by
  intro x hx
  obtain ⟨i, _, rfl⟩ := List.mem_map.1 hx
  exact h i

theorem dest_res_of (d0 : Dest) (h0 : d0 = .res) : ∀ d, some d0 = some d → d = .res := by
  intro d hd; cases hd; exact h0

theorem allToRes_xferAll (a n : Nat) (m : Mode) : AllToRes (xferAll a n m .res) :=
  allToRes_map _ _ (fun i d hd => by cases hd; rfl)

theorem allToRes_readAll (a n : Nat) : AllToRes (readAll a n) :=
  allToRes_map _ _ (fun i d hd => by cases hd)

theorem allToRes_callAll (rv : Bool) (a n : Nat) : AllToRes (callAll rv a n .res) := by
  unfold callAll
  exact allToRes_ite (allToRes_xferAll a n .move) (allToRes_map _ _ (fun i d hd => by cases hd; rfl))

theorem allToRes_deriveEach (a : Nat) (ks : List Nat) : AllToRes (deriveEach a ks .res) :=
  allToRes_map _ _ (fun i d hd => by cases hd; rfl)

theorem allToRes_whole (rv : Bool) (a n : Nat) : AllToRes (whole rv a n .res) := by
  unfold whole
  exact allToRes_ite (allToRes_cons (fun d hd => by cases hd; rfl) allToRes_nil) (allToRes_xferAll a n .copy)

theorem allToRes_reverseInPlace (a n : Nat) : AllToRes (reverseInPlace a n) :=
  allToRes_map _ _ (fun i d hd => by cases hd)

theorem allToRes_gather (a : Nat) (idx : List Nat) (m : Mode) : AllToRes (gather a idx m .res) :=
  allToRes_map _ _ (fun i d hd => by cases hd; rfl)

theorem allToRes_singleton_res (x : Instr) (h : ∀ d, x.dest = some d → d = .res) : AllToRes [x] :=
  allToRes_cons h allToRes_nil

theorem callAt_dest (rv : Bool) (a i : Nat) (d : Dest) : (callAt rv a i d).dest = some d := by
  unfold callAt; cases rv <;> rfl

theorem allToRes_zipCall2 (rv0 rv1 : Bool) (n : Nat) : AllToRes (zipCall2 rv0 rv1 n .res) := by
  intro x hx d hd
  obtain ⟨i, _, rfl | rfl⟩ := mem_zipCall2 hx <;> (rw [callAt_dest] at hd; cases hd; rfl)

theorem allToRes_freshRange (n : Nat) : AllToRes (freshRange n .res) :=
  allToRes_map _ _ (fun i d hd => by cases hd; rfl)

theorem allToRes_callAt (rv : Bool) (a i : Nat) : AllToRes [callAt rv a i .res] :=
  allToRes_singleton_res _ (fun d hd => by rw [callAt_dest] at hd; cases hd; rfl)

/-- closes `AllToRes (prog o inp)` goals built from the builders -/
macro "all_to_res" : tactic =>
  `(tactic| repeat' (first
      | exact allToRes_nil | exact allToRes_xferAll _ _ _ | exact allToRes_readAll _ _ | exact allToRes_callAll _ _ _
      | exact allToRes_deriveEach _ _ | exact allToRes_whole _ _ _ | exact allToRes_reverseInPlace _ _
      | exact allToRes_gather _ _ _ | exact allToRes_zipCall2 _ _ _ | exact allToRes_freshRange _ | exact allToRes_callAt _ _ _
      | exact allToRes_singleton_res _ (fun d hd => by cases hd; rfl)
      | apply allToRes_append | apply allToRes_ite | apply allToRes_cons (fun d hd => by cases hd; rfl)))

theorem prog_allToRes (o : Op) (inp : Input) (a : Nat) (h : keeps o inp a = true) : AllToRes (prog o inp) := by
  cases o <;> simp only [keeps, Bool.false_eq_true] at h <;> simp only [prog] <;> first | (all_to_res; done) | skip
  case optBind =>
    -- the function keeps the element (`par0 = 1`): the branch that lets it die is excluded
    simp only [beq_iff_eq] at h
    simp only [h, if_true]
    all_to_res
  -- eithSequence: a match on the position of the first failure
  case eithSequence => split <;> all_to_res

/-! ## the program consumes every element object of the argument -/

def Covers (a n : Nat) (p : List Instr) : Prop := ∀ i, i < n → ∃ x ∈ p, x.kills a i

theorem covers_left {a n : Nat} {p : List Instr} (q : List Instr) (h : Covers a n p) : Covers a n (p ++ q) :=
  fun i hi => let ⟨x, hx, hk⟩ := h i hi; ⟨x, List.mem_append_left q hx, hk⟩

theorem covers_right {a n : Nat} (p : List Instr) {q : List Instr} (h : Covers a n q) : Covers a n (p ++ q) :=
  fun i hi => let ⟨x, hx, hk⟩ := h i hi; ⟨x, List.mem_append_right p hx, hk⟩

theorem covers_cons {a n : Nat} (y : Instr) {q : List Instr} (h : Covers a n q) : Covers a n (y :: q) :=
  fun i hi => let ⟨x, hx, hk⟩ := h i hi; ⟨x, List.mem_cons_of_mem y hx, hk⟩

theorem covers_xferAll_move (a n : Nat) (d : Dest) : Covers a n (xferAll a n .move d) := by
  intro i hi
  exact ⟨.xfer a i .move d, List.mem_map.2 ⟨i, List.mem_range.2 hi, rfl⟩, ⟨rfl, rfl⟩⟩

theorem covers_callAll (a n : Nat) (d : Dest) : Covers a n (callAll true a n d) := by
  simp only [callAll, if_true]; exact covers_xferAll_move a n d

theorem covers_whole (a n : Nat) (d : Dest) : Covers a n (whole true a n d) := by
  intro i hi
  exact ⟨.steal a d, by simp [whole], rfl⟩

theorem covers_steal (a n : Nat) (d : Dest) : Covers a n [.steal a d] :=
  fun i hi => ⟨.steal a d, by simp, rfl⟩

theorem covers_zipCall2_left {n m : Nat} (rv1 : Bool) (d : Dest) (h : n ≤ m) : Covers 0 n (zipCall2 true rv1 m d) := by
  intro i hi
  refine ⟨.xfer 0 i .move d, ?_, ⟨rfl, rfl⟩⟩
  simp only [zipCall2, List.mem_flatMap, List.mem_range]
  exact ⟨i, by omega, by simp [callAt]⟩

theorem covers_zipCall2_right {n m : Nat} (rv0 : Bool) (d : Dest) (h : n ≤ m) : Covers 1 n (zipCall2 rv0 true m d) := by
  intro i hi
  refine ⟨.xfer 1 i .move d, ?_, ⟨rfl, rfl⟩⟩
  simp only [zipCall2, List.mem_flatMap, List.mem_range]
  exact ⟨i, by omega, by simp [callAt]⟩

theorem covers_zero (a : Nat) (p : List Instr) : Covers a 0 p := fun i hi => absurd hi (Nat.not_lt_zero i)

theorem nodup_subset_length_le : ∀ (l₁ l₂ : List Nat), l₁.Nodup → l₁ ⊆ l₂ → l₁.length ≤ l₂.length
  | [], _, _, _ => Nat.zero_le _
  | x :: xs, l₂, hnd, hsub => by
    have hx : x ∈ l₂ := hsub (by simp)
    obtain ⟨hxn, hnd'⟩ := List.nodup_cons.1 hnd
    have hsub' : xs ⊆ l₂.erase x := by
      intro y hy
      have hyx : y ≠ x := fun e => hxn (e ▸ hy)
      exact (List.mem_erase_of_ne hyx).2 (hsub (by simp [hy]))
    have ih := nodup_subset_length_le xs (l₂.erase x) hnd' hsub'
    rw [List.length_erase_of_mem hx] at ih
    have : 0 < l₂.length := List.length_pos_of_mem hx
    simp only [List.length_cons]
    omega

/-- a duplicate-free list of `n` positions below `n` lists every position -/
theorem perm_covers (n : Nat) (l : List Nat) (hnd : l.Nodup) (hlen : l.length = n) (hb : ∀ i ∈ l, i < n) :
    ∀ i, i < n → i ∈ l := by
  intro i hi
  refine Classical.byContradiction fun hni => ?_
  have hsub : l ⊆ (List.range n).erase i := by
    intro j hj
    have hji : j ≠ i := fun e => hni (e ▸ hj)
    exact (List.mem_erase_of_ne hji).2 (List.mem_range.2 (hb j hj))
  have h1 := nodup_subset_length_le _ _ hnd hsub
  have h2 : ((List.range n).erase i).length = n - 1 := by
    rw [List.length_erase_of_mem (List.mem_range.2 hi), List.length_range]
  omega

theorem covers_gather (a n : Nat) (idx : List Nat) (d : Dest) (hnd : idx.Nodup) (hlen : idx.length = n) (hb : ∀ i ∈ idx, i < n) :
    Covers a n (gather a idx .move d) := by
  intro i hi
  exact ⟨.xfer a i .move d, List.mem_map.2 ⟨i, perm_covers n idx hnd hlen hb i hi, rfl⟩, ⟨rfl, rfl⟩⟩

syntax "covers_tac" : tactic
macro_rules
  | `(tactic| covers_tac) => `(tactic| first
      | exact covers_zero _ _
      | exact covers_xferAll_move _ _ _
      | exact covers_callAll _ _ _
      | exact covers_whole _ _ _
      | exact covers_steal _ _ _
      | exact covers_zipCall2_left _ _ (Nat.le_refl _)
      | exact covers_zipCall2_right _ _ (Nat.le_refl _)
      | (apply covers_left; covers_tac)
      | (apply covers_right; covers_tac)
      | (apply covers_cons; covers_tac))

theorem fwd_true : fwd true = .move := rfl

theorem covers_of_zero (a : Nat) {n : Nat} (p : List Instr) (h : n = 0) : Covers a n p := h ▸ covers_zero a p

theorem covers_head_one (a : Nat) {n : Nat} (d : Dest) (q : List Instr) (h : n = 1) : Covers a n (.xfer a 0 .move d :: q) := by
  intro i hi
  have : i = 0 := by omega
  subst this
  exact ⟨.xfer a 0 .move d, List.mem_cons_self, ⟨rfl, rfl⟩⟩

theorem arg_lt_of_rv {inp : Input} {a : Nat} (h : inp.cat a = some .rv) : a < inp.args.length := cat_lt inp a _ h

/-- the registry in chunks (one `Covers` theorem per chunk keeps every declaration small): 0 = the first round, 1.. = extension rounds -/
def chunk : Op → Nat
  | .tupInvoke | .tupApply2 | .tupFromArray | .tupMake2 | .tupInit | .arrApply2 | .arrInit | .arrMake2 | .recCtor2 | .recInit
  | .optMake | .optCtor | .optAssign | .optToException | .optMakeIf | .optMaybe | .optMaybeVoid | .optMaybeMulti2 | .optMaybeVoidMulti2
  | .optCopyValue
  | .eithMakeSuccess | .eithMakeFailure | .eithCtor | .eithConstruct | .eithTryCall | .eithToException | .eithErrorFromOptional
  | .eithSequenceError | .eithLoop | .varCtor => 1
  | .varMatch | .varApply | .varApply2 | .varToOptional | .tupMap | .tupPushBack | .tupConcat | .arrMap | .arrPushBack | .arrJoin2
  | .arrJoin3 | .arrFromRange | .recMap | .recPermute | .recMultiplyDisjoint | .contMake | .gridMap | .gridApply2 | .gridResize
  | .treeCtor | .treePushValue | .treePushTree | .treeRelease | .treeMap | .optsFlag | .optsOption | .parseSequence
  | .parseRepetition => 2
  | .algFindOpt | .algIndexOf | .algContains | .algFindIfOpt | .algFindByOpt | .algGenerateN
  | .algMapIteration | .algMapIterationSecond | .algSeqIteration
  | .contInsert | .contSetUnion | .contSetDifference | .contSetIntersection | .contMapValuesCopy
  | .contAtOptional | .contMaybeBack | .contMaybeFront | .contFindOptMapped | .contIndexMapGet
  | .treeCtorTree | .treeCtorChildren | .treeAssign | .treeSelfAssign | .treeSetValue
  | .treePushFrontValue | .treeInsertValue | .treePushFrontTree | .treeInsertTree | .treePopBack | .treePopFront
  | .treeErase | .treeEraseRange | .treeClear | .treeSort
  | .gridCtorFn | .gridCtorValue | .gridCtorRows2 | .gridStaticRow2 | .gridCtorGrid | .gridAssign | .gridSelfAssign | .gridFill
  | .treeSwap | .treeSortPred | .joinSelf | .arrJoinSelf | .tupConcatSelf | .optCombineSelf
  | .algMapList | .algMapArr | .algMapTup | .algLoopBreakTuple | .recSet | .algRemoveIf | .algRemove | .algUnique | .algUniqueIf | .algSeqIterationVec
  | .parseAlt | .parseOpt | .parseConvert | .parseAsStruct | .parseSeparator | .parseList | .parseRepPlus
  | .optsArgument | .optsOptional | .optsProduct | .optsMany | .optsSum => 3
  | _ => 0

/-- the common part of the `Covers` proofs: after `cases o`, goals of other chunks are closed, the value categories are substituted
and the builders' covering lemmas tried; what is left is closed per operation -/
syntax "covers_script" : tactic
set_option hygiene false in
macro_rules
  | `(tactic| covers_script) => `(tactic| (
      first
      | (exfalso; revert hc; decide)
      | (simp only [keeps, Bool.false_eq_true] at hk <;> simp only [shapeOk, Bool.and_eq_true, beq_iff_eq] at hs <;>
         (have h3 : a = 0 ∨ a = 1 ∨ a = 2 := by omega
          rcases h3 with rfl | rfl | rfl <;> simp only [prog, hr, hmv, fwd_true, hk, if_true] <;>
           first
           | covers_tac
           | (exfalso; omega)
           | (exfalso; simp at hk; done)
           | (split <;> first | covers_tac | exact covers_of_zero _ _ (by assumption))
           | skip))))

theorem prog_covers_0 (o : Op) (inp : Input) (a : Nat) (hc : chunk o = 0) (hw : wf o inp = true) (hk : keeps o inp a = true)
    (ha : inp.cat a = some .rv) : Covers a (inp.size a) (prog o inp) := by
  have hr : inp.isRv a = true := (isRv_iff inp a).2 ha
  have hlt := arg_lt_of_rv ha
  have hmv : inp.isMv a = true := by simp [Input.isMv, ha]
  have hs := shape_of_wf hw
  cases o <;> covers_script
  case fold =>
    obtain ⟨⟨⟨⟨_, _⟩, _⟩, hn1⟩, _⟩ := hs
    exact covers_head_one _ _ _ hn1
  case foldBreak =>
    obtain ⟨⟨⟨⟨_, _⟩, _⟩, hn1⟩, _⟩ := hs
    exact covers_head_one _ _ _ hn1
  case optFilter =>
    simp only [beq_iff_eq] at hk
    simp only [hk, if_true]
    covers_tac
  case optApply2 =>
    simp only [Bool.and_eq_true, beq_iff_eq] at hk
    simp only [hk.1, hk.2]
    exact covers_zipCall2_left _ _ (by omega)
  case optApply2 =>
    simp only [Bool.and_eq_true, beq_iff_eq] at hk
    simp only [hk.1, hk.2]
    exact covers_zipCall2_right _ _ (by omega)
  case eithSequence =>
    split
    · rename_i k hfind
      exfalso
      obtain ⟨hlt', hp, _⟩ := List.findIdx?_eq_some_iff_getElem.1 hfind
      have := List.all_eq_true.1 hk _ (List.getElem_mem hlt')
      simp only [beq_iff_eq] at hp this
      omega
    · covers_tac


theorem prog_covers_1 (o : Op) (inp : Input) (a : Nat) (hc : chunk o = 1) (hw : wf o inp = true) (hk : keeps o inp a = true)
    (ha : inp.cat a = some .rv) : Covers a (inp.size a) (prog o inp) := by
  have hr : inp.isRv a = true := (isRv_iff inp a).2 ha
  have hlt := arg_lt_of_rv ha
  have hmv : inp.isMv a = true := by simp [Input.isMv, ha]
  have hs := shape_of_wf hw
  cases o <;> covers_script
  case arrApply2 => exact covers_zipCall2_right _ _ (by omega)
  case optMaybeMulti2 =>
    simp only [Bool.and_eq_true, beq_iff_eq] at hk
    simp only [hk.1, hk.2]
    exact covers_zipCall2_left _ _ (by omega)
  case optMaybeMulti2 =>
    simp only [Bool.and_eq_true, beq_iff_eq] at hk
    simp only [hk.1, hk.2]
    exact covers_zipCall2_right _ _ (by omega)
  case optMaybeVoidMulti2 =>
    simp only [Bool.and_eq_true, beq_iff_eq] at hk
    simp only [hk.1, hk.2]
    exact covers_zipCall2_left _ _ (by omega)
  case optMaybeVoidMulti2 =>
    simp only [Bool.and_eq_true, beq_iff_eq] at hk
    simp only [hk.1, hk.2]
    exact covers_zipCall2_right _ _ (by omega)

theorem prog_covers_2 (o : Op) (inp : Input) (a : Nat) (hc : chunk o = 2) (hw : wf o inp = true) (hk : keeps o inp a = true)
    (ha : inp.cat a = some .rv) : Covers a (inp.size a) (prog o inp) := by
  have hr : inp.isRv a = true := (isRv_iff inp a).2 ha
  have hlt := arg_lt_of_rv ha
  have hmv : inp.isMv a = true := by simp [Input.isMv, ha]
  have hs := shape_of_wf hw
  cases o <;> covers_script
  case arrFromRange =>
    simp only [beq_iff_eq] at hk
    simp only [hk, if_true]
    covers_tac
  case recPermute =>
    simp only [decide_eq_true_eq, List.all_eq_true] at hs
    obtain ⟨⟨⟨⟨_, _⟩, hlen⟩, hnd⟩, hb⟩ := hs
    exact covers_gather 0 _ _ _ hnd hlen (fun i hi => by simpa using hb i hi)
  case varApply2 => exact covers_zipCall2_left _ _ (by omega)
  case varApply2 => exact covers_zipCall2_right _ _ (by omega)
  case gridApply2 =>
    simp only [Bool.and_eq_true, beq_iff_eq] at hk
    rw [if_pos hk]
    exact covers_zipCall2_left _ _ (Nat.le_refl _)
  case gridApply2 =>
    simp only [Bool.and_eq_true, beq_iff_eq] at hk
    rw [if_pos hk]
    refine covers_zipCall2_right _ _ ?_
    rw [← hs.1.2, ← hs.2, hk.1, hk.2]
    exact Nat.le_refl _

theorem prog_covers_3 (o : Op) (inp : Input) (a : Nat) (hc : chunk o = 3) (hw : wf o inp = true) (hk : keeps o inp a = true)
    (ha : inp.cat a = some .rv) : Covers a (inp.size a) (prog o inp) := by
  have hr : inp.isRv a = true := (isRv_iff inp a).2 ha
  have hlt := arg_lt_of_rv ha
  have hmv : inp.isMv a = true := by simp [Input.isMv, ha]
  have hs := shape_of_wf hw
  cases o <;> covers_script
  case treeCtorTree => exact covers_head_one _ _ _ hs.1.2
  case treeCtorTree =>
    have hr0 : inp.isRv 0 = true := by
      have := hs.1.1.2
      simp only [Input.isRv] at hr ⊢
      rw [this]; exact hr
    rw [if_pos hr0]
    exact covers_cons _ (covers_steal _ _ _)
  case treeCtorChildren => exact covers_head_one _ _ _ hs.1.2
  case treeCtorChildren =>
    have hr0 : inp.isRv 0 = true := by
      obtain ⟨c, hc0, hm⟩ := (catIn_iff inp 0 _).1 hs.1.1.1.2
      simp at hm; subst hm
      exact (isRv_iff inp 0).2 hc0
    rw [if_pos hr0]
    exact covers_cons _ (covers_steal _ _ _)

theorem chunk_le (o : Op) : chunk o = 0 ∨ chunk o = 1 ∨ chunk o = 2 ∨ chunk o = 3 := by cases o <;> decide

theorem prog_covers (o : Op) (inp : Input) (a : Nat) (hw : wf o inp = true) (hk : keeps o inp a = true)
    (ha : inp.cat a = some .rv) : Covers a (inp.size a) (prog o inp) := by
  rcases chunk_le o with hc | hc | hc | hc
  · exact prog_covers_0 o inp a hc hw hk ha
  · exact prog_covers_1 o inp a hc hw hk ha
  · exact prog_covers_2 o inp a hc hw hk ha
  · exact prog_covers_3 o inp a hc hw hk ha

end Fcppt.C05
