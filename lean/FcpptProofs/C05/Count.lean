import FcpptProofs.C05.Basic
set_option linter.unusedSimpArgs false
set_option linter.unusedVariables false
/-!
# C05 lemmas — counting live objects per identity

`Φ x = (live objects carrying x in arguments and result) + (destroyed live values carrying x)` changes only with copies;
`count x mv + (live caller's objects carrying x)` changes only with a move out of a moved-from object.
-/
namespace Fcppt.C05

def isLiveId (x : Nat) (s : Slot) : Bool := s.isLive && s.id == x
def isOrigId (x : Nat) (s : Slot) : Bool := s.isLive && s.orig && s.id == x

def argsCnt (f : Slot → Bool) (args : List (List Slot)) : Nat := (args.map (·.countP f)).sum

def St.live (st : St) (x : Nat) : Nat := argsCnt (isLiveId x) st.args + st.res.countP (isLiveId x)
def St.liveOrig (st : St) (x : Nat) : Nat := argsCnt (isOrigId x) st.args
/-- live objects + destroyed live values -/
def St.phi (st : St) (x : Nat) : Nat := st.live x + st.lost.count x

/-! ## counting under list updates -/

theorem countP_set_some (f : Slot → Bool) (l : List Slot) (i : Nat) (s s' : Slot) (h : l[i]? = some s) :
    (l.set i s').countP f + (f s).toNat = l.countP f + (f s').toNat := by
  induction l generalizing i with
  | nil => simp at h
  | cons y ys ih =>
    cases i with
    | zero =>
      simp at h; subst h
      simp [List.countP_cons]
      cases f y <;> cases f s' <;> simp <;> omega
    | succ i =>
      simp at h
      have := ih i h
      simp [List.countP_cons]
      omega

theorem argsCnt_modify (f : Slot → Bool) (args : List (List Slot)) (a : Nat) (g : List Slot → List Slot) (l : List Slot)
    (h : args[a]? = some l) : argsCnt f (args.modify a g) + l.countP f = argsCnt f args + (g l).countP f := by
  induction args generalizing a with
  | nil => simp at h
  | cons y ys ih =>
    cases a with
    | zero =>
      simp at h; subst h
      simp [argsCnt, List.modify]
      omega
    | succ a =>
      simp at h
      have := ih a h
      simp [argsCnt, List.modify] at this ⊢
      omega

theorem argsCnt_setSlot (f : Slot → Bool) (args : List (List Slot)) (a i : Nat) (s s' : Slot)
    (h : getSlot args a i = some s) :
    argsCnt f (setSlot args a i s') + (f s).toNat = argsCnt f args + (f s').toNat := by
  obtain ⟨l, hl, hi, _⟩ := getSlot_eq_some.1 h
  have h1 := argsCnt_modify f args a (·.set i s') l hl
  have h2 := countP_set_some f l i s s' hi
  simp only [setSlot]
  omega

theorem countP_val (f : Slot → Bool) (hf : ∀ s, f s.val = f s) (vs : List Slot) :
    (vs.map Slot.val).countP f = vs.countP f := by
  induction vs with
  | nil => rfl
  | cons v vs ih => simp [List.countP_cons, ih, hf]

theorem isLiveId_val (x : Nat) (s : Slot) : isLiveId x s.val = isLiveId x s := rfl
theorem isOrigId_val (x : Nat) (s : Slot) : isOrigId x s.val = false := by simp [isOrigId, Slot.val]

theorem count_lostOf (x : Nat) (vs : List Slot) : (lostOf vs).count x = vs.countP (isLiveId x) := by
  induction vs with
  | nil => rfl
  | cons v vs ih =>
    simp only [lostOf, List.filter_cons] at ih ⊢
    by_cases hv : v.isLive
    · simp [hv, List.countP_cons, isLiveId, ih, List.count_cons]
    · simp [hv, List.countP_cons, isLiveId, ih]

/-! ## `put` -/

theorem phi_put (st : St) (d : Dest) (vs : List Slot) (x : Nat) :
    (put st d vs).phi x = st.phi x + vs.countP (isLiveId x) := by
  unfold put
  cases d with
  | res =>
    simp [St.phi, St.live, countP_val _ (isLiveId_val x)]
    omega
  | drop =>
    simp [St.phi, St.live, count_lostOf]
    omega
  | arg a =>
    simp only
    split
    · rename_i ha
      have hsome : st.args[a]? = some st.args[a] := List.getElem?_eq_getElem ha
      have := argsCnt_modify (isLiveId x) st.args a (· ++ vs.map Slot.val) _ hsome
      simp [countP_val _ (isLiveId_val x)] at this
      simp [St.phi, St.live]
      omega
    · simp [St.phi, St.live, count_lostOf]
      omega

theorem liveOrig_put (st : St) (d : Dest) (vs : List Slot) (x : Nat) :
    (put st d vs).liveOrig x = st.liveOrig x := by
  unfold put
  cases d with
  | res => rfl
  | drop => rfl
  | arg a =>
    simp only
    split
    · rename_i ha
      have hsome : st.args[a]? = some st.args[a] := List.getElem?_eq_getElem ha
      have := argsCnt_modify (isOrigId x) st.args a (· ++ vs.map Slot.val) _ hsome
      have h0 : (vs.map Slot.val).countP (isOrigId x) = 0 := by
        simp [List.countP_eq_zero, isOrigId_val]
      simp [h0] at this
      simp [St.liveOrig]
      omega
    · rfl

/-! ## one step -/

/-- how the counters of identity `x` may change from `st` to `st'` -/
structure Ineq (x : Nat) (st st' : St) : Prop where
  /-- live objects only appear through copies -/
  e1 : st'.phi x + st.cp.count x ≤ st.phi x + st'.cp.count x
  /-- and every copy of a live object is one (copies of moved-from objects are logged in `ram`) -/
  e2 : st.phi x + st'.cp.count x + st.ram.count x ≤ st'.phi x + st.cp.count x + st'.ram.count x
  /-- a move out of a caller's object uses up a live caller's object (or is logged in `ram`) -/
  d : st'.mv.count x + st'.liveOrig x + st.ram.count x ≤ st.mv.count x + st.liveOrig x + st'.ram.count x

theorem Ineq.refl (x : Nat) (st : St) : Ineq x st st := ⟨Nat.le_refl _, Nat.le_refl _, Nat.le_refl _⟩

theorem Ineq.trans {x : Nat} {a b c : St} (h1 : Ineq x a b) (h2 : Ineq x b c) : Ineq x a c := by
  obtain ⟨a1, a2, a3⟩ := h1
  obtain ⟨b1, b2, b3⟩ := h2
  exact ⟨by omega, by omega, by omega⟩

/-- `put` of values none of which is a live `x` changes nothing; of one live `x`: like a copy without the event -/
theorem Ineq.put {x : Nat} {st st' : St} (d : Dest) (vs : List Slot) (k : Nat) (hk : vs.countP (isLiveId x) = k)
    (e1 : st'.phi x + k + st.cp.count x ≤ st.phi x + st'.cp.count x)
    (e2 : st.phi x + st'.cp.count x + st.ram.count x ≤ st'.phi x + k + st.cp.count x + st'.ram.count x)
    (hd : st'.mv.count x + st'.liveOrig x + st.ram.count x ≤ st.mv.count x + st.liveOrig x + st'.ram.count x) :
    Ineq x st (Fcppt.C05.put st' d vs) := by
  refine ⟨?_, ?_, ?_⟩
  · rw [phi_put, put_cp, hk]; omega
  · rw [phi_put, put_cp, put_ram, hk]; omega
  · rw [put_mv, liveOrig_put, put_ram]; exact hd

theorem slot_cases (s : Slot) (h : s.st ≠ .gone) : s.st = .live ∨ s.st = .moved := by
  cases hs : s.st <;> simp_all

theorem count_derived (x id k : Nat) (hx : x < 100) : (derived id k).countP (isLiveId x) = 0 := by
  simp only [List.countP_eq_zero, derived, List.mem_map, List.mem_range]
  rintro s ⟨j, _, rfl⟩
  simp [isLiveId]
  omega

theorem countP_filter_present (f : Slot → Bool) (hf : ∀ s, f s = true → s.st ≠ .gone) (l : List Slot) :
    (l.filter (·.st ≠ .gone)).countP f = l.countP f := by
  induction l with
  | nil => rfl
  | cons y ys ih =>
    by_cases hy : y.st = .gone
    · have : f y = false := by
        cases hfy : f y
        · rfl
        · exact absurd hy (hf y hfy)
      simp [List.filter_cons, hy, List.countP_cons, this] at ih ⊢; exact ih
    · simp [List.filter_cons, hy, List.countP_cons] at ih ⊢; rw [ih]

theorem countP_map_gone (f : Slot → Bool) (hf : ∀ s, f s = true → s.st ≠ .gone) (l : List Slot) :
    (l.map fun s => { s with st := SlotSt.gone }).countP f = 0 := by
  simp only [List.countP_eq_zero, List.mem_map]
  rintro s ⟨t, _, rfl⟩
  cases hfy : f { t with st := SlotSt.gone }
  · simp
  · exact absurd rfl (hf _ hfy)

theorem isLiveId_ne_gone (x : Nat) (s : Slot) (h : isLiveId x s = true) : s.st ≠ .gone := by
  simp [isLiveId, Slot.isLive] at h
  rw [h.1]; decide

theorem isOrigId_ne_gone (x : Nat) (s : Slot) (h : isOrigId x s = true) : s.st ≠ .gone := by
  simp [isOrigId, Slot.isLive] at h
  rw [h.1.1]; decide

end Fcppt.C05
