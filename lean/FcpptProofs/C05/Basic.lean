import FcpptModel.Model.C05.Machine
set_option linter.unusedSimpArgs false
/-!
# C05 lemmas — slots, `put`, and which arguments an instruction writes / copies from
-/
namespace Fcppt.C05

/-! ## syntactic footprint of an instruction -/

def Dest.isArg (d : Dest) (b : Nat) : Prop := d = .arg b

instance (d : Dest) (b : Nat) : Decidable (d.isArg b) := by unfold Dest.isArg; infer_instance

/-- the instruction changes the content of argument `b` -/
def Instr.writes : Instr → Nat → Prop
  | .xfer a _ .move d, b => a = b ∨ d = .arg b
  | .xfer _ _ .copy d, b => d = .arg b
  | .derive _ _ _ d, b => d = .arg b
  | .read _ _, _ => False
  | .steal a d, b => a = b ∨ d = .arg b
  | .pop a _ d, b => a = b ∨ d = .arg b
  | .swap a _ _, b => a = b
  | .fresh _ d, b => d = .arg b
  | .shift a _, b => a = b

/-- the instruction copy-constructs from an element of argument `b` -/
def Instr.copiesFrom : Instr → Nat → Prop
  | .xfer a _ .copy _, b => a = b
  | _, _ => False

/-- the instruction accesses element object `(b, j)`, which has to exist and to be live -/
def Instr.uses : Instr → Nat → Nat → Prop
  | .xfer a i _ _, b, j => a = b ∧ i = j
  | .derive a i _ _, b, j => a = b ∧ i = j
  | .read a i, b, j => a = b ∧ i = j
  | .shift a i, b, j => a = b ∧ i = j
  | .pop a i _, b, j => a = b ∧ i = j
  | .swap a i i', b, j => a = b ∧ (i = j ∨ i' = j)
  | .steal _ _, _, _ => False
  | .fresh _ _, _, _ => False

/-- after the instruction, element object `(b, j)` is moved-from or destroyed -/
def Instr.kills : Instr → Nat → Nat → Prop
  | .xfer a i .move _, b, j => a = b ∧ i = j
  | .pop a i _, b, j => a = b ∧ i = j
  | .steal a _, b, _ => a = b
  | _, _, _ => False

/-- the containers the instruction needs to exist -/
def Instr.needsArg : Instr → Nat → Prop
  | .steal a d, b => a = b ∨ d = .arg b
  | .xfer _ _ _ d, b => d = .arg b
  | .derive _ _ _ d, b => d = .arg b
  | .pop _ _ d, b => d = .arg b
  | .fresh _ d, b => d = .arg b
  | _, _ => False

def Instr.freshId : Instr → Option Nat
  | .fresh v _ => some v
  | _ => none

/-! ## getSlot / setSlot -/

theorem getSlot_eq_some {args : List (List Slot)} {a i : Nat} {s : Slot} :
    getSlot args a i = some s ↔ ∃ l, args[a]? = some l ∧ l[i]? = some s ∧ s.st ≠ .gone := by
  simp only [getSlot, Option.filter_eq_some_iff, Option.bind_eq_some_iff, decide_eq_true_eq]
  constructor
  · rintro ⟨⟨l, h1, h2⟩, h3⟩; exact ⟨l, h1, h2, h3⟩
  · rintro ⟨l, h1, h2, h3⟩; exact ⟨⟨l, h1, h2⟩, h3⟩

theorem setSlot_getElem? (args : List (List Slot)) (a i : Nat) (s : Slot) (b : Nat) :
    (setSlot args a i s)[b]? = if a = b then (args[b]?).map (·.set i s) else args[b]? := by
  unfold setSlot
  rw [List.getElem?_modify]
  by_cases h : a = b
  · simp [h]
  · simp [h]

theorem setSlot_length (args : List (List Slot)) (a i : Nat) (s : Slot) : (setSlot args a i s).length = args.length := by
  simp [setSlot]

theorem getSlot_setSlot_ne (args : List (List Slot)) (a i : Nat) (s : Slot) (b j : Nat) (h : ¬ (a = b ∧ i = j)) :
    getSlot (setSlot args a i s) b j = getSlot args b j := by
  unfold getSlot
  rw [setSlot_getElem?]
  by_cases hab : a = b
  · subst hab
    have hij : i ≠ j := fun e => h ⟨rfl, e⟩
    cases hl : args[a]? with
    | none => simp
    | some l => simp [hij]
  · simp [hab]

theorem getSlot_setSlot_eq {args : List (List Slot)} {a i : Nat} {t : Slot} (s : Slot)
    (h : getSlot args a i = some t) (hs : s.st ≠ .gone) : getSlot (setSlot args a i s) a i = some s := by
  obtain ⟨l, hl, hi, _⟩ := getSlot_eq_some.1 h
  have hlt : i < l.length := by
    rcases Nat.lt_or_ge i l.length with h | h
    · exact h
    · rw [List.getElem?_eq_none h] at hi; cases hi
  rw [getSlot_eq_some]
  refine ⟨l.set i s, ?_, ?_, hs⟩
  · rw [setSlot_getElem?]; simp [hl]
  · simp [hlt]

/-! ## put -/

@[simp] theorem put_cp (st : St) (d : Dest) (vs : List Slot) : (put st d vs).cp = st.cp := by
  unfold put; cases d <;> simp; split <;> rfl
@[simp] theorem put_mv (st : St) (d : Dest) (vs : List Slot) : (put st d vs).mv = st.mv := by
  unfold put; cases d <;> simp; split <;> rfl
@[simp] theorem put_sw (st : St) (d : Dest) (vs : List Slot) : (put st d vs).sw = st.sw := by
  unfold put; cases d <;> simp; split <;> rfl
@[simp] theorem put_ram (st : St) (d : Dest) (vs : List Slot) : (put st d vs).ram = st.ram := by
  unfold put; cases d <;> simp; split <;> rfl

theorem put_args_length (st : St) (d : Dest) (vs : List Slot) : (put st d vs).args.length = st.args.length := by
  unfold put; cases d <;> simp; split <;> simp

theorem put_args_getElem? (st : St) (d : Dest) (vs : List Slot) (b : Nat) (h : d ≠ .arg b) :
    (put st d vs).args[b]? = st.args[b]? := by
  unfold put
  cases d with
  | res => rfl
  | drop => rfl
  | arg a =>
    have hab : a ≠ b := fun e => h (by rw [e])
    simp only
    split
    · simp [List.getElem?_modify, hab]
    · rfl

theorem getSlot_put {st : St} (d : Dest) (vs : List Slot) {b j : Nat} {s : Slot}
    (h : getSlot st.args b j = some s) : getSlot (put st d vs).args b j = some s := by
  unfold put
  cases d with
  | res => exact h
  | drop => exact h
  | arg a =>
    simp only
    split
    · obtain ⟨l, hl, hj, hs⟩ := getSlot_eq_some.1 h
      rw [getSlot_eq_some]
      by_cases hab : a = b
      · subst hab
        refine ⟨l ++ vs.map Slot.val, by simp [List.getElem?_modify, hl], ?_, hs⟩
        have hlt : j < l.length := by
          rcases Nat.lt_or_ge j l.length with h | h
          · exact h
          · rw [List.getElem?_eq_none h] at hj; cases hj
        rw [List.getElem?_append_left hlt]; exact hj
      · exact ⟨l, by simp [List.getElem?_modify, hab, hl], hj, hs⟩
    · exact h

/-- the oob log only grows by `put` when the destination container does not exist -/
theorem put_oob (st : St) (d : Dest) (vs : List Slot) (h : ∀ a, d = .arg a → a < st.args.length) :
    (put st d vs).oob = st.oob := by
  unfold put
  cases d with
  | res => rfl
  | drop => rfl
  | arg a => simp [h a rfl]

/-! ## arguments an instruction does not write stay as they are -/

theorem noteRam_args (st : St) (s : Slot) : (noteRam st s).args = st.args := by
  unfold noteRam; split <;> rfl

theorem noteOob_args (st : St) (a i : Nat) : (noteOob st a i).args = st.args := rfl

theorem step_args_untouched (st : St) (x : Instr) (b : Nat) (h : ¬ x.writes b) :
    (step st x).args[b]? = st.args[b]? := by
  cases x with
  | xfer a i m d =>
    cases m with
    | move =>
      simp only [Instr.writes, not_or] at h
      simp only [step]
      split
      · rfl
      · rw [put_args_getElem? _ _ _ _ (fun e => h.2 e)]
        simp [setSlot_getElem?, h.1, noteRam_args]
    | copy =>
      simp only [Instr.writes] at h
      simp only [step]
      split
      · rfl
      · rw [put_args_getElem? _ _ _ _ h]; simp [noteRam_args]
  | derive a i k d =>
    simp only [Instr.writes] at h
    simp only [step]
    split
    · rfl
    · rw [put_args_getElem? _ _ _ _ h]; simp [noteRam_args]
  | read a i =>
    simp only [step]
    split
    · rfl
    · simp [noteRam_args]
  | steal a d =>
    simp only [Instr.writes, not_or] at h
    simp only [step]
    split
    · rfl
    · rw [put_args_getElem? _ _ _ _ (fun e => h.2 e)]
      simp [List.getElem?_modify, h.1]
  | pop a i d =>
    simp only [Instr.writes, not_or] at h
    simp only [step]
    split
    · rfl
    · rw [put_args_getElem? _ _ _ _ (fun e => h.2 e)]
      simp [setSlot_getElem?, h.1, noteRam_args]
  | swap a i j =>
    simp only [Instr.writes] at h
    simp only [step]
    split
    · simp [setSlot_getElem?, h, noteRam_args]
    · rfl
    · rfl
  | fresh v d =>
    simp only [Instr.writes] at h
    simp only [step]
    rw [put_args_getElem? _ _ _ _ h]
  | shift a i =>
    simp only [step]
    split
    · rfl
    · simp [noteRam_args]

theorem run_args_untouched (p : List Instr) (st : St) (b : Nat) (h : ∀ x ∈ p, ¬ x.writes b) :
    (run p st).args[b]? = st.args[b]? := by
  induction p generalizing st with
  | nil => rfl
  | cons x xs ih =>
    simp only [run, List.foldl_cons]
    have := ih (step st x) (fun y hy => h y (by simp [hy]))
    simp only [run] at this
    rw [this, step_args_untouched st x b (h x (by simp))]

end Fcppt.C05
