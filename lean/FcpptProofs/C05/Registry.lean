import FcpptProofs.C05.Builders
set_option linter.unusedSimpArgs false
set_option linter.unusedVariables false
/-!
# C05 lemmas — every registered operation's program is safe (for all sizes)
-/
namespace Fcppt.C05

theorem rvio_rv : ∀ c ∈ [Cat.rv], c = .rv ∨ c = .io := by simp
theorem rvio_io : ∀ c ∈ [Cat.io], c = .rv ∨ c = .io := by simp

theorem shape_of_wf {o : Op} {inp : Input} (h : wf o inp = true) : shapeOk o inp = true := by
  simp only [wf, Bool.and_eq_true] at h; exact h.2

theorem wf_ids {o : Op} {inp : Input} (h : wf o inp = true) : idsOk inp = true := by
  simp only [wf, Bool.and_eq_true] at h; exact h.1

theorem safe_algMap (inp : Input) (h : wf .algMap inp = true) : Safe inp (prog .algMap inp) := by
  have hs := shape_of_wf h
  simp only [shapeOk, Bool.and_eq_true] at hs
  exact safe_callAll hs.1.2 (Nat.le_refl _) (destOk_res inp)

theorem safe_fold (inp : Input) (h : wf .fold inp = true) : Safe inp (prog .fold inp) := by
  have hs := shape_of_wf h
  simp only [shapeOk, Bool.and_eq_true, beq_iff_eq] at hs
  obtain ⟨⟨⟨⟨_, h0⟩, h1⟩, hn1⟩, _⟩ := hs
  refine safe_cons ((ok_xfer_move inp 1 0 .res).2 ⟨not_lvcr_of_in h1 rvio_rv, by omega, destOk_res inp⟩)
    (safe_deriveEach (by simp) (destOk_res inp)) ?_
  intro y hy b j hk hu
  have := onArg_deriveEach 0 _ _ y hy b j (Or.inr hu)
  simp [Instr.kills] at hk
  omega

theorem safe_foldBreak (inp : Input) (h : wf .foldBreak inp = true) : Safe inp (prog .foldBreak inp) := by
  have hs := shape_of_wf h
  simp only [shapeOk, Bool.and_eq_true, beq_iff_eq] at hs
  obtain ⟨⟨⟨⟨_, h0⟩, h1⟩, hn1⟩, _⟩ := hs
  refine safe_cons ((ok_xfer_move inp 1 0 .res).2 ⟨not_lvcr_of_in h1 rvio_rv, by omega, destOk_res inp⟩)
    (safe_deriveEach (by simp; exact Nat.min_le_left _ _) (destOk_res inp)) ?_
  intro y hy b j hk hu
  have := onArg_deriveEach 0 _ _ y hy b j (Or.inr hu)
  simp [Instr.kills] at hk
  omega

theorem safe_mapConcat (inp : Input) (h : wf .mapConcat inp = true) : Safe inp (prog .mapConcat inp) := by
  have hs := shape_of_wf h
  simp only [shapeOk, Bool.and_eq_true, beq_iff_eq] at hs
  exact safe_deriveEach (by omega) (destOk_res inp)

theorem safe_mapOptional (inp : Input) (h : wf .mapOptional inp = true) : Safe inp (prog .mapOptional inp) := by
  have hs := shape_of_wf h
  simp only [shapeOk, Bool.and_eq_true, beq_iff_eq] at hs
  exact safe_deriveEach (by omega) (destOk_res inp)

theorem safe_reverse (inp : Input) (h : wf .reverse inp = true) : Safe inp (prog .reverse inp) := by
  have hs := shape_of_wf h
  simp only [shapeOk, Bool.and_eq_true] at hs
  have h0 := hs.1.2
  simp only [prog]
  cases hr : inp.isRv 0
  · simp only [Bool.false_eq_true, if_false]
    have hl := lvcr_of_any h0 hr
    refine ⟨?_, ?_⟩
    · intro x hx
      simp only [List.mem_map, List.mem_reverse, List.mem_range] at hx
      obtain ⟨i, hi, rfl⟩ := hx
      exact (ok_xfer_copy inp 0 i .res).2 ⟨hl, hi, destOk_res inp⟩
    · apply clean_of_no_kills
      intro x hx b j hk
      simp only [List.mem_map, List.mem_reverse, List.mem_range] at hx
      obtain ⟨i, hi, rfl⟩ := hx
      exact hk
  · simp only [if_true]
    have hnl := not_lvcr_of_rv hr
    exact safe_append (safe_reverseInPlace hnl)
      (safe_singleton ((ok_steal inp 0 .res).2 ⟨hnl, lt_of_catIn h0, destOk_res inp⟩))
      (cross_of_noKills (noKills_reverseInPlace _ _))

theorem safe_join2 (inp : Input) (h : wf .join2 inp = true) : Safe inp (prog .join2 inp) := by
  have hs := shape_of_wf h
  simp only [shapeOk, Bool.and_eq_true] at hs
  obtain ⟨⟨⟨_, h0⟩, h1⟩, _⟩ := hs
  exact safe_append (safe_whole h0 (destOk_res inp)) (safe_xferAll_fwd h1 (Nat.le_refl _) (destOk_res inp))
    (cross_of_args (onArg_whole _ _ _ _) (onArg_xferAll _ _ _ _) (by decide))

theorem safe_join3 (inp : Input) (h : wf .join3 inp = true) : Safe inp (prog .join3 inp) := by
  have hs := shape_of_wf h
  simp only [shapeOk, Bool.and_eq_true] at hs
  obtain ⟨⟨⟨⟨_, h0⟩, h1⟩, h2⟩, _⟩ := hs
  refine safe_append (safe_append (safe_whole h0 (destOk_res inp)) (safe_xferAll_fwd h1 (Nat.le_refl _) (destOk_res inp))
    (cross_of_args (onArg_whole _ _ _ _) (onArg_xferAll _ _ _ _) (by decide)))
    (safe_xferAll_fwd h2 (Nat.le_refl _) (destOk_res inp)) ?_
  intro x hx y hy
  rcases List.mem_append.1 hx with hx | hx
  · exact cross_of_args (onArg_whole _ _ _ _) (onArg_xferAll _ _ _ _) (by decide) x hx y hy
  · exact cross_of_args (onArg_xferAll _ _ _ _) (onArg_xferAll _ _ _ _) (by decide) x hx y hy

theorem safe_popBack (inp : Input) (h : wf .popBack inp = true) : Safe inp (prog .popBack inp) := by
  have hs := shape_of_wf h
  simp only [shapeOk, Bool.and_eq_true] at hs
  have h0 := hs.1.2
  simp only [prog]
  split
  · exact safe_nil inp
  · exact safe_singleton ((ok_pop inp 0 _ .res).2 ⟨not_lvcr_of_in h0 rvio_io, by omega, destOk_res inp⟩)

theorem safe_popFront (inp : Input) (h : wf .popFront inp = true) : Safe inp (prog .popFront inp) := by
  have hs := shape_of_wf h
  simp only [shapeOk, Bool.and_eq_true] at hs
  have h0 := hs.1.2
  simp only [prog]
  split
  · exact safe_nil inp
  · exact safe_singleton ((ok_pop inp 0 _ .res).2 ⟨not_lvcr_of_in h0 rvio_io, by omega, destOk_res inp⟩)

theorem safe_moveRangeMap (inp : Input) (h : wf .moveRangeMap inp = true) : Safe inp (prog .moveRangeMap inp) := by
  have hs := shape_of_wf h
  simp only [shapeOk, Bool.and_eq_true] at hs
  have h0 := hs.1.2
  have hnl := not_lvcr_of_in h0 rvio_rv
  exact safe_append (safe_xferAll_move hnl (Nat.le_refl _) (destOk_res inp))
    (safe_singleton ((ok_steal inp 0 .drop).2 ⟨hnl, lt_of_catIn h0, destOk_drop inp⟩))
    (cross_of_noUses (by intro y hy b j hu; simp only [List.mem_singleton] at hy; subst hy; exact hu))

theorem safe_moveClear (inp : Input) (h : wf .moveClear inp = true) : Safe inp (prog .moveClear inp) := by
  have hs := shape_of_wf h
  simp only [shapeOk, Bool.and_eq_true] at hs
  have h0 := hs.1.2
  exact safe_singleton ((ok_steal inp 0 .res).2 ⟨not_lvcr_of_in h0 rvio_io, lt_of_catIn h0, destOk_res inp⟩)

theorem safe_getOrInsert (inp : Input) (o : Op) (ho : o = .getOrInsert ∨ o = .getOrInsertWithResult)
    (h : wf o inp = true) : Safe inp (prog o inp) := by
  have hs := shape_of_wf h
  rcases ho with rfl | rfl <;>
  · simp only [shapeOk, Bool.and_eq_true] at hs
    have h0 := hs.1.1.2
    simp only [prog]
    split
    · exact safe_nil inp
    · exact safe_singleton ((ok_fresh inp 1000 (.arg 0)).2
        ⟨by omega, (destOk_arg inp 0).2 ⟨not_lvcr_of_in h0 rvio_io, lt_of_catIn h0⟩⟩)

/-! ## optional -/

theorem safe_optMap (inp : Input) (h : wf .optMap inp = true) : Safe inp (prog .optMap inp) := by
  have hs := shape_of_wf h
  simp only [shapeOk, Bool.and_eq_true] at hs
  exact safe_callAll hs.1.1.2 (Nat.le_refl _) (destOk_res inp)

theorem safe_optBind (inp : Input) (h : wf .optBind inp = true) : Safe inp (prog .optBind inp) := by
  have hs := shape_of_wf h
  simp only [shapeOk, Bool.and_eq_true] at hs
  have h0 := hs.1.1.1.2
  simp only [prog]
  cases hr : inp.isRv 0
  · simp only [Bool.false_eq_true, if_false]
    exact safe_deriveEach (by simp) (destOk_res inp)
  · simp only [if_true]
    exact safe_ite
      (fun _ => safe_append (safe_readAll (Nat.le_refl _)) (safe_xferAll_move (not_lvcr_of_rv hr) (Nat.le_refl _) (destOk_res inp))
        (cross_of_noKills (noKills_readAll _ _)))
      (fun _ => safe_append (safe_readAll (Nat.le_refl _)) (safe_xferAll_move (not_lvcr_of_rv hr) (Nat.le_refl _) (destOk_drop inp))
        (cross_of_noKills (noKills_readAll _ _)))

theorem safe_optFrom (inp : Input) (h : wf .optFrom inp = true) : Safe inp (prog .optFrom inp) := by
  have hs := shape_of_wf h
  simp only [shapeOk, Bool.and_eq_true] at hs
  exact safe_ite (fun _ => safe_fresh_res inp 1000 (by omega))
    (fun _ => safe_xferAll_fwd hs.1.1.2 (Nat.le_refl _) (destOk_res inp))

theorem safe_optAlt (inp : Input) (h : wf .optAlt inp = true) : Safe inp (prog .optAlt inp) := by
  have hs := shape_of_wf h
  simp only [shapeOk, Bool.and_eq_true] at hs
  exact safe_ite (fun _ => safe_ite (fun _ => safe_fresh_res inp 1000 (by omega)) (fun _ => safe_nil inp))
    (fun _ => safe_xferAll_fwd hs.1.1.1.2 (Nat.le_refl _) (destOk_res inp))

theorem safe_optFilter (inp : Input) (h : wf .optFilter inp = true) : Safe inp (prog .optFilter inp) := by
  have hs := shape_of_wf h
  simp only [shapeOk, Bool.and_eq_true] at hs
  exact safe_append (safe_readAll (Nat.le_refl _))
    (safe_ite (fun _ => safe_xferAll_fwd hs.1.1.1.2 (Nat.le_refl _) (destOk_res inp)) (fun _ => safe_nil inp))
    (cross_of_noKills (noKills_readAll _ _))

theorem safe_optToContainer (inp : Input) (h : wf .optToContainer inp = true) : Safe inp (prog .optToContainer inp) := by
  have hs := shape_of_wf h
  simp only [shapeOk, Bool.and_eq_true] at hs
  exact safe_xferAll_fwd hs.1.1.2 (Nat.le_refl _) (destOk_res inp)

theorem safe_optJoin (inp : Input) (h : wf .optJoin inp = true) : Safe inp (prog .optJoin inp) := by
  have hs := shape_of_wf h
  simp only [shapeOk, Bool.and_eq_true] at hs
  exact safe_xferAll_fwd hs.1.1.1.1.2 (Nat.le_refl _) (destOk_res inp)

theorem safe_read_call {inp : Input} (h0 : catIn inp 0 anyCat = true) :
    Safe inp (readAll 1 (inp.size 1) ++ callAll (inp.isRv 0) 0 (inp.size 0) .res) :=
  safe_append (safe_readAll (Nat.le_refl _)) (safe_callAll h0 (Nat.le_refl _) (destOk_res inp))
    (cross_of_noKills (noKills_readAll _ _))

theorem safe_optCombine (inp : Input) (h : wf .optCombine inp = true) : Safe inp (prog .optCombine inp) := by
  have hs := shape_of_wf h
  simp only [shapeOk, Bool.and_eq_true] at hs
  obtain ⟨⟨⟨⟨⟨_, h0⟩, h1⟩, _⟩, _⟩, _⟩ := hs
  refine safe_ite (fun _ => safe_xferAll_fwd h1 (Nat.le_refl _) (destOk_res inp))
    (fun hn0 => safe_ite (fun _ => safe_xferAll_fwd h0 (Nat.le_refl _) (destOk_res inp)) (fun hn1 => ?_))
  refine safe_pair (ok_sinkAt (by omega)) (ok_callAt rv_not_lvcr (by omega) (destOk_res inp)) ?_
  intro b j hk hu
  have e1 := sinkAt_footprint (Or.inl hk)
  have e2 := callAt_footprint (Or.inr hu)
  omega

theorem safe_optApply2 (inp : Input) (h : wf .optApply2 inp = true) : Safe inp (prog .optApply2 inp) := by
  have hs := shape_of_wf h
  simp only [shapeOk, Bool.and_eq_true] at hs
  obtain ⟨⟨⟨⟨⟨_, h0⟩, h1⟩, _⟩, _⟩, _⟩ := hs
  exact safe_ite (fun _ => safe_nil inp) (fun hn => safe_zipCall2_rv (by omega) (by omega) (destOk_res inp))

theorem safe_optSequence (inp : Input) (h : wf .optSequence inp = true) : Safe inp (prog .optSequence inp) := by
  have hs := shape_of_wf h
  simp only [shapeOk, Bool.and_eq_true] at hs
  exact safe_ite (fun _ => safe_xferAll_fwd hs.1.1.2 (Nat.le_refl _) (destOk_res inp)) (fun _ => safe_nil inp)

theorem safe_optCat (inp : Input) (h : wf .optCat inp = true) : Safe inp (prog .optCat inp) := by
  have hs := shape_of_wf h
  simp only [shapeOk, Bool.and_eq_true] at hs
  exact safe_xferAll_fwd hs.1.1.2 (Nat.le_refl _) (destOk_res inp)

/-! ## move_if, either -/

theorem safe_moveIf (inp : Input) (o : Op) (ho : o = .moveIf ∨ o = .moveIfRvalue) (h : wf o inp = true) :
    Safe inp (prog o inp) := by
  have hs := shape_of_wf h
  rcases ho with rfl | rfl <;>
  · simp only [shapeOk, Bool.and_eq_true] at hs
    exact safe_xferAll_mv hs.1.1.1.1.1.2 (Nat.le_refl _) (destOk_res inp)

theorem safe_call_or_fwd {inp : Input} (c : Prop) [Decidable c] (h0 : catIn inp 0 anyCat = true) :
    Safe inp (if c then callAll (inp.isRv 0) 0 (inp.size 0) .res else xferAll 0 (inp.size 0) (fwd (inp.isRv 0)) .res) :=
  safe_ite (fun _ => safe_callAll h0 (Nat.le_refl _) (destOk_res inp)) (fun _ => safe_xferAll_fwd h0 (Nat.le_refl _) (destOk_res inp))

theorem safe_fwd_or_call {inp : Input} (c : Prop) [Decidable c] (h0 : catIn inp 0 anyCat = true) :
    Safe inp (if c then xferAll 0 (inp.size 0) (fwd (inp.isRv 0)) .res else callAll (inp.isRv 0) 0 (inp.size 0) .res) :=
  safe_ite (fun _ => safe_xferAll_fwd h0 (Nat.le_refl _) (destOk_res inp)) (fun _ => safe_callAll h0 (Nat.le_refl _) (destOk_res inp))

theorem safe_eith1 (inp : Input) (o : Op)
    (ho : o = .eithMap ∨ o = .eithMapFailure ∨ o = .eithMatch ∨ o = .eithSuccessOpt ∨ o = .eithFailureOpt)
    (h : wf o inp = true) : Safe inp (prog o inp) := by
  have hs := shape_of_wf h
  rcases ho with rfl | rfl | rfl | rfl | rfl <;> simp only [shapeOk, Bool.and_eq_true] at hs <;> have h0 := hs.1.1.1.2
  · exact safe_call_or_fwd _ h0
  · exact safe_fwd_or_call _ h0
  · exact safe_callAll h0 (Nat.le_refl _) (destOk_res inp)
  · exact safe_ite (fun _ => safe_xferAll_fwd h0 (Nat.le_refl _) (destOk_res inp)) (fun _ => safe_nil inp)
  · exact safe_ite (fun _ => safe_nil inp) (fun _ => safe_xferAll_fwd h0 (Nat.le_refl _) (destOk_res inp))

theorem safe_eithBind (inp : Input) (h : wf .eithBind inp = true) : Safe inp (prog .eithBind inp) := by
  have hs := shape_of_wf h
  simp only [shapeOk, Bool.and_eq_true] at hs
  have h0 := hs.1.1.1.2
  refine safe_ite (fun _ => ?_) (fun _ => safe_xferAll_fwd h0 (Nat.le_refl _) (destOk_res inp))
  cases hr : inp.isRv 0
  · simp only [Bool.false_eq_true, if_false]
    exact safe_deriveEach (by simp) (destOk_res inp)
  · simp only [if_true]
    exact safe_append (safe_readAll (Nat.le_refl _)) (safe_xferAll_move (not_lvcr_of_rv hr) (Nat.le_refl _) (destOk_res inp))
      (cross_of_noKills (noKills_readAll _ _))

theorem safe_eithFromOptional (inp : Input) (h : wf .eithFromOptional inp = true) : Safe inp (prog .eithFromOptional inp) := by
  have hs := shape_of_wf h
  simp only [shapeOk, Bool.and_eq_true] at hs
  exact safe_ite (fun _ => safe_fresh_res inp 1000 (by omega))
    (fun _ => safe_xferAll_fwd hs.1.1.2 (Nat.le_refl _) (destOk_res inp))

theorem safe_eithJoin (inp : Input) (h : wf .eithJoin inp = true) : Safe inp (prog .eithJoin inp) := by
  have hs := shape_of_wf h
  simp only [shapeOk, Bool.and_eq_true] at hs
  exact safe_xferAll_fwd hs.1.1.1.2 (Nat.le_refl _) (destOk_res inp)

theorem safe_eithApply2 (inp : Input) (h : wf .eithApply2 inp = true) : Safe inp (prog .eithApply2 inp) := by
  have hs := shape_of_wf h
  simp only [shapeOk, Bool.and_eq_true, beq_iff_eq] at hs
  obtain ⟨⟨⟨⟨⟨⟨_, h0⟩, h1⟩, hn0⟩, hn1⟩, _⟩, _⟩ := hs
  refine safe_ite (fun _ => safe_ite (fun _ => safe_zipCall2_rv (by omega) (by omega) (destOk_res inp))
      (fun _ => safe_xferAll_fwd h1 (Nat.le_refl _) (destOk_res inp)))
    (fun _ => safe_append (safe_xferAll_fwd h0 (Nat.le_refl _) (destOk_res inp))
      (safe_ite (fun _ => safe_nil inp) (fun _ => safe_xferAll_fwd h1 (Nat.le_refl _) (destOk_drop inp))) ?_)
  intro x hx y hy
  split at hy
  · exact absurd hy List.not_mem_nil
  · exact cross_of_args (onArg_xferAll _ _ _ _) (onArg_xferAll _ _ _ _) (by decide) x hx y hy

theorem safe_eithSequence (inp : Input) (h : wf .eithSequence inp = true) : Safe inp (prog .eithSequence inp) := by
  have hs := shape_of_wf h
  simp only [shapeOk, Bool.and_eq_true, beq_iff_eq] at hs
  obtain ⟨⟨⟨_, h0⟩, hlen⟩, _⟩ := hs
  have hnl := not_lvcr_of_in h0 rvio_rv
  have hrv : inp.isRv 0 = true := by
    obtain ⟨c, hc, hm⟩ := (catIn_iff inp 0 _).1 h0
    simp at hm; subst hm
    exact (isRv_iff inp 0).2 hc
  simp only [prog, hrv, fwd, if_true]
  split
  · rename_i k hk
    have hlt : k < inp.par.length := (List.findIdx?_eq_some_iff_findIdx_eq.1 hk).1
    exact safe_singleton ((ok_xfer_move inp 0 k .res).2 ⟨hnl, by omega, destOk_res inp⟩)
  · exact safe_xferAll_move hnl (Nat.le_refl _) (destOk_res inp)

theorem safe_eithFirstSuccess (inp : Input) (h : wf .eithFirstSuccess inp = true) : Safe inp (prog .eithFirstSuccess inp) := by
  simp only [prog]
  split
  · exact safe_append (safe_fresh_range _ _ (destOk_drop inp))
      (safe_singleton ((ok_fresh inp _ .res).2 ⟨by omega, destOk_res inp⟩)) (cross_of_noKills (noKills_fresh_range _ _))
  · exact safe_fresh_range _ _ (destOk_res inp)

/-! ## variant, tuple, array, record, container::make -/

theorem safe_var1 (inp : Input) (o : Op) (ho : o = .varMatch ∨ o = .varApply) (h : wf o inp = true) : Safe inp (prog o inp) := by
  have hs := shape_of_wf h
  rcases ho with rfl | rfl <;>
  · simp only [shapeOk, Bool.and_eq_true] at hs
    exact safe_callAll hs.1.1.1.2 (Nat.le_refl _) (destOk_res inp)

theorem safe_varApply2 (inp : Input) (h : wf .varApply2 inp = true) : Safe inp (prog .varApply2 inp) := by
  have hs := shape_of_wf h
  simp only [shapeOk, Bool.and_eq_true, beq_iff_eq] at hs
  exact safe_zipCall2_rv (by omega) (by omega) (destOk_res inp)

theorem safe_varToOptional (inp : Input) (h : wf .varToOptional inp = true) : Safe inp (prog .varToOptional inp) := by
  have hs := shape_of_wf h
  simp only [shapeOk, Bool.and_eq_true] at hs
  exact safe_ite (fun _ => safe_xferAll_fwd hs.1.1.1.1.2 (Nat.le_refl _) (destOk_res inp)) (fun _ => safe_nil inp)

theorem safe_map1 (inp : Input) (o : Op) (ho : o = .tupMap ∨ o = .arrMap ∨ o = .recMap) (h : wf o inp = true) :
    Safe inp (prog o inp) := by
  have hs := shape_of_wf h
  rcases ho with rfl | rfl | rfl <;> simp only [shapeOk, Bool.and_eq_true] at hs
  · exact safe_callAll hs.1.2 (Nat.le_refl _) (destOk_res inp)
  · exact safe_callAll hs.1.2 (Nat.le_refl _) (destOk_res inp)
  · exact safe_callAll (anyCat_of_rv hs.1.2) (Nat.le_refl _) (destOk_res inp)

theorem safe_two (inp : Input) (o : Op)
    (ho : o = .tupPushBack ∨ o = .tupConcat ∨ o = .arrPushBack ∨ o = .arrJoin2 ∨ o = .recMultiplyDisjoint)
    (h : wf o inp = true) : Safe inp (prog o inp) := by
  have hs := shape_of_wf h
  rcases ho with rfl | rfl | rfl | rfl | rfl <;> simp only [shapeOk, Bool.and_eq_true] at hs
  · exact safe_fwd2 hs.1.1.1.2 hs.1.1.2 (destOk_res inp)
  · exact safe_fwd2 hs.1.1.2 hs.1.2 (destOk_res inp)
  · exact safe_fwd2 hs.1.1.1.2 hs.1.1.2 (destOk_res inp)
  · exact safe_fwd2 hs.1.1.2 hs.1.2 (destOk_res inp)
  · exact safe_fwd2 hs.1.1.2 hs.1.2 (destOk_res inp)

theorem safe_arrJoin3 (inp : Input) (h : wf .arrJoin3 inp = true) : Safe inp (prog .arrJoin3 inp) := by
  have hs := shape_of_wf h
  simp only [shapeOk, Bool.and_eq_true] at hs
  obtain ⟨⟨⟨⟨_, h0⟩, h1⟩, h2⟩, _⟩ := hs
  refine safe_append (safe_fwd2 h0 h1 (destOk_res inp)) (safe_xferAll_fwd h2 (Nat.le_refl _) (destOk_res inp)) ?_
  intro x hx y hy
  rcases List.mem_append.1 hx with hx | hx
  · exact cross_of_args (onArg_xferAll _ _ _ _) (onArg_xferAll _ _ _ _) (by decide) x hx y hy
  · exact cross_of_args (onArg_xferAll _ _ _ _) (onArg_xferAll _ _ _ _) (by decide) x hx y hy

theorem safe_arrFromRange (inp : Input) (h : wf .arrFromRange inp = true) : Safe inp (prog .arrFromRange inp) := by
  have hs := shape_of_wf h
  simp only [shapeOk, Bool.and_eq_true] at hs
  exact safe_ite (fun _ => safe_xferAll_fwd hs.1.2 (Nat.le_refl _) (destOk_res inp)) (fun _ => safe_nil inp)

theorem safe_recPermute (inp : Input) (h : wf .recPermute inp = true) : Safe inp (prog .recPermute inp) := by
  have hs := shape_of_wf h
  simp only [shapeOk, Bool.and_eq_true, decide_eq_true_eq, List.all_eq_true] at hs
  obtain ⟨⟨⟨⟨_, h0⟩, _⟩, hnd⟩, hb⟩ := hs
  exact safe_gather h0 (fun i hi => hb i hi) hnd (destOk_res inp)

theorem safe_contMake (inp : Input) (h : wf .contMake inp = true) : Safe inp (prog .contMake inp) := by
  have hs := shape_of_wf h
  simp only [shapeOk, Bool.and_eq_true] at hs
  obtain ⟨⟨⟨⟨⟨_, h0⟩, h1⟩, _⟩, _⟩, _⟩ := hs
  have rvio : ∀ c ∈ [Cat.rv, Cat.io], c = .rv ∨ c = .io := by simp
  exact safe_append (safe_xferAll_move (not_lvcr_of_in h0 rvio) (Nat.le_refl _) (destOk_res inp))
    (safe_xferAll_move (not_lvcr_of_in h1 rvio) (Nat.le_refl _) (destOk_res inp))
    (cross_of_args (onArg_xferAll _ _ _ _) (onArg_xferAll _ _ _ _) (by decide))

/-! ## grid, tree, options, parse -/

theorem safe_gridMap (inp : Input) (h : wf .gridMap inp = true) : Safe inp (prog .gridMap inp) := by
  have hs := shape_of_wf h
  simp only [shapeOk, Bool.and_eq_true] at hs
  exact safe_callAll hs.1.1.2 (Nat.le_refl _) (destOk_res inp)

theorem safe_gridApply2 (inp : Input) (h : wf .gridApply2 inp = true) : Safe inp (prog .gridApply2 inp) := by
  have hs := shape_of_wf h
  simp only [shapeOk, Bool.and_eq_true, beq_iff_eq] at hs
  refine safe_ite (fun hd => safe_zipCall2_rv (Nat.le_refl _) ?_ (destOk_res inp)) (fun _ => safe_nil inp)
  have e0 := hs.1.2
  have e1 := hs.2
  rw [← e0, ← e1, hd.1, hd.2]
  exact Nat.le_refl _

theorem safe_gridResize (inp : Input) (h : wf .gridResize inp = true) : Safe inp (prog .gridResize inp) := by
  have hs := shape_of_wf h
  simp only [shapeOk, Bool.and_eq_true, beq_iff_eq] at hs
  exact safe_gridCells _ _ _ _ hs.1.1.2 hs.2

theorem safe_treeCtor (inp : Input) (h : wf .treeCtor inp = true) : Safe inp (prog .treeCtor inp) := by
  have hs := shape_of_wf h
  simp only [shapeOk, Bool.and_eq_true] at hs
  exact safe_xferAll_fwd hs.1.1.2 (Nat.le_refl _) (destOk_res inp)

theorem safe_treePush (inp : Input) (o : Op) (ho : o = .treePushValue ∨ o = .treePushTree) (h : wf o inp = true) :
    Safe inp (prog o inp) := by
  have hs := shape_of_wf h
  rcases ho with rfl | rfl <;> simp only [shapeOk, Bool.and_eq_true] at hs <;> obtain ⟨⟨⟨⟨⟨_, h0⟩, h1⟩, _⟩, _⟩, _⟩ := hs
  · exact safe_xferAll_fwd h1 (Nat.le_refl _) ((destOk_arg inp 0).2 ⟨not_lvcr_of_in h0 rvio_io, lt_of_catIn h0⟩)
  · exact safe_xferAll_fwd (anyCat_of_rv h1) (Nat.le_refl _) ((destOk_arg inp 0).2 ⟨not_lvcr_of_in h0 rvio_io, lt_of_catIn h0⟩)

theorem safe_treeRelease (inp : Input) (h : wf .treeRelease inp = true) : Safe inp (prog .treeRelease inp) := by
  have hs := shape_of_wf h
  simp only [shapeOk, Bool.and_eq_true, decide_eq_true_eq] at hs
  exact safe_singleton ((ok_pop inp 0 _ .res).2 ⟨not_lvcr_of_in hs.1.1.2 rvio_io, hs.2, destOk_res inp⟩)

theorem safe_treeMap (inp : Input) (h : wf .treeMap inp = true) : Safe inp (prog .treeMap inp) :=
  safe_deriveEach (by simp) (destOk_res inp)

theorem safe_optsFlag (inp : Input) (h : wf .optsFlag inp = true) : Safe inp (prog .optsFlag inp) := by
  have hs := shape_of_wf h
  simp only [shapeOk, Bool.and_eq_true] at hs
  obtain ⟨⟨⟨⟨⟨_, h0⟩, h1⟩, _⟩, _⟩, _⟩ := hs
  exact safe_append (safe_xferAll_move (not_lvcr_of_in h0 rvio_rv) (Nat.le_refl _) (destOk_res inp))
    (safe_xferAll_move (not_lvcr_of_in h1 rvio_rv) (Nat.le_refl _) (destOk_res inp))
    (cross_of_args (onArg_xferAll _ _ _ _) (onArg_xferAll _ _ _ _) (by decide))

theorem safe_optsOption (inp : Input) (h : wf .optsOption inp = true) : Safe inp (prog .optsOption inp) := by
  have hs := shape_of_wf h
  simp only [shapeOk, Bool.and_eq_true] at hs
  exact safe_xferAll_move (not_lvcr_of_in hs.1.1.2 rvio_rv) (Nat.le_refl _) (destOk_res inp)

theorem safe_parseSequence (inp : Input) (h : wf .parseSequence inp = true) : Safe inp (prog .parseSequence inp) := by
  refine safe_ite (fun _ => ?_) (fun _ => safe_ite (fun _ => ?_) (fun _ => safe_nil inp))
  · exact safe_cons ((ok_fresh inp _ .res).2 ⟨by omega, destOk_res inp⟩) (safe_fresh_res inp 1001 (by omega))
      (fun y _ b j hk _ => hk)
  · exact safe_singleton ((ok_fresh inp _ .drop).2 ⟨by omega, destOk_drop inp⟩)

theorem safe_parseRepetition (inp : Input) (h : wf .parseRepetition inp = true) : Safe inp (prog .parseRepetition inp) :=
  safe_fresh_range _ _ (destOk_res inp)

/-! ## extension round 1: tuple / array / record, optional / either / variant -/

theorem safe_fwd1 (inp : Input) (o : Op)
    (ho : o = .tupFromArray ∨ o = .optMake ∨ o = .optCtor ∨ o = .optToException ∨ o = .eithMakeSuccess ∨ o = .eithMakeFailure ∨
      o = .eithCtor ∨ o = .varCtor ∨ o = .eithErrorFromOptional ∨ o = .optCopyValue)
    (h : wf o inp = true) : Safe inp (prog o inp) := by
  have hs := shape_of_wf h
  rcases ho with rfl | rfl | rfl | rfl | rfl | rfl | rfl | rfl | rfl | rfl <;> simp only [shapeOk, Bool.and_eq_true] at hs
  · exact safe_xferAll_fwd hs.1.2 (Nat.le_refl _) (destOk_res inp)
  · exact safe_xferAll_fwd hs.1.1.2 (Nat.le_refl _) (destOk_res inp)
  · exact safe_xferAll_fwd hs.1.1.2 (Nat.le_refl _) (destOk_res inp)
  · exact safe_xferAll_fwd hs.1.1.2 (Nat.le_refl _) (destOk_res inp)
  · exact safe_xferAll_fwd hs.1.1.2 (Nat.le_refl _) (destOk_res inp)
  · exact safe_xferAll_fwd hs.1.1.2 (Nat.le_refl _) (destOk_res inp)
  · exact safe_xferAll_fwd hs.1.1.1.2 (Nat.le_refl _) (destOk_res inp)
  · exact safe_xferAll_fwd hs.1.1.1.2 (Nat.le_refl _) (destOk_res inp)
  · exact safe_xferAll_fwd hs.1.1.2 (Nat.le_refl _) (destOk_res inp)
  · exact safe_xferAll_fwd (anyCat_of_lvcr hs.1.1.2) (Nat.le_refl _) (destOk_res inp)

theorem safe_call1 (inp : Input) (o : Op) (ho : o = .tupInvoke ∨ o = .optMaybeVoid ∨ o = .optMaybe ∨ o = .eithToException)
    (h : wf o inp = true) : Safe inp (prog o inp) := by
  have hs := shape_of_wf h
  rcases ho with rfl | rfl | rfl | rfl <;> simp only [shapeOk, Bool.and_eq_true] at hs
  · exact safe_callAll hs.1.2 (Nat.le_refl _) (destOk_res inp)
  · exact safe_callAll hs.1.1.2 (Nat.le_refl _) (destOk_res inp)
  · exact safe_ite (fun _ => safe_fresh_res inp 1000 (by omega)) (fun _ => safe_callAll hs.1.1.2 (Nat.le_refl _) (destOk_res inp))
  · exact safe_fwd_or_call _ hs.1.1.1.2

theorem safe_zip2 (inp : Input) (o : Op) (ho : o = .tupApply2 ∨ o = .arrApply2) (h : wf o inp = true) : Safe inp (prog o inp) := by
  have hs := shape_of_wf h
  rcases ho with rfl | rfl <;> simp only [shapeOk, Bool.and_eq_true, beq_iff_eq] at hs
  · exact safe_zipCall2 false_not_lvcr false_not_lvcr (Nat.le_refl _) (by omega) (destOk_res inp)
  · exact safe_zipCall2_rv (Nat.le_refl _) (by omega) (destOk_res inp)

theorem safe_make2 (inp : Input) (o : Op) (ho : o = .tupMake2 ∨ o = .arrMake2 ∨ o = .recCtor2) (h : wf o inp = true) :
    Safe inp (prog o inp) := by
  have hs := shape_of_wf h
  rcases ho with rfl | rfl | rfl <;> simp only [shapeOk, Bool.and_eq_true] at hs
  · exact safe_fwd2 hs.1.1.1.1.2 hs.1.1.1.2 (destOk_res inp)
  · exact safe_fwd2 hs.1.1.1.1.2 hs.1.1.1.2 (destOk_res inp)
  · exact safe_fwd2 hs.1.1.1.1.1.2 hs.1.1.1.1.2 (destOk_res inp)

theorem safe_init (inp : Input) (o : Op) (ho : o = .tupInit ∨ o = .arrInit ∨ o = .recInit ∨ o = .eithLoop) (h : wf o inp = true) :
    Safe inp (prog o inp) := by
  rcases ho with rfl | rfl | rfl | rfl <;> exact safe_freshRange _ _ (destOk_res inp)

theorem safe_fresh1 (inp : Input) (o : Op) (ho : o = .optMakeIf ∨ o = .eithConstruct ∨ o = .eithTryCall) (h : wf o inp = true) :
    Safe inp (prog o inp) := by
  rcases ho with rfl | rfl | rfl
  · exact safe_ite (fun _ => safe_fresh_res inp 1000 (by omega)) (fun _ => safe_nil inp)
  · exact safe_ite (fun _ => safe_fresh_res inp 1000 (by omega)) (fun _ => safe_fresh_res inp 1001 (by omega))
  · exact safe_ite (fun _ => safe_fresh_res inp 1000 (by omega)) (fun _ => safe_fresh_res inp 1001 (by omega))

theorem safe_optAssign (inp : Input) (h : wf .optAssign inp = true) : Safe inp (prog .optAssign inp) := by
  have hs := shape_of_wf h
  simp only [shapeOk, Bool.and_eq_true, beq_iff_eq] at hs
  obtain ⟨⟨⟨⟨⟨_, h0⟩, h1⟩, _⟩, hn1⟩, _⟩ := hs
  have hio := not_lvcr_of_in h0 rvio_io
  have hx : Safe inp [.xfer 1 0 .move (.arg 0)] :=
    safe_singleton ((ok_xfer_move inp 1 0 (.arg 0)).2 ⟨not_lvcr_of_in h1 rvio_rv, by omega, (destOk_arg inp 0).2 ⟨hio, lt_of_catIn h0⟩⟩)
  refine safe_append (safe_ite (fun _ => safe_nil inp) (fun hn => safe_singleton ((ok_pop inp 0 0 .drop).2 ⟨hio, by omega, destOk_drop inp⟩))) hx ?_
  intro x hx' y hy b j hk hu
  simp only [List.mem_singleton] at hy
  subst hy
  split at hx'
  · exact absurd hx' List.not_mem_nil
  · simp only [List.mem_singleton] at hx'
    subst hx'
    simp [Instr.kills, Instr.uses] at hk hu
    omega

theorem safe_maybeMulti (inp : Input) (o : Op) (ho : o = .optMaybeMulti2 ∨ o = .optMaybeVoidMulti2) (h : wf o inp = true) :
    Safe inp (prog o inp) := by
  have hs := shape_of_wf h
  rcases ho with rfl | rfl <;> simp only [shapeOk, Bool.and_eq_true] at hs
  · exact safe_ite (fun _ => safe_fresh_res inp 1000 (by omega)) (fun hn => safe_zipCall2_rv (by omega) (by omega) (destOk_res inp))
  · exact safe_ite (fun _ => safe_nil inp) (fun hn => safe_zipCall2_rv (by omega) (by omega) (destOk_res inp))

theorem safe_eithSequenceError (inp : Input) (h : wf .eithSequenceError inp = true) : Safe inp (prog .eithSequenceError inp) := by
  have hs := shape_of_wf h
  simp only [shapeOk, Bool.and_eq_true, beq_iff_eq] at hs
  obtain ⟨⟨⟨_, h0⟩, hlen⟩, _⟩ := hs
  simp only [prog]
  split
  · rename_i k hk
    have hlt : k < inp.par.length := (List.findIdx?_eq_some_iff_findIdx_eq.1 hk).1
    refine safe_append (safe_sinkAll (by omega)) (safe_singleton (ok_callAt rv_not_lvcr (by omega) (destOk_res inp))) ?_
    intro x hx y hy b j hkl hu
    simp only [List.mem_singleton] at hy
    subst hy
    simp only [sinkAll, List.mem_map, List.mem_range] at hx
    obtain ⟨i, hi, rfl⟩ := hx
    have e1 := sinkAt_footprint (Or.inl hkl)
    have e2 := callAt_footprint (Or.inr hu)
    omega
  · exact safe_sinkAll (Nat.le_refl _)

/-! ## extension round 2: algorithm / container helpers, tree and grid members -/

theorem safe_find (inp : Input) (o : Op) (ho : o = .algFindOpt ∨ o = .algIndexOf ∨ o = .algContains) (h : wf o inp = true) :
    Safe inp (prog o inp) := by
  have hs := shape_of_wf h
  rcases ho with rfl | rfl | rfl <;> simp only [shapeOk, Bool.and_eq_true, beq_iff_eq, decide_eq_true_eq] at hs <;>
  · obtain ⟨⟨⟨⟨⟨_, _⟩, _⟩, hn1⟩, _⟩, hk⟩ := hs
    exact safe_ite (fun hlt => safe_readAll (by omega))
      (fun _ => safe_append (safe_readAll (Nat.le_refl _)) (safe_singleton ((ok_read inp 1 0).2 (by omega)))
        (cross_of_noKills (noKills_readAll _ _)))

theorem safe_findIf (inp : Input) (h : wf .algFindIfOpt inp = true) : Safe inp (prog .algFindIfOpt inp) :=
  safe_readAll (Nat.min_le_left _ _)

theorem safe_findBy (inp : Input) (h : wf .algFindByOpt inp = true) : Safe inp (prog .algFindByOpt inp) :=
  safe_deriveEach (by simp only [List.length_take]; exact Nat.min_le_left _ _) (destOk_res inp)

theorem safe_iter (inp : Input) (o : Op) (ho : o = .algMapIteration ∨ o = .algMapIterationSecond ∨ o = .algSeqIteration)
    (h : wf o inp = true) : Safe inp (prog o inp) := by
  have hs := shape_of_wf h
  rcases ho with rfl | rfl | rfl <;> simp only [shapeOk, Bool.and_eq_true, beq_iff_eq] at hs <;>
  · exact safe_iterErase (not_lvcr_of_in hs.1.1.2 rvio_io) (by omega)

theorem safe_contInsert (inp : Input) (h : wf .contInsert inp = true) : Safe inp (prog .contInsert inp) := by
  have hs := shape_of_wf h
  simp only [shapeOk, Bool.and_eq_true] at hs
  obtain ⟨⟨⟨⟨⟨_, h0⟩, h1⟩, _⟩, _⟩, _⟩ := hs
  exact safe_ite (fun _ => safe_nil inp)
    (fun _ => safe_xferAll_fwd h1 (Nat.le_refl _) ((destOk_arg inp 0).2 ⟨not_lvcr_of_in h0 rvio_io, lt_of_catIn h0⟩))

theorem safe_setOps (inp : Input) (o : Op) (ho : o = .contSetUnion ∨ o = .contSetDifference ∨ o = .contSetIntersection)
    (h : wf o inp = true) : Safe inp (prog o inp) := by
  have hs := shape_of_wf h
  rcases ho with rfl | rfl | rfl <;> simp only [shapeOk, Bool.and_eq_true] at hs <;>
    obtain ⟨⟨⟨⟨⟨_, h0⟩, h1⟩, _⟩, _⟩, _⟩ := hs <;>
    have c0 := safe_xferAll_copy (d := .res) (lvcr_of_in h0 lvcr_lvcr) (Nat.le_refl (inp.size 0)) (destOk_res inp) <;>
    have c1 := safe_xferAll_copy (d := .res) (lvcr_of_in h1 lvcr_lvcr) (Nat.le_refl (inp.size 1)) (destOk_res inp)
  · exact safe_append c0 (safe_ite (fun _ => safe_nil inp) (fun _ => c1)) (cross_of_noKills (noKills_xferAll_copy _ _ _))
  · exact safe_ite (fun _ => safe_nil inp) (fun _ => c0)
  · exact safe_ite (fun _ => c0) (fun _ => safe_nil inp)

theorem safe_mapValuesCopy (inp : Input) (h : wf .contMapValuesCopy inp = true) : Safe inp (prog .contMapValuesCopy inp) := by
  have hs := shape_of_wf h
  simp only [shapeOk, Bool.and_eq_true] at hs
  exact safe_xferAll_copy (lvcr_of_in hs.1.2 lvcr_lvcr) (Nat.le_refl _) (destOk_res inp)

theorem safe_refOps (inp : Input) (o : Op)
    (ho : o = .contAtOptional ∨ o = .contMaybeBack ∨ o = .contMaybeFront ∨ o = .contFindOptMapped ∨ o = .treeSelfAssign ∨ o = .gridSelfAssign)
    (h : wf o inp = true) : Safe inp (prog o inp) := by
  rcases ho with rfl | rfl | rfl | rfl | rfl | rfl <;> exact safe_nil inp

theorem safe_indexMapGet (inp : Input) (h : wf .contIndexMapGet inp = true) : Safe inp (prog .contIndexMapGet inp) := by
  have hs := shape_of_wf h
  simp only [shapeOk, Bool.and_eq_true] at hs
  exact safe_freshRange _ _ ((destOk_arg inp 0).2 ⟨not_lvcr_of_in hs.1.2 rvio_io, lt_of_catIn hs.1.2⟩)

theorem safe_move_steal {inp : Input} (h0 : ¬ IsLvCr (inp.cat 0)) (h1 : ¬ IsLvCr (inp.cat 1)) (hn : 0 < inp.size 0)
    (hl : 1 < inp.args.length) : Safe inp [.xfer 0 0 .move .res, .steal 1 .res] :=
  safe_pair ((ok_xfer_move inp 0 0 .res).2 ⟨h0, hn, destOk_res inp⟩) ((ok_steal inp 1 .res).2 ⟨h1, hl, destOk_res inp⟩)
    (fun b j _ hu => hu)

theorem safe_treeCtorTree (inp : Input) (o : Op) (ho : o = .treeCtorTree ∨ o = .treeCtorChildren) (h : wf o inp = true) :
    Safe inp (prog o inp) := by
  have hs := shape_of_wf h
  rcases ho with rfl | rfl <;> simp only [shapeOk, Bool.and_eq_true, beq_iff_eq] at hs
  · obtain ⟨⟨⟨⟨⟨_, h0⟩, h1⟩, hcat⟩, hn0⟩, _⟩ := hs
    have hrv : inp.isRv 0 = inp.isRv 1 := by simp [Input.isRv, hcat]
    simp only [prog]
    cases hr : inp.isRv 0
    · simp only [Bool.false_eq_true, if_false]
      have hl0 := lvcr_of_any h0 hr
      have hl1 := lvcr_of_any h1 (hrv ▸ hr)
      exact safe_cons ((ok_xfer_copy inp 0 0 .res).2 ⟨hl0, by omega, destOk_res inp⟩)
        (safe_xferAll_copy hl1 (Nat.le_refl _) (destOk_res inp)) (fun y _ b j hk _ => hk)
    · simp only [if_true]
      exact safe_move_steal (not_lvcr_of_rv hr) (not_lvcr_of_rv (hrv ▸ hr)) (by omega) (lt_of_catIn h1)
  · obtain ⟨⟨⟨⟨_, h0⟩, h1⟩, hn0⟩, _⟩ := hs
    have hr : inp.isRv 0 = true := by
      obtain ⟨c, hc, hm⟩ := (catIn_iff inp 0 _).1 h0
      simp at hm; subst hm
      exact (isRv_iff inp 0).2 hc
    simp only [prog, hr, if_true]
    exact safe_move_steal (not_lvcr_of_in h0 rvio_rv) (not_lvcr_of_in h1 rvio_rv) (by omega) (lt_of_catIn h1)

theorem safe_treeAssign (inp : Input) (h : wf .treeAssign inp = true) : Safe inp (prog .treeAssign inp) := by
  have hs := shape_of_wf h
  simp only [shapeOk, Bool.and_eq_true, beq_iff_eq] at hs
  obtain ⟨⟨⟨⟨⟨⟨⟨⟨_, h0⟩, h1⟩, h2⟩, h3⟩, hcat⟩, hn0⟩, hn2⟩, _⟩ := hs
  have hrv : inp.isRv 2 = inp.isRv 3 := by simp [Input.isRv, hcat]
  have hio0 := not_lvcr_of_in h0 rvio_io
  have hio1 := not_lvcr_of_in h1 rvio_io
  have d0 : DestOk inp (.arg 0) := (destOk_arg inp 0).2 ⟨hio0, lt_of_catIn h0⟩
  have d1 : DestOk inp (.arg 1) := (destOk_arg inp 1).2 ⟨hio1, lt_of_catIn h1⟩
  have hx : Ok inp (.xfer 2 0 (fwd (inp.isRv 2)) (.arg 0)) := by
    cases hr : inp.isRv 2
    · exact (ok_xfer_copy inp 2 0 _).2 ⟨lvcr_of_any h2 hr, by omega, d0⟩
    · exact (ok_xfer_move inp 2 0 _).2 ⟨not_lvcr_of_rv hr, by omega, d0⟩
  have htail : Safe inp (if inp.isRv 2 = true then [Instr.steal 3 (.arg 1)] else xferAll 3 (inp.size 3) .copy (.arg 1)) := by
    cases hr : inp.isRv 2
    · simp only [Bool.false_eq_true, if_false]
      exact safe_xferAll_copy (lvcr_of_any h3 (hrv ▸ hr)) (Nat.le_refl _) d1
    · simp only [if_true]
      exact safe_singleton ((ok_steal inp 3 _).2 ⟨not_lvcr_of_rv (hrv ▸ hr), lt_of_catIn h3, d1⟩)
  have htail3 : OnArg 3 (if inp.isRv 2 = true then [Instr.steal 3 (.arg 1)] else xferAll 3 (inp.size 3) .copy (.arg 1)) := by
    split
    · exact onArg_singleton (fun b j hb => by simp [Instr.kills, Instr.uses] at hb; omega)
    · exact onArg_xferAll _ _ _ _
  have hhead : Safe inp [.pop 0 0 .drop, .xfer 2 0 (fwd (inp.isRv 2)) (.arg 0), .steal 1 .drop] := by
    refine safe_cons ((ok_pop inp 0 0 .drop).2 ⟨hio0, by omega, destOk_drop inp⟩)
      (safe_pair hx ((ok_steal inp 1 .drop).2 ⟨hio1, lt_of_catIn h1, destOk_drop inp⟩) (fun b j _ hu => hu)) ?_
    intro y hy b j hk hu
    simp only [List.mem_cons, List.not_mem_nil, or_false] at hy
    rcases hy with rfl | rfl
    · cases inp.isRv 2 <;> simp [fwd, Instr.kills, Instr.uses] at hk hu <;> omega
    · exact hu
  refine safe_append hhead htail ?_
  intro x hx' y hy b j hk hu
  have hb3 := htail3 y hy b j (Or.inr hu)
  simp only [List.mem_cons, List.not_mem_nil, or_false] at hx'
  rcases hx' with rfl | rfl | rfl
  · simp [Instr.kills] at hk; omega
  · cases hr2 : inp.isRv 2
    · rw [hr2] at hk; exact hk
    · rw [hr2] at hk
      have := hk.1
      omega
  · simp [Instr.kills] at hk; omega

theorem safe_treeSetValue (inp : Input) (h : wf .treeSetValue inp = true) : Safe inp (prog .treeSetValue inp) := by
  have hs := shape_of_wf h
  simp only [shapeOk, Bool.and_eq_true, beq_iff_eq] at hs
  obtain ⟨⟨⟨⟨⟨_, h0⟩, h1⟩, hn0⟩, hn1⟩, _⟩ := hs
  have hio0 := not_lvcr_of_in h0 rvio_io
  have d0 : DestOk inp (.arg 0) := (destOk_arg inp 0).2 ⟨hio0, lt_of_catIn h0⟩
  have hx : Ok inp (.xfer 1 0 (fwd (inp.isRv 1)) (.arg 0)) := by
    cases hr : inp.isRv 1
    · exact (ok_xfer_copy inp 1 0 _).2 ⟨lvcr_of_any h1 hr, by omega, d0⟩
    · exact (ok_xfer_move inp 1 0 _).2 ⟨not_lvcr_of_rv hr, by omega, d0⟩
  refine safe_pair ((ok_pop inp 0 0 .drop).2 ⟨hio0, by omega, destOk_drop inp⟩) hx ?_
  intro b j hk hu
  cases inp.isRv 1 <;> simp [fwd, Instr.kills, Instr.uses] at hk hu <;> omega

theorem safe_treePush2 (inp : Input) (o : Op)
    (ho : o = .treePushFrontValue ∨ o = .treeInsertValue ∨ o = .treePushFrontTree ∨ o = .treeInsertTree) (h : wf o inp = true) :
    Safe inp (prog o inp) := by
  have hs := shape_of_wf h
  rcases ho with rfl | rfl | rfl | rfl <;> simp only [shapeOk, Bool.and_eq_true] at hs
  · obtain ⟨⟨⟨⟨⟨_, h0⟩, h1⟩, _⟩, _⟩, _⟩ := hs
    exact safe_xferAll_fwd h1 (Nat.le_refl _) ((destOk_arg inp 0).2 ⟨not_lvcr_of_in h0 rvio_io, lt_of_catIn h0⟩)
  · obtain ⟨⟨⟨⟨⟨⟨_, h0⟩, h1⟩, _⟩, _⟩, _⟩, _⟩ := hs
    exact safe_xferAll_fwd h1 (Nat.le_refl _) ((destOk_arg inp 0).2 ⟨not_lvcr_of_in h0 rvio_io, lt_of_catIn h0⟩)
  · obtain ⟨⟨⟨⟨⟨_, h0⟩, h1⟩, _⟩, _⟩, _⟩ := hs
    exact safe_xferAll_fwd (anyCat_of_rv h1) (Nat.le_refl _) ((destOk_arg inp 0).2 ⟨not_lvcr_of_in h0 rvio_io, lt_of_catIn h0⟩)
  · obtain ⟨⟨⟨⟨⟨⟨_, h0⟩, h1⟩, _⟩, _⟩, _⟩, _⟩ := hs
    exact safe_xferAll_fwd (anyCat_of_rv h1) (Nat.le_refl _) ((destOk_arg inp 0).2 ⟨not_lvcr_of_in h0 rvio_io, lt_of_catIn h0⟩)

theorem safe_treePop (inp : Input) (o : Op) (ho : o = .treePopBack ∨ o = .treePopFront) (h : wf o inp = true) :
    Safe inp (prog o inp) := by
  have hs := shape_of_wf h
  rcases ho with rfl | rfl <;> simp only [shapeOk, Bool.and_eq_true] at hs <;>
  · have h0 := hs.1.1.2
    exact safe_ite (fun _ => safe_nil inp)
      (fun hn => safe_singleton ((ok_pop inp 0 _ .res).2 ⟨not_lvcr_of_in h0 rvio_io, by omega, destOk_res inp⟩))

theorem safe_treeEraseOps (inp : Input) (o : Op) (ho : o = .treeErase ∨ o = .treeEraseRange ∨ o = .treeClear) (h : wf o inp = true) :
    Safe inp (prog o inp) := by
  have hs := shape_of_wf h
  rcases ho with rfl | rfl | rfl <;> simp only [shapeOk, Bool.and_eq_true, decide_eq_true_eq] at hs
  · exact safe_eraseRange (not_lvcr_of_in hs.1.1.2 rvio_io) (by omega)
  · exact safe_eraseRange (not_lvcr_of_in hs.1.1.1.2 rvio_io) (by omega)
  · exact safe_eraseRange (not_lvcr_of_in hs.1.1.2 rvio_io) (Nat.le_refl _)

theorem safe_treeSort (inp : Input) (h : wf .treeSort inp = true) : Safe inp (prog .treeSort inp) :=
  safe_readAll (Nat.le_refl _)

theorem safe_gridCtors (inp : Input) (o : Op) (ho : o = .gridCtorFn ∨ o = .algGenerateN) (h : wf o inp = true) :
    Safe inp (prog o inp) := by
  rcases ho with rfl | rfl <;> exact safe_freshRange _ _ (destOk_res inp)

theorem safe_gridCtorValue (inp : Input) (h : wf .gridCtorValue inp = true) : Safe inp (prog .gridCtorValue inp) := by
  have hs := shape_of_wf h
  simp only [shapeOk, Bool.and_eq_true, beq_iff_eq] at hs
  exact safe_copies (lvcr_of_in hs.1.1.2 lvcr_cr) (by omega)

theorem safe_gridRows (inp : Input) (o : Op) (ho : o = .gridCtorRows2 ∨ o = .gridStaticRow2) (h : wf o inp = true) :
    Safe inp (prog o inp) := by
  have hs := shape_of_wf h
  rcases ho with rfl | rfl <;> simp only [shapeOk, Bool.and_eq_true] at hs
  · exact safe_fwd2 (anyCat_of_rv hs.1.1.1.1.2) (anyCat_of_rv hs.1.1.1.2) (destOk_res inp)
  · exact safe_fwd2 hs.1.1.1.1.2 hs.1.1.1.2 (destOk_res inp)

theorem safe_gridCtorGrid (inp : Input) (h : wf .gridCtorGrid inp = true) : Safe inp (prog .gridCtorGrid inp) := by
  have hs := shape_of_wf h
  simp only [shapeOk, Bool.and_eq_true] at hs
  exact safe_whole hs.1.1.2 (destOk_res inp)

theorem safe_gridAssign (inp : Input) (h : wf .gridAssign inp = true) : Safe inp (prog .gridAssign inp) := by
  have hs := shape_of_wf h
  simp only [shapeOk, Bool.and_eq_true] at hs
  obtain ⟨⟨⟨_, h0⟩, h1⟩, _⟩ := hs
  have hio0 := not_lvcr_of_in h0 rvio_io
  have d0 : DestOk inp (.arg 0) := (destOk_arg inp 0).2 ⟨hio0, lt_of_catIn h0⟩
  have htail : Safe inp (if inp.isRv 1 = true then [Instr.steal 1 (.arg 0)] else xferAll 1 (inp.size 1) .copy (.arg 0)) := by
    cases hr : inp.isRv 1
    · simp only [Bool.false_eq_true, if_false]
      exact safe_xferAll_copy (lvcr_of_any h1 hr) (Nat.le_refl _) d0
    · simp only [if_true]
      exact safe_singleton ((ok_steal inp 1 _).2 ⟨not_lvcr_of_rv hr, lt_of_catIn h1, d0⟩)
  have htail1 : OnArg 1 (if inp.isRv 1 = true then [Instr.steal 1 (.arg 0)] else xferAll 1 (inp.size 1) .copy (.arg 0)) := by
    split
    · exact onArg_singleton (fun b j hb => by simp [Instr.kills, Instr.uses] at hb; omega)
    · exact onArg_xferAll _ _ _ _
  refine safe_cons ((ok_steal inp 0 .drop).2 ⟨hio0, lt_of_catIn h0, destOk_drop inp⟩) htail ?_
  intro y hy b j hk hu
  have := htail1 y hy b j (Or.inr hu)
  simp [Instr.kills] at hk
  omega

theorem safe_gridFill (inp : Input) (h : wf .gridFill inp = true) : Safe inp (prog .gridFill inp) := by
  have hs := shape_of_wf h
  simp only [shapeOk, Bool.and_eq_true] at hs
  exact safe_fillAll (not_lvcr_of_in hs.1.2 rvio_io) (lt_of_catIn hs.1.2) (Nat.le_refl _)

/-! ## extension round 3: parse / options results -/

theorem safe_results (inp : Input) (o : Op)
    (ho : o = .parseOpt ∨ o = .parseConvert ∨ o = .optsArgument ∨ o = .optsOptional ∨ o = .parseAlt ∨ o = .optsSum)
    (h : wf o inp = true) : Safe inp (prog o inp) := by
  rcases ho with rfl | rfl | rfl | rfl | rfl | rfl
  · exact safe_ite (fun _ => safe_fresh_res inp 1000 (by omega)) (fun _ => safe_nil inp)
  · exact safe_ite (fun _ => safe_fresh_res inp 1000 (by omega)) (fun _ => safe_nil inp)
  · exact safe_ite (fun _ => safe_fresh_res inp 1000 (by omega)) (fun _ => safe_nil inp)
  · exact safe_ite (fun _ => safe_fresh_res inp 1000 (by omega)) (fun _ => safe_nil inp)
  · exact safe_ite (fun _ => safe_fresh_res inp 1000 (by omega)) (fun _ => safe_nil inp)
  · exact safe_ite
      (fun _ => safe_pair ((ok_fresh inp _ .res).2 ⟨by omega, destOk_res inp⟩) ((ok_fresh inp _ .res).2 ⟨by omega, destOk_res inp⟩)
        (fun b j hk _ => hk))
      (fun _ => safe_pair ((ok_fresh inp _ .drop).2 ⟨by omega, destOk_drop inp⟩) ((ok_fresh inp _ .res).2 ⟨by omega, destOk_res inp⟩)
        (fun b j hk _ => hk))

theorem safe_results2 (inp : Input) (o : Op) (ho : o = .parseAsStruct ∨ o = .optsProduct) (h : wf o inp = true) :
    Safe inp (prog o inp) := by
  rcases ho with rfl | rfl <;>
  · refine safe_ite (fun _ => ?_) (fun _ => safe_ite (fun _ => ?_) (fun _ => safe_nil inp))
    · exact safe_cons ((ok_fresh inp _ .res).2 ⟨by omega, destOk_res inp⟩) (safe_fresh_res inp 1001 (by omega))
        (fun y _ b j hk _ => hk)
    · exact safe_singleton ((ok_fresh inp _ .drop).2 ⟨by omega, destOk_drop inp⟩)

theorem safe_resultsN (inp : Input) (o : Op) (ho : o = .parseSeparator ∨ o = .parseList ∨ o = .parseRepPlus ∨ o = .optsMany)
    (h : wf o inp = true) : Safe inp (prog o inp) := by
  rcases ho with rfl | rfl | rfl | rfl <;> exact safe_freshRange _ _ (destOk_res inp)

/-! ## extension round 4 -/

theorem rvio_io4 {inp : Input} {a : Nat} (h : catIn inp a [.io] = true) : ¬ IsLvCr (inp.cat a) ∧ a < inp.args.length :=
  ⟨not_lvcr_of_in h rvio_io, lt_of_catIn h⟩

theorem safe_treeSwap (inp : Input) (h : wf .treeSwap inp = true) : Safe inp (prog .treeSwap inp) := by
  have hs := shape_of_wf h
  simp only [shapeOk, Bool.and_eq_true, beq_iff_eq] at hs
  obtain ⟨⟨⟨⟨⟨⟨⟨_, h0⟩, h1⟩, h2⟩, h3⟩, hn0⟩, _⟩, _⟩ := hs
  obtain ⟨c0, _⟩ := rvio_io4 h0
  obtain ⟨c1, l1⟩ := rvio_io4 h1
  obtain ⟨c2, l2⟩ := rvio_io4 h2
  obtain ⟨c3, l3⟩ := rvio_io4 h3
  refine ⟨?_, ?_⟩
  · intro x hx
    simp only [prog, List.mem_cons, List.not_mem_nil, or_false] at hx
    rcases hx with rfl | rfl | rfl | rfl
    · exact (ok_swap inp 0 0 1).2 ⟨c0, by omega, by omega⟩
    · exact (ok_steal inp 1 _).2 ⟨c1, l1, (destOk_arg inp 3).2 ⟨c3, l3⟩⟩
    · exact (ok_steal inp 2 _).2 ⟨c2, l2, (destOk_arg inp 1).2 ⟨c1, l1⟩⟩
    · exact (ok_steal inp 3 _).2 ⟨c3, l3, (destOk_arg inp 2).2 ⟨c2, l2⟩⟩
  · simp only [prog]
    refine (clean_cons _ _).2 ⟨fun y _ b j hk _ => hk, (clean_cons _ _).2 ⟨?_, (clean_cons _ _).2 ⟨?_, clean_singleton _⟩⟩⟩
    · intro y hy b j _ hu
      simp only [List.mem_cons, List.not_mem_nil, or_false] at hy
      rcases hy with rfl | rfl <;> exact hu
    · intro y hy b j _ hu
      simp only [List.mem_singleton] at hy
      subst hy; exact hu

theorem safe_selfOps (inp : Input) (o : Op) (ho : o = .joinSelf ∨ o = .arrJoinSelf ∨ o = .tupConcatSelf) (h : wf o inp = true) :
    Safe inp (prog o inp) := by
  have hs := shape_of_wf h
  rcases ho with rfl | rfl | rfl <;> simp only [shapeOk, Bool.and_eq_true] at hs <;>
  · have c := safe_xferAll_copy (d := .res) (lvcr_of_in hs.1.2 lvcr_lvcr) (Nat.le_refl (inp.size 0)) (destOk_res inp)
    exact safe_append c c (cross_of_noKills (noKills_xferAll_copy _ _ _))

theorem safe_optCombineSelf (inp : Input) (h : wf .optCombineSelf inp = true) : Safe inp (prog .optCombineSelf inp) := by
  refine safe_ite (fun _ => safe_nil inp) (fun hn => ?_)
  exact safe_pair ((ok_read inp 0 0).2 (by omega)) ((ok_derive inp 0 0 1 .res).2 ⟨by omega, destOk_res inp⟩) (fun b j hk _ => hk)

theorem safe_map2 (inp : Input) (o : Op) (ho : o = .algMapList ∨ o = .algMapArr ∨ o = .algMapTup) (h : wf o inp = true) :
    Safe inp (prog o inp) := by
  have hs := shape_of_wf h
  rcases ho with rfl | rfl | rfl <;> simp only [shapeOk, Bool.and_eq_true] at hs <;>
  · exact safe_callAll hs.1.2 (Nat.le_refl _) (destOk_res inp)

theorem safe_readOps (inp : Input) (o : Op) (ho : o = .treeSortPred ∨ o = .algLoopBreakTuple) (h : wf o inp = true) :
    Safe inp (prog o inp) := by
  rcases ho with rfl | rfl
  · exact safe_readAll (Nat.le_refl _)
  · exact safe_readAll (Nat.min_le_left _ _)

theorem safe_recSet (inp : Input) (h : wf .recSet inp = true) : Safe inp (prog .recSet inp) := by
  have hs := shape_of_wf h
  simp only [shapeOk, Bool.and_eq_true, beq_iff_eq, decide_eq_true_eq] at hs
  obtain ⟨⟨⟨⟨⟨_, h0⟩, h1⟩, hn1⟩, _⟩, hj⟩ := hs
  obtain ⟨c0, l0⟩ := rvio_io4 h0
  have d0 : DestOk inp (.arg 0) := (destOk_arg inp 0).2 ⟨c0, l0⟩
  have hx : Ok inp (.xfer 1 0 (fwd (inp.isRv 1)) (.arg 0)) := by
    cases hr : inp.isRv 1
    · exact (ok_xfer_copy inp 1 0 _).2 ⟨lvcr_of_any h1 hr, by omega, d0⟩
    · exact (ok_xfer_move inp 1 0 _).2 ⟨not_lvcr_of_rv hr, by omega, d0⟩
  refine safe_pair ((ok_pop inp 0 _ .drop).2 ⟨c0, hj, destOk_drop inp⟩) hx ?_
  intro b j hk hu
  cases inp.isRv 1 <;> simp [fwd, Instr.kills, Instr.uses] at hk hu <;> omega

/-! ## extension round 5: remove / unique -/

theorem safe_compactOps (inp : Input) (o : Op) (ho : o = .algRemoveIf ∨ o = .algUniqueIf) (h : wf o inp = true) :
    Safe inp (prog o inp) := by
  have hs := shape_of_wf h
  rcases ho with rfl | rfl <;> simp only [shapeOk, Bool.and_eq_true, beq_iff_eq] at hs
  · exact safe_compact (not_lvcr_of_in hs.1.1.2 rvio_io) (by omega)
  · exact safe_compact (not_lvcr_of_in hs.1.1.1.2 rvio_io) (by omega)

theorem safe_seqIterVec (inp : Input) (h : wf .algSeqIterationVec inp = true) : Safe inp (prog .algSeqIterationVec inp) := by
  have hs := shape_of_wf h
  simp only [shapeOk, Bool.and_eq_true, beq_iff_eq] at hs
  exact safe_iterEraseVec (not_lvcr_of_in hs.1.1.2 rvio_io) (by omega)

theorem safe_algRemove (inp : Input) (h : wf .algRemove inp = true) : Safe inp (prog .algRemove inp) := by
  have hs := shape_of_wf h
  simp only [shapeOk, Bool.and_eq_true, beq_iff_eq] at hs
  obtain ⟨⟨⟨⟨_, h0⟩, h1⟩, hn1⟩, _⟩ := hs
  exact safe_cons ((ok_xfer_copy inp 1 0 .drop).2 ⟨lvcr_of_in h1 lvcr_cr, by omega, destOk_drop inp⟩) (safe_readAll (Nat.le_refl _))
    (fun y _ b j hk _ => hk)

theorem safe_algUnique (inp : Input) (h : wf .algUnique inp = true) : Safe inp (prog .algUnique inp) :=
  safe_readAll (Nat.le_refl _)

/-- **every registered operation's program is safe**, for arguments of every size -/
theorem prog_safe (o : Op) (inp : Input) (h : wf o inp = true) : Safe inp (prog o inp) := by
  cases o with
  | algMap => exact safe_algMap inp h
  | fold => exact safe_fold inp h
  | foldBreak => exact safe_foldBreak inp h
  | mapConcat => exact safe_mapConcat inp h
  | mapOptional => exact safe_mapOptional inp h
  | reverse => exact safe_reverse inp h
  | join2 => exact safe_join2 inp h
  | join3 => exact safe_join3 inp h
  | popBack => exact safe_popBack inp h
  | popFront => exact safe_popFront inp h
  | moveRangeMap => exact safe_moveRangeMap inp h
  | moveClear => exact safe_moveClear inp h
  | getOrInsert => exact safe_getOrInsert inp _ (Or.inl rfl) h
  | getOrInsertWithResult => exact safe_getOrInsert inp _ (Or.inr rfl) h
  | optMap => exact safe_optMap inp h
  | optBind => exact safe_optBind inp h
  | optFrom => exact safe_optFrom inp h
  | optAlt => exact safe_optAlt inp h
  | optFilter => exact safe_optFilter inp h
  | optToContainer => exact safe_optToContainer inp h
  | optJoin => exact safe_optJoin inp h
  | optCombine => exact safe_optCombine inp h
  | optApply2 => exact safe_optApply2 inp h
  | optSequence => exact safe_optSequence inp h
  | optCat => exact safe_optCat inp h
  | moveIf => exact safe_moveIf inp _ (Or.inl rfl) h
  | moveIfRvalue => exact safe_moveIf inp _ (Or.inr rfl) h
  | eithMap => exact safe_eith1 inp _ (Or.inl rfl) h
  | eithMapFailure => exact safe_eith1 inp _ (Or.inr (Or.inl rfl)) h
  | eithMatch => exact safe_eith1 inp _ (Or.inr (Or.inr (Or.inl rfl))) h
  | eithSuccessOpt => exact safe_eith1 inp _ (Or.inr (Or.inr (Or.inr (Or.inl rfl)))) h
  | eithFailureOpt => exact safe_eith1 inp _ (Or.inr (Or.inr (Or.inr (Or.inr rfl)))) h
  | eithBind => exact safe_eithBind inp h
  | eithFromOptional => exact safe_eithFromOptional inp h
  | eithJoin => exact safe_eithJoin inp h
  | eithApply2 => exact safe_eithApply2 inp h
  | eithSequence => exact safe_eithSequence inp h
  | eithFirstSuccess => exact safe_eithFirstSuccess inp h
  | varMatch => exact safe_var1 inp _ (Or.inl rfl) h
  | varApply => exact safe_var1 inp _ (Or.inr rfl) h
  | varApply2 => exact safe_varApply2 inp h
  | varToOptional => exact safe_varToOptional inp h
  | tupMap => exact safe_map1 inp _ (Or.inl rfl) h
  | arrMap => exact safe_map1 inp _ (Or.inr (Or.inl rfl)) h
  | recMap => exact safe_map1 inp _ (Or.inr (Or.inr rfl)) h
  | tupPushBack => exact safe_two inp _ (Or.inl rfl) h
  | tupConcat => exact safe_two inp _ (Or.inr (Or.inl rfl)) h
  | arrPushBack => exact safe_two inp _ (Or.inr (Or.inr (Or.inl rfl))) h
  | arrJoin2 => exact safe_two inp _ (Or.inr (Or.inr (Or.inr (Or.inl rfl)))) h
  | recMultiplyDisjoint => exact safe_two inp _ (Or.inr (Or.inr (Or.inr (Or.inr rfl)))) h
  | arrJoin3 => exact safe_arrJoin3 inp h
  | arrFromRange => exact safe_arrFromRange inp h
  | recPermute => exact safe_recPermute inp h
  | contMake => exact safe_contMake inp h
  | gridMap => exact safe_gridMap inp h
  | gridApply2 => exact safe_gridApply2 inp h
  | gridResize => exact safe_gridResize inp h
  | treeCtor => exact safe_treeCtor inp h
  | treePushValue => exact safe_treePush inp _ (Or.inl rfl) h
  | treePushTree => exact safe_treePush inp _ (Or.inr rfl) h
  | treeRelease => exact safe_treeRelease inp h
  | treeMap => exact safe_treeMap inp h
  | optsFlag => exact safe_optsFlag inp h
  | optsOption => exact safe_optsOption inp h
  | parseSequence => exact safe_parseSequence inp h
  | parseRepetition => exact safe_parseRepetition inp h
  | tupFromArray => exact safe_fwd1 inp _ (by simp) h
  | optMake => exact safe_fwd1 inp _ (by simp) h
  | optCtor => exact safe_fwd1 inp _ (by simp) h
  | optToException => exact safe_fwd1 inp _ (by simp) h
  | eithMakeSuccess => exact safe_fwd1 inp _ (by simp) h
  | eithMakeFailure => exact safe_fwd1 inp _ (by simp) h
  | eithCtor => exact safe_fwd1 inp _ (by simp) h
  | varCtor => exact safe_fwd1 inp _ (by simp) h
  | eithErrorFromOptional => exact safe_fwd1 inp _ (by simp) h
  | optCopyValue => exact safe_fwd1 inp _ (by simp) h
  | tupInvoke => exact safe_call1 inp _ (by simp) h
  | optMaybeVoid => exact safe_call1 inp _ (by simp) h
  | optMaybe => exact safe_call1 inp _ (by simp) h
  | eithToException => exact safe_call1 inp _ (by simp) h
  | tupApply2 => exact safe_zip2 inp _ (by simp) h
  | arrApply2 => exact safe_zip2 inp _ (by simp) h
  | tupMake2 => exact safe_make2 inp _ (by simp) h
  | arrMake2 => exact safe_make2 inp _ (by simp) h
  | recCtor2 => exact safe_make2 inp _ (by simp) h
  | tupInit => exact safe_init inp _ (by simp) h
  | arrInit => exact safe_init inp _ (by simp) h
  | recInit => exact safe_init inp _ (by simp) h
  | eithLoop => exact safe_init inp _ (by simp) h
  | optMakeIf => exact safe_fresh1 inp _ (by simp) h
  | eithConstruct => exact safe_fresh1 inp _ (by simp) h
  | eithTryCall => exact safe_fresh1 inp _ (by simp) h
  | optAssign => exact safe_optAssign inp h
  | optMaybeMulti2 => exact safe_maybeMulti inp _ (by simp) h
  | optMaybeVoidMulti2 => exact safe_maybeMulti inp _ (by simp) h
  | eithSequenceError => exact safe_eithSequenceError inp h
  | algFindOpt => exact safe_find inp _ (by simp) h
  | algIndexOf => exact safe_find inp _ (by simp) h
  | algContains => exact safe_find inp _ (by simp) h
  | algFindIfOpt => exact safe_findIf inp h
  | algFindByOpt => exact safe_findBy inp h
  | algGenerateN => exact safe_gridCtors inp _ (by simp) h
  | algMapIteration => exact safe_iter inp _ (by simp) h
  | algMapIterationSecond => exact safe_iter inp _ (by simp) h
  | algSeqIteration => exact safe_iter inp _ (by simp) h
  | contInsert => exact safe_contInsert inp h
  | contSetUnion => exact safe_setOps inp _ (by simp) h
  | contSetDifference => exact safe_setOps inp _ (by simp) h
  | contSetIntersection => exact safe_setOps inp _ (by simp) h
  | contMapValuesCopy => exact safe_mapValuesCopy inp h
  | contAtOptional => exact safe_refOps inp _ (by simp) h
  | contMaybeBack => exact safe_refOps inp _ (by simp) h
  | contMaybeFront => exact safe_refOps inp _ (by simp) h
  | contFindOptMapped => exact safe_refOps inp _ (by simp) h
  | treeSelfAssign => exact safe_refOps inp _ (by simp) h
  | gridSelfAssign => exact safe_refOps inp _ (by simp) h
  | contIndexMapGet => exact safe_indexMapGet inp h
  | treeCtorTree => exact safe_treeCtorTree inp _ (by simp) h
  | treeCtorChildren => exact safe_treeCtorTree inp _ (by simp) h
  | treeAssign => exact safe_treeAssign inp h
  | treeSetValue => exact safe_treeSetValue inp h
  | treePushFrontValue => exact safe_treePush2 inp _ (by simp) h
  | treeInsertValue => exact safe_treePush2 inp _ (by simp) h
  | treePushFrontTree => exact safe_treePush2 inp _ (by simp) h
  | treeInsertTree => exact safe_treePush2 inp _ (by simp) h
  | treePopBack => exact safe_treePop inp _ (by simp) h
  | treePopFront => exact safe_treePop inp _ (by simp) h
  | treeErase => exact safe_treeEraseOps inp _ (by simp) h
  | treeEraseRange => exact safe_treeEraseOps inp _ (by simp) h
  | treeClear => exact safe_treeEraseOps inp _ (by simp) h
  | treeSort => exact safe_treeSort inp h
  | gridCtorFn => exact safe_gridCtors inp _ (by simp) h
  | gridCtorValue => exact safe_gridCtorValue inp h
  | gridCtorRows2 => exact safe_gridRows inp _ (by simp) h
  | gridStaticRow2 => exact safe_gridRows inp _ (by simp) h
  | gridCtorGrid => exact safe_gridCtorGrid inp h
  | gridAssign => exact safe_gridAssign inp h
  | gridFill => exact safe_gridFill inp h
  | parseOpt => exact safe_results inp _ (by simp) h
  | parseConvert => exact safe_results inp _ (by simp) h
  | optsArgument => exact safe_results inp _ (by simp) h
  | optsOptional => exact safe_results inp _ (by simp) h
  | parseAlt => exact safe_results inp _ (by simp) h
  | optsSum => exact safe_results inp _ (by simp) h
  | parseAsStruct => exact safe_results2 inp _ (by simp) h
  | optsProduct => exact safe_results2 inp _ (by simp) h
  | parseSeparator => exact safe_resultsN inp _ (by simp) h
  | parseList => exact safe_resultsN inp _ (by simp) h
  | parseRepPlus => exact safe_resultsN inp _ (by simp) h
  | optsMany => exact safe_resultsN inp _ (by simp) h
  | treeSwap => exact safe_treeSwap inp h
  | treeSortPred => exact safe_readOps inp _ (by simp) h
  | algLoopBreakTuple => exact safe_readOps inp _ (by simp) h
  | joinSelf => exact safe_selfOps inp _ (by simp) h
  | arrJoinSelf => exact safe_selfOps inp _ (by simp) h
  | tupConcatSelf => exact safe_selfOps inp _ (by simp) h
  | optCombineSelf => exact safe_optCombineSelf inp h
  | algMapList => exact safe_map2 inp _ (by simp) h
  | algMapArr => exact safe_map2 inp _ (by simp) h
  | algMapTup => exact safe_map2 inp _ (by simp) h
  | recSet => exact safe_recSet inp h
  | algRemoveIf => exact safe_compactOps inp _ (by simp) h
  | algUniqueIf => exact safe_compactOps inp _ (by simp) h
  | algRemove => exact safe_algRemove inp h
  | algUnique => exact safe_algUnique inp h
  | algSeqIterationVec => exact safe_seqIterVec inp h

end Fcppt.C05
