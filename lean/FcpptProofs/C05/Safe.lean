import FcpptProofs.C05.Clean
import FcpptProofs.C05.Events
import FcpptModel.Model.C05
set_option linter.unusedSimpArgs false
set_option linter.unusedVariables false
/-!
# C05 lemmas — the syntactic conditions ("safe program") and how the builders satisfy them
-/
namespace Fcppt.C05

/-- a destination inside an argument must be an existing argument that is not a `T&`/`T const&` one -/
def DestOk (inp : Input) (d : Dest) : Prop := ∀ b, d = .arg b → ¬ IsLvCr (inp.cat b) ∧ b < inp.args.length

/-- one instruction respects the value categories and stays inside the arguments -/
structure Ok (inp : Input) (x : Instr) : Prop where
  copies : ∀ a, x.copiesFrom a → IsLvCr (inp.cat a)
  writes : ∀ a, x.writes a → ¬ IsLvCr (inp.cat a)
  bounds : ∀ a i, x.uses a i → i < inp.size a
  exists_ : ∀ a, x.needsArg a → a < inp.args.length
  fresh : ∀ v, x.freshId = some v → 100 ≤ v

/-- **safe program**: copies only from lvalue arguments, writes only rvalue / in-out arguments, stays in bounds,
and never touches an object after moving from it or destroying it -/
structure Safe (inp : Input) (p : List Instr) : Prop where
  ok : ∀ x ∈ p, Ok inp x
  clean : Clean p

@[simp] theorem destOk_res (inp : Input) : DestOk inp .res := by intro b h; cases h
@[simp] theorem destOk_drop (inp : Input) : DestOk inp .drop := by intro b h; cases h
theorem destOk_arg (inp : Input) (b : Nat) : DestOk inp (.arg b) ↔ ¬ IsLvCr (inp.cat b) ∧ b < inp.args.length := by
  constructor
  · intro h; exact h b rfl
  · intro h c hc; cases hc; exact h

theorem ok_xfer_move (inp : Input) (a i : Nat) (d : Dest) :
    Ok inp (.xfer a i .move d) ↔ ¬ IsLvCr (inp.cat a) ∧ i < inp.size a ∧ DestOk inp d := by
  constructor
  · intro h
    exact ⟨h.writes a (Or.inl rfl), h.bounds a i ⟨rfl, rfl⟩, fun b hb => ⟨h.writes b (Or.inr hb), h.exists_ b hb⟩⟩
  · rintro ⟨h1, h2, h3⟩
    refine ⟨fun b hb => hb.elim, ?_, ?_, fun b hb => (h3 b hb).2, fun v hv => by cases hv⟩
    · rintro b (rfl | hb)
      · exact h1
      · exact (h3 b hb).1
    · rintro b j ⟨rfl, rfl⟩; exact h2

theorem ok_xfer_copy (inp : Input) (a i : Nat) (d : Dest) :
    Ok inp (.xfer a i .copy d) ↔ IsLvCr (inp.cat a) ∧ i < inp.size a ∧ DestOk inp d := by
  constructor
  · intro h
    exact ⟨h.copies a rfl, h.bounds a i ⟨rfl, rfl⟩, fun b hb => ⟨h.writes b hb, h.exists_ b hb⟩⟩
  · rintro ⟨h1, h2, h3⟩
    refine ⟨?_, fun b hb => (h3 b hb).1, ?_, fun b hb => (h3 b hb).2, fun v hv => by cases hv⟩
    · rintro b rfl; exact h1
    · rintro b j ⟨rfl, rfl⟩; exact h2

theorem ok_derive (inp : Input) (a i k : Nat) (d : Dest) :
    Ok inp (.derive a i k d) ↔ i < inp.size a ∧ DestOk inp d := by
  constructor
  · intro h
    exact ⟨h.bounds a i ⟨rfl, rfl⟩, fun b hb => ⟨h.writes b hb, h.exists_ b hb⟩⟩
  · rintro ⟨h2, h3⟩
    refine ⟨fun b hb => hb.elim, fun b hb => (h3 b hb).1, ?_, fun b hb => (h3 b hb).2, fun v hv => by cases hv⟩
    rintro b j ⟨rfl, rfl⟩; exact h2

theorem ok_read (inp : Input) (a i : Nat) : Ok inp (.read a i) ↔ i < inp.size a := by
  constructor
  · intro h; exact h.bounds a i ⟨rfl, rfl⟩
  · intro h2
    refine ⟨fun b hb => hb.elim, fun b hb => hb.elim, ?_, fun b hb => hb.elim, fun v hv => by cases hv⟩
    rintro b j ⟨rfl, rfl⟩; exact h2

theorem ok_shift (inp : Input) (a i : Nat) : Ok inp (.shift a i) ↔ ¬ IsLvCr (inp.cat a) ∧ i < inp.size a := by
  constructor
  · intro h; exact ⟨h.writes a rfl, h.bounds a i ⟨rfl, rfl⟩⟩
  · rintro ⟨h1, h2⟩
    refine ⟨fun b hb => hb.elim, ?_, ?_, fun b hb => hb.elim, fun v hv => by cases hv⟩
    · rintro b rfl; exact h1
    · rintro b j ⟨rfl, rfl⟩; exact h2

theorem ok_steal (inp : Input) (a : Nat) (d : Dest) :
    Ok inp (.steal a d) ↔ ¬ IsLvCr (inp.cat a) ∧ a < inp.args.length ∧ DestOk inp d := by
  constructor
  · intro h
    exact ⟨h.writes a (Or.inl rfl), h.exists_ a (Or.inl rfl), fun b hb => ⟨h.writes b (Or.inr hb), h.exists_ b (Or.inr hb)⟩⟩
  · rintro ⟨h1, h2, h3⟩
    refine ⟨fun b hb => hb.elim, ?_, fun b j hb => hb.elim, ?_, fun v hv => by cases hv⟩
    · rintro b (rfl | hb)
      · exact h1
      · exact (h3 b hb).1
    · rintro b (rfl | hb)
      · exact h2
      · exact (h3 b hb).2

theorem ok_pop (inp : Input) (a i : Nat) (d : Dest) :
    Ok inp (.pop a i d) ↔ ¬ IsLvCr (inp.cat a) ∧ i < inp.size a ∧ DestOk inp d := by
  constructor
  · intro h
    exact ⟨h.writes a (Or.inl rfl), h.bounds a i ⟨rfl, rfl⟩, fun b hb => ⟨h.writes b (Or.inr hb), h.exists_ b hb⟩⟩
  · rintro ⟨h1, h2, h3⟩
    refine ⟨fun b hb => hb.elim, ?_, ?_, fun b hb => (h3 b hb).2, fun v hv => by cases hv⟩
    · rintro b (rfl | hb)
      · exact h1
      · exact (h3 b hb).1
    · rintro b j ⟨rfl, rfl⟩; exact h2

theorem ok_swap (inp : Input) (a i j : Nat) :
    Ok inp (.swap a i j) ↔ ¬ IsLvCr (inp.cat a) ∧ i < inp.size a ∧ j < inp.size a := by
  constructor
  · intro h
    exact ⟨h.writes a rfl, h.bounds a i ⟨rfl, Or.inl rfl⟩, h.bounds a j ⟨rfl, Or.inr rfl⟩⟩
  · rintro ⟨h1, h2, h3⟩
    refine ⟨fun b hb => hb.elim, ?_, ?_, fun b hb => hb.elim, fun v hv => by cases hv⟩
    · rintro b rfl; exact h1
    · rintro b k ⟨rfl, rfl | rfl⟩
      · exact h2
      · exact h3

theorem ok_fresh (inp : Input) (v : Nat) (d : Dest) : Ok inp (.fresh v d) ↔ 100 ≤ v ∧ DestOk inp d := by
  constructor
  · intro h
    exact ⟨h.fresh v rfl, fun b hb => ⟨h.writes b hb, h.exists_ b hb⟩⟩
  · rintro ⟨h1, h3⟩
    refine ⟨fun b hb => hb.elim, fun b hb => (h3 b hb).1, fun b j hb => hb.elim, fun b hb => (h3 b hb).2, ?_⟩
    intro w hw; cases hw; exact h1

/-! ## Clean: composition -/

def NoUseAfter (x y : Instr) : Prop := ∀ a i, x.kills a i → ¬ y.uses a i

theorem clean_nil : Clean [] := List.Pairwise.nil

theorem clean_singleton (x : Instr) : Clean [x] := List.pairwise_singleton _ _

theorem clean_cons (x : Instr) (p : List Instr) : Clean (x :: p) ↔ (∀ y ∈ p, NoUseAfter x y) ∧ Clean p :=
  List.pairwise_cons

theorem clean_append (p q : List Instr) : Clean (p ++ q) ↔ Clean p ∧ Clean q ∧ ∀ x ∈ p, ∀ y ∈ q, NoUseAfter x y :=
  List.pairwise_append

theorem clean_of_no_kills (p : List Instr) (h : ∀ x ∈ p, ∀ a i, ¬ x.kills a i) : Clean p := by
  induction p with
  | nil => exact clean_nil
  | cons x xs ih =>
    rw [clean_cons]
    exact ⟨fun y _ a i hk => absurd hk (h x (by simp) a i), ih (fun y hy => h y (by simp [hy]))⟩

theorem clean_map_range (n : Nat) (f : Nat → Instr) (h : ∀ i j, i < j → j < n → NoUseAfter (f i) (f j)) :
    Clean ((List.range n).map f) := by
  unfold Clean
  rw [List.pairwise_map]
  have := @List.pairwise_lt_range n
  refine List.Pairwise.imp_of_mem ?_ this
  intro i j _ hj hij
  exact h i j hij (List.mem_range.1 hj)

theorem clean_map_range_reverse (n : Nat) (f : Nat → Instr) (h : ∀ i j, i < j → j < n → NoUseAfter (f j) (f i)) :
    Clean ((List.range n).reverse.map f) := by
  unfold Clean
  rw [List.pairwise_map, List.pairwise_reverse]
  have := @List.pairwise_lt_range n
  refine List.Pairwise.imp_of_mem ?_ this
  intro i j _ hj hij
  exact h i j hij (List.mem_range.1 hj)

/-! ## membership in the builders -/

theorem forall_mem_xferAll (P : Instr → Prop) (a n : Nat) (m : Mode) (d : Dest) :
    (∀ x ∈ xferAll a n m d, P x) ↔ ∀ i, i < n → P (.xfer a i m d) := by
  simp [xferAll]

theorem forall_mem_deriveEach (P : Instr → Prop) (a : Nat) (ks : List Nat) (d : Dest) :
    (∀ x ∈ deriveEach a ks d, P x) ↔ ∀ i k, ks[i]? = some k → P (.derive a i k d) := by
  simp only [deriveEach, List.mem_map, Prod.exists, List.mem_zipIdx_iff_getElem?]
  constructor
  · intro h i k hk; exact h _ ⟨k, i, hk, rfl⟩
  · rintro h x ⟨k, i, hk, rfl⟩; exact h i k hk

theorem forall_mem_reverseInPlace (P : Instr → Prop) (a n : Nat) :
    (∀ x ∈ reverseInPlace a n, P x) ↔ ∀ i, i < n / 2 → P (.swap a i (n - 1 - i)) := by
  simp [reverseInPlace]

end Fcppt.C05
