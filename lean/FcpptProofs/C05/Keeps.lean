import FcpptProofs.C05.Sound
set_option linter.unusedSimpArgs false
set_option linter.unusedVariables false
/-!
# C05 lemmas — operations that keep all elements: every element of an rvalue argument that the
program consumes completely is in the result exactly once
-/
namespace Fcppt.C05

def Instr.dest : Instr → Option Dest
  | .xfer _ _ _ d => some d
  | .derive _ _ _ d => some d
  | .steal _ d => some d
  | .pop _ _ d => some d
  | .fresh _ d => some d
  | .read _ _ => none
  | .shift _ _ => none
  | .swap _ _ _ => none

/-- every value the program produces goes to the result (nothing is dropped, nothing is put into an argument) -/
def AllToRes (p : List Instr) : Prop := ∀ x ∈ p, ∀ d, x.dest = some d → d = .res

/-- live objects carrying `x` in argument `b` -/
def argLive (x : Nat) (st : St) (b : Nat) : Nat := match st.args[b]? with | some l => l.countP (isLiveId x) | none => 0

@[simp] theorem put_res_lost (st : St) (vs : List Slot) : (put st .res vs).lost = st.lost := rfl
@[simp] theorem put_res_args (st : St) (vs : List Slot) : (put st .res vs).args = st.args := rfl
@[simp] theorem noteRam_lost' (st : St) (s : Slot) : (noteRam st s).lost = st.lost := by unfold noteRam; split <;> rfl

theorem countP_set_le (f : Slot → Bool) (l : List Slot) (i : Nat) (s' : Slot) (h : f s' = false) :
    (l.set i s').countP f ≤ l.countP f := by
  cases hi : l[i]? with
  | none =>
    have : l.length ≤ i := by
      rcases Nat.lt_or_ge i l.length with h' | h'
      · rw [List.getElem?_eq_getElem h'] at hi; cases hi
      · exact h'
    rw [List.set_eq_of_length_le this]; exact Nat.le_refl _
  | some s =>
    have := countP_set_some f l i s s' hi
    simp [h] at this
    omega

theorem argLive_setSlot_le (x : Nat) (st : St) (a i : Nat) (s' : Slot) (hs : s'.st ≠ .live) (b : Nat) (args' : List (List Slot))
    (he : args' = setSlot st.args a i s') : argLive x { st with args := args' } b ≤ argLive x st b := by
  subst he
  unfold argLive
  simp only [setSlot_getElem?]
  by_cases hab : a = b
  · simp only [hab, if_true]
    cases st.args[b]? with
    | none => simp
    | some l =>
      simp only [Option.map_some]
      apply countP_set_le
      simp [isLiveId, Slot.isLive]
      intro h; exact absurd h hs
  · simp only [hab, if_false]; exact Nat.le_refl _

def argLen (st : St) (b : Nat) : Option Nat := (st.args[b]?).map List.length

theorem argLen_setSlot (st : St) (a i : Nat) (s' : Slot) (b : Nat) (args' : List (List Slot))
    (he : args' = setSlot st.args a i s') : argLen { st with args := args' } b = argLen st b := by
  subst he
  unfold argLen
  simp only [setSlot_getElem?]
  by_cases hab : a = b
  · simp only [hab, if_true]
    cases st.args[b]? <;> simp
  · simp only [hab, if_false]

/-- one step of a program whose values all go to the result: nothing is lost, no argument gains a live object or grows -/
theorem step_toRes (x : Nat) (st : St) (ins : Instr) (h : ∀ d, ins.dest = some d → d = .res) :
    (step st ins).lost = st.lost ∧ (∀ b, argLive x (step st ins) b ≤ argLive x st b) ∧
      ∀ b, argLen (step st ins) b = argLen st b := by
  cases ins with
  | xfer a i m d =>
    obtain rfl := h d rfl
    cases m with
    | move =>
      simp only [step]
      split
      · exact ⟨rfl, fun b => Nat.le_refl _, fun b => rfl⟩
      · rename_i s hs
        refine ⟨by simp, fun b => ?_, fun b => ?_⟩
        · have := argLive_setSlot_le x (noteRam st s) a i { s with st := .moved } (by simp) b _ rfl
          simpa [argLive] using this
        · have := argLen_setSlot (noteRam st s) a i { s with st := .moved } b _ rfl
          simpa [argLen] using this
    | copy =>
      simp only [step]
      split
      · exact ⟨rfl, fun b => Nat.le_refl _, fun b => rfl⟩
      · exact ⟨by simp, fun b => by simp [argLive], fun b => by simp [argLen]⟩
  | derive a i k d =>
    obtain rfl := h d rfl
    simp only [step]
    split
    · exact ⟨rfl, fun b => Nat.le_refl _, fun b => rfl⟩
    · exact ⟨by simp, fun b => by simp [argLive], fun b => by simp [argLen]⟩
  | read a i =>
    simp only [step]
    split
    · exact ⟨rfl, fun b => Nat.le_refl _, fun b => rfl⟩
    · exact ⟨by simp, fun b => by simp [argLive], fun b => by simp [argLen]⟩
  | steal a d =>
    obtain rfl := h d rfl
    simp only [step]
    split
    · exact ⟨rfl, fun b => Nat.le_refl _, fun b => rfl⟩
    · refine ⟨by simp, fun b => ?_, fun b => ?_⟩
      · simp only [argLive, put_res_args, List.getElem?_modify]
        cases st.args[b]? with
        | none => simp
        | some l =>
          simp only [Option.map_eq_map, Option.map_some]
          split
          · rw [countP_map_gone _ (isLiveId_ne_gone x)]; exact Nat.zero_le _
          · exact Nat.le_refl _
      · simp only [argLen, put_res_args, List.getElem?_modify]
        cases st.args[b]? with
        | none => simp
        | some l =>
          simp only [Option.map_eq_map, Option.map_some]
          split <;> simp
  | pop a i d =>
    obtain rfl := h d rfl
    simp only [step]
    split
    · exact ⟨rfl, fun b => Nat.le_refl _, fun b => rfl⟩
    · rename_i s hs
      refine ⟨by simp, fun b => ?_, fun b => ?_⟩
      · have := argLive_setSlot_le x (noteRam st s) a i { s with st := .gone } (by simp) b _ rfl
        simpa [argLive] using this
      · have := argLen_setSlot (noteRam st s) a i { s with st := .gone } b _ rfl
        simpa [argLen] using this
  | swap a i j =>
    simp only [step]
    split
    · rename_i s t hs ht
      refine ⟨by simp, fun b => ?_, fun b => ?_⟩
      · -- the two writes exchange the contents of two slots of the same container
        have hj : getSlot (setSlot st.args a i t) a j = some t := by
          obtain ⟨_, _, _, htne⟩ := getSlot_eq_some.1 ht
          by_cases hij : i = j
          · subst hij; exact getSlot_setSlot_eq t hs htne
          · rw [getSlot_setSlot_ne _ _ _ _ _ _ (fun e => hij e.2)]; exact ht
        obtain ⟨l, hl, hli, _⟩ := getSlot_eq_some.1 hs
        obtain ⟨l2, hl2, hlj, _⟩ := getSlot_eq_some.1 hj
        simp only [argLive, noteRam_args, setSlot_getElem?]
        by_cases hab : a = b
        · subst hab
          simp only [if_true, hl, Option.map_some]
          have e1 := countP_set_some (isLiveId x) l i s t hli
          have hl2' : l2 = l.set i t := by
            rw [setSlot_getElem?] at hl2; simp [hl] at hl2; exact hl2.symm
          subst hl2'
          have e2 := countP_set_some (isLiveId x) (l.set i t) j t s hlj
          omega
        · simp [hab]
      · simp only [argLen, noteRam_args, setSlot_getElem?]
        by_cases hab : a = b
        · subst hab
          cases st.args[a]? <;> simp
        · simp [hab]
    · exact ⟨rfl, fun b => Nat.le_refl _, fun b => rfl⟩
    · exact ⟨rfl, fun b => Nat.le_refl _, fun b => rfl⟩
  | fresh v d =>
    obtain rfl := h d rfl
    simp only [step]
    exact ⟨by simp, fun b => by simp [argLive], fun b => by simp [argLen]⟩
  | shift a i =>
    simp only [step]
    split
    · exact ⟨rfl, fun b => Nat.le_refl _, fun b => rfl⟩
    · exact ⟨by simp, fun b => by simp [argLive], fun b => by simp [argLen]⟩

theorem run_toRes (x : Nat) (p : List Instr) (h : AllToRes p) (st : St) :
    (run p st).lost = st.lost ∧ (∀ b, argLive x (run p st) b ≤ argLive x st b) ∧ ∀ b, argLen (run p st) b = argLen st b := by
  induction p generalizing st with
  | nil => exact ⟨rfl, fun b => Nat.le_refl _, fun b => rfl⟩
  | cons y ys ih =>
    simp only [run, List.foldl_cons]
    have h1 := step_toRes x st y (h y (by simp))
    have h2 := ih (fun z hz => h z (by simp [hz])) (step st y)
    simp only [run] at h2
    exact ⟨h2.1.trans h1.1, fun b => Nat.le_trans (h2.2.1 b) (h1.2.1 b), fun b => (h2.2.2 b).trans (h1.2.2 b)⟩

theorem argsCnt_eq_zero (f : Slot → Bool) (args : List (List Slot)) (h : ∀ (b : Nat) (l : List Slot), args[b]? = some l → l.countP f = 0) :
    argsCnt f args = 0 := by
  induction args with
  | nil => rfl
  | cons y ys ih =>
    simp only [argsCnt, List.map_cons, List.sum_cons]
    have h0 := h 0 y (by simp)
    have := ih (fun b l hl => h (b + 1) l (by simpa using hl))
    simp only [argsCnt] at this
    omega

theorem argLive_init (inp : Input) (x b : Nat) : argLive x (St.init (inp.args.map (·.2))) b = (inp.ids b).count x := by
  unfold argLive
  rw [init_args]
  unfold Input.ids
  cases inp.args[b]? with
  | none => rfl
  | some u => simp [countP_mkArg_live]

variable {inp : Input} {p : List Instr}

/-- **Exactly once in the result**: if all values of a safe program go to the result and the program kills every element
object of the rvalue argument `a`, each element of `a` is live in the result exactly once and nowhere else. -/
theorem safe_rvalue_exactly_once (hi : idsOk inp = true) (hs : Safe inp p) (hr : AllToRes p) (a : Nat)
    (ha : inp.cat a = some .rv) (hk : ∀ i, i < inp.size a → ∃ x ∈ p, x.kills a i) :
    (runOn inp p).ExactlyOnceInResult a := by
  intro x hx
  rw [runOn_insOf] at hx
  have hxall := mem_allIds inp a x hx
  have hcons := safe_conserved hi hs x (by rw [runOn_inputs]; exact hxall)
  have hnocp : (runOn inp p).cp.count x = 0 :=
    List.count_eq_zero.2 (safe_noCopyOfRvalue hi hs a (by rw [runOn_catOf]; exact ha) x (by rw [runOn_insOf]; exact hx))
  have htr := run_toRes x p hr (St.init (inp.args.map (·.2)))
  have hlost : (runOn inp p).lost.count x = 0 := by
    show (run p (St.init (inp.args.map (·.2)))).lost.count x = 0
    rw [htr.1]; rfl
  -- no live `x` is left in any argument
  have hsz : ∀ b, (match (inp.args.map (·.2))[b]? with | some l => l.length | none => 0) = inp.size b := by
    intro b
    simp only [Input.size, Input.ids, List.getElem?_map]
    cases inp.args[b]? <;> rfl
  have hal := run_alive' p (alive_init (inp.args.map (·.2))) hs.clean
    (by
      intro y hy b i hu
      have hb := (hs.ok y hy).bounds b i hu
      rw [← hsz b] at hb
      exact ⟨hb, fun h => h⟩)
    (by
      intro y hy b hn
      simpa using (hs.ok y hy).exists_ b hn)
  have hargs : argsCnt (isLiveId x) (run p (St.init (inp.args.map (·.2)))).args = 0 := by
    apply argsCnt_eq_zero
    intro b l hl
    by_cases hab : b = a
    · subst hab
      -- every slot of `a` was killed
      rw [List.countP_eq_zero]
      intro s hsm hlive
      obtain ⟨i, hil, hget⟩ := List.getElem_of_mem hsm
      have hne := isLiveId_ne_gone x s hlive
      have hgs : getSlot (run p (St.init (inp.args.map (·.2)))).args b i = some s :=
        getSlot_eq_some.2 ⟨l, hl, by rw [List.getElem?_eq_getElem hil, hget], hne⟩
      -- the container did not grow: i < size
      by_cases hib : i < inp.size b
      · have hib' := hib
        rw [← hsz b] at hib'
        have hdead := hal.dead b i hib' (Or.inr (hk i hib)) s hgs
        simp [isLiveId, Slot.isLive] at hlive
        exact hdead hlive.1
      · -- a slot beyond the original size would be a live object the argument gained
        exfalso
        have hlen : l.length = inp.size b := by
          have := htr.2.2 b
          unfold argLen at this
          rw [hl, init_args] at this
          unfold Input.size Input.ids
          cases hb : inp.args[b]? with
          | none => simp [hb] at this
          | some u => simp [hb, mkArg] at this; exact this
        omega
    · have hle := htr.2.1 b
      rw [argLive_init] at hle
      have h0 : (inp.ids b).count x = 0 := by
        apply List.count_eq_zero.2
        intro hxb
        exact ids_disjoint inp hi b a hab x hxb hx
      unfold argLive at hle
      rw [hl] at hle
      simp only at hle
      omega
  have hlive := runOn_liveCount inp p x
  simp only [St.live, hargs, Nat.zero_add] at hlive
  have hres : (runOn inp p).resCount x = (run p (St.init (inp.args.map (·.2)))).res.countP (isLiveId x) := by
    simp only [Outcome.resCount, runOn, observe]
    exact countP_present_obs x _
  constructor
  · rw [hres, ← hlive]; omega
  · omega

end Fcppt.C05
