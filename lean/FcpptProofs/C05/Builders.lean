import FcpptProofs.C05.Safe
set_option linter.unusedSimpArgs false
set_option linter.unusedVariables false
/-!
# C05 lemmas — every builder is a safe program; composition
-/
namespace Fcppt.C05

/-! ## value categories from `wf` -/

theorem catIn_iff (inp : Input) (a : Nat) (cs : List Cat) : catIn inp a cs = true ↔ ∃ c, inp.cat a = some c ∧ c ∈ cs := by
  unfold catIn
  cases inp.cat a with
  | none => simp
  | some c => simp

theorem isRv_iff (inp : Input) (a : Nat) : inp.isRv a = true ↔ inp.cat a = some .rv := by
  simp [Input.isRv]

theorem cat_lt (inp : Input) (a : Nat) (c : Cat) (h : inp.cat a = some c) : a < inp.args.length := by
  unfold Input.cat at h
  rcases Nat.lt_or_ge a inp.args.length with h' | h'
  · exact h'
  · rw [List.getElem?_eq_none h'] at h; cases h

theorem not_lvcr_of_rv {inp : Input} {a : Nat} (h : inp.isRv a = true) : ¬ IsLvCr (inp.cat a) := by
  rw [isRv_iff] at h
  rw [h]; rintro (h | h) <;> cases h

theorem lvcr_of_any {inp : Input} {a : Nat} (hc : catIn inp a anyCat = true) (h : inp.isRv a = false) : IsLvCr (inp.cat a) := by
  obtain ⟨c, hc, hm⟩ := (catIn_iff inp a anyCat).1 hc
  have hne : c ≠ .rv := by
    intro e; subst e
    have := (isRv_iff inp a).2 hc
    rw [this] at h; cases h
  rw [hc]
  simp [anyCat] at hm
  rcases hm with rfl | rfl | rfl
  · exact Or.inl rfl
  · exact Or.inr rfl
  · exact absurd rfl hne

theorem not_lvcr_of_in {inp : Input} {a : Nat} {cs : List Cat} (hc : catIn inp a cs = true)
    (hcs : ∀ c ∈ cs, c = .rv ∨ c = .io) : ¬ IsLvCr (inp.cat a) := by
  obtain ⟨c, hc, hm⟩ := (catIn_iff inp a cs).1 hc
  rw [hc]
  rcases hcs c hm with rfl | rfl <;> rintro (h | h) <;> cases h

theorem lt_of_catIn {inp : Input} {a : Nat} {cs : List Cat} (hc : catIn inp a cs = true) : a < inp.args.length := by
  obtain ⟨c, hc, _⟩ := (catIn_iff inp a cs).1 hc
  exact cat_lt inp a c hc

/-! ## footprints -/

/-- every slot the program kills or uses belongs to argument `a` -/
def OnArg (a : Nat) (p : List Instr) : Prop := ∀ x ∈ p, ∀ b j, (x.kills b j ∨ x.uses b j) → b = a
def NoKills (p : List Instr) : Prop := ∀ x ∈ p, ∀ b j, ¬ x.kills b j
def NoUses (p : List Instr) : Prop := ∀ x ∈ p, ∀ b j, ¬ x.uses b j

theorem cross_of_args {p q : List Instr} {a a' : Nat} (hp : OnArg a p) (hq : OnArg a' q) (h : a ≠ a') :
    ∀ x ∈ p, ∀ y ∈ q, NoUseAfter x y := by
  intro x hx y hy b j hk hu
  exact h ((hp x hx b j (Or.inl hk)).symm.trans (hq y hy b j (Or.inr hu)))

theorem cross_of_noKills {p q : List Instr} (hp : NoKills p) : ∀ x ∈ p, ∀ y ∈ q, NoUseAfter x y :=
  fun x hx y _ b j hk _ => hp x hx b j hk

theorem cross_of_noUses {p q : List Instr} (hq : NoUses q) : ∀ x ∈ p, ∀ y ∈ q, NoUseAfter x y :=
  fun x _ y hy b j _ hu => hq y hy b j hu

theorem safe_nil (inp : Input) : Safe inp [] := ⟨fun x hx => absurd hx (List.not_mem_nil), clean_nil⟩

theorem safe_append {inp : Input} {p q : List Instr} (hp : Safe inp p) (hq : Safe inp q)
    (hc : ∀ x ∈ p, ∀ y ∈ q, NoUseAfter x y) : Safe inp (p ++ q) :=
  ⟨fun x hx => (List.mem_append.1 hx).elim (hp.ok x) (hq.ok x), (clean_append p q).2 ⟨hp.clean, hq.clean, hc⟩⟩

theorem safe_cons {inp : Input} {x : Instr} {q : List Instr} (hx : Ok inp x) (hq : Safe inp q)
    (hc : ∀ y ∈ q, NoUseAfter x y) : Safe inp (x :: q) :=
  ⟨fun y hy => by
      rcases List.mem_cons.1 hy with rfl | hy
      · exact hx
      · exact hq.ok y hy,
    (clean_cons x q).2 ⟨hc, hq.clean⟩⟩

theorem safe_singleton {inp : Input} {x : Instr} (hx : Ok inp x) : Safe inp [x] :=
  safe_cons hx (safe_nil inp) (fun y hy => absurd hy (List.not_mem_nil))

theorem onArg_append {a : Nat} {p q : List Instr} (hp : OnArg a p) (hq : OnArg a q) : OnArg a (p ++ q) :=
  fun x hx => (List.mem_append.1 hx).elim (hp x) (hq x)

/-! ## the builders -/

theorem safe_xferAll_move {inp : Input} {a n : Nat} {d : Dest} (hc : ¬ IsLvCr (inp.cat a)) (hn : n ≤ inp.size a)
    (hd : DestOk inp d) : Safe inp (xferAll a n .move d) := by
  refine ⟨(forall_mem_xferAll _ _ _ _ _).2 fun i hi => (ok_xfer_move inp a i d).2 ⟨hc, by omega, hd⟩, ?_⟩
  apply clean_map_range
  rintro i j hij _ b k ⟨rfl, rfl⟩ ⟨_, h⟩
  omega

theorem safe_xferAll_copy {inp : Input} {a n : Nat} {d : Dest} (hc : IsLvCr (inp.cat a)) (hn : n ≤ inp.size a)
    (hd : DestOk inp d) : Safe inp (xferAll a n .copy d) := by
  refine ⟨(forall_mem_xferAll _ _ _ _ _).2 fun i hi => (ok_xfer_copy inp a i d).2 ⟨hc, by omega, hd⟩, ?_⟩
  apply clean_of_no_kills
  simp [xferAll, Instr.kills]

theorem onArg_xferAll (a n : Nat) (m : Mode) (d : Dest) : OnArg a (xferAll a n m d) := by
  intro x hx b j h
  simp only [xferAll, List.mem_map, List.mem_range] at hx
  obtain ⟨i, _, rfl⟩ := hx
  cases m <;> simp [Instr.kills, Instr.uses] at h <;> omega

theorem noKills_xferAll_copy (a n : Nat) (d : Dest) : NoKills (xferAll a n .copy d) := by
  intro x hx b j h
  simp only [xferAll, List.mem_map, List.mem_range] at hx
  obtain ⟨i, _, rfl⟩ := hx
  exact h

/-- `xferAll a n (fwd rv) d` for an argument of any of the three value categories -/
theorem safe_xferAll_fwd {inp : Input} {a n : Nat} {d : Dest} (hc : catIn inp a anyCat = true) (hn : n ≤ inp.size a)
    (hd : DestOk inp d) : Safe inp (xferAll a n (fwd (inp.isRv a)) d) := by
  cases h : inp.isRv a
  · exact safe_xferAll_copy (lvcr_of_any hc h) hn hd
  · exact safe_xferAll_move (not_lvcr_of_rv h) hn hd

theorem isMv_cases {inp : Input} {a : Nat} (hc : catIn inp a [.lv, .cr, .rv, .io] = true) :
    (inp.isMv a = true ∧ ¬ IsLvCr (inp.cat a)) ∨ (inp.isMv a = false ∧ IsLvCr (inp.cat a)) := by
  obtain ⟨c, hc, hm⟩ := (catIn_iff inp a _).1 hc
  simp only [Input.isMv, hc, IsLvCr]
  cases c <;> simp

/-- `xferAll a n (fwd mv) d` where `mv` also covers an lvalue the caller asked to move -/
theorem safe_xferAll_mv {inp : Input} {a n : Nat} {d : Dest} (hc : catIn inp a [.lv, .cr, .rv, .io] = true) (hn : n ≤ inp.size a)
    (hd : DestOk inp d) : Safe inp (xferAll a n (fwd (inp.isMv a)) d) := by
  rcases isMv_cases hc with ⟨h, hl⟩ | ⟨h, hl⟩
  · rw [h]; exact safe_xferAll_move hl hn hd
  · rw [h]; exact safe_xferAll_copy hl hn hd

theorem safe_fresh_range {inp : Input} (n : Nat) (d : Dest) (hd : DestOk inp d) :
    Safe inp ((List.range n).map fun j => Instr.fresh (1000 + j) d) := by
  refine ⟨?_, ?_⟩
  · intro x hx
    simp only [List.mem_map, List.mem_range] at hx
    obtain ⟨j, _, rfl⟩ := hx
    exact (ok_fresh inp _ d).2 ⟨by omega, hd⟩
  · apply clean_of_no_kills
    intro x hx b j hk
    simp only [List.mem_map, List.mem_range] at hx
    obtain ⟨j, _, rfl⟩ := hx
    exact hk

theorem noKills_fresh_range (n : Nat) (d : Dest) : NoKills ((List.range n).map fun j => Instr.fresh (1000 + j) d) := by
  intro x hx b j hk
  simp only [List.mem_map, List.mem_range] at hx
  obtain ⟨j, _, rfl⟩ := hx
  exact hk

theorem safe_gather {inp : Input} {a : Nat} {idx : List Nat} {d : Dest} (hc : catIn inp a anyCat = true)
    (hb : ∀ i ∈ idx, i < inp.size a) (hnd : idx.Nodup) (hd : DestOk inp d) :
    Safe inp (gather a idx (fwd (inp.isRv a)) d) := by
  cases h : inp.isRv a
  · refine ⟨?_, ?_⟩
    · intro x hx
      simp only [gather, List.mem_map] at hx
      obtain ⟨i, hi, rfl⟩ := hx
      exact (ok_xfer_copy inp a i d).2 ⟨lvcr_of_any hc h, hb i hi, hd⟩
    · apply clean_of_no_kills
      intro x hx b j hk
      simp only [gather, List.mem_map] at hx
      obtain ⟨i, hi, rfl⟩ := hx
      exact hk
  · refine ⟨?_, ?_⟩
    · intro x hx
      simp only [gather, List.mem_map] at hx
      obtain ⟨i, hi, rfl⟩ := hx
      exact (ok_xfer_move inp a i d).2 ⟨not_lvcr_of_rv h, hb i hi, hd⟩
    · unfold Clean gather
      rw [List.pairwise_map]
      refine List.Pairwise.imp ?_ hnd
      rintro i j hij b k ⟨rfl, rfl⟩ ⟨_, h2⟩
      exact hij h2.symm

/-- two containers forwarded element-wise, one after the other -/
theorem safe_fwd2 {inp : Input} {d : Dest} (h0 : catIn inp 0 anyCat = true) (h1 : catIn inp 1 anyCat = true) (hd : DestOk inp d) :
    Safe inp (xferAll 0 (inp.size 0) (fwd (inp.isRv 0)) d ++ xferAll 1 (inp.size 1) (fwd (inp.isRv 1)) d) :=
  safe_append (safe_xferAll_fwd h0 (Nat.le_refl _) hd) (safe_xferAll_fwd h1 (Nat.le_refl _) hd)
    (cross_of_args (onArg_xferAll _ _ _ _) (onArg_xferAll _ _ _ _) (by decide))

theorem anyCat_of_rv {inp : Input} {a : Nat} (h : catIn inp a [.rv] = true) : catIn inp a anyCat = true := by
  obtain ⟨c, hc, hm⟩ := (catIn_iff inp a _).1 h
  simp at hm; subst hm
  exact (catIn_iff inp a anyCat).2 ⟨.rv, hc, by simp [anyCat]⟩

theorem pair_inj (w x y x' y' : Nat) (hx : x < w) (hx' : x' < w) (h : y * w + x = y' * w + x') : x = x' ∧ y = y' := by
  have h1 : (y * w + x) % w = x := by
    rw [Nat.add_comm, Nat.add_mul_mod_self_right]; exact Nat.mod_eq_of_lt hx
  have h2 : (y' * w + x') % w = x' := by
    rw [Nat.add_comm, Nat.add_mul_mod_self_right]; exact Nat.mod_eq_of_lt hx'
  have hxx : x = x' := by rw [← h1, ← h2, h]
  subst hxx
  have hw : 0 < w := by omega
  have : y * w = y' * w := by omega
  exact ⟨rfl, Nat.eq_of_mul_eq_mul_right hw this⟩

theorem cell_lt (w h x y : Nat) (hx : x < w) (hy : y < h) : y * w + x < w * h := by
  have : (y + 1) * w ≤ h * w := Nat.mul_le_mul_right w hy
  rw [Nat.add_mul, Nat.one_mul, Nat.mul_comm h w] at this
  omega

/-- `grid::resize`: every cell of the new grid takes the old cell at the same position (distinct positions, distinct cells) or a new value -/
theorem safe_gridCells {inp : Input} (w h w' m : Nat) (hc : catIn inp 0 anyCat = true) (hn : w * h = inp.size 0) :
    Safe inp ((List.range m).map (gridCell (inp.isRv 0) w h w')) := by
  refine ⟨?_, ?_⟩
  · intro x hx
    simp only [List.mem_map, List.mem_range] at hx
    obtain ⟨k, _, rfl⟩ := hx
    unfold gridCell
    split
    · rename_i hin
      have hb := cell_lt w h _ _ hin.1 hin.2
      cases hr : inp.isRv 0
      · exact (ok_xfer_copy inp 0 _ .res).2 ⟨lvcr_of_any hc hr, by omega, destOk_res inp⟩
      · exact (ok_xfer_move inp 0 _ .res).2 ⟨not_lvcr_of_rv hr, by omega, destOk_res inp⟩
    · exact (ok_fresh inp _ .res).2 ⟨by omega, destOk_res inp⟩
  · apply clean_map_range
    intro i j hij _ b c hk hu
    unfold gridCell at hk hu
    split at hk
    · rename_i hi
      split at hu
      · rename_i hj
        cases hr : inp.isRv 0
        · rw [hr] at hk; exact hk
        · rw [hr] at hk hu
          simp only [fwd, if_true, Instr.kills, Instr.uses] at hk hu
          obtain ⟨rfl, hkc⟩ := hk
          obtain ⟨_, huc⟩ := hu
          have := pair_inj w _ _ _ _ hi.1 hj.1 (hkc.trans huc.symm)
          have e1 := Nat.div_add_mod i w'
          have e2 := Nat.div_add_mod j w'
          rw [this.1, this.2] at e1
          omega
      · exact hu
    · exact hk

theorem safe_deriveEach {inp : Input} {a : Nat} {ks : List Nat} {d : Dest} (hn : ks.length ≤ inp.size a)
    (hd : DestOk inp d) : Safe inp (deriveEach a ks d) := by
  refine ⟨(forall_mem_deriveEach _ _ _ _).2 fun i k hk => (ok_derive inp a i k d).2 ⟨?_, hd⟩, ?_⟩
  · have : i < ks.length := by
      rcases Nat.lt_or_ge i ks.length with h | h
      · exact h
      · rw [List.getElem?_eq_none h] at hk; cases hk
    omega
  · apply clean_of_no_kills
    rw [forall_mem_deriveEach]
    intro i k _ b j h
    exact h

theorem noKills_deriveEach (a : Nat) (ks : List Nat) (d : Dest) : NoKills (deriveEach a ks d) := by
  unfold NoKills
  rw [forall_mem_deriveEach]
  intro i k _ b j h
  exact h

theorem onArg_deriveEach (a : Nat) (ks : List Nat) (d : Dest) : OnArg a (deriveEach a ks d) := by
  unfold OnArg
  rw [forall_mem_deriveEach]
  intro i k _ b j h
  simp [Instr.kills, Instr.uses] at h
  omega

theorem safe_callAll {inp : Input} {a n : Nat} {d : Dest} (hc : catIn inp a anyCat = true) (hn : n ≤ inp.size a)
    (hd : DestOk inp d) : Safe inp (callAll (inp.isRv a) a n d) := by
  unfold callAll
  cases h : inp.isRv a
  · simp only [Bool.false_eq_true, if_false]
    refine ⟨?_, ?_⟩
    · intro x hx
      simp only [List.mem_map, List.mem_range] at hx
      obtain ⟨i, hi, rfl⟩ := hx
      exact (ok_derive inp a i 1 d).2 ⟨by omega, hd⟩
    · apply clean_of_no_kills
      intro x hx b j hk
      simp only [List.mem_map, List.mem_range] at hx
      obtain ⟨i, hi, rfl⟩ := hx
      exact hk
  · simp only [if_true]
    exact safe_xferAll_move (not_lvcr_of_rv h) hn hd

theorem safe_whole {inp : Input} {a : Nat} {d : Dest} (hc : catIn inp a anyCat = true) (hd : DestOk inp d) :
    Safe inp (whole (inp.isRv a) a (inp.size a) d) := by
  unfold whole
  cases h : inp.isRv a
  · simp only [Bool.false_eq_true, if_false]
    exact safe_xferAll_copy (lvcr_of_any hc h) (Nat.le_refl _) hd
  · simp only [if_true]
    exact safe_singleton ((ok_steal inp a d).2 ⟨not_lvcr_of_rv h, lt_of_catIn hc, hd⟩)

theorem onArg_whole (rv : Bool) (a n : Nat) (d : Dest) : OnArg a (whole rv a n d) := by
  unfold whole
  cases rv
  · simp only [Bool.false_eq_true, if_false]; exact onArg_xferAll a n .copy d
  · simp only [if_true]
    intro x hx b j h
    simp only [List.mem_singleton] at hx
    subst hx
    simp [Instr.kills, Instr.uses] at h
    omega

theorem safe_readAll {inp : Input} {a n : Nat} (hn : n ≤ inp.size a) : Safe inp (readAll a n) := by
  refine ⟨?_, ?_⟩
  · intro x hx
    simp only [readAll, List.mem_map, List.mem_range] at hx
    obtain ⟨i, hi, rfl⟩ := hx
    exact (ok_read inp a i).2 (by omega)
  · apply clean_of_no_kills
    intro x hx b j hk
    simp only [readAll, List.mem_map, List.mem_range] at hx
    obtain ⟨i, hi, rfl⟩ := hx
    exact hk

theorem noKills_readAll (a n : Nat) : NoKills (readAll a n) := by
  intro x hx b j hk
  simp only [readAll, List.mem_map, List.mem_range] at hx
  obtain ⟨i, hi, rfl⟩ := hx
  exact hk

theorem onArg_readAll (a n : Nat) : OnArg a (readAll a n) := by
  intro x hx b j h
  simp only [readAll, List.mem_map, List.mem_range] at hx
  obtain ⟨i, _, rfl⟩ := hx
  simp [Instr.kills, Instr.uses] at h
  omega

theorem onArg_callAll (rv : Bool) (a n : Nat) (d : Dest) : OnArg a (callAll rv a n d) := by
  unfold callAll
  cases rv
  · simp only [Bool.false_eq_true, if_false]
    intro x hx b j h
    simp only [List.mem_map, List.mem_range] at hx
    obtain ⟨i, _, rfl⟩ := hx
    simp [Instr.kills, Instr.uses] at h
    omega
  · simp only [if_true]; exact onArg_xferAll a n .move d

theorem safe_ite {inp : Input} {c : Prop} [Decidable c] {p q : List Instr} (hp : c → Safe inp p) (hq : ¬ c → Safe inp q) :
    Safe inp (if c then p else q) := by
  split
  · exact hp ‹_›
  · exact hq ‹_›

theorem safe_fresh_res (inp : Input) (v : Nat) (hv : 100 ≤ v) : Safe inp [.fresh v .res] :=
  safe_singleton ((ok_fresh inp v .res).2 ⟨hv, destOk_res inp⟩)

theorem safe_reverseInPlace {inp : Input} {a : Nat} (hc : ¬ IsLvCr (inp.cat a)) :
    Safe inp (reverseInPlace a (inp.size a)) := by
  refine ⟨(forall_mem_reverseInPlace _ _ _).2 fun i hi => (ok_swap inp a i _).2 ⟨hc, by omega, by omega⟩, ?_⟩
  apply clean_of_no_kills
  rw [forall_mem_reverseInPlace]
  intro i _ b j h
  exact h

theorem noKills_reverseInPlace (a n : Nat) : NoKills (reverseInPlace a n) := by
  unfold NoKills
  rw [forall_mem_reverseInPlace]
  intro i _ b j h
  exact h

/-! ## extension round: `callAt`, `zipCall2`, `sinkAt`, `freshRange` -/

theorem ok_callAt {inp : Input} {rv : Bool} {a i : Nat} {d : Dest} (hrv : rv = true → ¬ IsLvCr (inp.cat a))
    (hi : i < inp.size a) (hd : DestOk inp d) : Ok inp (callAt rv a i d) := by
  unfold callAt
  cases rv
  · simp only [Bool.false_eq_true, if_false]; exact (ok_derive inp a i 1 d).2 ⟨hi, hd⟩
  · simp only [if_true]; exact (ok_xfer_move inp a i d).2 ⟨hrv rfl, hi, hd⟩

theorem callAt_footprint {rv : Bool} {a i : Nat} {d : Dest} {b j : Nat}
    (h : (callAt rv a i d).kills b j ∨ (callAt rv a i d).uses b j) : a = b ∧ i = j := by
  unfold callAt at h
  cases rv <;> simp [Instr.kills, Instr.uses] at h <;> exact h

theorem rv_not_lvcr {inp : Input} {a : Nat} : inp.isRv a = true → ¬ IsLvCr (inp.cat a) := not_lvcr_of_rv

theorem false_not_lvcr {inp : Input} {a : Nat} : false = true → ¬ IsLvCr (inp.cat a) := fun h => by cases h

theorem mem_zipCall2 {rv0 rv1 : Bool} {n : Nat} {d : Dest} {x : Instr} (hx : x ∈ zipCall2 rv0 rv1 n d) :
    ∃ i, i < n ∧ (x = callAt rv0 0 i d ∨ x = callAt rv1 1 i d) := by
  simp only [zipCall2, List.mem_flatMap, List.mem_range, List.mem_cons, List.not_mem_nil, or_false] at hx
  obtain ⟨i, hi, h⟩ := hx
  exact ⟨i, hi, h⟩

theorem safe_zipCall2 {inp : Input} {rv0 rv1 : Bool} {n : Nat} {d : Dest}
    (h0 : rv0 = true → ¬ IsLvCr (inp.cat 0)) (h1 : rv1 = true → ¬ IsLvCr (inp.cat 1))
    (hn0 : n ≤ inp.size 0) (hn1 : n ≤ inp.size 1) (hd : DestOk inp d) : Safe inp (zipCall2 rv0 rv1 n d) := by
  refine ⟨?_, ?_⟩
  · intro x hx
    obtain ⟨i, hi, rfl | rfl⟩ := mem_zipCall2 hx
    · exact ok_callAt h0 (by omega) hd
    · exact ok_callAt h1 (by omega) hd
  · unfold Clean zipCall2
    rw [List.pairwise_flatMap]
    refine ⟨?_, ?_⟩
    · intro i _
      rw [List.pairwise_pair]
      intro b j hk hu
      have e1 := callAt_footprint (Or.inl hk)
      have e2 := callAt_footprint (Or.inr hu)
      omega
    · refine List.Pairwise.imp ?_ (@List.pairwise_lt_range n)
      intro i j hij x hx y hy b k hk hu
      simp only [List.mem_cons, List.not_mem_nil, or_false] at hx hy
      rcases hx with rfl | rfl <;> rcases hy with rfl | rfl <;>
        (have e1 := callAt_footprint (Or.inl hk); have e2 := callAt_footprint (Or.inr hu); omega)

/-- `zipCall2` with the value categories of the first two arguments -/
theorem safe_zipCall2_rv {inp : Input} {n : Nat} {d : Dest} (hn0 : n ≤ inp.size 0) (hn1 : n ≤ inp.size 1) (hd : DestOk inp d) :
    Safe inp (zipCall2 (inp.isRv 0) (inp.isRv 1) n d) :=
  safe_zipCall2 rv_not_lvcr rv_not_lvcr hn0 hn1 hd

theorem ok_sinkAt {inp : Input} {a i : Nat} (hi : i < inp.size a) : Ok inp (sinkAt (inp.isRv a) a i) := by
  unfold sinkAt
  cases h : inp.isRv a
  · simp only [Bool.false_eq_true, if_false]; exact (ok_read inp a i).2 hi
  · simp only [if_true]; exact (ok_xfer_move inp a i .drop).2 ⟨not_lvcr_of_rv h, hi, destOk_drop inp⟩

theorem sinkAt_footprint {rv : Bool} {a i : Nat} {b j : Nat}
    (h : (sinkAt rv a i).kills b j ∨ (sinkAt rv a i).uses b j) : a = b ∧ i = j := by
  unfold sinkAt at h
  cases rv <;> simp [Instr.kills, Instr.uses] at h <;> exact h

theorem safe_freshRange {inp : Input} (n : Nat) (d : Dest) (hd : DestOk inp d) : Safe inp (freshRange n d) :=
  safe_fresh_range n d hd

theorem noKills_freshRange (n : Nat) (d : Dest) : NoKills (freshRange n d) := noKills_fresh_range n d

theorem safe_pair {inp : Input} {x y : Instr} (hx : Ok inp x) (hy : Ok inp y) (hc : NoUseAfter x y) : Safe inp [x, y] :=
  safe_cons hx (safe_singleton hy) (fun z hz => by simp only [List.mem_singleton] at hz; subst hz; exact hc)

theorem safe_fresh_any (inp : Input) (v : Nat) (d : Dest) (hv : 100 ≤ v) (hd : DestOk inp d) : Safe inp [.fresh v d] :=
  safe_singleton ((ok_fresh inp v d).2 ⟨hv, hd⟩)

theorem onArg_singleton {a : Nat} {x : Instr} (h : ∀ b j, (x.kills b j ∨ x.uses b j) → b = a) : OnArg a [x] := by
  intro y hy b j hb
  simp only [List.mem_singleton] at hy
  subst hy
  exact h b j hb

theorem anyCat_of_lvcr {inp : Input} {a : Nat} (h : catIn inp a [.lv, .cr] = true) : catIn inp a anyCat = true := by
  obtain ⟨c, hc, hm⟩ := (catIn_iff inp a _).1 h
  refine (catIn_iff inp a anyCat).2 ⟨c, hc, ?_⟩
  simp at hm
  rcases hm with rfl | rfl <;> simp [anyCat]

/-! ## extension round 2: in-place erasure and overwriting -/

theorem safe_iterErase {inp : Input} {a : Nat} {mask : List Nat} (hc : ¬ IsLvCr (inp.cat a)) (hn : mask.length ≤ inp.size a) :
    Safe inp (iterErase a mask) := by
  refine ⟨?_, ?_⟩
  · intro x hx
    simp only [iterErase, List.mem_flatMap, List.mem_range, List.mem_cons] at hx
    obtain ⟨i, hi, rfl | hx⟩ := hx
    · exact (ok_read inp a i).2 (by omega)
    · split at hx
      · simp only [List.mem_singleton] at hx
        subst hx
        exact (ok_pop inp a i .drop).2 ⟨hc, by omega, destOk_drop inp⟩
      · exact absurd hx List.not_mem_nil
  · unfold Clean iterErase
    rw [List.pairwise_flatMap]
    refine ⟨?_, ?_⟩
    · intro i _
      rw [List.pairwise_cons]
      refine ⟨fun y _ b j hk _ => hk, ?_⟩
      split
      · exact List.pairwise_singleton _ _
      · exact List.Pairwise.nil
    · refine List.Pairwise.imp ?_ (@List.pairwise_lt_range mask.length)
      intro i j hij x hx y hy b k hk hu
      have hxk : a = b ∧ i = k := by
        simp only [List.mem_cons] at hx
        rcases hx with rfl | hx
        · exact hk.elim
        · split at hx
          · simp only [List.mem_singleton] at hx; subst hx; exact hk
          · exact absurd hx List.not_mem_nil
      have hyu : a = b ∧ j = k := by
        simp only [List.mem_cons] at hy
        rcases hy with rfl | hy
        · exact hu
        · split at hy
          · simp only [List.mem_singleton] at hy; subst hy; exact hu
          · exact absurd hy List.not_mem_nil
      omega

theorem safe_eraseRange {inp : Input} {a lo hi : Nat} (hc : ¬ IsLvCr (inp.cat a)) (hn : hi ≤ inp.size a) :
    Safe inp (eraseRange a lo hi) := by
  refine ⟨?_, ?_⟩
  · intro x hx
    simp only [eraseRange, List.mem_map, List.mem_range] at hx
    obtain ⟨j, hj, rfl⟩ := hx
    exact (ok_pop inp a _ .drop).2 ⟨hc, by omega, destOk_drop inp⟩
  · apply clean_map_range
    rintro i j hij _ b k ⟨rfl, rfl⟩ ⟨_, h⟩
    omega

theorem safe_fillAll {inp : Input} {a n : Nat} (hc : ¬ IsLvCr (inp.cat a)) (ha : a < inp.args.length) (hn : n ≤ inp.size a) :
    Safe inp (fillAll a n) := by
  refine ⟨?_, ?_⟩
  · intro x hx
    simp only [fillAll, List.mem_flatMap, List.mem_range, List.mem_cons, List.not_mem_nil, or_false] at hx
    obtain ⟨i, hi, rfl | rfl⟩ := hx
    · exact (ok_pop inp a i .drop).2 ⟨hc, by omega, destOk_drop inp⟩
    · exact (ok_fresh inp _ _).2 ⟨by omega, (destOk_arg inp a).2 ⟨hc, ha⟩⟩
  · unfold Clean fillAll
    rw [List.pairwise_flatMap]
    refine ⟨?_, ?_⟩
    · intro i _
      rw [List.pairwise_pair]
      intro b j _ hu
      exact hu
    · refine List.Pairwise.imp ?_ (@List.pairwise_lt_range n)
      intro i j hij x hx y hy b k hk hu
      simp only [List.mem_cons, List.not_mem_nil, or_false] at hx hy
      rcases hx with rfl | rfl
      · rcases hy with rfl | rfl
        · simp only [Instr.kills, Instr.uses] at hk hu; omega
        · exact hu
      · exact hk

theorem safe_copies {inp : Input} {a i k : Nat} (hc : IsLvCr (inp.cat a)) (hi : i < inp.size a) :
    Safe inp ((List.range k).map fun _ => Instr.xfer a i .copy .res) := by
  refine ⟨?_, ?_⟩
  · intro x hx
    simp only [List.mem_map, List.mem_range] at hx
    obtain ⟨_, _, rfl⟩ := hx
    exact (ok_xfer_copy inp a i .res).2 ⟨hc, hi, destOk_res inp⟩
  · apply clean_of_no_kills
    intro x hx b j hk
    simp only [List.mem_map, List.mem_range] at hx
    obtain ⟨_, _, rfl⟩ := hx
    exact hk

theorem lvcr_of_in {inp : Input} {a : Nat} {cs : List Cat} (hc : catIn inp a cs = true)
    (hcs : ∀ c ∈ cs, c = .lv ∨ c = .cr) : IsLvCr (inp.cat a) := by
  obtain ⟨c, hc, hm⟩ := (catIn_iff inp a cs).1 hc
  rw [hc]
  rcases hcs c hm with rfl | rfl
  · exact Or.inl rfl
  · exact Or.inr rfl

theorem lvcr_lvcr : ∀ c ∈ [Cat.lv, Cat.cr], c = .lv ∨ c = .cr := by simp
theorem lvcr_cr : ∀ c ∈ [Cat.cr], c = .lv ∨ c = .cr := by simp

theorem noKills_xferAll_copy' (a n : Nat) (d : Dest) : NoKills (xferAll a n .copy d) := noKills_xferAll_copy a n d

/-- two arguments passed with the same value category -/
theorem isRv_congr {inp : Input} {a b : Nat} (h : (inp.cat a == inp.cat b) = true) : inp.isRv a = inp.isRv b := by
  simp only [beq_iff_eq] at h
  simp [Input.isRv, h]

/-! ## extension round 5: in-place compaction (`std::remove_if`, `std::unique`) -/

theorem safe_pops {inp : Input} {a : Nat} {l : List Nat} (hc : ¬ IsLvCr (inp.cat a)) (hb : ∀ i ∈ l, i < inp.size a)
    (hp : l.Pairwise (· < ·)) : Safe inp (l.map fun i => Instr.pop a i .drop) := by
  refine ⟨?_, ?_⟩
  · intro x hx
    simp only [List.mem_map] at hx
    obtain ⟨i, hi, rfl⟩ := hx
    exact (ok_pop inp a i .drop).2 ⟨hc, hb i hi, destOk_drop inp⟩
  · unfold Clean
    rw [List.pairwise_map]
    refine List.Pairwise.imp ?_ hp
    rintro i j hij b k ⟨rfl, rfl⟩ ⟨_, h⟩
    omega

theorem safe_compact {inp : Input} {a : Nat} {mask : List Nat} (hc : ¬ IsLvCr (inp.cat a)) (hn : mask.length ≤ inp.size a) :
    Safe inp (compact a mask) := by
  unfold compact
  split
  · exact safe_readAll hn
  · rename_i f hf
    have hlt : f < mask.length := (List.findIdx?_eq_some_iff_findIdx_eq.1 hf).1
    have hmid : Safe inp ((List.range (mask.length - (f + 1))).flatMap fun j =>
        Instr.read a (f + 1 + j) :: (if mask[f + 1 + j]? = some 1 then [Instr.shift a (f + 1 + j)] else [])) := by
      refine ⟨?_, ?_⟩
      · intro x hx
        simp only [List.mem_flatMap, List.mem_range, List.mem_cons] at hx
        obtain ⟨j, hj, rfl | hx⟩ := hx
        · exact (ok_read inp a _).2 (by omega)
        · split at hx
          · simp only [List.mem_singleton] at hx
            subst hx
            exact (ok_shift inp a _).2 ⟨hc, by omega⟩
          · exact absurd hx List.not_mem_nil
      · apply clean_of_no_kills
        intro x hx b k hk
        simp only [List.mem_flatMap, List.mem_range, List.mem_cons] at hx
        obtain ⟨j, hj, rfl | hx⟩ := hx
        · exact hk
        · split at hx
          · simp only [List.mem_singleton] at hx; subst hx; exact hk
          · exact absurd hx List.not_mem_nil
    have hmidk : NoKills ((List.range (mask.length - (f + 1))).flatMap fun j =>
        Instr.read a (f + 1 + j) :: (if mask[f + 1 + j]? = some 1 then [Instr.shift a (f + 1 + j)] else [])) := by
      intro x hx b k hk
      simp only [List.mem_flatMap, List.mem_range, List.mem_cons] at hx
      obtain ⟨j, hj, rfl | hx⟩ := hx
      · exact hk
      · split at hx
        · simp only [List.mem_singleton] at hx; subst hx; exact hk
        · exact absurd hx List.not_mem_nil
    have hpops := safe_pops (inp := inp) (a := a) (l := (List.range mask.length).filter fun i => mask[i]? == some 0) hc
      (fun i hi => by
        have := (List.mem_filter.1 hi).1
        have := List.mem_range.1 this
        omega)
      (List.Pairwise.filter _ (@List.pairwise_lt_range mask.length))
    refine safe_append (safe_append (safe_readAll (by omega)) hmid (cross_of_noKills (noKills_readAll _ _))) hpops ?_
    intro x hx y hy
    rcases List.mem_append.1 hx with hx | hx
    · exact cross_of_noKills (noKills_readAll _ _) x hx y hy
    · exact cross_of_noKills hmidk x hx y hy

theorem mem_iterEraseVec_block {a : Nat} {mask : List Nat} {i : Nat} {x : Instr}
    (hx : x ∈ (Instr.read a i :: (if mask[i]? = some 0 then
      Instr.pop a i .drop :: ((List.range (mask.length - (i + 1))).map fun j => Instr.shift a (i + 1 + j)) else []))) :
    x = .read a i ∨ x = .pop a i .drop ∨ ∃ j, i < j ∧ j < mask.length ∧ x = .shift a j := by
  simp only [List.mem_cons] at hx
  rcases hx with rfl | hx
  · exact Or.inl rfl
  · split at hx
    · simp only [List.mem_cons, List.mem_map, List.mem_range] at hx
      rcases hx with rfl | ⟨j, hj, rfl⟩
      · exact Or.inr (Or.inl rfl)
      · exact Or.inr (Or.inr ⟨i + 1 + j, by omega, by omega, rfl⟩)
    · exact absurd hx List.not_mem_nil

theorem safe_iterEraseVec {inp : Input} {a : Nat} {mask : List Nat} (hc : ¬ IsLvCr (inp.cat a)) (hn : mask.length ≤ inp.size a) :
    Safe inp (iterEraseVec a mask) := by
  refine ⟨?_, ?_⟩
  · intro x hx
    simp only [iterEraseVec, List.mem_flatMap, List.mem_range] at hx
    obtain ⟨i, hi, hx⟩ := hx
    rcases mem_iterEraseVec_block hx with rfl | rfl | ⟨j, _, hj, rfl⟩
    · exact (ok_read inp a i).2 (by omega)
    · exact (ok_pop inp a i .drop).2 ⟨hc, by omega, destOk_drop inp⟩
    · exact (ok_shift inp a j).2 ⟨hc, by omega⟩
  · unfold Clean iterEraseVec
    rw [List.pairwise_flatMap]
    refine ⟨?_, ?_⟩
    · intro i _
      rw [List.pairwise_cons]
      refine ⟨fun y _ b j hk _ => hk, ?_⟩
      split
      · rw [List.pairwise_cons]
        refine ⟨?_, ?_⟩
        · intro y hy b k hk hu
          simp only [List.mem_map, List.mem_range] at hy
          obtain ⟨j, _, rfl⟩ := hy
          simp only [Instr.kills, Instr.uses] at hk hu
          omega
        · rw [List.pairwise_map]
          exact List.Pairwise.imp (fun _ b k hk _ => hk) (@List.pairwise_lt_range _)
      · exact List.Pairwise.nil
    · refine List.Pairwise.imp ?_ (@List.pairwise_lt_range mask.length)
      intro i i' hii x hx y hy b k hk hu
      rcases mem_iterEraseVec_block hx with rfl | rfl | ⟨j, _, _, rfl⟩
      · exact hk
      · rcases mem_iterEraseVec_block hy with rfl | rfl | ⟨j', hj', _, rfl⟩ <;>
          simp only [Instr.kills, Instr.uses] at hk hu <;> omega
      · exact hk

theorem safe_sinkAll {inp : Input} {a n : Nat} (hn : n ≤ inp.size a) : Safe inp (sinkAll (inp.isRv a) a n) := by
  refine ⟨?_, ?_⟩
  · intro x hx
    simp only [sinkAll, List.mem_map, List.mem_range] at hx
    obtain ⟨i, hi, rfl⟩ := hx
    exact ok_sinkAt (by omega)
  · apply clean_map_range
    intro i j hij _ b k hk hu
    have e1 := sinkAt_footprint (Or.inl hk)
    have e2 := sinkAt_footprint (Or.inr hu)
    omega

theorem onArg_sinkAll (rv : Bool) (a n : Nat) : OnArg a (sinkAll rv a n) := by
  intro x hx b j h
  simp only [sinkAll, List.mem_map, List.mem_range] at hx
  obtain ⟨i, _, rfl⟩ := hx
  exact (sinkAt_footprint h).1.symm

end Fcppt.C05
