import FcpptProofs.C05.Count
set_option linter.unusedSimpArgs false
set_option linter.unusedVariables false
/-!
# C05 lemmas — the counters along one step and along a program
-/
namespace Fcppt.C05

@[simp] theorem noteRam_args' (st : St) (s : Slot) : (noteRam st s).args = st.args := by unfold noteRam; split <;> rfl
@[simp] theorem noteRam_res (st : St) (s : Slot) : (noteRam st s).res = st.res := by unfold noteRam; split <;> rfl
@[simp] theorem noteRam_cp' (st : St) (s : Slot) : (noteRam st s).cp = st.cp := by unfold noteRam; split <;> rfl
@[simp] theorem noteRam_mv (st : St) (s : Slot) : (noteRam st s).mv = st.mv := by unfold noteRam; split <;> rfl
@[simp] theorem noteRam_lost (st : St) (s : Slot) : (noteRam st s).lost = st.lost := by unfold noteRam; split <;> rfl
theorem noteRam_ram (st : St) (s : Slot) : (noteRam st s).ram = if s.st = .moved then st.ram ++ [s.id] else st.ram := by
  unfold noteRam; split <;> rfl

theorem ineq_noteOob (x : Nat) (st : St) (a i : Nat) : Ineq x st (noteOob st a i) :=
  ⟨Nat.le_refl _, Nat.le_refl _, Nat.le_refl _⟩

theorem beq_cases (a b : Nat) : (a = b ∧ (a == b) = true) ∨ (a ≠ b ∧ (a == b) = false) := by
  by_cases h : a = b
  · exact Or.inl ⟨h, by simp [h]⟩
  · exact Or.inr ⟨h, by simp [h]⟩

@[simp] theorem beq_moved_live : (SlotSt.moved == SlotSt.live) = false := by decide
@[simp] theorem beq_gone_live : (SlotSt.gone == SlotSt.live) = false := by decide
@[simp] theorem beq_live_live : (SlotSt.live == SlotSt.live) = true := by decide

theorem ineq_noteRam (x : Nat) (st : St) (s : Slot) : Ineq x st (noteRam st s) := by
  refine ⟨?_, ?_, ?_⟩ <;> simp [St.phi, St.live, St.liveOrig, noteRam_ram] <;> split <;> simp

theorem step_ineq (x : Nat) (hx : x < 100) (st : St) (ins : Instr) (hf : ∀ v, ins.freshId = some v → 100 ≤ v) :
    Ineq x st (step st ins) := by
  cases ins with
  | xfer a i m d =>
    cases m with
    | move =>
      simp only [step]
      split
      · exact ineq_noteOob x st a i
      · rename_i s hs
        obtain ⟨_, _, _, hne⟩ := getSlot_eq_some.1 hs
        have h1 := argsCnt_setSlot (isLiveId x) st.args a i s { s with st := .moved } hs
        have h2 := argsCnt_setSlot (isOrigId x) st.args a i s { s with st := .moved } hs
        refine Ineq.put d [s] (isLiveId x s).toNat (by simp [List.countP_cons]; cases isLiveId x s <;> rfl) ?_ ?_ ?_
        all_goals
          simp only [St.phi, St.live, St.liveOrig, noteRam_args', noteRam_res, noteRam_cp', noteRam_mv, noteRam_lost, noteRam_ram]
          rcases slot_cases s hne with hl | hl <;> rcases beq_cases s.id x with ⟨hid, hb⟩ | ⟨hid, hb⟩ <;> cases ho : s.orig <;>
            simp [isLiveId, isOrigId, Slot.isLive, hl, hid, hb, ho, List.count_append, List.count_singleton] at h1 h2 ⊢ <;> omega
    | copy =>
      simp only [step]
      split
      · exact ineq_noteOob x st a i
      · rename_i s hs
        obtain ⟨_, _, _, hne⟩ := getSlot_eq_some.1 hs
        refine Ineq.put d [s] (isLiveId x s).toNat (by simp [List.countP_cons]; cases isLiveId x s <;> rfl) ?_ ?_ ?_
        all_goals
          simp only [St.phi, St.live, St.liveOrig, noteRam_args', noteRam_res, noteRam_cp', noteRam_mv, noteRam_lost, noteRam_ram]
          rcases slot_cases s hne with hl | hl <;> rcases beq_cases s.id x with ⟨hid, hb⟩ | ⟨hid, hb⟩ <;>
            simp [isLiveId, isOrigId, Slot.isLive, hl, hid, hb, List.count_append, List.count_singleton] <;> omega
  | derive a i k d =>
    simp only [step]
    split
    · exact ineq_noteOob x st a i
    · rename_i s hs
      have h := ineq_noteRam x st s
      exact Ineq.put d _ 0 (count_derived x s.id k hx) (by simpa using h.e1) (by simpa using h.e2) h.d
  | read a i =>
    simp only [step]
    split
    · exact ineq_noteOob x st a i
    · exact ineq_noteRam x st _
  | steal a d =>
    simp only [step]
    split
    · exact ineq_noteOob x st a 0
    · rename_i l hl
      have h1 := argsCnt_modify (isLiveId x) st.args a (·.map fun s => { s with st := SlotSt.gone }) l hl
      have h2 := argsCnt_modify (isOrigId x) st.args a (·.map fun s => { s with st := SlotSt.gone }) l hl
      rw [countP_map_gone _ (isLiveId_ne_gone x)] at h1
      rw [countP_map_gone _ (isOrigId_ne_gone x)] at h2
      refine Ineq.put d _ (l.countP (isLiveId x)) (countP_filter_present _ (isLiveId_ne_gone x) l) ?_ ?_ ?_
      all_goals
        simp only [St.phi, St.live, St.liveOrig]
        omega
  | pop a i d =>
    simp only [step]
    split
    · exact ineq_noteOob x st a i
    · rename_i s hs
      obtain ⟨_, _, _, hne⟩ := getSlot_eq_some.1 hs
      have h1 := argsCnt_setSlot (isLiveId x) st.args a i s { s with st := .gone } hs
      have h2 := argsCnt_setSlot (isOrigId x) st.args a i s { s with st := .gone } hs
      refine Ineq.put d [s] (isLiveId x s).toNat (by simp [List.countP_cons]; cases isLiveId x s <;> rfl) ?_ ?_ ?_
      all_goals
        simp only [St.phi, St.live, St.liveOrig, noteRam_args', noteRam_res, noteRam_cp', noteRam_mv, noteRam_lost, noteRam_ram]
        rcases slot_cases s hne with hl | hl <;> rcases beq_cases s.id x with ⟨hid, hb⟩ | ⟨hid, hb⟩ <;> cases ho : s.orig <;>
          by_cases hd : d = Dest.drop <;>
          simp [isLiveId, isOrigId, Slot.isLive, hl, hid, hb, ho, hd, List.count_append, List.count_singleton] at h1 h2 ⊢ <;> omega
  | swap a i j =>
    simp only [step]
    split
    · rename_i s t hs ht
      -- the second write lands on slot j of the list in which slot i already holds t
      have hj : getSlot (setSlot st.args a i t) a j = some t := by
        obtain ⟨_, _, _, htne⟩ := getSlot_eq_some.1 ht
        by_cases hij : i = j
        · subst hij; exact getSlot_setSlot_eq t hs htne
        · rw [getSlot_setSlot_ne _ _ _ _ _ _ (fun e => hij e.2)]; exact ht
      have a1 := argsCnt_setSlot (isLiveId x) st.args a i s t hs
      have a2 := argsCnt_setSlot (isLiveId x) (setSlot st.args a i t) a j t s hj
      have b1 := argsCnt_setSlot (isOrigId x) st.args a i s t hs
      have b2 := argsCnt_setSlot (isOrigId x) (setSlot st.args a i t) a j t s hj
      have r := (ineq_noteRam x st s).trans (ineq_noteRam x (noteRam st s) t)
      obtain ⟨r1, r2, r3⟩ := r
      simp only [St.phi, St.live, St.liveOrig, noteRam_args', noteRam_res, noteRam_cp', noteRam_mv, noteRam_lost] at r1 r2 r3
      refine ⟨?_, ?_, ?_⟩ <;>
        simp only [St.phi, St.live, St.liveOrig, noteRam_args', noteRam_res, noteRam_cp', noteRam_mv, noteRam_lost] <;> omega
    · exact ineq_noteOob x st a i
    · exact ineq_noteOob x st a j
  | fresh v d =>
    simp only [step]
    have hv : 100 ≤ v := hf v rfl
    refine Ineq.put d _ 0 ?_ (by simp) (by simp) (by simp)
    simp [List.countP_cons, isLiveId]
    omega
  | shift a i =>
    simp only [step]
    split
    · exact ineq_noteOob x st a i
    · rename_i s hs
      obtain ⟨r1, r2, r3⟩ := ineq_noteRam x st s
      refine ⟨?_, ?_, ?_⟩ <;>
        simp only [St.phi, St.live, St.liveOrig, noteRam_args', noteRam_res, noteRam_cp', noteRam_mv, noteRam_lost] at r1 r2 r3 ⊢ <;>
        omega

/-- the counters along a whole program -/
theorem run_ineq (x : Nat) (hx : x < 100) (p : List Instr) (hf : ∀ ins ∈ p, ∀ v, ins.freshId = some v → 100 ≤ v) (st : St) :
    Ineq x st (run p st) := by
  induction p generalizing st with
  | nil => exact Ineq.refl x st
  | cons y ys ih =>
    simp only [run, List.foldl_cons]
    exact (step_ineq x hx st y (hf y (by simp))).trans (ih (fun z hz => hf z (by simp [hz])) (step st y))

end Fcppt.C05
