import FcpptProofs.C03.Parse
/-!
# C03 — fuel monotonicity

The fuel argument of `parse` only stands for "does not terminate": once a result other than `diverge` has been
reached, every larger fuel gives the same result.  Proved from the one-step unfolding equations of every combinator.
-/
namespace Fcppt.C03

/-! ## one-step unfolding equations (the fuel on the left is a successor, the recursive calls use its predecessor) -/

theorem parse_arg_eq (f : Nat) (l : String) (ty : VTy) (nm : String) (help : Option String) (st : List Arg) (c : Ctx) :
    parse (f + 1) (.arg l ty nm help) st c =
      match popArg st c with
      | none => .error (.missing st ("Missing argument \"" ++ nm ++ "\"."))
      | some (a, st') =>
        match convert ty a.2 with
        | some v => .ok (st', [(l, v)], [(a.1, l)])
        | none => .error (.other ("Failed to convert \"" ++ a.2 ++ "\" to " ++ prettyType ty ++ " for argument \"" ++ nm ++ "\".")) := by
  simp only [parse]; rfl

theorem parse_flag_eq (f : Nat) (l : String) (sh : Option String) (lg : String) (act inact : Val) (help : Option String) (st : List Arg) (c : Ctx) :
    parse (f + 1) (.flag l sh lg act inact help) st c = parseFlag l sh lg act inact st := by
  simp only [parse]

theorem parse_opt_eq (f : Nat) (l : String) (sh : Option String) (lg : String) (d : Option Val) (ty : VTy) (help : Option String) (st : List Arg) (c : Ctx) :
    parse (f + 1) (.opt l sh lg d ty help) st c = parseOpt l sh lg d ty st := by
  simp only [parse]

theorem parse_unit_eq (f : Nat) (l : String) (st : List Arg) (c : Ctx) :
    parse (f + 1) (.unit l) st c = if st.isEmpty then .ok (st, [(l, .unit)], []) else .error (.other "Excess arguments") := by
  simp only [parse]

theorem parse_unitSwitch_eq (f : Nat) (l : String) (sh : Option String) (lg : String) (st : List Arg) (c : Ctx) :
    parse (f + 1) (.unitSwitch l sh lg) st c =
      match parseFlag l sh lg (.bool true) (.bool false) st with
      | .error e => .error e
      | .ok (st', r, lg') =>
        match r with
        | [(_, .bool true)] => .ok (st', [(l, .unit)], lg')
        | _ => .error (.missing st' ("Missing flag " ++ longOrShort lg sh ++ ".")) := by
  simp only [parse]; rfl

theorem parse_optional_eq (f : Nat) (q : OP) (st : List Arg) (c : Ctx) :
    parse (f + 1) (.optional q) st c =
      match parse f q st c with
      | .error (.missing _ _) => .ok (st, q.labels.map fun l => (l, .none), [])
      | .error e => .error e
      | .ok (st', r, lg) => .ok (st', r.map fun (l, v) => (l, .some v), lg) := by
  simp only [parse]; rfl

theorem parse_many_eq (f : Nat) (q : OP) (st : List Arg) (c : Ctx) :
    parse (f + 1) (.many q) st c =
      match parse f q st c with
      | .error (.missing _ _) => .ok (st, q.labels.map fun l => (l, .list []), [])
      | .error e => .error e
      | .ok (st', r, lg) =>
        match parse f (.many q) st' c with
        | .error e => .error e
        | .ok (st'', rs, lg') => .ok (st'', consRec r rs, lg ++ lg') := by
  simp only [parse]; rfl

theorem parse_prod_eq (f : Nat) (a b : OP) (st : List Arg) (c : Ctx) :
    parse (f + 1) (.prod a b) st c =
      match parse f a st c with
      | .error e => .error e
      | .ok (st1, r1, lg1) =>
        match parse f b st1 c with
        | .error e => .error e
        | .ok (st2, r2, lg2) => .ok (st2, r1 ++ r2, lg1 ++ lg2) := by
  simp only [parse]; rfl

theorem parse_sum_eq (f : Nat) (l : String) (a b : OP) (st : List Arg) (c : Ctx) :
    parse (f + 1) (.sum l a b) st c =
      match parse f a st c with
      | .ok (st1, r1, lg1) => .ok (st1, [(l, .left (.recd r1))], lg1)
      | .error .diverge => .error .diverge
      | .error e1 =>
        match parse f b st c with
        | .ok (st2, r2, lg2) => .ok (st2, [(l, .right (.recd r2))], lg2)
        | .error e2 => .error (combineErrors e1 e2) := by
  simp only [parse]; rfl

theorem parse_commands_eq (f : Nat) (common : OP) (subs : Subs) (st : List Arg) (c : Ctx) :
    parse (f + 1) (.commands common subs) st c =
      match splitNext st common.optionNames with
      | none => .error (.missing st ("No command specified from " ++ showList (subs.map Prod.fst)))
      | some (first, name, second) =>
        match findSub name.2 subs with
        | none => .error (.other ("Invalid command " ++ name.2))
        | some (tag, q) =>
          match parse f common first common.optionNames with
          | .error .diverge => .error .diverge
          | .error e => .error (.other e.msg)
          | .ok (rest, ro, lgo) =>
            if !rest.isEmpty then .error (.other (leftoverText rest))
            else match parse f q second q.optionNames with
              | .error e => .error e
              | .ok (st', rq, lgq) =>
                .ok (st', [("options", .recd ro), ("sub", .recd [(tag, .recd rq)])], lgo ++ (name.1, "cmd") :: lgq) := by
  simp only [parse]; rfl

theorem combineErrors_diverge_right (e : PErr) : combineErrors e .diverge = .diverge := by
  cases e <;> rfl

/-! ## monotonicity -/

/-- one more unit of fuel does not change a result that is not `diverge` -/
theorem parse_fuel_succ : ∀ (f : Nat) (p : OP) (st : List Arg) (c : Ctx),
    parse f p st c ≠ .error .diverge → parse (f + 1) p st c = parse f p st c := by
  intro f
  induction f with
  | zero => intro p st c h; exact absurd rfl h
  | succ f ih =>
    intro p st c h
    cases p with
    | arg l ty => rw [parse_arg_eq, parse_arg_eq]
    | flag l sh lg' act inact => rw [parse_flag_eq, parse_flag_eq]
    | opt l sh lg' dflt ty => rw [parse_opt_eq, parse_opt_eq]
    | unit l => rw [parse_unit_eq, parse_unit_eq]
    | unitSwitch l sh lg' => rw [parse_unitSwitch_eq, parse_unitSwitch_eq]
    | optional q =>
      rw [parse_optional_eq] at h
      have hq : parse f q st c ≠ .error .diverge := by
        intro hd; rw [hd] at h; exact h rfl
      rw [parse_optional_eq, parse_optional_eq, ih q st c hq]
    | many q =>
      rw [parse_many_eq] at h
      have hq : parse f q st c ≠ .error .diverge := by
        intro hd; rw [hd] at h; exact h rfl
      rw [parse_many_eq (f + 1), parse_many_eq f, ih q st c hq]
      cases hr : parse f q st c with
      | error e => cases e <;> rfl
      | ok t =>
        obtain ⟨st1, r1, lg1⟩ := t
        rw [hr] at h
        have hm : parse f (.many q) st1 c ≠ .error .diverge := by
          intro hd; simp only [hd] at h; exact h rfl
        simp only [ih (.many q) st1 c hm]
    | prod a b =>
      rw [parse_prod_eq] at h
      have ha : parse f a st c ≠ .error .diverge := by
        intro hd; rw [hd] at h; exact h rfl
      rw [parse_prod_eq (f + 1), parse_prod_eq f, ih a st c ha]
      cases hr : parse f a st c with
      | error e => cases e <;> rfl
      | ok t =>
        obtain ⟨st1, r1, lg1⟩ := t
        rw [hr] at h
        have hb : parse f b st1 c ≠ .error .diverge := by
          intro hd; simp only [hd] at h; exact h rfl
        simp only [ih b st1 c hb]
    | sum l a b =>
      rw [parse_sum_eq] at h
      have ha : parse f a st c ≠ .error .diverge := by
        intro hd; rw [hd] at h; exact h rfl
      rw [parse_sum_eq (f + 1), parse_sum_eq f, ih a st c ha]
      cases hr : parse f a st c with
      | ok t => rfl
      | error e =>
        rw [hr] at h
        cases e with
        | diverge => exact absurd hr ha
        | other =>
          have hb : parse f b st c ≠ .error .diverge := by
            intro hd; simp only [hd, combineErrors_diverge_right] at h; exact h rfl
          simp only [ih b st c hb]
        | missing m =>
          have hb : parse f b st c ≠ .error .diverge := by
            intro hd; simp only [hd, combineErrors_diverge_right] at h; exact h rfl
          simp only [ih b st c hb]
    | commands common subs =>
      rw [parse_commands_eq] at h
      rw [parse_commands_eq (f + 1), parse_commands_eq f]
      cases hs : splitNext st common.optionNames with
      | none => rfl
      | some t =>
        obtain ⟨first, name, second⟩ := t
        rw [hs] at h
        simp only at h ⊢
        cases hfs : findSub name.2 subs with
        | none => rfl
        | some tq =>
          obtain ⟨tag, q⟩ := tq
          rw [hfs] at h
          simp only at h ⊢
          have hc : parse f common first common.optionNames ≠ .error .diverge := by
            intro hd; rw [hd] at h; exact h rfl
          rw [ih common first _ hc]
          cases hr : parse f common first common.optionNames with
          | error e => cases e <;> rfl
          | ok t1 =>
            obtain ⟨rest, ro, lgo⟩ := t1
            rw [hr] at h
            simp only at h ⊢
            by_cases he : (!rest.isEmpty) = true
            · simp only [he, if_true]
            · simp only [he] at h ⊢
              have hq : parse f q second q.optionNames ≠ .error .diverge := by
                intro hd; simp only [hd] at h; exact h rfl
              simp only [ih q second _ hq]

/-- **fuel monotonicity**: a result other than `diverge` is the result for every larger fuel -/
theorem parse_fuel_mono_aux {f : Nat} {p : OP} {st : List Arg} {c : Ctx} (h : parse f p st c ≠ .error .diverge) :
    ∀ k : Nat, parse (f + k) p st c = parse f p st c
  | 0 => rfl
  | k + 1 => by
    have ih := parse_fuel_mono_aux h k
    have : parse (f + k) p st c ≠ .error .diverge := by rw [ih]; exact h
    rw [← Nat.add_assoc, parse_fuel_succ _ _ _ _ this, ih]

theorem parse_fuel_le {f g : Nat} {p : OP} {st : List Arg} {c : Ctx} (hfg : f ≤ g)
    (h : parse f p st c ≠ .error .diverge) : parse g p st c = parse f p st c := by
  obtain ⟨k, rfl⟩ := Nat.exists_eq_add_of_le hfg
  exact parse_fuel_mono_aux h k

end Fcppt.C03
