import FcpptModel.Model.C03
/-!
# C03 — accounting lemmas

`Acc st st' lg`: going from state `st` to state `st'` while logging `lg` neither drops, duplicates
nor reorders arguments: `st'` is a sublist of `st` (order preserved) and the indices of `st'`
together with the logged indices are a permutation of the indices of `st`.
-/
namespace Fcppt.C03

def idx (l : List Arg) : List Nat := l.map Prod.fst
def lidx (l : Log) : List Nat := l.map Prod.fst

@[simp] theorem idx_nil : idx [] = [] := rfl
@[simp] theorem idx_cons (a : Arg) (l : List Arg) : idx (a :: l) = a.1 :: idx l := rfl
@[simp] theorem idx_append (a b : List Arg) : idx (a ++ b) = idx a ++ idx b := by simp [idx]
@[simp] theorem lidx_nil : lidx [] = [] := rfl
@[simp] theorem lidx_cons (a : Nat × String) (l : Log) : lidx (a :: l) = a.1 :: lidx l := rfl
@[simp] theorem lidx_append (a b : Log) : lidx (a ++ b) = lidx a ++ lidx b := by simp [lidx]

structure Acc (st st' : List Arg) (lg : Log) : Prop where
  sub : st'.Sublist st
  perm : (idx st' ++ lidx lg).Perm (idx st)

theorem Acc.refl (st : List Arg) : Acc st st [] := ⟨List.Sublist.refl _, by simp⟩

theorem Acc.trans {st st1 st2 : List Arg} {l1 l2 : Log} (h1 : Acc st st1 l1) (h2 : Acc st1 st2 l2) :
    Acc st st2 (l1 ++ l2) := by
  refine ⟨h2.sub.trans h1.sub, ?_⟩
  have p1 := List.perm_iff_count.mp h1.perm
  have p2 := List.perm_iff_count.mp h2.perm
  refine List.perm_iff_count.mpr fun a => ?_
  have := p1 a; have := p2 a
  simp only [lidx_append, List.count_append] at *
  omega

/-- removing one element and logging it -/
theorem Acc.remove1 (x z : List Arg) (y : Arg) (l : String) : Acc (x ++ y :: z) (x ++ z) [(y.1, l)] := by
  refine ⟨?_, ?_⟩
  · exact List.Sublist.append (List.Sublist.refl _) (List.sublist_cons_self _ _)
  · refine List.perm_iff_count.mpr fun a => ?_
    simp only [idx_append, idx_cons, lidx_cons, lidx_nil, List.count_append, List.count_cons, List.count_nil]
    omega

/-- removing two adjacent elements and logging both -/
theorem Acc.remove2 (x z : List Arg) (y v : Arg) (l : String) :
    Acc (x ++ y :: v :: z) (x ++ z) [(y.1, l), (v.1, l)] := by
  refine ⟨?_, ?_⟩
  · exact List.Sublist.append (List.Sublist.refl _)
      ((List.sublist_cons_self _ _).trans (List.sublist_cons_self _ _))
  · refine List.perm_iff_count.mpr fun a => ?_
    simp only [idx_append, idx_cons, lidx_cons, lidx_nil, List.count_append, List.count_cons, List.count_nil]
    omega

theorem Acc.length_le {st st' : List Arg} {lg : Log} (h : Acc st st' lg) : st'.length ≤ st.length :=
  h.sub.length_le

/-- the accounting equation on lengths -/
theorem Acc.length_eq {st st' : List Arg} {lg : Log} (h : Acc st st' lg) : st'.length + lg.length = st.length := by
  have := h.perm.length_eq
  simpa [idx, lidx] using this

/-! ## the splitting leaves -/

theorem splitNext_eq : ∀ (st : List Arg) (c : Ctx) {x z : List Arg} {y : Arg},
    splitNext st c = some (x, y, z) → st = x ++ y :: z
  | [], _, _, _, _, h => by simp [splitNext] at h
  | [a], _, x, z, y, h => by
    unfold splitNext at h
    split at h
    · simp at h; obtain ⟨rfl, rfl, rfl⟩ := h; rfl
    · simp at h
  | a :: b :: rest, c, x, z, y, h => by
    unfold splitNext at h
    split at h
    · simp at h; obtain ⟨rfl, rfl, rfl⟩ := h; rfl
    · split at h
      · cases h' : splitNext rest c with
        | none => simp [h'] at h
        | some t =>
          obtain ⟨x', y', z'⟩ := t
          simp [h'] at h
          obtain ⟨rfl, rfl, rfl⟩ := h
          have := splitNext_eq rest c h'
          simp [this]
      · cases h' : splitNext (b :: rest) c with
        | none => simp [h'] at h
        | some t =>
          obtain ⟨x', y', z'⟩ := t
          simp [h'] at h
          obtain ⟨rfl, rfl, rfl⟩ := h
          have := splitNext_eq (b :: rest) c h'
          simp [← this]

theorem splitFind_eq (text : String) : ∀ (st : List Arg) {x z : List Arg} {y : Arg},
    splitFind text st = some (x, y, z) → st = x ++ y :: z ∧ y.2 = text ∧ ∀ a ∈ x, a.2 ≠ text
  | [], _, _, _, h => by simp [splitFind] at h
  | a :: rest, x, z, y, h => by
    unfold splitFind at h
    split at h
    · simp at h; obtain ⟨rfl, rfl, rfl⟩ := h; simp_all
    · cases h' : splitFind text rest with
      | none => simp [h'] at h
      | some t =>
        obtain ⟨x', y', z'⟩ := t
        simp [h'] at h
        obtain ⟨rfl, rfl, rfl⟩ := h
        obtain ⟨e, ht, hn⟩ := splitFind_eq text rest h'
        refine ⟨by simp [e], ht, ?_⟩
        intro b hb
        rcases List.mem_cons.mp hb with rfl | hb
        · assumption
        · exact hn b hb

theorem popArg_acc {st : List Arg} {c : Ctx} {a : Arg} {st' : List Arg} (l : String)
    (h : popArg st c = some (a, st')) : Acc st st' [(a.1, l)] := by
  unfold popArg at h
  cases h' : splitNext st c with
  | none => simp [h'] at h
  | some t =>
    obtain ⟨x, y, z⟩ := t
    simp [h'] at h
    obtain ⟨rfl, rfl⟩ := h
    rw [splitNext_eq st c h']
    exact Acc.remove1 x z y l

theorem useFlag_acc {name : String} {sh : Bool} {st : List Arg} {a : Arg} {st' : List Arg} (l : String)
    (h : useFlag name sh st = some (a, st')) : Acc st st' [(a.1, l)] := by
  unfold useFlag at h
  cases h' : splitFind (flagName name sh) st with
  | none => simp [h'] at h
  | some t =>
    obtain ⟨x, y, z⟩ := t
    simp [h'] at h
    obtain ⟨rfl, rfl⟩ := h
    rw [(splitFind_eq _ st h').1]
    exact Acc.remove1 x z y l

theorem useOption_acc {name : String} {sh : Bool} {st : List Arg} {n v : Arg} {st' : List Arg} (l : String)
    (h : useOption name sh st = .found n v st') : Acc st st' [(n.1, l), (v.1, l)] := by
  unfold useOption at h
  split at h
  · cases h
  · cases h
  · rename_i x y v' z h'
    injection h with h1 h2 h3
    subst h1 h2 h3
    rw [(splitFind_eq _ st h').1]
    exact Acc.remove2 x z y v' l

end Fcppt.C03
