import FcpptProofs.C03.Acc
/-!
# C03 — what `use_flag` and `use_option` take: the first occurrence of the name (and the element after it)
-/
namespace Fcppt.C03

theorem splitFind_none_iff (text : String) : ∀ st : List Arg, splitFind text st = none ↔ ∀ a ∈ st, a.2 ≠ text
  | [] => by simp [splitFind]
  | a :: rest => by
    unfold splitFind
    by_cases h : a.2 = text
    · simp [h]
    · have ih := splitFind_none_iff text rest
      simp only [h, if_false, Option.map_eq_none_iff, ih, List.mem_cons, forall_eq_or_imp]
      exact ⟨fun hr => ⟨h, hr⟩, fun hr => hr.2⟩

theorem splitFind_complete (text : String) : ∀ (x : List Arg) (y : Arg) (z : List Arg),
    y.2 = text → (∀ a ∈ x, a.2 ≠ text) → splitFind text (x ++ y :: z) = some (x, y, z)
  | [], y, z, hy, _ => by simp [splitFind, hy]
  | a :: x, y, z, hy, hx => by
    have ha : a.2 ≠ text := hx a (by simp)
    have ih := splitFind_complete text x y z hy (fun b hb => hx b (by simp [hb]))
    simp [splitFind, ha, ih]

theorem splitFind_iff (text : String) (st x z : List Arg) (y : Arg) :
    splitFind text st = some (x, y, z) ↔ st = x ++ y :: z ∧ y.2 = text ∧ ∀ a ∈ x, a.2 ≠ text := by
  constructor
  · exact splitFind_eq text st
  · rintro ⟨rfl, h1, h2⟩; exact splitFind_complete text x y z h1 h2

theorem useFlag_none_iff (name : String) (sh : Bool) (st : List Arg) :
    useFlag name sh st = none ↔ ∀ a ∈ st, a.2 ≠ flagName name sh := by
  unfold useFlag
  rw [Option.map_eq_none_iff, splitFind_none_iff]

theorem useFlag_some_iff (name : String) (sh : Bool) (st st' : List Arg) (y : Arg) :
    useFlag name sh st = some (y, st') ↔
      ∃ x z, st = x ++ y :: z ∧ st' = x ++ z ∧ y.2 = flagName name sh ∧ ∀ a ∈ x, a.2 ≠ flagName name sh := by
  unfold useFlag
  constructor
  · intro h
    cases hs : splitFind (flagName name sh) st with
    | none => simp [hs] at h
    | some t =>
      obtain ⟨x, y', z⟩ := t
      simp [hs] at h
      obtain ⟨rfl, rfl⟩ := h
      obtain ⟨h1, h2, h3⟩ := (splitFind_iff _ _ _ _ _).mp hs
      exact ⟨x, z, h1, rfl, h2, h3⟩
  · rintro ⟨x, z, rfl, rfl, h2, h3⟩
    simp [splitFind_complete _ x y z h2 h3]

theorem useOption_notFound_iff (name : String) (sh : Bool) (st : List Arg) :
    useOption name sh st = .notFound ↔ ∀ a ∈ st, a.2 ≠ flagName name sh := by
  unfold useOption
  rw [← splitFind_none_iff]
  split <;> simp_all

theorem useOption_missing_iff (name : String) (sh : Bool) (st : List Arg) :
    useOption name sh st = .missingArgument ↔
      ∃ x y, st = x ++ [y] ∧ y.2 = flagName name sh ∧ ∀ a ∈ x, a.2 ≠ flagName name sh := by
  unfold useOption
  constructor
  · intro h
    split at h
    · cases h
    · rename_i x y hs
      obtain ⟨h1, h2, h3⟩ := (splitFind_iff _ _ _ _ _).mp hs
      exact ⟨x, y, h1, h2, h3⟩
    · cases h
  · rintro ⟨x, y, rfl, h2, h3⟩
    simp [splitFind_complete _ x y [] h2 h3]

theorem useOption_found_iff (name : String) (sh : Bool) (st st' : List Arg) (n v : Arg) :
    useOption name sh st = .found n v st' ↔
      ∃ x z, st = x ++ n :: v :: z ∧ st' = x ++ z ∧ n.2 = flagName name sh ∧ ∀ a ∈ x, a.2 ≠ flagName name sh := by
  unfold useOption
  constructor
  · intro h
    split at h
    · cases h
    · cases h
    · rename_i x y v' z hs
      injection h with h1 h2 h3
      subst h1 h2 h3
      obtain ⟨h1, h2, h3⟩ := (splitFind_iff _ _ _ _ _).mp hs
      exact ⟨x, z, h1, rfl, h2, h3⟩
  · rintro ⟨x, z, rfl, rfl, h2, h3⟩
    simp [splitFind_complete _ x n (v :: z) h2 h3]

end Fcppt.C03
