import FcpptModel.Spec.C03
import FcpptProofs.C03.Acc
/-!
# C03 — `next_arg` returns exactly the first positional argument of the left-to-right reading
-/
namespace Fcppt.C03

def texts (l : List Arg) : List String := l.map Prod.snd

@[simp] theorem texts_nil : texts [] = [] := rfl
@[simp] theorem texts_cons (a : Arg) (l : List Arg) : texts (a :: l) = a.2 :: texts l := rfl

theorem splitNext_sound : ∀ (st : List Arg) (c : Ctx) {x z : List Arg} {y : Arg},
    splitNext st c = some (x, y, z) → skipped c (texts x) = true ∧ isFlag y.2 = none
  | [], _, _, _, _, h => by simp [splitNext] at h
  | [a], _, x, z, y, h => by
    unfold splitNext at h
    split at h
    · rename_i hf; simp at h; obtain ⟨rfl, rfl, rfl⟩ := h; exact ⟨rfl, hf⟩
    · simp at h
  | a :: b :: rest, c, x, z, y, h => by
    unfold splitNext at h
    split at h
    · rename_i hf; simp at h; obtain ⟨rfl, rfl, rfl⟩ := h; exact ⟨rfl, hf⟩
    · rename_i sh nm hf
      split at h
      · rename_i hc
        cases h' : splitNext rest c with
        | none => simp [h'] at h
        | some t =>
          obtain ⟨x', y', z'⟩ := t
          simp [h'] at h
          obtain ⟨rfl, rfl, rfl⟩ := h
          obtain ⟨h1, h2⟩ := splitNext_sound rest c h'
          refine ⟨?_, h2⟩
          simp only [texts_cons, skipped, hf, hc, if_true]
          exact h1
      · rename_i hc
        cases h' : splitNext (b :: rest) c with
        | none => simp [h'] at h
        | some t =>
          obtain ⟨x', y', z'⟩ := t
          simp [h'] at h
          obtain ⟨rfl, rfl, rfl⟩ := h
          obtain ⟨h1, h2⟩ := splitNext_sound (b :: rest) c h'
          refine ⟨?_, h2⟩
          have hc' : (nm, sh) ∉ c := by simpa using hc
          cases x' with
          | nil => simp [skipped, hf, isOptName, hc']
          | cons x1 xs =>
            simp only [texts_cons, skipped, hf, hc]
            simpa using h1

theorem skipped_append (c : Ctx) : ∀ (a b : List String), skipped c a = true → skipped c (a ++ b) = skipped c b
  | [], b, _ => rfl
  | [x], b, h => by
    simp only [skipped, Bool.and_eq_true, Bool.not_eq_true'] at h
    obtain ⟨h1, h2⟩ := h
    cases hf : isFlag x with
    | none => simp [hf] at h1
    | some t =>
      obtain ⟨sh, nm⟩ := t
      have hc : (nm, sh) ∉ c := by simpa [isOptName, hf] using h2
      cases b with
      | nil => simp [skipped, hf, isOptName, hc]
      | cons b1 bs => simp [skipped, hf, hc]
  | x :: y :: rest, b, h => by
    simp only [skipped] at h
    cases hf : isFlag x with
    | none => simp [hf] at h
    | some t =>
      obtain ⟨sh, nm⟩ := t
      simp only [hf] at h
      by_cases hc : c.contains (nm, sh) = true
      · simp only [hc, if_true] at h
        have := skipped_append c rest b h
        cases hr : rest ++ b with
        | nil =>
          have : rest = [] ∧ b = [] := by simpa using hr
          obtain ⟨rfl, rfl⟩ := this
          have hc' : (nm, sh) ∈ c := by simpa using hc
          simp [skipped, hf, hc']
        | cons r1 rs =>
          show skipped c (x :: y :: (rest ++ b)) = _
          simp only [skipped, hf, hc, if_true]
          exact this
      · simp only [hc] at h
        have := skipped_append c (y :: rest) b h
        show skipped c (x :: y :: (rest ++ b)) = _
        simp only [skipped, hf, hc]
        simpa using this

theorem splitNext_complete : ∀ (x : List Arg) (y : Arg) (z : List Arg) (c : Ctx),
    skipped c (texts x) = true → isFlag y.2 = none → splitNext (x ++ y :: z) c = some (x, y, z)
  | [], y, z, c, _, hy => by
    cases z with
    | nil => simp [splitNext, hy]
    | cons z1 zs => simp [splitNext, hy]
  | [a], y, z, c, hx, hy => by
    simp only [texts_cons, texts_nil, skipped, Bool.and_eq_true, Bool.not_eq_true'] at hx
    obtain ⟨h1, h2⟩ := hx
    cases hf : isFlag a.2 with
    | none => simp [hf] at h1
    | some t =>
      obtain ⟨sh, nm⟩ := t
      have hc : (nm, sh) ∉ c := by simpa [isOptName, hf] using h2
      have := splitNext_complete [] y z c rfl hy
      simp only [List.nil_append] at this
      simp [splitNext, hf, hc, this]
  | a :: b :: rest, y, z, c, hx, hy => by
    simp only [texts_cons, skipped] at hx
    cases hf : isFlag a.2 with
    | none => simp [hf] at hx
    | some t =>
      obtain ⟨sh, nm⟩ := t
      simp only [hf] at hx
      by_cases hc : (nm, sh) ∈ c
      · have hc' : c.contains (nm, sh) = true := by simpa using hc
        simp only [hc', if_true] at hx
        have := splitNext_complete rest y z c hx hy
        simp [splitNext, hf, hc, this]
      · have hc' : c.contains (nm, sh) = false := by simpa using hc
        simp only [hc'] at hx
        have := splitNext_complete (b :: rest) y z c (by simpa using hx) hy
        simp only [List.cons_append] at this
        simp [splitNext, hf, hc, this]

end Fcppt.C03
