import FcpptProofs.C03.Labels
/-!
# C03 — the shape of the values `optional` and `many` put into their records
-/
namespace Fcppt.C03

/-- every field is a list with `k` elements -/
def allLists (k : Nat) (r : Rec) : Prop := ∀ x ∈ r, ∃ vs, x.2 = Val.list vs ∧ vs.length = k

theorem allLists_consRec {k : Nat} : ∀ (r rs : Rec), allLists k rs → allLists (k + 1) (consRec r rs)
  | [], _, _ => by intro x hx; simp [consRec] at hx
  | _ :: _, [], _ => by intro x hx; simp [consRec] at hx
  | a :: r, b :: rs, h => by
    intro x hx
    simp only [consRec, List.zipWith_cons_cons, List.mem_cons] at hx
    rcases hx with rfl | hx
    · obtain ⟨vs, hv, hk⟩ := h b (by simp)
      exact ⟨a.2 :: vs, by simp [hv, consVal], by simp [hk]⟩
    · exact allLists_consRec r rs (fun y hy => h y (by simp [hy])) x hx

/-- `many`: every field of the result is a vector, and all vectors have the same length (the number of iterations) -/
theorem many_all_lists : ∀ (f : Nat) (q : OP) (st : List Arg) (c : Ctx) {st' : List Arg} {r : Rec} {lg : Log},
    parse f (.many q) st c = .ok (st', r, lg) → ∃ k, allLists k r := by
  intro f
  induction f with
  | zero => intro q st c st' r lg h; simp [parse] at h
  | succ f ih =>
    intro q st c st' r lg h
    rw [parse_many_eq] at h
    cases hq : parse f q st c with
    | error e =>
      rw [hq] at h
      cases e with
      | missing m t =>
        simp at h; obtain ⟨_, rfl, _⟩ := h
        refine ⟨0, fun x hx => ?_⟩
        obtain ⟨l, _, rfl⟩ := List.mem_map.mp hx
        exact ⟨[], rfl, rfl⟩
      | other t => cases h
      | diverge => cases h
    | ok t =>
      obtain ⟨st1, r1, lg1⟩ := t
      rw [hq] at h
      simp only at h
      cases hm : parse f (.many q) st1 c with
      | error e => rw [hm] at h; cases h
      | ok t2 =>
        obtain ⟨st2, r2, lg2⟩ := t2
        rw [hm] at h
        simp at h; obtain ⟨_, rfl, _⟩ := h
        obtain ⟨k, hk⟩ := ih q st1 c hm
        exact ⟨k + 1, allLists_consRec r1 r2 hk⟩

/-- `optional`: either every field is absent or every field is present -/
theorem optional_all_or_nothing {f : Nat} {q : OP} {st : List Arg} {c : Ctx} {st' : List Arg} {r : Rec} {lg : Log}
    (h : parse (f + 1) (.optional q) st c = .ok (st', r, lg)) :
    (∀ x ∈ r, x.2 = Val.none) ∨ (∀ x ∈ r, ∃ v, x.2 = Val.some v) := by
  rw [parse_optional_eq] at h
  cases hq : parse f q st c with
  | error e =>
    rw [hq] at h
    cases e with
    | missing m t =>
      simp at h; obtain ⟨_, rfl, _⟩ := h
      refine .inl fun x hx => ?_
      obtain ⟨l, _, rfl⟩ := List.mem_map.mp hx
      rfl
    | other t => cases h
    | diverge => cases h
  | ok t =>
    obtain ⟨st1, r1, lg1⟩ := t
    rw [hq] at h
    simp at h; obtain ⟨_, rfl, _⟩ := h
    refine .inr fun x hx => ?_
    obtain ⟨y, _, rfl⟩ := List.mem_map.mp hx
    exact ⟨y.2, rfl⟩

end Fcppt.C03
