import FcpptProofs.C03.Fuel
/-!
# C03 — the record a parser returns has exactly the labels of its result type, in order

`OP.labels` is the label list of `result_of<Parser>`; C++ guarantees the correspondence statically, the model
has to earn it (in particular `many` zips the records of its iterations and would silently truncate otherwise).
-/
namespace Fcppt.C03

def recLabels (r : Rec) : List String := r.map Prod.fst

theorem parseFlag_labels {l : String} {sh : Option String} {lg : String} {act inact : Val} {st st' : List Arg}
    {r : Rec} {log : Log} (h : parseFlag l sh lg act inact st = .ok (st', r, log)) : recLabels r = [l] := by
  unfold parseFlag at h
  cases sh with
  | none => simp at h; obtain ⟨_, rfl, _⟩ := h; rfl
  | some s =>
    simp only at h
    split at h
    · cases h
    · simp at h; obtain ⟨_, rfl, _⟩ := h; rfl

theorem parseOpt_labels {l : String} {sh : Option String} {lg : String} {dflt : Option Val} {ty : VTy} {st st' : List Arg}
    {r : Rec} {log : Log} (h : parseOpt l sh lg dflt ty st = .ok (st', r, log)) : recLabels r = [l] := by
  unfold parseOpt at h
  cases sh with
  | none =>
    simp only at h
    split at h
    · cases h
    · split at h
      · simp at h; obtain ⟨_, rfl, _⟩ := h; rfl
      · cases h
  | some s =>
    simp only at h
    split at h
    · cases h
    · cases h
    · split at h
      · simp at h; obtain ⟨_, rfl, _⟩ := h; rfl
      · cases h

theorem recLabels_consRec : ∀ (r rs : Rec), r.length = rs.length → recLabels (consRec r rs) = recLabels rs
  | [], [], _ => rfl
  | [], _ :: _, h => by simp at h
  | _ :: _, [], h => by simp at h
  | x :: r, y :: rs, h => by
    have ih := recLabels_consRec r rs (by simpa using h)
    simp only [recLabels, consRec, List.zipWith_cons_cons, List.map_cons] at ih ⊢
    rw [ih]

/-- **labels of the result = labels of the parser's result type**, for every parser, state, context and fuel -/
theorem parse_labels : ∀ (f : Nat) (p : OP) (st : List Arg) (c : Ctx) {st' : List Arg} {r : Rec} {lg : Log},
    parse f p st c = .ok (st', r, lg) → recLabels r = p.labels := by
  intro f
  induction f with
  | zero => intro p st c st' r lg h; simp [parse] at h
  | succ f ih =>
    intro p st c st' r lg h
    cases p with
    | arg l ty =>
      rw [parse_arg_eq] at h
      split at h
      · cases h
      · split at h
        · simp at h; obtain ⟨_, rfl, _⟩ := h; rfl
        · cases h
    | flag l sh lg' act inact => rw [parse_flag_eq] at h; exact parseFlag_labels h
    | opt l sh lg' dflt ty => rw [parse_opt_eq] at h; exact parseOpt_labels h
    | unit l =>
      rw [parse_unit_eq] at h
      split at h
      · simp at h; obtain ⟨_, rfl, _⟩ := h; rfl
      · cases h
    | unitSwitch l sh lg' =>
      rw [parse_unitSwitch_eq] at h
      split at h
      · cases h
      · split at h
        · simp at h; obtain ⟨_, rfl, _⟩ := h; rfl
        · cases h
    | optional q =>
      rw [parse_optional_eq] at h
      cases hq : parse f q st c with
      | error e =>
        rw [hq] at h
        cases e with
        | missing m => simp at h; obtain ⟨_, rfl, _⟩ := h; simp [recLabels, OP.labels, Function.comp_def]
        | other => cases h
        | diverge => cases h
      | ok t =>
        obtain ⟨st1, r1, lg1⟩ := t
        rw [hq] at h
        simp at h; obtain ⟨_, rfl, _⟩ := h
        have := ih q st c hq
        simpa [recLabels, OP.labels, Function.comp_def] using this
    | many q =>
      rw [parse_many_eq] at h
      cases hq : parse f q st c with
      | error e =>
        rw [hq] at h
        cases e with
        | missing m => simp at h; obtain ⟨_, rfl, _⟩ := h; simp [recLabels, OP.labels, Function.comp_def]
        | other => cases h
        | diverge => cases h
      | ok t =>
        obtain ⟨st1, r1, lg1⟩ := t
        rw [hq] at h
        simp only at h
        cases hm : parse f (.many q) st1 c with
        | error e => rw [hm] at h; cases h
        | ok t2 =>
          obtain ⟨st2, r2, lg2⟩ := t2
          rw [hm] at h
          simp at h; obtain ⟨_, rfl, _⟩ := h
          have h1 := ih q st c hq
          have h2 := ih (.many q) st1 c hm
          simp only [OP.labels] at h2 ⊢
          have hl : r1.length = r2.length := by
            have := congrArg List.length (h1.trans h2.symm)
            simpa [recLabels] using this
          rw [recLabels_consRec r1 r2 hl, h2]
    | prod a b =>
      rw [parse_prod_eq] at h
      cases ha : parse f a st c with
      | error e => rw [ha] at h; cases h
      | ok t =>
        obtain ⟨st1, r1, lg1⟩ := t
        rw [ha] at h
        simp only at h
        cases hb : parse f b st1 c with
        | error e => rw [hb] at h; cases h
        | ok t2 =>
          obtain ⟨st2, r2, lg2⟩ := t2
          rw [hb] at h
          simp at h; obtain ⟨_, rfl, _⟩ := h
          have h1 := ih a st c ha
          have h2 := ih b st1 c hb
          simp only [recLabels, List.map_append, OP.labels] at h1 h2 ⊢
          rw [h1, h2]
    | sum l a b =>
      rw [parse_sum_eq] at h
      cases ha : parse f a st c with
      | ok t =>
        obtain ⟨st1, r1, lg1⟩ := t
        rw [ha] at h
        simp at h; obtain ⟨_, rfl, _⟩ := h; rfl
      | error e =>
        rw [ha] at h
        cases e with
        | diverge => cases h
        | other =>
          simp only at h
          cases hb : parse f b st c with
          | error e2 => rw [hb] at h; cases h
          | ok t2 =>
            obtain ⟨st2, r2, lg2⟩ := t2
            rw [hb] at h
            simp at h; obtain ⟨_, rfl, _⟩ := h; rfl
        | missing m =>
          simp only at h
          cases hb : parse f b st c with
          | error e2 => rw [hb] at h; cases h
          | ok t2 =>
            obtain ⟨st2, r2, lg2⟩ := t2
            rw [hb] at h
            simp at h; obtain ⟨_, rfl, _⟩ := h; rfl
    | commands common subs =>
      rw [parse_commands_eq] at h
      split at h
      · cases h
      · split at h
        · cases h
        · split at h
          · cases h
          · cases h
          · split at h
            · cases h
            · split at h
              · cases h
              · simp at h; obtain ⟨_, rfl, _⟩ := h; rfl

end Fcppt.C03
