import FcpptProofs.C03.Fuel
import FcpptProofs.C03.Term
/-!
# C03 — `parse_help` answers with the help text exactly when the help switch stands alone
-/
namespace Fcppt.C03

theorem index_singleton_iff (args : List String) (a : Arg) : index args = [a] ↔ args = [a.2] ∧ a.1 = 0 := by
  unfold index
  cases args with
  | nil => simp
  | cons x r =>
    cases r with
    | nil =>
      simp [List.range_succ]
      constructor
      · intro h; subst h; simp
      · rintro ⟨h1, h2⟩; cases a; simp_all
    | cons y r' =>
      simp [List.range_succ_eq_map]

theorem useFlag_all_iff (name : String) (sh : Bool) (st : List Arg) (a : Arg) :
    useFlag name sh st = some (a, []) ↔ st = [a] ∧ a.2 = flagName name sh := by
  unfold useFlag
  constructor
  · intro h
    cases h' : splitFind (flagName name sh) st with
    | none => simp [h'] at h
    | some t =>
      obtain ⟨x, y, z⟩ := t
      simp [h'] at h
      obtain ⟨rfl, hx, hz⟩ := h
      subst hx hz
      obtain ⟨e, ht, _⟩ := splitFind_eq _ st h'
      exact ⟨by simpa using e, ht⟩
  · rintro ⟨rfl, h2⟩
    simp [splitFind, h2]

/-! ## help switches with a short name -/

def HelpRes.isHelp : HelpRes → Bool
  | .help _ => true
  | .result .. => false

theorem useFlag_none_singleton {name : String} {sh : Bool} {a : Arg} (h : a.2 ≠ flagName name sh) :
    useFlag name sh [a] = none := by
  simp [useFlag, splitFind, h]

theorem useFlag_some_singleton {name : String} {sh : Bool} {a : Arg} (h : a.2 = flagName name sh) :
    useFlag name sh [a] = some (a, []) := by
  simp [useFlag, splitFind, h]

/-- a `unit_switch` succeeds and leaves nothing behind **iff** the state is exactly one token, one of its two names -/
theorem unitSwitch_ok_nil_iff (f : Nat) (l : String) (sh : Option String) (lg : String) (st : List Arg) (c : Ctx) :
    (∃ r log, parse (f + 1) (.unitSwitch l sh lg) st c = .ok ([], r, log)) ↔
      ∃ a, st = [a] ∧ (a.2 = flagName lg false ∨ ∃ s, sh = some s ∧ a.2 = flagName s true) := by
  rw [parse_unitSwitch_eq]
  constructor
  · rintro ⟨r, log, h⟩
    cases sh with
    | none =>
      simp only [parseFlag, flagStep] at h
      cases hu : useFlag lg false st with
      | none => simp [hu] at h
      | some t =>
        obtain ⟨a, st1⟩ := t
        simp [hu] at h
        obtain ⟨rfl, _, _⟩ := h
        obtain ⟨h1, h2⟩ := (useFlag_all_iff _ _ _ _).mp hu
        exact ⟨a, h1, .inl h2⟩
    | some s =>
      simp only [parseFlag, flagStep] at h
      cases hu : useFlag lg false st with
      | none =>
        simp only [hu] at h
        cases hu2 : useFlag s true st with
        | none => simp [hu2] at h
        | some t =>
          obtain ⟨a, st1⟩ := t
          simp [hu2] at h
          obtain ⟨rfl, _, _⟩ := h
          obtain ⟨h1, h2⟩ := (useFlag_all_iff _ _ _ _).mp hu2
          exact ⟨a, h1, .inr ⟨s, rfl, h2⟩⟩
      | some t =>
        obtain ⟨a, st1⟩ := t
        simp only [hu] at h
        cases hu2 : useFlag s true st1 with
        | some t2 => simp [hu2] at h
        | none =>
          simp [hu2] at h
          obtain ⟨rfl, _, _⟩ := h
          obtain ⟨h1, h2⟩ := (useFlag_all_iff _ _ _ _).mp hu
          exact ⟨a, h1, .inl h2⟩
  · rintro ⟨a, rfl, h⟩
    have hnil : ∀ (n : String) (b : Bool), useFlag n b [] = none := fun n b => by simp [useFlag, splitFind]
    by_cases hl : a.2 = flagName lg false
    · have hu := useFlag_some_singleton (sh := false) hl
      cases sh with
      | none => exact ⟨[(l, .unit)], [(a.1, l)], by simp [parseFlag, flagStep, hu]⟩
      | some s => exact ⟨[(l, .unit)], [(a.1, l)], by simp [parseFlag, flagStep, hu, hnil]⟩
    · have hu := useFlag_none_singleton (sh := false) hl
      rcases h with h | ⟨s, rfl, hs⟩
      · exact absurd h hl
      · have hu2 := useFlag_some_singleton (sh := true) hs
        exact ⟨[(l, .unit)], [(a.1, l)], by simp [parseFlag, flagStep, hu, hu2]⟩

theorem unitSwitch_ne_diverge (f : Nat) (l : String) (sh : Option String) (lg : String) (st : List Arg) (c : Ctx) :
    parse (f + 1) (.unitSwitch l sh lg) st c ≠ .error .diverge := by
  rw [parse_unitSwitch_eq]
  split
  · rename_i e he; intro h; injection h with h; subst h; exact parseFlag_ne_diverge _ _ _ _ _ _ he
  · split <;> simp

/-- the record of a successful `unit_switch` -/
theorem unitSwitch_ok_rec {f : Nat} {l : String} {sh : Option String} {lg : String} {st st' : List Arg} {c : Ctx} {r : Rec} {log : Log}
    (h : parse (f + 1) (.unitSwitch l sh lg) st c = .ok (st', r, log)) : r = [(l, .unit)] := by
  rw [parse_unitSwitch_eq] at h
  split at h
  · cases h
  · split at h
    · simp at h; exact h.2.1.symm
    · cases h

/-- `parse_help` answers with the help text **iff** the help switch's own parser succeeds on the whole vector and leaves nothing -/
theorem parseHelp_help_iff_switch (f : Nat) (hsh : Option String) (hlg : String) (p : OP) (args : List String) :
    (∃ x, parseHelp (f + 2) hsh hlg p args = .ok x ∧ x.isHelp = true) ↔
      ∃ r log, parse (f + 1) (.unitSwitch "h" hsh hlg) (index args) (helpSum hsh hlg p).optionNames = .ok ([], r, log) := by
  unfold parseHelp parseToEmpty
  have hsum := parse_sum_eq (f + 1) "help" (.unitSwitch "h" hsh hlg) p (index args) (helpSum hsh hlg p).optionNames
  have hnd := unitSwitch_ne_diverge f "h" hsh hlg (index args) (helpSum hsh hlg p).optionNames
  unfold helpSum at hsum hnd ⊢
  rw [hsum]
  cases hu : parse (f + 1) (.unitSwitch "h" hsh hlg) (index args) (OP.sum "help" (.unitSwitch "h" hsh hlg) p).optionNames with
  | ok t =>
    obtain ⟨st', r, lg⟩ := t
    have hr := unitSwitch_ok_rec hu
    subst hr
    cases st' with
    | nil => simp [HelpRes.isHelp]
    | cons b rest => simp
  | error e =>
    have he : e ≠ .diverge := fun hd => hnd (by rw [hu, hd])
    constructor
    · rintro ⟨x, hx, hm⟩
      exfalso
      revert hx
      cases e with
      | diverge => exact absurd rfl he
      | other =>
        simp only
        cases hp : parse (f + 1) p (index args) (OP.sum "help" (.unitSwitch "h" hsh hlg) p).optionNames with
        | error e2 => cases e2 <;> simp [combineErrors]
        | ok t2 =>
          obtain ⟨st2, r2, lg2⟩ := t2
          by_cases hem : st2.isEmpty = true
          · simp only [hem, if_true]; intro hx; injection hx with hx; subst hx; simp [HelpRes.isHelp] at hm
          · simp [hem]
      | missing m =>
        simp only
        cases hp : parse (f + 1) p (index args) (OP.sum "help" (.unitSwitch "h" hsh hlg) p).optionNames with
        | error e2 => cases e2 <;> simp [combineErrors]
        | ok t2 =>
          obtain ⟨st2, r2, lg2⟩ := t2
          by_cases hem : st2.isEmpty = true
          · simp only [hem, if_true]; intro hx; injection hx with hx; subst hx; simp [HelpRes.isHelp] at hm
          · simp [hem]
    · rintro ⟨r, log, h⟩; cases h

/-- **`parse_help`, any help switch**: the answer is the help text iff the argument vector is exactly the switch:
`[--<long>]` or `[-<short>]` -/
theorem parseHelp_help_iff_any (f : Nat) (hsh : Option String) (hlg : String) (p : OP) (args : List String) :
    (∃ x, parseHelp (f + 2) hsh hlg p args = .ok x ∧ x.isHelp = true) ↔
      args = [flagName hlg false] ∨ ∃ s, hsh = some s ∧ args = [flagName s true] := by
  rw [parseHelp_help_iff_switch, unitSwitch_ok_nil_iff]
  constructor
  · rintro ⟨a, ha, h⟩
    obtain ⟨h1, _⟩ := (index_singleton_iff _ _).mp ha
    rcases h with h | ⟨s, hs, h⟩
    · exact .inl (by rw [h1, h])
    · exact .inr ⟨s, hs, by rw [h1, h]⟩
  · rintro (h | ⟨s, hs, h⟩)
    · exact ⟨(0, flagName hlg false), (index_singleton_iff _ _).mpr ⟨h, rfl⟩, .inl rfl⟩
    · exact ⟨(0, flagName s true), (index_singleton_iff _ _).mpr ⟨h, rfl⟩, .inr ⟨s, hs, rfl⟩⟩

end Fcppt.C03
