import FcpptProofs.C03.Acc
/-!
# C03 — `parse_help` answers with the help text exactly when the help switch stands alone
-/
namespace Fcppt.C03

theorem index_singleton_iff (args : List String) (a : Arg) : index args = [a] ↔ args = [a.2] ∧ a.1 = 0 := by
  unfold index
  cases args with
  | nil => simp
  | cons x r =>
    cases r with
    | nil =>
      simp [List.range_succ]
      constructor
      · intro h; subst h; simp
      · rintro ⟨h1, h2⟩; cases a; simp_all
    | cons y r' =>
      simp [List.range_succ_eq_map]

theorem useFlag_all_iff (name : String) (sh : Bool) (st : List Arg) (a : Arg) :
    useFlag name sh st = some (a, []) ↔ st = [a] ∧ a.2 = flagName name sh := by
  unfold useFlag
  constructor
  · intro h
    cases h' : splitFind (flagName name sh) st with
    | none => simp [h'] at h
    | some t =>
      obtain ⟨x, y, z⟩ := t
      simp [h'] at h
      obtain ⟨rfl, hx, hz⟩ := h
      subst hx hz
      obtain ⟨e, ht, _⟩ := splitFind_eq _ st h'
      exact ⟨by simpa using e, ht⟩
  · rintro ⟨rfl, h2⟩
    simp [splitFind, h2]

theorem unitSwitch_long_none {f : Nat} {l lg : String} {st : List Arg} {c : Ctx} (hu : useFlag lg false st = none) :
    parse (f + 1) (.unitSwitch l none lg) st c = .error (.missing st) := by
  simp [parse, parseFlag, flagStep, hu]

theorem unitSwitch_long_some {f : Nat} {l lg : String} {st : List Arg} {c : Ctx} {a : Arg} {st' : List Arg}
    (hu : useFlag lg false st = some (a, st')) :
    parse (f + 1) (.unitSwitch l none lg) st c = .ok (st', [(l, .unit)], [(a.1, l)]) := by
  simp [parse, parseFlag, flagStep, hu]

private theorem sum_left_ok {f : Nat} {l : String} {a b : OP} {st : List Arg} {c : Ctx} {st1 : List Arg} {r1 : Rec} {lg1 : Log}
    (h : parse f a st c = .ok (st1, r1, lg1)) :
    parse (f + 1) (.sum l a b) st c = .ok (st1, [(l, .left (.recd r1))], lg1) := by
  simp only [parse, h]

private theorem sum_left_missing_right_ok {f : Nat} {l : String} {a b : OP} {st : List Arg} {c : Ctx} {m st2 : List Arg} {r2 : Rec} {lg2 : Log}
    (h : parse f a st c = .error (.missing m)) (hb : parse f b st c = .ok (st2, r2, lg2)) :
    parse (f + 1) (.sum l a b) st c = .ok (st2, [(l, .right (.recd r2))], lg2) := by
  simp only [parse, h, hb]

private theorem sum_left_missing_right_err {f : Nat} {l : String} {a b : OP} {st : List Arg} {c : Ctx} {m : List Arg} {e : PErr}
    (h : parse f a st c = .error (.missing m)) (hb : parse f b st c = .error e) :
    parse (f + 1) (.sum l a b) st c = .error (combineErrors (.missing m) e) := by
  simp only [parse, h, hb]

/-- `parse_help` with a help switch that has only a long name (`default_help_switch`): the answer is the help text
**iff** the argument vector is exactly `[--<long>]`. -/
theorem parseHelp_help_iff (f : Nat) (hlg : String) (p : OP) (args : List String) :
    (∃ x, parseHelp (f + 2) none hlg p args = .ok x ∧ (match x with | .help => True | .result .. => False)) ↔
      args = [flagName hlg false] := by
  have hself : useFlag hlg false (index [flagName hlg false]) = some ((0, flagName hlg false), []) :=
    (useFlag_all_iff _ _ _ _).mpr ⟨by simp [index, List.range_succ], rfl⟩
  unfold parseHelp parseToEmpty
  cases hu : useFlag hlg false (index args) with
  | none =>
    have hl := unitSwitch_long_none (f := f) (l := "h") (c := (helpSum none hlg p).optionNames) hu
    constructor
    · rintro ⟨x, hx, hm⟩
      cases x with
      | result r lg => exact hm.elim
      | help =>
        exfalso
        revert hx
        cases hp : parse (f + 1) p (index args) (helpSum none hlg p).optionNames with
        | error e =>
          have := sum_left_missing_right_err (l := "help") hl hp
          unfold helpSum at this ⊢
          rw [this]
          cases e <;> simp [combineErrors]
        | ok t =>
          obtain ⟨st2, r2, lg2⟩ := t
          have := sum_left_missing_right_ok (l := "help") hl hp
          unfold helpSum at this ⊢
          rw [this]
          by_cases he : st2.isEmpty = true <;> simp [he]
    · intro h
      subst h
      rw [hself] at hu
      cases hu
  | some t =>
    obtain ⟨a, st'⟩ := t
    have hl := unitSwitch_long_some (f := f) (l := "h") (c := (helpSum none hlg p).optionNames) hu
    have hs := sum_left_ok (l := "help") (b := p) hl
    unfold helpSum at hs ⊢
    rw [hs]
    constructor
    · rintro ⟨x, hx, hm⟩
      cases x with
      | result r lg => exact hm.elim
      | help =>
        cases st' with
        | cons b r => simp at hx
        | nil =>
          obtain ⟨h1, h2⟩ := (useFlag_all_iff _ _ _ _).mp hu
          obtain ⟨h3, _⟩ := (index_singleton_iff _ _).mp h1
          rw [h3, h2]
    · intro h
      subst h
      rw [hself] at hu
      injection hu with hu
      injection hu with h1 h2
      subst h1 h2
      exact ⟨.help, by simp, trivial⟩

end Fcppt.C03
