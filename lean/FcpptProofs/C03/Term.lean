import FcpptModel.Spec.C03
import FcpptProofs.C03.Parse
/-!
# C03 — termination: with no `many` around a non-consuming parser, fuel `(|state|+1) * size p` is enough
-/
namespace Fcppt.C03

theorem flagStep_true {l n : String} {sh : Bool} {st : List Arg} (h : (flagStep l n sh st).1 = true) :
    (flagStep l n sh st).2.2 ≠ [] := by
  unfold flagStep at h ⊢
  split <;> simp_all

theorem optStep_some {l n : String} {sh : Bool} {st : List Arg} {v : String} (h : (optStep l n sh st).1 = .ok (some v)) :
    (optStep l n sh st).2.2 ≠ [] := by
  unfold optStep at h ⊢
  split <;> simp_all

theorem optStep_err {l n : String} {sh : Bool} {st : List Arg} {e : PErr} (h : (optStep l n sh st).1 = .error e) :
    e ≠ .diverge := by
  unfold optStep at h
  split at h <;> simp at h
  subst h; simp

theorem makeValue_err {sh : Option String} {lg : String} {ty : VTy} {s : String} {e : PErr}
    (h : makeValue sh lg ty s = .error e) : e ≠ .diverge := by
  unfold makeValue at h
  split at h <;> simp at h
  subst h; simp

theorem makeOrDefault_err {sh : Option String} {lg : String} {d : Option Val} {ty : VTy} {cur : List Arg} {o : Option String} {e : PErr}
    (h : makeOrDefault sh lg d ty cur o = .error e) : e ≠ .diverge := by
  unfold makeOrDefault at h
  split at h
  · exact makeValue_err h
  · split at h <;> simp at h
    subst h; simp

theorem combineResults_err {sh : Option String} {lg : String} {d : Option Val} {ty : VTy} {cur : List Arg} {lo so : Option String} {e : PErr}
    (h : combineResults sh lg d ty cur lo so = .error e) : e ≠ .diverge := by
  unfold combineResults at h
  split at h
  · exact makeOrDefault_err h
  · split at h
    · simp at h; subst h; simp
    · exact makeValue_err h

theorem parseFlag_ne_diverge (l : String) (sh : Option String) (lg : String) (act inact : Val) (st : List Arg) :
    parseFlag l sh lg act inact st ≠ .error .diverge := by
  unfold parseFlag
  cases sh with
  | none => simp
  | some s => simp only; split <;> simp

theorem parseOpt_ne_diverge (l : String) (sh : Option String) (lg : String) (d : Option Val) (ty : VTy) (st : List Arg) :
    parseOpt l sh lg d ty st ≠ .error .diverge := by
  unfold parseOpt
  cases sh with
  | none =>
    simp only
    split
    · rename_i e he; intro h; injection h with h; exact optStep_err he h
    · split
      · simp
      · rename_i e he; intro h; injection h with h; exact makeOrDefault_err he h
  | some s =>
    simp only
    split
    · rename_i e he; intro h; injection h with h; exact optStep_err he h
    · rename_i e he; intro h; injection h with h; exact optStep_err he h
    · split
      · simp
      · rename_i e he; intro h; injection h with h; exact combineResults_err he h

/-- a successful `option::parse` of an option without default has taken the option -/
theorem parseOpt_consumes {l : String} {sh : Option String} {lg : String} {ty : VTy} {st st' : List Arg} {r : Rec} {log : Log}
    (h : parseOpt l sh lg none ty st = .ok (st', r, log)) : log ≠ [] := by
  unfold parseOpt at h
  cases sh with
  | none =>
    simp only at h
    split at h
    · cases h
    · rename_i o ho
      split at h
      · rename_i v hv
        simp at h; obtain ⟨_, _, rfl⟩ := h
        cases o with
        | none => simp [makeOrDefault] at hv
        | some s => exact optStep_some ho
      · cases h
  | some s =>
    simp only at h
    split at h
    · cases h
    · cases h
    · rename_i lo so hlo hso
      split at h
      · rename_i v hv
        simp at h; obtain ⟨_, _, rfl⟩ := h
        cases lo with
        | some x => have := optStep_some hlo; simp [this]
        | none =>
          cases so with
          | some x => have := optStep_some hso; simp [this]
          | none => simp [combineResults, makeOrDefault] at hv
      · cases h

/-- a `unit_switch` succeeds only if it has taken its flag -/
theorem unitSwitch_consumes {l : String} {sh : Option String} {lg : String} {st st' : List Arg} {r : Rec} {log : Log} {x : String}
    (h : parseFlag l sh lg (.bool true) (.bool false) st = .ok (st', r, log)) (hr : r = [(x, .bool true)]) : log ≠ [] := by
  unfold parseFlag at h
  cases sh with
  | none =>
    simp at h
    obtain ⟨_, h2, rfl⟩ := h
    subst hr
    have : (flagStep l lg false st).1 = true := by
      cases hb : (flagStep l lg false st).1 <;> simp_all
    exact flagStep_true this
  | some s =>
    simp only at h
    split at h
    · cases h
    · simp at h
      obtain ⟨_, h2, rfl⟩ := h
      subst hr
      cases hb : (flagStep l lg false st).1 with
      | true => have := flagStep_true hb; simp [this]
      | false =>
        cases hb2 : (flagStep l s true (flagStep l lg false st).2.1).1 with
        | true => have := flagStep_true hb2; simp [this]
        | false => simp_all

/-- **consuming parsers consume**: every success logs at least one argument -/
theorem parse_consumes : ∀ (f : Nat) (p : OP) (st : List Arg) (c : Ctx) {st' : List Arg} {r : Rec} {lg : Log},
    p.consuming = true → parse f p st c = .ok (st', r, lg) → lg ≠ [] := by
  intro f
  induction f with
  | zero => intro p st c st' r lg _ h; simp [parse] at h
  | succ f ih =>
    intro p st c st' r lg hc h
    cases p with
    | arg l ty =>
      simp only [parse] at h
      split at h
      · cases h
      · split at h
        · simp at h; obtain ⟨_, _, rfl⟩ := h; simp
        · cases h
    | flag l sh lg' act inact => simp [OP.consuming] at hc
    | opt l sh lg' dflt ty =>
      simp only [parse] at h
      cases dflt with
      | none => exact parseOpt_consumes h
      | some d => simp [OP.consuming] at hc
    | unit l => simp [OP.consuming] at hc
    | unitSwitch l sh lg' =>
      simp only [parse] at h
      split at h
      · cases h
      · rename_i st1 r1 lg1 hf
        split at h
        · simp at h; obtain ⟨_, _, rfl⟩ := h
          exact unitSwitch_consumes hf rfl
        · cases h
    | optional q => simp [OP.consuming] at hc
    | many q => simp [OP.consuming] at hc
    | prod a b =>
      simp only [parse] at h
      split at h
      · cases h
      · rename_i st1 r1 lg1 ha
        split at h
        · cases h
        · rename_i st2 r2 lg2 hb
          simp at h; obtain ⟨_, _, rfl⟩ := h
          simp only [OP.consuming, Bool.or_eq_true] at hc
          rcases hc with hc | hc
          · have := ih a st c hc ha; simp [this]
          · have := ih b st1 c hc hb; simp [this]
    | sum l a b =>
      simp only [OP.consuming, Bool.and_eq_true] at hc
      simp only [parse] at h
      split at h
      · rename_i st1 r1 lg1 ha
        simp at h; obtain ⟨_, _, rfl⟩ := h
        exact ih a st c hc.1 ha
      · cases h
      · split at h
        · rename_i st2 r2 lg2 hb
          simp at h; obtain ⟨_, _, rfl⟩ := h
          exact ih b st c hc.2 hb
        · cases h
    | commands common subs =>
      simp only [parse] at h
      split at h
      · cases h
      · split at h
        · cases h
        · split at h
          · cases h
          · cases h
          · split at h
            · cases h
            · split at h
              · cases h
              · simp at h; obtain ⟨_, _, rfl⟩ := h; simp

theorem parse_shrinks {f : Nat} {p : OP} {st : List Arg} {c : Ctx} {st' : List Arg} {r : Rec} {lg : Log}
    (hc : p.consuming = true) (h : parse f p st c = .ok (st', r, lg)) : st'.length < st.length := by
  have h1 := (parse_acc f p st c h).length_eq
  have h2 := parse_consumes f p st c hc h
  have : 0 < lg.length := List.length_pos_iff.mpr h2
  omega

theorem OP.size_pos (p : OP) : 0 < p.size := by
  cases p <;> simp [OP.size]

theorem findSub_props : ∀ (subs : Subs) {name tag : String} {q : OP},
    findSub name subs = some (tag, q) → q.size ≤ sizeSubs subs ∧ (wfManySubs subs = true → q.wfMany = true)
  | [], _, _, _, h => by simp [findSub] at h
  | (n, t, hh, p) :: r, name, tag, q, h => by
    unfold findSub at h
    split at h
    · simp at h; obtain ⟨rfl, rfl⟩ := h
      refine ⟨by simp [sizeSubs]; omega, fun hw => ?_⟩
      simp only [wfManySubs, Bool.and_eq_true] at hw; exact hw.1
    · obtain ⟨h1, h2⟩ := findSub_props r h
      refine ⟨by simp [sizeSubs]; omega, fun hw => ?_⟩
      simp only [wfManySubs, Bool.and_eq_true] at hw; exact h2 hw.2

theorem fuel_step {n m a s f : Nat} (hn : n ≤ m) (ha : a + 1 ≤ s) (h : (m + 1) * s ≤ f + 1) : (n + 1) * a ≤ f := by
  have h1 : (n + 1) * a ≤ (m + 1) * a := Nat.mul_le_mul_right _ (by omega)
  have h2 : (m + 1) * (a + 1) ≤ (m + 1) * s := Nat.mul_le_mul_left _ ha
  have h3 : (m + 1) * (a + 1) = (m + 1) * a + (m + 1) := Nat.mul_succ _ _
  omega

/-- **Termination**: without `many` around a non-consuming parser, fuel `(|st|+1) * size p` suffices. -/
theorem parse_terminates : ∀ (f : Nat) (p : OP) (st : List Arg) (c : Ctx),
    p.wfMany = true → (st.length + 1) * p.size ≤ f → parse f p st c ≠ .error .diverge := by
  intro f
  induction f with
  | zero =>
    intro p st c _ hb
    have := OP.size_pos p
    have : 0 < (st.length + 1) * p.size := Nat.mul_pos (by omega) this
    omega
  | succ f ih =>
    intro p st c hw hb
    cases p with
    | arg l ty => simp only [parse]; split <;> (try split) <;> simp
    | flag l sh lg' act inact => simp only [parse]; exact parseFlag_ne_diverge _ _ _ _ _ _
    | opt l sh lg' dflt ty => simp only [parse]; exact parseOpt_ne_diverge _ _ _ _ _ _
    | unit l => simp only [parse]; split <;> simp
    | unitSwitch l sh lg' =>
      simp only [parse]
      split
      · rename_i e he; intro h; injection h with h; subst h; exact parseFlag_ne_diverge _ _ _ _ _ _ he
      · split <;> simp
    | optional q =>
      simp only [OP.wfMany] at hw
      simp only [OP.size] at hb
      have hq := ih q st c hw (fuel_step (Nat.le_refl _) (Nat.le_refl _) hb)
      simp only [parse]
      cases h : parse f q st c with
      | error e => cases e <;> simp_all
      | ok t => obtain ⟨st1, r1, lg1⟩ := t; simp
    | many q =>
      simp only [OP.wfMany, Bool.and_eq_true] at hw
      simp only [OP.size] at hb
      have hq := ih q st c hw.2 (fuel_step (Nat.le_refl _) (Nat.le_refl _) hb)
      simp only [parse]
      cases h : parse f q st c with
      | error e => cases e <;> simp_all
      | ok t =>
        obtain ⟨st1, r1, lg1⟩ := t
        have hlt := parse_shrinks hw.1 h
        have hm := ih (.many q) st1 c (by simp [OP.wfMany, hw.1, hw.2]) (by
          simp only [OP.size]
          have : (st1.length + 1) * (q.size + 1) ≤ st.length * (q.size + 1) := Nat.mul_le_mul_right _ (by omega)
          have e2 : (st.length + 1) * (q.size + 1) = st.length * (q.size + 1) + (q.size + 1) := Nat.succ_mul _ _
          omega)
        simp only
        cases h2 : parse f (.many q) st1 c with
        | error e => cases e <;> simp_all
        | ok t2 => obtain ⟨st2, r2, lg2⟩ := t2; simp
    | prod a b =>
      simp only [OP.wfMany, Bool.and_eq_true] at hw
      simp only [OP.size] at hb
      have ha := ih a st c hw.1 (fuel_step (Nat.le_refl _) (by omega) hb)
      simp only [parse]
      cases h : parse f a st c with
      | error e => cases e <;> simp_all
      | ok t =>
        obtain ⟨st1, r1, lg1⟩ := t
        have hle := (parse_acc f a st c h).length_le
        have hb' := ih b st1 c hw.2 (fuel_step hle (by omega) hb)
        simp only
        cases h2 : parse f b st1 c with
        | error e => cases e <;> simp_all
        | ok t2 => obtain ⟨st2, r2, lg2⟩ := t2; simp
    | sum l a b =>
      simp only [OP.wfMany, Bool.and_eq_true] at hw
      simp only [OP.size] at hb
      have ha := ih a st c hw.1 (fuel_step (Nat.le_refl _) (by omega) hb)
      have hb' := ih b st c hw.2 (fuel_step (Nat.le_refl _) (by omega) hb)
      simp only [parse]
      cases h : parse f a st c with
      | ok t => obtain ⟨st1, r1, lg1⟩ := t; simp
      | error e =>
        cases e with
        | diverge => exact absurd h ha
        | other =>
          simp only
          cases h2 : parse f b st c with
          | ok t2 => obtain ⟨st2, r2, lg2⟩ := t2; simp
          | error e2 => cases e2 <;> simp_all [combineErrors]
        | missing m =>
          simp only
          cases h2 : parse f b st c with
          | ok t2 => obtain ⟨st2, r2, lg2⟩ := t2; simp
          | error e2 => cases e2 <;> simp_all [combineErrors]
    | commands common subs =>
      simp only [OP.wfMany, Bool.and_eq_true] at hw
      simp only [OP.size] at hb
      simp only [parse]
      cases hs : splitNext st common.optionNames with
      | none => simp
      | some t =>
        obtain ⟨first, name, second⟩ := t
        have hst := splitNext_eq st _ hs
        have hl : first.length ≤ st.length ∧ second.length ≤ st.length := by
          rw [hst]; simp; omega
        simp only
        cases hfs : findSub name.2 subs with
        | none => simp
        | some tq =>
          obtain ⟨tag, q⟩ := tq
          obtain ⟨hsz, hwq⟩ := findSub_props subs hfs
          have hc := ih common first common.optionNames hw.1
            (fuel_step hl.1 (by omega) hb)
          have hq := ih q second q.optionNames (hwq hw.2)
            (fuel_step hl.2 (by omega) hb)
          simp only
          cases h1 : parse f common first common.optionNames with
          | error e => cases e <;> simp_all
          | ok t1 =>
            obtain ⟨rest, ro, lgo⟩ := t1
            simp only
            split
            · simp
            · cases h2 : parse f q second q.optionNames with
              | error e => cases e <;> simp_all
              | ok t2 => obtain ⟨st2, rq, lgq⟩ := t2; simp

/-- the known finding: `many(switch)` never terminates, whatever the fuel -/
theorem many_switch_diverges : ∀ f : Nat, parse f (.many (OP.switch "a" none "f")) [] [] = .error .diverge
  | 0 => rfl
  | 1 => rfl
  | f + 2 => by
    have ih := many_switch_diverges (f + 1)
    have : parse (f + 1) (OP.switch "a" none "f") [] [] = .ok ([], [("a", .bool false)], []) := rfl
    simp only [parse] at ih ⊢
    simp only [parse] at this
    simp only [OP.switch] at *
    rw [this]
    simp only [ih]

end Fcppt.C03
