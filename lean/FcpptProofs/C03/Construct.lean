import FcpptModel.Spec.C03
/-!
# C03 — the constructors accept exactly the well-formed definitions
-/
namespace Fcppt.C03

theorem bind_ok_iff (x : Except Exc Unit) (y : Unit → Except Exc Unit) :
    (x >>= y) = .ok () ↔ x = .ok () ∧ y () = .ok () := by
  cases x with
  | error e => simp [bind, Except.bind]
  | ok u => cases u; simp [bind, Except.bind]

theorem checkShortLong_iff (sh : Option String) (lg : String) : checkShortLong sh lg = .ok () ↔ sh ≠ some lg := by
  unfold checkShortLong
  cases sh with
  | none => simp
  | some s => by_cases h : s = lg <;> simp [h]

theorem dupFree_iff : ∀ l : List String, dupFree l = true ↔ l.Nodup
  | [] => by simp [dupFree]
  | a :: r => by simp [dupFree, dupFree_iff r]

theorem disjoint_iff (a b : List String) : (a.any (b.contains ·)) = false ↔ ∀ n ∈ a, n ∉ b := by
  simp

mutual
theorem construct_iff : ∀ p : OP, construct p = .ok () ↔ p.WellFormed
  | .arg .. => by simp [construct, OP.WellFormed]
  | .unit .. => by simp [construct, OP.WellFormed]
  | .flag _ sh lg act inact _ => by
    simp only [construct, OP.WellFormed, bind_ok_iff, checkShortLong_iff]
    cases h : act.beqBase inact <;> simp
  | .opt _ sh lg _ _ _ => by simp only [construct, OP.WellFormed, checkShortLong_iff]
  | .unitSwitch _ sh lg => by simp only [construct, OP.WellFormed, checkShortLong_iff]
  | .optional p => by simp only [construct, OP.WellFormed, construct_iff p]
  | .many p => by simp only [construct, OP.WellFormed, construct_iff p]
  | .prod a b => by
    simp only [construct, OP.WellFormed, bind_ok_iff, construct_iff a, construct_iff b]
    cases h : a.allNames.any (b.allNames.contains ·) with
    | false => have := (disjoint_iff _ _).mp h; simp; exact fun _ _ => this
    | true =>
      simp only [if_true, reduceCtorEq, and_false, false_iff, not_and]
      intro _ _ hd
      have h2 := (disjoint_iff _ _).mpr hd
      rw [h] at h2
      cases h2
  | .sum _ a b => by
    simp only [construct, OP.WellFormed, bind_ok_iff, construct_iff a, construct_iff b]
  | .commands c subs => by
    simp only [construct, OP.WellFormed, bind_ok_iff, construct_iff c, constructSubs_iff subs]
    cases h : dupFree (subs.map Prod.fst) with
    | true => have := (dupFree_iff _).mp h; simp [this]
    | false =>
      simp only [Bool.false_eq_true, if_false, reduceCtorEq, and_false, false_iff, not_and]
      intro _ _ hd
      have := (dupFree_iff _).mpr hd
      simp [h] at this
theorem constructSubs_iff : ∀ subs : Subs, constructSubs subs = .ok () ↔ WellFormedSubs subs
  | [] => by simp [constructSubs, WellFormedSubs]
  | (_, _, _, p) :: r => by
    simp only [constructSubs, WellFormedSubs, bind_ok_iff, construct_iff p, constructSubs_iff r]
end

end Fcppt.C03
