import FcpptProofs.C03.NextArg
import FcpptProofs.C03.Leaves
import FcpptProofs.C03.Fuel
/-!
# C03 — the indices are bookkeeping only

The model tags every argument with its original index in order to state the accounting theorems.  Here: the
control flow never looks at an index.  Two states with the same texts give the same result up to indices
(same record, same error kind and text, same texts left over, same leaf labels in the log).
-/
namespace Fcppt.C03

/-- forget the indices -/
def zero (l : List Arg) : List Arg := l.map fun a => (0, a.2)
def zeroLog (l : Log) : Log := l.map fun a => (0, a.2)

def PErr.zero : PErr → PErr
  | .missing st m => .missing (Fcppt.C03.zero st) m
  | e => e

def zeroRes : Res → Res
  | .ok (st, r, lg) => .ok (zero st, r, zeroLog lg)
  | .error e => .error e.zero

theorem zero_eq_iff (a b : List Arg) : zero a = zero b ↔ texts a = texts b := by
  unfold zero texts
  constructor
  · intro h
    have := congrArg (List.map Prod.snd) h
    simpa [List.map_map, Function.comp_def] using this
  · intro h
    have := congrArg (List.map fun s : String => ((0 : Nat), s)) h
    simpa [List.map_map, Function.comp_def] using this

@[simp] theorem zero_nil : zero [] = [] := rfl
@[simp] theorem zero_cons (a : Arg) (l : List Arg) : zero (a :: l) = (0, a.2) :: zero l := rfl
@[simp] theorem zero_append (a b : List Arg) : zero (a ++ b) = zero a ++ zero b := by simp [zero]
@[simp] theorem zeroLog_nil : zeroLog [] = [] := rfl
@[simp] theorem zeroLog_append (a b : Log) : zeroLog (a ++ b) = zeroLog a ++ zeroLog b := by simp [zeroLog]
@[simp] theorem zeroLog_cons (a : Nat × String) (l : Log) : zeroLog (a :: l) = (0, a.2) :: zeroLog l := rfl

theorem zero_isEmpty (a b : List Arg) (h : zero a = zero b) : a.isEmpty = b.isEmpty := by
  cases a <;> cases b <;> simp_all [zero]

theorem texts_eq_of_zero {a b : List Arg} (h : zero a = zero b) : a.map Prod.snd = b.map Prod.snd :=
  (zero_eq_iff a b).mp h

/-- a decomposition of one state carries over to every state with the same texts -/
theorem decompose_of_zero {s1 s2 x1 z1 : List Arg} {y1 : Arg} (h : zero s1 = zero s2) (hs : s1 = x1 ++ y1 :: z1) :
    ∃ x2 y2 z2, s2 = x2 ++ y2 :: z2 ∧ zero x2 = zero x1 ∧ y2.2 = y1.2 ∧ zero z2 = zero z1 := by
  subst hs
  have h' : zero s2 = zero x1 ++ (0, y1.2) :: zero z1 := by rw [← h]; simp
  unfold zero at h'
  obtain ⟨x2, r2, rfl, hx, hr⟩ := List.map_eq_append_iff.mp h'
  obtain ⟨y2, z2, rfl, hy, hz⟩ := List.map_eq_cons_iff.mp hr
  refine ⟨x2, y2, z2, rfl, hx, ?_, hz⟩
  injection hy

/-! ## the leaves -/

def zeroSplit : Option (List Arg × Arg × List Arg) → Option (List Arg × Arg × List Arg)
  | none => none
  | some (x, y, z) => some (zero x, (0, y.2), zero z)

theorem splitNext_zero_some {s1 s2 : List Arg} {c : Ctx} (h : zero s1 = zero s2) {x1 z1 : List Arg} {y1 : Arg}
    (h1 : splitNext s1 c = some (x1, y1, z1)) :
    ∃ x2 y2 z2, splitNext s2 c = some (x2, y2, z2) ∧ zero x2 = zero x1 ∧ y2.2 = y1.2 ∧ zero z2 = zero z1 := by
  have he := splitNext_eq s1 c h1
  obtain ⟨hs, hf⟩ := splitNext_sound s1 c h1
  obtain ⟨x2, y2, z2, rfl, hx, hy, hz⟩ := decompose_of_zero h he
  refine ⟨x2, y2, z2, splitNext_complete x2 y2 z2 c ?_ ?_, hx, hy, hz⟩
  · rw [show texts x2 = texts x1 from (zero_eq_iff _ _).mp hx]; exact hs
  · rw [hy]; exact hf

theorem splitNext_zero {s1 s2 : List Arg} (c : Ctx) (h : zero s1 = zero s2) :
    zeroSplit (splitNext s1 c) = zeroSplit (splitNext s2 c) := by
  cases h1 : splitNext s1 c with
  | some t =>
    obtain ⟨x1, y1, z1⟩ := t
    obtain ⟨x2, y2, z2, h2, hx, hy, hz⟩ := splitNext_zero_some h h1
    simp [h2, zeroSplit, hx, hy, hz]
  | none =>
    cases h2 : splitNext s2 c with
    | none => rfl
    | some t =>
      obtain ⟨x2, y2, z2⟩ := t
      obtain ⟨x1, y1, z1, h1', _⟩ := splitNext_zero_some h.symm h2
      rw [h1] at h1'; cases h1'

theorem splitFind_zero_some (text : String) {s1 s2 : List Arg} (h : zero s1 = zero s2) {x1 z1 : List Arg} {y1 : Arg}
    (h1 : splitFind text s1 = some (x1, y1, z1)) :
    ∃ x2 y2 z2, splitFind text s2 = some (x2, y2, z2) ∧ zero x2 = zero x1 ∧ y2.2 = y1.2 ∧ zero z2 = zero z1 := by
  obtain ⟨he, hy1, hx1⟩ := (splitFind_iff _ _ _ _ _).mp h1
  obtain ⟨x2, y2, z2, rfl, hx, hy, hz⟩ := decompose_of_zero h he
  refine ⟨x2, y2, z2, splitFind_complete text x2 y2 z2 (by rw [hy, hy1]) ?_, hx, hy, hz⟩
  intro a ha
  have ht : texts x2 = texts x1 := (zero_eq_iff _ _).mp hx
  have : a.2 ∈ texts x1 := by rw [← ht]; exact List.mem_map_of_mem ha
  obtain ⟨b, hb, hb2⟩ := List.mem_map.mp this
  rw [← hb2]; exact hx1 b hb

theorem splitFind_zero (text : String) {s1 s2 : List Arg} (h : zero s1 = zero s2) :
    zeroSplit (splitFind text s1) = zeroSplit (splitFind text s2) := by
  cases h1 : splitFind text s1 with
  | some t =>
    obtain ⟨x1, y1, z1⟩ := t
    obtain ⟨x2, y2, z2, h2, hx, hy, hz⟩ := splitFind_zero_some text h h1
    simp [h2, zeroSplit, hx, hy, hz]
  | none =>
    cases h2 : splitFind text s2 with
    | none => rfl
    | some t =>
      obtain ⟨x2, y2, z2⟩ := t
      obtain ⟨x1, y1, z1, h1', _⟩ := splitFind_zero_some text h.symm h2
      rw [h1] at h1'; cases h1'

theorem zeroSplit_cases {a b : Option (List Arg × Arg × List Arg)} (h : zeroSplit a = zeroSplit b) :
    (a = none ∧ b = none) ∨
    ∃ x1 y1 z1 x2 y2 z2, a = some (x1, y1, z1) ∧ b = some (x2, y2, z2) ∧ zero x1 = zero x2 ∧ y1.2 = y2.2 ∧ zero z1 = zero z2 := by
  cases a with
  | none => cases b with
    | none => exact .inl ⟨rfl, rfl⟩
    | some t => obtain ⟨x, y, z⟩ := t; simp [zeroSplit] at h
  | some t =>
    obtain ⟨x1, y1, z1⟩ := t
    cases b with
    | none => simp [zeroSplit] at h
    | some t2 =>
      obtain ⟨x2, y2, z2⟩ := t2
      simp only [zeroSplit, Option.some.injEq, Prod.mk.injEq] at h
      obtain ⟨hx, ⟨_, hy⟩, hz⟩ := h
      exact .inr ⟨x1, y1, z1, x2, y2, z2, rfl, rfl, hx, hy, hz⟩

theorem flagStep_zero (l name : String) (sh : Bool) {s1 s2 : List Arg} (h : zero s1 = zero s2) :
    (flagStep l name sh s1).1 = (flagStep l name sh s2).1 ∧
    zero (flagStep l name sh s1).2.1 = zero (flagStep l name sh s2).2.1 ∧
    zeroLog (flagStep l name sh s1).2.2 = zeroLog (flagStep l name sh s2).2.2 := by
  unfold flagStep useFlag
  rcases zeroSplit_cases (splitFind_zero (flagName name sh) h) with ⟨h1, h2⟩ | ⟨x1, y1, z1, x2, y2, z2, h1, h2, hx, hy, hz⟩
  · simp [h1, h2, h]
  · simp [h1, h2, hx, hz]

theorem parseFlag_zero (l : String) (sh : Option String) (lg : String) (act inact : Val) {s1 s2 : List Arg}
    (h : zero s1 = zero s2) : zeroRes (parseFlag l sh lg act inact s1) = zeroRes (parseFlag l sh lg act inact s2) := by
  unfold parseFlag
  obtain ⟨a1, a2, a3⟩ := flagStep_zero l lg false h
  cases sh with
  | none => simp only [zeroRes, a1, a2, a3]
  | some s =>
    obtain ⟨b1, b2, b3⟩ := flagStep_zero l s true a2
    simp only [a1, b1]
    split
    · rfl
    · simp only [zeroRes, zeroLog_append, a3, b2, b3]

theorem optStep_zero (l name : String) (sh : Bool) {s1 s2 : List Arg} (h : zero s1 = zero s2) :
    (optStep l name sh s1).1 = (optStep l name sh s2).1 ∧
    zero (optStep l name sh s1).2.1 = zero (optStep l name sh s2).2.1 ∧
    zeroLog (optStep l name sh s1).2.2 = zeroLog (optStep l name sh s2).2.2 := by
  unfold optStep useOption
  rcases zeroSplit_cases (splitFind_zero (flagName name sh) h) with ⟨h1, h2⟩ | ⟨x1, y1, z1, x2, y2, z2, h1, h2, hx, hy, hz⟩
  · simp [h1, h2, h]
  · rw [h1, h2]
    cases z1 with
    | nil =>
      cases z2 with
      | nil => simp [h]
      | cons v2 r2 => simp at hz
    | cons v1 r1 =>
      cases z2 with
      | nil => simp at hz
      | cons v2 r2 =>
        simp only [zero_cons, List.cons.injEq, Prod.mk.injEq, true_and] at hz
        simp [hx, hz.1, hz.2]

theorem makeOrDefault_zero (sh : Option String) (lg : String) (d : Option Val) (ty : VTy) {c1 c2 : List Arg} (o : Option String)
    (h : zero c1 = zero c2) :
    (makeOrDefault sh lg d ty c1 o).mapError PErr.zero = (makeOrDefault sh lg d ty c2 o).mapError PErr.zero := by
  unfold makeOrDefault
  cases o with
  | some s => rfl
  | none =>
    cases d with
    | some v => rfl
    | none => simp [Except.mapError, PErr.zero, h]

theorem combineResults_zero (sh : Option String) (lg : String) (d : Option Val) (ty : VTy) {c1 c2 : List Arg} (lo so : Option String)
    (h : zero c1 = zero c2) :
    (combineResults sh lg d ty c1 lo so).mapError PErr.zero = (combineResults sh lg d ty c2 lo so).mapError PErr.zero := by
  unfold combineResults
  cases lo with
  | none => exact makeOrDefault_zero sh lg d ty so h
  | some lv => rfl

theorem parseOpt_zero (l : String) (sh : Option String) (lg : String) (d : Option Val) (ty : VTy) {s1 s2 : List Arg}
    (h : zero s1 = zero s2) : zeroRes (parseOpt l sh lg d ty s1) = zeroRes (parseOpt l sh lg d ty s2) := by
  unfold parseOpt
  obtain ⟨a1, a2, a3⟩ := optStep_zero l lg false h
  cases sh with
  | none =>
    simp only [a1]
    cases h1 : (optStep l lg false s2).1 with
    | error e => rfl
    | ok o =>
      have := makeOrDefault_zero none lg d ty o a2
      simp only
      cases hm1 : makeOrDefault none lg d ty (optStep l lg false s1).2.1 o with
      | ok v =>
        cases hm2 : makeOrDefault none lg d ty (optStep l lg false s2).2.1 o with
        | ok v2 =>
          rw [hm1, hm2] at this
          simp only [Except.mapError, Except.ok.injEq] at this
          simp only [zeroRes, a2, a3, this]
        | error e2 => rw [hm1, hm2] at this; simp [Except.mapError] at this
      | error e1 =>
        cases hm2 : makeOrDefault none lg d ty (optStep l lg false s2).2.1 o with
        | ok v2 => rw [hm1, hm2] at this; simp [Except.mapError] at this
        | error e2 =>
          rw [hm1, hm2] at this
          simp only [Except.mapError, Except.error.injEq] at this
          simp only [zeroRes, this]
  | some s =>
    obtain ⟨b1, b2, b3⟩ := optStep_zero l s true a2
    simp only [a1, b1]
    cases h1 : (optStep l lg false s2).1 with
    | error e => rfl
    | ok lo =>
      cases h2 : (optStep l s true (optStep l lg false s2).2.1).1 with
      | error e => rfl
      | ok so =>
        have := combineResults_zero (some s) lg d ty lo so b2
        simp only
        cases hm1 : combineResults (some s) lg d ty (optStep l s true (optStep l lg false s1).2.1).2.1 lo so with
        | ok v =>
          cases hm2 : combineResults (some s) lg d ty (optStep l s true (optStep l lg false s2).2.1).2.1 lo so with
          | ok v2 =>
            rw [hm1, hm2] at this
            simp only [Except.mapError, Except.ok.injEq] at this
            simp only [zeroRes, zeroLog_append, a3, b2, b3, this]
          | error e2 => rw [hm1, hm2] at this; simp [Except.mapError] at this
        | error e1 =>
          cases hm2 : combineResults (some s) lg d ty (optStep l s true (optStep l lg false s2).2.1).2.1 lo so with
          | ok v2 => rw [hm1, hm2] at this; simp [Except.mapError] at this
          | error e2 =>
            rw [hm1, hm2] at this
            simp only [Except.mapError, Except.error.injEq] at this
            simp only [zeroRes, this]

/-! ## the interpreter -/

theorem PErr.zero_msg (e : PErr) : e.zero.msg = e.msg := by cases e <;> rfl

theorem PErr.zero_cases {e1 e2 : PErr} (h : e1.zero = e2.zero) :
    (∃ a b m, e1 = .missing a m ∧ e2 = .missing b m ∧ Fcppt.C03.zero a = Fcppt.C03.zero b) ∨
    (∃ m, e1 = .other m ∧ e2 = .other m) ∨ (e1 = .diverge ∧ e2 = .diverge) := by
  cases e1 <;> cases e2 <;> simp [PErr.zero] at h
  · obtain ⟨h1, h2⟩ := h; subst h2; exact .inl ⟨_, _, _, rfl, rfl, h1⟩
  · subst h; exact .inr (.inl ⟨_, rfl, rfl⟩)
  · exact .inr (.inr ⟨rfl, rfl⟩)

theorem zeroRes_cases {A B : Res} (h : zeroRes A = zeroRes B) :
    (∃ t1 r l1 t2 l2, A = .ok (t1, r, l1) ∧ B = .ok (t2, r, l2) ∧ zero t1 = zero t2 ∧ zeroLog l1 = zeroLog l2) ∨
    (∃ e1 e2, A = .error e1 ∧ B = .error e2 ∧ e1.zero = e2.zero) := by
  cases A with
  | ok a =>
    obtain ⟨t1, r1, l1⟩ := a
    cases B with
    | ok b =>
      obtain ⟨t2, r2, l2⟩ := b
      simp only [zeroRes, Except.ok.injEq, Prod.mk.injEq] at h
      obtain ⟨h1, h2, h3⟩ := h
      subst h2
      exact .inl ⟨t1, r1, l1, t2, l2, rfl, rfl, h1, h3⟩
    | error e => simp [zeroRes] at h
  | error e1 =>
    cases B with
    | ok b => obtain ⟨t2, r2, l2⟩ := b; simp [zeroRes] at h
    | error e2 =>
      simp only [zeroRes, Except.error.injEq] at h
      exact .inr ⟨e1, e2, rfl, rfl, h⟩

theorem leftoverText_zero {a b : List Arg} (h : zero a = zero b) : leftoverText a = leftoverText b := by
  unfold leftoverText
  rw [texts_eq_of_zero h]

/-- **index irrelevance**: states with the same texts give the same result up to the indices -/
theorem parse_zero : ∀ (f : Nat) (p : OP) (s1 s2 : List Arg) (c : Ctx),
    zero s1 = zero s2 → zeroRes (parse f p s1 c) = zeroRes (parse f p s2 c) := by
  intro f
  induction f with
  | zero => intro p s1 s2 c _; rfl
  | succ f ih =>
    intro p s1 s2 c h
    cases p with
    | arg l ty nm help =>
      rw [parse_arg_eq, parse_arg_eq]
      unfold popArg
      rcases zeroSplit_cases (splitNext_zero c h) with ⟨h1, h2⟩ | ⟨x1, y1, z1, x2, y2, z2, h1, h2, hx, hy, hz⟩
      · simp [h1, h2, zeroRes, PErr.zero, h]
      · simp only [h1, h2, Option.map_some, hy]
        cases convert ty y2.2 with
        | some v => simp [zeroRes, hx, hz]
        | none => rfl
    | flag l sh lg act inact help => rw [parse_flag_eq, parse_flag_eq]; exact parseFlag_zero l sh lg act inact h
    | opt l sh lg d ty help => rw [parse_opt_eq, parse_opt_eq]; exact parseOpt_zero l sh lg d ty h
    | unit l =>
      rw [parse_unit_eq, parse_unit_eq, zero_isEmpty _ _ h]
      split
      · simp [zeroRes, h]
      · rfl
    | unitSwitch l sh lg =>
      rw [parse_unitSwitch_eq, parse_unitSwitch_eq]
      rcases zeroRes_cases (parseFlag_zero l sh lg (.bool true) (.bool false) h) with
        ⟨t1, r, l1, t2, l2, hA, hB, ht, hl⟩ | ⟨e1, e2, hA, hB, he⟩
      · rw [hA, hB]
        simp only
        split
        · simp [zeroRes, ht, hl]
        · simp [zeroRes, PErr.zero, ht]
      · rw [hA, hB]; simp [zeroRes, he]
    | optional q =>
      rw [parse_optional_eq, parse_optional_eq]
      rcases zeroRes_cases (ih q s1 s2 c h) with ⟨t1, r, l1, t2, l2, hA, hB, ht, hl⟩ | ⟨e1, e2, hA, hB, he⟩
      · rw [hA, hB]; simp [zeroRes, ht, hl]
      · rw [hA, hB]
        rcases PErr.zero_cases he with ⟨a, b, m, rfl, rfl, _⟩ | ⟨m, rfl, rfl⟩ | ⟨rfl, rfl⟩
        · simp [zeroRes, h]
        · rfl
        · rfl
    | many q =>
      rw [parse_many_eq, parse_many_eq]
      rcases zeroRes_cases (ih q s1 s2 c h) with ⟨t1, r, l1, t2, l2, hA, hB, ht, hl⟩ | ⟨e1, e2, hA, hB, he⟩
      · rw [hA, hB]
        simp only
        rcases zeroRes_cases (ih (.many q) t1 t2 c ht) with ⟨u1, r', m1, u2, m2, hC, hD, hu, hm⟩ | ⟨e1, e2, hC, hD, he⟩
        · rw [hC, hD]; simp [zeroRes, hu, hl, hm]
        · rw [hC, hD]; simp [zeroRes, he]
      · rw [hA, hB]
        rcases PErr.zero_cases he with ⟨a, b, m, rfl, rfl, _⟩ | ⟨m, rfl, rfl⟩ | ⟨rfl, rfl⟩
        · simp [zeroRes, h]
        · rfl
        · rfl
    | prod a b =>
      rw [parse_prod_eq, parse_prod_eq]
      rcases zeroRes_cases (ih a s1 s2 c h) with ⟨t1, r, l1, t2, l2, hA, hB, ht, hl⟩ | ⟨e1, e2, hA, hB, he⟩
      · rw [hA, hB]
        simp only
        rcases zeroRes_cases (ih b t1 t2 c ht) with ⟨u1, r', m1, u2, m2, hC, hD, hu, hm⟩ | ⟨e1, e2, hC, hD, he⟩
        · rw [hC, hD]; simp [zeroRes, hu, hl, hm]
        · rw [hC, hD]; simp [zeroRes, he]
      · rw [hA, hB]; simp [zeroRes, he]
    | sum l a b =>
      rw [parse_sum_eq, parse_sum_eq]
      rcases zeroRes_cases (ih a s1 s2 c h) with ⟨t1, r, l1, t2, l2, hA, hB, ht, hl⟩ | ⟨e1, e2, hA, hB, he⟩
      · rw [hA, hB]; simp [zeroRes, ht, hl]
      · rw [hA, hB]
        have hb := ih b s1 s2 c h
        rcases PErr.zero_cases he with ⟨x, y, m, rfl, rfl, hxy⟩ | ⟨m, rfl, rfl⟩ | ⟨rfl, rfl⟩
        · simp only
          rcases zeroRes_cases hb with ⟨u1, r', m1, u2, m2, hC, hD, hu, hm⟩ | ⟨e1, e2, hC, hD, he2⟩
          · rw [hC, hD]; simp [zeroRes, hu, hm]
          · rw [hC, hD]
            rcases PErr.zero_cases he2 with ⟨x', y', m', rfl, rfl, hxy'⟩ | ⟨m', rfl, rfl⟩ | ⟨rfl, rfl⟩
            · simp [zeroRes, combineErrors, PErr.zero, hxy']
            · rfl
            · rfl
        · simp only
          rcases zeroRes_cases hb with ⟨u1, r', m1, u2, m2, hC, hD, hu, hm⟩ | ⟨e1, e2, hC, hD, he2⟩
          · rw [hC, hD]; simp [zeroRes, hu, hm]
          · rw [hC, hD]
            rcases PErr.zero_cases he2 with ⟨x', y', m', rfl, rfl, hxy'⟩ | ⟨m', rfl, rfl⟩ | ⟨rfl, rfl⟩
            · rfl
            · rfl
            · rfl
        · rfl
    | commands common subs =>
      rw [parse_commands_eq, parse_commands_eq]
      rcases zeroSplit_cases (splitNext_zero common.optionNames h) with ⟨h1, h2⟩ | ⟨x1, y1, z1, x2, y2, z2, h1, h2, hx, hy, hz⟩
      · simp [h1, h2, zeroRes, PErr.zero, h]
      · rw [h1, h2]
        simp only [hy]
        cases findSub y2.2 subs with
        | none => rfl
        | some tq =>
          obtain ⟨tag, q⟩ := tq
          simp only
          rcases zeroRes_cases (ih common x1 x2 common.optionNames hx) with ⟨t1, r, l1, t2, l2, hA, hB, ht, hl⟩ | ⟨e1, e2, hA, hB, he⟩
          · rw [hA, hB]
            simp only [zero_isEmpty _ _ ht, leftoverText_zero ht]
            split
            · rfl
            · rcases zeroRes_cases (ih q z1 z2 q.optionNames hz) with ⟨u1, r', m1, u2, m2, hC, hD, hu, hm⟩ | ⟨e1, e2, hC, hD, he⟩
              · rw [hC, hD]; simp [zeroRes, hu, hl, hm]
              · rw [hC, hD]; simp [zeroRes, he]
          · rw [hA, hB]
            have hm : e1.msg = e2.msg := by rw [← PErr.zero_msg e1, ← PErr.zero_msg e2, he]
            rcases PErr.zero_cases he with ⟨x', y', m', rfl, rfl, _⟩ | ⟨m', rfl, rfl⟩ | ⟨rfl, rfl⟩
            · rfl
            · rfl
            · rfl

end Fcppt.C03
