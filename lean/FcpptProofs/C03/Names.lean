import FcpptModel.Model.C03
/-!
# C03 — `operator<` of `option_name` is a strict total order compatible with `operator==`
(what `std::set<option_name>` — the `parse_context` — relies on)
-/
namespace Fcppt.C03

theorem strLt_irrefl (a : String) : strLt a a = false := by
  simp [strLt]

theorem strLt_asymm {a b : String} (h : strLt a b = true) : strLt b a = false := by
  simp only [strLt, decide_eq_true_eq, decide_eq_false_iff_not, String.lt_iff] at *
  exact List.lt_asymm h

theorem strLt_trans {a b c : String} (h1 : strLt a b = true) (h2 : strLt b c = true) : strLt a c = true := by
  simp only [strLt, decide_eq_true_eq, String.lt_iff] at *
  exact List.lt_trans h1 h2

theorem strLt_total {a b : String} (hne : a ≠ b) (h : strLt a b = false) : strLt b a = true := by
  simp only [strLt, decide_eq_true_eq, decide_eq_false_iff_not, String.lt_iff] at *
  have h1 : b.toList ≤ a.toList := List.not_lt.mp h
  rcases List.le_iff_lt_or_eq.mp h1 with h2 | h2
  · exact h2
  · exact absurd (String.toList_inj.mp h2).symm hne

theorem optLt_irrefl (a : String × Bool) : optLt a a = false := by
  obtain ⟨n, s⟩ := a
  cases s <;> simp [optLt, strLt_irrefl]

theorem optLt_asymm {a b : String × Bool} (h : optLt a b = true) : optLt b a = false := by
  obtain ⟨n, s⟩ := a
  obtain ⟨m, t⟩ := b
  simp only [optLt, Bool.or_eq_true, Bool.and_eq_true, beq_iff_eq, Bool.not_eq_true'] at h
  rcases h with h | ⟨rfl, hs, ht⟩
  · have h1 := strLt_asymm h
    have hne : m ≠ n := by rintro rfl; rw [strLt_irrefl] at h; cases h
    simp [optLt, h1, hne]
  · subst hs ht; simp [optLt, strLt_irrefl]

theorem optLt_trans {a b c : String × Bool} (h1 : optLt a b = true) (h2 : optLt b c = true) : optLt a c = true := by
  obtain ⟨n, s⟩ := a
  obtain ⟨m, t⟩ := b
  obtain ⟨k, u⟩ := c
  simp only [optLt, Bool.or_eq_true, Bool.and_eq_true, beq_iff_eq, Bool.not_eq_true'] at h1 h2 ⊢
  rcases h1 with h1 | ⟨rfl, hs, ht⟩
  · rcases h2 with h2 | ⟨rfl, _, _⟩
    · exact .inl (strLt_trans h1 h2)
    · exact .inl h1
  · rcases h2 with h2 | ⟨rfl, ht', _⟩
    · exact .inl h2
    · rw [ht] at ht'; cases ht'

theorem optLt_total {a b : String × Bool} (hne : a ≠ b) (h : optLt a b = false) : optLt b a = true := by
  obtain ⟨n, s⟩ := a
  obtain ⟨m, t⟩ := b
  simp only [optLt, Bool.or_eq_false_iff, Bool.and_eq_false_iff] at h
  obtain ⟨h1, h2⟩ := h
  by_cases hnm : n = m
  · subst hnm
    have hst : s ≠ t := fun h => hne (by rw [h])
    cases s <;> cases t <;> simp_all [optLt]
  · have := strLt_total hnm h1
    simp [optLt, this]

/-- `operator==` holds exactly when neither operand is less than the other -/
theorem optLt_eq_iff (a b : String × Bool) : a = b ↔ optLt a b = false ∧ optLt b a = false := by
  constructor
  · rintro rfl; exact ⟨optLt_irrefl a, optLt_irrefl a⟩
  · rintro ⟨h1, h2⟩
    by_cases h : a = b
    · exact h
    · rw [optLt_total h h1] at h2; cases h2

/-! ## the sets have the members of the lists they are made from -/

theorem mem_insertSet {α : Type} [BEq α] [LawfulBEq α] (lt : α → α → Bool) (x y : α) :
    ∀ l : List α, y ∈ insertSet lt x l ↔ y = x ∨ y ∈ l
  | [] => by simp [insertSet]
  | z :: r => by
    unfold insertSet
    by_cases hxz : (x == z) = true
    · have : x = z := by simpa using hxz
      subst this
      simp
    · simp only [hxz, Bool.false_eq_true, if_false]
      by_cases hlt : lt x z = true
      · simp [hlt]
      · simp only [hlt, Bool.false_eq_true, if_false, List.mem_cons, mem_insertSet lt x y r]
        constructor
        · rintro (h | h | h)
          · exact .inr (.inl h)
          · exact .inl h
          · exact .inr (.inr h)
        · rintro (h | h | h)
          · exact .inr (.inl h)
          · exact .inl h
          · exact .inr (.inr h)

theorem mem_toSet {α : Type} [BEq α] [LawfulBEq α] (lt : α → α → Bool) (y : α) : ∀ l : List α, y ∈ toSet lt l ↔ y ∈ l
  | [] => by simp [toSet]
  | x :: r => by
    have ih := mem_toSet lt y r
    simp only [toSet, List.foldr_cons] at ih ⊢
    rw [mem_insertSet, ih]
    simp

end Fcppt.C03
