import FcpptProofs.C03.Acc
/-!
# C03 — the accounting invariant through every combinator (induction on the fuel)
-/
namespace Fcppt.C03

theorem flagStep_acc (l name : String) (sh : Bool) (st : List Arg) :
    Acc st (flagStep l name sh st).2.1 (flagStep l name sh st).2.2 := by
  unfold flagStep
  cases h : useFlag name sh st with
  | none => exact Acc.refl _
  | some t => obtain ⟨a, st'⟩ := t; exact useFlag_acc l h

theorem optStep_acc (l name : String) (sh : Bool) (st : List Arg) :
    Acc st (optStep l name sh st).2.1 (optStep l name sh st).2.2 := by
  unfold optStep
  cases h : useOption name sh st with
  | notFound => exact Acc.refl _
  | missingArgument => exact Acc.refl _
  | found n v st' => exact useOption_acc l h

/-- where a successful `flag::parse` leaves the state and what it logs -/
theorem parseFlag_ok {l : String} {sh : Option String} {lg : String} {act inact : Val} {st st' : List Arg}
    {r : Rec} {log : Log} (h : parseFlag l sh lg act inact st = .ok (st', r, log)) :
    (sh = none ∧ st' = (flagStep l lg false st).2.1 ∧ log = (flagStep l lg false st).2.2) ∨
    (∃ s, sh = some s ∧ st' = (flagStep l s true (flagStep l lg false st).2.1).2.1 ∧
      log = (flagStep l lg false st).2.2 ++ (flagStep l s true (flagStep l lg false st).2.1).2.2) := by
  unfold parseFlag at h
  cases sh with
  | none => simp at h; exact .inl ⟨rfl, h.1.symm, h.2.2.symm⟩
  | some s =>
    simp only at h
    split at h
    · cases h
    · simp at h; exact .inr ⟨s, rfl, h.1.symm, h.2.2.symm⟩

theorem parseFlag_acc {l : String} {sh : Option String} {lg : String} {act inact : Val} {st st' : List Arg}
    {r : Rec} {log : Log} (h : parseFlag l sh lg act inact st = .ok (st', r, log)) : Acc st st' log := by
  rcases parseFlag_ok h with ⟨_, rfl, rfl⟩ | ⟨s, _, rfl, rfl⟩
  · exact flagStep_acc ..
  · exact (flagStep_acc ..).trans (flagStep_acc ..)

theorem parseOpt_ok {l : String} {sh : Option String} {lg : String} {dflt : Option Val} {ty : VTy} {st st' : List Arg}
    {r : Rec} {log : Log} (h : parseOpt l sh lg dflt ty st = .ok (st', r, log)) :
    (sh = none ∧ st' = (optStep l lg false st).2.1 ∧ log = (optStep l lg false st).2.2) ∨
    (∃ s, sh = some s ∧ st' = (optStep l s true (optStep l lg false st).2.1).2.1 ∧
      log = (optStep l lg false st).2.2 ++ (optStep l s true (optStep l lg false st).2.1).2.2) := by
  unfold parseOpt at h
  cases sh with
  | none =>
    simp only at h
    split at h
    · cases h
    · split at h
      · simp at h; exact .inl ⟨rfl, h.1.symm, h.2.2.symm⟩
      · cases h
  | some s =>
    simp only at h
    split at h
    · cases h
    · cases h
    · split at h
      · simp at h; exact .inr ⟨s, rfl, h.1.symm, h.2.2.symm⟩
      · cases h

theorem parseOpt_acc {l : String} {sh : Option String} {lg : String} {dflt : Option Val} {ty : VTy} {st st' : List Arg}
    {r : Rec} {log : Log} (h : parseOpt l sh lg dflt ty st = .ok (st', r, log)) : Acc st st' log := by
  rcases parseOpt_ok h with ⟨_, rfl, rfl⟩ | ⟨s, _, rfl, rfl⟩
  · exact optStep_acc ..
  · exact (optStep_acc ..).trans (optStep_acc ..)

/-- **The invariant**: every successful `parse` accounts for its arguments. -/
theorem parse_acc : ∀ (f : Nat) (p : OP) (st : List Arg) (c : Ctx) {st' : List Arg} {r : Rec} {lg : Log},
    parse f p st c = .ok (st', r, lg) → Acc st st' lg := by
  intro f
  induction f with
  | zero => intro p st c st' r lg h; simp [parse] at h
  | succ f ih =>
    intro p st c st' r lg h
    cases p with
    | arg l ty =>
      simp only [parse] at h
      cases hp : popArg st c with
      | none => simp [hp] at h
      | some t =>
        obtain ⟨a, st1⟩ := t
        simp only [hp] at h
        split at h
        · injection h with h; injection h with h1 h2; injection h2 with h2 h3; subst h1 h3
          exact popArg_acc l hp
        · cases h
    | flag l sh lg' act inact => simp only [parse] at h; exact parseFlag_acc h
    | opt l sh lg' dflt ty => simp only [parse] at h; exact parseOpt_acc h
    | unit l =>
      simp only [parse] at h
      split at h
      · injection h with h; injection h with h1 h2; injection h2 with h2 h3; subst h1 h3; exact Acc.refl _
      · cases h
    | unitSwitch l sh lg' =>
      simp only [parse] at h
      cases hf : parseFlag l sh lg' (.bool true) (.bool false) st with
      | error e => simp [hf] at h
      | ok t =>
        obtain ⟨st1, r1, lg1⟩ := t
        simp only [hf] at h
        split at h
        · injection h with h; injection h with h1 h2; injection h2 with h2 h3; subst h1 h3
          exact parseFlag_acc hf
        · cases h
    | optional q =>
      simp only [parse] at h
      cases hq : parse f q st c with
      | error e =>
        cases e <;> simp [hq] at h
        obtain ⟨rfl, _, rfl⟩ := h; exact Acc.refl _
      | ok t =>
        obtain ⟨st1, r1, lg1⟩ := t
        simp [hq] at h
        obtain ⟨rfl, _, rfl⟩ := h
        exact ih q st c hq
    | many q =>
      simp only [parse] at h
      cases hq : parse f q st c with
      | error e =>
        cases e <;> simp [hq] at h
        obtain ⟨rfl, _, rfl⟩ := h; exact Acc.refl _
      | ok t =>
        obtain ⟨st1, r1, lg1⟩ := t
        simp only [hq] at h
        cases hm : parse f (.many q) st1 c with
        | error e => simp [hm] at h
        | ok t2 =>
          obtain ⟨st2, r2, lg2⟩ := t2
          simp [hm] at h
          obtain ⟨rfl, _, rfl⟩ := h
          exact (ih q st c hq).trans (ih _ st1 c hm)
    | prod a b =>
      simp only [parse] at h
      cases ha : parse f a st c with
      | error e => simp [ha] at h
      | ok t =>
        obtain ⟨st1, r1, lg1⟩ := t
        simp only [ha] at h
        cases hb : parse f b st1 c with
        | error e => simp [hb] at h
        | ok t2 =>
          obtain ⟨st2, r2, lg2⟩ := t2
          simp [hb] at h
          obtain ⟨rfl, _, rfl⟩ := h
          exact (ih a st c ha).trans (ih b st1 c hb)
    | sum l a b =>
      simp only [parse] at h
      cases ha : parse f a st c with
      | ok t =>
        obtain ⟨st1, r1, lg1⟩ := t
        simp [ha] at h
        obtain ⟨rfl, _, rfl⟩ := h
        exact ih a st c ha
      | error e =>
        cases e with
        | diverge => simp [ha] at h
        | other =>
          simp only [ha] at h
          cases hb : parse f b st c with
          | error e2 => simp [hb] at h
          | ok t2 =>
            obtain ⟨st2, r2, lg2⟩ := t2
            simp [hb] at h
            obtain ⟨rfl, _, rfl⟩ := h
            exact ih b st c hb
        | missing m =>
          simp only [ha] at h
          cases hb : parse f b st c with
          | error e2 => simp [hb] at h
          | ok t2 =>
            obtain ⟨st2, r2, lg2⟩ := t2
            simp [hb] at h
            obtain ⟨rfl, _, rfl⟩ := h
            exact ih b st c hb
    | commands common subs =>
      simp only [parse] at h
      cases hs : splitNext st common.optionNames with
      | none => simp [hs] at h
      | some t =>
        obtain ⟨first, name, second⟩ := t
        simp only [hs] at h
        cases hfs : findSub name.2 subs with
        | none => simp [hfs] at h
        | some tq =>
          obtain ⟨tag, q⟩ := tq
          simp only [hfs] at h
          cases hc : parse f common first common.optionNames with
          | error e => cases e <;> simp [hc] at h
          | ok t1 =>
            obtain ⟨rest, ro, lgo⟩ := t1
            simp only [hc] at h
            split at h
            · cases h
            · rename_i hrest
              cases hq : parse f q second q.optionNames with
              | error e => simp [hq] at h
              | ok t2 =>
                obtain ⟨st2, rq, lgq⟩ := t2
                simp [hq] at h
                obtain ⟨rfl, _, rfl⟩ := h
                have h1 := ih common first _ hc
                have h2 := ih q second _ hq
                have hre : rest = [] := by
                  cases rest with
                  | nil => rfl
                  | cons a b => simp at hrest
                subst hre
                rw [splitNext_eq st _ hs]
                refine ⟨?_, ?_⟩
                · exact (h2.sub.trans (List.sublist_cons_self _ _)).trans (List.sublist_append_right _ _)
                · have p1 := List.perm_iff_count.mp h1.perm
                  have p2 := List.perm_iff_count.mp h2.perm
                  refine List.perm_iff_count.mpr fun a => ?_
                  have := p1 a; have := p2 a
                  simp only [idx_nil, List.nil_append, idx_append, idx_cons, lidx_append, lidx_cons, List.count_append,
                    List.count_cons] at *
                  omega

end Fcppt.C03
