import FcpptProofs.C11.Main
/-!
# C11 — signals: the connection list of a signal is an intrusive list
-/
set_option linter.unusedSimpArgs false
set_option linter.unusedVariables false
namespace Fcppt.C11
open Spec

/-- the node an operation creates -/
def created : Op → Option Node
  | .newList k => some (.head k)
  | .newElem e _ => some (.elem e)
  | .moveCtor e' _ => some (.elem e')
  | .listMoveCtor k' _ => some (.head k')
  | _ => none

/-- an operation adds at most the node it creates -/
theorem nodes_step {R : Rings} (wf : Wf R) (op : Op) (hv : valid R op = true) {n : Node}
    (h : n ∈ nodes (Spec.step R op)) : n ∈ nodes R ∨ created op = some n := by
  cases op with
  | newList k =>
    rcases nodes_cons.1 h with h | h
    · simp at h; exact Or.inr (by simp [created, h])
    · exact Or.inl h
  | newElem e k =>
    simp only [valid, Bool.and_eq_true, decide_eq_true_eq] at hv
    obtain ⟨r, hr, hm⟩ := mem_nodes.1 hv.2
    obtain ⟨l, rfl⟩ := head_front wf hr hm
    rcases (mem_nodes_push ⟨_, hr, rfl⟩).1 h with h | h
    · exact Or.inl h
    · exact Or.inr (by simp [created, h])
  | delElem e => exact Or.inl ((mem_nodes_erase wf).1 h).1
  | unlink e =>
    simp only [valid, decide_eq_true_eq] at hv
    rcases nodes_cons.1 h with h | h
    · simp at h; exact Or.inl (h ▸ hv)
    · exact Or.inl ((mem_nodes_erase wf).1 h).1
  | moveCtor e' e =>
    simp only [valid, Bool.and_eq_true, decide_eq_true_eq] at hv
    simp only [Spec.step] at h
    split at h
    · rcases nodes_cons.1 h with h | h
      · simp at h; exact Or.inr (by simp [created, h])
      · exact Or.inl h
    · rcases nodes_cons.1 h with h | h
      · simp at h; exact Or.inl (h ▸ hv.2)
      · rcases (mem_nodes_replace hv.1).1 h with h | h
        · exact Or.inl h.1
        · exact Or.inr (by simp [created, h.1])
  | moveAssign a b =>
    simp only [valid, Bool.and_eq_true, decide_eq_true_eq] at hv
    by_cases e : b = a
    · simp [Spec.step, e] at h; exact Or.inl h
    · simp only [Spec.step, e, ite_false] at h
      have hw : Node.elem a ∉ nodes (eraseNode R (.elem a)) := fun h => ((mem_nodes_erase wf).1 h).2 rfl
      split at h
      · rcases nodes_cons.1 h with h | h
        · simp at h; exact Or.inl (h ▸ hv.1)
        · exact Or.inl ((mem_nodes_erase wf).1 h).1
      · rcases nodes_cons.1 h with h | h
        · simp at h; exact Or.inl (h ▸ hv.2)
        · rcases (mem_nodes_replace hw).1 h with h | h
          · exact Or.inl ((mem_nodes_erase wf).1 h.1).1
          · exact Or.inl (h.1 ▸ hv.1)
  | listMoveCtor k' k =>
    simp only [valid, Bool.and_eq_true, decide_eq_true_eq] at hv
    simp only [Spec.step] at h
    split at h
    · rcases nodes_cons.1 h with h | h
      · simp at h; exact Or.inr (by simp [created, h])
      · exact Or.inl h
    · rcases nodes_cons.1 h with h | h
      · simp at h; exact Or.inl (h ▸ hv.2)
      · rcases (mem_nodes_replace hv.1).1 h with h | h
        · exact Or.inl h.1
        · exact Or.inr (by simp [created, h.1])
  | listMoveAssign k k2 =>
    simp only [valid, Bool.and_eq_true, decide_eq_true_eq] at hv
    simp only [Spec.step] at h
    have hw : Node.head k ∉ nodes (eraseNode R (.head k)) := fun h => ((mem_nodes_erase wf).1 h).2 rfl
    split at h
    · exact Or.inl h
    · split at h
      · rcases nodes_cons.1 h with h | h
        · simp at h; exact Or.inl (h ▸ hv.1)
        · exact Or.inl ((mem_nodes_erase wf).1 h).1
      · rcases nodes_cons.1 h with h | h
        · simp at h; exact Or.inl (h ▸ hv.2)
        · rcases (mem_nodes_replace hw).1 h with h | h
          · exact Or.inl ((mem_nodes_erase wf).1 h.1).1
          · exact Or.inl (h.1 ▸ hv.1)
  | delList k => exact Or.inl ((mem_nodes_erase wf).1 h).1

/-- representation of a signal state: the store represents `R`, and every live connection has its payload -/
structure SRep (st : Sig.State) (R : Rings) : Prop where
  rep : Rep st.store R
  conn : ∀ x, Node.elem x ∈ nodes R → ∃ c, st.conn x = some c

theorem SRep_empty : SRep Sig.State.empty [] := ⟨Rep_empty, by simp [nodes]⟩

/-- `~concrete_connection` of `unregister::base`: `unlink()` followed by `~base()` is `~base()` on rings -/
theorem Rep_unlink_dtor {σ : Store} {R : Rings} (rep : Rep σ R) {y : Node} (hy : y ∈ nodes R) :
    ∃ σ1 σ2, baseUnlink σ y = .ok σ1 ∧ baseDtor σ1 y = .ok σ2 ∧ Rep σ1 ([y] :: eraseNode R y) ∧ Rep σ2 (eraseNode R y) := by
  obtain ⟨h1, rep1⟩ := Rep_unlink rep hy
  have hnot : y ∉ nodes (eraseNode R y) := fun h => ((mem_nodes_erase rep.wf).1 h).2 rfl
  obtain ⟨h2, rep2⟩ := Rep_dtor (y := y) rep1 (nodes_cons.2 (Or.inl (by simp)))
  rw [eraseNode_cons_single (Wf_erase rep.wf y) hnot] at rep2
  exact ⟨_, _, h1, h2, rep1, rep2⟩

/-- **One signal operation** preserves the representation and acts on the connection list as the
corresponding list operation. -/
theorem sig_step_rep {st : Sig.State} {R : Rings} (h : SRep st R) (op : Sig.Op) (hv : valid R op.toList = true) :
    ∃ st', Sig.step st op = .ok st' ∧ SRep st' (Spec.step R op.toList) := by
  have hnodes := fun n => nodes_step (n := n) h.rep.wf op.toList hv
  cases op with
  | newSig s c =>
    obtain ⟨σ', h1, rep'⟩ := step_rep h.rep _ hv
    simp only [Sig.Op.toList, step] at h1
    refine ⟨_, by simp [Sig.step, h1, bind, Except.bind]; rfl, rep', fun x hx => ?_⟩
    rcases hnodes _ hx with a | a
    · exact h.conn x a
    · simp [created, Sig.Op.toList] at a
  | connect x s f u =>
    obtain ⟨σ', h1, rep'⟩ := step_rep h.rep _ hv
    simp only [Sig.Op.toList, step] at h1
    refine ⟨_, by simp [Sig.step, h1, bind, Except.bind]; rfl, rep', fun x' hx => ?_⟩
    by_cases e : x' = x
    · simp [e]
    · rcases hnodes _ hx with a | a
      · simpa [e] using h.conn x' a
      · simp [created, Sig.Op.toList] at a; exact (e a.symm).elim
  | disconnect x =>
    have hx : Node.elem x ∈ nodes R := by simpa [Sig.Op.toList, valid] using hv
    obtain ⟨c, hc⟩ := h.conn x hx
    have hconn : ∀ σ' cnt, SRep ⟨σ', fun i => if i = x then none else st.conn i, st.combiner, cnt⟩ (eraseNode R (.elem x)) →
        SRep ⟨σ', fun i => if i = x then none else st.conn i, st.combiner, cnt⟩ (Spec.step R (Sig.Op.disconnect x).toList) :=
      fun _ _ h => h
    cases hu : c.unreg with
    | some u =>
      obtain ⟨σ1, σ2, h1, h2, _, rep2⟩ := Rep_unlink_dtor h.rep hx
      refine ⟨_, by simp [Sig.step, hc, hu, h1, h2, bind, Except.bind]; rfl, rep2, fun x' hx' => ?_⟩
      have := (mem_nodes_erase h.rep.wf).1 hx'
      have e : x' ≠ x := fun e => this.2 (by rw [e])
      simpa [e] using h.conn x' this.1
    | none =>
      obtain ⟨h1, rep2⟩ := Rep_dtor h.rep hx
      refine ⟨_, by simp [Sig.step, hc, hu, h1, bind, Except.bind]; rfl, rep2, fun x' hx' => ?_⟩
      have := (mem_nodes_erase h.rep.wf).1 hx'
      have e : x' ≠ x := fun e => this.2 (by rw [e])
      simpa [e] using h.conn x' this.1
  | moveCtor s' s =>
    obtain ⟨σ', h1, rep'⟩ := step_rep h.rep _ hv
    simp only [Sig.Op.toList, step] at h1
    refine ⟨_, by simp [Sig.step, h1, bind, Except.bind]; rfl, rep', fun x hx => ?_⟩
    rcases hnodes _ hx with a | a
    · exact h.conn x a
    · simp [created, Sig.Op.toList] at a
  | moveAssign s s2 =>
    obtain ⟨σ', h1, rep'⟩ := step_rep h.rep _ hv
    simp only [Sig.Op.toList, step] at h1
    refine ⟨_, by simp [Sig.step, h1, bind, Except.bind]; rfl, rep', fun x hx => ?_⟩
    rcases hnodes _ hx with a | a
    · exact h.conn x a
    · simp [created, Sig.Op.toList] at a
  | delSig s =>
    obtain ⟨σ', h1, rep'⟩ := step_rep h.rep _ hv
    simp only [Sig.Op.toList, step] at h1
    refine ⟨_, by simp [Sig.step, h1, bind, Except.bind]; rfl, rep', fun x hx => ?_⟩
    rcases hnodes _ hx with a | a
    · exact h.conn x a
    · simp [created, Sig.Op.toList] at a

end Fcppt.C11
