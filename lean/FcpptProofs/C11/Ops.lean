import FcpptProofs.C11.Path
/-!
# C11 — every special member of `intrusive::base` is a short sequence of `link`s

Under the liveness facts that the representation invariant provides, each model function (which
performs the pointer reads and writes of the C++ source one by one, checking every pointee) returns
`.ok` of a store that is written here with `link`.
-/
set_option linter.unusedSimpArgs false
namespace Fcppt.C11

macro "store_eq" : tactic => `(tactic| ((repeat' apply And.intro) <;> (funext x; grind)))

def Store.mkLive (σ : Store) (w : Node) : Store := { σ with live := fun x => if x = w then true else σ.live x }

@[simp] theorem mkLive_next (σ : Store) (w x : Node) : (σ.mkLive w).next x = σ.next x := rfl
@[simp] theorem mkLive_prev (σ : Store) (w x : Node) : (σ.mkLive w).prev x = σ.prev x := rfl
@[simp] theorem mkLive_live (σ : Store) (w x : Node) : (σ.mkLive w).live x = if x = w then true else σ.live x := rfl
@[simp] theorem free_next (σ : Store) (w x : Node) : (σ.free w).next x = σ.next x := rfl
@[simp] theorem free_prev (σ : Store) (w x : Node) : (σ.free w).prev x = σ.prev x := rfl
@[simp] theorem free_live (σ : Store) (w x : Node) : (σ.free w).live x = if x = w then false else σ.live x := rfl

/-- store after `~base()` of `y` -/
def dtorS (σ : Store) (y : Node) : Store := (link σ (σ.prev y) (σ.next y)).free y
/-- store after `y.unlink()` -/
def unlinkS (σ : Store) (y : Node) : Store := link (link σ (σ.prev y) (σ.next y)) y y
/-- store after `base(list&)` for the new node `w` and the head `h` -/
def ctorListS (σ : Store) (w h : Node) : Store := (link (link σ (σ.prev h) w) w h).mkLive w
/-- the three links of "`w` takes the place of `y`, `y` becomes a self-loop" -/
def takeS (σ : Store) (w y : Node) : Store := link (link (link σ (σ.prev y) w) w (σ.next y)) y y
/-- the same, reading the neighbours from `w` (which already points at them) -/
def takeS' (σ : Store) (w y : Node) : Store := link (link (link σ (σ.prev w) w) w (σ.next w)) y y
/-- store after `base(base&&)` for the new node `w` and the source `y` -/
def ctorMoveS (σ : Store) (w y : Node) : Store := (takeS σ w y).mkLive w
/-- store after `w = std::move(y)`, `w ≠ y` -/
def assignMoveS (σ : Store) (w y : Node) : Store := takeS (link σ (σ.prev w) (σ.next w)) w y

theorem detach_eq {σ : Store} {y : Node} (h1 : σ.live y = true) (h2 : σ.live (σ.next y) = true)
    (h3 : σ.live (σ.prev y) = true) : detach σ y = .ok (link σ (σ.prev y) (σ.next y)) := by
  simp only [detach, rdNext, rdPrev, wrPrev, wrNext, bind, Except.bind, h1, h2, h3, ite_true,
    Store.setPrev, Store.setNext]
  by_cases e : y = σ.next y
  · simp [← e, h1, h3, link, Store.setPrev, Store.setNext]
  · simp [e, h1, h3, link, Store.setPrev, Store.setNext]

theorem baseDtor_eq {σ : Store} {y : Node} (h1 : σ.live y = true) (h2 : σ.live (σ.next y) = true)
    (h3 : σ.live (σ.prev y) = true) : baseDtor σ y = .ok (dtorS σ y) := by
  simp [baseDtor, detach_eq h1 h2 h3, bind, Except.bind, dtorS]

theorem baseUnlink_eq {σ : Store} {y : Node} (h1 : σ.live y = true) (h2 : σ.live (σ.next y) = true)
    (h3 : σ.live (σ.prev y) = true) : baseUnlink σ y = .ok (unlinkS σ y) := by
  simp [baseUnlink, detach_eq h1 h2 h3, bind, Except.bind, unlinkS, wrNext, wrPrev, h1, Store.setNext, Store.setPrev, link]

theorem baseCtorList_eq {σ : Store} {w h : Node} (h1 : σ.live h = true) (h2 : σ.live (σ.prev h) = true)
    (hw : σ.live w = false) : baseCtorList σ w h = .ok (ctorListS σ w h) := by
  have e1 : h ≠ w := fun e => by rw [e, hw] at h1; exact Bool.noConfusion h1
  have e2 : σ.prev h ≠ w := fun e => by rw [e, hw] at h2; exact Bool.noConfusion h2
  simp [baseCtorList, rdNext, rdPrev, wrPrev, wrNext, bind, Except.bind, h1, h2,
    Store.setPrev, Store.setNext, Store.alloc, e1, e2, Ne.symm e1, Ne.symm e2, ctorListS, link, Store.mkLive]
  store_eq

theorem attach_eq {σ : Store} {w y : Node} (h1 : σ.live w = true) (h2 : σ.live (σ.prev w) = true)
    (h3 : σ.live (σ.next w) = true) (h4 : σ.live y = true) (hp : σ.prev w ≠ w) :
    attach σ w y = .ok (takeS' σ w y) := by
  simp [attach, rdNext, rdPrev, wrPrev, wrNext, bind, Except.bind, h1, h2, h3, h4, hp, Ne.symm hp,
    Store.setPrev, Store.setNext, takeS', link]
  store_eq


theorem baseCtorMove_eq {σ : Store} {w y : Node} (h1 : σ.live y = true) (h2 : σ.live (σ.prev y) = true)
    (h3 : σ.live (σ.next y) = true) (hw : σ.live w = false) (hlinked : σ.next y ≠ y) :
    baseCtorMove σ w y = .ok (ctorMoveS σ w y) := by
  have e1 : y ≠ w := fun e => by rw [e, hw] at h1; exact Bool.noConfusion h1
  have e2 : σ.prev y ≠ w := fun e => by rw [e, hw] at h2; exact Bool.noConfusion h2
  have e3 : σ.next y ≠ w := fun e => by rw [e, hw] at h3; exact Bool.noConfusion h3
  simp only [baseCtorMove, rdNext, rdPrev, bind, Except.bind, h1, ite_true]
  have hn : (σ.alloc w (σ.prev y) (σ.next y)).next w = σ.next y := by simp [Store.alloc]
  have hl : (σ.alloc w (σ.prev y) (σ.next y)).live w = true := by simp [Store.alloc]
  simp only [hl, hn, hlinked, ite_true, ite_false]
  rw [attach_eq (by simp [Store.alloc]) (by simp [Store.alloc, e2, h2]) (by simp [Store.alloc, e3, h3])
    (by simp [Store.alloc, e1, h1]) (by simp [Store.alloc, e2])]
  simp [takeS', ctorMoveS, takeS, link, Store.alloc, Store.mkLive, Store.setPrev, Store.setNext]
  store_eq

/-- `base(base&&)` from an unlinked source: the new element is unlinked, the source is untouched -/
theorem baseCtorMove_alone {σ : Store} {w y : Node} (h1 : σ.live y = true) (hw : σ.live w = false)
    (halone : σ.next y = y) : baseCtorMove σ w y = .ok (σ.alloc w w w) := by
  simp only [baseCtorMove, rdNext, rdPrev, bind, Except.bind, h1, ite_true]
  have hn : (σ.alloc w (σ.prev y) (σ.next y)).next w = σ.next y := by simp [Store.alloc]
  have hl : (σ.alloc w (σ.prev y) (σ.next y)).live w = true := by simp [Store.alloc]
  simp only [hl, hn, halone, ite_true, wrPrev, wrNext, Store.setPrev, Store.setNext]
  simp [Store.alloc]
  store_eq

theorem baseAssignMove_eq {σ : Store} {w y : Node} (hne : y ≠ w)
    (h1 : σ.live w = true) (h2 : σ.live y = true) (h3 : σ.live (σ.next w) = true) (h4 : σ.live (σ.prev w) = true)
    (h5 : σ.live ((link σ (σ.prev w) (σ.next w)).prev y) = true)
    (h6 : σ.live ((link σ (σ.prev w) (σ.next w)).next y) = true)
    (h7 : (link σ (σ.prev w) (σ.next w)).prev y ≠ w)
    (hlinked : (link σ (σ.prev w) (σ.next w)).next y ≠ y) :
    baseAssignMove σ w y = .ok (assignMoveS σ w y) := by
  simp only [baseAssignMove, hne, ite_false, detach_eq h1 h3 h4, bind, Except.bind, assignMoveS]
  generalize hτ : link σ (σ.prev w) (σ.next w) = τ at *
  have hl : τ.live = σ.live := by rw [← hτ]; rfl
  simp only [rdPrev, rdNext, wrPrev, wrNext, hl, h1, h2, ite_true, hlinked, ite_false, Store.setPrev, Store.setNext]
  rw [attach_eq (by simp [hl, h1]) (by simp [hl, h5]) (by simp [hl, h6, Ne.symm hne]) (by simp [hl, h2]) (by simp [h7])]
  simp [takeS', takeS, link, Store.setPrev, Store.setNext, Ne.symm hne]
  store_eq

/-- `w = std::move(y)` when `y` is unlinked once `w` has left its ring: `w` ends up unlinked, as after `unlink()` -/
theorem baseAssignMove_alone {σ : Store} {w y : Node} (hne : y ≠ w)
    (h1 : σ.live w = true) (h2 : σ.live y = true) (h3 : σ.live (σ.next w) = true) (h4 : σ.live (σ.prev w) = true)
    (halone : (link σ (σ.prev w) (σ.next w)).next y = y) :
    baseAssignMove σ w y = .ok (unlinkS σ w) := by
  simp only [baseAssignMove, hne, ite_false, detach_eq h1 h3 h4, bind, Except.bind, unlinkS]
  generalize hτ : link σ (σ.prev w) (σ.next w) = τ at *
  have hl : τ.live = σ.live := by rw [← hτ]; rfl
  simp only [rdNext, wrPrev, wrNext, hl, h1, h2, ite_true, halone, Store.setPrev, Store.setNext]
  simp [link, Store.setPrev, Store.setNext, hl]

end Fcppt.C11
