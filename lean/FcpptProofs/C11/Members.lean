import FcpptProofs.C11.Signal
/-!
# C11 — what each abstract operation does to the member lists

`members R k` under the ring operations of `Spec/C11.lean` (erase a node, replace a node, append before a
head, add a one-node ring), for well-formed `R`.
-/
set_option linter.unusedSimpArgs false
set_option linter.unusedVariables false
namespace Fcppt.C11
open Spec

theorem members_none_iff {R : Rings} (wf : Wf R) {k : Nat} : members R k = none ↔ Node.head k ∉ nodes R := by
  constructor
  · intro h hm
    obtain ⟨r, hr, hk⟩ := mem_nodes.1 hm
    obtain ⟨l, rfl⟩ := head_front wf hr hk
    rw [members_of_mem wf hr] at h
    cases h
  · intro h
    cases hm : members R k with
    | none => rfl
    | some l => exact (h (mem_nodes.2 ⟨_, members_mem hm, by simp⟩)).elim

theorem members_tail_elems {R : Rings} (wf : Wf R) {k : Nat} {l : List Node} (h : members R k = some l) :
    ∀ n ∈ l, ∃ e, n = Node.elem e := fun n hn => wf.tail _ (members_mem h) n (by simpa using hn)

theorem head_not_mem_members {R : Rings} (wf : Wf R) {k j : Nat} {l : List Node} (h : members R k = some l) :
    Node.head j ∉ l := fun hn => by
  obtain ⟨e, he⟩ := members_tail_elems wf h _ hn
  cases he

theorem map_erase_head {R : Rings} (wf : Wf R) (j k : Nat) :
    (members R j).map (fun l => l.erase (Node.head k)) = members R j := by
  cases hm : members R j with
  | none => rfl
  | some l => simp [List.erase_of_not_mem (head_not_mem_members wf hm)]

/-- a new one-node ring -/
theorem members_cons_single (R : Rings) (n : Node) (j : Nat) :
    members ([n] :: R) j = if n = Node.head j then some [] else members R j := by
  by_cases e : n = Node.head j
  · subst e; simp [members]
  · have : ((some n : Option Node) == some (Node.head j)) = false := by simpa using e
    simp [members, List.find?_cons, this, e]

/-- erase a node -/
theorem members_erase {R : Rings} (wf : Wf R) (y : Node) (j : Nat) :
    members (eraseNode R y) j = if y = Node.head j then none else (members R j).map (fun l => l.erase y) := by
  have wf' := Wf_erase wf y
  by_cases e : y = Node.head j
  · subst e
    simp only [ite_true]
    exact (members_none_iff wf').2 (fun h => ((mem_nodes_erase wf).1 h).2 rfl)
  · simp only [e, ite_false]
    cases hm : members R j with
    | none =>
      simp only [Option.map_none]
      exact (members_none_iff wf').2 (fun h => (members_none_iff wf).1 hm ((mem_nodes_erase wf).1 h).1)
    | some l =>
      have hr := members_mem hm
      have : (Node.head j :: l).erase y = Node.head j :: l.erase y := by
        rw [List.erase_cons_tail]; simpa using fun h => e h.symm
      exact members_of_mem wf' (mem_eraseNode.2 ⟨⟨_, hr, this⟩, by simp⟩)

/-- an element takes the place of another element -/
theorem members_replace_elem {R : Rings} (wf : Wf R) {e e' : Nat} (hw : Node.elem e' ∉ nodes R) (j : Nat) :
    members (replaceNode R (.elem e) (.elem e')) j = (members R j).map (fun l => l.map (subst (.elem e) (.elem e'))) := by
  have wf' := Wf_replace (y := .elem e) wf hw (Or.inl ⟨e', rfl⟩)
  cases hm : members R j with
  | none =>
    simp only [Option.map_none]
    refine (members_none_iff wf').2 (fun h => ?_)
    rcases (mem_nodes_replace hw).1 h with h | h
    · exact (members_none_iff wf).1 hm h.1
    · cases h.1
  | some l =>
    have hr := members_mem hm
    refine members_of_mem wf' (mem_replaceNode.2 ⟨_, hr, ?_⟩)
    simp [subst]

/-- a list head takes the place of another list head -/
theorem members_replace_head {R : Rings} (wf : Wf R) {k k' : Nat} (hw : Node.head k' ∉ nodes R) (j : Nat) :
    members (replaceNode R (.head k) (.head k')) j =
      if j = k' then members R k else if j = k then none else members R j := by
  have wf' := Wf_replace (y := .head k) wf hw (Or.inr ⟨k, rfl⟩)
  by_cases e1 : j = k'
  · subst e1
    simp only [ite_true]
    cases hm : members R k with
    | none =>
      refine (members_none_iff wf').2 (fun h => ?_)
      rcases (mem_nodes_replace hw).1 h with h | h
      · exact hw h.1
      · exact (members_none_iff wf).1 hm h.2
    | some l =>
      have hr := members_mem hm
      have nd := wf.nodup _ hr
      refine members_of_mem wf' (mem_replaceNode.2 ⟨_, hr, ?_⟩)
      simp [subst, map_subst_of_not_mem (List.nodup_cons.1 nd).1]
  · simp only [e1, ite_false]
    by_cases e2 : j = k
    · subst e2
      simp only [ite_true]
      refine (members_none_iff wf').2 (fun h => ?_)
      rcases (mem_nodes_replace hw).1 h with h | h
      · exact h.2 rfl
      · exact e1 (by cases h.1; rfl)
    · simp only [e2, ite_false]
      cases hm : members R j with
      | none =>
        refine (members_none_iff wf').2 (fun h => ?_)
        rcases (mem_nodes_replace hw).1 h with h | h
        · exact (members_none_iff wf).1 hm h.1
        · exact e1 (by cases h.1; rfl)
      | some l =>
        have hr := members_mem hm
        refine members_of_mem wf' (mem_replaceNode.2 ⟨_, hr, ?_⟩)
        have hne : Node.head j ≠ Node.head k := fun h => e2 (by cases h; rfl)
        simp [subst, hne, map_subst_of_not_mem (head_not_mem_members wf hm)]

/-- append before a head -/
theorem members_push (R : Rings) (k : Nat) (w : Node) (j : Nat) :
    members (pushBack R (.head k) w) j = if j = k then (members R k).map (fun l => l ++ [w]) else members R j := by
  induction R with
  | nil => simp [pushBack, members]
  | cons r t ih =>
    have ih' : members (List.map (fun r => if r.head? = some (Node.head k) then r ++ [w] else r) t) j =
        if j = k then (members t k).map (fun l => l ++ [w]) else members t j := ih
    cases r with
    | nil =>
      by_cases e : j = k
      · subst e; simpa [pushBack, members, List.find?_cons] using ih'
      · simpa [pushBack, members, List.find?_cons, e] using ih'
    | cons x xs =>
      by_cases hx : x = Node.head j
      · subst hx
        by_cases e : j = k
        · subst e; simp [pushBack, members, List.find?_cons]
        · have : Node.head j ≠ Node.head k := fun h => e (by cases h; rfl)
          simp [pushBack, members, List.find?_cons, e, this]
      · have h1 : ((some x : Option Node) == some (Node.head j)) = false := by simpa using hx
        by_cases hk : x = Node.head k
        · subst hk
          have hjk : j ≠ k := fun h => hx (by rw [h])
          have h2 : members ((Node.head k :: xs) :: t) j = members t j := by
            simp [members, List.find?_cons, h1]
          have h3 : members (pushBack ((Node.head k :: xs) :: t) (.head k) w) j =
              members (List.map (fun r => if r.head? = some (Node.head k) then r ++ [w] else r) t) j := by
            simp [pushBack, members, List.find?_cons, h1]
          rw [h3, ih', h2]; simp [hjk]
        · have h2 : members ((x :: xs) :: t) j = members t j := by
            simp [members, List.find?_cons, h1]
          have h2' : members ((x :: xs) :: t) k = members t k := by
            have : ((some x : Option Node) == some (Node.head k)) = false := by simpa using hk
            simp [members, List.find?_cons, this]
          have h3 : members (pushBack ((x :: xs) :: t) (.head k) w) j =
              members (List.map (fun r => if r.head? = some (Node.head k) then r ++ [w] else r) t) j := by
            simp [pushBack, members, List.find?_cons, h1, hk]
          rw [h3, ih', h2, h2']

/-- well-formedness is preserved by every valid operation -/
theorem Wf_step {R : Rings} (wf : Wf R) (op : Op) (hv : valid R op = true) : Wf (Spec.step R op) := by
  cases op with
  | newList k =>
    simp only [valid, decide_eq_true_eq] at hv
    exact Wf_cons_single wf hv
  | newElem e k =>
    simp only [valid, Bool.and_eq_true, decide_eq_true_eq] at hv
    exact Wf_push wf hv.1
  | delElem e => exact Wf_erase wf _
  | unlink e =>
    exact Wf_cons_single (Wf_erase wf _) (fun h => ((mem_nodes_erase wf).1 h).2 rfl)
  | moveCtor e' e =>
    simp only [valid, Bool.and_eq_true, decide_eq_true_eq] at hv
    simp only [Spec.step]
    split
    · exact Wf_cons_single wf hv.1
    · refine Wf_cons_single (Wf_replace wf hv.1 (Or.inl ⟨e', rfl⟩)) (fun h => ?_)
      rcases (mem_nodes_replace hv.1).1 h with h | h
      · exact h.2 rfl
      · exact hv.1 (h.1 ▸ hv.2)
  | moveAssign a b =>
    simp only [valid, Bool.and_eq_true, decide_eq_true_eq] at hv
    simp only [Spec.step]
    have hw : Node.elem a ∉ nodes (eraseNode R (.elem a)) := fun h => ((mem_nodes_erase wf).1 h).2 rfl
    split
    · exact wf
    · rename_i hne
      split
      · exact Wf_cons_single (Wf_erase wf _) hw
      · refine Wf_cons_single (Wf_replace (Wf_erase wf _) hw (Or.inl ⟨a, rfl⟩)) (fun h => ?_)
        rcases (mem_nodes_replace hw).1 h with h | h
        · exact h.2 rfl
        · exact hne (by cases h.1; rfl)
  | listMoveCtor k' k =>
    simp only [valid, Bool.and_eq_true, decide_eq_true_eq] at hv
    simp only [Spec.step]
    split
    · exact Wf_cons_single wf hv.1
    · refine Wf_cons_single (Wf_replace wf hv.1 (Or.inr ⟨k, rfl⟩)) (fun h => ?_)
      rcases (mem_nodes_replace hv.1).1 h with h | h
      · exact h.2 rfl
      · exact hv.1 (h.1 ▸ hv.2)
  | listMoveAssign k k2 =>
    simp only [valid, Bool.and_eq_true, decide_eq_true_eq] at hv
    simp only [Spec.step]
    have hw : Node.head k ∉ nodes (eraseNode R (.head k)) := fun h => ((mem_nodes_erase wf).1 h).2 rfl
    split
    · exact wf
    · rename_i hne
      split
      · exact Wf_cons_single (Wf_erase wf _) hw
      · refine Wf_cons_single (Wf_replace (Wf_erase wf _) hw (Or.inr ⟨k2, rfl⟩)) (fun h => ?_)
        rcases (mem_nodes_replace hw).1 h with h | h
        · exact h.2 rfl
        · exact hne (by cases h.1; rfl)
  | delList k => exact Wf_erase wf _

/-- a node that is alone in its ring is in no list -/
theorem not_mem_members_of_alone {R : Rings} (wf : Wf R) {n : Node} (hn : n ∈ nodes R) (ha : alone R n = true)
    {j : Nat} {l : List Node} (hm : members R j = some l) : n ∉ l := by
  intro hl
  obtain ⟨r, hr, hnr⟩ := mem_nodes.1 hn
  have h1 := alone_eq wf hr hnr ha
  subst h1
  have := wf.uniq _ hr _ (members_mem hm) n (by simp) (by simp [hl])
  cases this
  simp at hl

/-- an empty list: its head is alone -/
theorem members_of_alone_head {R : Rings} (wf : Wf R) {k : Nat} (hk : Node.head k ∈ nodes R)
    (ha : alone R (.head k) = true) : members R k = some [] := by
  obtain ⟨r, hr, hnr⟩ := mem_nodes.1 hk
  have h1 := alone_eq wf hr hnr ha
  subst h1
  exact members_of_mem wf hr

end Fcppt.C11
