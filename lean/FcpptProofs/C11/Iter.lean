import FcpptProofs.C11.Signal
/-!
# C11 — iterator objects: positions reached by `++` / `--`, the void call loop
-/
set_option linter.unusedSimpArgs false
set_option linter.unusedVariables false
namespace Fcppt.C11
open Spec

theorem iterIncrement_live {σ : Store} {n : Node} (h : σ.live n = true) :
    iterIncrement σ (some n) = .ok (some (σ.next n)) := by
  simp [iterIncrement, rdNext, h, bind, Except.bind]

theorem iterDecrement_live {σ : Store} {n : Node} (h : σ.live n = true) :
    iterDecrement σ (some n) = .ok (some (σ.prev n)) := by
  simp [iterDecrement, rdPrev, h, bind, Except.bind]

/-- `i + 1` increments from the start of a path lead to its `i`-th node (the end node included) -/
theorem iterAdvance_path {σ : Store} {a b : Node} {l : List Node} (hp : Path σ a l b)
    (hl : ∀ x ∈ a :: l, σ.live x = true) :
    ∀ i (hi : i < (l ++ [b]).length), iterAdvance σ (i + 1) (some a) = .ok (some (l ++ [b])[i]) := by
  induction l generalizing a with
  | nil =>
    intro i hi
    have hi0 : i = 0 := by simp at hi; omega
    subst hi0
    have : σ.next a = b := hp.1
    simp [iterAdvance, iterIncrement_live (hl a (by simp)), bind, Except.bind, this]
  | cons y ys ih =>
    intro i hi
    simp only [Path, Lk] at hp
    cases i with
    | zero => simp [iterAdvance, iterIncrement_live (hl a (by simp)), bind, Except.bind, hp.1.1]
    | succ j =>
      have := ih hp.2 (fun x hx => hl x (by simp at hx ⊢; grind)) j (by simp at hi ⊢; omega)
      rw [iterAdvance]
      simp only [iterIncrement_live (hl a (by simp)), bind, Except.bind, hp.1.1]
      simpa using this

theorem iterRetreat_flip (σ : Store) (n : Nat) (it : Iter) : iterRetreat σ n it = iterAdvance σ.flip n it := by
  induction n generalizing it with
  | zero => rfl
  | succ k ih =>
    cases it with
    | none => simp [iterRetreat, iterAdvance, iterDecrement, iterIncrement, bind, Except.bind]
    | some c =>
      by_cases hc : σ.live c = true
      · have h1 : iterIncrement σ.flip (some c) = .ok (some (σ.prev c)) := iterIncrement_live (σ := σ.flip) hc
        simp only [iterRetreat, iterAdvance, iterDecrement_live hc, h1, bind, Except.bind, ih]
      · have h1 : iterIncrement σ.flip (some c) = .error .oob := by
          simp [iterIncrement, rdNext, Store.flip, hc, bind, Except.bind]
        have h2 : iterDecrement σ (some c) = .error .oob := by
          simp [iterDecrement, rdPrev, hc, bind, Except.bind]
        simp only [iterRetreat, iterAdvance, h1, h2, bind, Except.bind]

/-- the void call loop over a linked-up stretch of connections invokes their callbacks in order -/
theorem callVoidFrom_path {st : Sig.State} {h : Node} :
    ∀ {xs : List Nat} {cs : List Sig.Conn} {a : Node} {fuel : Nat} (log : List Nat),
    Path st.store a (xs.map Node.elem) h → (∀ x ∈ xs, st.store.live (.elem x) = true) →
    xs.map st.conn = cs.map some → h ∉ xs.map Node.elem → xs.length ≤ fuel →
    Sig.callVoidFrom st h fuel (st.store.next a) log = .ok (log ++ cs.map (·.callback)) := by
  intro xs
  induction xs with
  | nil =>
    intro cs a fuel log hp _ hc _ _
    have : st.store.next a = h := hp.1
    cases cs with
    | nil => cases fuel <;> simp [Sig.callVoidFrom, this]
    | cons c cs => simp at hc
  | cons x xs ih =>
    intro cs a fuel log hp hl hc hh hf
    simp only [List.map_cons, Path, Lk] at hp
    cases cs with
    | nil => simp at hc
    | cons c cs =>
      simp only [List.map_cons, List.cons.injEq] at hc
      have hx : Node.elem x ≠ h := fun e => hh (by simp [e])
      cases fuel with
      | zero => simp at hf
      | succ f =>
        have := ih (log ++ [c.callback]) hp.2 (fun y hy => hl y (by simp [hy])) hc.2
          (fun hy => hh (by simp only [List.map_cons, List.mem_cons]; exact Or.inr hy)) (by simpa using hf)
        rw [Sig.callVoidFrom, hp.1.1]
        simp only [hx, ite_false, iterDeref, hl x (by simp), ite_true, hc.1, rdNext, bind, Except.bind, this]
        simp

end Fcppt.C11
