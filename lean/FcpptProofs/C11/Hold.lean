import FcpptProofs.C11.Members
/-!
# C11 — owners of connections: every live connection is held by exactly one owner slot
-/
set_option linter.unusedSimpArgs false
set_option linter.unusedVariables false
namespace Fcppt.C11
open Spec

/-- the invariant of the owner layer -/
structure Owned (st : Hold.State) (R : Rings) : Prop where
  srep : SRep st.sig R
  nodup : ∀ o, (st.own o).Nodup
  disj : ∀ o o' x, x ∈ st.own o → x ∈ st.own o' → o = o'
  live : ∀ x, Node.elem x ∈ nodes R ↔ ∃ o, x ∈ st.own o

theorem Owned_empty : Owned Hold.State.empty [] :=
  ⟨SRep_empty, fun _ => List.nodup_nil, fun _ _ x h => by simp [Hold.State.empty] at h,
   fun x => by simp [Hold.State.empty, nodes]⟩

/-- what `~concrete_connection` does to the payload, the counters and the combiners -/
theorem disconnect_effect {st st' : Sig.State} {x : Nat} {c : Sig.Conn} (hc : st.conn x = some c)
    (hs : Sig.step st (.disconnect x) = .ok st') :
    st'.conn = (fun i => if i = x then none else st.conn i) ∧
    st'.unregCount = (fun v => if c.unreg = some v then st.unregCount v + 1 else st.unregCount v) ∧
    st'.combiner = st.combiner := by
  simp only [Sig.step, hc] at hs
  cases hu : c.unreg with
  | none =>
    simp only [hu, bind, Except.bind] at hs
    split at hs
    · cases hs
    · cases hs; exact ⟨rfl, by funext v; simp, rfl⟩
  | some u =>
    simp only [hu, bind, Except.bind] at hs
    split at hs
    · cases hs
    · split at hs
      · cases hs
      · cases hs
        refine ⟨rfl, ?_, rfl⟩
        funext v
        by_cases e : v = u
        · subst e; simp
        · have : u ≠ v := fun h => e h.symm
          simp [e, this]

theorem mem_nodes_eraseAll {R : Rings} (wf : Wf R) (xs : List Nat) {n : Node} :
    n ∈ nodes (eraseAll R xs) ↔ n ∈ nodes R ∧ ∀ x ∈ xs, n ≠ Node.elem x := by
  induction xs generalizing R with
  | nil => simp [eraseAll]
  | cons x xs ih =>
    have : eraseAll R (x :: xs) = eraseAll (eraseNode R (.elem x)) xs := rfl
    rw [this, ih (Wf_erase wf _), mem_nodes_erase wf]
    simp only [List.mem_cons, forall_eq_or_imp]
    exact ⟨fun h => ⟨h.1.1, h.1.2, h.2⟩, fun h => ⟨⟨h.1, h.2.1⟩, h.2.2⟩⟩

/-- destroying several connections in a row -/
theorem killAll_rep {st : Sig.State} {R : Rings} (h : SRep st R) :
    ∀ (xs : List Nat), xs.Nodup → (∀ x ∈ xs, Node.elem x ∈ nodes R) →
    ∃ st', Hold.killAll st xs = .ok st' ∧ SRep st' (eraseAll R xs) ∧
      st'.conn = (fun i => if i ∈ xs then none else st.conn i) ∧ st'.combiner = st.combiner ∧
      ∀ u, st'.unregCount u = st.unregCount u +
        (xs.filter (fun x => decide ((st.conn x).bind (·.unreg) = some u))).length := by
  intro xs
  induction xs generalizing st R with
  | nil => intro _ _; exact ⟨st, rfl, h, by simp, rfl, by simp⟩
  | cons x xs ih =>
    intro nd hl
    have hx : Node.elem x ∈ nodes R := hl x (by simp)
    obtain ⟨c, hc⟩ := h.conn x hx
    obtain ⟨s1, h1, r1⟩ := sig_step_rep h (.disconnect x) (by simpa [Sig.Op.toList, valid] using hx)
    have r1' : SRep s1 (eraseNode R (.elem x)) := r1
    obtain ⟨e1, e2, e3⟩ := disconnect_effect hc h1
    have hxs : ∀ y ∈ xs, Node.elem y ∈ nodes (eraseNode R (.elem x)) := fun y hy =>
      (mem_nodes_erase h.rep.wf).2 ⟨hl y (by simp [hy]), fun e => (List.nodup_cons.1 nd).1 (by cases e; exact hy)⟩
    obtain ⟨s2, h2, r2, c2, b2, u2⟩ := ih r1' (List.nodup_cons.1 nd).2 hxs
    refine ⟨s2, by simp [Hold.killAll, h1, bind, Except.bind, h2], r2, ?_, by rw [b2, e3], fun u => ?_⟩
    · rw [c2, e1]; funext i
      by_cases a : i ∈ xs
      · simp [a]
      · by_cases b : i = x
        · simp [b]
        · simp [a, b]
    · rw [u2, e2]
      have hfilt : xs.filter (fun y => decide ((s1.conn y).bind (·.unreg) = some u)) =
          xs.filter (fun y => decide ((st.conn y).bind (·.unreg) = some u)) := by
        apply List.filter_congr
        intro y hy
        have : y ≠ x := fun e => (List.nodup_cons.1 nd).1 (e ▸ hy)
        simp [e1, this]
      rw [hfilt]
      simp only [List.filter_cons, hc, Option.bind_some]
      by_cases e : c.unreg = some u
      · simp [e]; omega
      · simp [e]

theorem mem_eraseIdx_of_nodup {l : List Nat} (nd : l.Nodup) {i : Nat} (hi : i < l.length) {y : Nat} :
    y ∈ l.eraseIdx i ↔ y ∈ l ∧ y ≠ l[i] := by
  rw [List.mem_eraseIdx_iff_getElem?]
  constructor
  · rintro ⟨j, hj, hy⟩
    refine ⟨List.mem_of_getElem? hy, fun e => hj ?_⟩
    have : l[j]? = l[i]? := by rw [hy, e]; simp [hi]
    exact (List.getElem?_inj (by
      rcases Nat.lt_or_ge j l.length with h | h
      · exact h
      · simp [List.getElem?_eq_none h] at hy) nd).1 this
  · rintro ⟨hy, hne⟩
    obtain ⟨j, hj, rfl⟩ := List.getElem_of_mem hy
    exact ⟨j, fun e => hne (by subst e; rfl), by simp [hj]⟩

/-- elements are neither created nor destroyed by the operations on whole signals -/
theorem elem_mem_step_sigop {R : Rings} (wf : Wf R) {op : Sig.Op} (hop : ∀ x s f u, op ≠ .connect x s f u)
    (hop' : ∀ x, op ≠ .disconnect x) (hv : valid R op.toList = true) (x : Nat) :
    Node.elem x ∈ nodes (Spec.step R op.toList) ↔ Node.elem x ∈ nodes R := by
  cases op with
  | connect x s f u => exact (hop x s f u rfl).elim
  | disconnect x => exact (hop' x rfl).elim
  | newSig s c => simp [Sig.Op.toList, Spec.step, nodes_cons]
  | delSig s => simp [Sig.Op.toList, Spec.step, mem_nodes_erase wf]
  | moveCtor s' s =>
    simp only [Sig.Op.toList, valid, Bool.and_eq_true, decide_eq_true_eq] at hv
    simp only [Sig.Op.toList, Spec.step]
    split
    · simp [nodes_cons]
    · simp [nodes_cons, mem_nodes_replace hv.1]
  | moveAssign s s2 =>
    simp only [Sig.Op.toList, valid, Bool.and_eq_true, decide_eq_true_eq] at hv
    have hw : Node.head s ∉ nodes (eraseNode R (.head s)) := fun h => ((mem_nodes_erase wf).1 h).2 rfl
    simp only [Sig.Op.toList, Spec.step]
    split
    · rfl
    · split
      · simp [nodes_cons, mem_nodes_erase wf]
      · simp [nodes_cons, mem_nodes_replace hw, mem_nodes_erase wf]

/-- **One owner operation** keeps the invariant: the connection lists stay represented, and the live connections are
exactly the ones held by some owner, each by exactly one slot. -/
theorem hold_step_owned {st : Hold.State} {R : Rings} (h : Owned st R) (op : Hold.Op)
    (hv : holdValid st.own R op = true) :
    ∃ st', Hold.step st op = .ok st' ∧ st'.own = ownStep st.own op ∧ Owned st' (holdStep st.own R op) := by
  have wf := h.srep.rep.wf
  cases op with
  | sig sop =>
    have hop : ∀ x s f u, sop ≠ .connect x s f u := by
      intro x s f u e; subst e; simp [holdValid] at hv
    have hop' : ∀ x, sop ≠ .disconnect x := by
      intro x e; subst e; simp [holdValid] at hv
    have hv' : valid R sop.toList = true := by
      cases sop <;> first | (simp [holdValid] at hv; done) | exact hv
    obtain ⟨s1, h1, r1⟩ := sig_step_rep h.srep sop hv'
    have hstep : Hold.step st (.sig sop) = .ok { st with sig := s1 } := by
      cases sop with
      | connect x s f u => exact (hop x s f u rfl).elim
      | disconnect x => exact (hop' x rfl).elim
      | newSig s c => simp [Hold.step, h1, bind, Except.bind]
      | delSig s => simp [Hold.step, h1, bind, Except.bind]
      | moveCtor s' s => simp [Hold.step, h1, bind, Except.bind]
      | moveAssign s s2 => simp [Hold.step, h1, bind, Except.bind]
    exact ⟨_, hstep, rfl, r1, h.nodup, h.disj, fun x => by
      simp only [holdStep]; rw [elem_mem_step_sigop wf hop hop' hv' x]; exact h.live x⟩
  | connect o x s f u =>
    have hv' : valid R (Sig.Op.connect x s f u).toList = true := hv
    obtain ⟨s1, h1, r1⟩ := sig_step_rep h.srep (.connect x s f u) hv'
    simp only [holdValid, valid, Bool.and_eq_true, decide_eq_true_eq] at hv
    have hfresh : ∀ o', x ∉ st.own o' := fun o' hx => hv.1 ((h.live x).2 ⟨o', hx⟩)
    obtain ⟨r, hr, hm⟩ := mem_nodes.1 hv.2
    obtain ⟨l, rfl⟩ := head_front wf hr hm
    refine ⟨{ sig := s1, own := Hold.setOwn st.own o (st.own o ++ [x]) }, by simp [Hold.step, h1, bind, Except.bind], rfl, r1, ?_, ?_, ?_⟩
    · intro o'
      by_cases e : o' = o
      · subst e
        simp only [Hold.setOwn, ite_true]
        exact List.nodup_append.2 ⟨h.nodup _, by simp, by
          intro a ha b hb; simp at hb; subst hb; intro e; subst e; exact hfresh _ ha⟩
      · simpa [Hold.setOwn, e] using h.nodup o'
    · intro o1 o2 y h1' h2'
      simp only [Hold.setOwn] at h1' h2'
      by_cases e1 : o1 = o <;> by_cases e2 : o2 = o
      · rw [e1, e2]
      · simp only [e1, e2, ite_true, ite_false, List.mem_append, List.mem_singleton] at h1' h2'
        rcases h1' with a | a
        · rw [e1]; exact h.disj _ _ y a h2'
        · subst a; exact (hfresh _ h2').elim
      · simp only [e1, e2, ite_true, ite_false, List.mem_append, List.mem_singleton] at h1' h2'
        rcases h2' with a | a
        · rw [e2]; exact h.disj _ _ y h1' a
        · subst a; exact (hfresh _ h1').elim
      · simp only [e1, e2, ite_false] at h1' h2'
        exact h.disj _ _ y h1' h2'
    · intro y
      simp only [holdStep, Spec.step]
      rw [mem_nodes_push ⟨_, hr, rfl⟩, h.live y]
      constructor
      · rintro (⟨o', ho'⟩ | e)
        · by_cases e : o' = o
          · subst e; exact ⟨o', by simp [Hold.setOwn, ho']⟩
          · exact ⟨o', by simp [Hold.setOwn, e, ho']⟩
        · cases e; exact ⟨o, by simp [Hold.setOwn]⟩
      · rintro ⟨o', ho'⟩
        by_cases e : o' = o
        · subst e
          simp only [Hold.setOwn, ite_true, List.mem_append, List.mem_singleton] at ho'
          rcases ho' with a | a
          · exact Or.inl ⟨_, a⟩
          · exact Or.inr (by rw [a])
        · simp only [Hold.setOwn, e, ite_false] at ho'
          exact Or.inl ⟨_, ho'⟩
  | release o i =>
    simp only [holdValid, decide_eq_true_eq] at hv
    have hget : (st.own o)[i]? = some (st.own o)[i] := by simp [hv]
    have hxo : (st.own o)[i] ∈ st.own o := List.getElem_mem hv
    have hx : Node.elem (st.own o)[i] ∈ nodes R := (h.live _).2 ⟨o, hxo⟩
    obtain ⟨s1, h1, r1⟩ := sig_step_rep h.srep (.disconnect (st.own o)[i]) (by simpa [Sig.Op.toList, valid] using hx)
    have r1' : SRep s1 (eraseNode R (.elem (st.own o)[i])) := r1
    refine ⟨{ sig := s1, own := Hold.setOwn st.own o ((st.own o).eraseIdx i) }, by simp [Hold.step, hget, h1, bind, Except.bind], rfl, ?_, ?_, ?_, ?_⟩
    · simpa [holdStep, hget, eraseAll] using r1'
    · intro o'
      by_cases e : o' = o
      · subst e; simpa [Hold.setOwn] using (h.nodup o').eraseIdx i
      · simpa [Hold.setOwn, e] using h.nodup o'
    · intro o1 o2 y h1' h2'
      simp only [Hold.setOwn] at h1' h2'
      have m1 : y ∈ st.own o1 := by
        by_cases e : o1 = o
        · subst e; simp only [ite_true] at h1'; exact List.mem_of_mem_eraseIdx h1'
        · simpa [e] using h1'
      have m2 : y ∈ st.own o2 := by
        by_cases e : o2 = o
        · subst e; simp only [ite_true] at h2'; exact List.mem_of_mem_eraseIdx h2'
        · simpa [e] using h2'
      exact h.disj _ _ y m1 m2
    · intro y
      simp only [holdStep, hget, Option.toList_some, eraseAll, List.foldl_cons, List.foldl_nil]
      rw [mem_nodes_erase wf, h.live y]
      constructor
      · rintro ⟨⟨o', ho'⟩, hne⟩
        have hyx : y ≠ (st.own o)[i] := fun e => hne (by rw [e])
        by_cases e : o' = o
        · subst e
          exact ⟨o', by simp only [Hold.setOwn, ite_true]; exact (mem_eraseIdx_of_nodup (h.nodup o') hv).2 ⟨ho', hyx⟩⟩
        · exact ⟨o', by simp [Hold.setOwn, e, ho']⟩
      · rintro ⟨o', ho'⟩
        by_cases e : o' = o
        · subst e
          simp only [Hold.setOwn, ite_true] at ho'
          have := (mem_eraseIdx_of_nodup (h.nodup o') hv).1 ho'
          exact ⟨⟨o', this.1⟩, fun e => this.2 (by cases e; rfl)⟩
        · simp only [Hold.setOwn, e, ite_false] at ho'
          refine ⟨⟨o', ho'⟩, fun e' => e ?_⟩
          cases e'
          exact h.disj _ _ _ ho' hxo
  | clear o =>
    obtain ⟨s1, h1, r1, _, _, _⟩ := killAll_rep h.srep (st.own o) (h.nodup o) (fun x hx => (h.live x).2 ⟨o, hx⟩)
    refine ⟨{ sig := s1, own := Hold.setOwn st.own o [] }, by simp [Hold.step, h1, bind, Except.bind], rfl, r1, ?_, ?_, ?_⟩
    · intro o'
      by_cases e : o' = o
      · subst e; simp [Hold.setOwn]
      · simpa [Hold.setOwn, e] using h.nodup o'
    · intro o1 o2 y h1' h2'
      simp only [Hold.setOwn] at h1' h2'
      by_cases e1 : o1 = o
      · simp [e1] at h1'
      · by_cases e2 : o2 = o
        · simp [e2] at h2'
        · simp only [e1, e2, ite_false] at h1' h2'
          exact h.disj _ _ y h1' h2'
    · intro y
      simp only [holdStep]
      rw [mem_nodes_eraseAll wf, h.live y]
      constructor
      · rintro ⟨⟨o', ho'⟩, hne⟩
        have e : o' ≠ o := fun e => hne y (e ▸ ho') rfl
        exact ⟨o', by simp [Hold.setOwn, e, ho']⟩
      · rintro ⟨o', ho'⟩
        by_cases e : o' = o
        · simp [Hold.setOwn, e] at ho'
        · simp only [Hold.setOwn, e, ite_false] at ho'
          refine ⟨⟨o', ho'⟩, fun x hx e' => e ?_⟩
          cases e'
          exact h.disj _ _ _ ho' hx
  | transfer o i o' =>
    simp only [holdValid, decide_eq_true_eq] at hv
    have hget : (st.own o)[i]? = some (st.own o)[i] := by simp [hv]
    have hxo : (st.own o)[i] ∈ st.own o := List.getElem_mem hv
    have hmem := fun y => mem_eraseIdx_of_nodup (h.nodup o) hv (y := y)
    by_cases e : o' = o
    · subst e
      refine ⟨{ st with own := Hold.setOwn st.own o' ((st.own o').eraseIdx i ++ [(st.own o')[i]]) }, by simp [Hold.step, hget], by simp [ownStep, hget], h.srep, ?_, ?_, ?_⟩
      · intro o1
        by_cases e1 : o1 = o'
        · subst e1
          simp only [Hold.setOwn, ite_true]
          exact List.nodup_append.2 ⟨(h.nodup _).eraseIdx i, by simp, by
            intro a ha b hb; simp at hb; subst hb; exact ((hmem a).1 ha).2⟩
        · simpa [Hold.setOwn, e1] using h.nodup o1
      · intro o1 o2 y h1' h2'
        have conv : ∀ o3, y ∈ Hold.setOwn st.own o' ((st.own o').eraseIdx i ++ [(st.own o')[i]]) o3 → y ∈ st.own o3 := by
          intro o3 hy
          by_cases e3 : o3 = o'
          · subst e3
            simp only [Hold.setOwn, ite_true, List.mem_append, List.mem_singleton] at hy
            rcases hy with a | a
            · exact ((hmem y).1 a).1
            · rw [a]; exact hxo
          · simpa [Hold.setOwn, e3] using hy
        exact h.disj _ _ y (conv _ h1') (conv _ h2')
      · intro y
        simp only [holdStep]
        rw [h.live y]
        constructor
        · rintro ⟨o1, ho1⟩
          by_cases e1 : o1 = o'
          · subst e1
            refine ⟨o1, ?_⟩
            simp only [Hold.setOwn, ite_true, List.mem_append, List.mem_singleton]
            by_cases ey : y = (st.own o1)[i]
            · exact Or.inr ey
            · exact Or.inl ((hmem y).2 ⟨ho1, ey⟩)
          · exact ⟨o1, by simp [Hold.setOwn, e1, ho1]⟩
        · rintro ⟨o1, ho1⟩
          by_cases e1 : o1 = o'
          · subst e1
            simp only [Hold.setOwn, ite_true, List.mem_append, List.mem_singleton] at ho1
            rcases ho1 with a | a
            · exact ⟨o1, ((hmem y).1 a).1⟩
            · exact ⟨o1, a ▸ hxo⟩
          · exact ⟨o1, by simpa [Hold.setOwn, e1] using ho1⟩
    · have hnot : (st.own o)[i] ∉ st.own o' := fun hx => e (h.disj _ _ _ hx hxo)
      -- where `y` is after the transfer, in terms of before
      have char : ∀ o3 y, y ∈ Hold.setOwn (Hold.setOwn st.own o ((st.own o).eraseIdx i)) o' (st.own o' ++ [(st.own o)[i]]) o3 ↔
          (o3 = o' ∧ (y ∈ st.own o' ∨ y = (st.own o)[i])) ∨ (o3 = o ∧ y ∈ st.own o ∧ y ≠ (st.own o)[i]) ∨
          (o3 ≠ o' ∧ o3 ≠ o ∧ y ∈ st.own o3) := by
        intro o3 y
        by_cases e3 : o3 = o'
        · subst e3; simp [Hold.setOwn, e]
        · by_cases e4 : o3 = o
          · subst e4; simp [Hold.setOwn, e3, hmem]
          · simp [Hold.setOwn, e3, e4]
      refine ⟨{ st with own := Hold.setOwn (Hold.setOwn st.own o ((st.own o).eraseIdx i)) o' (st.own o' ++ [(st.own o)[i]]) }, by simp [Hold.step, hget, e], by simp [ownStep, hget, e], h.srep, ?_, ?_, ?_⟩
      · intro o3
        by_cases e3 : o3 = o'
        · subst e3
          simp only [Hold.setOwn, ite_true]
          exact List.nodup_append.2 ⟨h.nodup _, by simp, by
            intro a ha b hb; simp at hb; subst hb; intro e'; subst e'; exact hnot ha⟩
        · by_cases e4 : o3 = o
          · subst e4; simpa [Hold.setOwn, e3] using (h.nodup o3).eraseIdx i
          · simpa [Hold.setOwn, e3, e4] using h.nodup o3
      · intro o1 o2 y h1' h2'
        rw [char] at h1' h2'
        rcases h1' with ⟨a1, b1⟩ | ⟨a1, b1, c1⟩ | ⟨a1, b1, c1⟩ <;> rcases h2' with ⟨a2, b2⟩ | ⟨a2, b2, c2⟩ | ⟨a2, b2, c2⟩
        · rw [a1, a2]
        · rcases b1 with b1 | b1
          · rw [a1, a2]; exact h.disj _ _ y b1 b2
          · exact (c2 b1).elim
        · rcases b1 with b1 | b1
          · exact (a2 (h.disj _ _ y c2 b1)).elim
          · exact (b2 (h.disj _ _ y c2 (b1 ▸ hxo))).elim
        · rcases b2 with b2 | b2
          · rw [a1, a2]; exact h.disj _ _ y b1 b2
          · exact (c1 b2).elim
        · rw [a1, a2]
        · exact (b2 (h.disj _ _ y c2 b1)).elim
        · rcases b2 with b2 | b2
          · exact (a1 (h.disj _ _ y c1 b2)).elim
          · exact (b1 (h.disj _ _ y c1 (b2 ▸ hxo))).elim
        · exact (b1 (h.disj _ _ y c1 b2)).elim
        · exact h.disj _ _ y c1 c2
      · intro y
        simp only [holdStep]
        rw [h.live y]
        constructor
        · rintro ⟨o1, ho1⟩
          by_cases ey : y = (st.own o)[i]
          · exact ⟨o', (char _ _).2 (Or.inl ⟨rfl, Or.inr ey⟩)⟩
          · by_cases e3 : o1 = o'
            · exact ⟨o', (char _ _).2 (Or.inl ⟨rfl, Or.inl (e3 ▸ ho1)⟩)⟩
            · by_cases e4 : o1 = o
              · exact ⟨o, (char _ _).2 (Or.inr (Or.inl ⟨rfl, e4 ▸ ho1, ey⟩))⟩
              · exact ⟨o1, (char _ _).2 (Or.inr (Or.inr ⟨e3, e4, ho1⟩))⟩
        · rintro ⟨o1, ho1⟩
          rcases (char _ _).1 ho1 with ⟨_, b | b⟩ | ⟨_, b, _⟩ | ⟨_, _, b⟩
          · exact ⟨o', b⟩
          · exact ⟨o, b ▸ hxo⟩
          · exact ⟨o, b⟩
          · exact ⟨o1, b⟩
  | swap o o' =>
    -- the owner that holds, after the swap, what `o3` held before
    have char : ∀ o3 y, y ∈ (fun i => if i = o then st.own o' else if i = o' then st.own o else st.own i) o3 ↔
        y ∈ st.own (if o3 = o then o' else if o3 = o' then o else o3) := by
      intro o3 y
      by_cases e1 : o3 = o
      · simp [e1]
      · by_cases e2 : o3 = o'
        · subst e2; simp [e1]
        · simp [e1, e2]
    have perm_inj : ∀ a b : Nat, (if a = o then o' else if a = o' then o else a) = (if b = o then o' else if b = o' then o else b) → a = b := by
      intro a b hab
      by_cases a1 : a = o <;> by_cases a2 : a = o' <;> by_cases b1 : b = o <;> by_cases b2 : b = o' <;> simp_all
    refine ⟨{ st with own := fun i => if i = o then st.own o' else if i = o' then st.own o else st.own i }, rfl, rfl, h.srep, ?_, ?_, ?_⟩
    · intro o3
      by_cases e1 : o3 = o
      · simpa [e1] using h.nodup o'
      · by_cases e2 : o3 = o'
        · subst e2; simpa [e1] using h.nodup o
        · simpa [e1, e2] using h.nodup o3
    · intro o1 o2 y h1' h2'
      exact perm_inj _ _ (h.disj _ _ y ((char o1 y).1 h1') ((char o2 y).1 h2'))
    · intro y
      simp only [holdStep]
      rw [h.live y]
      constructor
      · rintro ⟨o1, ho1⟩
        refine ⟨if o1 = o then o' else if o1 = o' then o else o1, (char _ _).2 ?_⟩
        by_cases e1 : o1 = o
        · by_cases e3 : o' = o
          · simp [e1, e3]; rw [← e1]; exact ho1
          · simp [e1, e3]; rw [← e1]; exact ho1
        · by_cases e2 : o1 = o'
          · simp [e1, e2]; rw [← e2]; exact ho1
          · simp [e1, e2]; exact ho1
      · rintro ⟨o1, ho1⟩
        exact ⟨_, (char o1 y).1 ho1⟩

end Fcppt.C11
