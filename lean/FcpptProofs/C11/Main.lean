import FcpptProofs.C11.Step
/-!
# C11 — one step, iteration, whole histories
-/
set_option linter.unusedSimpArgs false
set_option linter.unusedVariables false
namespace Fcppt.C11
open Spec

theorem Rep_empty : Rep Store.empty [] :=
  ⟨Wf_nil, by simp, by simp [Store.empty, nodes]⟩

theorem ringOf_cons_of_not_mem {R : Rings} {r : List Node} {n : Node} (h : n ∉ r) : ringOf (r :: R) n = ringOf R n := by
  simp [ringOf, List.find?_cons, h]

theorem alone_cons_of_not_mem {R : Rings} {r : List Node} {n : Node} (h : n ∉ r) : alone (r :: R) n = alone R n := by
  simp [alone, ringOf_cons_of_not_mem h]

theorem alone_erase_other {R : Rings} (wf : Wf R) {k k2 : Nat} (h2 : Node.head k2 ∈ nodes R) (hne : k2 ≠ k) :
    alone (eraseNode R (.head k)) (.head k2) = alone R (.head k2) := by
  obtain ⟨r, hr, hm⟩ := mem_nodes.1 h2
  have hnot : Node.head k ∉ r := by
    intro hk
    obtain ⟨l, rfl⟩ := head_front wf hr hk
    obtain ⟨l', e⟩ := head_front wf hr hm
    simp at e; exact hne e.1.symm
  have hr' : r ∈ eraseNode R (.head k) :=
    mem_eraseNode.2 ⟨⟨r, hr, List.erase_of_not_mem hnot⟩, wf.ne r hr⟩
  simp [alone, ringOf_eq (Wf_erase wf _) hr' hm, ringOf_eq wf hr hm]

/-- **One operation.** Under the representation invariant a valid operation does not fault, and its
result represents the abstract result. -/
theorem step_rep {σ : Store} {R : Rings} (rep : Rep σ R) (op : Op) (hv : valid R op = true) :
    ∃ σ', step σ op = .ok σ' ∧ Rep σ' (Spec.step R op) := by
  cases op with
  | newList k =>
    simp only [valid, decide_eq_true_eq] at hv
    exact ⟨_, rfl, Rep_ctorDefault rep hv⟩
  | newElem e k =>
    simp only [valid, Bool.and_eq_true, decide_eq_true_eq] at hv
    exact ⟨_, Rep_ctorList rep hv.2 hv.1⟩
  | delElem e =>
    simp only [valid, decide_eq_true_eq] at hv
    exact ⟨_, Rep_dtor rep hv⟩
  | unlink e =>
    simp only [valid, decide_eq_true_eq] at hv
    exact ⟨_, Rep_unlink rep hv⟩
  | moveCtor e' e =>
    simp only [valid, Bool.and_eq_true, decide_eq_true_eq] at hv
    cases hal : alone R (.elem e) with
    | true =>
      have := Rep_ctorMove_alone rep hv.2 hal hv.1
      exact ⟨_, this.1, by simpa [Spec.step, hal] using this.2⟩
    | false =>
      have := Rep_ctorMove rep hv.2 hal hv.1 (Or.inl ⟨e', rfl⟩)
      exact ⟨_, this.1, by simpa [Spec.step, hal] using this.2⟩
  | moveAssign a b =>
    simp only [valid, Bool.and_eq_true, decide_eq_true_eq] at hv
    by_cases e : b = a
    · subst e
      exact ⟨σ, by simp [step, baseAssignMove], by simpa [Spec.step] using rep⟩
    · have hne : Node.elem b ≠ Node.elem a := fun h => e (by cases h; rfl)
      cases hal : alone (eraseNode R (.elem a)) (.elem b) with
      | true =>
        have := Rep_assignMove_alone rep hv.1 hv.2 hne hal
        exact ⟨_, this.1, by simpa [Spec.step, e, hal] using this.2⟩
      | false =>
        have := Rep_assignMove rep hv.1 hv.2 hne hal (Or.inl ⟨a, rfl⟩)
        exact ⟨_, this.1, by simpa [Spec.step, e, hal] using this.2⟩
  | listMoveCtor k' k =>
    simp only [valid, Bool.and_eq_true, decide_eq_true_eq] at hv
    have rep' := Rep_ctorDefault rep hv.1
    have hkk : Node.head k ≠ Node.head k' := fun h => hv.1 (h ▸ hv.2)
    have hk' : Node.head k ∈ nodes ([Node.head k'] :: R) := nodes_cons.2 (Or.inr hv.2)
    have hal : alone ([Node.head k'] :: R) (.head k) = alone R (.head k) :=
      alone_cons_of_not_mem (by simpa using hkk)
    simp only [step, listCtorMove, baseCtorDefault, bind, Except.bind, listEmpty_eq rep' hk', hal, Spec.step]
    cases ha : alone R (.head k) with
    | true => exact ⟨_, rfl, by simpa using rep'⟩
    | false =>
      have her := eraseNode_cons_single rep.wf hv.1
      have := Rep_assignMove rep' (nodes_cons.2 (Or.inl (by simp))) hk' hkk (by rw [her]; exact ha) (Or.inr ⟨k, rfl⟩)
      rw [her] at this
      exact ⟨_, by simpa using this.1, by simpa using this.2⟩
  | listMoveAssign k k2 =>
    simp only [valid, Bool.and_eq_true, decide_eq_true_eq] at hv
    by_cases e : k2 = k
    · subst e
      exact ⟨σ, by simp [step, listAssignMove], by simpa [Spec.step] using rep⟩
    · simp only [step, listAssignMove, e, ite_false, bind, Except.bind, listEmpty_eq rep hv.2, Spec.step]
      cases ha : alone R (.head k2) with
      | true => exact ⟨_, by simpa using (Rep_unlink rep hv.1).1, by simpa using (Rep_unlink rep hv.1).2⟩
      | false =>
        have hne : Node.head k2 ≠ Node.head k := fun h => e (by cases h; rfl)
        have := Rep_assignMove rep hv.1 hv.2 hne (by rw [alone_erase_other rep.wf hv.2 e]; exact ha) (Or.inr ⟨k2, rfl⟩)
        exact ⟨_, by simpa using this.1, by simpa using this.2⟩
  | delList k =>
    simp only [valid, decide_eq_true_eq] at hv
    exact ⟨_, Rep_dtor rep hv⟩

/-! ### iteration -/

theorem walkFrom_path {σ : Store} {h : Node} {l : List Node} {a : Node} {fuel : Nat}
    (hp : Path σ a l h) (hl : ∀ x ∈ l, σ.live x = true) (hh : h ∉ l) (hf : l.length ≤ fuel) :
    walkFrom σ h fuel (σ.next a) = .ok l := by
  induction l generalizing a fuel with
  | nil =>
    have : σ.next a = h := hp.1
    cases fuel <;> simp [walkFrom, this]
  | cons y ys ih =>
    simp only [Path, Lk] at hp
    have hy : y ≠ h := fun e => hh (by simp [e])
    cases fuel with
    | zero => simp at hf
    | succ f =>
      have := ih hp.2 (fun x hx => hl x (by simp [hx])) (fun hx => hh (by simp [hx])) (by simpa using hf)
      simp [walkFrom, hp.1.1, hy, rdNext, hl y (by simp), bind, Except.bind, this]

def Store.flip (σ : Store) : Store := ⟨σ.live, σ.next, σ.prev⟩

theorem walkBackFrom_flip (σ : Store) (h : Node) (f : Nat) (cur : Node) :
    walkBackFrom σ h f cur = walkFrom σ.flip h f cur := by
  induction f generalizing cur with
  | zero => rfl
  | succ f ih =>
    unfold walkBackFrom walkFrom
    by_cases e : cur = h
    · simp [e]
    · have hrd : rdNext σ.flip cur = rdPrev σ cur := rfl
      simp only [e, ite_false, hrd]
      cases rdPrev σ cur with
      | error _ => rfl
      | ok v => simp [bind, Except.bind, ih]

theorem Path_flip {σ : Store} {a b : Node} {l : List Node} (h : Path σ a l b) : Path σ.flip b l.reverse a := by
  induction l generalizing a with
  | nil => exact ⟨h.2, h.1⟩
  | cons y ys ih =>
    simp only [Path] at h
    rw [List.reverse_cons]
    exact Path_append.2 ⟨ih h.2, ⟨h.1.2, h.1.1⟩⟩


theorem members_mem {R : Rings} {k : Nat} {l : List Node} (h : members R k = some l) : (Node.head k :: l) ∈ R := by
  simp only [members, Option.map_eq_some_iff] at h
  obtain ⟨r, hf, rfl⟩ := h
  have h1 := List.mem_of_find?_eq_some hf
  have h2 := List.find?_some hf
  cases r with
  | nil => simp at h2
  | cons x xs =>
    simp at h2
    subst h2
    exact h1

theorem members_of_mem {R : Rings} (wf : Wf R) {k : Nat} {l : List Node} (h : (Node.head k :: l) ∈ R) :
    members R k = some l := by
  simp only [members]
  cases hf : R.find? (fun r => r.head? == some (Node.head k)) with
  | none =>
    have := List.find?_eq_none.1 hf _ h
    simp at this
  | some r =>
    have h1 := List.mem_of_find?_eq_some hf
    have h2 := List.find?_some hf
    have hm : Node.head k ∈ r := List.mem_of_mem_head? (by simpa using h2)
    have := wf.uniq r h1 _ h (Node.head k) hm (by simp)
    subst this
    rfl

/-- **Iteration = abstract membership** (forward). -/
theorem walk_members {σ : Store} {R : Rings} (rep : Rep σ R) {k : Nat} {l : List Node}
    (hm : members R k = some l) {fuel : Nat} (hf : l.length ≤ fuel) : walk σ (.head k) fuel = .ok l := by
  have hr := members_mem hm
  have hring := rep.ring _ hr
  have nd := rep.wf.nodup _ hr
  have hlive : ∀ x ∈ Node.head k :: l, σ.live x = true := fun x hx => rep.live_of_mem (mem_nodes.2 ⟨_, hr, hx⟩)
  have hh : σ.live (.head k) = true := hlive _ (by simp)
  simp only [walk, rdNext, hh, ite_true, bind, Except.bind]
  exact walkFrom_path hring (fun x hx => hlive x (by simp [hx])) (List.nodup_cons.1 nd).1 hf

/-- **Iteration = abstract membership** (backward: `--end()` down to `begin()`). -/
theorem walkBack_members {σ : Store} {R : Rings} (rep : Rep σ R) {k : Nat} {l : List Node}
    (hm : members R k = some l) {fuel : Nat} (hf : l.length ≤ fuel) :
    walkBack σ (.head k) fuel = .ok l.reverse := by
  have hr := members_mem hm
  have hring : Path σ (.head k) l (.head k) := rep.ring _ hr
  have nd := rep.wf.nodup _ hr
  have hlive : ∀ x ∈ Node.head k :: l, σ.live x = true := fun x hx => rep.live_of_mem (mem_nodes.2 ⟨_, hr, hx⟩)
  have hh : σ.live (.head k) = true := hlive _ (by simp)
  simp only [walkBack, rdPrev, hh, ite_true, bind, Except.bind, walkBackFrom_flip]
  have := walkFrom_path (σ := σ.flip) (Path_flip hring) (fun x hx => hlive x (by simp at hx; simp [hx]))
    (by simpa using (List.nodup_cons.1 nd).1) (fuel := fuel) (by simpa using hf)
  exact this

end Fcppt.C11
