import FcpptProofs.C11.Hold
/-!
# C11 — a call whose callbacks change the set of connections
-/
set_option linter.unusedSimpArgs false
set_option linter.unusedVariables false
namespace Fcppt.C11
open Spec

theorem run_delElems (R : Rings) (xs : List Nat) : Spec.run R (xs.map Op.delElem) = eraseAll R xs := by
  induction xs generalizing R with
  | nil => rfl
  | cons x xs ih => simp only [List.map_cons, Spec.run, Spec.step, ih]; rfl

theorem run_append (R : Rings) (a b : List Op) : Spec.run R (a ++ b) = Spec.run (Spec.run R a) b := by
  induction a generalizing R with
  | nil => rfl
  | cons o t ih => simp [Spec.run, ih]

/-- `a` and `b` lie in one ring -/
def SameRing (R : Rings) (a b : Node) : Prop := ∃ r ∈ R, a ∈ r ∧ b ∈ r

theorem SameRing_erase {R : Rings} {a b y : Node} (h : SameRing R a b) (ha : y ≠ a) (hb : y ≠ b) :
    SameRing (eraseNode R y) a b := by
  obtain ⟨r, hr, h1, h2⟩ := h
  have m1 : a ∈ r.erase y := (List.mem_erase_of_ne (fun e => ha e.symm)).2 h1
  exact ⟨r.erase y, mem_eraseNode.2 ⟨⟨r, hr, rfl⟩, List.ne_nil_of_mem m1⟩, m1,
    (List.mem_erase_of_ne (fun e => hb e.symm)).2 h2⟩

theorem SameRing_eraseAll {R : Rings} {a b : Node} (xs : List Nat) (h : SameRing R a b)
    (ha : ∀ x ∈ xs, Node.elem x ≠ a) (hb : ∀ x ∈ xs, Node.elem x ≠ b) : SameRing (eraseAll R xs) a b := by
  induction xs generalizing R with
  | nil => exact h
  | cons x xs ih =>
    exact ih (SameRing_erase h (ha x (by simp)) (hb x (by simp))) (fun y hy => ha y (by simp [hy]))
      (fun y hy => hb y (by simp [hy]))

theorem SameRing_push {R : Rings} {a b hd w : Node} (h : SameRing R a b) : SameRing (pushBack R hd w) a b := by
  obtain ⟨r, hr, h1, h2⟩ := h
  refine ⟨_, mem_pushBack.2 ⟨r, hr, rfl⟩, ?_, ?_⟩ <;> split <;> simp [h1, h2]

/-- an action keeps the owner invariant; what it does to the rings is its trace -/
theorem runAct_owned {st : Hold.State} {R : Rings} (h : Owned st R) (a : Hold.Act) :
    ∃ st', Hold.runAct st a = .ok st' ∧ Owned st' (Spec.run R (Hold.actOps st a)) := by
  cases a with
  | none => exact ⟨st, rfl, h⟩
  | reset o =>
    obtain ⟨st', h1, _, h2⟩ := hold_step_owned h (.clear o) rfl
    exact ⟨st', h1, by simpa [Hold.actOps, run_delElems, holdStep] using h2⟩
  | connect hh s f u =>
    simp only [Hold.runAct, Hold.actOps]
    split
    · rename_i hg
      simp only [Bool.and_eq_true, Bool.not_eq_true', List.isEmpty_iff] at hg
      have hv : holdValid st.own R (.connect hh hh s f u) = true := by
        simp only [holdValid, valid, Bool.and_eq_true, decide_eq_true_eq]
        exact ⟨fun hn => by simpa [hg.1.2] using h.srep.rep.live_of_mem hn, (h.srep.rep.live _).1 hg.2⟩
      obtain ⟨st', h1, _, h2⟩ := hold_step_owned h _ hv
      exact ⟨st', h1, by simpa [Spec.run, holdStep] using h2⟩
    · exact ⟨st, rfl, h⟩

/-- an action that does not let go of connection `x` leaves it in the ring of its signal -/
theorem runAct_sameRing {st : Hold.State} {R : Rings} (h : Owned st R) (a : Hold.Act) {s x : Nat}
    (hs : SameRing R (.head s) (.elem x)) (hsafe : ∀ o, a = .reset o → x ∉ st.own o) :
    SameRing (Spec.run R (Hold.actOps st a)) (.head s) (.elem x) := by
  cases a with
  | none => exact hs
  | reset o =>
    simp only [Hold.actOps, run_delElems]
    exact SameRing_eraseAll _ hs (fun y _ => by simp) (fun y hy e => hsafe o rfl (by cases e; exact hy))
  | connect hh s' f u =>
    simp only [Hold.actOps]
    split
    · exact SameRing_push hs
    · exact hs

def accStep (comb : Option (Nat → Nat → Nat)) (acc v : Nat) : Nat :=
  match comb with
  | some g => g acc v
  | none => acc

/-- **The call loop with effectful callbacks never touches a destroyed connection**, provided no callback lets go of its own
connection: the only fault possible is exhausted fuel (a chain of callbacks that keep connecting new callbacks); on success
the final program state is again owned/represented, for the rings obtained by running the trace of the callbacks' effects. -/
theorem callLoop_safe (act : Nat → Hold.Act) (cb : Nat → Nat → Nat) (comb : Option (Nat → Nat → Nat)) (arg s : Nat) :
    ∀ (fuel : Nat) {st : Hold.State} {R : Rings} {cur : Node} (log : List Nat) (acc : Nat) (tr0 : List Op),
    Owned st R → SameRing R (.head s) cur → loopSafe act (.head s) fuel st cur = true →
    (Hold.callLoop act cb comb arg (.head s) fuel cur ⟨st, log, acc, tr0⟩ = .error .fuel) ∨
    ∃ res tr, Hold.callLoop act cb comb arg (.head s) fuel cur ⟨st, log, acc, tr0⟩ = .ok res ∧ res.trace = tr0 ++ tr ∧
      Owned res.st (Spec.run R tr) ∧ Node.head s ∈ nodes (Spec.run R tr) := by
  intro fuel
  induction fuel with
  | zero =>
    intro st R cur log acc tr0 h hs _
    by_cases e : cur = Node.head s
    · refine Or.inr ⟨⟨st, log, acc, tr0⟩, [], by simp [Hold.callLoop, e], by simp, h, ?_⟩
      obtain ⟨r, hr, h1, _⟩ := hs
      exact mem_nodes.2 ⟨r, hr, h1⟩
    · exact Or.inl (by simp [Hold.callLoop, e])
  | succ f ih =>
    intro st R cur log acc tr0 h hs hsafe
    by_cases e : cur = Node.head s
    · refine Or.inr ⟨⟨st, log, acc, tr0⟩, [], by simp [Hold.callLoop, e], by simp, h, ?_⟩
      obtain ⟨r, hr, h1, _⟩ := hs
      exact mem_nodes.2 ⟨r, hr, h1⟩
    · obtain ⟨r, hr, h1, h2⟩ := hs
      have wf := h.srep.rep.wf
      obtain ⟨l, rfl⟩ := head_front wf hr h1
      have hcl : cur ∈ l := by
        rcases List.mem_cons.1 h2 with a | a
        · exact (e a).elim
        · exact a
      obtain ⟨x, rfl⟩ := wf.tail _ hr cur (by simpa using hcl)
      have hxn : Node.elem x ∈ nodes R := mem_nodes.2 ⟨_, hr, h2⟩
      have hlive := h.srep.rep.live_of_mem hxn
      obtain ⟨c, hc⟩ := h.srep.conn x hxn
      obtain ⟨st1, ha, ow1⟩ := runAct_owned h (act c.callback)
      -- the caller's side condition for this iteration, and for the rest of the run
      simp only [loopSafe, e, ite_false, hc, ha, Bool.and_eq_true] at hsafe
      have hno : ∀ o, act c.callback = .reset o → x ∉ st.own o := by
        intro o ho hx
        have := hsafe.1
        rw [ho] at this
        simp [hx] at this
      have hs1 := runAct_sameRing h (act c.callback) ⟨_, hr, h1, h2⟩ hno
      obtain ⟨r1, hr1, g1, g2⟩ := hs1
      have hxn1 : Node.elem x ∈ nodes (Spec.run R (Hold.actOps st (act c.callback))) := mem_nodes.2 ⟨_, hr1, g2⟩
      have hlive1 := ow1.srep.rep.live_of_mem hxn1
      have hnext := Ring_next (ow1.srep.rep.ring _ hr1) g2
      have hs2 : SameRing (Spec.run R (Hold.actOps st (act c.callback))) (.head s) (st1.sig.store.next (.elem x)) :=
        ⟨r1, hr1, g1, hnext.1⟩
      have hstep : Hold.callLoop act cb comb arg (.head s) (f + 1) (.elem x) ⟨st, log, acc, tr0⟩ =
          Hold.callLoop act cb comb arg (.head s) f (st1.sig.store.next (.elem x))
            ⟨st1, log ++ [c.callback], accStep comb acc (cb c.callback arg),
              tr0 ++ Hold.actOps st (act c.callback)⟩ := by
        rw [Hold.callLoop]
        simp only [e, ite_false, iterDeref, hlive, ite_true, hc, ha, rdNext, hlive1, bind, Except.bind, accStep]
        cases comb <;> rfl
      rw [hstep]
      rcases ih (log ++ [c.callback]) _ (tr0 ++ Hold.actOps st (act c.callback)) ow1 hs2 hsafe.2 with hf | ⟨res, tr, h3, h4, h5, h6⟩
      · exact Or.inl hf
      · refine Or.inr ⟨res, Hold.actOps st (act c.callback) ++ tr, h3, by rw [h4, List.append_assoc], ?_, ?_⟩
        · rw [run_append]; exact h5
        · rw [run_append]; exact h6

/-- without effects the loop is the plain call: callbacks of the stretch in order, accumulator folded from the left -/
theorem callLoop_path_noeffect (cb : Nat → Nat → Nat) (comb : Option (Nat → Nat → Nat)) (arg : Nat)
    {st : Hold.State} {h : Node} :
    ∀ {xs : List Nat} {cs : List Sig.Conn} {a : Node} {fuel : Nat} (log : List Nat) (acc : Nat) (tr : List Op),
    Path st.sig.store a (xs.map Node.elem) h → (∀ x ∈ xs, st.sig.store.live (.elem x) = true) →
    xs.map st.sig.conn = cs.map some → h ∉ xs.map Node.elem → xs.length ≤ fuel →
    Hold.callLoop (fun _ => .none) cb comb arg h fuel (st.sig.store.next a) ⟨st, log, acc, tr⟩ =
      .ok ⟨st, log ++ cs.map (·.callback), (cs.map (·.callback)).foldl (fun ac f => accStep comb ac (cb f arg)) acc, tr⟩ := by
  intro xs
  induction xs with
  | nil =>
    intro cs a fuel log acc tr hp _ hc _ _
    have : st.sig.store.next a = h := hp.1
    cases cs with
    | nil => cases fuel <;> simp [Hold.callLoop, this]
    | cons c cs => simp at hc
  | cons x xs ih =>
    intro cs a fuel log acc tr hp hl hc hh hf
    simp only [List.map_cons, Path, Lk] at hp
    cases cs with
    | nil => simp at hc
    | cons c cs =>
      simp only [List.map_cons, List.cons.injEq] at hc
      have hx : Node.elem x ≠ h := fun e => hh (by simp [e])
      cases fuel with
      | zero => simp at hf
      | succ f =>
        have := ih (log ++ [c.callback]) (accStep comb acc (cb c.callback arg)) tr hp.2 (fun y hy => hl y (by simp [hy])) hc.2
          (fun hy => hh (by simp only [List.map_cons, List.mem_cons]; exact Or.inr hy)) (by simpa using hf)
        rw [Hold.callLoop, hp.1.1]
        simp only [hx, ite_false, iterDeref, hl x (by simp), ite_true, hc.1, Hold.runAct, Hold.actOps, rdNext, bind,
          Except.bind, List.append_nil]
        cases comb with
        | none =>
          simp only [accStep] at this ⊢
          rw [this]; simp
        | some g =>
          simp only [accStep] at this ⊢
          rw [this]; simp

end Fcppt.C11
