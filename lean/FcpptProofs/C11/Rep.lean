import FcpptProofs.C11.Ops
/-!
# C11 — the representation relation `Rep σ R`

The store `σ` is the pointer image of the set of rings `R`: every ring is linked up in `σ`, the rings are
duplicate-free and pairwise disjoint, a list head can only be the first node of its ring, and the live
nodes are exactly the nodes of the rings.
-/
set_option linter.unusedSimpArgs false
set_option linter.unusedVariables false
namespace Fcppt.C11
open Spec

structure Wf (R : Rings) : Prop where
  nodup : ∀ r ∈ R, r.Nodup
  uniq : ∀ r1 ∈ R, ∀ r2 ∈ R, ∀ x, x ∈ r1 → x ∈ r2 → r1 = r2
  tail : ∀ r ∈ R, ∀ n ∈ r.tail, ∃ e, n = Node.elem e
  ne : ∀ r ∈ R, r ≠ []

structure Rep (σ : Store) (R : Rings) : Prop where
  wf : Wf R
  ring : ∀ r ∈ R, Ring σ r
  live : ∀ n, σ.live n = true ↔ n ∈ nodes R

theorem mem_nodes {R : Rings} {n : Node} : n ∈ nodes R ↔ ∃ r ∈ R, n ∈ r := by
  simp [nodes, List.mem_flatten]

theorem mem_eraseNode {R : Rings} {y : Node} {r' : List Node} :
    r' ∈ eraseNode R y ↔ (∃ r ∈ R, r.erase y = r') ∧ r' ≠ [] := by
  simp [eraseNode, List.mem_filter, List.mem_map]

theorem mem_replaceNode {R : Rings} {y w : Node} {r' : List Node} :
    r' ∈ replaceNode R y w ↔ ∃ r ∈ R, r.map (subst y w) = r' := by
  simp [replaceNode, List.mem_map]

theorem mem_pushBack {R : Rings} {h w : Node} {r' : List Node} :
    r' ∈ pushBack R h w ↔ ∃ r ∈ R, (if r.head? = some h then r ++ [w] else r) = r' := by
  simp [pushBack, List.mem_map]

theorem head_front {R : Rings} (wf : Wf R) {r : List Node} (hr : r ∈ R) {k : Nat} (hk : Node.head k ∈ r) :
    ∃ l, r = Node.head k :: l := by
  cases r with
  | nil => simp at hk
  | cons x xs =>
    rcases List.mem_cons.1 hk with e | e
    · exact ⟨xs, by rw [e]⟩
    · obtain ⟨e', he⟩ := wf.tail _ hr _ (by simpa using e)
      cases he

theorem map_subst_of_not_mem {y w : Node} {l : List Node} (h : y ∉ l) : l.map (subst y w) = l := by
  induction l with
  | nil => rfl
  | cons a t ih =>
    simp only [List.mem_cons, not_or] at h
    simp [subst, Ne.symm h.1, ih h.2]

theorem not_mem_erase_self {y : Node} {r : List Node} (nd : r.Nodup) : y ∉ r.erase y := by
  intro h
  exact (List.Nodup.mem_erase_iff nd).1 h |>.1 rfl

/-! ### well-formedness of the abstract operations -/

theorem Wf_nil : Wf [] := ⟨by simp, by simp, by simp, by simp⟩

theorem Wf_erase {R : Rings} (wf : Wf R) (y : Node) : Wf (eraseNode R y) := by
  refine ⟨?_, ?_, ?_, ?_⟩
  · intro r' hr'
    obtain ⟨⟨r, hr, rfl⟩, _⟩ := mem_eraseNode.1 hr'
    exact (wf.nodup r hr).erase y
  · intro r1' h1 r2' h2 x hx1 hx2
    obtain ⟨⟨r1, hr1, rfl⟩, _⟩ := mem_eraseNode.1 h1
    obtain ⟨⟨r2, hr2, rfl⟩, _⟩ := mem_eraseNode.1 h2
    rw [wf.uniq r1 hr1 r2 hr2 x (List.mem_of_mem_erase hx1) (List.mem_of_mem_erase hx2)]
  · intro r' hr' n hn
    obtain ⟨⟨r, hr, rfl⟩, _⟩ := mem_eraseNode.1 hr'
    refine wf.tail r hr n ?_
    cases r with
    | nil => simp at hn
    | cons x xs =>
      by_cases e : x = y
      · subst e
        simp only [List.erase_cons_head] at hn
        exact List.mem_of_mem_tail hn
      · rw [List.erase_cons_tail (by simpa using e)] at hn
        exact List.mem_of_mem_erase hn
  · intro r' hr'
    exact (mem_eraseNode.1 hr').2

theorem Wf_cons_single {R : Rings} (wf : Wf R) {y : Node} (hy : y ∉ nodes R) : Wf ([y] :: R) := by
  have hy' : ∀ r ∈ R, y ∉ r := fun r hr h => hy (mem_nodes.2 ⟨r, hr, h⟩)
  refine ⟨?_, ?_, ?_, ?_⟩
  · intro r hr
    rcases List.mem_cons.1 hr with rfl | hr
    · simp
    · exact wf.nodup r hr
  · intro r1 h1 r2 h2 x hx1 hx2
    rcases List.mem_cons.1 h1 with rfl | h1' <;> rcases List.mem_cons.1 h2 with rfl | h2'
    · rfl
    · simp at hx1; subst hx1; exact (hy' _ h2' hx2).elim
    · simp at hx2; subst hx2; exact (hy' _ h1' hx1).elim
    · exact wf.uniq r1 h1' r2 h2' x hx1 hx2
  · intro r hr n hn
    rcases List.mem_cons.1 hr with rfl | hr
    · simp at hn
    · exact wf.tail r hr n hn
  · intro r hr
    rcases List.mem_cons.1 hr with rfl | hr
    · simp
    · exact wf.ne r hr

theorem subst_inj {R : Rings} {y w u v : Node} (hw : w ∉ nodes R) (hu : u ∈ nodes R) (hv : v ∈ nodes R)
    (h : subst y w u = subst y w v) : u = v := by
  have hu' : u ≠ w := fun e => hw (e ▸ hu)
  have hv' : v ≠ w := fun e => hw (e ▸ hv)
  simp only [subst] at h
  grind

theorem Wf_replace {R : Rings} (wf : Wf R) {y w : Node} (hw : w ∉ nodes R)
    (hk : (∃ e, w = Node.elem e) ∨ (∃ k, y = Node.head k)) : Wf (replaceNode R y w) := by
  have hw' : ∀ r ∈ R, w ∉ r := fun r hr h => hw (mem_nodes.2 ⟨r, hr, h⟩)
  refine ⟨?_, ?_, ?_, ?_⟩
  · intro r' hr'
    obtain ⟨r, hr, rfl⟩ := mem_replaceNode.1 hr'
    by_cases hy : y ∈ r
    · obtain ⟨l1, l2, rfl⟩ := List.append_of_mem hy
      have nd := wf.nodup _ hr
      have hwr := hw' _ hr
      have hnot : y ∉ l1 ∧ y ∉ l2 := by
        simp only [List.nodup_append, List.nodup_cons, List.mem_cons] at nd; grind
      rw [map_subst_mid hnot.1 hnot.2]
      simp only [List.nodup_append, List.nodup_cons, List.mem_cons, List.mem_append] at nd hwr ⊢
      grind
    · rw [map_subst_of_not_mem hy]; exact wf.nodup r hr
  · intro r1' h1 r2' h2 x hx1 hx2
    obtain ⟨r1, hr1, rfl⟩ := mem_replaceNode.1 h1
    obtain ⟨r2, hr2, rfl⟩ := mem_replaceNode.1 h2
    obtain ⟨u, hu, rfl⟩ := List.mem_map.1 hx1
    obtain ⟨v, hv, e⟩ := List.mem_map.1 hx2
    have := subst_inj hw (mem_nodes.2 ⟨r2, hr2, hv⟩) (mem_nodes.2 ⟨r1, hr1, hu⟩) e
    subst this
    rw [wf.uniq r1 hr1 r2 hr2 v hu hv]
  · intro r' hr' n hn
    obtain ⟨r, hr, rfl⟩ := mem_replaceNode.1 hr'
    rw [← List.map_tail] at hn
    obtain ⟨u, hu, rfl⟩ := List.mem_map.1 hn
    obtain ⟨e, he⟩ := wf.tail r hr u hu
    simp only [subst]
    split
    · rcases hk with hk | ⟨k, hk⟩
      · exact hk
      · subst he; rename_i h; rw [hk] at h; cases h
    · exact ⟨e, he⟩
  · intro r' hr'
    obtain ⟨r, hr, rfl⟩ := mem_replaceNode.1 hr'
    simpa using wf.ne r hr

theorem Wf_push {R : Rings} (wf : Wf R) {h : Node} {e : Nat} (hw : Node.elem e ∉ nodes R) :
    Wf (pushBack R h (Node.elem e)) := by
  have hw' : ∀ r ∈ R, Node.elem e ∉ r := fun r hr h => hw (mem_nodes.2 ⟨r, hr, h⟩)
  have key : ∀ r ∈ R, ∀ x, x ∈ (if r.head? = some h then r ++ [Node.elem e] else r) →
      x ∈ r ∨ (x = Node.elem e ∧ r.head? = some h) := by
    intro r hr x hx
    split at hx
    · simp at hx; grind
    · exact Or.inl hx
  refine ⟨?_, ?_, ?_, ?_⟩
  · intro r' hr'
    obtain ⟨r, hr, rfl⟩ := mem_pushBack.1 hr'
    split
    · have := wf.nodup r hr
      have := hw' r hr
      simp [List.nodup_append]; grind
    · exact wf.nodup r hr
  · intro r1' h1 r2' h2 x hx1 hx2
    obtain ⟨r1, hr1, rfl⟩ := mem_pushBack.1 h1
    obtain ⟨r2, hr2, rfl⟩ := mem_pushBack.1 h2
    have e12 : r1 = r2 := by
      rcases key r1 hr1 x hx1 with a | ⟨a, a'⟩ <;> rcases key r2 hr2 x hx2 with b | ⟨b, b'⟩
      · exact wf.uniq r1 hr1 r2 hr2 x a b
      · subst b; exact (hw' r1 hr1 a).elim
      · subst a; exact (hw' r2 hr2 b).elim
      · have m1 : h ∈ r1 := List.mem_of_mem_head? a'
        have m2 : h ∈ r2 := List.mem_of_mem_head? b'
        exact wf.uniq r1 hr1 r2 hr2 h m1 m2
    rw [e12]
  · intro r' hr' n hn
    obtain ⟨r, hr, rfl⟩ := mem_pushBack.1 hr'
    split at hn
    · rw [List.tail_append_of_ne_nil (wf.ne r hr)] at hn
      rcases List.mem_append.1 hn with a | a
      · exact wf.tail r hr n a
      · simp at a; exact ⟨e, a⟩
    · exact wf.tail r hr n hn
  · intro r' hr'
    obtain ⟨r, hr, rfl⟩ := mem_pushBack.1 hr'
    split
    · simp
    · exact wf.ne r hr


/-! ### membership in the node set after an abstract operation -/

theorem mem_nodes_erase {R : Rings} (wf : Wf R) {y n : Node} :
    n ∈ nodes (eraseNode R y) ↔ n ∈ nodes R ∧ n ≠ y := by
  constructor
  · intro h
    obtain ⟨r', hr', hn⟩ := mem_nodes.1 h
    obtain ⟨⟨r, hr, rfl⟩, _⟩ := mem_eraseNode.1 hr'
    refine ⟨mem_nodes.2 ⟨r, hr, List.mem_of_mem_erase hn⟩, ?_⟩
    rintro rfl
    exact not_mem_erase_self (wf.nodup r hr) hn
  · rintro ⟨h, hne⟩
    obtain ⟨r, hr, hn⟩ := mem_nodes.1 h
    have : n ∈ r.erase y := (List.mem_erase_of_ne hne).2 hn
    exact mem_nodes.2 ⟨r.erase y, mem_eraseNode.2 ⟨⟨r, hr, rfl⟩, List.ne_nil_of_mem this⟩, this⟩

theorem mem_nodes_replace {R : Rings} {y w n : Node} (hw : w ∉ nodes R) :
    n ∈ nodes (replaceNode R y w) ↔ (n ∈ nodes R ∧ n ≠ y) ∨ (n = w ∧ y ∈ nodes R) := by
  constructor
  · intro h
    obtain ⟨r', hr', hn⟩ := mem_nodes.1 h
    obtain ⟨r, hr, rfl⟩ := mem_replaceNode.1 hr'
    obtain ⟨u, hu, rfl⟩ := List.mem_map.1 hn
    have hun : u ∈ nodes R := mem_nodes.2 ⟨r, hr, hu⟩
    simp only [subst]
    split
    · rename_i e; subst e; exact Or.inr ⟨rfl, hun⟩
    · rename_i e; exact Or.inl ⟨hun, e⟩
  · rintro (⟨h, hne⟩ | ⟨rfl, h⟩)
    · obtain ⟨r, hr, hn⟩ := mem_nodes.1 h
      refine mem_nodes.2 ⟨_, mem_replaceNode.2 ⟨r, hr, rfl⟩, List.mem_map.2 ⟨n, hn, ?_⟩⟩
      simp [subst, hne]
    · obtain ⟨r, hr, hn⟩ := mem_nodes.1 h
      refine mem_nodes.2 ⟨_, mem_replaceNode.2 ⟨r, hr, rfl⟩, List.mem_map.2 ⟨y, hn, ?_⟩⟩
      simp [subst]

theorem mem_nodes_push {R : Rings} {h w n : Node} (hh : ∃ r ∈ R, r.head? = some h) :
    n ∈ nodes (pushBack R h w) ↔ n ∈ nodes R ∨ n = w := by
  constructor
  · intro hm
    obtain ⟨r', hr', hn⟩ := mem_nodes.1 hm
    obtain ⟨r, hr, rfl⟩ := mem_pushBack.1 hr'
    split at hn
    · rcases List.mem_append.1 hn with a | a
      · exact Or.inl (mem_nodes.2 ⟨r, hr, a⟩)
      · simp at a; exact Or.inr a
    · exact Or.inl (mem_nodes.2 ⟨r, hr, hn⟩)
  · rintro (hm | rfl)
    · obtain ⟨r, hr, hn⟩ := mem_nodes.1 hm
      refine mem_nodes.2 ⟨_, mem_pushBack.2 ⟨r, hr, rfl⟩, ?_⟩
      split
      · exact List.mem_append_left _ hn
      · exact hn
    · obtain ⟨r, hr, hd⟩ := hh
      refine mem_nodes.2 ⟨_, mem_pushBack.2 ⟨r, hr, rfl⟩, ?_⟩
      simp [hd]

theorem ringOf_eq {R : Rings} (wf : Wf R) {r : List Node} {n : Node} (hr : r ∈ R) (hn : n ∈ r) : ringOf R n = r := by
  unfold ringOf
  cases hf : R.find? (fun r => decide (n ∈ r)) with
  | none =>
    have := List.find?_eq_none.1 hf r hr
    simp [hn] at this
  | some r' =>
    have h1 := List.mem_of_find?_eq_some hf
    have h2 := List.find?_some hf
    simp only [decide_eq_true_eq] at h2
    simp only [Option.getD_some]
    exact wf.uniq r' h1 r hr n h2 hn

theorem not_alone_len {R : Rings} (wf : Wf R) {r : List Node} {n : Node} (hr : r ∈ R) (hn : n ∈ r)
    (ha : alone R n = false) : 2 ≤ r.length := by
  simp only [alone, ringOf_eq wf hr hn, decide_eq_false_iff_not] at ha
  omega

theorem alone_eq {R : Rings} (wf : Wf R) {r : List Node} {n : Node} (hr : r ∈ R) (hn : n ∈ r)
    (ha : alone R n = true) : r = [n] := by
  simp only [alone, ringOf_eq wf hr hn, decide_eq_true_eq] at ha
  cases r with
  | nil => simp at hn
  | cons x xs =>
    cases xs with
    | nil => simp at hn; rw [hn]
    | cons _ _ => simp at ha

/-! ### the pointer part -/

theorem Ring_ptr_eq {σ τ : Store} (hn : ∀ x, τ.next x = σ.next x) (hp : ∀ x, τ.prev x = σ.prev x)
    {r : List Node} (h : Ring σ r) : Ring τ r := by
  cases r with
  | nil => exact h
  | cons x xs => exact Path_congr (fun y _ => hn y) (fun y _ => hp y) h

theorem rings_erase {σ : Store} {R : Rings} (wf : Wf R) (ring : ∀ r ∈ R, Ring σ r) {y : Node} (hy : y ∈ nodes R) :
    ∀ r' ∈ eraseNode R y, Ring (link σ (σ.prev y) (σ.next y)) r' := by
  intro r' hr'
  obtain ⟨⟨r, hr, rfl⟩, hne⟩ := mem_eraseNode.1 hr'
  obtain ⟨ry, hry, hyy⟩ := mem_nodes.1 hy
  by_cases h : y ∈ r
  · exact Ring_erase (ring r hr) (wf.nodup r hr) h hne
  · rw [List.erase_of_not_mem h]
    refine Ring_frame ?_ ?_ (ring r hr)
    · intro hp
      have := wf.uniq r hr ry hry _ hp (Ring_prev (ring ry hry) hyy).1
      exact h (this ▸ hyy)
    · intro hp
      have := wf.uniq r hr ry hry _ hp (Ring_next (ring ry hry) hyy).1
      exact h (this ▸ hyy)

theorem rings_take {σ : Store} {R : Rings} (wf : Wf R) (ring : ∀ r ∈ R, Ring σ r) {y w : Node}
    {ry : List Node} (hry : ry ∈ R) (hyy : y ∈ ry) (hlen : 2 ≤ ry.length) (hw : w ∉ nodes R) :
    ∀ r' ∈ [y] :: replaceNode R y w, Ring (takeS σ w y) r' := by
  have hwy : w ≠ y := fun e => hw (e ▸ mem_nodes.2 ⟨ry, hry, hyy⟩)
  have hw' : ∀ r ∈ R, w ∉ r := fun r hr h => hw (mem_nodes.2 ⟨r, hr, h⟩)
  intro r' hr'
  rcases List.mem_cons.1 hr' with rfl | hr'
  · exact Ring_singleton _ _
  · obtain ⟨r, hr, rfl⟩ := mem_replaceNode.1 hr'
    have hynot : y ∉ r.map (subst y w) := by
      intro hm
      obtain ⟨u, hu, e⟩ := List.mem_map.1 hm
      simp only [subst] at e
      split at e
      · exact hwy e
      · rename_i h; exact h e
    refine Ring_frame hynot hynot ?_
    by_cases h : y ∈ r
    · have : r = ry := wf.uniq r hr ry hry y h hyy
      subst this
      exact Ring_replace (ring r hr) (wf.nodup r hr) h (hw' r hr) hlen
    · rw [map_subst_of_not_mem h]
      have hp : σ.prev y ∉ r := fun hp =>
        h ((wf.uniq r hr ry hry _ hp (Ring_prev (ring ry hry) hyy).1) ▸ hyy)
      have hn : σ.next y ∉ r := fun hp =>
        h ((wf.uniq r hr ry hry _ hp (Ring_next (ring ry hry) hyy).1) ▸ hyy)
      exact Ring_frame (hw' r hr) hn (Ring_frame hp (hw' r hr) (ring r hr))

theorem rings_push {σ : Store} {R : Rings} (wf : Wf R) (ring : ∀ r ∈ R, Ring σ r) {k : Nat} {w : Node}
    (hh : Node.head k ∈ nodes R) (hw : w ∉ nodes R) :
    ∀ r' ∈ pushBack R (Node.head k) w, Ring (link (link σ (σ.prev (Node.head k)) w) w (Node.head k)) r' := by
  have hw' : ∀ r ∈ R, w ∉ r := fun r hr h => hw (mem_nodes.2 ⟨r, hr, h⟩)
  obtain ⟨rh, hrh, hhh⟩ := mem_nodes.1 hh
  intro r' hr'
  obtain ⟨r, hr, rfl⟩ := mem_pushBack.1 hr'
  split
  · rename_i hd
    obtain ⟨l, rfl⟩ := head_front wf hr (List.mem_of_mem_head? hd)
    exact Ring_push (ring _ hr) (wf.nodup _ hr) (hw' _ hr)
  · rename_i hd
    have hnot : Node.head k ∉ r := by
      intro hm
      obtain ⟨l, rfl⟩ := head_front wf hr hm
      exact hd rfl
    have hp : σ.prev (Node.head k) ∉ r := fun hp =>
      hnot ((wf.uniq r hr rh hrh _ hp (Ring_prev (ring rh hrh) hhh).1) ▸ hhh)
    exact Ring_frame (hw' r hr) hnot (Ring_frame hp (hw' r hr) (ring r hr))

/-! ### facts a representation gives about liveness -/

theorem Rep.live_of_mem {σ : Store} {R : Rings} (rep : Rep σ R) {n : Node} (h : n ∈ nodes R) : σ.live n = true :=
  (rep.live n).2 h

theorem Rep.dead_of_not_mem {σ : Store} {R : Rings} (rep : Rep σ R) {n : Node} (h : n ∉ nodes R) : σ.live n = false := by
  cases e : σ.live n with
  | false => rfl
  | true => exact (h ((rep.live n).1 e)).elim

theorem Rep.next_mem {σ : Store} {R : Rings} (rep : Rep σ R) {n : Node} (h : n ∈ nodes R) : σ.next n ∈ nodes R := by
  obtain ⟨r, hr, hn⟩ := mem_nodes.1 h
  exact mem_nodes.2 ⟨r, hr, (Ring_next (rep.ring r hr) hn).1⟩

theorem Rep.prev_mem {σ : Store} {R : Rings} (rep : Rep σ R) {n : Node} (h : n ∈ nodes R) : σ.prev n ∈ nodes R := by
  obtain ⟨r, hr, hn⟩ := mem_nodes.1 h
  exact mem_nodes.2 ⟨r, hr, (Ring_prev (rep.ring r hr) hn).1⟩

end Fcppt.C11
