import FcpptProofs.C11.Ops
/-!
# C11 — the representation relation `Rep σ R`

The store `σ` is the pointer image of the set of rings `R`: every ring is linked up in `σ`, the rings are
duplicate-free and pairwise disjoint, a list head can only be the first node of its ring, and the live
nodes are exactly the nodes of the rings.
-/
set_option linter.unusedSimpArgs false
set_option linter.unusedVariables false
namespace Fcppt.C11
open Spec

structure Wf (R : Rings) : Prop where
  nodup : ∀ r ∈ R, r.Nodup
  uniq : ∀ r1 ∈ R, ∀ r2 ∈ R, ∀ x, x ∈ r1 → x ∈ r2 → r1 = r2
  tail : ∀ r ∈ R, ∀ n ∈ r.tail, ∃ e, n = Node.elem e
  ne : ∀ r ∈ R, r ≠ []

structure Rep (σ : Store) (R : Rings) : Prop where
  wf : Wf R
  ring : ∀ r ∈ R, Ring σ r
  live : ∀ n, σ.live n = true ↔ n ∈ nodes R

theorem mem_nodes {R : Rings} {n : Node} : n ∈ nodes R ↔ ∃ r ∈ R, n ∈ r := by
  simp [nodes, List.mem_flatten]

theorem mem_eraseNode {R : Rings} {y : Node} {r' : List Node} :
    r' ∈ eraseNode R y ↔ (∃ r ∈ R, r.erase y = r') ∧ r' ≠ [] := by
  simp [eraseNode, List.mem_filter, List.mem_map]

theorem mem_replaceNode {R : Rings} {y w : Node} {r' : List Node} :
    r' ∈ replaceNode R y w ↔ ∃ r ∈ R, r.map (subst y w) = r' := by
  simp [replaceNode, List.mem_map]

theorem mem_pushBack {R : Rings} {h w : Node} {r' : List Node} :
    r' ∈ pushBack R h w ↔ ∃ r ∈ R, (if r.head? = some h then r ++ [w] else r) = r' := by
  simp [pushBack, List.mem_map]

theorem head_front {R : Rings} (wf : Wf R) {r : List Node} (hr : r ∈ R) {k : Nat} (hk : Node.head k ∈ r) :
    ∃ l, r = Node.head k :: l := by
  cases r with
  | nil => simp at hk
  | cons x xs =>
    rcases List.mem_cons.1 hk with e | e
    · exact ⟨xs, by rw [e]⟩
    · obtain ⟨e', he⟩ := wf.tail _ hr _ (by simpa using e)
      cases he

theorem map_subst_of_not_mem {y w : Node} {l : List Node} (h : y ∉ l) : l.map (subst y w) = l := by
  induction l with
  | nil => rfl
  | cons a t ih =>
    simp only [List.mem_cons, not_or] at h
    simp [subst, Ne.symm h.1, ih h.2]

theorem not_mem_erase_self {y : Node} {r : List Node} (nd : r.Nodup) : y ∉ r.erase y := by
  intro h
  exact (List.Nodup.mem_erase_iff nd).1 h |>.1 rfl

/-! ### well-formedness of the abstract operations -/

theorem Wf_nil : Wf [] := ⟨by simp, by simp, by simp, by simp⟩

theorem Wf_erase {R : Rings} (wf : Wf R) (y : Node) : Wf (eraseNode R y) := by
  refine ⟨?_, ?_, ?_, ?_⟩
  · intro r' hr'
    obtain ⟨⟨r, hr, rfl⟩, _⟩ := mem_eraseNode.1 hr'
    exact (wf.nodup r hr).erase y
  · intro r1' h1 r2' h2 x hx1 hx2
    obtain ⟨⟨r1, hr1, rfl⟩, _⟩ := mem_eraseNode.1 h1
    obtain ⟨⟨r2, hr2, rfl⟩, _⟩ := mem_eraseNode.1 h2
    rw [wf.uniq r1 hr1 r2 hr2 x (List.mem_of_mem_erase hx1) (List.mem_of_mem_erase hx2)]
  · intro r' hr' n hn
    obtain ⟨⟨r, hr, rfl⟩, _⟩ := mem_eraseNode.1 hr'
    refine wf.tail r hr n ?_
    cases r with
    | nil => simp at hn
    | cons x xs =>
      by_cases e : x = y
      · subst e
        simp only [List.erase_cons_head] at hn
        exact List.mem_of_mem_tail hn
      · rw [List.erase_cons_tail (by simpa using e)] at hn
        exact List.mem_of_mem_erase hn
  · intro r' hr'
    exact (mem_eraseNode.1 hr').2

theorem Wf_cons_single {R : Rings} (wf : Wf R) {y : Node} (hy : y ∉ nodes R) : Wf ([y] :: R) := by
  have hy' : ∀ r ∈ R, y ∉ r := fun r hr h => hy (mem_nodes.2 ⟨r, hr, h⟩)
  refine ⟨?_, ?_, ?_, ?_⟩
  · intro r hr
    rcases List.mem_cons.1 hr with rfl | hr
    · simp
    · exact wf.nodup r hr
  · intro r1 h1 r2 h2 x hx1 hx2
    rcases List.mem_cons.1 h1 with rfl | h1' <;> rcases List.mem_cons.1 h2 with rfl | h2'
    · rfl
    · simp at hx1; subst hx1; exact (hy' _ h2' hx2).elim
    · simp at hx2; subst hx2; exact (hy' _ h1' hx1).elim
    · exact wf.uniq r1 h1' r2 h2' x hx1 hx2
  · intro r hr n hn
    rcases List.mem_cons.1 hr with rfl | hr
    · simp at hn
    · exact wf.tail r hr n hn
  · intro r hr
    rcases List.mem_cons.1 hr with rfl | hr
    · simp
    · exact wf.ne r hr

theorem subst_inj {R : Rings} {y w u v : Node} (hw : w ∉ nodes R) (hu : u ∈ nodes R) (hv : v ∈ nodes R)
    (h : subst y w u = subst y w v) : u = v := by
  have hu' : u ≠ w := fun e => hw (e ▸ hu)
  have hv' : v ≠ w := fun e => hw (e ▸ hv)
  simp only [subst] at h
  grind

theorem Wf_replace {R : Rings} (wf : Wf R) {y w : Node} (hw : w ∉ nodes R)
    (hk : (∃ e, w = Node.elem e) ∨ (∃ k, y = Node.head k)) : Wf (replaceNode R y w) := by
  have hw' : ∀ r ∈ R, w ∉ r := fun r hr h => hw (mem_nodes.2 ⟨r, hr, h⟩)
  refine ⟨?_, ?_, ?_, ?_⟩
  · intro r' hr'
    obtain ⟨r, hr, rfl⟩ := mem_replaceNode.1 hr'
    by_cases hy : y ∈ r
    · obtain ⟨l1, l2, rfl⟩ := List.append_of_mem hy
      have nd := wf.nodup _ hr
      have hwr := hw' _ hr
      have hnot : y ∉ l1 ∧ y ∉ l2 := by
        simp only [List.nodup_append, List.nodup_cons, List.mem_cons] at nd; grind
      rw [map_subst_mid hnot.1 hnot.2]
      simp only [List.nodup_append, List.nodup_cons, List.mem_cons, List.mem_append] at nd hwr ⊢
      grind
    · rw [map_subst_of_not_mem hy]; exact wf.nodup r hr
  · intro r1' h1 r2' h2 x hx1 hx2
    obtain ⟨r1, hr1, rfl⟩ := mem_replaceNode.1 h1
    obtain ⟨r2, hr2, rfl⟩ := mem_replaceNode.1 h2
    obtain ⟨u, hu, rfl⟩ := List.mem_map.1 hx1
    obtain ⟨v, hv, e⟩ := List.mem_map.1 hx2
    have := subst_inj hw (mem_nodes.2 ⟨r2, hr2, hv⟩) (mem_nodes.2 ⟨r1, hr1, hu⟩) e
    subst this
    rw [wf.uniq r1 hr1 r2 hr2 v hu hv]
  · intro r' hr' n hn
    obtain ⟨r, hr, rfl⟩ := mem_replaceNode.1 hr'
    rw [← List.map_tail] at hn
    obtain ⟨u, hu, rfl⟩ := List.mem_map.1 hn
    obtain ⟨e, he⟩ := wf.tail r hr u hu
    simp only [subst]
    split
    · rcases hk with hk | ⟨k, hk⟩
      · exact hk
      · subst he; rename_i h; rw [hk] at h; cases h
    · exact ⟨e, he⟩
  · intro r' hr'
    obtain ⟨r, hr, rfl⟩ := mem_replaceNode.1 hr'
    simpa using wf.ne r hr

theorem Wf_push {R : Rings} (wf : Wf R) {h : Node} {e : Nat} (hw : Node.elem e ∉ nodes R) :
    Wf (pushBack R h (Node.elem e)) := by
  have hw' : ∀ r ∈ R, Node.elem e ∉ r := fun r hr h => hw (mem_nodes.2 ⟨r, hr, h⟩)
  have key : ∀ r ∈ R, ∀ x, x ∈ (if r.head? = some h then r ++ [Node.elem e] else r) →
      x ∈ r ∨ (x = Node.elem e ∧ r.head? = some h) := by
    intro r hr x hx
    split at hx
    · simp at hx; grind
    · exact Or.inl hx
  refine ⟨?_, ?_, ?_, ?_⟩
  · intro r' hr'
    obtain ⟨r, hr, rfl⟩ := mem_pushBack.1 hr'
    split
    · have := wf.nodup r hr
      have := hw' r hr
      simp [List.nodup_append]; grind
    · exact wf.nodup r hr
  · intro r1' h1 r2' h2 x hx1 hx2
    obtain ⟨r1, hr1, rfl⟩ := mem_pushBack.1 h1
    obtain ⟨r2, hr2, rfl⟩ := mem_pushBack.1 h2
    have e12 : r1 = r2 := by
      rcases key r1 hr1 x hx1 with a | ⟨a, a'⟩ <;> rcases key r2 hr2 x hx2 with b | ⟨b, b'⟩
      · exact wf.uniq r1 hr1 r2 hr2 x a b
      · subst b; exact (hw' r1 hr1 a).elim
      · subst a; exact (hw' r2 hr2 b).elim
      · have m1 : h ∈ r1 := List.mem_of_mem_head? a'
        have m2 : h ∈ r2 := List.mem_of_mem_head? b'
        exact wf.uniq r1 hr1 r2 hr2 h m1 m2
    rw [e12]
  · intro r' hr' n hn
    obtain ⟨r, hr, rfl⟩ := mem_pushBack.1 hr'
    split at hn
    · rw [List.tail_append_of_ne_nil (wf.ne r hr)] at hn
      rcases List.mem_append.1 hn with a | a
      · exact wf.tail r hr n a
      · simp at a; exact ⟨e, a⟩
    · exact wf.tail r hr n hn
  · intro r' hr'
    obtain ⟨r, hr, rfl⟩ := mem_pushBack.1 hr'
    split
    · simp
    · exact wf.ne r hr

end Fcppt.C11
