import FcpptModel.Spec.C11
/-!
# C11 — links, paths and rings in a pointer store

`Lk σ a b`: `a->next_ == b && b->prev_ == a`.  `Path σ a l b`: `a`, the nodes of `l`, `b` are linked
consecutively.  `Ring σ (x :: xs)`: `Path σ x xs x`.  `link σ a b` performs the two pointer writes
`a->next_ = b; b->prev_ = a`; every special member of `intrusive::base` is a short sequence of
`link`s (`FcpptProofs/C11/Ops.lean`).
-/
namespace Fcppt.C11

theorem Store.ext' {σ τ : Store} (h1 : ∀ x, σ.live x = τ.live x) (h2 : ∀ x, σ.prev x = τ.prev x)
    (h3 : ∀ x, σ.next x = τ.next x) : σ = τ := by
  cases σ; cases τ
  simp only [Store.mk.injEq]
  exact ⟨funext h1, funext h2, funext h3⟩

def Lk (σ : Store) (a b : Node) : Prop := σ.next a = b ∧ σ.prev b = a

/-- `a->next_ = b; b->prev_ = a;` -/
def link (σ : Store) (a b : Node) : Store := (σ.setNext a b).setPrev b a

@[simp] theorem link_next (σ : Store) (a b x : Node) : (link σ a b).next x = if x = a then b else σ.next x := rfl
@[simp] theorem link_prev (σ : Store) (a b x : Node) : (link σ a b).prev x = if x = b then a else σ.prev x := rfl
@[simp] theorem link_live (σ : Store) (a b : Node) : (link σ a b).live = σ.live := rfl

theorem Lk_link_self (σ : Store) (a b : Node) : Lk (link σ a b) a b := by simp [Lk]

theorem Lk_link_other {σ : Store} {a b c d : Node} (h1 : c ≠ a) (h2 : d ≠ b) (h : Lk σ c d) :
    Lk (link σ a b) c d := by
  simpa [Lk, h1, h2] using h

def Path (σ : Store) : Node → List Node → Node → Prop
  | a, [], b => Lk σ a b
  | a, y :: ys, b => Lk σ a y ∧ Path σ y ys b

def Ring (σ : Store) : List Node → Prop
  | [] => False
  | x :: xs => Path σ x xs x

theorem Path_append {σ : Store} {a b y : Node} {l1 l2 : List Node} :
    Path σ a (l1 ++ y :: l2) b ↔ Path σ a l1 y ∧ Path σ y l2 b := by
  induction l1 generalizing a with
  | nil => simp [Path]
  | cons z zs ih => simp [Path, ih, and_assoc]

/-- a path only depends on `next` of `a :: l` and `prev` of `l ++ [b]` -/
theorem Path_congr {σ τ : Store} {a b : Node} {l : List Node}
    (hn : ∀ x ∈ a :: l, τ.next x = σ.next x) (hp : ∀ x ∈ l ++ [b], τ.prev x = σ.prev x)
    (h : Path σ a l b) : Path τ a l b := by
  induction l generalizing a with
  | nil =>
    simp only [Path, Lk] at *
    rw [hn a (by simp), hp b (by simp)]; exact h
  | cons z zs ih =>
    simp only [Path, Lk] at *
    refine ⟨⟨?_, ?_⟩, ih (fun x hx => hn x (by simp at hx ⊢; grind)) (fun x hx => hp x (by simp at hx ⊢; grind)) h.2⟩
    · rw [hn a (by simp)]; exact h.1.1
    · rw [hp z (by simp)]; exact h.1.2

theorem Path_frame {σ : Store} {a b c d : Node} {l : List Node} (hc : c ∉ a :: l) (hd : d ∉ l ++ [b])
    (h : Path σ a l b) : Path (link σ c d) a l b := by
  refine Path_congr (fun x hx => ?_) (fun x hx => ?_) h
  · have : x ≠ c := fun e => hc (e ▸ hx)
    simp [this]
  · have : x ≠ d := fun e => hd (e ▸ hx)
    simp [this]

theorem Path_next {σ : Store} {a b n : Node} {l : List Node} (h : Path σ a l b) (hn : n ∈ a :: l) :
    σ.next n ∈ l ++ [b] ∧ σ.prev (σ.next n) = n := by
  induction l generalizing a with
  | nil =>
    simp only [Path, Lk] at h
    simp at hn; subst hn
    simp [h.1, h.2]
  | cons z zs ih =>
    simp only [Path, Lk] at h
    rcases List.mem_cons.1 hn with rfl | hn'
    · simp [h.1.1, h.1.2]
    · have := ih h.2 hn'
      exact ⟨by simp [List.mem_append] at this ⊢; grind, this.2⟩

theorem Path_prev {σ : Store} {a b n : Node} {l : List Node} (h : Path σ a l b) (hn : n ∈ l ++ [b]) :
    σ.prev n ∈ a :: l ∧ σ.next (σ.prev n) = n := by
  induction l generalizing a with
  | nil =>
    simp only [Path, Lk] at h
    simp at hn; subst hn
    simp [h.1, h.2]
  | cons z zs ih =>
    simp only [Path, Lk] at h
    rcases List.mem_cons.1 (by simpa using hn : n ∈ z :: (zs ++ [b])) with rfl | hn'
    · simp [h.1.1, h.1.2]
    · have := ih h.2 hn'
      exact ⟨List.mem_cons_of_mem _ this.1, this.2⟩

/-- unlinking `y` from the middle of a path: `y->next_->prev_ = y->prev_; y->prev_->next_ = y->next_` -/
theorem Path_erase_mid {σ : Store} {a b y : Node} {l1 l2 : List Node}
    (h : Path σ a (l1 ++ y :: l2) b) (nd : (a :: (l1 ++ y :: l2)).Nodup) (hb : b ∉ l1 ++ y :: l2) :
    Path (link σ (σ.prev y) (σ.next y)) a (l1 ++ l2) b := by
  induction l1 generalizing a with
  | nil =>
    simp only [List.nil_append, Path] at h ⊢
    have hp : σ.prev y = a := h.1.2
    cases l2 with
    | nil =>
      simp only [Path] at h ⊢
      rw [hp, h.2.1]; exact Lk_link_self _ _ _
    | cons n l2' =>
      simp only [Path] at h ⊢
      rw [hp, h.2.1.1]
      refine ⟨Lk_link_self _ _ _, Path_frame ?_ ?_ h.2.2⟩
      · simp only [List.nil_append, List.nodup_cons, List.mem_cons] at nd; grind
      · simp only [List.nil_append, List.nodup_cons, List.mem_cons, List.mem_append] at nd hb ⊢; grind
  | cons z zs ih =>
    simp only [List.cons_append, Path] at h ⊢
    have nd' : (z :: (zs ++ y :: l2)).Nodup := (List.nodup_cons.1 nd).2
    have hb' : b ∉ zs ++ y :: l2 := fun hx => hb (by simp at hx ⊢; grind)
    refine ⟨?_, ih h.2 nd' hb'⟩
    have hsplit := Path_append.1 h.2
    have hp := (Path_prev hsplit.1 (by simp : y ∈ zs ++ [y])).1
    have hn := (Path_next hsplit.2 (by simp : y ∈ y :: l2)).1
    refine Lk_link_other ?_ ?_ h.1
    · intro e; rw [e] at nd; simp only [List.cons_append, List.nodup_cons] at nd
      exact nd.1 (by simp at hp ⊢; grind)
    · intro e; rw [e] at nd hb
      simp only [List.cons_append, List.nodup_cons, List.mem_append, List.mem_cons] at nd hb hn
      simp at hn; grind


/-- `w` takes the place of `y`: `w->prev_ = y->prev_; w->next_ = y->next_; w->prev_->next_ = w; w->next_->prev_ = w` -/
theorem Path_replace_mid {σ : Store} {a b y w : Node} {l1 l2 : List Node}
    (h : Path σ a (l1 ++ y :: l2) b) (nd : (a :: (l1 ++ y :: l2)).Nodup) (hb : b ∉ l1 ++ y :: l2)
    (hw : w ∉ a :: (l1 ++ y :: l2)) (hwb : w ≠ b) :
    Path (link (link σ (σ.prev y) w) w (σ.next y)) a (l1 ++ w :: l2) b := by
  induction l1 generalizing a with
  | nil =>
    simp only [List.nil_append, Path] at h ⊢
    have hp : σ.prev y = a := h.1.2
    have hwa : w ≠ a := fun e => hw (by simp [e])
    cases l2 with
    | nil =>
      simp only [Path] at h ⊢
      rw [hp, h.2.1]
      exact ⟨Lk_link_other (Ne.symm hwa) hwb (Lk_link_self _ _ _), Lk_link_self _ _ _⟩
    | cons n l2' =>
      simp only [Path] at h ⊢
      rw [hp, h.2.1.1]
      simp only [List.nil_append, List.nodup_cons, List.mem_cons, List.mem_append, not_or] at nd hb hw
      have hwn : w ≠ n := by grind
      refine ⟨Lk_link_other (Ne.symm hwa) hwn (Lk_link_self _ _ _), Lk_link_self _ _ _, ?_⟩
      refine Path_frame ?_ ?_ (Path_frame ?_ ?_ h.2.2)
      · simp; grind
      · simp; grind
      · simp; grind
      · simp; grind
  | cons z zs ih =>
    simp only [List.cons_append, Path] at h ⊢
    have nd' : (z :: (zs ++ y :: l2)).Nodup := (List.nodup_cons.1 nd).2
    have hb' : b ∉ zs ++ y :: l2 := fun hx => hb (by simp at hx ⊢; grind)
    have hw' : w ∉ z :: (zs ++ y :: l2) := fun hx => hw (by simp at hx ⊢; grind)
    refine ⟨?_, ih h.2 nd' hb' hw'⟩
    have hsplit := Path_append.1 h.2
    have hp := (Path_prev hsplit.1 (by simp : y ∈ zs ++ [y])).1
    have hn := (Path_next hsplit.2 (by simp : y ∈ y :: l2)).1
    have hwa : a ≠ w := fun e => hw (by simp [e])
    have hwz : z ≠ w := fun e => hw (by simp [e])
    refine Lk_link_other hwa ?_ (Lk_link_other ?_ hwz h.1)
    · intro e; rw [e] at nd hb
      simp only [List.cons_append, List.nodup_cons, List.mem_append, List.mem_cons] at nd hb hn
      simp at hn; grind
    · intro e; rw [e] at nd; simp only [List.cons_append, List.nodup_cons] at nd
      exact nd.1 (by simp at hp ⊢; grind)

/-- `w` is linked in front of the end point `b`: `w->prev_ = b->prev_; w->next_ = b; b->prev_->next_ = w; b->prev_ = w` -/
theorem Path_snoc {σ : Store} {a b w : Node} {l : List Node}
    (h : Path σ a l b) (nd : (a :: l).Nodup) (hb : b ∉ l) (hw : w ∉ a :: l) (hwb : w ≠ b) :
    Path (link (link σ (σ.prev b) w) w b) a (l ++ [w]) b := by
  induction l generalizing a with
  | nil =>
    simp only [List.nil_append, Path] at h ⊢
    have hwa : a ≠ w := fun e => hw (by simp [e])
    rw [h.2]
    exact ⟨Lk_link_other hwa hwb (Lk_link_self _ _ _), Lk_link_self _ _ _⟩
  | cons z zs ih =>
    simp only [List.cons_append, Path] at h ⊢
    have nd' := (List.nodup_cons.1 nd).2
    have hb' : b ∉ zs := fun hx => hb (by simp [hx])
    have hw' : w ∉ z :: zs := fun hx => hw (by simp at hx ⊢; grind)
    refine ⟨?_, ih h.2 nd' hb' hw'⟩
    have hp := (Path_prev h.2 (by simp : b ∈ zs ++ [b])).1
    have hwa : a ≠ w := fun e => hw (by simp [e])
    have hwz : z ≠ w := fun e => hw (by simp [e])
    refine Lk_link_other hwa ?_ (Lk_link_other ?_ hwz h.1)
    · intro e; exact hb (by simp [e])
    · intro e; rw [e] at nd; exact (List.nodup_cons.1 nd).1 hp

/-! ## Rings -/

theorem Ring_ne_nil {σ : Store} {r : List Node} (h : Ring σ r) : r ≠ [] := by
  cases r <;> simp_all [Ring]

theorem Ring_singleton (σ : Store) (y : Node) : Ring (link σ y y) [y] := Lk_link_self _ _ _

theorem Ring_rotate {σ : Store} {x y : Node} {l : List Node} : Ring σ (x :: y :: l) ↔ Ring σ (y :: (l ++ [x])) := by
  simp only [Ring, Path]
  rw [Path_append]
  simp only [Path]
  exact And.comm

theorem Ring_frame {σ : Store} {c d : Node} {r : List Node} (hc : c ∉ r) (hd : d ∉ r) (h : Ring σ r) :
    Ring (link σ c d) r := by
  cases r with
  | nil => exact h
  | cons x xs =>
    refine Path_frame hc ?_ h
    simp at hd ⊢; grind

/-- every node of a ring has its neighbours in the ring, and they point back -/
theorem Ring_next {σ : Store} {r : List Node} {n : Node} (h : Ring σ r) (hn : n ∈ r) :
    σ.next n ∈ r ∧ σ.prev (σ.next n) = n := by
  cases r with
  | nil => exact h.elim
  | cons x xs =>
    have := Path_next h hn
    exact ⟨by simp at this ⊢; grind, this.2⟩

theorem Ring_prev {σ : Store} {r : List Node} {n : Node} (h : Ring σ r) (hn : n ∈ r) :
    σ.prev n ∈ r ∧ σ.next (σ.prev n) = n := by
  cases r with
  | nil => exact h.elim
  | cons x xs =>
    have := Path_prev (n := n) h (by simp at hn ⊢; grind)
    exact this

/-- a one-node ring is a self-loop -/
theorem Ring_single_iff {σ : Store} {y : Node} : Ring σ [y] ↔ σ.next y = y ∧ σ.prev y = y := Iff.rfl

theorem Ring_erase_tail {σ : Store} {x y : Node} {l1 l2 : List Node}
    (h : Ring σ (x :: (l1 ++ y :: l2))) (nd : (x :: (l1 ++ y :: l2)).Nodup) :
    Ring (link σ (σ.prev y) (σ.next y)) (x :: (l1 ++ l2)) :=
  Path_erase_mid h nd (List.nodup_cons.1 nd).1

theorem Ring_erase_head {σ : Store} {y z : Node} {l : List Node}
    (h : Ring σ (y :: z :: l)) (nd : (y :: z :: l).Nodup) :
    Ring (link σ (σ.prev y) (σ.next y)) (z :: l) := by
  have h' := Ring_rotate.1 h
  have nd' : (z :: (l ++ y :: [])).Nodup := by
    simp only [List.nodup_cons, List.mem_cons, List.nodup_append, List.mem_append] at nd ⊢; simp; grind
  have := Ring_erase_tail (l2 := []) h' nd'
  simpa using this

theorem Ring_erase {σ : Store} {r : List Node} {y : Node} (h : Ring σ r) (nd : r.Nodup) (hy : y ∈ r)
    (hne : r.erase y ≠ []) : Ring (link σ (σ.prev y) (σ.next y)) (r.erase y) := by
  cases r with
  | nil => exact h.elim
  | cons x xs =>
    by_cases hxy : x = y
    · subst hxy
      simp only [List.erase_cons_head] at hne ⊢
      cases xs with
      | nil => exact (hne rfl).elim
      | cons z l => exact Ring_erase_head h nd
    · have hy' : y ∈ xs := by simp at hy; grind
      obtain ⟨l1, l2, rfl⟩ := List.append_of_mem hy'
      have hnot : y ∉ l1 := by
        simp only [List.nodup_cons, List.nodup_append, List.mem_append, List.mem_cons] at nd; grind
      have : (x :: (l1 ++ y :: l2)).erase y = x :: (l1 ++ l2) := by
        rw [List.erase_cons_tail (by simpa using hxy), List.erase_append_right _ hnot, List.erase_cons_head]
      rw [this]
      exact Ring_erase_tail h nd

def subst' (y w : Node) (x : Node) : Node := Spec.subst y w x

theorem map_subst_mid {y w : Node} {l1 l2 : List Node} (h1 : y ∉ l1) (h2 : y ∉ l2) :
    (l1 ++ y :: l2).map (Spec.subst y w) = l1 ++ w :: l2 := by
  have e : ∀ l : List Node, y ∉ l → l.map (Spec.subst y w) = l := by
    intro l hl
    induction l with
    | nil => rfl
    | cons a t ih =>
      simp only [List.mem_cons, not_or] at hl
      simp [Spec.subst, Ne.symm hl.1, ih hl.2]
  simp [e l1 h1, e l2 h2, Spec.subst]

theorem Ring_replace_tail {σ : Store} {x y w : Node} {l1 l2 : List Node}
    (h : Ring σ (x :: (l1 ++ y :: l2))) (nd : (x :: (l1 ++ y :: l2)).Nodup) (hw : w ∉ x :: (l1 ++ y :: l2)) :
    Ring (link (link σ (σ.prev y) w) w (σ.next y)) (x :: (l1 ++ w :: l2)) :=
  Path_replace_mid h nd (List.nodup_cons.1 nd).1 hw (fun e => hw (by simp [e]))

theorem Ring_replace {σ : Store} {r : List Node} {y w : Node} (h : Ring σ r) (nd : r.Nodup) (hy : y ∈ r)
    (hw : w ∉ r) (hlen : 2 ≤ r.length) :
    Ring (link (link σ (σ.prev y) w) w (σ.next y)) (r.map (Spec.subst y w)) := by
  cases r with
  | nil => exact h.elim
  | cons x xs =>
    by_cases hxy : x = y
    · subst hxy
      cases xs with
      | nil => simp at hlen
      | cons z l =>
        have h' := Ring_rotate.1 h
        have nd' : (z :: (l ++ x :: [])).Nodup := by
          simp only [List.nodup_cons, List.mem_cons, List.nodup_append, List.mem_append] at nd ⊢; simp; grind
        have hw' : w ∉ z :: (l ++ x :: []) := by simp at hw ⊢; grind
        have := Ring_replace_tail (l2 := []) h' nd' hw'
        have hx : x ∉ z :: l := (List.nodup_cons.1 nd).1
        have e := map_subst_mid (y := x) (w := w) (l1 := []) (l2 := z :: l) (by simp) hx
        simp only [List.nil_append] at e
        rw [e]
        exact Ring_rotate.2 this
    · have hy' : y ∈ xs := by simp at hy; grind
      obtain ⟨l1, l2, rfl⟩ := List.append_of_mem hy'
      have hnot : y ∉ l1 ∧ y ∉ l2 := by
        simp only [List.nodup_cons, List.nodup_append, List.mem_append, List.mem_cons] at nd; grind
      have e := map_subst_mid (y := y) (w := w) (l1 := x :: l1) (l2 := l2)
        (by simp; exact ⟨Ne.symm hxy, hnot.1⟩) hnot.2
      simp only [List.cons_append] at e
      rw [e]
      exact Ring_replace_tail h nd hw

/-- `base(list&)`: `w` goes in front of the head `h` = at the end of the ring written head-first -/
theorem Ring_push {σ : Store} {h w : Node} {l : List Node}
    (hr : Ring σ (h :: l)) (nd : (h :: l).Nodup) (hw : w ∉ h :: l) :
    Ring (link (link σ (σ.prev h) w) w h) (h :: (l ++ [w])) :=
  Path_snoc hr nd (List.nodup_cons.1 nd).1 hw (fun e => hw (by simp [e]))

end Fcppt.C11
