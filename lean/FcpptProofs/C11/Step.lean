import FcpptProofs.C11.Rep
/-!
# C11 — every operation preserves the representation and refines the abstract operation
-/
set_option linter.unusedSimpArgs false
set_option linter.unusedVariables false
namespace Fcppt.C11
open Spec

theorem nodes_cons {R : Rings} {r : List Node} {n : Node} : n ∈ nodes (r :: R) ↔ n ∈ r ∨ n ∈ nodes R := by
  simp [nodes]

theorem Ring_congr_on {σ τ : Store} {r : List Node} (hn : ∀ x ∈ r, τ.next x = σ.next x)
    (hp : ∀ x ∈ r, τ.prev x = σ.prev x) (h : Ring σ r) : Ring τ r := by
  cases r with
  | nil => exact h
  | cons x xs =>
    refine Path_congr (fun y hy => hn y hy) (fun y hy => hp y ?_) h
    simp at hy ⊢; grind

theorem Path_next_ne {σ : Store} {a b n : Node} {l : List Node} (h : Path σ a l b) (nd : (a :: l).Nodup)
    (hb : b ∉ l) (hne : a ≠ b ∨ l ≠ []) (hn : n ∈ a :: l) : σ.next n ≠ n := by
  induction l generalizing a with
  | nil =>
    simp at hn; subst hn
    have : σ.next n = b := h.1
    rw [this]; rcases hne with e | e
    · exact Ne.symm e
    · exact (e rfl).elim
  | cons z zs ih =>
    simp only [Path, Lk] at h
    rcases List.mem_cons.1 hn with rfl | hn'
    · rw [h.1.1]; intro e; rw [e] at nd; simp at nd
    · refine ih h.2 (List.nodup_cons.1 nd).2 (fun hx => hb (by simp [hx])) (Or.inl ?_) hn'
      intro e; exact hb (by simp [e])

theorem next_self_iff' {σ : Store} {R : Rings} (wf : Wf R) (ring : ∀ r ∈ R, Ring σ r) {n : Node} (hn : n ∈ nodes R) :
    (σ.next n == n) = alone R n := by
  obtain ⟨r, hr, hnr⟩ := mem_nodes.1 hn
  cases ha : alone R n with
  | true =>
    have := alone_eq wf hr hnr ha
    subst this
    have := Ring_single_iff.1 (ring _ hr)
    simp [this.1]
  | false =>
    have hl := not_alone_len wf hr hnr ha
    have hring := ring r hr
    have nd := wf.nodup r hr
    cases r with
    | nil => simp at hnr
    | cons x xs =>
      have : σ.next n ≠ n :=
        Path_next_ne hring nd (List.nodup_cons.1 nd).1 (Or.inr (by intro e; subst e; simp at hl)) hnr
      simpa using this

theorem next_self_iff {σ : Store} {R : Rings} (rep : Rep σ R) {n : Node} (hn : n ∈ nodes R) :
    (σ.next n == n) = alone R n := next_self_iff' rep.wf rep.ring hn

theorem listEmpty_eq {σ : Store} {R : Rings} (rep : Rep σ R) {h : Node} (hh : h ∈ nodes R) :
    listEmpty σ h = .ok (alone R h) := by
  simp [listEmpty, rdNext, rep.live_of_mem hh, bind, Except.bind, next_self_iff rep hh]

theorem eraseNode_cons_single {R : Rings} (wf : Wf R) {y : Node} (hy : y ∉ nodes R) : eraseNode ([y] :: R) y = R := by
  have hy' : ∀ r ∈ R, y ∉ r := fun r hr h => hy (mem_nodes.2 ⟨r, hr, h⟩)
  have : ∀ L : Rings, (∀ r ∈ L, y ∉ r ∧ r ≠ []) → (L.map (fun r => r.erase y)).filter (fun r => !r.isEmpty) = L := by
    intro L hL
    induction L with
    | nil => rfl
    | cons r t ih =>
      have h1 := hL r (by simp)
      have : r.isEmpty = false := by cases r <;> simp_all
      simp [List.erase_of_not_mem h1.1, this]
      exact ih (fun r' hr' => hL r' (by simp [hr']))
  simp only [eraseNode, List.map_cons, List.erase_cons_head, List.filter_cons]
  simpa using this R (fun r hr => ⟨hy' r hr, wf.ne r hr⟩)

/-! ### the six members of `intrusive::base` -/

theorem Rep_ctorDefault {σ : Store} {R : Rings} (rep : Rep σ R) {w : Node} (hw : w ∉ nodes R) :
    Rep (σ.alloc w w w) ([w] :: R) := by
  refine ⟨Wf_cons_single rep.wf hw, ?_, ?_⟩
  · intro r hr
    rcases List.mem_cons.1 hr with rfl | hr
    · exact Ring_single_iff.2 ⟨by simp [Store.alloc], by simp [Store.alloc]⟩
    · have hwr : w ∉ r := fun h => hw (mem_nodes.2 ⟨r, hr, h⟩)
      refine Ring_congr_on (fun x hx => ?_) (fun x hx => ?_) (rep.ring r hr)
      · have : x ≠ w := fun e => hwr (e ▸ hx)
        simp [Store.alloc, this]
      · have : x ≠ w := fun e => hwr (e ▸ hx)
        simp [Store.alloc, this]
  · intro n
    rw [nodes_cons]
    simp only [Store.alloc, List.mem_singleton]
    by_cases e : n = w
    · simp [e]
    · simp [e]; exact rep.live n

theorem Rep_dtor {σ : Store} {R : Rings} (rep : Rep σ R) {y : Node} (hy : y ∈ nodes R) :
    baseDtor σ y = .ok (dtorS σ y) ∧ Rep (dtorS σ y) (eraseNode R y) := by
  refine ⟨baseDtor_eq (rep.live_of_mem hy) (rep.live_of_mem (rep.next_mem hy)) (rep.live_of_mem (rep.prev_mem hy)), ?_⟩
  refine ⟨Wf_erase rep.wf y, ?_, ?_⟩
  · intro r hr
    exact Ring_ptr_eq (σ := link σ (σ.prev y) (σ.next y)) (τ := dtorS σ y) (fun _ => rfl) (fun _ => rfl) (rings_erase rep.wf rep.ring hy r hr)
  · intro n
    rw [mem_nodes_erase rep.wf]
    simp only [dtorS, free_live, link_live]
    by_cases e : n = y
    · simp [e]
    · simp [e]; exact rep.live n

theorem Rep_unlink {σ : Store} {R : Rings} (rep : Rep σ R) {y : Node} (hy : y ∈ nodes R) :
    baseUnlink σ y = .ok (unlinkS σ y) ∧ Rep (unlinkS σ y) ([y] :: eraseNode R y) := by
  refine ⟨baseUnlink_eq (rep.live_of_mem hy) (rep.live_of_mem (rep.next_mem hy)) (rep.live_of_mem (rep.prev_mem hy)), ?_⟩
  have hnot : y ∉ nodes (eraseNode R y) := fun h => ((mem_nodes_erase rep.wf).1 h).2 rfl
  refine ⟨Wf_cons_single (Wf_erase rep.wf y) hnot, ?_, ?_⟩
  · intro r hr
    rcases List.mem_cons.1 hr with rfl | hr
    · exact Ring_singleton _ _
    · have : y ∉ r := fun h => hnot (mem_nodes.2 ⟨r, hr, h⟩)
      exact Ring_frame this this (rings_erase rep.wf rep.ring hy r hr)
  · intro n
    simp only [unlinkS, link_live, nodes, List.flatten_cons, List.mem_append, List.mem_singleton]
    have := mem_nodes_erase (n := n) (y := y) rep.wf
    simp only [nodes] at this
    rw [this, rep.live n]
    by_cases e : n = y
    · subst e; simp [nodes] at hy ⊢; exact hy
    · simp [e, nodes]

theorem Rep_ctorList {σ : Store} {R : Rings} (rep : Rep σ R) {k e : Nat} (hh : Node.head k ∈ nodes R)
    (hw : Node.elem e ∉ nodes R) :
    baseCtorList σ (.elem e) (.head k) = .ok (ctorListS σ (.elem e) (.head k)) ∧
    Rep (ctorListS σ (.elem e) (.head k)) (pushBack R (.head k) (.elem e)) := by
  refine ⟨baseCtorList_eq (rep.live_of_mem hh) (rep.live_of_mem (rep.prev_mem hh)) (rep.dead_of_not_mem hw), ?_⟩
  refine ⟨Wf_push rep.wf hw, ?_, ?_⟩
  · intro r hr
    exact Ring_ptr_eq (σ := link (link σ (σ.prev (Node.head k)) (Node.elem e)) (Node.elem e) (Node.head k)) (τ := ctorListS σ (.elem e) (.head k)) (fun _ => rfl) (fun _ => rfl) (rings_push rep.wf rep.ring hh hw r hr)
  · intro n
    obtain ⟨rh, hrh, hhh⟩ := mem_nodes.1 hh
    obtain ⟨l, rfl⟩ := head_front rep.wf hrh hhh
    rw [mem_nodes_push ⟨_, hrh, rfl⟩]
    simp only [ctorListS, mkLive_live, link_live]
    by_cases e' : n = Node.elem e
    · simp [e']
    · simp [e']; exact rep.live n

/-- the three links of "`w` takes the place of `y`" on rings; `w` is not a node of `R` -/
theorem Rep_take {σ : Store} {R : Rings} (wf : Wf R) (ring : ∀ r ∈ R, Ring σ r) {y w : Node}
    (hy : y ∈ nodes R) (hal : alone R y = false) (hw : w ∉ nodes R)
    (hk : (∃ e, w = Node.elem e) ∨ (∃ k, y = Node.head k)) :
    Wf ([y] :: replaceNode R y w) ∧ (∀ r ∈ [y] :: replaceNode R y w, Ring (takeS σ w y) r) ∧
    (∀ n, n ∈ nodes ([y] :: replaceNode R y w) ↔ n ∈ nodes R ∨ n = w) := by
  obtain ⟨ry, hry, hyy⟩ := mem_nodes.1 hy
  have hwy : w ≠ y := fun e => hw (e ▸ hy)
  have hnot : y ∉ nodes (replaceNode R y w) := by
    intro h
    rcases (mem_nodes_replace hw).1 h with ⟨_, h⟩ | ⟨h, _⟩
    · exact h rfl
    · exact hwy h.symm
  refine ⟨Wf_cons_single (Wf_replace wf hw hk) hnot,
    rings_take wf ring hry hyy (not_alone_len wf hry hyy hal) hw, ?_⟩
  intro n
  have := mem_nodes_replace (n := n) (y := y) hw
  simp only [nodes, List.flatten_cons, List.mem_append, List.mem_singleton] at this ⊢
  rw [this]
  by_cases e : n = y
  · subst e; simp [nodes] at hy; simp; exact Or.inl hy
  · simp [e]; simp [nodes] at hy; grind

theorem Rep_ctorMove {σ : Store} {R : Rings} (rep : Rep σ R) {y w : Node}
    (hy : y ∈ nodes R) (hal : alone R y = false) (hw : w ∉ nodes R)
    (hk : (∃ e, w = Node.elem e) ∨ (∃ k, y = Node.head k)) :
    baseCtorMove σ w y = .ok (ctorMoveS σ w y) ∧ Rep (ctorMoveS σ w y) ([y] :: replaceNode R y w) := by
  have hlinked : σ.next y ≠ y := by
    have := next_self_iff rep hy
    rw [hal] at this; simpa using this
  refine ⟨baseCtorMove_eq (rep.live_of_mem hy) (rep.live_of_mem (rep.prev_mem hy)) (rep.live_of_mem (rep.next_mem hy))
    (rep.dead_of_not_mem hw) hlinked, ?_⟩
  obtain ⟨h1, h2, h3⟩ := Rep_take rep.wf rep.ring hy hal hw hk
  refine ⟨h1, fun r hr => Ring_ptr_eq (σ := takeS σ w y) (τ := ctorMoveS σ w y) (fun _ => rfl) (fun _ => rfl) (h2 r hr), ?_⟩
  intro n
  rw [h3 n]
  simp only [ctorMoveS, mkLive_live, takeS, link_live]
  by_cases e : n = w
  · simp [e]
  · simp [e]; exact rep.live n

theorem Rep_assignMove {σ : Store} {R : Rings} (rep : Rep σ R) {y w : Node}
    (hw : w ∈ nodes R) (hy : y ∈ nodes R) (hne : y ≠ w) (hal : alone (eraseNode R w) y = false)
    (hk : (∃ e, w = Node.elem e) ∨ (∃ k, y = Node.head k)) :
    baseAssignMove σ w y = .ok (assignMoveS σ w y) ∧
    Rep (assignMoveS σ w y) ([y] :: replaceNode (eraseNode R w) y w) := by
  have wf1 := Wf_erase rep.wf w
  have ring1 := rings_erase rep.wf rep.ring hw
  have hy1 : y ∈ nodes (eraseNode R w) := (mem_nodes_erase rep.wf).2 ⟨hy, hne⟩
  have hw1 : w ∉ nodes (eraseNode R w) := fun h => ((mem_nodes_erase rep.wf).1 h).2 rfl
  obtain ⟨ry, hry, hyy⟩ := mem_nodes.1 hy1
  have hp := (Ring_prev (ring1 ry hry) hyy).1
  have hn := (Ring_next (ring1 ry hry) hyy).1
  have hp' : (link σ (σ.prev w) (σ.next w)).prev y ∈ nodes (eraseNode R w) := mem_nodes.2 ⟨ry, hry, hp⟩
  have hn' : (link σ (σ.prev w) (σ.next w)).next y ∈ nodes (eraseNode R w) := mem_nodes.2 ⟨ry, hry, hn⟩
  refine ⟨baseAssignMove_eq hne (rep.live_of_mem hw) (rep.live_of_mem hy) (rep.live_of_mem (rep.next_mem hw))
    (rep.live_of_mem (rep.prev_mem hw)) (rep.live_of_mem ((mem_nodes_erase rep.wf).1 hp').1)
    (rep.live_of_mem ((mem_nodes_erase rep.wf).1 hn').1) (fun e => hw1 (by have := hp'; rwa [e] at this))
    (by have := next_self_iff' wf1 ring1 hy1; rw [hal] at this; simpa using this), ?_⟩
  obtain ⟨h1, h2, h3⟩ := Rep_take wf1 ring1 hy1 hal hw1 hk
  refine ⟨h1, h2, ?_⟩
  intro n
  rw [h3 n, mem_nodes_erase rep.wf]
  simp only [assignMoveS, takeS, link_live]
  rw [rep.live n]
  by_cases e : n = w
  · simp [e, hw]
  · simp [e]


/-- `base(base&&)` from an unlinked source (after f84f067): the new element is a ring of its own -/
theorem Rep_ctorMove_alone {σ : Store} {R : Rings} (rep : Rep σ R) {y w : Node}
    (hy : y ∈ nodes R) (hal : alone R y = true) (hw : w ∉ nodes R) :
    baseCtorMove σ w y = .ok (σ.alloc w w w) ∧ Rep (σ.alloc w w w) ([w] :: R) := by
  have halone : σ.next y = y := by
    have := next_self_iff rep hy
    rw [hal] at this; simpa using this
  exact ⟨baseCtorMove_alone (rep.live_of_mem hy) (rep.dead_of_not_mem hw) halone, Rep_ctorDefault rep hw⟩

/-- `w = std::move(y)` when `y` is unlinked once `w` has left its ring (after f84f067): `w` ends up unlinked -/
theorem Rep_assignMove_alone {σ : Store} {R : Rings} (rep : Rep σ R) {y w : Node}
    (hw : w ∈ nodes R) (hy : y ∈ nodes R) (hne : y ≠ w) (hal : alone (eraseNode R w) y = true) :
    baseAssignMove σ w y = .ok (unlinkS σ w) ∧ Rep (unlinkS σ w) ([w] :: eraseNode R w) := by
  have wf1 := Wf_erase rep.wf w
  have ring1 := rings_erase rep.wf rep.ring hw
  have hy1 : y ∈ nodes (eraseNode R w) := (mem_nodes_erase rep.wf).2 ⟨hy, hne⟩
  have halone : (link σ (σ.prev w) (σ.next w)).next y = y := by
    have := next_self_iff' wf1 ring1 hy1
    rw [hal] at this; simpa using this
  exact ⟨baseAssignMove_alone hne (rep.live_of_mem hw) (rep.live_of_mem hy) (rep.live_of_mem (rep.next_mem hw))
    (rep.live_of_mem (rep.prev_mem hw)) halone, (Rep_unlink rep hw).2⟩

end Fcppt.C11
