import FcpptProofs.C06.Range
set_option linter.unusedSimpArgs false
/-! `IsConv` (the C++20 modular conversion) determines its result; `c06_cast`: the uniform proof of the cast theorems. -/
namespace Fcppt.C06
open Fcppt

theorem isConv_unique (d : IntTy)
    (hd : d = IntTy.u8 ∨ d = IntTy.u16 ∨ d = IntTy.u32 ∨ d = IntTy.u64 ∨ d = IntTy.i8 ∨ d = IntTy.i16 ∨ d = IntTy.i32 ∨ d = IntTy.i64)
    (x r₁ r₂ : Int) (h₁ : IsConv d x r₁) (h₂ : IsConv d x r₂) : r₁ = r₂ := by
  rcases hd with h | h | h | h | h | h | h | h <;> subst h <;> simp only [IsConv] at h₁ h₂ <;> c06_norm <;> omega

/-- `IntTy.wrap` is that conversion -/
theorem isConv_wrap (d : IntTy)
    (hd : d = IntTy.u8 ∨ d = IntTy.u16 ∨ d = IntTy.u32 ∨ d = IntTy.u64 ∨ d = IntTy.i8 ∨ d = IntTy.i16 ∨ d = IntTy.i32 ∨ d = IntTy.i64)
    (x : Int) : IsConv d x (d.wrap x) := by
  rcases hd with h | h | h | h | h | h | h | h <;> subst h <;> simp only [IsConv] <;> c06_norm <;> c06_finish

end Fcppt.C06

open Fcppt Fcppt.C06 in
/-- `∃ r, f x = .ok r ∧ IsConv d x r ∧ (d.InRange x → r = x)` for a cast `f` that is unfolded by the tactic `u` -/
macro "c06_cast " u:tactic : tactic => `(tactic| (
    c06_ranges
    $u
    simp only [pure_eq_ok, ok_bind, pure_bind']
    refine ⟨_, rfl, ?_, ?_⟩
    · simp only [IsConv]; c06_norm; c06_finish
    · intro hx; c06_norm; c06_finish))
