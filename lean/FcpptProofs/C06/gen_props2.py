#!/usr/bin/env python3
"""Writes the per-instantiation theorem files of the second generation of C06 (Props/C06/{Casts,Div2,CeilNarrow,Interval,Masks}.lean).

The theorems are uniform per function family; this script is the template (run it from lean/ after changing a template:
`python3 FcpptProofs/C06/gen_props2.py`).  The lists must agree with the registry of tools/cxx2lean.py.
"""
import os

UNS = ["u8", "u16", "u32", "u64"]
SIG = ["i8", "i16", "i32", "i64"]
ALL = UNS + SIG
BITS = {"u8": 8, "u16": 16, "u32": 32, "u64": 64, "i8": 8, "i16": 16, "i32": 32, "i64": 64}
DIV_MIXED = [("i32", "u32"), ("u32", "i32"), ("i8", "u8"), ("u8", "i64"), ("i64", "u64"), ("u16", "i32"), ("i16", "u64"), ("u64", "i8"), ("i32", "i64"), ("u32", "u64")]
MASK_C = {"u8": [0, 1, 5, 255], "u16": [0, 256, 65535], "u32": [0, 65536, 4294967295], "u64": [0, 4294967296, 18446744073709551615]}
SHIFTED_MASK_C = {"u8": [0, 3, 7], "u16": [0, 8, 15], "u32": [0, 16, 31], "u64": [0, 32, 63]}
HERE = os.path.dirname(os.path.abspath(__file__))
OUT = os.path.join(HERE, "..", "Props", "C06")


def common(l, r):
    """the type `L / R` is computed in (usual arithmetic conversions, LP64)"""
    pl = l if BITS[l] >= 32 else "i32"
    pr = r if BITS[r] >= 32 else "i32"
    if pl == pr:
        return pl
    if pl[0] == pr[0]:
        return pl if BITS[pl] >= BITS[pr] else pr
    u, s = (pl, pr) if pl[0] == "u" else (pr, pl)
    return u if BITS[u] >= BITS[s] else s


HEAD = """set_option linter.unusedSimpArgs false
set_option linter.unusedVariables false
"""


def casts():
    o = "import FcpptProofs.C06.Conv\n" + HEAD + """/-!
C06 — the unchecked casts the checked ones are built from: `cast::size` (same signedness, any two widths),
`cast::to_signed`, `cast::to_unsigned` are the C++20 modular conversion (`IsConv`: the unique value of the destination
type congruent to the source modulo 2^bits, `isConv_unique`) and preserve every representable value;
`cast::safe_numeric` (widening, same signedness) and `cast::promote_int` preserve every value.  No Fault.
-/
namespace Fcppt.C06
open Fcppt Fcppt.Gen

"""
    for grp in (UNS, SIG):
        for d in grp:
            for s in grp:
                o += f"""theorem size_{d}_{s}_correct (x : Int) (h : IntTy.{s}.InRange x) :
    ∃ r, size_{d}_{s} x = .ok r ∧ IsConv IntTy.{d} x r ∧ (IntTy.{d}.InRange x → r = x) := by
  c06_cast gen_unfold_size

"""
                if BITS[d] >= BITS[s]:
                    o += f"""theorem safe_numeric_{d}_{s}_correct (x : Int) (h : IntTy.{s}.InRange x) : safe_numeric_{d}_{s} x = .ok x := by
  c06_ranges
  gen_unfold_safe_numeric
  first | rfl | (c06_exec; c06_finish)

"""
    for t in UNS:
        s = "i" + t[1:]
        o += f"""/-- `to_signed`: the value itself whenever it fits (`x ≤ max`), otherwise `x - 2^{BITS[t]}` -/
theorem to_signed_{t}_correct (x : Int) (h : IntTy.{t}.InRange x) :
    ∃ r, to_signed_{t} x = .ok r ∧ IsConv IntTy.{s} x r ∧ (IntTy.{s}.InRange x → r = x) := by
  c06_cast gen_unfold_to_signed

"""
    for t in SIG:
        u = "u" + t[1:]
        o += f"""/-- `to_unsigned`: the value itself whenever it is non-negative, otherwise `x + 2^{BITS[t]}` -/
theorem to_unsigned_{t}_correct (x : Int) (h : IntTy.{t}.InRange x) :
    ∃ r, to_unsigned_{t} x = .ok r ∧ IsConv IntTy.{u} x r ∧ (IntTy.{u}.InRange x → r = x) := by
  c06_cast gen_unfold_to_unsigned

"""
    for t in ALL:
        o += f"""theorem promote_int_{t}_correct (x : Int) (h : IntTy.{t}.InRange x) : promote_int_{t} x = .ok x := by
  c06_ranges
  gen_unfold_promote_int
  first | rfl | (c06_exec; c06_finish)

"""
    o += """/-- non-vacuity / the wrap-around outside the guard: `to_signed<u8>(200) = -56`, `size<u8>(u16 300) = 44` -/
example : to_signed_u8 200 = .ok (-56) ∧ size_u8_u16 300 = .ok 44 ∧ to_unsigned_i8 (-1) = .ok 255 := ⟨by rfl, by rfl, by rfl⟩

end Fcppt.C06
"""
    return o


def div2():
    o = "import FcpptProofs.C06.Range\n" + HEAD + """/-!
C06 — math::div on the narrow types (the quotient is computed in `int`, where it is always representable) and on
operands of different types (the usual arithmetic conversions first convert both operands to the common type `C`;
the result is the truncated quotient *of the converted operands* whenever that is representable in `C`).
Zero divisor: `none`.  No Fault.
-/
namespace Fcppt.C06
open Fcppt Fcppt.Gen

"""
    for t in ["u8", "i8", "u16", "i16"]:
        o += f"""theorem div_{t}_correct (a b : Int) (ha : IntTy.{t}.InRange a) (hb : IntTy.{t}.InRange b) (hnz : b ≠ 0) :
    div_{t} a b = .ok (some (Int.tdiv a b)) := by
  have hab : (Int.tdiv a b).natAbs ≤ a.natAbs := Int.natAbs_tdiv_le_natAbs a b
  c06_ranges
  gen_unfold_div
  c06_wraps
  simp only [CInt.div]
  generalize Int.tdiv a b = q at *
  c06_exec
  c06_finish

theorem div_{t}_zero (a : Int) : div_{t} a 0 = .ok none := by
  gen_unfold_div; c06_zero

"""
    for l, r in DIV_MIXED:
        c = common(l, r)
        ea = "a" if l == c else f"(IntTy.wrap IntTy.{c} a)"
        eb = "b" if r == c else f"(IntTy.wrap IntTy.{c} b)"
        pre = ""
        gen = ""
        va, vb = "a", "b"
        if r != c:
            pre += f"  have hb' : IntTy.wrap IntTy.{c} b ≠ 0 := by c06_norm; omega\n"
        if l != c:
            gen += f"  generalize IntTy.wrap IntTy.{c} a = a' at *\n"
            va = "a'"
        if r != c:
            gen += f"  generalize IntTy.wrap IntTy.{c} b = b' at *\n"
            vb = "b'"
        rw = ""
        if l != c:
            rw += f"  rw [wrap_{c}_id a (by omega) (by omega)] at e\n"
        if r != c:
            rw += f"  rw [wrap_{c}_id b (by omega) (by omega)] at e\n"
        o += f"""/-- `div({l}, {r})` is computed in `{c}` -/
theorem div_{l}_{r}_correct (a b : Int) (ha : IntTy.{l}.InRange a) (hb : IntTy.{r}.InRange b) (hnz : b ≠ 0)
    (hr : IntTy.{c}.InRange (Int.tdiv {ea} {eb})) :
    div_{l}_{r} a b = .ok (some (Int.tdiv {ea} {eb})) := by
{pre}  c06_ranges
  gen_unfold_div
  simp only [CInt.conv]
{gen}  simp only [CInt.div, CInt.arith]
  generalize Int.tdiv {va} {vb} = q at *
  c06_exec
  c06_finish

/-- operands that are representable in the common type are not changed by the conversion: the plain quotient -/
theorem div_{l}_{r}_exact (a b : Int) (ha : IntTy.{l}.InRange a) (hb : IntTy.{r}.InRange b) (hnz : b ≠ 0)
    (ha' : IntTy.{c}.InRange a) (hb' : IntTy.{c}.InRange b) (hr : IntTy.{c}.InRange (Int.tdiv a b)) :
    div_{l}_{r} a b = .ok (some (Int.tdiv a b)) := by
  have e := div_{l}_{r}_correct a b ha hb hnz
  c06_ranges
{rw}  exact e hr

theorem div_{l}_{r}_zero (a : Int) : div_{l}_{r} a 0 = .ok none := by
  gen_unfold_div; c06_zero

"""
    o += """/-- the conversion is visible: `div(int32_t{-6}, uint32_t{3})` divides 4294967290 by 3 -/
example : div_i32_u32 (-6) 3 = .ok (some 1431655763) := by rfl

end Fcppt.C06
"""
    return o


def ceil_narrow():
    o = "import FcpptProofs.C06.Ceil\nimport FcpptProofs.C06.Range\n" + HEAD + """/-!
C06 — math::ceil_div_signed for the narrow signed types (every intermediate is computed in `int` and cast back to `T`):
*the* ceiling of the exact quotient for every sign combination whenever it is representable; zero divisor: `none`.
-/
namespace Fcppt.C06
open Fcppt Fcppt.Gen

"""
    for t in ["i8", "i16"]:
        lim = 1 << (BITS[t] - 1)
        o += f"""theorem ceil_div_signed_{t}_correct (a b : Int) (ha : IntTy.{t}.InRange a) (hb : IntTy.{t}.InRange b) (hnz : b ≠ 0)
    (hrep : ∀ q, IsCeilDiv a b q → IntTy.{t}.InRange q) :
    ∃ q, ceil_div_signed_{t} a b = .ok (some q) ∧ IsCeilDiv a b q := by
  have hc := ceil_signed a b hnz
  have hin := hrep _ hc
  refine ⟨_, ?_, hc⟩
  have hab : (Int.tdiv a b).natAbs ≤ a.natAbs := Int.natAbs_tdiv_le_natAbs a b
  have hr1 := tmod_abs_lt a b
  have hr2 := tmod_sign a b
  clear hrep hc
  c06_ranges
  generalize hqe : Int.tdiv a b = q at *
  generalize hre : Int.tmod a b = r at *
  have hq : -{lim} ≤ q ∧ q ≤ {lim} := by omega
  have hr : -{lim} < r ∧ r < {lim} := by omega
  clear hab hr1
  -- the code is run with the linear bounds only (the facts about the result come back for the last step)
  revert hin hr2
  gen_unfold_ceil_div_signed
  c06_wraps
  simp only [CInt.div, CInt.mod, hqe, hre]
  simp only [hnz, ↓reduceIte, not_false_eq_true, decide_true, ne_eq, decide_not, Bool.not_false, Bool.not_true, decide_false]
  c06_exec
  intro hin hr2
  c06_norm
  c06_finish

theorem ceil_div_signed_{t}_zero (a : Int) : ceil_div_signed_{t} a 0 = .ok none := by
  gen_unfold_ceil_div_signed; c06_zero

"""
    o += """/-- outside the guard (the ceiling 128 is not an `int8_t`) the narrow instantiation wraps instead of overflowing -/
example : ceil_div_signed_i8 (-128) (-1) = .ok (some (-128)) := by rfl

end Fcppt.C06
"""
    return o


def interval():
    o = "import FcpptProofs.C06.Interval\n" + HEAD + """/-!
C06 — math::interval_distance (anchored header, not named in the statement): what it computes, exactly.
For every type the result is `intervalDistSpec` (Spec/C06.lean) — converted to `T` for the types that are promoted to
`int` and for the unsigned types (which wrap), exact for `int32_t`/`int64_t` under `intervalDistGuard` (every difference
the function evaluates is representable; otherwise the subtraction overflows: `interval_distance_*_overflow`).
The facts about `intervalDistSpec` itself (symmetry unless the upper ends coincide, gap / overlap / containment cases,
and the documented-but-not-implemented "touching" case) are in FcpptProofs/C06/Interval.lean and restated here.
-/
namespace Fcppt.C06
open Fcppt Fcppt.Gen

"""
    for t in ALL:
        if t in ("i32", "i64"):
            o += f"""theorem interval_distance_{t}_correct (a1 b1 a2 b2 : Int) (h1 : IntTy.{t}.InRange a1) (h2 : IntTy.{t}.InRange b1)
    (h3 : IntTy.{t}.InRange a2) (h4 : IntTy.{t}.InRange b2) (hg : intervalDistGuard IntTy.{t} a1 b1 a2 b2) :
    interval_distance_{t} a1 b1 a2 b2 = .ok (intervalDistSpec a1 b1 a2 b2) := by
  simp only [intervalDistGuard] at hg
  c06_ranges
  split at hg <;> split at hg <;> (
    gen_unfold_interval_distance
    simp only [intervalDistSpec, Int.max_def]
    c06_exec
    c06_finish)

/-- outside the guard a subtraction overflows (undefined behaviour in C++) -/
theorem interval_distance_{t}_overflow (a1 b1 a2 b2 : Int) (h1 : IntTy.{t}.InRange a1) (h2 : IntTy.{t}.InRange b1)
    (h3 : IntTy.{t}.InRange a2) (h4 : IntTy.{t}.InRange b2) (hg : ¬ intervalDistGuard IntTy.{t} a1 b1 a2 b2) :
    interval_distance_{t} a1 b1 a2 b2 = .error .signedOverflow := by
  simp only [intervalDistGuard] at hg
  c06_ranges
  split at hg <;> split at hg <;> (
    gen_unfold_interval_distance
    c06_exec
    c06_finish)

"""
        elif t in ("u32", "u64"):
            o += f"""/-- unsigned, not promoted: every difference wraps BEFORE the maximum is taken -/
theorem interval_distance_{t}_correct (a1 b1 a2 b2 : Int) (h1 : IntTy.{t}.InRange a1) (h2 : IntTy.{t}.InRange b1)
    (h3 : IntTy.{t}.InRange a2) (h4 : IntTy.{t}.InRange b2) :
    interval_distance_{t} a1 b1 a2 b2 = .ok (intervalDistSpecW IntTy.{t} a1 b1 a2 b2) := by
  c06_ranges
  gen_unfold_interval_distance
  simp only [intervalDistSpecW, Int.max_def]
  c06_exec
  c06_norm
  c06_finish

/-- disjoint intervals: the gap is returned exactly (two intervals that only touch in a point of a degenerate interval
already go through the wrapped maximum) -/
theorem interval_distance_{t}_disjoint (a1 b1 a2 b2 : Int) (h1 : IntTy.{t}.InRange a1) (h2 : IntTy.{t}.InRange b1)
    (h3 : IntTy.{t}.InRange a2) (h4 : IntTy.{t}.InRange b2) (hi1 : a1 ≤ b1) (hi2 : a2 ≤ b2) (hd : b1 < a2 ∨ b2 < a1) :
    interval_distance_{t} a1 b1 a2 b2 = .ok (intervalDistSpec a1 b1 a2 b2) := by
  rw [interval_distance_{t}_correct a1 b1 a2 b2 h1 h2 h3 h4]
  c06_ranges
  simp only [intervalDistSpecW, intervalDistSpec, Int.max_def]
  c06_norm
  c06_finish

"""
        else:
            o += f"""theorem interval_distance_{t}_correct (a1 b1 a2 b2 : Int) (h1 : IntTy.{t}.InRange a1) (h2 : IntTy.{t}.InRange b1)
    (h3 : IntTy.{t}.InRange a2) (h4 : IntTy.{t}.InRange b2) :
    interval_distance_{t} a1 b1 a2 b2 = .ok (IntTy.wrap IntTy.{t} (intervalDistSpec a1 b1 a2 b2)) := by
  c06_ranges
  gen_unfold_interval_distance
  simp only [intervalDistSpec, Int.max_def]
  c06_exec
  c06_norm
  c06_finish

"""
    o += """/-- two disjoint intervals in either order: the gap; `[0,5]`/`[2,5]` (equal upper ends): -3 one way, 0 the other -/
example : interval_distance_i32 0 2 5 9 = .ok 3 ∧ interval_distance_i32 5 9 0 2 = .ok 3 ∧
    interval_distance_i32 0 5 2 5 = .ok (-3) ∧ interval_distance_i32 2 5 0 5 = .ok 0 := ⟨by rfl, by rfl, by rfl, by rfl⟩

/-- an unsigned "negative" distance wraps -/
example : interval_distance_u8 0 5 3 9 = .ok 254 := by rfl

end Fcppt.C06
"""
    return o


def masks():
    o = "import FcpptProofs.C06.Range\n" + HEAD + """/-!
C06 — the compile-time bit mask helpers `bit::mask_c<T, M>()` (the mask `M`) and `bit::shifted_mask_c<T, B>()` (`2^B`)
for the instantiations of the registry.
-/
namespace Fcppt.C06
open Fcppt Fcppt.Gen

"""
    for t in UNS:
        for m in MASK_C[t]:
            o += f"theorem mask_c_{t}_{m}_correct : mask_c_{t}_{m} = .ok {m} := by\n  gen_unfold_mask_c\n  first | rfl | (c06_exec; c06_finish) | decide +kernel\n\n"
        for b in SHIFTED_MASK_C[t]:
            o += f"theorem shifted_mask_c_{t}_{b}_correct : shifted_mask_c_{t}_{b} = .ok ((2 : Int) ^ {b}) := by\n  first | rfl | decide +kernel\n\n"
    o += "end Fcppt.C06\n"
    return o


def enum2():
    o = "import FcpptProofs.C06.Tactics\n" + HEAD + """/-!
C06 — enum_::from_int for enums whose underlying type is signed (`int`, the default, and `signed char`): the size type is
the unsigned counterpart, the enumerators are `0 … size-1` with `size ≤ max(underlying) + 1`.
-/
namespace Fcppt.C06
open Fcppt Fcppt.Gen

"""
    for u in ["i8", "i32"]:
        for v in UNS:
            o += f"""theorem from_int_{u}_{v}_correct (value size : Int) (h : IntTy.{v}.InRange value) (hs : 0 ≤ size ∧ size ≤ IntTy.{u}.hi + 1) :
    from_int_{u}_{v} value size = .ok (fromIntSpec size value) := by
  gen_unfold_from_int
  c06_norm
  c06_finish

"""
    o += """/-- non-vacuity: the largest enum over `signed char` (128 enumerators) -/
example : from_int_i8_u16 127 128 = .ok (some 127) ∧ from_int_i8_u16 128 128 = .ok none ∧ from_int_i8_u16 383 128 = .ok none := ⟨by rfl, by rfl, by rfl⟩

end Fcppt.C06
"""
    return o


def main():
    for name, text in [("Enum2", enum2()), ("Casts", casts()), ("Div2", div2()), ("CeilNarrow", ceil_narrow()), ("Interval", interval()), ("Masks", masks())]:
        with open(os.path.join(OUT, name + ".lean"), "w") as f:
            f.write(text)


if __name__ == "__main__":
    main()
