import FcpptProofs.C06.PowTac
/-!
Range-aware normalisation: `IntTy.wrap t x = x` whenever `x` is provably (by `omega`) inside the
range of `t`.  `c06_exec` runs the monadic code symbolically, discharging the conversions.
-/
namespace Fcppt.C06
open Fcppt

theorem wrap_u8_id (x : Int) (h1 : 0 ≤ x) (h2 : x ≤ 255) : IntTy.wrap IntTy.u8 x = x := by c06_norm; c06_finish
theorem wrap_u16_id (x : Int) (h1 : 0 ≤ x) (h2 : x ≤ 65535) : IntTy.wrap IntTy.u16 x = x := by c06_norm; c06_finish
theorem wrap_u32_id (x : Int) (h1 : 0 ≤ x) (h2 : x ≤ 4294967295) : IntTy.wrap IntTy.u32 x = x := by c06_norm; c06_finish
theorem wrap_u64_id (x : Int) (h1 : 0 ≤ x) (h2 : x ≤ 18446744073709551615) : IntTy.wrap IntTy.u64 x = x := by c06_norm; c06_finish
theorem wrap_i8_id (x : Int) (h1 : -128 ≤ x) (h2 : x ≤ 127) : IntTy.wrap IntTy.i8 x = x := by c06_norm; c06_finish
theorem wrap_i16_id (x : Int) (h1 : -32768 ≤ x) (h2 : x ≤ 32767) : IntTy.wrap IntTy.i16 x = x := by c06_norm; c06_finish
theorem wrap_i32_id (x : Int) (h1 : -2147483648 ≤ x) (h2 : x ≤ 2147483647) : IntTy.wrap IntTy.i32 x = x := by c06_norm; c06_finish
theorem wrap_i64_id (x : Int) (h1 : -9223372036854775808 ≤ x) (h2 : x ≤ 9223372036854775807) : IntTy.wrap IntTy.i64 x = x := by c06_norm; c06_finish

end Fcppt.C06

open Fcppt Fcppt.C06 in
/-- symbolic execution with range-aware conversions -/
macro "c06_exec" : tactic => `(tactic| simp (disch := omega) only [ok_bind, pure_bind', error_bind, ite_bind, pure_eq_ok,
    CInt.conv, CInt.arith, CInt.add, CInt.sub, CInt.mul, CInt.neg, CInt.div, CInt.mod, CInt.b2i,
    wrap_u8_id, wrap_u16_id, wrap_u32_id, wrap_u64_id, wrap_i8_id, wrap_i16_id, wrap_i32_id, wrap_i64_id,
    IntTy.InRange, IntTy.lo, IntTy.hi,
    Int.reducePow, Int.reduceSub, Int.reduceNeg, Int.reduceDiv, Int.reduceMod, Int.reduceAdd, Int.reduceMul, Nat.reduceSub,
    Int.reduceLE, Int.reduceLT, Int.reduceEq, Int.reduceNe,
    Bool.and_true, Bool.true_and, Bool.false_and, Bool.and_false, decide_eq_true_eq, Bool.and_eq_true, Bool.not_eq_true',
    decide_eq_false_iff_not, Bool.not_eq_eq_eq_not, Bool.not_true, Bool.not_false,
    ge_iff_le, Bool.false_eq_true, if_false, if_true, ite_true, ite_false, reduceCtorEq,
    show IntTy.u8.signed = false from rfl, show IntTy.u16.signed = false from rfl, show IntTy.u32.signed = false from rfl,
    show IntTy.u64.signed = false from rfl, show IntTy.i8.signed = true from rfl, show IntTy.i16.signed = true from rfl,
    show IntTy.i32.signed = true from rfl, show IntTy.i64.signed = true from rfl,
    show IntTy.u8.bits = 8 from rfl, show IntTy.u16.bits = 16 from rfl, show IntTy.u32.bits = 32 from rfl, show IntTy.u64.bits = 64 from rfl,
    show IntTy.i8.bits = 8 from rfl, show IntTy.i16.bits = 16 from rfl, show IntTy.i32.bits = 32 from rfl, show IntTy.i64.bits = 64 from rfl] at *)

open Fcppt Fcppt.C06 in
/-- range hypotheses (`t.InRange x`) as linear facts, so that `omega` (also as the discharger of `c06_exec`) sees them;
the type names stay folded (terms like `IntTy.wrap IntTy.u32 a` remain recognisable) -/
macro "c06_ranges" : tactic => `(tactic| try (simp only [IntTy.InRange, IntTy.lo, IntTy.hi,
    show IntTy.u8.signed = false from rfl, show IntTy.u16.signed = false from rfl, show IntTy.u32.signed = false from rfl,
    show IntTy.u64.signed = false from rfl, show IntTy.i8.signed = true from rfl, show IntTy.i16.signed = true from rfl,
    show IntTy.i32.signed = true from rfl, show IntTy.i64.signed = true from rfl,
    show IntTy.u8.bits = 8 from rfl, show IntTy.u16.bits = 16 from rfl, show IntTy.u32.bits = 32 from rfl, show IntTy.u64.bits = 64 from rfl,
    show IntTy.i8.bits = 8 from rfl, show IntTy.i16.bits = 16 from rfl, show IntTy.i32.bits = 32 from rfl, show IntTy.i64.bits = 64 from rfl,
    Int.reducePow, Int.reduceSub, Int.reduceNeg, Nat.reduceSub, Bool.false_eq_true, if_false, if_true, ite_true, ite_false] at *))

open Fcppt Fcppt.C06 in
/-- conversions whose operand is provably (by `omega`, from the linear facts in the context) inside the destination's range
are the identity; nothing else is unfolded -/
macro "c06_wraps" : tactic => `(tactic| simp (disch := omega) only [CInt.conv,
    wrap_u8_id, wrap_u16_id, wrap_u32_id, wrap_u64_id, wrap_i8_id, wrap_i16_id, wrap_i32_id, wrap_i64_id])
