import FcpptProofs.C06.Loops
open Fcppt Fcppt.C06 in
macro "c06_loopfin" : tactic => `(tactic| (
    repeat' split
    all_goals (first | rfl | omega | (simp only [Except.ok.injEq, Option.some.injEq, Prod.mk.injEq]; omega) | (congr 1 <;> omega))))

open Fcppt Fcppt.C06 in
macro "c06_shnorm" : tactic => `(tactic| (
    c06_norm
    simp only [CInt.shr, CInt.shl]
    c06_norm
    simp only [Int.reduceToNat, Int.reducePow, Int.reduceLT, Int.reduceLE, or_false, false_or, if_false, ite_false]))
