import FcpptProofs.C06.PowTac
/-! The bit trick of `is_power_of_2`: for `n > 0`, `n & (n - 1) = 0` iff `n` is a power of two. -/
namespace Fcppt.C06

theorem and_pred_eq_zero_iff (n : Nat) (hn : 0 < n) : n &&& (n - 1) = 0 ↔ ∃ k : Nat, n = 2 ^ k := by
  induction n using Nat.strongRecOn with
  | _ n ih =>
    have hx : n &&& (n - 1) = 2 * ((n &&& (n - 1)) / 2) + (n &&& (n - 1)) % 2 := by omega
    have hmod : (n &&& (n - 1)) % 2 = 0 := by
      have h := @Nat.and_mod_two_eq_one n (n - 1)
      have : ¬ ((n &&& (n - 1)) % 2 = 1) := by
        intro hh
        have := h.mp hh
        omega
      omega
    have hdiv : (n &&& (n - 1)) / 2 = n / 2 &&& (n - 1) / 2 := Nat.and_div_two
    have hzero : n &&& (n - 1) = 0 ↔ n / 2 &&& (n - 1) / 2 = 0 := by
      rw [← hdiv]; omega
    rw [hzero]
    by_cases hev : n % 2 = 0
    · -- n = 2m, m ≥ 1
      have hm : 0 < n / 2 := by omega
      have e : (n - 1) / 2 = n / 2 - 1 := by omega
      rw [e, ih (n / 2) (by omega) hm]
      constructor
      · rintro ⟨k, hk⟩
        exact ⟨k + 1, by rw [Nat.pow_succ]; omega⟩
      · rintro ⟨k, hk⟩
        cases k with
        | zero => simp at hk; omega
        | succ k => exact ⟨k, by rw [Nat.pow_succ] at hk; omega⟩
    · -- n odd
      have e : (n - 1) / 2 = n / 2 := by omega
      rw [e, Nat.and_self]
      constructor
      · intro h0
        exact ⟨0, by simp; omega⟩
      · rintro ⟨k, hk⟩
        cases k with
        | zero => simp at hk; omega
        | succ k => rw [Nat.pow_succ] at hk; omega

end Fcppt.C06
