import FcpptProofs.C06.Tactics
/-!
`c06_trunc`: unfolds `truncation_check<Dest>(Source)` together with every helper the source splits it into
(the `detail::` overloads, `cast::size`, `to_signed`, `to_unsigned` — the list is generated with the definitions:
`gen_unfold_truncation_check` in `Gen/Scalar.lean`), runs the straight-line code symbolically and closes the
remaining case splits with `omega`.
-/
open Fcppt Fcppt.Gen in
macro "c06_trunc" : tactic => `(tactic| (
    gen_unfold_truncation_check
    c06_norm
    c06_finish))
