import FcpptProofs.C06.Tactics
/-!
Abstract versions of the two loops (`log2`, `next_power_of_2`) with their correctness proofs.
The per-type theorems show that the generated loop satisfies the abstract step equation.
-/
namespace Fcppt.C06
open Fcppt

/-- `k = 0` for `v = 0`, otherwise `k` is the bit length of `v`: `2^(k-1) ≤ v < 2^k` -/
def IsBitLen (v : Int) (k : Nat) : Prop := (v = 0 ∧ k = 0) ∨ (0 < k ∧ 2 ^ (k - 1) ≤ v ∧ v < 2 ^ k)

theorem isBitLen_half {v : Int} {k : Nat} (hv : 0 < v) (h : IsBitLen (v / 2) k) : IsBitLen v (k + 1) := by
  right
  rcases h with ⟨h0, hk⟩ | ⟨hk, hl, hu⟩
  · subst hk
    have : v = 1 := by omega
    subst this; simp
  · refine ⟨by omega, ?_, ?_⟩
    · have : (2 : Int) ^ (k + 1 - 1) = 2 * 2 ^ (k - 1) := by
        have : k + 1 - 1 = (k - 1) + 1 := by omega
        rw [this, Int.pow_succ, Int.mul_comm]
      rw [this]; omega
    · rw [Int.pow_succ]; omega

/-- The `log2` loop: `for (v = x >> 1; v != 0; v >>= 1) ++r;` -/
theorem log2_loop_spec (L : Nat → Int → Int → M (Int × Int)) (hi : Int)
    (hstep : ∀ (f : Nat) (r v : Int), 0 ≤ v → v ≤ hi → 0 ≤ r → r < 100 →
      L (f + 1) r v = if v ≠ 0 then L f (r + 1) (v / 2) else .ok (r, v)) :
    ∀ (n f : Nat) (r v : Int), n ≤ f → 0 ≤ v → v ≤ hi → v < 2 ^ n → 0 ≤ r → r + (n : Int) < 100 →
      ∃ k : Nat, L (f + 1) r v = .ok (r + (k : Int), 0) ∧ IsBitLen v k := by
  intro n
  induction n with
  | zero =>
    intro f r v _ h0 hh hlt hr hrf
    have : v = 0 := by simp at hlt; omega
    subst this
    refine ⟨0, ?_, Or.inl ⟨rfl, rfl⟩⟩
    rw [hstep f r 0 (by omega) hh hr (by omega)]; simp
  | succ n ih =>
    intro f r v hnf h0 hh hlt hr hrf
    rw [hstep f r v h0 hh hr (by omega)]
    by_cases hv : v = 0
    · subst hv
      exact ⟨0, by simp, Or.inl ⟨rfl, rfl⟩⟩
    · simp only [ne_eq, hv, not_false_eq_true, ↓reduceIte]
      have hlt' : v / 2 < 2 ^ n := by rw [Int.pow_succ] at hlt; omega
      obtain ⟨f', rfl⟩ : ∃ f', f = f' + 1 := ⟨f - 1, by omega⟩
      obtain ⟨k, hk, hb⟩ := ih f' (r + 1) (v / 2) (by omega) (by omega) (by omega) hlt' (by omega) (by omega)
      refine ⟨k + 1, ?_, isBitLen_half (by omega) hb⟩
      rw [hk]
      have : r + 1 + (k : Int) = r + ((k + 1 : Nat) : Int) := by omega
      rw [this]

end Fcppt.C06

namespace Fcppt.C06
open Fcppt

/-- The `next_power_of_2` loop: `while ((counter /= 2) != 0) ret *= 2;` -/
theorem npo2_loop_spec (N : Nat → Int → Int → M (Int × Int)) (hi : Int)
    (hstep : ∀ (f : Nat) (c r : Int), 0 ≤ c → c ≤ hi → 0 ≤ r → r ≤ hi → (c / 2 ≠ 0 → r * 2 ≤ hi) →
      N (f + 1) c r = if c / 2 ≠ 0 then N f (c / 2) (r * 2) else .ok (c / 2, r)) :
    ∀ (n f : Nat) (c r : Int), n ≤ f → 1 ≤ c → c ≤ hi → c < 2 ^ n → 0 < r → r * c ≤ hi →
      ∃ k : Nat, N (f + 1) c r = .ok (0, r * 2 ^ (k - 1)) ∧ 0 < k ∧ 2 ^ (k - 1) ≤ c ∧ c < 2 ^ k := by
  intro n
  induction n with
  | zero =>
    intro f c r _ h1 _ hlt _ _
    simp at hlt; omega
  | succ n ih =>
    intro f c r hnf h1 hh hlt hr hrc
    have hrle : r ≤ hi := by
      have : r * 1 ≤ r * c := Int.mul_le_mul_of_nonneg_left h1 (by omega)
      omega
    have hr2 : c / 2 ≠ 0 → r * 2 ≤ hi := by
      intro hc
      have : r * 2 ≤ r * c := Int.mul_le_mul_of_nonneg_left (by omega) (by omega)
      omega
    rw [hstep f c r (by omega) hh (by omega) hrle hr2]
    by_cases hc : c / 2 = 0
    · have : c = 1 := by omega
      subst this
      refine ⟨1, ?_, by omega, by simp, by simp⟩
      simp [hc]
    · simp only [ne_eq, hc, not_false_eq_true, ↓reduceIte]
      have hlt' : c / 2 < 2 ^ n := by rw [Int.pow_succ] at hlt; omega
      obtain ⟨f', rfl⟩ : ∃ f', f = f' + 1 := ⟨f - 1, by omega⟩
      have hprod : r * 2 * (c / 2) ≤ hi := by
        have : r * (2 * (c / 2)) ≤ r * c := Int.mul_le_mul_of_nonneg_left (by omega) (by omega)
        rw [Int.mul_assoc]; omega
      obtain ⟨k, hk, hk0, hl, hu⟩ := ih f' (c / 2) (r * 2) (by omega) (by omega) (by omega) hlt' (by omega) hprod
      refine ⟨k + 1, ?_, by omega, ?_, ?_⟩
      · rw [hk]
        have : k + 1 - 1 = (k - 1) + 1 := by omega
        rw [this, Int.pow_succ, Int.mul_assoc, Int.mul_comm 2]
      · have : k + 1 - 1 = (k - 1) + 1 := by omega
        rw [this, Int.pow_succ]; omega
      · rw [Int.pow_succ]; omega

end Fcppt.C06
