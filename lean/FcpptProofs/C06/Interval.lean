import FcpptProofs.C06.Range
set_option linter.unusedSimpArgs false
/-!
Facts about `intervalDistSpec` (what `math::interval_distance` computes), over unbounded integers.
`(a1,b1)` is the first argument, `(a2,b2)` the second.
-/
namespace Fcppt.C06

macro "ids_cases" : tactic => `(tactic| (
    simp only [intervalDistSpec, Int.max_def]
    repeat' split
    all_goals omega))

/-- the order of the arguments matters only when the upper ends coincide -/
theorem intervalDistSpec_comm (a1 b1 a2 b2 : Int) (h : b1 ≠ b2) :
    intervalDistSpec a1 b1 a2 b2 = intervalDistSpec a2 b2 a1 b1 := by ids_cases

/-- disjoint intervals (either order): the gap between them, a positive number -/
theorem intervalDistSpec_disjoint (a1 b1 a2 b2 : Int) (h1 : a1 ≤ b1) (h2 : a2 ≤ b2) (h : b1 < a2) :
    intervalDistSpec a1 b1 a2 b2 = a2 - b1 ∧ intervalDistSpec a2 b2 a1 b1 = a2 - b1 ∧ 0 < a2 - b1 := by
  refine ⟨?_, ?_, by omega⟩ <;> ids_cases

/-- touching or partially overlapping intervals, neither starting strictly inside the other's interior from below
(`a1 ≤ a2`, `b1 ≤ b2`): minus the length of the common part (0 when they touch) -/
theorem intervalDistSpec_overlap (a1 b1 a2 b2 : Int) (ha : a1 ≤ a2) (hb : b1 ≤ b2) :
    intervalDistSpec a1 b1 a2 b2 = a2 - b1 := by ids_cases

theorem intervalDistSpec_overlap' (a1 b1 a2 b2 : Int) (ha : a1 ≤ a2) (hb : b1 < b2) :
    intervalDistSpec a2 b2 a1 b1 = a2 - b1 := by ids_cases

/-- strict containment (`a1 < a2`, `b2 < b1`; either order of the arguments): minus the shorter of the two parts of the
outer interval that the inner one leaves over -/
theorem intervalDistSpec_contains (a1 b1 a2 b2 : Int) (ha : a1 < a2) (hb : b2 < b1) :
    intervalDistSpec a1 b1 a2 b2 = -(min (b1 - b2) (a2 - a1)) ∧ intervalDistSpec a2 b2 a1 b1 = -(min (b1 - b2) (a2 - a1)) := by
  constructor <;> (simp only [intervalDistSpec, Int.max_def, Int.min_def]; repeat' split) <;> omega

/-- the inner interval touches the outer one at the LOWER end (`a1 = a2`, `b2 < b1`): the documentation promises 0
("the distance is zero if the inner interval touches the outer one"); the function returns minus the length of the
inner interval, in either order of the arguments -/
theorem intervalDistSpec_touch_lower (a b1 b2 : Int) (hb : b2 < b1) :
    intervalDistSpec a b1 a b2 = a - b2 ∧ intervalDistSpec a b2 a b1 = a - b2 := by
  constructor <;> ids_cases

/-- the inner interval touches the outer one at the UPPER end (`b1 = b2`, `a1 < a2`): 0 (as documented) if the inner
interval is the first argument, minus the length of the inner interval if it is the second -/
theorem intervalDistSpec_touch_upper (a1 a2 b : Int) (ha : a1 < a2) :
    intervalDistSpec a2 b a1 b = 0 ∧ intervalDistSpec a1 b a2 b = a2 - b := by
  constructor <;> ids_cases

/-- identical intervals: minus their length -/
theorem intervalDistSpec_self (a b : Int) : intervalDistSpec a b a b = a - b := by ids_cases

end Fcppt.C06
