import FcpptModel.Gen.Scalar
import FcpptModel.Spec.C06
/-!
Symbolic execution of the generated (monadic, straight-line) definitions:
`c06_norm` unfolds the fixed-width primitives at their concrete types, floats every `if` out
of `>>=`, and evaluates numerals; `c06_finish` splits the remaining `if`s and closes each
branch with `omega`.
-/
namespace Fcppt.C06
open Fcppt

theorem ok_bind {α β} (x : α) (f : α → M β) : (Except.ok x >>= f) = f x := rfl
theorem pure_bind' {α β} (x : α) (f : α → M β) : ((pure x : M α) >>= f) = f x := rfl
theorem error_bind {α β} (e : Fault) (f : α → M β) : ((Except.error e : M α) >>= f) = Except.error e := rfl
theorem ite_bind {α β} (c : Prop) [Decidable c] (a b : M α) (f : α → M β) :
    ((if c then a else b) >>= f) = if c then a >>= f else b >>= f := by split <;> rfl
theorem pure_eq_ok {α} (x : α) : (pure x : M α) = Except.ok x := rfl
end Fcppt.C06

open Fcppt Fcppt.C06 in
macro "c06_norm" : tactic => `(tactic| simp only [ok_bind, pure_bind', error_bind, ite_bind, pure_eq_ok,
    CInt.conv, CInt.arith, CInt.add, CInt.sub, CInt.mul, CInt.neg, CInt.div, CInt.mod, CInt.b2i,
    IntTy.wrap, IntTy.InRange, IntTy.lo, IntTy.hi, IntTy.modulus,
    IntTy.u8, IntTy.i8, IntTy.u16, IntTy.i16, IntTy.i32, IntTy.u32, IntTy.u64, IntTy.i64,
    Int.reducePow, Int.reduceSub, Int.reduceNeg, Int.reduceDiv, Int.reduceMod, Int.reduceAdd, Int.reduceMul, Nat.reduceSub,
    Bool.and_true, Bool.true_and, Bool.false_and, Bool.and_false, decide_eq_true_eq, Bool.and_eq_true, Bool.not_eq_true',
    decide_eq_false_iff_not, Bool.not_eq_eq_eq_not, Bool.not_true, Bool.not_false,
    ge_iff_le, Bool.false_eq_true, if_false, if_true, ite_true, ite_false, truncSpec, fromIntSpec, clampSpec] at *)

macro "c06_finish" : tactic => `(tactic| (
    repeat' split
    all_goals (first | rfl | omega | (simp only [Except.ok.injEq, Option.some.injEq]; omega))))

/-- closes `f a 0 = .ok none` (and similar closed evaluations) after the definitions are unfolded, whatever normal form
the control flow has -/
macro "c06_zero" : tactic => `(tactic| first | rfl | (c06_norm <;> (first | rfl | ((repeat' split) <;> (first | rfl | omega)))))
