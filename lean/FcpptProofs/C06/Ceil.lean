import FcpptProofs.C06.Tactics
/-! Ceiling-division lemmas over `Int` used by the `ceil_div` / `ceil_div_signed` theorems. -/
namespace Fcppt.C06

/-- the unsigned algorithm: `a / b + (a % b ? 1 : 0)` -/
theorem ceil_unsigned (a b : Int) (ha : 0 ≤ a) (hb : 0 < b) :
    IsCeilDiv a b (a / b + if a % b ≠ 0 then 1 else 0) ∧ (a / b + if a % b ≠ 0 then 1 else 0) ≤ a ∧ 0 ≤ a / b + (if a % b ≠ 0 then 1 else 0) := by
  have hdm := Int.mul_ediv_add_emod a b
  have hr0 := Int.emod_nonneg a (Int.ne_of_gt hb)
  have hrb := Int.emod_lt_of_pos a hb
  have hq0 : 0 ≤ a / b := Int.ediv_nonneg ha (Int.le_of_lt hb)
  generalize a / b = q at *
  generalize a % b = r at *
  have hcomm : b * q = q * b := Int.mul_comm b q
  by_cases hr : r = 0
  · subst hr
    simp only [ne_eq, not_true_eq_false, ↓reduceIte, Int.add_zero]
    refine ⟨Or.inl ⟨hb, ?_, ?_⟩, ?_, hq0⟩
    · rw [Int.sub_mul, Int.one_mul]; omega
    · omega
    · -- q ≤ q * b
      have : q * 1 ≤ q * b := Int.mul_le_mul_of_nonneg_left (by omega) hq0
      omega
  · simp only [ne_eq, hr, not_false_eq_true, ↓reduceIte]
    refine ⟨Or.inl ⟨hb, ?_, ?_⟩, ?_, by omega⟩
    · rw [Int.add_sub_cancel]; omega
    · rw [Int.add_mul, Int.one_mul]; omega
    · -- q + 1 ≤ a = q*b + r with r ≥ 1 and b ≥ 2 (since 0 < r < b)
      have hb2 : 2 ≤ b := by omega
      have : q * 2 ≤ q * b := Int.mul_le_mul_of_nonneg_left hb2 hq0
      omega

/-- uniqueness: the ceiling is a function of `a` and `b` -/
theorem isCeilDiv_unique (a b q₁ q₂ : Int) (h₁ : IsCeilDiv a b q₁) (h₂ : IsCeilDiv a b q₂) : q₁ = q₂ := by
  rcases h₁ with ⟨hb, l1, u1⟩ | ⟨hb, l1, u1⟩ <;> rcases h₂ with ⟨hb', l2, u2⟩ | ⟨hb', l2, u2⟩
  · -- b > 0
    rw [Int.sub_mul, Int.one_mul] at l1 l2
    by_cases h : q₁ < q₂
    · have : (q₁ + 1) * b ≤ q₂ * b := Int.mul_le_mul_of_nonneg_right (by omega) (by omega)
      rw [Int.add_mul, Int.one_mul] at this; omega
    · by_cases h' : q₂ < q₁
      · have : (q₂ + 1) * b ≤ q₁ * b := Int.mul_le_mul_of_nonneg_right (by omega) (by omega)
        rw [Int.add_mul, Int.one_mul] at this; omega
      · omega
  · omega
  · omega
  · rw [Int.sub_mul, Int.one_mul] at u1 u2
    have hnb : 0 ≤ -b := by omega
    by_cases h : q₁ < q₂
    · have : (q₁ + 1) * (-b) ≤ q₂ * (-b) := Int.mul_le_mul_of_nonneg_right (by omega) hnb
      rw [Int.add_mul, Int.one_mul, Int.mul_neg, Int.mul_neg] at this; omega
    · by_cases h' : q₂ < q₁
      · have : (q₂ + 1) * (-b) ≤ q₁ * (-b) := Int.mul_le_mul_of_nonneg_right (by omega) hnb
        rw [Int.add_mul, Int.one_mul, Int.mul_neg, Int.mul_neg] at this; omega
      · omega

/-- the truncated remainder has the sign of the dividend (or is zero) -/
theorem tmod_sign (a b : Int) : (0 ≤ a → 0 ≤ Int.tmod a b) ∧ (a ≤ 0 → Int.tmod a b ≤ 0) := by
  constructor
  · intro h; exact Int.tmod_nonneg b h
  · intro h
    have := Int.tmod_nonneg (a := -a) b (by omega)
    rw [Int.neg_tmod] at this; omega

/-- the truncated remainder is smaller in magnitude than the divisor -/
theorem tmod_abs_lt (a b : Int) : (0 < b → Int.tmod a b < b ∧ -b < Int.tmod a b) ∧ (b < 0 → Int.tmod a b < -b ∧ b < Int.tmod a b) := by
  constructor
  · intro h
    have h1 := Int.tmod_lt_of_pos a h
    have h2 := Int.tmod_lt_of_pos (-a) h
    rw [Int.neg_tmod] at h2
    omega
  · intro h
    have hp : 0 < -b := by omega
    have h1 := Int.tmod_lt_of_pos a hp
    have h2 := Int.tmod_lt_of_pos (-a) hp
    rw [Int.tmod_neg] at h1 h2
    rw [Int.neg_tmod] at h2
    omega

/-- the signed algorithm (after the repair): truncated quotient, plus one iff the remainder is
non-zero and has the sign of the divisor. -/
theorem ceil_signed (a b : Int) (hb : b ≠ 0) :
    IsCeilDiv a b (Int.tdiv a b + if Int.tmod a b ≠ 0 ∧ (Int.tmod a b < 0 ↔ b < 0) then 1 else 0) := by
  have hdm := Int.mul_tdiv_add_tmod a b
  generalize hq : Int.tdiv a b = q at *
  generalize hr : Int.tmod a b = r at *
  have hcomm : b * q = q * b := Int.mul_comm b q
  -- sign and size of the truncated remainder
  have hrsign : (0 ≤ a → 0 ≤ r) ∧ (a ≤ 0 → r ≤ 0) := by
    subst hr
    constructor
    · intro h; exact Int.tmod_nonneg b h
    · intro h
      have := Int.tmod_nonneg (a := -a) b (by omega)
      rw [Int.neg_tmod] at this; omega
  have hrabs : (0 < b → r < b ∧ -b < r) ∧ (b < 0 → r < -b ∧ b < r) := by
    subst hr
    constructor
    · intro h
      have h1 := Int.tmod_lt_of_pos a h
      have h2 := Int.tmod_lt_of_pos (-a) h
      rw [Int.neg_tmod] at h2
      omega
    · intro h
      have hp : 0 < -b := by omega
      have h1 := Int.tmod_lt_of_pos a hp
      have h2 := Int.tmod_lt_of_pos (-a) hp
      rw [Int.tmod_neg] at h1 h2
      rw [Int.neg_tmod] at h2
      omega
  unfold IsCeilDiv
  by_cases hbp : 0 < b
  · left
    refine ⟨hbp, ?_, ?_⟩ <;> split <;> (try rw [Int.add_sub_cancel]) <;> (try rw [Int.add_mul, Int.one_mul]) <;>
      (try rw [Int.add_zero]) <;> (try rw [Int.sub_mul, Int.one_mul]) <;> omega
  · right
    have hbn : b < 0 := by omega
    refine ⟨hbn, ?_, ?_⟩ <;> split <;> (try rw [Int.add_sub_cancel]) <;> (try rw [Int.add_mul, Int.one_mul]) <;>
      (try rw [Int.add_zero]) <;> (try rw [Int.sub_mul, Int.one_mul]) <;> omega

end Fcppt.C06
