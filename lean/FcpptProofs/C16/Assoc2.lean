import FcpptProofs.C16.Assoc
import FcpptProofs.C16.Find
/-! C16 lemmas: find_opt_iterator, container::find_opt, contains, insert, map_iteration_second, get_or_insert, map_values_ref -/
namespace Fcppt.C16
variable {α β σ : Type}

theorem findOptIterator_eq (m : Map) (k : Nat) : findOptIterator m k = m.findIdx? (fun e => e.1 == k) := by
  have := findIfOpt_eq m (fun e => e.1 == k)
  unfold findIfOpt at this
  unfold findOptIterator stdMapFindPos
  rw [← this]
  by_cases h : stdFindIf (fun e => e.1 == k) m = m.length <;> simp [h]

/-- the entry the iterator points at: it has the key, and it is what `find?` returns -/
theorem containerFindOpt_eq (m : Map) (k : Nat) :
    containerFindOpt m k = (m.find? (fun e => e.1 == k)).map Except.ok := by
  unfold containerFindOpt
  rw [findOptIterator_eq]
  induction m with
  | nil => rfl
  | cons e es ih =>
    by_cases h : (e.1 == k) = true
    · simp [List.findIdx?_cons, List.find?_cons, h, deref]
    · have h' : (e.1 == k) = false := by simpa using h
      simp only [List.findIdx?_cons, List.find?_cons, h', Bool.false_eq_true, if_false]
      rw [← ih]
      cases hi : List.findIdx? (fun e => e.1 == k) es with
      | none => simp
      | some i => simp [deref]

/-- `find_opt_mapped` is the second component of what `find_opt` refers to -/
theorem findOptMapped_eq_findOpt (m : Map) (k : Nat) :
    (findOptMapped m k).map Except.ok = (containerFindOpt m k).map (fun r => r.map (·.2)) := by
  rw [containerFindOpt_eq]
  unfold findOptMapped mapFind
  cases List.find? (fun e => e.1 == k) m <;> simp [Except.map]

theorem containerContains_iff (keys : List Nat) (k : Nat) : containerContains keys k = true ↔ k ∈ keys := by
  unfold containerContains
  simp [List.count_pos_iff]

theorem lookup_isSome_iff (m : Map) (k : Nat) : (m.lookup k).isSome = true ↔ k ∈ keys m := by
  induction m with
  | nil => simp [keys]
  | cons e es ih =>
    obtain ⟨a, b⟩ := e
    simp only [List.lookup_cons, keys, List.map_cons, List.mem_cons]
    by_cases h : k = a
    · subst h; simp
    · have : (k == a) = false := by simpa using h
      simp only [this, h, false_or]
      exact ih

theorem findOptIterator_isSome (m : Map) (k : Nat) : (findOptIterator m k).isSome = (m.lookup k).isSome := by
  rw [findOptIterator_eq]
  induction m with
  | nil => rfl
  | cons e es ih =>
    obtain ⟨a, b⟩ := e
    simp only [List.findIdx?_cons, List.lookup_cons]
    by_cases h : a = k
    · subst h; simp
    · have h1 : (a == k) = false := by simpa using h
      have h2 : (k == a) = false := by simpa using (Ne.symm h)
      simp only [h1, h2, Bool.false_eq_true, if_false]
      rw [← ih]
      cases hi : List.findIdx? (fun e => e.1 == k) es <;> simp

theorem mapInsert_eq (m : Map) (kv : Nat × Nat) :
    mapInsert m kv = if (m.lookup kv.1).isSome then (false, m) else (true, mapEmplace kv.1 kv.2 m) := by
  unfold mapInsert
  have := findOptIterator_isSome m kv.1
  cases h1 : findOptIterator m kv.1 <;> cases h2 : m.lookup kv.1 <;> simp_all

theorem setInsertFlag_eq (s : List Nat) (x : Nat) :
    setInsertFlag s x = (!s.contains x, if s.contains x then s else setInsert x s) := by
  unfold setInsertFlag
  by_cases h : x ∈ s <;> simp [h]

theorem mapIterationSecond_eq (m : Map) (rm : Nat → Bool) :
    mapIterationSecond m (fun v (log : List Nat) => (rm v, log ++ [v])) [] =
      (m.filter (fun e => !rm e.2), m.map (·.2)) := by
  unfold mapIterationSecond mapIteration
  have h : ∀ (done rest : List (Nat × Nat)) (log : List Nat),
      iterate (fun (element : Nat × Nat) (s : List Nat) => (rm element.2, s ++ [element.2])) done rest log
        = (done ++ rest.filter (fun e => !rm e.2), log ++ rest.map (·.2)) := by
    intro done rest
    induction rest generalizing done with
    | nil => intro log; simp [iterate]
    | cons e es ih =>
      intro log
      rw [iterate]
      cases hr : rm e.2
      · simp [ih, hr, List.append_assoc]
      · simp [ih, hr, List.append_assoc]
  simpa using h [] m []

theorem getOrInsertPlain_eq (m : Map) (k : Nat) (create : Nat → σ → Nat × σ) (s : σ) :
    getOrInsertPlain m k create s =
      ((getOrInsert m k create s).1.map (·.1), (getOrInsert m k create s).2) := rfl

theorem mapValuesRef_eq (m : Map) : mapValuesRef m = List.range m.length := by
  unfold mapValuesRef
  rw [(mapSeq_eq _ _ _).1]
  simp

end Fcppt.C16
