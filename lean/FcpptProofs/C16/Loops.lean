import FcpptModel.Spec.C16
/-! C16 lemmas: loop_break, loop, logging, map / map_optional / map_concat / fold / fold_break / all_of / contains_if -/
namespace Fcppt.C16
variable {α β σ : Type}

@[simp] theorem loopBreak_nil (body : α → σ → Loop × σ) (s : σ) : loopBreak [] body s = s := rfl

theorem loopBreak_cons (x : α) (xs : List α) (body : α → σ → Loop × σ) (s : σ) :
    loopBreak (x :: xs) body s =
      if (body x s).1 = .break_ then (body x s).2 else loopBreak xs body (body x s).2 := by
  rw [loopBreak]
  rcases h : body x s with ⟨l, s'⟩
  cases l <;> simp

/-- `loop` is a left fold -/
theorem loop_eq_foldl (xs : List α) (body : α → σ → σ) (s : σ) :
    loop xs body s = xs.foldl (fun s x => body x s) s := by
  induction xs generalizing s with
  | nil => rfl
  | cons x xs ih =>
    unfold loop at ih ⊢
    rw [loopBreak_cons]
    simp only [List.foldl_cons]
    split
    · rename_i h; cases h
    · exact ih _

/-- logging does not change what the loop computes; the log is extended by a prefix of the range -/
theorem loopBreak_logged (xs : List α) (body : α → σ → Loop × σ) (s : σ) (log : List α) :
    ∃ k, k ≤ xs.length ∧ loopBreak xs (logged body) (s, log) = (loopBreak xs body s, log ++ xs.take k) := by
  induction xs generalizing s log with
  | nil => exact ⟨0, by simp, by simp⟩
  | cons x xs ih =>
    rw [loopBreak_cons, loopBreak_cons]
    by_cases hb : (body x s).1 = .break_
    · refine ⟨1, by simp, ?_⟩
      simp [logged, hb]
    · obtain ⟨k, hk, h⟩ := ih (body x s).2 (log ++ [x])
      refine ⟨k + 1, by simp; omega, ?_⟩
      simp only [logged, hb, if_false]
      rw [h]
      simp

/-- when the decision to stop depends on the element only, the log is exactly `Spec.visited` -/
theorem loopBreak_logged_visited (brk : α → Bool) (xs : List α) (body : α → σ → Loop × σ)
    (hb : ∀ x s, (body x s).1 = if brk x then .break_ else .continue_) (s : σ) (log : List α) :
    (loopBreak xs (logged body) (s, log)).2 = log ++ Spec.visited brk xs := by
  induction xs generalizing s log with
  | nil => simp [Spec.visited]
  | cons x xs ih =>
    rw [loopBreak_cons]
    cases hx : brk x
    · have : (logged body x (s, log)).1 ≠ .break_ := by simp [logged, hb, hx]
      rw [if_neg this]
      have e : (logged body x (s, log)).2 = ((body x s).2, log ++ [x]) := rfl
      rw [e, ih]
      simp [Spec.visited, List.findIdx_cons, hx]
    · have : (logged body x (s, log)).1 = .break_ := by simp [logged, hb, hx]
      rw [if_pos this]
      simp [logged, Spec.visited, List.findIdx_cons, hx]

theorem tupleLoopBreak_drop (xs : List α) (body : α → σ → Loop × σ) (i : Nat) (s : σ) :
    tupleLoopBreak xs body i s = loopBreak (xs.drop i) body s := by
  induction h : xs.length - i generalizing i s with
  | zero =>
    rw [tupleLoopBreak, dif_neg (by omega), List.drop_of_length_le (by omega)]
    rfl
  | succ n ih =>
    have hi : i < xs.length := by omega
    rw [tupleLoopBreak, dif_pos hi, List.drop_eq_getElem_cons hi, loopBreak_cons]
    rcases hb : body xs[i] s with ⟨l, s'⟩
    cases l
    · simp; exact ih (i + 1) s' (by omega)
    · simp

/-! ### map family -/

theorem mapSeq_eq (hint : Option Nat) (xs : List α) (f : α → β) :
    (mapSeq hint xs f).1.elems = xs.map f ∧ (mapSeq hint xs f).2 = xs := by
  unfold mapSeq
  simp only [loop_eq_foldl]
  have key : ∀ (l : List α) (c : Cont β) (log : List α),
      (l.foldl (fun (s : Cont β × List α) x => (s.1.insertEndSeq (f x), s.2 ++ [x])) (c, log)).1.elems = c.elems ++ l.map f ∧
      (l.foldl (fun (s : Cont β × List α) x => (s.1.insertEndSeq (f x), s.2 ++ [x])) (c, log)).2 = log ++ l := by
    intro l
    induction l with
    | nil => intro c log; simp
    | cons x l ih =>
      intro c log
      simp only [List.foldl_cons]
      have := ih (c.insertEndSeq (f x)) (log ++ [x])
      simp [Cont.insertEndSeq] at this ⊢
      exact this
  have h := key xs (({} : Cont β).reserve hint) []
  have he : (({} : Cont β).reserve hint).elems = [] := by cases hint <;> rfl
  rw [he] at h
  simpa using h

/-! ordered insertion -/

theorem mem_setInsert (x y : Nat) (l : List Nat) : y ∈ setInsert x l ↔ y = x ∨ y ∈ l := by
  induction l with
  | nil => simp [setInsert]
  | cons z zs ih =>
    unfold setInsert
    split
    · simp
    · split
      · simp [ih]; constructor <;> (intro h; rcases h with h | h | h <;> simp [h])
      · have : x = z := by omega
        subst this; simp

theorem strictSorted_setInsert (x : Nat) (l : List Nat) (h : Spec.StrictSorted l) :
    Spec.StrictSorted (setInsert x l) := by
  induction l with
  | nil => simp [setInsert, Spec.StrictSorted]
  | cons z zs ih =>
    unfold Spec.StrictSorted at h ih ⊢
    rw [List.pairwise_cons] at h
    unfold setInsert
    split
    · rename_i hxz
      rw [List.pairwise_cons]
      refine ⟨?_, List.pairwise_cons.2 h⟩
      intro a ha
      rcases List.mem_cons.1 ha with rfl | ha
      · exact hxz
      · exact Nat.lt_trans hxz (h.1 a ha)
    · split
      · rename_i hzx
        rw [List.pairwise_cons]
        refine ⟨?_, ih h.2⟩
        intro a ha
        rcases (mem_setInsert x a zs).1 ha with rfl | ha
        · exact hzx
        · exact h.1 a ha
      · exact List.pairwise_cons.2 h

theorem setOfList_foldl (l acc : List Nat) (h : Spec.StrictSorted acc) :
    Spec.StrictSorted (l.foldl (fun acc x => setInsert x acc) acc) ∧
    ∀ y, y ∈ l.foldl (fun acc x => setInsert x acc) acc ↔ y ∈ acc ∨ y ∈ l := by
  induction l generalizing acc with
  | nil => simp [h]
  | cons x l ih =>
    simp only [List.foldl_cons]
    obtain ⟨h1, h2⟩ := ih (setInsert x acc) (strictSorted_setInsert x acc h)
    refine ⟨h1, fun y => ?_⟩
    rw [h2, mem_setInsert]
    simp only [List.mem_cons]
    grind

theorem setOfList_spec (l : List Nat) : Spec.StrictSorted (setOfList l) ∧ ∀ y, y ∈ setOfList l ↔ y ∈ l := by
  have := setOfList_foldl l [] (by simp [Spec.StrictSorted])
  simpa [setOfList] using this

/-- two strictly sorted lists with the same members are equal -/
theorem strictSorted_ext {a b : List Nat} (ha : Spec.StrictSorted a) (hb : Spec.StrictSorted b)
    (h : ∀ y, y ∈ a ↔ y ∈ b) : a = b := by
  induction a generalizing b with
  | nil =>
    cases b with
    | nil => rfl
    | cons y ys => exact absurd ((h y).2 (by simp)) (by simp)
  | cons x xs ih =>
    cases b with
    | nil => exact absurd ((h x).1 (by simp)) (by simp)
    | cons y ys =>
      unfold Spec.StrictSorted at ha hb
      rw [List.pairwise_cons] at ha hb
      have hxy : x = y := by
        have h1 := (h x).1 (by simp)
        have h2 := (h y).2 (by simp)
        rcases List.mem_cons.1 h1 with h1 | h1
        · exact h1
        · rcases List.mem_cons.1 h2 with h2 | h2
          · exact h2.symm
          · have := hb.1 x h1; have := ha.1 y h2; omega
      subst hxy
      congr 1
      apply ih ha.2 hb.2
      intro z
      constructor
      · intro hz
        have := (h z).1 (by simp [hz])
        rcases List.mem_cons.1 this with rfl | h'
        · exact absurd (ha.1 z hz) (by omega)
        · exact h'
      · intro hz
        have := (h z).2 (by simp [hz])
        rcases List.mem_cons.1 this with rfl | h'
        · exact absurd (hb.1 z hz) (by omega)
        · exact h'

theorem mapSet_eq (xs : List α) (f : α → Nat) :
    (mapSet xs f).1.elems = setOfList (xs.map f) ∧ (mapSet xs f).2 = xs := by
  unfold mapSet setOfList
  simp only [loop_eq_foldl]
  have key : ∀ (l : List α) (c : Cont Nat) (log : List α),
      (l.foldl (fun (s : Cont Nat × List α) x => (s.1.insertEndSet (f x), s.2 ++ [x])) (c, log)).1.elems
        = (l.map f).foldl (fun acc x => setInsert x acc) c.elems ∧
      (l.foldl (fun (s : Cont Nat × List α) x => (s.1.insertEndSet (f x), s.2 ++ [x])) (c, log)).2 = log ++ l := by
    intro l
    induction l with
    | nil => intro c log; simp
    | cons x l ih =>
      intro c log
      simp only [List.foldl_cons, List.map_cons]
      have := ih (c.insertEndSet (f x)) (log ++ [x])
      simp [Cont.insertEndSet] at this ⊢
      exact this
  simpa using key xs {} []

theorem mapOptional_eq (xs : List α) (f : α → Option β) : mapOptional xs f = (xs.filterMap f, xs) := by
  unfold mapOptional
  have key : ∀ (l : List α) (r : List β) (log : List α),
      l.foldl (mapOptionalStep f) (r, log) = (r ++ l.filterMap f, log ++ l) := by
    intro l
    induction l with
    | nil => intro r log; simp
    | cons x l ih =>
      intro r log
      simp only [List.foldl_cons]
      cases hx : f x with
      | none => simp [mapOptionalStep, ih, hx]
      | some y => simp [mapOptionalStep, ih, hx]
  simpa using key xs [] []

theorem fold_eq_foldl (xs : List α) (s : σ) (f : α → σ → σ) : fold xs s f = xs.foldl (fun st e => f e st) s := by
  simp [fold, loop_eq_foldl]

theorem join_eq (first : List β) (args : List (List β)) : join first args = first ++ args.flatten := by
  unfold join
  induction args generalizing first with
  | nil => simp
  | cons a as ih => simp [ih]

theorem mapConcat_eq (xs : List α) (f : α → List β) : mapConcat xs f = (xs.flatMap f, xs) := by
  unfold mapConcat
  rw [fold_eq_foldl]
  have hj : ∀ (st : List β) (e : α), join st [f e] = st ++ f e := by intro st e; simp [join_eq]
  simp only [hj]
  have key : ∀ (l : List α) (r : List β) (log : List α),
      l.foldl (fun (st : List β × List α) e => (st.1 ++ f e, st.2 ++ [e])) (r, log) = (r ++ l.flatMap f, log ++ l) := by
    intro l
    induction l with
    | nil => intro r log; simp
    | cons x l ih => intro r log; simp [ih, List.flatMap_cons]
  simpa using key xs [] []

/-! ### fold_break -/

theorem foldBreak_eq (f : α → σ → Loop × σ) (xs : List α) (s : σ) :
    foldBreak xs s f = Spec.foldBreak f xs s := by
  unfold foldBreak
  induction xs generalizing s with
  | nil => simp [Spec.foldBreak, Spec.scanAll]
  | cons x xs ih =>
    rw [loopBreak_cons]
    simp only [Spec.foldBreak, Spec.scanAll, List.find?_cons]
    by_cases hb : (f x s).1 = .break_
    · simp [hb]
    · have hb' : ((f x s).1 == Loop.break_) = false := by simpa using hb
      simp only [hb, if_false, hb']
      rw [ih]
      simp only [Spec.foldBreak]
      cases hfind : (Spec.scanAll f xs (f x s).2).find? (fun r => r.1 == Loop.break_) with
      | some r => rfl
      | none =>
        simp only [List.getLast?_cons]
        cases hl : (Spec.scanAll f xs (f x s).2).getLast? with
        | none => simp
        | some r => simp

/-! ### all_of / contains_if -/

theorem allOf_eq (xs : List α) (p : α → Bool) : allOf xs p = (xs.all p, Spec.visited (fun x => !p x) xs) := by
  unfold allOf
  have hlog := loopBreak_logged_visited (fun x => !p x) xs
    (fun e (_ : Bool) => if p e then (Loop.continue_, true) else (Loop.break_, false))
    (by intro x s; cases p x <;> simp) true []
  obtain ⟨k, _, hk⟩ := loopBreak_logged xs (fun e (_ : Bool) => if p e then (Loop.continue_, true) else (Loop.break_, false)) true []
  have hres : ∀ (l : List α) (b : Bool), b = true →
      loopBreak l (fun e (_ : Bool) => if p e then (Loop.continue_, true) else (Loop.break_, false)) b = l.all p := by
    intro l
    induction l with
    | nil => intro b hb; simp [hb]
    | cons x l ih =>
      intro b _
      rw [loopBreak_cons]
      cases hx : p x <;> simp [hx, ih]
  rw [hk] at hlog
  rw [hk]
  simp only [List.nil_append] at hlog
  simp only [List.nil_append]
  rw [hlog, hres xs true rfl]

theorem containsIf_eq (xs : List α) (p : α → Bool) : containsIf xs p = (xs.any p, Spec.visited p xs) := by
  unfold containsIf
  have hlog := loopBreak_logged_visited p xs
    (fun e (r : Bool) => if p e then (Loop.break_, true) else (Loop.continue_, r))
    (by intro x s; cases p x <;> simp) false []
  obtain ⟨k, _, hk⟩ := loopBreak_logged xs (fun e (r : Bool) => if p e then (Loop.break_, true) else (Loop.continue_, r)) false []
  have hres : ∀ (l : List α) (b : Bool),
      loopBreak l (fun e (r : Bool) => if p e then (Loop.break_, true) else (Loop.continue_, r)) b = (b || l.any p) := by
    intro l
    induction l with
    | nil => intro b; simp
    | cons x l ih =>
      intro b
      rw [loopBreak_cons]
      cases hx : p x <;> simp [hx, ih]
  rw [hk] at hlog
  rw [hk]
  simp only [List.nil_append] at hlog
  simp only [List.nil_append]
  rw [hlog, hres xs false]
  simp

end Fcppt.C16
