import FcpptModel.Spec.C16
import FcpptProofs.C16.Assoc
/-! C16 lemmas: user functions that observe the container they are called from, and user functions that throw -/
namespace Fcppt.C16
variable {α β σ : Type}

/-! ### get_or_insert_with_result -/

theorem getOrInsertE_eq (m : Map) (k : Nat) (create : Map → Nat → σ → Except Fault Nat × σ) (s : σ)
    (hs : Spec.StrictSorted (keys m)) :
    getOrInsertE m k create s =
      match m.lookup k with
      | some e => (.ok (e, false), m, s)
      | none =>
        match create m k s with
        | (.error e, s') => (.error e, m, s')
        | (.ok v, s') => (.ok (v, true), mapEmplace k v m, s') := by
  unfold getOrInsertE
  rw [findOptMapped_eq]
  cases h : m.lookup k with
  | some e => rfl
  | none =>
    rcases hc : create m k s with ⟨r, s'⟩
    cases r with
    | error e => rfl
    | ok v =>
      simp only [findOptMapped_eq, lookup_mapEmplace k v k m hs, h, if_true]

/-! ### loops -/

theorem tupleLoopBreakE_drop (xs : List α) (body : α → σ → Except Fault Loop × σ) (i : Nat) (s : σ) :
    tupleLoopBreakE xs body i s = loopBreakE (xs.drop i) body s := by
  induction h : xs.length - i generalizing i s with
  | zero =>
    rw [tupleLoopBreakE, dif_neg (by omega), List.drop_of_length_le (by omega)]
    rfl
  | succ n ih =>
    have hi : i < xs.length := by omega
    rw [tupleLoopBreakE, dif_pos hi, List.drop_eq_getElem_cons hi, loopBreakE]
    rcases hb : body xs[i] s with ⟨l, s'⟩
    cases l with
    | error e => rfl
    | ok l =>
      cases l
      · exact ih (i + 1) s' (by omega)
      · rfl

/-- a loop body that records, counts its calls and throws at the `k`-th, never breaks -/
theorem loopBreakE_throwing (k : Nat) (rec : α → σ → σ) (b : α → Nat × σ → Except Fault Loop × (Nat × σ))
    (hb : ∀ x n s, b x (n, s) =
      if n + 1 = k then (.error (.exception (.other "cb")), (n + 1, rec x s)) else (.ok .continue_, (n + 1, rec x s)))
    (xs : List α) (n : Nat) (s : σ) :
    loopBreakE xs b (n, s) =
      if n < k ∧ k ≤ n + xs.length then
        (.error (.exception (.other "cb")), (k, (xs.take (k - n)).foldl (fun s x => rec x s) s))
      else (.ok (), (n + xs.length, xs.foldl (fun s x => rec x s) s)) := by
  induction xs generalizing n s with
  | nil =>
    have : ¬ (n < k ∧ k ≤ n + ([] : List α).length) := by simp
    rw [if_neg this]; rfl
  | cons x xs ih =>
    rw [loopBreakE, hb]
    by_cases hk : n + 1 = k
    · subst hk
      simp
    · simp only [hk, if_false]
      rw [ih (n + 1) (rec x s)]
      by_cases hc : n + 1 < k ∧ k ≤ n + 1 + xs.length
      · have hc' : n < k ∧ k ≤ n + (x :: xs).length := by simp; omega
        rw [if_pos hc, if_pos hc']
        have : k - n = (k - (n + 1)) + 1 := by omega
        rw [this]
        simp
      · have hc' : ¬ (n < k ∧ k ≤ n + (x :: xs).length) := by simp; omega
        rw [if_neg hc, if_neg hc']
        simp
        omega

theorem loopE_throwAt (k : Nat) (rec : α → σ → σ) (xs : List α) (n : Nat) (s : σ) :
    loopE xs (fun x => throwAt k (rec x) (fun s => ((), s))) (n, s) =
      if n < k ∧ k ≤ n + xs.length then
        (.error (.exception (.other "cb")), (k, (xs.take (k - n)).foldl (fun s x => rec x s) s))
      else (.ok (), (n + xs.length, xs.foldl (fun s x => rec x s) s)) := by
  unfold loopE
  apply loopBreakE_throwing k rec
  intro x n s
  simp only [throwAt]
  try (split <;> rfl)

/-! ### erase while iterating -/

/-- the action is always handed a container that still holds the element it is called for -/
theorem iterateE_sees_element (rm : α → Bool) (done rest : List α) (log : List (List α × α))
    (hl : ∀ p ∈ log, p.2 ∈ p.1) :
    ∀ p ∈ (iterateE (fun cont e (log : List (List α × α)) => (.ok (rm e), log ++ [(cont, e)])) done rest log).2.2, p.2 ∈ p.1 := by
  induction rest generalizing done log with
  | nil => simpa [iterateE] using hl
  | cons x rest ih =>
    rw [iterateE]
    have hl' : ∀ p ∈ log ++ [(done ++ x :: rest, x)], p.2 ∈ p.1 := by
      intro p hp
      rcases List.mem_append.1 hp with h | h
      · exact hl p h
      · simp at h; subst h; simp
    cases hr : rm x
    · simpa [hr] using ih (done ++ [x]) _ hl'
    · simpa [hr] using ih done _ hl'

/-- an action that throws at its `k`-th call (counted from `n` calls already made): the container keeps exactly the effects of
    the actions that returned; the element the throwing call was made for and everything behind it are still there -/
theorem iterateE_throwing (k : Nat) (rm : α → Bool) (a : List α → α → Nat × σ → Except Fault Bool × (Nat × σ))
    (ha : ∀ cont e n s, ∃ s', a cont e (n, s) =
      if n + 1 = k then (.error (.exception (.other "cb")), (n + 1, s')) else (.ok (rm e), (n + 1, s')))
    (done rest : List α) (n : Nat) (s : σ) :
    ∃ s', iterateE a done rest (n, s) =
      if n < k ∧ k ≤ n + rest.length then
        (.error (.exception (.other "cb")),
          done ++ (rest.take (k - n - 1)).filter (fun x => !rm x) ++ rest.drop (k - n - 1), (k, s'))
      else (.ok (), done ++ rest.filter (fun x => !rm x), (n + rest.length, s')) := by
  induction rest generalizing done n s with
  | nil =>
    have : ¬ (n < k ∧ k ≤ n + ([] : List α).length) := by simp
    exact ⟨s, by rw [if_neg this]; simp [iterateE]⟩
  | cons x rest ih =>
    obtain ⟨s1, h1⟩ := ha (done ++ x :: rest) x n s
    rw [iterateE, h1]
    by_cases hk : n + 1 = k
    · subst hk
      exact ⟨s1, by simp⟩
    · simp only [hk, if_false]
      cases hr : rm x
      · obtain ⟨s', h⟩ := ih (done ++ [x]) (n + 1) s1
        refine ⟨s', ?_⟩
        simp only []
        rw [h]
        by_cases hc : n + 1 < k ∧ k ≤ n + 1 + rest.length
        · have hc' : n < k ∧ k ≤ n + (x :: rest).length := by simp; omega
          rw [if_pos hc, if_pos hc']
          have e1 : k - n - 1 = (k - (n + 1) - 1) + 1 := by omega
          rw [e1]
          simp [hr, List.append_assoc]
        · have hc' : ¬ (n < k ∧ k ≤ n + (x :: rest).length) := by simp; omega
          rw [if_neg hc, if_neg hc']
          simp [hr, List.append_assoc]
          omega
      · obtain ⟨s', h⟩ := ih done (n + 1) s1
        refine ⟨s', ?_⟩
        simp only []
        rw [h]
        by_cases hc : n + 1 < k ∧ k ≤ n + 1 + rest.length
        · have hc' : n < k ∧ k ≤ n + (x :: rest).length := by simp; omega
          rw [if_pos hc, if_pos hc']
          have e1 : k - n - 1 = (k - (n + 1) - 1) + 1 := by omega
          rw [e1]
          simp [hr]
        · have hc' : ¬ (n < k ∧ k ≤ n + (x :: rest).length) := by simp; omega
          rw [if_neg hc, if_neg hc']
          simp [hr]
          omega

theorem iterateE_throwAt (k : Nat) (rm : α → Bool) (rec : List α → α → σ → σ) (done rest : List α) (n : Nat) (s : σ) :
    ∃ s', iterateE (fun cont e => throwAt k (rec cont e) (fun s => (rm e, s))) done rest (n, s) =
      if n < k ∧ k ≤ n + rest.length then
        (.error (.exception (.other "cb")),
          done ++ (rest.take (k - n - 1)).filter (fun x => !rm x) ++ rest.drop (k - n - 1), (k, s'))
      else (.ok (), done ++ rest.filter (fun x => !rm x), (n + rest.length, s')) := by
  apply iterateE_throwing k rm
  intro cont e n s
  refine ⟨rec cont e s, ?_⟩
  simp only [throwAt]
  try (split <;> rfl)

end Fcppt.C16
