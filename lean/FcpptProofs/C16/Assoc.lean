import FcpptProofs.C16.Loops
/-! C16 lemmas: maps, sets, at_optional, index_map, arrays, tuples -/
namespace Fcppt.C16
variable {α β σ : Type}

/-! ### std::map as sorted association list -/

def keys (m : Map) : List Nat := m.map (·.1)

theorem findOptMapped_eq (m : Map) (k : Nat) : findOptMapped m k = m.lookup k := by
  unfold findOptMapped mapFind
  induction m with
  | nil => rfl
  | cons e es ih =>
    obtain ⟨a, b⟩ := e
    simp only [List.find?_cons, List.lookup_cons]
    by_cases h : a = k
    · subst h; simp
    · have h1 : (a == k) = false := by simpa using h
      have h2 : (k == a) = false := by simpa using (Ne.symm h)
      simp [h1, h2, ih]

theorem keys_mapEmplace (k v : Nat) (m : Map) : keys (mapEmplace k v m) = setInsert k (keys m) := by
  induction m with
  | nil => rfl
  | cons e es ih =>
    unfold mapEmplace
    simp only [keys, List.map_cons, setInsert]
    split
    · rfl
    · split
      · simp only [List.map_cons]; congr 1
      · rfl

theorem lookup_none_of_lt (k : Nat) (m : Map) (h : ∀ a ∈ keys m, k < a) : m.lookup k = none := by
  induction m with
  | nil => rfl
  | cons e es ih =>
    obtain ⟨a, b⟩ := e
    have ha : k < a := h a (by simp [keys])
    have : (k == a) = false := by simp; omega
    simp only [List.lookup_cons, this]
    exact ih (fun x hx => h x (by simp [keys] at hx ⊢; exact Or.inr hx))

theorem lookup_mapEmplace (k v k' : Nat) (m : Map) (hs : Spec.StrictSorted (keys m)) :
    (mapEmplace k v m).lookup k' =
      if k' = k then (match m.lookup k with | some e => some e | none => some v) else m.lookup k' := by
  induction m with
  | nil =>
    by_cases h : k' = k
    · simp [mapEmplace, List.lookup_cons, h]
    · have : (k' == k) = false := by simpa using h
      simp [mapEmplace, List.lookup_cons, h, this]
  | cons e es ih =>
    obtain ⟨a, b⟩ := e
    unfold Spec.StrictSorted at hs ih
    simp only [keys, List.map_cons, List.pairwise_cons] at hs
    unfold mapEmplace
    simp only
    split
    · rename_i hka
      have hnone : ((a, b) :: es).lookup k = none := by
        apply lookup_none_of_lt
        intro x hx
        simp [keys] at hx
        rcases hx with rfl | ⟨b', hx⟩
        · exact hka
        · exact Nat.lt_trans hka (hs.1 x (by simp; exact ⟨b', hx⟩))
      by_cases h : k' = k
      · subst h; simp [List.lookup_cons, hnone]
      · have : (k' == k) = false := by simpa using h
        simp [List.lookup_cons, this, h]
    · split
      · rename_i hak
        have ih' := ih hs.2
        simp only [List.lookup_cons]
        by_cases h : k' = k
        · subst h
          have : (k' == a) = false := by simp; omega
          simp only [this]
          rw [ih']; simp
        · cases hka : k' == a
          · simp only []; rw [ih']; simp [h]
          · simp [h]
      · have hak : a = k := by omega
        subst hak
        by_cases h : k' = a
        · subst h; simp [List.lookup_cons]
        · simp [h]

theorem getOrInsert_eq (m : Map) (k : Nat) (create : Nat → σ → Nat × σ) (s : σ) (hs : Spec.StrictSorted (keys m)) :
    getOrInsert m k create s =
      match m.lookup k with
      | some e => (.ok (e, false), m, s)
      | none => (.ok ((create k s).1, true), mapEmplace k (create k s).1 m, (create k s).2) := by
  unfold getOrInsert
  rw [findOptMapped_eq]
  cases h : m.lookup k with
  | some e => rfl
  | none =>
    simp only [findOptMapped_eq]
    rw [lookup_mapEmplace _ _ _ _ hs]
    simp [h]

theorem setOfList_of_sorted (l : List Nat) (h : Spec.StrictSorted l) : setOfList l = l :=
  strictSorted_ext (setOfList_spec l).1 h (setOfList_spec l).2

theorem keySet_eq (m : Map) (hs : Spec.StrictSorted (keys m)) : keySet m = keys m := by
  unfold keySet
  rw [(mapSet_eq m (·.1)).1]
  exact setOfList_of_sorted _ hs

theorem mapValues_eq (m : Map) : mapValues m = m.map (·.2) := (mapSeq_eq _ m (·.2)).1

/-! ### set operations -/

theorem mem_stdSetUnion (a b : List Nat) (z : Nat) : z ∈ stdSetUnion a b ↔ z ∈ a ∨ z ∈ b := by
  fun_induction stdSetUnion a b <;> simp_all <;> grind

theorem mem_stdSetIntersection (a b : List Nat) (ha : Spec.StrictSorted a) (hb : Spec.StrictSorted b) (z : Nat) :
    z ∈ stdSetIntersection a b ↔ z ∈ a ∧ z ∈ b := by
  unfold Spec.StrictSorted at ha hb
  fun_induction stdSetIntersection a b <;> simp_all <;> grind

theorem mem_stdSetDifference (a b : List Nat) (ha : Spec.StrictSorted a) (hb : Spec.StrictSorted b) (z : Nat) :
    z ∈ stdSetDifference a b ↔ z ∈ a ∧ z ∉ b := by
  unfold Spec.StrictSorted at ha hb
  fun_induction stdSetDifference a b <;> simp_all <;> grind

/-! ### at_optional, index_map -/

theorem deref_lt (xs : List α) (i : Nat) (h : i < xs.length) : deref xs i = .ok xs[i] := by
  simp [deref, List.getElem?_eq_getElem h]

theorem atOptional_eq (xs : List α) (i : Nat) : atOptional xs i = xs[i]?.map Except.ok := by
  unfold atOptional
  by_cases h : i < xs.length
  · simp [h, deref_lt]
  · simp [h, List.getElem?_eq_none (Nat.le_of_not_lt h)]

theorem genOutputs_length (gen : σ → β × σ) (n : Nat) (g : σ) : (Spec.genOutputs gen n g).length = n := by
  induction n generalizing g with
  | zero => rfl
  | succ n ih => simp [Spec.genOutputs, ih]

theorem indexMapGrow_eq (needed : Nat) (insert : σ → α × σ) (fuel : Nat) (impl : List α) (s : σ)
    (hf : needed - impl.length ≤ fuel) :
    indexMapGrow needed insert fuel impl s =
      .ok (impl ++ Spec.genOutputs insert (needed - impl.length) s, Spec.genState insert (needed - impl.length) s) := by
  induction fuel generalizing impl s with
  | zero =>
    have : needed - impl.length = 0 := by omega
    rw [indexMapGrow, if_neg (by omega), this]
    simp [Spec.genOutputs, Spec.genState]
  | succ fuel ih =>
    rw [indexMapGrow]
    by_cases h : impl.length < needed
    · rw [if_pos h, ih _ _ (by simp; omega)]
      have : needed - impl.length = (needed - (impl ++ [(insert s).1]).length) + 1 := by simp; omega
      rw [this]
      simp [Spec.genOutputs, Spec.genState]
    · have : needed - impl.length = 0 := by omega
      rw [if_neg h, this]
      simp [Spec.genOutputs, Spec.genState]

theorem indexMapGet_eq (impl : List α) (index : Nat) (insert : σ → α × σ) (s : σ) :
    ∃ x, indexMapGet impl index insert s =
        .ok (x, impl ++ Spec.genOutputs insert (index + 1 - impl.length) s, Spec.genState insert (index + 1 - impl.length) s)
      ∧ (impl ++ Spec.genOutputs insert (index + 1 - impl.length) s)[index]? = some x := by
  unfold indexMapGet
  by_cases h : index ≥ impl.length
  · simp only [h, if_true]
    rw [indexMapGrow_eq _ _ _ _ _ (Nat.le_refl _)]
    have hlen : index < (impl ++ Spec.genOutputs insert (index + 1 - impl.length) s).length := by
      simp [genOutputs_length]; omega
    refine ⟨(impl ++ Spec.genOutputs insert (index + 1 - impl.length) s)[index], ?_, by simp [hlen]⟩
    simp [bind, Except.bind, deref_lt _ _ hlen, pure, Except.pure]
  · have h0 : index + 1 - impl.length = 0 := by omega
    have hlt : index < impl.length := by omega
    refine ⟨impl[index], ?_, by simp [h0, Spec.genOutputs, hlt]⟩
    simp [h, h0, Spec.genOutputs, Spec.genState, bind, Except.bind, deref_lt _ _ hlt, pure, Except.pure]

/-! ### arrays and tuples -/

theorem arrayInit_take (f : Nat → Except Fault β) (l : List β) (n : Nat) (hn : n ≤ l.length)
    (hf : ∀ i (h : i < l.length), f i = .ok l[i]) : arrayInit f n = .ok (l.take n) := by
  induction n with
  | zero => rfl
  | succ n ih =>
    have hlt : n < l.length := by omega
    rw [arrayInit, ih (by omega), hf n hlt, List.take_succ_eq_append_getElem hlt]
    rfl

theorem arrayInit_ok (f : Nat → Except Fault β) (l : List β)
    (hf : ∀ i (h : i < l.length), f i = .ok l[i]) : arrayInit f l.length = .ok l := by
  rw [arrayInit_take f l l.length (Nat.le_refl _) hf, List.take_length]

theorem arrayMap_eq (src : List α) (f : α → β) : arrayMap src f = .ok (src.map f) := by
  unfold arrayMap
  have := arrayInit_ok (fun i => (deref src i).map f) (src.map f) (by
    intro i h
    have h' : i < src.length := by simpa using h
    simp [deref_lt _ _ h', Except.map])
  simpa using this

theorem arrayAppend_eq (a1 a2 : List α) : arrayAppend a1 a2 = .ok (a1 ++ a2) := by
  unfold arrayAppend
  have := arrayInit_ok (fun i => if i < a1.length then deref a1 i else deref a2 (i - a1.length)) (a1 ++ a2) (by
    intro i h
    simp only [List.length_append] at h
    by_cases hi : i < a1.length
    · simp [hi, deref_lt, List.getElem_append_left]
    · have h2 : i - a1.length < a2.length := by omega
      simp [hi, deref_lt _ _ h2, List.getElem_append_right (Nat.le_of_not_lt hi)])
  simpa using this

theorem arrayJoin_eq (a1 : List α) (rest : List (List α)) : arrayJoin a1 rest = .ok (a1 ++ rest.flatten) := by
  induction rest generalizing a1 with
  | nil => simp [arrayJoin]
  | cons a2 rest ih => simp [arrayJoin, arrayAppend_eq, bind, Except.bind, ih]

theorem arrayFromRange_eq (size : Nat) (src : List α) :
    arrayFromRange size src = if src.length = size then some (.ok src) else none := by
  unfold arrayFromRange
  by_cases h : src.length = size
  · subst h
    simp [arrayInit_ok (fun i => deref src i) src (fun i hi => deref_lt src i hi)]
  · simp [h]

theorem tuplePushBack_eq (t : List α) (x : α) : tuplePushBack t x = .ok (t ++ [x]) := by
  unfold tuplePushBack
  rw [arrayInit_ok (fun i => deref t i) t (fun i hi => deref_lt t i hi)]
  rfl

theorem tupleConcat_eq (ts : List (List α)) : tupleConcat ts = ts.flatten := by
  induction ts with
  | nil => rfl
  | cons t ts ih => simp [tupleConcat] at ih ⊢; exact ih

theorem arrayInitS_eq (g : Nat → β) (n : Nat) (log : List Nat) :
    arrayInitS (fun i (log : List Nat) => (g i, log ++ [i])) n log = ((List.range n).map g, log ++ List.range n) := by
  induction n with
  | zero => simp [arrayInitS]
  | succ n ih => simp [arrayInitS, ih, List.range_succ]

end Fcppt.C16
