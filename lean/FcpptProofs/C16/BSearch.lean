import FcpptModel.Spec.C16
/-! C16 lemmas: the libstdc++ bisection loops on sorted input; std::reverse's swap loop -/
namespace Fcppt.C16
variable {α : Type}

/-- strict weak order, as asymmetry + negative transitivity -/
structure StrictWeak (lt : α → α → Bool) : Prop where
  asymm : ∀ a b, lt a b = true → lt b a = false
  cotrans : ∀ a b c, lt a b = true → lt a c = true ∨ lt c b = true

/-- all elements satisfying `p` come before all that do not -/
def Partitioned (p : α → Bool) (xs : List α) : Prop :=
  ∀ i j (_ : i ≤ j) (hj : j < xs.length), p xs[j] = true → p (xs[i]'(by omega)) = true

theorem partitioned_getElem (p : α → Bool) (xs : List α) (h : Partitioned p xs) (i : Nat) (hi : i < xs.length) :
    p xs[i] = decide (i < xs.countP p) := by
  induction xs generalizing i with
  | nil => simp at hi
  | cons x rest ih =>
    have hrest : Partitioned p rest := by
      intro a b hab hb hp
      exact h (a + 1) (b + 1) (by omega) (by simp; omega) hp
    cases hx : p x
    · have hall : ∀ j (hj : j < (x :: rest).length), p (x :: rest)[j] = false := by
        intro j hj
        cases hpj : p (x :: rest)[j]
        · rfl
        · have := h 0 j (by omega) hj hpj
          simp [hx] at this
      have hc : (x :: rest).countP p = 0 := by
        rw [List.countP_eq_zero]
        intro a ha
        obtain ⟨j, hj, rfl⟩ := List.getElem_of_mem ha
        simp [hall j hj]
      rw [hc, hall i hi]
      simp
    · rw [List.countP_cons_of_pos hx]
      cases i with
      | zero => simp [hx]
      | succ i =>
        have := ih hrest i (by simpa using hi)
        simp only [List.getElem_cons_succ, this]
        simp

theorem countP_le_length' (p : α → Bool) (xs : List α) : xs.countP p ≤ xs.length := List.countP_le_length

/-- generic bisection for the partition point of `p` in the window `[first, first+len)` -/
def bisect (p : α → Bool) (xs : List α) : (fuel first len : Nat) → Except Fault Nat
  | 0, _, _ => .error .fuel
  | fuel + 1, first, len =>
    if len = 0 then .ok first else
    let half := len / 2
    let middle := first + half
    match deref xs middle with
    | .error e => .error e
    | .ok m => if p m then bisect p xs fuel (middle + 1) (len - half - 1) else bisect p xs fuel first half

theorem lowerBound_eq_bisect (lt : α → α → Bool) (xs : List α) (v : α) (fuel first len : Nat) :
    lowerBound lt xs v fuel first len = bisect (fun x => lt x v) xs fuel first len := by
  induction fuel generalizing first len with
  | zero => rfl
  | succ fuel ih =>
    rw [lowerBound, bisect]
    split
    · rfl
    · simp only []
      cases deref xs (first + len / 2) with
      | error e => rfl
      | ok m => simp only [ih]

theorem upperBound_eq_bisect (lt : α → α → Bool) (xs : List α) (v : α) (fuel first len : Nat) :
    upperBound lt xs v fuel first len = bisect (fun x => !lt v x) xs fuel first len := by
  induction fuel generalizing first len with
  | zero => rfl
  | succ fuel ih =>
    rw [upperBound, bisect]
    split
    · rfl
    · simp only []
      cases deref xs (first + len / 2) with
      | error e => rfl
      | ok m =>
        simp only [ih]
        cases lt v m <;> simp

theorem deref_lt' (xs : List α) (i : Nat) (h : i < xs.length) : deref xs i = .ok xs[i] := by
  simp [deref, List.getElem?_eq_getElem h]

theorem bisect_eq (p : α → Bool) (xs : List α) (hp : Partitioned p xs) (fuel first len : Nat)
    (h1 : first ≤ xs.countP p) (h2 : xs.countP p ≤ first + len) (h3 : first + len ≤ xs.length) (hf : len < fuel) :
    bisect p xs fuel first len = .ok (xs.countP p) := by
  induction fuel generalizing first len with
  | zero => omega
  | succ fuel ih =>
    rw [bisect]
    by_cases hl : len = 0
    · rw [if_pos hl]; congr 1; omega
    · rw [if_neg hl]
      have hm : first + len / 2 < xs.length := by omega
      simp only [deref_lt' xs _ hm]
      rw [partitioned_getElem p xs hp _ hm]
      by_cases hk : first + len / 2 < xs.countP p
      · simp only [hk, decide_true, if_true]
        exact ih _ _ (by omega) (by omega) (by omega) (by omega)
      · simp only [hk, decide_false, Bool.false_eq_true, if_false]
        exact ih _ _ (by omega) (by omega) (by omega) (by omega)

theorem sorted_partitioned_lt (lt : α → α → Bool) (hlt : StrictWeak lt) (xs : List α) (v : α)
    (hs : Spec.SortedBy lt xs) : Partitioned (fun x => lt x v) xs := by
  intro i j hij hj hp
  by_cases h : i = j
  · subst h; exact hp
  · have := (List.pairwise_iff_getElem.1 hs) i j (by omega) hj (by omega)
    rcases hlt.cotrans _ _ (xs[i]'(by omega)) hp with h' | h'
    · simp [h'] at this
    · exact h'

theorem sorted_partitioned_le (lt : α → α → Bool) (hlt : StrictWeak lt) (xs : List α) (v : α)
    (hs : Spec.SortedBy lt xs) : Partitioned (fun x => !lt v x) xs := by
  intro i j hij hj hp
  by_cases h : i = j
  · subst h; exact hp
  · have := (List.pairwise_iff_getElem.1 hs) i j (by omega) hj (by omega)
    cases hv : lt v (xs[i]'(by omega))
    · simp [hv]
    · rcases hlt.cotrans _ _ xs[j] hv with h' | h'
      · simp [h'] at hp
      · simp [h'] at this

theorem countP_lt_le (lt : α → α → Bool) (hlt : StrictWeak lt) (xs : List α) (v : α) :
    xs.countP (fun x => lt x v) ≤ xs.countP (fun x => !lt v x) := by
  apply List.countP_mono_left
  intro x _ hx
  simp [hlt.asymm _ _ hx]

theorem stdEqualRangeLoop_eq (lt : α → α → Bool) (hlt : StrictWeak lt) (xs : List α) (v : α)
    (hs : Spec.SortedBy lt xs) (fuel first len : Nat)
    (h1 : first ≤ xs.countP (fun x => lt x v)) (h2 : xs.countP (fun x => !lt v x) ≤ first + len)
    (h3 : first + len ≤ xs.length) (hf : len < fuel) :
    stdEqualRangeLoop lt xs v fuel first len = .ok (Spec.equalRange lt xs v) := by
  have hle := countP_lt_le lt hlt xs v
  have hp1 := sorted_partitioned_lt lt hlt xs v hs
  have hp2 := sorted_partitioned_le lt hlt xs v hs
  induction fuel generalizing first len with
  | zero => omega
  | succ fuel ih =>
    rw [stdEqualRangeLoop]
    by_cases hl : len = 0
    · rw [if_pos hl]
      unfold Spec.equalRange
      congr 1
      congr 1 <;> omega
    · rw [if_neg hl]
      have hm : first + len / 2 < xs.length := by omega
      simp only [deref_lt' xs _ hm]
      have e1 := partitioned_getElem _ xs hp1 _ hm
      have e2 := partitioned_getElem _ xs hp2 _ hm
      by_cases hk1 : first + len / 2 < xs.countP (fun x => lt x v)
      · rw [e1]
        simp only [hk1, decide_true, if_true]
        exact ih _ _ (by omega) (by omega) (by omega) (by omega)
      · rw [e1]
        simp only [hk1, decide_false, Bool.false_eq_true, if_false]
        by_cases hk2 : first + len / 2 < xs.countP (fun x => !lt v x)
        · have : lt v xs[first + len / 2] = false := by
            have := e2; simp [hk2] at this; exact this
          simp only [this, Bool.false_eq_true, if_false]
          rw [lowerBound_eq_bisect, upperBound_eq_bisect,
            bisect_eq _ xs hp1 _ _ _ h1 (by omega) (by omega) (by omega),
            bisect_eq _ xs hp2 _ _ _ (by omega) (by omega) (by omega) (by omega)]
          rfl
        · have : lt v xs[first + len / 2] = true := by
            have := e2; simp [hk2] at this; exact this
          simp only [this, if_true]
          exact ih _ _ (by omega) (by omega) (by omega) (by omega)

theorem equalRange_eq (lt : α → α → Bool) (hlt : StrictWeak lt) (xs : List α) (v : α) (hs : Spec.SortedBy lt xs) :
    equalRange lt xs v = .ok (Spec.equalRange lt xs v) := by
  unfold equalRange
  exact stdEqualRangeLoop_eq lt hlt xs v hs _ _ _ (Nat.zero_le _) (by simpa using List.countP_le_length) (by simp) (by omega)

theorem countP_split (p q : α → Bool) (xs : List α) (hpq : ∀ x, p x = true → q x = true) :
    xs.countP p + xs.countP (fun x => !p x && q x) = xs.countP q := by
  induction xs with
  | nil => rfl
  | cons x rest ih =>
    simp only [List.countP_cons]
    cases hp : p x
    · cases hq : q x <;> simp <;> omega
    · simp [hpq x hp]; omega

theorem binarySearch_eq (lt : α → α → Bool) (hlt : StrictWeak lt) (xs : List α) (v : α) (hs : Spec.SortedBy lt xs) :
    binarySearch lt xs v = .ok (Spec.binarySearch lt xs v) := by
  unfold binarySearch
  rw [equalRange_eq lt hlt xs v hs]
  simp only [bind, Except.bind, pure, Except.pure, Spec.equalRange]
  congr 1
  have hle := countP_lt_le lt hlt xs v
  have hp1 := sorted_partitioned_lt lt hlt xs v hs
  have hp2 := sorted_partitioned_le lt hlt xs v hs
  have hsplit := countP_split (fun x => lt x v) (fun x => !lt v x) xs (by intro x hx; simp [hlt.asymm _ _ hx])
  have heq : xs.countP (Spec.equiv lt v) = xs.countP (fun x => !lt x v && !lt v x) := rfl
  have hhi := List.countP_le_length (p := fun x => !lt v x) (l := xs)
  unfold Spec.binarySearch
  rw [heq]
  by_cases hone : xs.countP (fun x => !lt x v && !lt v x) = 1
  · have hsing : singular (xs.countP (fun x => lt x v), xs.countP (fun x => !lt v x)) = true := by
      simp [singular]; omega
    rw [if_pos hone]
    simp only [hsing, if_true]
    symm
    have hlo : xs.countP (fun x => lt x v) < xs.length := by omega
    rw [List.findIdx?_eq_some_iff_getElem]
    refine ⟨hlo, ?_, ?_⟩
    · have a1 := partitioned_getElem _ xs hp1 _ hlo
      have a2 := partitioned_getElem _ xs hp2 _ hlo
      simp only [Spec.equiv, a1]
      have : lt v xs[xs.countP (fun x => lt x v)] = false := by
        have : xs.countP (fun x => lt x v) < xs.countP (fun x => !lt v x) := by omega
        simp [this] at a2; exact a2
      simp [this]
    · intro j hj
      have a1 := partitioned_getElem _ xs hp1 j (by omega)
      simp [Spec.equiv, a1, hj]
  · have hsing : singular (xs.countP (fun x => lt x v), xs.countP (fun x => !lt v x)) = false := by
      simp [singular]; omega
    rw [if_neg hone]
    simp [hsing]

/-! ### std::reverse -/

/-- the list after the swaps of `std::reverse` working inwards from `(first, last)` -/
theorem stdReverseLoop_eq (xs : List α) (fuel first last : Nat) (hl : last ≤ xs.length) (hfl : first ≤ last)
    (hf : last - first < fuel) :
    stdReverseLoop xs fuel first last = .ok (xs.take first ++ ((xs.take last).drop first).reverse ++ xs.drop last) := by
  induction fuel generalizing xs first last with
  | zero => omega
  | succ fuel ih =>
    rw [stdReverseLoop]
    by_cases h1 : first < last
    · rw [if_pos h1]
      by_cases h2 : first < last - 1
      · simp only [h2, if_true]
        have ha : first < xs.length := by omega
        have hb : last - 1 < xs.length := by omega
        simp only [List.getElem?_eq_getElem ha, List.getElem?_eq_getElem hb]
        rw [ih _ _ _ (by simp; omega) (by omega) (by omega)]
        congr 1
        apply List.ext_getElem
        · simp; omega
        · intro i hi1 hi2
          simp only [List.length_append, List.length_take, List.length_reverse, List.length_drop, List.length_set] at hi1 hi2
          simp only [List.getElem_append, List.getElem_take, List.getElem_reverse, List.getElem_drop, List.getElem_set,
            List.length_take, List.length_reverse, List.length_drop, List.length_set, List.length_append]
          split <;> split <;> (try split) <;> (try split) <;> (try split) <;> (try split) <;>
            first | omega | (congr 1; omega) | rfl
      · simp only [h2, if_false]
        have : last = first + 1 := by omega
        subst this
        congr 1
        have hd : (xs.take (first + 1)).drop first = [xs[first]'(by omega)] := by
          rw [List.take_succ_eq_append_getElem (by omega), List.drop_append_of_le_length (by simp; omega)]
          simp
        rw [hd]
        simp
    · rw [if_neg h1]
      have : first = last := by omega
      subst this
      have : (xs.take first).drop first = [] := by apply List.drop_of_length_le; simp; omega
      simp [this]

theorem reverse_eq (xs : List α) : reverse xs = .ok xs.reverse := by
  unfold reverse
  rw [stdReverseLoop_eq xs _ 0 xs.length (Nat.le_refl _) (Nat.zero_le _) (by omega)]
  simp

end Fcppt.C16
