import FcpptProofs.C16.BSearch
/-! C16 lemmas: the bisection loops on arbitrary (also unsorted) input, for an arbitrary comparison:
    they terminate within their budget, never leave the range, and a singular result is an equivalent element -/
namespace Fcppt.C16
variable {α : Type}

theorem bisect_bounds (p : α → Bool) (xs : List α) (fuel first len : Nat) (hf : len < fuel)
    (hb : first + len ≤ xs.length) :
    ∃ r, bisect p xs fuel first len = .ok r ∧ first ≤ r ∧ r ≤ first + len := by
  induction fuel generalizing first len with
  | zero => omega
  | succ fuel ih =>
    rw [bisect]
    by_cases hl : len = 0
    · exact ⟨first, by simp [hl], Nat.le_refl _, by omega⟩
    · rw [if_neg hl]
      have hm : first + len / 2 < xs.length := by omega
      simp only [deref_lt' xs _ hm]
      by_cases hp : p xs[first + len / 2] = true
      · simp only [hp, if_true]
        obtain ⟨r, hr, h1, h2⟩ := ih (first + len / 2 + 1) (len - len / 2 - 1) (by omega) (by omega)
        exact ⟨r, hr, by omega, by omega⟩
      · simp only [hp, Bool.false_eq_true, if_false]
        obtain ⟨r, hr, h1, h2⟩ := ih first (len / 2) (by omega) (by omega)
        exact ⟨r, hr, h1, by omega⟩

theorem stdEqualRangeLoop_any (lt : α → α → Bool) (xs : List α) (v : α) (fuel first len : Nat) (hf : len < fuel)
    (hb : first + len ≤ xs.length) :
    ∃ a b, stdEqualRangeLoop lt xs v fuel first len = .ok (a, b) ∧ first ≤ a ∧ a ≤ b ∧ b ≤ first + len ∧
      (a + 1 = b → ∃ h : a < xs.length, lt xs[a] v = false ∧ lt v xs[a] = false) := by
  induction fuel generalizing first len with
  | zero => omega
  | succ fuel ih =>
    rw [stdEqualRangeLoop]
    by_cases hl : len = 0
    · exact ⟨first, first, by simp [hl], Nat.le_refl _, Nat.le_refl _, by omega, by omega⟩
    · rw [if_neg hl]
      have hm : first + len / 2 < xs.length := by omega
      simp only [deref_lt' xs _ hm]
      by_cases h1 : lt xs[first + len / 2] v = true
      · simp only [h1, if_true]
        obtain ⟨a, b, hr, i1, i2, i3, i4⟩ := ih (first + len / 2 + 1) (len - len / 2 - 1) (by omega) (by omega)
        exact ⟨a, b, hr, by omega, i2, by omega, i4⟩
      · simp only [h1, Bool.false_eq_true, if_false]
        by_cases h2 : lt v xs[first + len / 2] = true
        · simp only [h2, if_true]
          obtain ⟨a, b, hr, i1, i2, i3, i4⟩ := ih first (len / 2) (by omega) (by omega)
          exact ⟨a, b, hr, i1, i2, by omega, i4⟩
        · simp only [h2, Bool.false_eq_true, if_false]
          rw [lowerBound_eq_bisect, upperBound_eq_bisect]
          obtain ⟨a, ha, a1, a2⟩ := bisect_bounds (fun x => lt x v) xs (len / 2 + 1) first (len / 2) (by omega) (by omega)
          obtain ⟨b, hb', b1, b2⟩ := bisect_bounds (fun x => !lt v x) xs (len + 1) (first + len / 2 + 1)
            (first + len - (first + len / 2 + 1)) (by omega) (by omega)
          refine ⟨a, b, ?_, a1, by omega, by omega, ?_⟩
          · simp [ha, hb', bind, Except.bind, pure, Except.pure]
          · intro hab
            have : a = first + len / 2 := by omega
            subst this
            exact ⟨hm, by simpa using h1, by simpa using h2⟩

theorem equalRange_any (lt : α → α → Bool) (xs : List α) (v : α) :
    ∃ a b, equalRange lt xs v = .ok (a, b) ∧ a ≤ b ∧ b ≤ xs.length ∧
      (a + 1 = b → ∃ h : a < xs.length, lt xs[a] v = false ∧ lt v xs[a] = false) := by
  obtain ⟨a, b, hr, _, i2, i3, i4⟩ := stdEqualRangeLoop_any lt xs v (xs.length + 1) 0 xs.length (by omega) (by omega)
  exact ⟨a, b, hr, i2, by omega, i4⟩

theorem binarySearch_any (lt : α → α → Bool) (xs : List α) (v : α) :
    ∃ r, binarySearch lt xs v = .ok r ∧
      ∀ i, r = some i → ∃ h : i < xs.length, Spec.equiv lt v xs[i] = true := by
  obtain ⟨a, b, hr, _, _, i4⟩ := equalRange_any lt xs v
  unfold binarySearch
  rw [hr]
  simp only [bind, Except.bind, pure, Except.pure]
  by_cases hs : singular (a, b) = true
  · refine ⟨some a, by simp [hs], ?_⟩
    intro i hi
    have hia : a = i := by simpa using hi
    subst hia
    have hab : a + 1 = b := by
      unfold singular at hs
      simp at hs
      omega
    obtain ⟨h, e1, e2⟩ := i4 hab
    exact ⟨h, by simp [Spec.equiv, e1, e2]⟩
  · exact ⟨none, by simp [hs], by simp⟩

end Fcppt.C16
