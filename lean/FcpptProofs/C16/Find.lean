import FcpptProofs.C16.Loops
/-! C16 lemmas: find family, remove_if, unique_if, repeat, generate_n, erase-while-iterating -/
namespace Fcppt.C16
variable {α β σ : Type}

theorem stdFindIf_eq_findIdx (p : α → Bool) (xs : List α) : stdFindIf p xs = xs.findIdx p := by
  induction xs with
  | nil => rfl
  | cons x xs ih => simp [stdFindIf, List.findIdx_cons, ih]

theorem findIfOpt_eq (xs : List α) (p : α → Bool) : findIfOpt xs p = xs.findIdx? p := by
  unfold findIfOpt
  rw [stdFindIf_eq_findIdx, List.findIdx?_eq_guard_findIdx_lt]
  have := List.findIdx_le_length (p := p) (xs := xs)
  by_cases h : xs.findIdx p = xs.length
  · simp [h, Option.guard]
  · have : xs.findIdx p < xs.length := by omega
    simp [h, this, Option.guard]

theorem findOpt_eq [BEq α] (xs : List α) (v : α) : findOpt xs v = xs.idxOf? v := by
  have := findIfOpt_eq xs (· == v)
  simpa [findOpt, findIfOpt, stdFind, List.idxOf?] using this

theorem indexOf_eq [BEq α] (xs : List α) (v : α) : indexOf xs v = xs.idxOf? v := by
  unfold indexOf
  rw [findOpt_eq]
  cases xs.idxOf? v <;> simp

theorem contains_eq [BEq α] (xs : List α) (v : α) : contains xs v = xs.any (· == v) := by
  unfold contains stdFind
  rw [stdFindIf_eq_findIdx]
  induction xs with
  | nil => simp
  | cons x xs ih =>
    simp only [List.findIdx_cons, List.length_cons, List.any_cons]
    cases h : x == v
    · simp only [cond_false, Bool.false_or]
      rw [← ih]
      simp [bne]
    · simp [bne]

theorem contains_iff_mem [BEq α] [LawfulBEq α] (xs : List α) (v : α) : contains xs v = true ↔ v ∈ xs := by
  rw [contains_eq]
  simp

/-! ### find_by_opt -/

theorem findByOptLoop_eq (xs : List α) (f : α → Option β) (cur : Nat) (log : List α) :
    findByOptLoop xs f cur log =
      ((xs.drop cur).findSome? f, log ++ Spec.visited (fun x => (f x).isSome) (xs.drop cur)) := by
  induction h : xs.length - cur generalizing cur log with
  | zero =>
    rw [findByOptLoop, dif_neg (by omega), List.drop_of_length_le (by omega)]
    simp [Spec.visited]
  | succ n ih =>
    have hc : cur < xs.length := by omega
    have hd : xs.drop cur = xs[cur] :: xs.drop (cur + 1) := List.drop_eq_getElem_cons hc
    have ih' := ih (cur + 1) (log ++ [xs[cur]]) (by omega)
    rw [findByOptLoop, dif_pos hc, hd]
    generalize xs.drop (cur + 1) = rest at ih' ⊢
    generalize xs[cur] = a at ih' ⊢
    cases hf : f a with
    | some r => simp [Spec.visited, List.findIdx_cons, hf]
    | none => simp [Spec.visited, List.findIdx_cons, hf, ih']

theorem findByOpt_eq (xs : List α) (f : α → Option β) :
    findByOpt xs f = (xs.findSome? f, Spec.visited (fun x => (f x).isSome) xs) := by
  simpa [findByOpt] using findByOptLoop_eq xs f 0 []

/-! ### remove_if -/

theorem removeIf_eq (xs junk : List α) (p : α → Bool) :
    removeIf xs junk p = (xs.any p, xs.filter (fun x => !p x)) := by
  unfold removeIf stdRemoveIf
  have hlen : (xs.filter (fun x => !p x)).length ≤ xs.length := List.length_filter_le _ _
  by_cases h : (xs.filter (fun x => !p x)).length = xs.length
  · have hall : ∀ x ∈ xs, (!p x) = true := List.length_filter_eq_length_iff.1 h
    have hany : xs.any p = false := by
      rw [List.any_eq_false]; intro x hx; simpa using hall x hx
    simp [h, hany]
  · have hany : xs.any p = true := by
      rw [List.any_eq_true]
      false_or_by_contra
      rename_i hcon
      apply h
      rw [List.length_filter_eq_length_iff]
      intro x hx
      cases hp : p x
      · rfl
      · exact absurd ⟨x, hx, hp⟩ hcon
    have hne : ((xs.filter (fun x => !p x)).length == xs.length) = false := by simpa using h
    simp only [hne, hany]
    simp [eraseRange, List.take_append, List.drop_append]
    omega

theorem remove_eq [BEq α] (xs junk : List α) (e : α) :
    remove xs junk e = (xs.any (fun r => e == r), xs.filter (fun r => !(e == r))) := by
  simp [remove, removeIf_eq]

/-! ### unique_if -/

theorem eraseRepsBy_loop_eq (r : α → α → Bool) (a : α) (as acc : List α) :
    List.eraseRepsBy.loop r a as acc = acc.reverse ++ a :: stdUniqueGo r a as := by
  induction as generalizing a acc with
  | nil => simp [List.eraseRepsBy.loop, stdUniqueGo]
  | cons b bs ih =>
    rw [List.eraseRepsBy.loop, stdUniqueGo]
    cases h : r a b
    · simp [ih]
    · simp [ih]

theorem stdUniqueGo_length (r : α → α → Bool) (a : α) (as : List α) : (stdUniqueGo r a as).length ≤ as.length := by
  induction as generalizing a with
  | nil => simp [stdUniqueGo]
  | cons b bs ih =>
    rw [stdUniqueGo]
    split
    · have := ih a; simp; omega
    · have := ih b; simp; omega

theorem uniqueIf_eq (xs junk : List α) (pred : α → α → Bool) : uniqueIf xs junk pred = xs.eraseRepsBy pred := by
  unfold uniqueIf stdUnique
  cases xs with
  | nil => simp [eraseRange, List.eraseRepsBy]
  | cons x rest =>
    have hl := stdUniqueGo_length pred x rest
    simp only [List.eraseRepsBy, eraseRepsBy_loop_eq, List.reverse_nil, List.nil_append]
    simp [eraseRange, List.take_append, List.drop_append]
    omega

theorem unique_eq [BEq α] (xs junk : List α) : unique xs junk = xs.eraseReps := by
  simp [unique, uniqueIf_eq, List.eraseReps]

/-! ### repeat, generate_n -/

theorem repeatLoop_eq (count : Int) (f : σ → σ) (index : Int) (s : σ) :
    repeatLoop count f index s = Nat.repeat f (count - index).toNat s := by
  induction h : (count - index).toNat generalizing index s with
  | zero =>
    rw [repeatLoop, if_neg (by omega)]
    rfl
  | succ n ih =>
    rw [repeatLoop, if_pos (by omega), ih (index + 1) (f s) (by omega)]
    clear ih h
    induction n generalizing s with
    | zero => rfl
    | succ n ih2 => simp only [Nat.repeat] at ih2 ⊢; rw [ih2]

theorem generateN_eq (count : Nat) (gen : σ → β × σ) (g : σ) :
    (generateN count gen g).1.elems = Spec.genOutputs gen count g ∧
    (generateN count gen g).2 = Spec.genState gen count g := by
  unfold generateN intRangeCount
  simp only [loop_eq_foldl]
  have key : ∀ (l : List Nat) (c : Cont β) (g : σ),
      (l.foldl (fun (s : Cont β × σ) (_ : Nat) => ((s.1.insertEndSeq (gen s.2).1), (gen s.2).2)) (c, g)).1.elems
        = c.elems ++ Spec.genOutputs gen l.length g ∧
      (l.foldl (fun (s : Cont β × σ) (_ : Nat) => ((s.1.insertEndSeq (gen s.2).1), (gen s.2).2)) (c, g)).2
        = Spec.genState gen l.length g := by
    intro l
    induction l with
    | nil => intro c g; simp [Spec.genOutputs, Spec.genState]
    | cons x l ih =>
      intro c g
      simp only [List.foldl_cons, List.length_cons, Spec.genOutputs, Spec.genState]
      have := ih (c.insertEndSeq (gen g).1) (gen g).2
      simp [Cont.insertEndSeq] at this ⊢
      exact this
  have h := key (List.range count) (({} : Cont β).reserve (some (List.range count).length)) g
  simpa [Cont.reserve] using h

/-! ### erase while iterating -/

theorem iterate_eq (rm : α → Bool) (done rest log : List α) :
    iterate (fun e (log : List α) => (rm e, log ++ [e])) done rest log
      = (done ++ rest.filter (fun x => !rm x), log ++ rest) := by
  induction rest generalizing done log with
  | nil => simp [iterate]
  | cons x rest ih =>
    rw [iterate]
    cases h : rm x
    · simp [ih, h]
    · simp [ih, h]

end Fcppt.C16
