import FcpptModel.Spec.C16
import FcpptProofs.C16.Loops
import FcpptProofs.C16.Strings
import FcpptProofs.C16.Assoc
import FcpptProofs.C16.BSearch
/-! C16 lemmas: references, value categories, equal, front/back/pop, size, data, dynamic_array, output -/
namespace Fcppt.C16
variable {α β σ : Type}

/-! ### loops through references -/

theorem loopRef_eq (xs : List α) (f : α → α) : loopRef xs f = xs.map f := by
  induction xs with
  | nil => rfl
  | cons x xs ih =>
    unfold loopRef at ih ⊢
    simp [loopBreakRef, ih]

theorem loopBreakRef_eq (brk : α → Bool) (new : α → α) (xs : List α) (body : α → Loop × α)
    (hb : ∀ x, body x = (if brk x then .break_ else .continue_, new x)) :
    loopBreakRef xs body = (xs.take (xs.findIdx brk + 1)).map new ++ xs.drop (xs.findIdx brk + 1) := by
  induction xs with
  | nil => rfl
  | cons x xs ih =>
    rw [loopBreakRef, hb x]
    cases hx : brk x
    · simp [List.findIdx_cons, hx, ih]
    · simp [List.findIdx_cons, hx]

/-! ### value categories -/

theorem consumed_length (rv : Bool) (moved : α) (xs : List α) : (Spec.consumed rv moved xs).length = xs.length := by
  unfold Spec.consumed; split <;> simp

theorem map_leftBehind (rv : Bool) (moved : α) (xs : List α) :
    xs.map (leftBehind rv moved) = Spec.consumed rv moved xs := by
  cases rv
  · have : leftBehind false moved = id := funext fun x => by simp [leftBehind]
    simp [this, Spec.consumed]
  · simp [leftBehind, Spec.consumed]

theorem mapVC_eq (rv : Bool) (moved : α) (xs : List α) (f : α → β) :
    mapVC rv moved xs f = (xs.map f, Spec.consumed rv moved xs) := by
  unfold mapVC
  rw [loop_eq_foldl]
  have h : ∀ (r : List β) (src : List α),
      xs.foldl (fun (s : List β × List α) x => (s.1 ++ [f x], s.2 ++ [leftBehind rv moved x])) (r, src)
        = (r ++ xs.map f, src ++ xs.map (leftBehind rv moved)) := by
    induction xs with
    | nil => simp
    | cons x xs ih => intro r src; simp [ih]
  have := h [] []
  simp only [List.nil_append] at this
  rw [← map_leftBehind]
  exact this

theorem joinVC_eq (moved : α) (first : List α) (args : List (Bool × List α)) :
    joinVC moved first args =
      (first ++ (args.map (·.2)).flatten, args.map fun c => Spec.consumed c.1 moved c.2) := by
  unfold joinVC
  have h : ∀ (r : List α) (after : List (List α)),
      args.foldl (fun (st : List α × List (List α)) c => (st.1 ++ c.2, st.2 ++ [c.2.map (leftBehind c.1 moved)])) (r, after)
        = (r ++ (args.map (·.2)).flatten, after ++ args.map fun c => c.2.map (leftBehind c.1 moved)) := by
    induction args with
    | nil => simp
    | cons c cs ih => intro r after; simp [ih, List.append_assoc]
  rw [h first []]
  simp [map_leftBehind]

/-- the source after its first `k` elements have been read by value -/
def consumedPrefix (rv : Bool) (moved : α) (xs : List α) (k : Nat) : List α :=
  if rv then (xs.take k).map (fun _ => moved) ++ xs.drop k else xs

theorem consumedPrefix_zero (rv : Bool) (moved : α) (xs : List α) : consumedPrefix rv moved xs 0 = xs := by
  unfold consumedPrefix; split <;> simp

theorem consumedPrefix_length (rv : Bool) (moved : α) (xs : List α) (k : Nat) (hk : xs.length ≤ k) :
    consumedPrefix rv moved xs k = Spec.consumed rv moved xs := by
  unfold consumedPrefix Spec.consumed
  split
  · rw [List.take_of_length_le hk, List.drop_eq_nil_of_le hk]; simp
  · rfl

theorem readMove_prefix (rv : Bool) (moved : α) (xs : List α) (k : Nat) (hk : k < xs.length) :
    readMove rv moved (consumedPrefix rv moved xs k) k = .ok (xs[k], consumedPrefix rv moved xs (k + 1)) := by
  unfold readMove consumedPrefix
  cases rv
  · simp [List.getElem?_eq_getElem hk]
  · have hlen : ((xs.take k).map (fun _ => moved)).length = k := by simp; omega
    have hget : ((xs.take k).map (fun _ => moved) ++ xs.drop k)[k]? = some xs[k] := by
      rw [List.getElem?_append_right (by omega), hlen]
      simp [List.getElem?_eq_getElem hk]
    simp only [if_true, hget]
    congr 2
    rw [List.set_append_right _ _ (by omega), hlen, Nat.sub_self]
    rw [List.drop_eq_getElem_cons hk, List.set_cons_zero]
    have hk' : k < (xs.map (fun _ => moved)).length := by simpa using hk
    simp only [List.map_take]
    rw [List.take_succ_eq_append_getElem hk']
    simp

/-- `arrayInitSE` along a known trajectory of states, producing the elements of a known list -/
theorem arrayInitSE_take (f : Nat → σ → Except Fault (β × σ)) (l : List β) (n : Nat) (hn : n ≤ l.length) (st : Nat → σ)
    (hstep : ∀ i (h : i < n), f i (st i) = .ok (l[i], st (i + 1))) :
    arrayInitSE f n (st 0) = .ok (l.take n, st n) := by
  induction n with
  | zero => rfl
  | succ n ih =>
    have hlt : n < l.length := by omega
    rw [arrayInitSE, ih (by omega) (fun i hi => hstep i (by omega))]
    simp only [bind, Except.bind, hstep n (Nat.lt_succ_self n), pure, Except.pure]
    rw [List.take_succ_eq_append_getElem hlt]

theorem arrayInitSE_ok (f : Nat → σ → Except Fault (β × σ)) (l : List β) (st : Nat → σ)
    (hstep : ∀ i (h : i < l.length), f i (st i) = .ok (l[i], st (i + 1))) :
    arrayInitSE f l.length (st 0) = .ok (l, st l.length) := by
  rw [arrayInitSE_take f l l.length (Nat.le_refl _) st hstep, List.take_length]

theorem arrayMapVC_eq (rv : Bool) (moved : α) (src : List α) (f : α → β) :
    arrayMapVC rv moved src f = .ok (src.map f, Spec.consumed rv moved src) := by
  unfold arrayMapVC
  have h := arrayInitSE_ok
    (fun i s => do let (x, s') ← readMove rv moved s i; pure (f x, s')) (src.map f)
    (fun i => consumedPrefix rv moved src i)
    (by
      intro i hi
      have hi' : i < src.length := by simpa using hi
      simp [readMove_prefix rv moved src i hi', bind, Except.bind, pure, Except.pure])
  simp only [consumedPrefix_zero, List.length_map] at h
  rw [h, consumedPrefix_length _ _ _ _ (Nat.le_refl _)]

theorem arrayReadAll_eq (rv : Bool) (moved : α) (src : List α) :
    arrayInitSE (fun i s => readMove rv moved s i) src.length src = .ok (src, Spec.consumed rv moved src) := by
  have h := arrayInitSE_ok (fun i s => readMove rv moved s i) src (fun i => consumedPrefix rv moved src i)
    (fun i hi => readMove_prefix rv moved src i hi)
  simp only [consumedPrefix_zero] at h
  rw [h, consumedPrefix_length _ _ _ _ (Nat.le_refl _)]

theorem arrayAppendVC_eq (rv1 rv2 : Bool) (moved : α) (a1 a2 : List α) :
    arrayAppendVC rv1 rv2 moved a1 a2 = .ok (a1 ++ a2, Spec.consumed rv1 moved a1, Spec.consumed rv2 moved a2) := by
  unfold arrayAppendVC
  have h := arrayInitSE_ok
    (fun i (st : List α × List α) =>
      if i < a1.length then do
        let (x, a) ← readMove rv1 moved st.1 i
        pure (x, (a, st.2))
      else do
        let (x, b) ← readMove rv2 moved st.2 (i - a1.length)
        pure (x, (st.1, b)))
    (a1 ++ a2)
    (fun i => (consumedPrefix rv1 moved a1 (min i a1.length), consumedPrefix rv2 moved a2 (i - a1.length)))
    (by
      intro i hi
      simp only [List.length_append] at hi
      by_cases h1 : i < a1.length
      · have e1 : min i a1.length = i := by omega
        have e2 : min (i + 1) a1.length = i + 1 := by omega
        have e3 : i - a1.length = 0 := by omega
        have e4 : i + 1 - a1.length = 0 := by omega
        simp only [h1, if_true, e1, e2, e3, e4, readMove_prefix rv1 moved a1 i h1, bind, Except.bind, pure, Except.pure]
        simp [List.getElem_append_left h1]
      · have h2 : i - a1.length < a2.length := by omega
        have e1 : min i a1.length = a1.length := by omega
        have e2 : min (i + 1) a1.length = a1.length := by omega
        have e4 : i + 1 - a1.length = (i - a1.length) + 1 := by omega
        simp only [h1, if_false, e1, e2, e4, readMove_prefix rv2 moved a2 _ h2, bind, Except.bind, pure, Except.pure]
        simp [List.getElem_append_right (Nat.le_of_not_lt h1)])
  simp only [List.length_append, Nat.zero_min, consumedPrefix_zero, Nat.zero_sub] at h
  rw [h]
  have e1 : min (a1.length + a2.length) a1.length = a1.length := by omega
  have e2 : a1.length + a2.length - a1.length = a2.length := by omega
  rw [e1, e2, consumedPrefix_length _ _ _ _ (Nat.le_refl _), consumedPrefix_length _ _ _ _ (Nat.le_refl _)]

theorem arrayJoin3VC_eq (rv1 rv2 rv3 : Bool) (moved : α) (a1 a2 a3 : List α) :
    arrayJoin3VC rv1 rv2 rv3 moved a1 a2 a3 =
      .ok (a1 ++ a2 ++ a3, Spec.consumed rv1 moved a1, Spec.consumed rv2 moved a2, Spec.consumed rv3 moved a3) := by
  simp [arrayJoin3VC, arrayAppendVC_eq, bind, Except.bind, pure, Except.pure]

theorem arrayPushBackVC_eq (rv rvx : Bool) (moved : α) (src : List α) (x : α) :
    arrayPushBackVC rv rvx moved src x = .ok (src ++ [x], Spec.consumed rv moved src, if rvx then moved else x) := by
  simp [arrayPushBackVC, arrayAppendVC_eq, bind, Except.bind, pure, Except.pure, leftBehind]

theorem arrayFromRangeVC_eq (rv : Bool) (moved : α) (size : Nat) (src : List α) :
    arrayFromRangeVC rv moved size src =
      if src.length = size then some (.ok (src, Spec.consumed rv moved src)) else none := by
  unfold arrayFromRangeVC
  by_cases h : src.length = size
  · subst h; simp [arrayReadAll_eq]
  · simp [h]

theorem tuplePushBackVC_eq (rv rvx : Bool) (moved : α) (t : List α) (x : α) :
    tuplePushBackVC rv rvx moved t x = .ok (t ++ [x], Spec.consumed rv moved t, if rvx then moved else x) := by
  simp [tuplePushBackVC, arrayReadAll_eq, bind, Except.bind, pure, Except.pure, leftBehind]

theorem tupleConcatVC_eq (moved : α) (ts : List (Bool × List α)) :
    tupleConcatVC moved ts = ((ts.map (·.2)).flatten, ts.map fun t => Spec.consumed t.1 moved t.2) := by
  simp [tupleConcatVC, tupleConcat_eq, map_leftBehind]

/-! ### make, move_range -/

theorem makeContainer_eq (moved : α) (args : List α) :
    makeContainer moved args = .ok (args, args.map fun _ => moved) := by
  unfold makeContainer
  have h : ∀ (n : Nat) (hn : n ≤ args.length),
      (List.range n).foldlM (fun (st : List α × List α) r => do
          let (x, a) ← readMove true moved st.2 r
          pure (st.1 ++ [x], a)) (([] : List α), args)
        = (.ok (args.take n, consumedPrefix true moved args n) : Except Fault (List α × List α)) := by
    intro n
    induction n with
    | zero => intro _; simp [consumedPrefix_zero, pure, Except.pure]
    | succ n ih =>
      intro hn
      have hlt : n < args.length := by omega
      rw [List.range_succ, List.foldlM_append, ih (by omega)]
      simp only [bind, Except.bind, List.foldlM_cons, List.foldlM_nil, readMove_prefix true moved args n hlt, pure, Except.pure]
      rw [List.take_succ_eq_append_getElem hlt]
  rw [h args.length (Nat.le_refl _), List.take_length, consumedPrefix_length _ _ _ _ (Nat.le_refl _)]
  simp [Spec.consumed]

theorem moveRange_eq (moved : α) (xs : List α) : moveRange moved xs = (xs, xs, xs.map fun _ => moved) := by
  simp [moveRange, mapVC_eq, Spec.consumed]

/-! ### equal -/

theorem stdEqualLoop_eq [BEq α] [LawfulBEq α] (xs ys : List α) : stdEqualLoop xs ys = (xs == ys) := by
  induction xs generalizing ys with
  | nil => cases ys <;> simp [stdEqualLoop]
  | cons x xs ih =>
    cases ys with
    | nil => simp [stdEqualLoop]
    | cons y ys =>
      simp only [stdEqualLoop, ih]
      by_cases h : x = y <;> simp [h]

theorem equal_eq [BEq α] [LawfulBEq α] (ra : Bool) (xs ys : List α) : equal ra xs ys = (xs == ys) := by
  unfold equal stdEqual
  cases ra
  · simp [stdEqualLoop_eq]
  · by_cases hl : xs.length = ys.length
    · simp [hl, stdEqualLoop_eq]
    · have : (xs == ys) = false := by
        cases hxy : xs == ys
        · rfl
        · have := eq_of_beq hxy; subst this; exact absurd rfl hl
      simp [hl, this]

/-! ### front, back, pop, size, data -/

theorem maybeFront_eq (xs : List α) : maybeFront xs = xs.head?.map Except.ok := by
  cases xs <;> simp [maybeFront, deref]

theorem maybeBack_eq (xs : List α) : maybeBack xs = xs.getLast?.map Except.ok := by
  cases xs with
  | nil => simp [maybeBack]
  | cons x xs =>
    have h : (x :: xs).length - 1 < (x :: xs).length := by simp
    simp only [maybeBack, List.isEmpty_cons, Bool.false_eq_true, if_false, deref_lt _ _ h]
    rw [List.getLast?_eq_getElem?]
    simp

theorem popBack_eq (xs : List α) : popBack xs = (xs.getLast?.map Except.ok, xs.dropLast) := by
  cases xs with
  | nil => simp [popBack]
  | cons x xs =>
    have h : (x :: xs).length - 1 < (x :: xs).length := by simp
    simp only [popBack, List.isEmpty_cons, Bool.not_false, if_true, deref_lt _ _ h]
    rw [List.getLast?_eq_getElem?, List.dropLast_eq_take]
    simp

theorem popFront_eq (xs : List α) : popFront xs = (xs.head?.map Except.ok, xs.tail) := by
  cases xs <;> simp [popFront, deref]

theorem distance_eq (xs : List α) : distance xs = xs.length := by
  induction xs with
  | nil => rfl
  | cons x xs ih => simp [distance, ih]

theorem containerSize_eq (hasSize : Bool) (xs : List α) : containerSize hasSize xs = xs.length := by
  cases hasSize <;> simp [containerSize, distance_eq]

theorem dataEnd_eq (xs : List α) : dataEnd xs = .ok (if xs.isEmpty then none else some xs.length) := by
  cases xs <;> simp [dataEnd, data, ptrAdd]

/-! ### dynamic_array -/

theorem DynArray.size_mk' (n : Nat) : (DynArray.mk' n : DynArray α).size = n := by
  simp [DynArray.mk', DynArray.size]

/-- the array after the cells `0 … k-1` have been written -/
def dynFilled (n k : Nat) (g : Nat → α) : DynArray α :=
  ⟨(List.range n).map fun i => if i < k then some (g i) else none⟩

theorem dynFill_eq (n : Nat) (g : Nat → α) (k : Nat) (hk : k ≤ n) :
    (List.range k).foldlM (fun (a : DynArray α) i => a.write i (g i)) (DynArray.mk' n) = .ok (dynFilled n k g) := by
  induction k with
  | zero =>
    simp only [List.range_zero, List.foldlM_nil, pure, Except.pure, dynFilled, DynArray.mk']
    congr 2
    apply List.ext_getElem <;> simp
  | succ k ih =>
    rw [List.range_succ, List.foldlM_append, ih (by omega)]
    simp only [bind, Except.bind, List.foldlM_cons, List.foldlM_nil, DynArray.write, dynFilled, List.length_map,
      List.length_range, pure, Except.pure]
    rw [if_pos (by omega)]
    show Except.ok _ = Except.ok _
    congr 2
    apply List.ext_getElem
    · simp
    · intro i h1 h2
      simp only [List.length_set, List.length_map, List.length_range] at h1
      simp only [List.getElem_set, List.getElem_map, List.getElem_range]
      by_cases hik : k = i
      · subst hik; simp
      · simp only [hik, if_false]
        by_cases hlt : i < k
        · simp [hlt, show i < k + 1 by omega]
        · simp [hlt, show ¬ i < k + 1 by omega]

theorem DynArray.fillRead_eq (n : Nat) (g : Nat → α) : DynArray.fillRead n g = .ok ((List.range n).map g) := by
  unfold DynArray.fillRead
  rw [dynFill_eq n g n (Nat.le_refl _)]
  simp only [bind, Except.bind]
  have h : ∀ (l : List Nat), (∀ i ∈ l, i < n) → l.mapM (dynFilled n n g).read = (.ok (l.map g) : Except Fault (List α)) := by
    intro l
    induction l with
    | nil => intro _; rfl
    | cons i l ih =>
      intro hl
      have hi : i < n := hl i (by simp)
      rw [List.mapM_cons, ih (fun j hj => hl j (by simp [hj]))]
      simp [DynArray.read, dynFilled, hi, bind, Except.bind, pure, Except.pure]
  exact h (List.range n) (fun i hi => by simpa using hi)

/-! ### erase while iterating with an arbitrary state-passing action -/

theorem iterate_general (action : α → σ → Bool × σ) (done rest : List α) (s : σ) :
    iterate action done rest s =
      (done ++ Spec.kept rest (Spec.decisions action rest s).1, (Spec.decisions action rest s).2) := by
  induction rest generalizing done s with
  | nil => simp [iterate, Spec.decisions, Spec.kept]
  | cons x rest ih =>
    rw [iterate]
    rcases h : action x s with ⟨b, s'⟩
    cases b
    · simp [ih, Spec.decisions, Spec.kept, h, List.append_assoc]
    · simp [ih, Spec.decisions, Spec.kept, h]

/-! ### output, singular -/

theorem output_eq (render : α → List Char) (xs : List α) :
    output render xs = ['['] ++ [','].intercalate (xs.map render) ++ [']'] := by
  unfold output
  have := joinLoop_eq (xs.map render) [','] 0 []
  simp at this
  simp [this]

theorem rangeSingular_eq (xs : List α) : rangeSingular xs = decide (xs.length = 1) := by
  unfold rangeSingular singular
  cases xs with
  | nil => simp
  | cons x xs => cases xs <;> simp

end Fcppt.C16
