import FcpptModel.Spec.C16
/-! C16 lemmas: split_string = splitOn, join_strings = intercalate -/
namespace Fcppt.C16
variable {α : Type}

theorem substr_succ (s : List α) (last cur : Nat) (hl : last ≤ cur) (hc : cur < s.length) :
    substr s last (cur + 1) = substr s last cur ++ [s[cur]] := by
  unfold substr
  rw [List.take_succ_eq_append_getElem hc, List.drop_append_of_le_length (by simp; omega)]

theorem substr_self (s : List α) (cur : Nat) : substr s cur cur = [] := by
  unfold substr
  apply List.drop_of_length_le
  simp; omega

theorem splitLoop_eq [BEq α] (s : List α) (delim : α) (cur last : Nat) (result : List (List α))
    (hl : last ≤ cur) (hc : cur ≤ s.length) :
    splitLoop s delim cur last result =
      result ++ ((s.drop cur).splitOn delim).modifyHead (substr s last cur ++ ·) := by
  induction h : s.length - cur generalizing cur last result with
  | zero =>
    rw [splitLoop, dif_neg (by omega), List.drop_of_length_le (by omega)]
    simp
  | succ n ih =>
    have hlt : cur < s.length := by omega
    have hd : s.drop cur = s[cur] :: s.drop (cur + 1) := List.drop_eq_getElem_cons hlt
    have ih1 := ih (cur + 1) (cur + 1) (result ++ [substr s last cur]) (by omega) (by omega) (by omega)
    have ih2 := ih (cur + 1) last result (by omega) (by omega) (by omega)
    have hs := substr_succ s last cur hl hlt
    rw [splitLoop, dif_pos hlt, hd, List.splitOn_cons_eq_if_modifyHead]
    obtain ⟨p, ps, hp⟩ := List.exists_cons_of_ne_nil (List.splitOn_ne_nil delim (s.drop (cur + 1)))
    rw [hp] at ih1 ih2 ⊢
    generalize s[cur] = a at hs ⊢
    cases hb : a == delim
    · simp only [Bool.false_eq_true, if_false]
      rw [ih2, hs]
      simp
    · simp only [if_true]
      rw [ih1, substr_self]
      simp

theorem joinLoop_eq (range : List (List α)) (delim : List α) (it : Nat) (result : List α) :
    joinLoop range delim it result = result ++ delim.intercalate (range.drop it) := by
  induction h : range.length - it generalizing it result with
  | zero =>
    rw [joinLoop, dif_neg (by omega), List.drop_of_length_le (by omega)]
    simp
  | succ n ih =>
    have hlt : it < range.length := by omega
    have hd : range.drop it = range[it] :: range.drop (it + 1) := List.drop_eq_getElem_cons hlt
    rw [joinLoop, dif_pos hlt, ih (it + 1) _ (by omega), hd]
    generalize range[it] = x
    by_cases hlast : it + 1 = range.length
    · have : range.drop (it + 1) = [] := List.drop_of_length_le (by omega)
      simp [hlast, this]
    · have hne : range.drop (it + 1) ≠ [] := by
        intro h0
        have := congrArg List.length h0
        simp at this
        omega
      rw [List.intercalate_cons_of_ne_nil hne]
      simp [hlast]

end Fcppt.C16
