import FcpptProofs.C08.GridLemmas
/-! C08 helper lemmas: resize / map / apply / pos_ref_range / clamp helpers. -/
namespace Fcppt.C08

theorem inRange_nonNeg_size {d p : Pos} (h : InRange d p) : NonNeg d := by
  induction d generalizing p with
  | nil => simp [NonNeg]
  | cons e es ih =>
    cases p with
    | nil => simp [InRange, InBox, zeros] at h
    | cons x xs =>
      simp only [InRange, zeros, List.map_cons, InBox] at h
      intro y hy
      simp only [List.mem_cons] at hy
      rcases hy with rfl | hy
      · omega
      · exact ih (p := xs) h.2.2 y hy

theorem minLessSup_iff (mn sp : Pos) (hl : mn.length = sp.length) :
    minLessSup mn sp = true ↔ ∀ i (h1 : i < mn.length) (h2 : i < sp.length), mn[i] < sp[i] := by
  induction mn generalizing sp with
  | nil => cases sp <;> simp [minLessSup]
  | cons m ms ih =>
    cases sp with
    | nil => simp at hl
    | cons s ss =>
      rw [minLessSup_cons]
      simp only [Bool.and_eq_true, decide_eq_true_eq, ih ss (by simpa using hl)]
      constructor
      · rintro ⟨h0, h⟩ i h1 h2
        cases i with
        | zero => rw [List.getElem_cons_zero, List.getElem_cons_zero]; exact h0
        | succ i =>
          rw [List.getElem_cons_succ, List.getElem_cons_succ]
          exact h i (by simpa using h1) (by simpa using h2)
      · intro h
        refine ⟨?_, fun i h1 h2 => ?_⟩
        · have := h 0 (by simp) (by simp)
          rw [List.getElem_cons_zero, List.getElem_cons_zero] at this
          exact this
        · have := h (i + 1) (by simpa using h1) (by simpa using h2)
          rw [List.getElem_cons_succ, List.getElem_cons_succ] at this
          exact this

theorem box_eq_nil_iff {mn sp : Pos} (hl : mn.length = sp.length) : box mn sp = [] ↔ minLessSup mn sp = false := by
  constructor
  · intro h
    cases hm : minLessSup mn sp
    · rfl
    · exfalso
      -- `mn` itself is in the box when min < sup everywhere
      have : InBox mn sp mn := by
        clear h
        induction mn generalizing sp with
        | nil => cases sp <;> simp_all [InBox]
        | cons m ms ih =>
          cases sp with
          | nil => simp at hl
          | cons s ss =>
            rw [minLessSup_cons] at hm
            simp only [Bool.and_eq_true, decide_eq_true_eq] at hm
            exact ⟨Int.le_refl _, hm.1, ih (by simpa using hl) hm.2⟩
      have := (mem_box hl mn).mpr this
      simp [h] at this
  · exact box_eq_nil hl

/-- iterating a pos-ref range whose box lies inside the grid: no fault, every position with its cell -/
theorem posRefRange_of_denotes {α : Type} {g : Grid α} {v : Pos → α} (hg : Denotes g v) {mn sp : Pos}
    (hl : mn.length = sp.length) (hne : mn ≠ []) (hin : ∀ p, InBox mn sp p → InRange g.size p) :
    g.posRefRange mn sp = .ok ((box mn sp).map fun p => (p, v p)) := by
  unfold Grid.posRefRange
  rw [posRange_eq_box hl hne]
  have := mapM_ok (fun p => (fun x => (p, x)) <$> g.getUnsafe p) (fun p => (p, v p)) (box mn sp)
    (fun p hp => by rw [get_of_denotes hg (hin p ((mem_box hl p).mp hp))]; rfl)
  simp only [bind, Except.bind, this]

theorem resize_denotes {α : Type} {g : Grid α} {v : Pos → α} (hg : Denotes g v) (n : List Int)
    (hne : n ≠ []) (hn : NonNeg n) (hl : n.length = g.size.length) (init : Pos → α) :
    g.resize n init = .ok ⟨n, (box (zeros n) n).map fun p => if InRange g.size p then v p else init p⟩ := by
  unfold Grid.resize
  refine (mkFn_denotes n hne hn _ _ ?_).1
  intro p hp
  have hlp : p.length = g.size.length := by rw [← hl, inRange_length hp]
  rw [atOptional_of_denotes hg hlp (inRange_nonNeg hp)]
  by_cases h : InRange g.size p <;> simp only [h, if_true, if_false] <;> rfl

theorem map_denotes {α β : Type} {g : Grid α} {v : Pos → α} (hg : Denotes g v) (f : α → β) :
    g.map f = .ok ⟨g.size, (box (zeros g.size) g.size).map fun p => f (v p)⟩ := by
  unfold Grid.map
  refine (mkFn_denotes g.size hg.1 hg.2.1 _ _ ?_).1
  intro p hp
  rw [get_of_denotes hg hp]
  rfl

/-- pointwise `Denotes` for a list of grids -/
inductive DenotesAll {α : Type} : List (Grid α) → List (Pos → α) → Prop
  | nil : DenotesAll [] []
  | cons {g : Grid α} {v : Pos → α} {gs : List (Grid α)} {vs : List (Pos → α)} :
      Denotes g v → DenotesAll gs vs → DenotesAll (g :: gs) (v :: vs)

theorem mapM_get {α : Type} (gs : List (Grid α)) (vs : List (Pos → α)) (h : DenotesAll gs vs)
    (d : List Int) (hs : ∀ g ∈ gs, g.size = d) {p : Pos} (hp : InRange d p) :
    gs.mapM (fun g => g.getUnsafe p) = .ok (vs.map fun v => v p) := by
  induction h with
  | nil => rfl
  | @cons g v gs vs hgv _ ih =>
    have hsz := hs g (by simp)
    rw [List.mapM_cons, get_of_denotes hgv (by rw [hsz]; exact hp), ih (fun g' hg' => hs g' (by simp [hg']))]
    rfl

theorem apply_denotes {α β : Type} (f : α → List α → β) {g1 : Grid α} {v1 : Pos → α} (h1 : Denotes g1 v1)
    (gs : List (Grid α)) (vs : List (Pos → α)) (h : DenotesAll gs vs) (hs : ∀ g ∈ gs, g.size = g1.size) :
    Grid.apply f g1 gs = .ok ⟨g1.size, (box (zeros g1.size) g1.size).map fun p => f (v1 p) (vs.map fun v => v p)⟩ := by
  unfold Grid.apply
  have hall : gs.all (fun g => g.size == g1.size) = true := by
    simp only [List.all_eq_true, beq_iff_eq]; exact hs
  simp only [hall, if_true]
  refine (mkFn_denotes g1.size h1.1 h1.2.1 _ _ ?_).1
  intro p hp
  rw [get_of_denotes h1 hp, mapM_get gs vs h g1.size hs hp]
  rfl

theorem apply_mismatch {α β : Type} (f : α → List α → β) (g1 : Grid α) (gs : List (Grid α))
    (hs : ∃ g ∈ gs, g.size ≠ g1.size) : Grid.apply f g1 gs = .ok (Grid.empty g1.size.length) := by
  unfold Grid.apply
  have hall : gs.all (fun g => g.size == g1.size) = false := by
    obtain ⟨g, hg, hne⟩ := hs
    cases h : gs.all (fun g => g.size == g1.size)
    · rfl
    · simp only [List.all_eq_true, beq_iff_eq] at h
      exact absurd (h g hg) hne
  simp only [hall, Bool.false_eq_true, if_false]
  rfl

/-! clamp helpers -/

theorem clampedSupSigned_eq (p d : List Int) (hd : NonNeg d) :
    clampedSupSigned p d = .ok (List.zipWith (fun x s => max (min x s) 0) p d) := by
  unfold clampedSupSigned
  induction p generalizing d with
  | nil => rfl
  | cons x xs ih =>
    cases d with
    | nil => rfl
    | cons e es =>
      have he : (0 : Int) ≤ e := hd e (by simp)
      rw [List.zip_cons_cons, List.mapM_cons, ih es (fun y hy => hd y (by simp [hy]))]
      simp only [clampUnsafe, he, if_true, List.zipWith_cons_cons]
      rfl

theorem zipWith_congr_nonNeg (f g : Int → Int → Int) (p d : List Int) (hd : NonNeg d)
    (h : ∀ x s, 0 ≤ s → f x s = g x s) : List.zipWith f p d = List.zipWith g p d := by
  induction p generalizing d with
  | nil => rfl
  | cons x xs ih =>
    cases d with
    | nil => rfl
    | cons e es =>
      simp only [List.zipWith_cons_cons, h x e (hd e (by simp)), ih es (fun y hy => hd y (by simp [hy]))]

theorem inBox_clamped (a b d p : Pos) (hd : NonNeg d) (h1 : a.length = d.length) (h2 : b.length = d.length) :
    InBox (clampedMin a) (List.zipWith (fun x s => max (min x s) 0) b d) p ↔ (InRange d p ∧ InBox a b p) := by
  induction d generalizing a b p with
  | nil =>
    cases a <;> cases b <;> cases p <;> simp_all [clampedMin, InBox, InRange, zeros]
  | cons e es ih =>
    cases a with
    | nil => simp at h1
    | cons a0 as =>
      cases b with
      | nil => simp at h2
      | cons b0 bs =>
        cases p with
        | nil => simp [clampedMin, InBox, InRange, zeros]
        | cons x xs =>
          have he : (0 : Int) ≤ e := hd e (by simp)
          have := ih as bs xs (fun y hy => hd y (by simp [hy])) (by simpa using h1) (by simpa using h2)
          simp only [clampedMin, List.map_cons, List.zipWith_cons_cons, InBox, InRange, zeros] at this ⊢
          rw [this]
          constructor
          · rintro ⟨c1, c2, c3, c4⟩; refine ⟨⟨?_, ?_, c3⟩, ?_, ?_, c4⟩ <;> omega
          · rintro ⟨⟨c1, c2, c3⟩, c4, c5, c6⟩; refine ⟨?_, ?_, c3, c6⟩ <;> omega

end Fcppt.C08
