import FcpptProofs.C08.Lin
/-! C08 helper lemmas: grids as functions on the in-range positions (`Denotes`), cell-wise constructors. -/
namespace Fcppt.C08

def NonNeg (d : List Int) : Prop := ∀ x ∈ d, 0 ≤ x

/-- the grid has a legal size and its cell at every in-range position `p` is `v p`
    (cells listed in the order of the specification box) -/
def Denotes {α : Type} (g : Grid α) (v : Pos → α) : Prop :=
  g.size ≠ [] ∧ NonNeg g.size ∧ g.cells = (box (zeros g.size) g.size).map v

theorem posRangeAll_eq (d : List Int) (hne : d ≠ []) : posRangeAll d = .ok (box (zeros d) d) := by
  unfold posRangeAll
  exact posRange_eq_box (length_zeros d) (by cases d <;> simp_all [zeros])

theorem mapM_ok {α β : Type} (f : α → Except Fault β) (g : α → β) (L : List α) (h : ∀ a ∈ L, f a = .ok (g a)) :
    L.mapM f = .ok (L.map g) := by
  induction L with
  | nil => rfl
  | cons a l ih =>
    rw [List.mapM_cons, h a (by simp), ih (fun b hb => h b (by simp [hb]))]
    rfl

theorem length_box_zeros (d : List Int) (hd : NonNeg d) : (box (zeros d) d).length = (contents d).toNat := by
  rw [length_box (length_zeros d), contents_eq_prod, ← count_zeros d hd]; simp

theorem lin_inRange {d p : Pos} (h : InRange d p) (_hd : NonNeg d) :
    0 ≤ lin p d ∧ (lin p d).toNat < (box (zeros d) d).length := by
  have := linR_inBox h
  rw [linR_zeros d p (inRange_length h)] at this
  rw [length_box (length_zeros d)]
  omega

theorem box_getElem_lin {d p : Pos} (h : InRange d p) (hd : NonNeg d) :
    (box (zeros d) d)[(lin p d).toNat]? = some p := by
  have hb := lin_inRange h hd
  rw [List.getElem?_eq_getElem hb.2]
  congr 1
  apply linR_inj ((mem_box (length_zeros d) _).mp (List.getElem_mem _)) h
  rw [linR_getElem (length_zeros d), linR_zeros d p (inRange_length h)]
  omega

theorem get_of_denotes {α : Type} {g : Grid α} {v : Pos → α} (hg : Denotes g v) {p : Pos} (hp : InRange g.size p) :
    g.getUnsafe p = .ok (v p) := by
  obtain ⟨_, hd, hc⟩ := hg
  have hb := lin_inRange hp hd
  have hlen : g.cells.length = (box (zeros g.size) g.size).length := by rw [hc]; simp
  have hidx : g.cellIndex p = .ok (lin p g.size).toNat := by
    unfold Grid.cellIndex
    rw [offset_eq_lin p g.size (inRange_length hp).symm]
    simp only [hb.1, hlen, hb.2, and_self, if_true]
  unfold Grid.getUnsafe
  rw [hidx]
  have : g.cells[(lin p g.size).toNat]? = some (v p) := by
    rw [hc, List.getElem?_map, box_getElem_lin hp hd]; rfl
  simp only [bind, Except.bind, this]
  rfl

theorem mkFn_denotes {α : Type} (d : List Int) (hne : d ≠ []) (hd : NonNeg d) (f : Pos → Except Fault α) (v : Pos → α)
    (hf : ∀ p, InRange d p → f p = .ok (v p)) :
    Grid.mkFn d f = .ok ⟨d, (box (zeros d) d).map v⟩ ∧ Denotes (⟨d, (box (zeros d) d).map v⟩ : Grid α) v := by
  refine ⟨?_, hne, hd, rfl⟩
  unfold Grid.mkFn
  rw [posRangeAll_eq d hne]
  have := mapM_ok f v (box (zeros d) d) (fun p hp => hf p ((mem_box (length_zeros d) p).mp hp))
  simp only [bind, Except.bind, this]
  rfl

theorem mkConst_denotes {α : Type} (d : List Int) (hne : d ≠ []) (hd : NonNeg d) (c : α) :
    Denotes (Grid.mkConst d c) (fun _ => c) := by
  refine ⟨hne, hd, ?_⟩
  simp only [Grid.mkConst]
  rw [← length_box_zeros d hd]
  exact List.map_const'.symm

theorem inRangeDim_iff {d p : Pos} (hl : p.length = d.length) (hp : NonNeg p) :
    inRangeDim d p = true ↔ InRange d p := by
  induction d generalizing p with
  | nil => cases p <;> simp_all [inRangeDim, InRange, InBox, zeros]
  | cons e es ih =>
    cases p with
    | nil => simp at hl
    | cons x xs =>
      have h1 := ih (p := xs) (by simpa using hl) (fun y hy => hp y (by simp [hy]))
      have h2 := hp x (by simp)
      simp only [inRangeDim, InRange, zeros, List.zip_cons_cons, List.all_cons, Bool.and_eq_true,
        decide_eq_true_eq, List.map_cons, InBox] at h1 ⊢
      rw [h1]
      constructor
      · rintro ⟨a, b⟩; exact ⟨h2, a, b⟩
      · rintro ⟨_, a, b⟩; exact ⟨a, b⟩

theorem inRange_nonNeg {d p : Pos} (h : InRange d p) : NonNeg p := by
  induction d generalizing p with
  | nil => cases p <;> simp_all [InRange, InBox, zeros, NonNeg]
  | cons e es ih =>
    cases p with
    | nil => simp [InRange, InBox, zeros] at h
    | cons x xs =>
      simp only [InRange, zeros, List.map_cons, InBox] at h
      intro y hy
      simp only [List.mem_cons] at hy
      rcases hy with rfl | hy
      · exact h.1
      · exact ih (p := xs) h.2.2 y hy

theorem atOptional_of_denotes {α : Type} {g : Grid α} {v : Pos → α} (hg : Denotes g v) {p : Pos}
    (hl : p.length = g.size.length) (hp : NonNeg p) :
    g.atOptional p = .ok (if InRange g.size p then some (v p) else none) := by
  unfold Grid.atOptional Grid.inRange
  by_cases h : InRange g.size p
  · simp only [(inRangeDim_iff hl hp).mpr h, if_true, h, get_of_denotes hg h]
    rfl
  · have : inRangeDim g.size p = false := by
      cases hh : inRangeDim g.size p
      · rfl
      · exact absurd ((inRangeDim_iff hl hp).mp hh) h
    simp only [this, h, if_false]
    rfl

theorem setUnsafe_ok {α : Type} (g : Grid α) {p : Pos} (hp : InRange g.size p) (hd : NonNeg g.size)
    (hlen : g.cells.length = (box (zeros g.size) g.size).length) (x : α) :
    g.setUnsafe p x = .ok ⟨g.size, g.cells.set (lin p g.size).toNat x⟩ := by
  have hb := lin_inRange hp hd
  unfold Grid.setUnsafe Grid.cellIndex
  rw [offset_eq_lin p g.size (inRange_length hp).symm]
  simp only [hb.1, hlen, hb.2, and_self, if_true]
  rfl

theorem foldlM_set {α : Type} (d : List Int) (hd : NonNeg d) (f : Pos → α) (B : List Pos)
    (hB : ∀ p ∈ B, InRange d p) (cells : List α) (hlen : cells.length = (box (zeros d) d).length) :
    B.foldlM (fun (g : Grid α) p => g.setUnsafe p (f p)) ⟨d, cells⟩
      = .ok ⟨d, B.foldl (fun c p => c.set (lin p d).toNat (f p)) cells⟩ := by
  induction B generalizing cells with
  | nil => rfl
  | cons b B ih =>
    rw [List.foldlM_cons, setUnsafe_ok ⟨d, cells⟩ (hB b (by simp)) hd hlen]
    simp only [bind, Except.bind, List.foldl_cons]
    exact ih (fun p hp => hB p (by simp [hp])) _ (by simpa using hlen)

theorem foldl_set_consecutive {α β : Type} (idx : β → Nat) (f : β → α) (B : List β) (s : Nat) (pre rest : List α)
    (hidx : ∀ i (h : i < B.length), idx B[i] = s + i) (hpre : pre.length = s) (hrest : rest.length = B.length) :
    B.foldl (fun c p => c.set (idx p) (f p)) (pre ++ rest) = pre ++ B.map f := by
  induction B generalizing s pre rest with
  | nil => cases rest <;> simp_all
  | cons b B ih =>
    cases rest with
    | nil => simp at hrest
    | cons r rest =>
      have h0 : idx b = s := by
        have := hidx 0 (by simp)
        rw [List.getElem_cons_zero] at this
        omega
      simp only [List.foldl_cons, List.map_cons, h0]
      have : (pre ++ r :: rest).set s (f b) = (pre ++ [f b]) ++ rest := by
        rw [List.set_append_right _ _ (by omega)]
        simp [hpre]
      rw [this, ih (s + 1) (pre ++ [f b]) rest ?_ (by simp [hpre]) (by simpa using hrest)]
      · simp
      · intro i h
        have := hidx (i + 1) (by simpa using h)
        simp only [List.getElem_cons_succ] at this
        omega

theorem fill_denotes {α : Type} (g : Grid α) (hne : g.size ≠ []) (hd : NonNeg g.size)
    (hlen : g.cells.length = (contents g.size).toNat) (f : Pos → α) :
    g.fill f = .ok ⟨g.size, (box (zeros g.size) g.size).map f⟩ := by
  unfold Grid.fill
  have e := posRangeAll_eq g.size hne
  unfold posRangeAll at e
  rw [e]
  have hlen' : g.cells.length = (box (zeros g.size) g.size).length := by rw [length_box_zeros _ hd, hlen]
  simp only [bind, Except.bind]
  have := foldlM_set g.size hd f (box (zeros g.size) g.size)
    (fun p hp => (mem_box (length_zeros _) p).mp hp) g.cells hlen'
  rw [this]
  congr 2
  have h2 := foldl_set_consecutive (fun p => (lin p g.size).toNat) f (box (zeros g.size) g.size) 0 [] g.cells
    (fun i h => by
      have := linR_getElem (length_zeros g.size) i h
      rw [linR_zeros g.size _ (inRange_length ((mem_box (length_zeros _) _).mp (List.getElem_mem _)))] at this
      simp only [this]
      omega) rfl hlen'
  simpa using h2

end Fcppt.C08
