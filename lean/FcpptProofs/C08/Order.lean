import FcpptProofs.C08.Ops
/-! C08 helper lemma: a sub-range that lies inside a grid is visited in increasing storage offset. -/
namespace Fcppt.C08

/-- `0 ≤ mn` and `sp ≤ d` component-wise, all of the same length -/
def Within : Pos → Pos → List Int → Prop
  | [], [], [] => True
  | m :: ms, s :: ss, e :: es => 0 ≤ m ∧ s ≤ e ∧ Within ms ss es
  | _, _, _ => False

theorem Within.length {mn sp d : Pos} (h : Within mn sp d) : mn.length = sp.length ∧ sp.length = d.length := by
  induction mn generalizing sp d with
  | nil => cases sp <;> cases d <;> simp_all [Within]
  | cons m ms ih =>
    cases sp with
    | nil => simp [Within] at h
    | cons s ss =>
      cases d with
      | nil => simp [Within] at h
      | cons e es =>
        have := ih h.2.2
        simp [this.1, this.2]

theorem box_pairwise_lin {mn sp d : Pos} (h : Within mn sp d) :
    (box mn sp).Pairwise (fun p q => lin p d < lin q d) := by
  induction mn generalizing sp d with
  | nil => cases sp <;> cases d <;> simp_all [Within, box]
  | cons m ms ih =>
    cases sp with
    | nil => simp [Within] at h
    | cons s ss =>
      cases d with
      | nil => simp [Within] at h
      | cons e es =>
        simp only [Within] at h
        simp only [box]
        rw [List.pairwise_flatMap]
        constructor
        · intro t _
          simp only [row, List.pairwise_map, lin]
          exact (ints_pairwise_lt m _).imp (fun {a b} hab => by omega)
        · refine (ih h.2.2).imp ?_
          intro t1 t2 hlt x hx y hy
          obtain ⟨x0, hx0, rfl⟩ := mem_row.mp hx
          obtain ⟨y0, hy0, rfl⟩ := mem_row.mp hy
          simp only [lin]
          have h1 : e * (lin t1 es + 1) ≤ e * lin t2 es :=
            Int.mul_le_mul_of_nonneg_left (by omega) (by omega)
          rw [Int.mul_add, Int.mul_one] at h1
          omega

theorem box_pairwise_offset {mn sp d : Pos} (h : Within mn sp d) :
    ((box mn sp).map (fun p => offset p d)).Pairwise (· < ·) := by
  rw [List.pairwise_map]
  have hl := h.length
  refine (box_pairwise_lin h).imp_of_mem ?_
  intro a b ha hb hab
  have la := ((mem_box hl.1 a).mp ha).length
  have lb := ((mem_box hl.1 b).mp hb).length
  rw [offset_eq_lin a d (by omega), offset_eq_lin b d (by omega)]
  exact hab

end Fcppt.C08
