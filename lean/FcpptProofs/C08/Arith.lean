import FcpptModel.Spec.C08
/-! C08 helper lemmas: `contents` is the product, `offset` is the Horner form `lin`. -/
namespace Fcppt.C08

theorem foldl_mul (d : List Int) (a : Int) : d.foldl (· * ·) a = a * prod d := by
  induction d generalizing a with
  | nil => simp [prod]
  | cons x xs ih => simp [List.foldl_cons, ih, prod, Int.mul_assoc]

theorem contents_eq_prod (d : List Int) : contents d = prod d := by
  simp [contents, foldl_mul]

/-- what the fold of `offset` adds to `result`, relative to the current `stacked_dim` -/
def strideSum : List Int → List Int → Int
  | y :: ys, e :: es => e * (y + strideSum ys es)
  | _, _ => 0

theorem foldl_offsetStep (xs d : List Int) (a st : Int) :
    ((xs.zip d).foldl offsetStep (a, st)).1 = a + st * strideSum xs d := by
  induction xs generalizing a st d with
  | nil => simp [strideSum]
  | cons y ys ih =>
    cases d with
    | nil => simp [strideSum]
    | cons e es =>
      simp only [List.zip_cons_cons, List.foldl_cons, offsetStep, ih, strideSum]
      grind

theorem lin_eq_strideSum (ys es : List Int) (y : Int) (h : ys.length + 1 ≤ es.length) :
    lin (y :: ys) es = y + strideSum ys es := by
  induction ys generalizing y es with
  | nil =>
    cases es with
    | nil => simp at h
    | cons e es => simp [lin, strideSum]
  | cons y1 ys ih =>
    cases es with
    | nil => simp at h
    | cons e es =>
      have h' : ys.length + 1 ≤ es.length := by simpa using h
      simp only [lin, strideSum, ih es y1 h']

theorem offset_eq_lin (p d : List Int) (h : p.length = d.length) : offset p d = lin p d := by
  cases p with
  | nil => cases d <;> simp [offset, lin]
  | cons x xs =>
    cases d with
    | nil => simp at h
    | cons e es =>
      have hl : xs.length = es.length := by simpa using h
      simp only [offset, foldl_offsetStep]
      cases xs with
      | nil => simp [strideSum, lin]
      | cons y ys =>
        have : ys.length + 1 ≤ es.length := by simp at hl; omega
        simp [strideSum, lin, lin_eq_strideSum ys es y this]

end Fcppt.C08
