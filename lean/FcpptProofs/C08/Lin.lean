import FcpptProofs.C08.Iter
/-! C08 helper lemmas: the linear index as a bijection box ↔ [0, count); successor = +1. -/
namespace Fcppt.C08

theorem getElem?_ints (lo : Int) (n i : Nat) : (ints lo n)[i]? = if i < n then some (lo + i) else none := by
  induction n generalizing lo i with
  | zero => simp [ints]
  | succ n ih =>
    cases i with
    | zero => simp [ints]
    | succ i =>
      simp only [ints, List.getElem?_cons_succ, ih]
      by_cases h : i < n <;> simp [h] <;> omega

theorem inj_of_pairwise_lt_map {α : Type} (f : α → Int) (L : List α) (h : (L.map f).Pairwise (· < ·))
    {a b : α} (ha : a ∈ L) (hb : b ∈ L) (hab : f a = f b) : a = b := by
  induction L with
  | nil => simp at ha
  | cons x xs ih =>
    simp only [List.map_cons, List.pairwise_cons, List.mem_map, forall_exists_index, and_imp,
      forall_apply_eq_imp_iff₂] at h
    simp only [List.mem_cons] at ha hb
    rcases ha with rfl | ha <;> rcases hb with rfl | hb
    · rfl
    · have := h.1 b hb; omega
    · have := h.1 a ha; omega
    · exact ih h.2 ha hb

theorem linR_inBox {mn sp p : Pos} (hp : InBox mn sp p) : 0 ≤ linR mn sp p ∧ linR mn sp p < count mn sp := by
  have hl := hp.length
  have hl' : mn.length = sp.length := by omega
  have hm : linR mn sp p ∈ (box mn sp).map (linR mn sp) := List.mem_map_of_mem ((mem_box hl' p).mpr hp)
  rw [map_linR_box hl'] at hm
  have := mem_ints.mp hm
  omega

theorem linR_inj {mn sp p q : Pos} (hp : InBox mn sp p) (hq : InBox mn sp q)
    (h : linR mn sp p = linR mn sp q) : p = q := by
  have hl := hp.length
  have hl' : mn.length = sp.length := by omega
  refine inj_of_pairwise_lt_map (linR mn sp) (box mn sp) ?_ ((mem_box hl' p).mpr hp) ((mem_box hl' q).mpr hq) h
  rw [map_linR_box hl']
  exact ints_pairwise_lt _ _

theorem linR_surj {mn sp : Pos} (hl : mn.length = sp.length) (k : Int) (h0 : 0 ≤ k) (h1 : k < count mn sp) :
    ∃ p, InBox mn sp p ∧ linR mn sp p = k := by
  have : k ∈ (box mn sp).map (linR mn sp) := by
    rw [map_linR_box hl]; exact mem_ints.mpr ⟨h0, by omega⟩
  obtain ⟨p, hp, rfl⟩ := List.mem_map.mp this
  exact ⟨p, (mem_box hl p).mp hp, rfl⟩

/-- the `j`-th position of the box has relative linear index `j` -/
theorem linR_getElem {mn sp : Pos} (hl : mn.length = sp.length) (j : Nat) (hj : j < (box mn sp).length) :
    linR mn sp (box mn sp)[j] = j := by
  have h := congrArg (fun l => l[j]?) (map_linR_box hl)
  simp only [List.getElem?_map, List.getElem?_eq_getElem hj, Option.map_some, getElem?_ints] at h
  rw [length_box hl] at hj
  simpa [hj] using h

theorem Chain.head_eq {f : Pos → Pos} {a b e : Pos} {L : List Pos} (h : Chain f a (b :: L) e) : a = b := by
  cases h; rfl

theorem Chain.nil_eq {f : Pos → Pos} {a e : Pos} (h : Chain f a [] e) : a = e := by
  cases h; rfl

theorem Chain.getElem_succ {f : Pos → Pos} {a e : Pos} {L : List Pos} (h : Chain f a L e)
    (j : Nat) (hj : j + 1 < L.length) : f (L[j]'(by omega)) = L[j + 1] := by
  induction h generalizing j with
  | nil _ => simp at hj
  | @cons a L e hc ih =>
    cases j with
    | zero =>
      cases L with
      | nil => simp at hj
      | cons b L' => simpa using hc.head_eq
    | succ j => simpa using ih j (by simpa using hj)

theorem Chain.getElem_last {f : Pos → Pos} {a e : Pos} {L : List Pos} (h : Chain f a L e)
    (j : Nat) (hj : j + 1 = L.length) : f (L[j]'(by omega)) = e := by
  induction h generalizing j with
  | nil _ => simp at hj
  | @cons a L e hc ih =>
    cases j with
    | zero =>
      cases L with
      | nil => simpa using hc.nil_eq
      | cons b L' => simp at hj
    | succ j => simpa using ih j (by simpa using hj)

/-- `next_position` on a position of the box: the linear index grows by one and the result stays inside,
    or (from the last position) the result is the end sentinel -/
theorem next_step {mn sp p : Pos} (hne : mn ≠ []) (hp : InBox mn sp p) :
    (linR mn sp p + 1 < count mn sp →
        InBox mn sp (next p mn sp) ∧ linR mn sp (next p mn sp) = linR mn sp p + 1) ∧
    (linR mn sp p + 1 = count mn sp → next p mn sp = endPos mn sp) := by
  have hl := hp.length
  have hl' : mn.length = sp.length := by omega
  have hmls := hp.minLessSup
  have hc := box_chain hl' hne hmls
  obtain ⟨j, hj, rfl⟩ := List.mem_iff_getElem.mp ((mem_box hl' p).mpr hp)
  have hlen := length_box hl'
  rw [linR_getElem hl' j hj]
  constructor
  · intro h
    have hj1 : j + 1 < (box mn sp).length := by omega
    have e := hc.getElem_succ j hj1
    rw [e]
    refine ⟨(mem_box hl' _).mp (List.getElem_mem _), ?_⟩
    rw [linR_getElem hl' (j + 1) hj1]
    omega
  · intro h
    have hj1 : j + 1 = (box mn sp).length := by omega
    have e := hc.getElem_last j hj1
    rw [e]
    simp [endPos, hmls]

/-! whole grid: `min = 0`, `sup = size` -/

theorem linR_zeros (d p : Pos) (hl : d.length = p.length) : linR (zeros d) d p = lin p d := by
  induction d generalizing p with
  | nil => cases p <;> simp [zeros, linR, lin]
  | cons e es ih =>
    cases p with
    | nil => simp at hl
    | cons x xs =>
      have := ih xs (by simpa using hl)
      simp only [zeros, List.map_cons, linR, lin] at this ⊢
      rw [this]
      simp

theorem count_zeros (d : List Int) (hd : ∀ x ∈ d, 0 ≤ x) : (count (zeros d) d : Int) = prod d := by
  induction d with
  | nil => simp [zeros, count, prod]
  | cons e es ih =>
    have h1 := ih (fun x hx => hd x (by simp [hx]))
    have h2 := hd e (by simp)
    simp only [zeros, List.map_cons, count, prod, Int.natCast_mul] at h1 ⊢
    rw [h1]
    congr 1
    omega

theorem inRange_length {d p : Pos} (h : InRange d p) : d.length = p.length := by
  have := InBox.length h
  omega

theorem length_zeros (d : List Int) : (zeros d).length = d.length := by simp [zeros]

end Fcppt.C08
