import FcpptProofs.C08.Order
/-! C08 helper lemmas (extension): writes through a sub-range, the literal fold of `next_position`,
    wrap-around arithmetic, static rows, special members, comparison, output, interpolation. -/
namespace Fcppt.C08

/-! ## writing through the references of a sub-range -/

theorem map_set_nodup {α β : Type} [DecidableEq β] (L : List β) (hn : L.Nodup) (v : β → α) (i : Nat)
    (hi : i < L.length) (x : α) :
    (L.map v).set i x = L.map (fun p => if p = L[i] then x else v p) := by
  apply List.ext_getElem (by simp)
  intro j h1 h2
  have hj : j < L.length := by simpa using h2
  rw [List.getElem_set, List.getElem_map, List.getElem_map]
  by_cases hij : i = j
  · subst hij; simp
  · have : L[j] ≠ L[i] := fun e => hij ((List.getElem_inj hn).mp e).symm
    simp [hij, this]

/-- the writes of a list `B` of in-range positions: every cell of `B` gets `f p`, every other cell keeps its value -/
theorem foldl_set_box {α : Type} (d : List Int) (hd : NonNeg d) (f : Pos → α) (B : List Pos)
    (hB : ∀ p ∈ B, InRange d p) (v : Pos → α) :
    B.foldl (fun c p => c.set (lin p d).toNat (f p)) ((box (zeros d) d).map v)
      = (box (zeros d) d).map (fun p => if p ∈ B then f p else v p) := by
  induction B generalizing v with
  | nil => simp
  | cons b B ih =>
    have hb := hB b (by simp)
    have hi := (lin_inRange hb hd).2
    have hget : (box (zeros d) d)[(lin b d).toNat] = b := by
      have := box_getElem_lin hb hd
      rw [List.getElem?_eq_getElem hi] at this
      injection this
    rw [List.foldl_cons, map_set_nodup _ (nodup_box (length_zeros d)) v _ hi, hget,
      ih (fun p hp => hB p (by simp [hp]))]
    apply List.map_congr_left
    intro p _
    by_cases h1 : p ∈ B
    · simp [h1]
    · by_cases h2 : p = b
      · subst h2; simp [h1]
      · simp [h1, h2]

theorem fillRange_denotes {α : Type} {g : Grid α} {v : Pos → α} (hg : Denotes g v) {mn sp : Pos}
    (hl : mn.length = sp.length) (hne : mn ≠ []) (hin : ∀ p, InBox mn sp p → InRange g.size p) (f : Pos → α) :
    g.fillRange mn sp f
      = .ok ⟨g.size, (box (zeros g.size) g.size).map (fun p => if InBox mn sp p then f p else v p)⟩ := by
  unfold Grid.fillRange
  rw [posRange_eq_box hl hne]
  obtain ⟨_, hd, hc⟩ := hg
  have hlen : g.cells.length = (box (zeros g.size) g.size).length := by rw [hc]; simp
  simp only [bind, Except.bind]
  have h1 := foldlM_set g.size hd f (box mn sp) (fun p hp => hin p ((mem_box hl p).mp hp)) g.cells hlen
  rw [h1]
  congr 2
  rw [hc, foldl_set_box g.size hd f (box mn sp) (fun p hp => hin p ((mem_box hl p).mp hp)) v]
  apply List.map_congr_left
  intro p _
  simp only [mem_box hl p]

/-! ## the literal fold of `next_position` is the structural `carry` -/

theorem foldl_nextStep (mn sp : Pos) (rs : Pos) : ∀ (r0 : Int) (ms ss pre mpre spre : Pos) (k : Nat),
    pre.length = k → mpre.length = k → spre.length = k → mn = mpre ++ ms → sp = spre ++ ss →
    ms.length = rs.length + 1 → ss.length = rs.length + 1 →
    (List.range' k rs.length).foldl (nextStep mn sp) (pre ++ r0 :: rs) = pre ++ carry (r0 :: rs) ms ss := by
  induction rs with
  | nil => intros; simp [carry]
  | cons r1 rs ih =>
    intro r0 ms ss pre mpre spre k hp hm hs hmn hsp hlm hls
    match ms, ss, hlm, hls with
    | m0 :: ms', s0 :: ss', hlm, hls =>
      have e1 : (pre ++ r0 :: r1 :: rs)[k]? = some r0 := by
        rw [List.getElem?_append_right (by omega)]; simp [hp]
      have e2 : sp[k]? = some s0 := by
        rw [hsp, List.getElem?_append_right (by omega)]; simp [hs]
      have e3 : mn[k]? = some m0 := by
        rw [hmn, List.getElem?_append_right (by omega)]; simp [hm]
      have e4 : (pre ++ r0 :: r1 :: rs)[k + 1]? = some r1 := by
        rw [List.getElem?_append_right (by omega)]
        have : k + 1 - pre.length = 1 := by omega
        simp [this]
      rw [List.length_cons, List.range'_succ, List.foldl_cons]
      have hstep : nextStep mn sp (pre ++ r0 :: r1 :: rs) k
          = if r0 == s0 then (pre ++ [m0]) ++ (r1 + 1) :: rs else (pre ++ [r0]) ++ r1 :: rs := by
        unfold nextStep
        rw [e1, e2, e3, e4]
        by_cases h : r0 = s0
        · subst h
          simp only [beq_self_eq_true, if_true]
          rw [List.set_append_right _ _ (by omega)]
          have h0 : k - pre.length = 0 := by omega
          rw [h0, List.set_cons_zero, List.set_append_right _ _ (by omega)]
          have h1 : k + 1 - pre.length = 1 := by omega
          rw [h1]
          simp
        · have : (r0 == s0) = false := by simpa using h
          simp [this]
      rw [hstep]
      by_cases h : r0 = s0
      · subst h
        simp only [beq_self_eq_true, if_true]
        rw [ih (r1 + 1) ms' ss' (pre ++ [m0]) (mpre ++ [m0]) (spre ++ [r0]) (k + 1) (by simp [hp]) (by simp [hm])
          (by simp [hs]) (by simp [hmn]) (by simp [hsp]) (by simpa using hlm) (by simpa using hls)]
        simp [carry]
      · have hb : (r0 == s0) = false := by simpa using h
        simp only [hb, Bool.false_eq_true, if_false]
        rw [ih r1 ms' ss' (pre ++ [r0]) (mpre ++ [m0]) (spre ++ [s0]) (k + 1) (by simp [hp]) (by simp [hm])
          (by simp [hs]) (by simp [hmn]) (by simp [hsp]) (by simpa using hlm) (by simpa using hls)]
        simp [carry, hb]

theorem nextFold_eq (cur mn sp : Pos) (h1 : mn.length = cur.length) (h2 : sp.length = cur.length) :
    nextFold cur mn sp = next cur mn sp := by
  cases cur with
  | nil => rfl
  | cons x xs =>
    have := foldl_nextStep mn sp xs (x + 1) mn sp [] [] [] 0 rfl rfl rfl rfl rfl (by simpa using h1) (by simpa using h2)
    simp only [nextFold, next, List.length_cons, Nat.add_sub_cancel, List.range_eq_range']
    simpa using this

/-! ## arithmetic modulo `2^w` -/

theorem wrap_wrap (w : Nat) (a : Int) : wrap w (wrap w a) = wrap w a := by
  simp [wrap]

theorem wrap_mul_left (w : Nat) (a b : Int) : wrap w (wrap w a * b) = wrap w (a * b) := by
  unfold wrap
  rw [Int.mul_emod, Int.emod_emod, ← Int.mul_emod]

theorem wrap_mul_right (w : Nat) (a b : Int) : wrap w (a * wrap w b) = wrap w (a * b) := by
  unfold wrap
  rw [Int.mul_emod, Int.emod_emod, ← Int.mul_emod]

theorem wrap_add (w : Nat) (a b : Int) : wrap w (wrap w a + wrap w b) = wrap w (a + b) := by
  unfold wrap
  rw [← Int.add_emod]

theorem wrap_id (w : Nat) {a : Int} (h0 : 0 ≤ a) (h1 : a < 2 ^ w) : wrap w a = a := by
  unfold wrap
  exact Int.emod_eq_of_lt h0 h1

theorem foldl_contentsW (w : Nat) (d : List Int) (a : Int) :
    d.foldl (fun v x => wrap w (v * x)) (wrap w a) = wrap w (d.foldl (· * ·) a) := by
  induction d generalizing a with
  | nil => rfl
  | cons x xs ih => simp only [List.foldl_cons, wrap_mul_left, ih]

theorem contentsW_eq_wrap (w : Nat) (d : List Int) : contentsW w d = wrap w (contents d) :=
  foldl_contentsW w d 1

theorem foldl_offsetStepW (w : Nat) (l : List (Int × Int)) (a st : Int) :
    l.foldl (offsetStepW w) (wrap w a, wrap w st)
      = (wrap w (l.foldl offsetStep (a, st)).1, wrap w (l.foldl offsetStep (a, st)).2) := by
  induction l generalizing a st with
  | nil => rfl
  | cons pd l ih =>
    simp only [List.foldl_cons, offsetStepW, offsetStep]
    rw [wrap_mul_left, wrap_mul_right, wrap_add, ih]

theorem offsetW_eq_wrap (w : Nat) (p d : List Int) : offsetW w p d = wrap w (offset p d) := by
  cases p with
  | nil => simp [offsetW, offset, wrap]
  | cons x xs => simp only [offsetW, offset, foldl_offsetStepW]

end Fcppt.C08
