import FcpptProofs.C08.Order
/-! C08 helper lemmas (extension): writes through a sub-range, the literal fold of `next_position`,
    wrap-around arithmetic, static rows, special members, comparison, output, interpolation. -/
namespace Fcppt.C08

/-! ## writing through the references of a sub-range -/

theorem map_set_nodup {α β : Type} [DecidableEq β] (L : List β) (hn : L.Nodup) (v : β → α) (i : Nat)
    (hi : i < L.length) (x : α) :
    (L.map v).set i x = L.map (fun p => if p = L[i] then x else v p) := by
  apply List.ext_getElem (by simp)
  intro j h1 h2
  have hj : j < L.length := by simpa using h2
  rw [List.getElem_set, List.getElem_map, List.getElem_map]
  by_cases hij : i = j
  · subst hij; simp
  · have : L[j] ≠ L[i] := fun e => hij ((List.getElem_inj hn).mp e).symm
    simp [hij, this]

/-- the writes of a list `B` of in-range positions: every cell of `B` gets `f p`, every other cell keeps its value -/
theorem foldl_set_box {α : Type} (d : List Int) (hd : NonNeg d) (f : Pos → α) (B : List Pos)
    (hB : ∀ p ∈ B, InRange d p) (v : Pos → α) :
    B.foldl (fun c p => c.set (lin p d).toNat (f p)) ((box (zeros d) d).map v)
      = (box (zeros d) d).map (fun p => if p ∈ B then f p else v p) := by
  induction B generalizing v with
  | nil => simp
  | cons b B ih =>
    have hb := hB b (by simp)
    have hi := (lin_inRange hb hd).2
    have hget : (box (zeros d) d)[(lin b d).toNat] = b := by
      have := box_getElem_lin hb hd
      rw [List.getElem?_eq_getElem hi] at this
      injection this
    rw [List.foldl_cons, map_set_nodup _ (nodup_box (length_zeros d)) v _ hi, hget,
      ih (fun p hp => hB p (by simp [hp]))]
    apply List.map_congr_left
    intro p _
    by_cases h1 : p ∈ B
    · simp [h1]
    · by_cases h2 : p = b
      · subst h2; simp [h1]
      · simp [h1, h2]

theorem fillRange_denotes {α : Type} {g : Grid α} {v : Pos → α} (hg : Denotes g v) {mn sp : Pos}
    (hl : mn.length = sp.length) (hne : mn ≠ []) (hin : ∀ p, InBox mn sp p → InRange g.size p) (f : Pos → α) :
    g.fillRange mn sp f
      = .ok ⟨g.size, (box (zeros g.size) g.size).map (fun p => if InBox mn sp p then f p else v p)⟩ := by
  unfold Grid.fillRange
  rw [posRange_eq_box hl hne]
  obtain ⟨_, hd, hc⟩ := hg
  have hlen : g.cells.length = (box (zeros g.size) g.size).length := by rw [hc]; simp
  simp only [bind, Except.bind]
  have h1 := foldlM_set g.size hd f (box mn sp) (fun p hp => hin p ((mem_box hl p).mp hp)) g.cells hlen
  rw [h1]
  congr 2
  rw [hc, foldl_set_box g.size hd f (box mn sp) (fun p hp => hin p ((mem_box hl p).mp hp)) v]
  apply List.map_congr_left
  intro p _
  simp only [mem_box hl p]

/-! ## the literal fold of `next_position` is the structural `carry` -/

theorem foldl_nextStep (mn sp : Pos) (rs : Pos) : ∀ (r0 : Int) (ms ss pre mpre spre : Pos) (k : Nat),
    pre.length = k → mpre.length = k → spre.length = k → mn = mpre ++ ms → sp = spre ++ ss →
    ms.length = rs.length + 1 → ss.length = rs.length + 1 →
    (List.range' k rs.length).foldl (nextStep mn sp) (pre ++ r0 :: rs) = pre ++ carry (r0 :: rs) ms ss := by
  induction rs with
  | nil => intros; simp [carry]
  | cons r1 rs ih =>
    intro r0 ms ss pre mpre spre k hp hm hs hmn hsp hlm hls
    match ms, ss, hlm, hls with
    | m0 :: ms', s0 :: ss', hlm, hls =>
      have e1 : (pre ++ r0 :: r1 :: rs)[k]? = some r0 := by
        rw [List.getElem?_append_right (by omega)]; simp [hp]
      have e2 : sp[k]? = some s0 := by
        rw [hsp, List.getElem?_append_right (by omega)]; simp [hs]
      have e3 : mn[k]? = some m0 := by
        rw [hmn, List.getElem?_append_right (by omega)]; simp [hm]
      have e4 : (pre ++ r0 :: r1 :: rs)[k + 1]? = some r1 := by
        rw [List.getElem?_append_right (by omega)]
        have : k + 1 - pre.length = 1 := by omega
        simp [this]
      rw [List.length_cons, List.range'_succ, List.foldl_cons]
      have hstep : nextStep mn sp (pre ++ r0 :: r1 :: rs) k
          = if r0 == s0 then (pre ++ [m0]) ++ (r1 + 1) :: rs else (pre ++ [r0]) ++ r1 :: rs := by
        unfold nextStep
        rw [e1, e2, e3, e4]
        by_cases h : r0 = s0
        · subst h
          simp only [beq_self_eq_true, if_true]
          rw [List.set_append_right _ _ (by omega)]
          have h0 : k - pre.length = 0 := by omega
          rw [h0, List.set_cons_zero, List.set_append_right _ _ (by omega)]
          have h1 : k + 1 - pre.length = 1 := by omega
          rw [h1]
          simp
        · have : (r0 == s0) = false := by simpa using h
          simp [this]
      rw [hstep]
      by_cases h : r0 = s0
      · subst h
        simp only [beq_self_eq_true, if_true]
        rw [ih (r1 + 1) ms' ss' (pre ++ [m0]) (mpre ++ [m0]) (spre ++ [r0]) (k + 1) (by simp [hp]) (by simp [hm])
          (by simp [hs]) (by simp [hmn]) (by simp [hsp]) (by simpa using hlm) (by simpa using hls)]
        simp [carry]
      · have hb : (r0 == s0) = false := by simpa using h
        simp only [hb, Bool.false_eq_true, if_false]
        rw [ih r1 ms' ss' (pre ++ [r0]) (mpre ++ [m0]) (spre ++ [s0]) (k + 1) (by simp [hp]) (by simp [hm])
          (by simp [hs]) (by simp [hmn]) (by simp [hsp]) (by simpa using hlm) (by simpa using hls)]
        simp [carry, hb]

theorem nextFold_eq (cur mn sp : Pos) (h1 : mn.length = cur.length) (h2 : sp.length = cur.length) :
    nextFold cur mn sp = next cur mn sp := by
  cases cur with
  | nil => rfl
  | cons x xs =>
    have := foldl_nextStep mn sp xs (x + 1) mn sp [] [] [] 0 rfl rfl rfl rfl rfl (by simpa using h1) (by simpa using h2)
    simp only [nextFold, next, List.length_cons, Nat.add_sub_cancel, List.range_eq_range']
    simpa using this

/-! ## arithmetic modulo `2^w` -/

theorem wrap_wrap (w : Nat) (a : Int) : wrap w (wrap w a) = wrap w a := by
  simp [wrap]

theorem wrap_mul_left (w : Nat) (a b : Int) : wrap w (wrap w a * b) = wrap w (a * b) := by
  unfold wrap
  rw [Int.mul_emod, Int.emod_emod, ← Int.mul_emod]

theorem wrap_mul_right (w : Nat) (a b : Int) : wrap w (a * wrap w b) = wrap w (a * b) := by
  unfold wrap
  rw [Int.mul_emod, Int.emod_emod, ← Int.mul_emod]

theorem wrap_add (w : Nat) (a b : Int) : wrap w (wrap w a + wrap w b) = wrap w (a + b) := by
  unfold wrap
  rw [← Int.add_emod]

theorem wrap_id (w : Nat) {a : Int} (h0 : 0 ≤ a) (h1 : a < 2 ^ w) : wrap w a = a := by
  unfold wrap
  exact Int.emod_eq_of_lt h0 h1

theorem foldl_contentsW (w : Nat) (d : List Int) (a : Int) :
    d.foldl (fun v x => wrap w (v * x)) (wrap w a) = wrap w (d.foldl (· * ·) a) := by
  induction d generalizing a with
  | nil => rfl
  | cons x xs ih => simp only [List.foldl_cons, wrap_mul_left, ih]

theorem contentsW_eq_wrap (w : Nat) (d : List Int) : contentsW w d = wrap w (contents d) :=
  foldl_contentsW w d 1

theorem foldl_offsetStepW (w : Nat) (l : List (Int × Int)) (a st : Int) :
    l.foldl (offsetStepW w) (wrap w a, wrap w st)
      = (wrap w (l.foldl offsetStep (a, st)).1, wrap w (l.foldl offsetStep (a, st)).2) := by
  induction l generalizing a st with
  | nil => rfl
  | cons pd l ih =>
    simp only [List.foldl_cons, offsetStepW, offsetStep]
    rw [wrap_mul_left, wrap_mul_right, wrap_add, ih]

theorem offsetW_eq_wrap (w : Nat) (p d : List Int) : offsetW w p d = wrap w (offset p d) := by
  cases p with
  | nil => simp [offsetW, offset, wrap]
  | cons x xs => simp only [offsetW, offset, foldl_offsetStepW]

/-! ## static rows -/

theorem flatten_getElem? {α : Type} (rows : List (List α)) (w : Nat) (hw : ∀ r ∈ rows, r.length = w)
    (y x : Nat) (r : List α) (v : α) (hr : rows[y]? = some r) (hv : r[x]? = some v) :
    rows.flatten[y * w + x]? = some v := by
  induction rows generalizing y with
  | nil => simp at hr
  | cons r0 rest ih =>
    cases y with
    | zero =>
      simp only [List.getElem?_cons_zero, Option.some.injEq] at hr
      subst hr
      have hx : x < r0.length := by
        rcases List.getElem?_eq_some_iff.mp hv with ⟨h, _⟩; exact h
      simp only [List.flatten_cons, Nat.zero_mul, Nat.zero_add]
      rw [List.getElem?_append_left hx, hv]
    | succ y =>
      have h0 : r0.length = w := hw r0 (by simp)
      simp only [List.getElem?_cons_succ] at hr
      have := ih (fun r hr' => hw r (by simp [hr'])) y hr
      simp only [List.flatten_cons]
      rw [List.getElem?_append_right (by rw [h0, Nat.succ_mul]; omega)]
      have e : (y + 1) * w + x - r0.length = y * w + x := by rw [h0, Nat.succ_mul]; omega
      rw [e, this]

theorem length_flatten_uniform {α : Type} (rows : List (List α)) (w : Nat) (hw : ∀ r ∈ rows, r.length = w) :
    rows.flatten.length = rows.length * w := by
  induction rows with
  | nil => simp
  | cons r0 rest ih =>
    simp only [List.flatten_cons, List.length_append, List.length_cons, hw r0 (by simp),
      ih (fun r hr => hw r (by simp [hr])), Nat.succ_mul]
    omega

theorem mkRows_getUnsafe {α : Type} (r1 : List α) (rs : List (List α)) (hw : ∀ r ∈ rs, r.length = r1.length)
    (x y : Nat) (r : List α) (v : α) (hr : (r1 :: rs)[y]? = some r) (hv : r[x]? = some v) :
    (Grid.mkRows r1 rs).getUnsafe [(x : Int), (y : Int)] = .ok v := by
  have hall : ∀ r ∈ r1 :: rs, r.length = r1.length := by
    intro r hr'
    simp only [List.mem_cons] at hr'
    rcases hr' with rfl | h
    · rfl
    · exact hw r h
  have hget := flatten_getElem? (r1 :: rs) r1.length hall y x r v hr hv
  have hlt : y * r1.length + x < (r1 :: rs).flatten.length := by
    rcases List.getElem?_eq_some_iff.mp hget with ⟨h, _⟩; exact h
  have hoff : offset [(x : Int), (y : Int)] [(r1.length : Int), ((rs.length + 1 : Nat) : Int)]
      = ((y * r1.length + x : Nat) : Int) := by
    simp only [offset, List.zip_cons_cons, List.zip_nil_left, List.foldl_cons, List.foldl_nil, offsetStep,
      Int.one_mul]
    rw [Int.natCast_add, Int.natCast_mul]
    omega
  unfold Grid.getUnsafe Grid.cellIndex Grid.mkRows
  simp only [hoff, Int.natCast_nonneg, Int.toNat_natCast, hlt, and_self, if_true, bind, Except.bind, hget]
  rfl

/-! ## special members -/

theorem absSlot_mk {α : Type} (g : Grid α) (m : Bool) : absSlot (⟨g, m⟩ : Slot α) = if m then none else some g := rfl

theorem regStep_refines {α : Type} (n : Nat) (st : List (Slot α)) (op : RegOp) :
    (regStep n st op).map (List.map absSlot) = specStep n (st.map absSlot) op := by
  cases op with
  | defaultCtor d =>
    simp only [regStep, specStep, List.getElem?_map]
    cases hd : st[d]? with
    | none => simp
    | some y => simp [absSlot, List.map_set]
  | copyCtor d s =>
    simp only [regStep, specStep, List.getElem?_map]
    by_cases hds : (d == s) = true
    · simp [hds]
    · simp only [hds, Bool.false_eq_true, if_false]
      cases hs : st[s]? with
      | none => simp
      | some x =>
        cases hd : st[d]? with
        | none => simp
        | some y =>
          cases x with
          | mk g m => cases m <;> simp [absSlot, List.map_set, Grid.copy]
  | copyAssign d s =>
    simp only [regStep, specStep, List.getElem?_map]
    cases hs : st[s]? with
    | none => simp
    | some x =>
      cases hd : st[d]? with
      | none => simp
      | some y =>
        cases x with
        | mk g m => cases m <;> simp [absSlot, List.map_set, Grid.copy]
  | moveCtor d s =>
    simp only [regStep, specStep, List.getElem?_map]
    by_cases hds : (d == s) = true
    · simp [hds]
    · simp only [hds, Bool.false_eq_true, if_false]
      cases hs : st[s]? with
      | none => simp
      | some x =>
        cases hd : st[d]? with
        | none => simp
        | some y =>
          cases x with
          | mk g m => cases m <;> simp [absSlot, List.map_set, Grid.moveOut]
  | moveAssign d s =>
    simp only [regStep, specStep, List.getElem?_map]
    cases hs : st[s]? with
    | none => simp
    | some x =>
      cases hd : st[d]? with
      | none => simp
      | some y =>
        by_cases hds : (d == s) = true
        · simp [hds]
        · cases x with
          | mk g m => cases m <;> simp [hds, absSlot, List.map_set, Grid.moveOut]
  | swapMember a b =>
    simp only [regStep, specStep, List.getElem?_map]
    cases ha : st[a]? with
    | none => simp
    | some x =>
      cases hb : st[b]? with
      | none => simp
      | some y => simp [absSlot, List.map_set, Grid.swap]
  | swapFree a b =>
    simp only [regStep, specStep, List.getElem?_map]
    cases ha : st[a]? with
    | none => simp
    | some x =>
      cases hb : st[b]? with
      | none => simp
      | some y => simp [absSlot, List.map_set, Grid.swap]

theorem regRun_refines {α : Type} (n : Nat) (st : List (Slot α)) (prog : List RegOp) :
    (regRun n st prog).map (List.map absSlot) = specRun n (st.map absSlot) prog := by
  induction prog generalizing st with
  | nil => rfl
  | cons op ops ih =>
    simp only [regRun, specRun]
    rw [← regStep_refines]
    cases regStep n st op with
    | none => rfl
    | some st' => simpa using ih st'

/-! ## comparison -/

theorem equalPrefix_of_length {α : Type} [BEq α] [LawfulBEq α] (a b : List α) (h : a.length = b.length) :
    ∃ r, equalPrefix a b = .ok r ∧ (r = true ↔ a = b) := by
  induction a generalizing b with
  | nil => cases b <;> simp_all [equalPrefix]
  | cons x xs ih =>
    cases b with
    | nil => simp at h
    | cons y ys =>
      simp only [equalPrefix]
      by_cases hxy : x = y
      · subst hxy
        obtain ⟨r, h1, h2⟩ := ih ys (by simpa using h)
        exact ⟨r, by simpa using h1, by simpa using h2⟩
      · have : (x == y) = false := by simpa using hxy
        exact ⟨false, by simp [this], by simp [hxy]⟩

theorem lexLess_iff (a b : List Int) : lexLess a b = true ↔ LexLt a b := by
  induction a generalizing b with
  | nil => cases b <;> simp [lexLess, LexLt]
  | cons x xs ih =>
    cases b with
    | nil => simp [lexLess, LexLt]
    | cons y ys =>
      simp only [lexLess, LexLt]
      by_cases h1 : x < y
      · simp [h1]
      · by_cases h2 : y < x
        · simp only [h1, h2, if_true, if_false, Bool.false_eq_true, false_iff]
          rintro (h | ⟨h, _⟩) <;> omega
        · have : x = y := by omega
          subst this
          simp [ih ys]

theorem LexLt.irrefl (a : List Int) : ¬ LexLt a a := by
  induction a with
  | nil => simp [LexLt]
  | cons x xs ih => simp only [LexLt]; rintro (h | ⟨_, h⟩); omega; exact ih h

theorem LexLt.trans {a b c : List Int} (h1 : LexLt a b) (h2 : LexLt b c) : LexLt a c := by
  induction a generalizing b c with
  | nil =>
    cases b with
    | nil => simp [LexLt] at h1
    | cons y ys => cases c <;> simp_all [LexLt]
  | cons x xs ih =>
    cases b with
    | nil => simp [LexLt] at h1
    | cons y ys =>
      cases c with
      | nil => simp [LexLt] at h2
      | cons z zs =>
        simp only [LexLt] at h1 h2 ⊢
        rcases h1 with h1 | ⟨e1, h1⟩ <;> rcases h2 with h2 | ⟨e2, h2⟩
        · left; omega
        · left; omega
        · left; omega
        · right; exact ⟨by omega, ih h1 h2⟩

theorem LexLt.total (a b : List Int) : LexLt a b ∨ a = b ∨ LexLt b a := by
  induction a generalizing b with
  | nil => cases b <;> simp [LexLt]
  | cons x xs ih =>
    cases b with
    | nil => simp [LexLt]
    | cons y ys =>
      simp only [LexLt, List.cons.injEq]
      rcases ih ys with h | h | h
      · by_cases h1 : x < y
        · exact Or.inl (Or.inl h1)
        · by_cases h2 : y < x
          · exact Or.inr (Or.inr (Or.inl h2))
          · exact Or.inl (Or.inr ⟨by omega, h⟩)
      · by_cases h1 : x < y
        · exact Or.inl (Or.inl h1)
        · by_cases h2 : y < x
          · exact Or.inr (Or.inr (Or.inl h2))
          · exact Or.inr (Or.inl ⟨by omega, h⟩)
      · by_cases h1 : x < y
        · exact Or.inl (Or.inl h1)
        · by_cases h2 : y < x
          · exact Or.inr (Or.inr (Or.inl h2))
          · exact Or.inr (Or.inr (Or.inr ⟨by omega, h⟩))

/-- the order `operator<` computes: sizes first, cells second, both lexicographically -/
def GridLt (a b : Grid Int) : Prop := LexLt a.size b.size ∨ (a.size = b.size ∧ LexLt a.cells b.cells)

theorem gridLt_iff (a b : Grid Int) : a.lt b = true ↔ GridLt a b := by
  unfold Grid.lt GridLt
  by_cases h : a.size = b.size
  · have : (a.size != b.size) = false := by simp [h]
    rw [this]
    simp only [Bool.false_eq_true, if_false, lexLess_iff]
    constructor
    · exact fun h' => Or.inr ⟨h, h'⟩
    · rintro (h' | h')
      · rw [h] at h'; exact absurd h' (LexLt.irrefl _)
      · exact h'.2
  · have : (a.size != b.size) = true := by simp [h]
    rw [this]
    simp only [if_true, lexLess_iff, h, false_and, or_false]

theorem specStep_mem {α : Type} (n : Nat) (st st' : List (Option (Grid α))) (op : RegOp) (h : specStep n st op = some st')
    (v : Grid α) (hv : some v ∈ st') : some v ∈ st ∨ v = Grid.empty n := by
  have key : ∀ (l : List (Option (Grid α))) (i : Nat) (x : Option (Grid α)), some v ∈ l.set i x →
      some v ∈ l ∨ some v = x := fun l i x hm => List.mem_or_eq_of_mem_set hm
  cases op with
  | defaultCtor d =>
    simp only [specStep] at h
    split at h
    · injection h with h; subst h
      rcases key _ _ _ hv with h | h
      · exact Or.inl h
      · injection h with h; exact Or.inr h
    · simp at h
  | copyCtor d s =>
    refine Or.inl ?_
    simp only [specStep] at h
    split at h
    · simp at h
    · split at h
      · rename_i w _ hs _
        injection h with h; subst h
        rcases key _ _ _ hv with h | h
        · exact h
        · rw [h]; exact List.mem_of_getElem? hs
      · simp at h
  | copyAssign d s =>
    refine Or.inl ?_
    simp only [specStep] at h
    split at h
    · rename_i w _ hs _
      injection h with h; subst h
      rcases key _ _ _ hv with h | h
      · exact h
      · rw [h]; exact List.mem_of_getElem? hs
    · simp at h
  | moveCtor d s =>
    refine Or.inl ?_
    simp only [specStep] at h
    split at h
    · simp at h
    · split at h
      · rename_i w _ hs _
        injection h with h; subst h
        rcases key _ _ _ hv with h | h
        · rcases key _ _ _ h with h | h
          · exact h
          · rw [h]; exact List.mem_of_getElem? hs
        · simp at h
      · simp at h
  | moveAssign d s =>
    refine Or.inl ?_
    simp only [specStep] at h
    split at h
    · rename_i x _ hs _
      split at h
      · injection h with h; subst h; exact hv
      · split at h
        · injection h with h; subst h
          rcases key _ _ _ hv with h | h
          · rcases key _ _ _ h with h | h
            · exact h
            · rw [h]; exact List.mem_of_getElem? hs
          · simp at h
        · simp at h
    · simp at h
  | swapMember a b =>
    refine Or.inl ?_
    simp only [specStep] at h
    split at h
    · rename_i x y ha hb
      injection h with h; subst h
      rcases key _ _ _ hv with h | h
      · rcases key _ _ _ h with h | h
        · exact h
        · rw [h]; exact List.mem_of_getElem? hb
      · rw [h]; exact List.mem_of_getElem? ha
    · simp at h
  | swapFree a b =>
    refine Or.inl ?_
    simp only [specStep] at h
    split at h
    · rename_i x y ha hb
      injection h with h; subst h
      rcases key _ _ _ hv with h | h
      · rcases key _ _ _ h with h | h
        · exact h
        · rw [h]; exact List.mem_of_getElem? hb
      · rw [h]; exact List.mem_of_getElem? ha
    · simp at h

theorem specRun_mem {α : Type} (n : Nat) (st st' : List (Option (Grid α))) (prog : List RegOp)
    (h : specRun n st prog = some st') (v : Grid α) (hv : some v ∈ st') : some v ∈ st ∨ v = Grid.empty n := by
  induction prog generalizing st with
  | nil => simp only [specRun, Option.some.injEq] at h; subst h; exact Or.inl hv
  | cons op ops ih =>
    simp only [specRun] at h
    cases hs : specStep n st op with
    | none => simp [hs] at h
    | some st1 =>
      simp only [hs, Option.bind_some] at h
      rcases ih st1 h with h1 | h1
      · exact specStep_mem n st st1 op hs v h1
      · exact Or.inr h1

theorem grid_eq_iff {α : Type} (a b : Grid α) : a = b ↔ a.size = b.size ∧ a.cells = b.cells := by
  cases a; cases b; simp

theorem gridEq_spec {α : Type} [BEq α] [LawfulBEq α] (a b : Grid α)
    (ha : a.cells.length = (contents a.size).toNat) (hb : b.cells.length = (contents b.size).toNat) :
    ∃ r, a.eq b = .ok r ∧ (r = true ↔ a = b) := by
  unfold Grid.eq
  by_cases h : a.size = b.size
  · have hl : a.cells.length = b.cells.length := by rw [ha, hb, h]
    obtain ⟨r, h1, h2⟩ := equalPrefix_of_length a.cells b.cells hl
    refine ⟨r, by simp [h, h1], ?_⟩
    rw [h2, grid_eq_iff]
    simp [h]
  · refine ⟨false, by simp [h], ?_⟩
    rw [grid_eq_iff]
    simp [h]

/-! ## output -/

theorem printRec_spec {α : Type} {g : Grid α} {v : Pos → α} (hg : Denotes g v) (sh : α → String) :
    ∀ (level : Nat) (pre suf : Pos), level ≤ g.size.length → pre.length = level →
      InBox (zeros (g.size.drop level)) (g.size.drop level) suf →
      g.printRec sh level (pre ++ suf) = .ok (render (fun p => sh (v p)) (g.size.take level).reverse suf) := by
  intro level
  induction level with
  | zero =>
    intro pre suf _ hp hb
    have : pre = [] := List.eq_nil_of_length_eq_zero hp
    subst this
    simp only [List.drop_zero] at hb
    simp only [Grid.printRec, List.nil_append, get_of_denotes hg hb, List.take_zero, List.reverse_nil, render]
    rfl
  | succ level ih =>
    intro pre suf hle hp hb
    have hlt : level < g.size.length := by omega
    have hsz : g.size[level]? = some g.size[level] := List.getElem?_eq_getElem hlt
    have hset : ∀ i : Int, (pre ++ suf).set level i = pre.take level ++ (i :: suf) := by
      intro i
      rw [List.set_append_left _ _ (by omega), List.set_eq_take_append_cons_drop]
      have : pre.drop (level + 1) = [] := List.drop_eq_nil_of_le (by omega)
      simp [hp, this]
    have hparts : (List.range g.size[level].toNat).mapM
        (fun (i : Nat) => g.printRec sh level ((pre ++ suf).set level (i : Int)))
        = .ok ((List.range g.size[level].toNat).map
            fun (i : Nat) => render (fun p => sh (v p)) (g.size.take level).reverse ((i : Int) :: suf)) := by
      apply mapM_ok
      intro i hi
      have hi' : i < g.size[level].toNat := List.mem_range.mp hi
      rw [hset]
      apply ih (pre.take level) ((i : Int) :: suf) (by omega) (by simp [hp])
      rw [List.drop_eq_getElem_cons hlt]
      simp only [zeros, List.map_cons, InBox]
      exact ⟨by omega, by omega, hb⟩
    simp only [Grid.printRec, hsz, bind, Except.bind, hparts, List.take_succ_eq_append_getElem hlt,
      List.reverse_append, List.reverse_cons, List.reverse_nil, List.nil_append, List.cons_append, render]
    rfl

theorem output_spec {α : Type} {g : Grid α} {v : Pos → α} (hg : Denotes g v) (sh : α → String) :
    g.output sh = .ok (render (fun p => sh (v p)) g.size.reverse []) := by
  have := printRec_spec hg sh g.size.length (zeros g.size) [] (Nat.le_refl _) (length_zeros _)
    (by simp [zeros, InBox])
  simpa [Grid.output] using this

/-! ## interpolation -/

theorem length_bitStrings (n : Nat) : (bitStrings n).length = 2 ^ n := by
  induction n with
  | zero => rfl
  | succ n ih => simp [bitStrings, ih, Nat.pow_succ]; omega

/-- the corner array of level `n` above the already chosen offsets `hi` -/
def corners (fl : Pos) (n : Nat) (hi : Pos) : List Pos :=
  (bitStrings n).map fun b => List.zipWith (· + ·) (b ++ hi) fl

theorem corners_succ (fl : Pos) (n : Nat) (hi : Pos) :
    corners fl (n + 1) hi = corners fl n (0 :: hi) ++ corners fl n (1 :: hi) := by
  simp [corners, bitStrings, List.map_append, List.map_map, Function.comp_def, List.append_assoc]

theorem length_corners (fl : Pos) (n : Nat) (hi : Pos) : (corners fl n hi).length = 2 ^ n := by
  simp [corners, length_bitStrings]

theorem interpRec_corners {α φ : Type} {g : Grid α} {v : Pos → α} (hg : Denotes g v) (ip : φ → α → α → α)
    (fl : Pos) (fr : List φ) (frf : Nat → φ) :
    ∀ (n : Nat) (hi : Pos) (A B : List Pos), (∀ k, k < n → fr[k]? = some (frf k)) →
      (∀ b ∈ bitStrings n, InRange g.size (List.zipWith (· + ·) (b ++ hi) fl)) →
      g.interpRec (A ++ corners fl n hi ++ B) ip fr n A.length = .ok (multilin v ip fl frf n hi) := by
  intro n
  induction n with
  | zero =>
    intro hi A B _ hin
    have h0 := hin [] (by simp [bitStrings])
    simp only [List.nil_append] at h0
    simp only [Grid.interpRec, corners, bitStrings, List.map_cons, List.map_nil, List.nil_append, multilin]
    rw [List.append_assoc, List.getElem?_append_right (Nat.le_refl _)]
    simp only [Nat.sub_self, List.cons_append, List.getElem?_cons_zero]
    exact get_of_denotes hg h0
  | succ n ih =>
    intro hi A B hfr hin
    have hf : fr[n]? = some (frf n) := hfr n (by omega)
    have hin0 : ∀ b ∈ bitStrings n, InRange g.size (List.zipWith (· + ·) (b ++ (0 :: hi)) fl) := by
      intro b hb
      have := hin (b ++ [0]) (by simp only [bitStrings, List.mem_append, List.mem_map]; exact Or.inl ⟨b, hb, rfl⟩)
      simpa [List.append_assoc] using this
    have hin1 : ∀ b ∈ bitStrings n, InRange g.size (List.zipWith (· + ·) (b ++ (1 :: hi)) fl) := by
      intro b hb
      have := hin (b ++ [1]) (by simp only [bitStrings, List.mem_append, List.mem_map]; exact Or.inr ⟨b, hb, rfl⟩)
      simpa [List.append_assoc] using this
    have ha := ih (0 :: hi) A (corners fl n (1 :: hi) ++ B) (fun k hk => hfr k (by omega)) hin0
    have hb := ih (1 :: hi) (A ++ corners fl n (0 :: hi)) B (fun k hk => hfr k (by omega)) hin1
    have e1 : A ++ corners fl (n + 1) hi ++ B = A ++ corners fl n (0 :: hi) ++ (corners fl n (1 :: hi) ++ B) := by
      rw [corners_succ]; simp [List.append_assoc]
    have e2 : A ++ corners fl (n + 1) hi ++ B = A ++ corners fl n (0 :: hi) ++ corners fl n (1 :: hi) ++ B := by
      rw [corners_succ]; simp [List.append_assoc]
    have e3 : (A ++ corners fl n (0 :: hi)).length = A.length + 2 ^ n := by
      rw [List.length_append, length_corners]
    rw [e3, ← e2] at hb
    rw [← e1] at ha
    simp only [Grid.interpRec, hf, multilin, ha, hb, bind, Except.bind]
    rfl

/-- offsets of zeros and ones on a position with `0 ≤ fl_i` and `fl_i + 1 < d_i` stay in range -/
theorem corner_inRange (d fl b : Pos) (hfl : InRange (d.map (· - 1)) fl) (hb : ∀ x ∈ b, x = 0 ∨ x = 1)
    (hl : b.length = d.length) : InRange d (List.zipWith (· + ·) b fl) := by
  induction d generalizing fl b with
  | nil =>
    cases b with
    | nil => cases fl <;> simp_all [InRange, InBox, zeros]
    | cons _ _ => simp at hl
  | cons e es ih =>
    cases b with
    | nil => simp at hl
    | cons x xs =>
      cases fl with
      | nil => simp [InRange, InBox, zeros] at hfl
      | cons f fs =>
        simp only [InRange, zeros, List.map_cons, InBox, List.zipWith_cons_cons] at hfl ⊢
        have hx := hb x (by simp)
        refine ⟨by omega, by omega, ?_⟩
        exact ih fs xs hfl.2.2 (fun y hy => hb y (by simp [hy])) (by simpa using hl)

theorem bitStrings_spec (n : Nat) : ∀ b ∈ bitStrings n, b.length = n ∧ ∀ x ∈ b, x = 0 ∨ x = 1 := by
  induction n with
  | zero => intro b hb; simp [bitStrings] at hb; subst hb; simp
  | succ n ih =>
    intro b hb
    simp only [bitStrings, List.mem_append, List.mem_map] at hb
    rcases hb with ⟨c, hc, rfl⟩ | ⟨c, hc, rfl⟩
    · have := ih c hc
      refine ⟨by simp [this.1], ?_⟩
      intro x hx
      simp only [List.mem_append, List.mem_singleton] at hx
      rcases hx with hx | hx
      · exact this.2 x hx
      · exact Or.inl hx
    · have := ih c hc
      refine ⟨by simp [this.1], ?_⟩
      intro x hx
      simp only [List.mem_append, List.mem_singleton] at hx
      rcases hx with hx | hx
      · exact this.2 x hx
      · exact Or.inr hx

theorem interpolate_eq {α φ : Type} {g : Grid α} {v : Pos → α} (hg : Denotes g v) (ip : φ → α → α → α)
    (fl : Pos) (fr : List φ) (frf : Nat → φ) (hfr : ∀ k, k < g.size.length → fr[k]? = some (frf k))
    (hfl : InRange (g.size.map (· - 1)) fl) :
    g.interpolate fl fr ip = .ok (multilin v ip fl frf g.size.length []) := by
  have h := interpRec_corners hg ip fl fr frf g.size.length [] [] [] hfr (by
    intro b hb
    have hs := bitStrings_spec _ b hb
    rw [List.append_nil]
    exact corner_inRange g.size fl b hfl hs.2 hs.1)
  unfold Grid.interpolate
  have e : (bitStrings g.size.length).map (fun b => List.zipWith (· + ·) b fl) = [] ++ corners fl g.size.length [] ++ [] := by
    simp [corners]
  rw [e]
  exact h

/-! ## the iteration never leaves `[min, sup]` (no overflow / wrap-around of `++` for representable `sup`) -/

/-- component-wise `mn ≤ q ≤ sp` (closed at both ends) -/
def Between : Pos → Pos → Pos → Prop
  | [], [], [] => True
  | m :: ms, s :: ss, x :: xs => m ≤ x ∧ x ≤ s ∧ Between ms ss xs
  | _, _, _ => False

theorem InBox.between {mn sp p : Pos} (h : InBox mn sp p) : Between mn sp p := by
  induction mn generalizing sp p with
  | nil => cases sp <;> cases p <;> simp_all [InBox, Between]
  | cons m ms ih =>
    cases sp with
    | nil => simp [InBox] at h
    | cons s ss =>
      cases p with
      | nil => simp [InBox] at h
      | cons x xs =>
        simp only [InBox] at h
        exact ⟨h.1, by omega, ih h.2.2⟩

theorem endInit_between {mn sp : Pos} (hl : mn.length = sp.length) (hne : mn ≠ []) (h : minLessSup mn sp = true) :
    Between mn sp (endInit mn sp) := by
  induction mn generalizing sp with
  | nil => simp at hne
  | cons m ms ih =>
    cases sp with
    | nil => simp at hl
    | cons s ss =>
      have hl' : ms.length = ss.length := by simpa using hl
      rw [minLessSup_cons] at h
      simp only [Bool.and_eq_true, decide_eq_true_eq] at h
      cases ms with
      | nil =>
        cases ss with
        | cons _ _ => simp at hl'
        | nil => simp only [endInit, Between]; exact ⟨by omega, by omega, trivial⟩
      | cons m1 ms' =>
        cases ss with
        | nil => simp at hl'
        | cons s1 ss' =>
          rw [endInit_cons_cons]
          exact ⟨by omega, by omega, ih (sp := s1 :: ss') hl' (by simp) h.2⟩

theorem next_between {mn sp p : Pos} (hne : mn ≠ []) (hp : InBox mn sp p) : Between mn sp (next p mn sp) := by
  have hl := hp.length
  have hb := linR_inBox hp
  have hs := next_step hne hp
  by_cases h : linR mn sp p + 1 < count mn sp
  · exact (hs.1 h).1.between
  · have he : linR mn sp p + 1 = count mn sp := by omega
    rw [hs.2 he]
    simp only [endPos, hp.minLessSup, if_true]
    exact endInit_between (by omega) hne hp.minLessSup

/-! ## fill with a function that reads the grid being filled -/

theorem within_zeros (d : List Int) (hd : NonNeg d) : Within (zeros d) d d := by
  induction d with
  | nil => simp [zeros, Within]
  | cons e es ih =>
    simp only [zeros, List.map_cons, Within]
    exact ⟨Int.le_refl _, Int.le_refl _, ih (fun x hx => hd x (by simp [hx]))⟩

theorem foldlM_dep {α : Type} (d : List Int) (hne : d ≠ []) (hd : NonNeg d) (v : Pos → α) (σ : Pos → Pos)
    (h : Pos → α → α) (hσ : ∀ p, InRange d p → InRange d (σ p) ∧ lin p d ≤ lin (σ p) d) :
    ∀ (todo done : List Pos), done ++ todo = box (zeros d) d →
      todo.foldlM (fun (g : Grid α) p => do
          let x ← (h p) <$> g.getUnsafe (σ p)
          g.setUnsafe p x)
        ⟨d, (box (zeros d) d).map (fun q => if q ∈ done then h q (v (σ q)) else v q)⟩
      = .ok ⟨d, (box (zeros d) d).map (fun q => if q ∈ done ++ todo then h q (v (σ q)) else v q)⟩ := by
  intro todo
  induction todo with
  | nil => intro done _; simp only [List.foldlM_nil, List.append_nil]; rfl
  | cons p todo ih =>
    intro done hB
    have hpB : p ∈ box (zeros d) d := by rw [← hB]; simp
    have hp : InRange d p := (mem_box (length_zeros d) p).mp hpB
    obtain ⟨hsr, hsl⟩ := hσ p hp
    have hpw : (done ++ p :: todo).Pairwise (fun a b => lin a d < lin b d) := by
      rw [hB]; exact box_pairwise_lin (within_zeros d hd)
    have hnot : σ p ∉ done := by
      intro hm
      have := (List.pairwise_append.mp hpw).2.2 (σ p) hm p (by simp)
      omega
    let w : Pos → α := fun q => if q ∈ done then h q (v (σ q)) else v q
    have hden : Denotes (⟨d, (box (zeros d) d).map w⟩ : Grid α) w := ⟨hne, hd, rfl⟩
    have hget : (⟨d, (box (zeros d) d).map w⟩ : Grid α).getUnsafe (σ p) = .ok (v (σ p)) := by
      rw [get_of_denotes hden hsr]
      simp [w, hnot]
    have hi := (lin_inRange hp hd).2
    have hidx : (box (zeros d) d)[(lin p d).toNat] = p := by
      have := box_getElem_lin hp hd
      rw [List.getElem?_eq_getElem hi] at this
      injection this
    have hset := setUnsafe_ok (⟨d, (box (zeros d) d).map w⟩ : Grid α) hp hd (by simp) (h p (v (σ p)))
    rw [List.foldlM_cons]
    show (do
        let x ← (h p) <$> (⟨d, (box (zeros d) d).map w⟩ : Grid α).getUnsafe (σ p)
        (⟨d, (box (zeros d) d).map w⟩ : Grid α).setUnsafe p x) >>= _ = _
    rw [hget]
    simp only [Functor.map, Except.map, bind, Except.bind]
    rw [hset]
    simp only [map_set_nodup _ (nodup_box (length_zeros d)) w _ hi, hidx]
    have e : (box (zeros d) d).map (fun q => if q = p then h p (v (σ p)) else w q)
        = (box (zeros d) d).map (fun q => if q ∈ done ++ [p] then h q (v (σ q)) else v q) := by
      apply List.map_congr_left
      intro q _
      by_cases hq : q = p
      · subst hq; simp
      · simp [w, hq]
    rw [e]
    have := ih (done ++ [p]) (by rw [List.append_assoc]; simpa using hB)
    simp only [List.append_assoc, List.singleton_append] at this
    exact this

theorem fillDep_denotes {α : Type} {g : Grid α} {v : Pos → α} (hg : Denotes g v) (σ : Pos → Pos) (h : Pos → α → α)
    (hσ : ∀ p, InRange g.size p → InRange g.size (σ p) ∧ lin p g.size ≤ lin (σ p) g.size) :
    g.fillDep (fun g' p => (h p) <$> g'.getUnsafe (σ p))
      = .ok ⟨g.size, (box (zeros g.size) g.size).map (fun p => h p (v (σ p)))⟩ := by
  unfold Grid.fillDep
  have e := posRangeAll_eq g.size hg.1
  unfold posRangeAll at e
  rw [e]
  have hs : g = ⟨g.size, (box (zeros g.size) g.size).map (fun q => if q ∈ ([] : List Pos) then h q (v (σ q)) else v q)⟩ := by
    rw [grid_eq_iff]
    exact ⟨rfl, by simpa using hg.2.2⟩
  have := foldlM_dep g.size hg.1 hg.2.1 v σ h hσ (box (zeros g.size) g.size) [] (by simp)
  rw [← hs] at this
  refine this.trans ?_
  congr 2
  apply List.map_congr_left
  intro q hq
  simp [hq]

end Fcppt.C08
