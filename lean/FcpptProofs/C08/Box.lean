import FcpptProofs.C08.Arith
/-! C08 helper lemmas about the specification `box`: membership, order, size. -/
namespace Fcppt.C08

theorem InBox.length {mn sp p : Pos} (h : InBox mn sp p) : mn.length = p.length ∧ sp.length = p.length := by
  induction mn generalizing sp p with
  | nil => cases sp <;> cases p <;> simp_all [InBox]
  | cons m ms ih =>
    cases sp with
    | nil => simp [InBox] at h
    | cons s ss =>
      cases p with
      | nil => simp [InBox] at h
      | cons x xs =>
        simp only [InBox] at h
        have := ih h.2.2
        simp [this.1, this.2]

@[simp] theorem length_ints (lo : Int) (n : Nat) : (ints lo n).length = n := by
  induction n generalizing lo with
  | zero => simp [ints]
  | succ n ih => simp [ints, ih]

theorem mem_ints {lo : Int} {n : Nat} {x : Int} : x ∈ ints lo n ↔ lo ≤ x ∧ x < lo + n := by
  induction n generalizing lo with
  | zero => simp [ints]
  | succ n ih => simp [ints, ih]; omega

theorem ints_append (lo : Int) (a b : Nat) : ints lo (a + b) = ints lo a ++ ints (lo + a) b := by
  induction a generalizing lo with
  | zero => simp [ints]
  | succ a ih =>
    have : a + 1 + b = (a + b) + 1 := by omega
    rw [this]
    simp only [ints, ih, List.cons_append]
    congr 2
    have : lo + 1 + (a : Int) = lo + ((a + 1 : Nat) : Int) := by omega
    rw [this]

theorem map_ints (f : Int → Int) (c : Int) (hf : ∀ x, f x = x + c) (lo : Int) (n : Nat) :
    (ints lo n).map f = ints (lo + c) n := by
  induction n generalizing lo with
  | zero => simp [ints]
  | succ n ih =>
    simp only [ints, List.map_cons, ih, hf]
    congr 2
    omega

theorem ints_pairwise_lt (lo : Int) (n : Nat) : (ints lo n).Pairwise (· < ·) := by
  induction n generalizing lo with
  | zero => simp [ints]
  | succ n ih =>
    simp only [ints, List.pairwise_cons]
    refine ⟨?_, ih _⟩
    intro y hy
    have := (mem_ints.mp hy).1
    omega

@[simp] theorem length_row (lo : Int) (n : Nat) (t : Pos) : (row lo n t).length = n := by
  simp [row]

theorem mem_row {lo : Int} {n : Nat} {t p : Pos} :
    p ∈ row lo n t ↔ ∃ x, (lo ≤ x ∧ x < lo + n) ∧ p = x :: t := by
  simp only [row, List.mem_map, mem_ints]
  constructor
  · rintro ⟨x, hx, rfl⟩; exact ⟨x, hx, rfl⟩
  · rintro ⟨x, hx, rfl⟩; exact ⟨x, hx, rfl⟩

/-- membership in the specification box is the component-wise half-open interval test -/
theorem mem_box {mn sp : Pos} (hl : mn.length = sp.length) (p : Pos) : p ∈ box mn sp ↔ InBox mn sp p := by
  induction mn generalizing sp p with
  | nil =>
    cases sp with
    | nil => cases p <;> simp [box, InBox]
    | cons _ _ => simp at hl
  | cons m ms ih =>
    cases sp with
    | nil => simp at hl
    | cons s ss =>
      have hl' : ms.length = ss.length := by simpa using hl
      simp only [box, List.mem_flatMap, mem_row]
      constructor
      · rintro ⟨t, ht, x, hx, rfl⟩
        simp only [InBox]
        refine ⟨hx.1, ?_, (ih hl' t).mp ht⟩
        omega
      · intro h
        cases p with
        | nil => simp [InBox] at h
        | cons x xs =>
          simp only [InBox] at h
          exact ⟨xs, (ih hl' xs).mpr h.2.2, x, ⟨h.1, by omega⟩, rfl⟩

/-- number of positions of the box -/
def count : Pos → Pos → Nat
  | m :: ms, s :: ss => (s - m).toNat * count ms ss
  | _, _ => 1

/-- linear index of `p` relative to the box `[mn, sp)` -/
def linR : Pos → Pos → Pos → Int
  | m :: ms, s :: ss, x :: xs => (x - m) + (s - m) * linR ms ss xs
  | _, _, _ => 0

theorem flatMap_ints (e : Int) (n c : Nat) (hn : n = 0 ∨ e = n) :
    (ints 0 c).flatMap (fun k => ints (e * k) n) = ints 0 (n * c) := by
  induction c with
  | zero => simp [ints]
  | succ c ih =>
    have h1 : ints 0 (c + 1) = ints 0 c ++ [(c : Int)] := by
      rw [ints_append]; simp [ints]
    rw [h1, List.flatMap_append, ih]
    have h2 : n * (c + 1) = n * c + n := by rw [Nat.mul_succ]
    rw [h2, ints_append]
    congr 1
    simp only [List.flatMap_cons, List.flatMap_nil, List.append_nil]
    rcases hn with hn | hn
    · subst hn; simp [ints]
    · subst hn; congr 1; simp [Int.natCast_mul]

/-- the box lists its positions in strictly increasing relative linear index 0, 1, 2, … -/
theorem map_linR_box {mn sp : Pos} (hl : mn.length = sp.length) :
    (box mn sp).map (linR mn sp) = ints 0 (count mn sp) := by
  induction mn generalizing sp with
  | nil =>
    cases sp with
    | nil => simp [box, linR, count, ints]
    | cons _ _ => simp at hl
  | cons m ms ih =>
    cases sp with
    | nil => simp at hl
    | cons s ss =>
      have hl' : ms.length = ss.length := by simpa using hl
      simp only [box, count, List.map_flatMap]
      have step : ∀ t : Pos, (row m (s - m).toNat t).map (linR (m :: ms) (s :: ss))
          = ints ((s - m) * linR ms ss t) (s - m).toNat := by
        intro t
        simp only [row, List.map_map]
        have := map_ints (fun x => (x - m) + (s - m) * linR ms ss t) (-m + (s - m) * linR ms ss t)
          (by intro x; omega) m (s - m).toNat
        rw [show ((linR (m :: ms) (s :: ss)) ∘ fun x => x :: t) = fun x => (x - m) + (s - m) * linR ms ss t from by
          funext x; simp [linR]]
        rw [this]
        congr 1
        omega
      rw [show (List.flatMap (fun a => List.map (linR (m :: ms) (s :: ss)) (row m (s - m).toNat a)) (box ms ss))
        = List.flatMap (fun k => ints ((s - m) * k) (s - m).toNat) ((box ms ss).map (linR ms ss)) from by
          rw [List.flatMap_map]; congr 1; funext t; exact step t]
      rw [ih hl', flatMap_ints]
      by_cases h : 0 ≤ s - m
      · right; omega
      · left; omega

theorem length_box {mn sp : Pos} (hl : mn.length = sp.length) : (box mn sp).length = count mn sp := by
  have := congrArg List.length (map_linR_box hl)
  simpa using this

theorem nodup_box {mn sp : Pos} (hl : mn.length = sp.length) : (box mn sp).Nodup := by
  have h : ((box mn sp).map (linR mn sp)).Pairwise (· < ·) := by
    rw [map_linR_box hl]; exact ints_pairwise_lt _ _
  rw [List.pairwise_map] at h
  exact h.imp (fun {a b} hab heq => by subst heq; omega)

end Fcppt.C08
