import FcpptProofs.C08.Box
/-! C08 helper lemmas: the iterator loop over `next_position` enumerates the specification `box`. -/
namespace Fcppt.C08

/-- `L` is the list of values visited by repeatedly applying `f` from `a` until `e` is reached -/
inductive Chain (f : Pos → Pos) : Pos → List Pos → Pos → Prop
  | nil (e : Pos) : Chain f e [] e
  | cons {a : Pos} {L : List Pos} {e : Pos} : Chain f (f a) L e → Chain f a (a :: L) e

theorem Chain.append {f : Pos → Pos} {a b e : Pos} {L1 L2 : List Pos}
    (h1 : Chain f a L1 b) (h2 : Chain f b L2 e) : Chain f a (L1 ++ L2) e := by
  induction h1 with
  | nil _ => simpa using h2
  | cons _ ih => exact Chain.cons (ih h2)

theorem minLessSup_cons (m s : Int) (ms ss : Pos) :
    minLessSup (m :: ms) (s :: ss) = (decide (m < s) && minLessSup ms ss) := by
  simp [minLessSup]

theorem InBox.minLessSup {mn sp p : Pos} (h : InBox mn sp p) : minLessSup mn sp = true := by
  induction mn generalizing sp p with
  | nil => cases sp <;> cases p <;> simp_all [InBox, Fcppt.C08.minLessSup]
  | cons m ms ih =>
    cases sp with
    | nil => simp [InBox] at h
    | cons s ss =>
      cases p with
      | nil => simp [InBox] at h
      | cons x xs =>
        simp only [InBox] at h
        rw [minLessSup_cons, ih h.2.2]
        simp
        omega

theorem box_eq_nil {mn sp : Pos} (hl : mn.length = sp.length) (h : minLessSup mn sp = false) : box mn sp = [] := by
  apply List.eq_nil_iff_forall_not_mem.mpr
  intro p hp
  have := ((mem_box hl p).mp hp).minLessSup
  simp [h] at this

/-- no spurious carry on a position inside the box -/
theorem carry_of_inBox {mn sp t : Pos} (h : InBox mn sp t) : carry t mn sp = t := by
  induction mn generalizing sp t with
  | nil => cases sp <;> cases t <;> simp_all [InBox, carry]
  | cons m ms ih =>
    cases sp with
    | nil => simp [InBox] at h
    | cons s ss =>
      cases t with
      | nil => simp [InBox] at h
      | cons x xs =>
        simp only [InBox] at h
        cases xs with
        | nil => simp [carry]
        | cons y ys =>
          have hne : (x == s) = false := by simp; omega
          simp only [carry, hne]
          simp [ih h.2.2]

theorem next_single (x : Int) (mn sp : Pos) : next [x] mn sp = [x + 1] := by
  cases mn <;> cases sp <;> simp [next, carry]

theorem next_cons_cons (x y : Int) (ys : Pos) (m s : Int) (ms ss : Pos) :
    next (x :: y :: ys) (m :: ms) (s :: ss)
      = if x + 1 = s then m :: next (y :: ys) ms ss else (x + 1) :: carry (y :: ys) ms ss := by
  simp only [next, carry]
  by_cases h : x + 1 = s <;> simp [h]

/-- a row of a box of static size 1 -/
theorem row1_chain (mn sp : Pos) (k : Nat) (lo : Int) :
    Chain (fun c => next c mn sp) [lo] (row lo k []) [lo + k] := by
  induction k generalizing lo with
  | zero => simpa [row, ints] using Chain.nil [lo]
  | succ k ih =>
    simp only [row, ints, List.map_cons]
    apply Chain.cons
    rw [next_single]
    have := ih (lo + 1)
    simp only [row] at this
    have e : lo + 1 + (k : Int) = lo + ((k + 1 : Nat) : Int) := by omega
    rw [e] at this
    exact this

/-- one row of a box of static size ≥ 2: the last step carries into the remaining coordinates -/
theorem row_chain (m s : Int) (ms ss : Pos) (y : Int) (ys : Pos) (ht : carry (y :: ys) ms ss = y :: ys)
    (k : Nat) (lo : Int) (hk : lo + (k + 1 : Nat) = s) :
    Chain (fun c => next c (m :: ms) (s :: ss)) (lo :: y :: ys) (row lo (k + 1) (y :: ys))
      (m :: next (y :: ys) ms ss) := by
  induction k generalizing lo with
  | zero =>
    simp only [row, ints, List.map_cons, List.map_nil]
    apply Chain.cons
    rw [next_cons_cons]
    have : lo + 1 = s := by omega
    simp only [this, if_true]
    exact Chain.nil _
  | succ k ih =>
    have e : row lo (k + 1 + 1) (y :: ys) = (lo :: y :: ys) :: row (lo + 1) (k + 1) (y :: ys) := by
      simp [row, ints]
    rw [e]
    apply Chain.cons
    rw [next_cons_cons]
    have : ¬ (lo + 1 = s) := by omega
    simp only [this, if_false, ht]
    exact ih (lo + 1) (by omega)

theorem lift_chain (m s : Int) (ms ss : Pos) (k : Nat) (hk : m + (k + 1 : Nat) = s)
    {a e : Pos} {L : List Pos} (h : Chain (fun c => next c ms ss) a L e)
    (hL : ∀ t ∈ L, carry t ms ss = t ∧ t ≠ []) :
    Chain (fun c => next c (m :: ms) (s :: ss)) (m :: a) (L.flatMap (row m (k + 1))) (m :: e) := by
  induction h with
  | nil e => simpa using Chain.nil (m :: e)
  | @cons a L e _ ih =>
    rw [List.flatMap_cons]
    have ha := hL a (by simp)
    cases a with
    | nil => simp at ha
    | cons y ys =>
      exact (row_chain m s ms ss y ys ha.1 k m hk).append (ih (fun t ht => hL t (by simp [ht])))

theorem endInit_cons_cons (m m1 s s1 : Int) (ms ss : Pos) :
    endInit (m :: m1 :: ms) (s :: s1 :: ss) = m :: endInit (m1 :: ms) (s1 :: ss) := by
  simp [endInit]

/-- the carry-propagating successor walks through the box in its order and arrives at the end sentinel -/
theorem box_chain {mn sp : Pos} (hl : mn.length = sp.length) (hne : mn ≠ []) (h : minLessSup mn sp = true) :
    Chain (fun c => next c mn sp) mn (box mn sp) (endInit mn sp) := by
  induction mn generalizing sp with
  | nil => simp at hne
  | cons m ms ih =>
    cases sp with
    | nil => simp at hl
    | cons s ss =>
      have hl' : ms.length = ss.length := by simpa using hl
      rw [minLessSup_cons] at h
      simp only [Bool.and_eq_true, decide_eq_true_eq] at h
      obtain ⟨k, hk⟩ : ∃ k : Nat, (s - m).toNat = k + 1 := ⟨(s - m).toNat - 1, by omega⟩
      have hks : m + (k + 1 : Nat) = s := by omega
      cases ms with
      | nil =>
        cases ss with
        | cons _ _ => simp at hl'
        | nil =>
          simp only [box, List.flatMap_cons, List.flatMap_nil, List.append_nil, endInit]
          have := row1_chain [m] [s] (s - m).toNat m
          have e : m + ((s - m).toNat : Int) = s := by omega
          rw [e] at this
          exact this
      | cons m1 ms' =>
        cases ss with
        | nil => simp at hl'
        | cons s1 ss' =>
          rw [endInit_cons_cons]
          simp only [box]
          rw [hk]
          have ihc := ih (sp := s1 :: ss') hl' (by simp) h.2
          refine lift_chain m s (m1 :: ms') (s1 :: ss') k hks ihc ?_
          intro t ht
          have hb := (mem_box hl' t).mp ht
          refine ⟨carry_of_inBox hb, ?_⟩
          intro h0
          subst h0
          simp [InBox] at hb

theorem iterate_of_chain (mn sp stop : Pos) {a : Pos} {L : List Pos}
    (h : Chain (fun c => next c mn sp) a L stop) (hs : stop ∉ L) (fuel : Nat) (hf : L.length < fuel) :
    iterate mn sp stop fuel a = .ok L := by
  induction h generalizing fuel with
  | nil e =>
    cases fuel with
    | zero => simp at hf
    | succ f => simp [iterate]
  | @cons a L e _ ih =>
    cases fuel with
    | zero => simp at hf
    | succ f =>
      have hne : (a == e) = false := by
        simp only [beq_eq_false_iff_ne, ne_eq]
        intro h; subst h; simp at hs
      have hrec := ih (fun hm => hs (by simp [hm])) f (by simpa using hf)
      simp only [iterate, hne, hrec]
      rfl

theorem endInit_not_inBox {mn sp : Pos} (hl : mn.length = sp.length) (hne : mn ≠ []) : ¬ InBox mn sp (endInit mn sp) := by
  induction mn generalizing sp with
  | nil => simp at hne
  | cons m ms ih =>
    cases sp with
    | nil => simp at hl
    | cons s ss =>
      have hl' : ms.length = ss.length := by simpa using hl
      cases ms with
      | nil =>
        cases ss with
        | cons _ _ => simp at hl'
        | nil => simp [endInit, InBox]
      | cons m1 ms' =>
        cases ss with
        | nil => simp at hl'
        | cons s1 ss' =>
          rw [endInit_cons_cons]
          simp only [InBox]
          intro h
          exact ih (sp := s1 :: ss') hl' (by simp) h.2.2

theorem prod_rangeDim {mn sp : Pos} (hl : mn.length = sp.length) (h : minLessSup mn sp = true) :
    prod (List.zipWith (fun m s => s - m) mn sp) = (count mn sp : Int) := by
  induction mn generalizing sp with
  | nil => cases sp <;> simp [prod, count]
  | cons m ms ih =>
    cases sp with
    | nil => simp at hl
    | cons s ss =>
      rw [minLessSup_cons] at h
      simp only [Bool.and_eq_true, decide_eq_true_eq] at h
      simp only [List.zipWith_cons_cons, prod, count, ih (by simpa using hl) h.2, Int.natCast_mul]
      congr 1
      omega

theorem prod_zeros_cons (x : Int) (xs : List Int) : prod ((x :: xs).map fun _ => (0 : Int)) = 0 := by
  simp [prod]

theorem count_eq_zero {mn sp : Pos} (hl : mn.length = sp.length) (h : minLessSup mn sp = false) : count mn sp = 0 := by
  rw [← length_box hl, box_eq_nil hl h]; rfl

/-- `range_size` is the number of positions of the box -/
theorem rangeSize_eq_count {mn sp : Pos} (hl : mn.length = sp.length) (hne : mn ≠ []) :
    rangeSize mn sp = (count mn sp : Int) := by
  unfold rangeSize rangeDim
  rw [contents_eq_prod]
  cases h : minLessSup mn sp
  · simp only [Bool.false_eq_true, if_false, count_eq_zero hl h]
    cases mn with
    | nil => simp at hne
    | cons m ms => rw [prod_zeros_cons]; rfl
  · simp only [if_true]
    exact prod_rangeDim hl h

/-- iterating the position range terminates and yields the specification box -/
theorem posRange_eq_box {mn sp : Pos} (hl : mn.length = sp.length) (hne : mn ≠ []) :
    posRange mn sp = .ok (box mn sp) := by
  unfold posRange endPos
  have hfuel : (rangeSize mn sp).toNat = (box mn sp).length := by
    rw [rangeSize_eq_count hl hne, length_box hl]; simp
  cases h : minLessSup mn sp
  · simp only [Bool.false_eq_true, if_false, box_eq_nil hl h]
    simp [iterate]
  · simp only [if_true]
    apply iterate_of_chain mn sp _ (box_chain hl hne h)
    · intro hm
      exact endInit_not_inBox hl hne ((mem_box hl _).mp hm)
    · omega

end Fcppt.C08
