import FcpptProofs.C13.Sets
set_option linter.unusedSimpArgs false
/-!
Helper lemmas for C13: `bit_strings` enumerates the 0/1 vectors in binary counting order
(component 0 fastest), `List.mapM` of total functions, lexicographic comparison.
-/
namespace Fcppt.C13
variable {n : Nat}

theorem mapM_ok {α β : Type} (f : α → M β) (g : α → β) (l : List α) (h : ∀ x ∈ l, f x = .ok (g x)) :
    l.mapM f = .ok (l.map g) := by
  induction l with
  | nil => rfl
  | cons x xs ih =>
    rw [List.mapM_cons, h x (by simp), ih (fun y hy => h y (by simp [hy]))]
    rfl

/-- the `j`-th bit string: component `i` is bit `i` of `j` -/
def bitVec (n j : Nat) : Vec n := Vector.ofFn fun i => if j.testBit i then 1 else 0

theorem bitStringsAux_eq (k : Nat) (hk : k ≤ n) (v : Vec n) :
    bitStringsAux k v =
      (List.range (2 ^ k)).map fun j => Vector.ofFn fun i : Fin n => if i.val < k then (if j.testBit i then 1 else 0) else v[i] := by
  induction k generalizing v with
  | zero =>
    simp only [bitStringsAux, Nat.pow_zero, List.range_one, List.map_cons, List.map_nil, Nat.not_lt_zero, if_false]
    congr 1
    apply vec_ext
    intro i
    simp
  | succ k ih =>
    have hkn : k < n := hk
    rw [bitStringsAux, ih (Nat.le_of_lt hkn), ih (Nat.le_of_lt hkn), Nat.pow_succ, Nat.mul_two, List.range_add, List.map_append,
      List.map_map]
    congr 1
    · apply List.map_congr_left
      intro j hj
      have hj : j < 2 ^ k := by simpa using hj
      apply vec_ext
      intro i
      simp only [Fin.getElem_fin, Vector.getElem_ofFn, Vector.getElem_setIfInBounds]
      by_cases h1 : i.val < k
      · simp [h1, Nat.lt_succ_of_lt h1]
      · by_cases h2 : i.val = k
        · have : j.testBit k = false := Nat.testBit_lt_two_pow hj
          simp [h2, this]
        · have h3 : ¬ i.val < k + 1 := by omega
          have h4 : ¬ k = i.val := by omega
          simp [h1, h3, h4]
    · apply List.map_congr_left
      intro j hj
      have hj : j < 2 ^ k := by simpa using hj
      apply vec_ext
      intro i
      simp only [Fin.getElem_fin, Vector.getElem_ofFn, Vector.getElem_setIfInBounds, Function.comp]
      by_cases h1 : i.val < k
      · simp [h1, Nat.lt_succ_of_lt h1, Nat.testBit_two_pow_add_gt h1]
      · by_cases h2 : i.val = k
        · have : (2 ^ k + j).testBit k = true := by
            rw [Nat.testBit_two_pow_add_eq, Nat.testBit_lt_two_pow hj]; rfl
          simp [h2, this]
        · have h3 : ¬ i.val < k + 1 := by omega
          have h4 : ¬ k = i.val := by omega
          simp [h1, h3, h4]

/-- `bit_strings<T,N>()` is the list of all 0/1 vectors, the `j`-th one spelling `j` in binary
    with component 0 as the least significant digit. -/
theorem bitStrings_eq (n : Nat) : bitStrings n = (List.range (2 ^ n)).map (bitVec n) := by
  rw [bitStrings, bitStringsAux_eq n (Nat.le_refl n)]
  apply List.map_congr_left
  intro j _
  apply vec_ext
  intro i
  simp [bitVec]

/-- every choice of bits below `n` is the binary expansion of some `j < 2^n` -/
theorem exists_testBit (f : Nat → Bool) (n : Nat) : ∃ j, j < 2 ^ n ∧ ∀ i, i < n → j.testBit i = f i := by
  induction n with
  | zero => exact ⟨0, by simp, fun i hi => absurd hi (Nat.not_lt_zero i)⟩
  | succ n ih =>
    obtain ⟨j, hj, hb⟩ := ih
    cases hf : f n
    · refine ⟨j, by rw [Nat.pow_succ]; omega, fun i hi => ?_⟩
      by_cases h : i = n
      · rw [h, hf]; exact Nat.testBit_lt_two_pow hj
      · exact hb i (by omega)
    · refine ⟨2 ^ n + j, by rw [Nat.pow_succ]; omega, fun i hi => ?_⟩
      by_cases h : i = n
      · rw [h, hf, Nat.testBit_two_pow_add_eq, Nat.testBit_lt_two_pow hj]; rfl
      · rw [Nat.testBit_two_pow_add_gt (by omega)]
        exact hb i (by omega)

/-! ### lexicographic order -/

theorem lexLt_irrefl (l : List Int) : lexLt l l = false := by
  induction l with
  | nil => rfl
  | cons x xs ih => simp [lexLt, ih]

theorem lexLt_asymm : ∀ (a b : List Int), lexLt a b = true → lexLt b a = false
  | [], [], h => by simp [lexLt] at h
  | [], _ :: _, _ => by simp [lexLt]
  | _ :: _, [], h => by simp [lexLt] at h
  | x :: xs, y :: ys, h => by
    simp only [lexLt] at h ⊢
    by_cases h1 : x < y
    · have : ¬ y < x := by omega
      simp [this, h1]
    · by_cases h2 : y < x
      · simp [h1, h2] at h
      · simp only [h1, h2, if_false] at h ⊢
        exact lexLt_asymm xs ys h

theorem lexLt_trans : ∀ (a b c : List Int), lexLt a b = true → lexLt b c = true → lexLt a c = true
  | [], _, [], _, h2 => by cases ‹List Int› <;> simp [lexLt] at h2
  | [], _, _ :: _, _, _ => by simp [lexLt]
  | _ :: _, [], _, h1, _ => by simp [lexLt] at h1
  | _ :: _, _ :: _, [], _, h2 => by simp [lexLt] at h2
  | x :: xs, y :: ys, z :: zs, h1, h2 => by
    simp only [lexLt] at h1 h2 ⊢
    by_cases a1 : x < y
    · by_cases b1 : y < z
      · have : x < z := by omega
        simp [this]
      · by_cases b2 : z < y
        · simp [b1, b2] at h2
        · have : x < z := by omega
          simp [this]
    · by_cases a2 : y < x
      · simp [a1, a2] at h1
      · simp only [a1, a2, if_false] at h1
        by_cases b1 : y < z
        · have : x < z := by omega
          simp [this]
        · by_cases b2 : z < y
          · simp [b1, b2] at h2
          · simp only [b1, b2, if_false] at h2
            have c1 : ¬ x < z := by omega
            have c2 : ¬ z < x := by omega
            simp only [c1, c2, if_false]
            exact lexLt_trans xs ys zs h1 h2

/-- on lists of equal length: neither smaller ⇒ equal -/
theorem lexLt_total : ∀ (a b : List Int), a.length = b.length → lexLt a b = false → lexLt b a = false → a = b
  | [], [], _, _, _ => rfl
  | [], _ :: _, h, _, _ => by simp at h
  | _ :: _, [], h, _, _ => by simp at h
  | x :: xs, y :: ys, h, h1, h2 => by
    simp only [lexLt] at h1 h2
    by_cases a1 : x < y
    · simp [a1] at h1
    · by_cases a2 : y < x
      · simp [a2] at h2
      · simp only [a1, a2, if_false] at h1 h2
        have : x = y := by omega
        have hl : xs.length = ys.length := by simpa using h
        rw [this, lexLt_total xs ys hl h1 h2]

theorem vecEq_iff (a b : Vec n) : vecEq a b = true ↔ a = b := by
  simp only [vecEq, allOf_iff, beq_iff_eq]
  constructor
  · intro h; exact vec_ext h
  · intro h i; rw [h]

/-- `std::pair` `operator<` on two lexicographically ordered components -/
def pairLt (a1 a2 b1 b2 : List Int) : Bool := lexLt a1 b1 || (!lexLt b1 a1 && lexLt a2 b2)

theorem pairLt_irrefl (a1 a2 : List Int) : pairLt a1 a2 a1 a2 = false := by
  simp [pairLt, lexLt_irrefl]

theorem pairLt_asymm (a1 a2 b1 b2 : List Int) (h : pairLt a1 a2 b1 b2 = true) : pairLt b1 b2 a1 a2 = false := by
  unfold pairLt at *
  cases h1 : lexLt a1 b1
  · cases h2 : lexLt b1 a1
    · simp [h1, h2] at h ⊢
      exact lexLt_asymm _ _ h
    · simp [h1, h2] at h
  · simp [h1, lexLt_asymm _ _ h1]

theorem pairLt_trans (a1 a2 b1 b2 c1 c2 : List Int) (l1 : a1.length = b1.length) (l2 : b1.length = c1.length)
    (h1 : pairLt a1 a2 b1 b2 = true) (h2 : pairLt b1 b2 c1 c2 = true) : pairLt a1 a2 c1 c2 = true := by
  unfold pairLt at *
  cases x1 : lexLt a1 b1
  · cases x2 : lexLt b1 a1
    · have e1 : a1 = b1 := lexLt_total _ _ l1 x1 x2
      subst e1
      simp [x1] at h1
      cases y1 : lexLt a1 c1
      · cases y2 : lexLt c1 a1
        · simp [y1, y2] at h2 ⊢
          exact lexLt_trans _ _ _ h1 h2
        · simp [y1, y2] at h2
      · simp
    · simp [x1, x2] at h1
  · cases y1 : lexLt b1 c1
    · cases y2 : lexLt c1 b1
      · have e1 : b1 = c1 := lexLt_total _ _ l2 y1 y2
        subst e1
        simp [x1]
      · simp [y1, y2] at h2
    · simp [lexLt_trans _ _ _ x1 y1]

theorem pairLt_total (a1 a2 b1 b2 : List Int) (l1 : a1.length = b1.length) (l2 : a2.length = b2.length)
    (h1 : pairLt a1 a2 b1 b2 = false) (h2 : pairLt b1 b2 a1 a2 = false) : a1 = b1 ∧ a2 = b2 := by
  unfold pairLt at *
  cases x1 : lexLt a1 b1
  · cases x2 : lexLt b1 a1
    · simp [x1, x2] at h1 h2
      exact ⟨lexLt_total _ _ l1 x1 x2, lexLt_total _ _ l2 h1 h2⟩
    · simp [x2] at h2
  · simp [x1] at h1

/-! ### interval distance on exact integers -/

/-- the control flow of `interval_distance` on ℤ (no overflow, no wrap-around) -/
def idExact (i1 i2 : Int × Int) : Int :=
  let (o, i) := if i1.2 ≤ i2.2 then (i2, i1) else (i1, i2)
  if i.1 ≤ o.1 then o.1 - i.2 else Max.max (i.2 - o.2) (o.1 - i.1)

/-- every difference the function may form is representable -/
def IdGuard (t : Ty) (i1 i2 : Int × Int) : Prop :=
  t.Rep (i1.1 - i2.2) ∧ t.Rep (i2.1 - i1.2) ∧ t.Rep (i2.2 - i1.2) ∧ t.Rep (i1.2 - i2.2) ∧ t.Rep (i1.1 - i2.1) ∧ t.Rep (i2.1 - i1.1)

theorem intervalDistance_exact (t : Ty) (i1 i2 : Int × Int) (g : IdGuard t i1 i2) :
    intervalDistance t i1 i2 = .ok (idExact i1 i2) := by
  obtain ⟨g1, g2, g3, g4, g5, g6⟩ := g
  unfold intervalDistance idExact
  by_cases h : i1.2 ≤ i2.2
  · simp only [h, if_true]
    by_cases h2 : i1.1 ≤ i2.1
    · simp only [h2, if_true]; exact t.norm_ok g2
    · simp only [h2, if_false]
      rw [t.norm_ok g4, t.norm_ok g6]; rfl
  · simp only [h, if_false]
    by_cases h2 : i2.1 ≤ i1.1
    · simp only [h2, if_true]; exact t.norm_ok g1
    · simp only [h2, if_false]
      rw [t.norm_ok g3, t.norm_ok g5]; rfl

end Fcppt.C13
