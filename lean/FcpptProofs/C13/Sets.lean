import FcpptProofs.C13.Lemmas
set_option linter.unusedSimpArgs false
/-!
Helper lemmas for C13: the boolean predicates as index-wise statements, non-emptiness and the
subset relation of half-open boxes in terms of their corners.
-/
namespace Fcppt.C13
variable {n : Nat}

theorem containsPoint_iff (b : Box n) (p : Vec n) :
    containsPoint b p = true ↔ ∀ i : Fin n, b.min[i] ≤ p[i] ∧ p[i] < b.max[i] := by
  simp [containsPoint, allOf_iff]

theorem contains_iff (outer inner : Box n) :
    contains outer inner = true ↔ ∀ i : Fin n, outer.min[i] ≤ inner.min[i] ∧ inner.max[i] ≤ outer.max[i] := by
  simp [contains, allOf_iff]

theorem intersects_iff (a b : Box n) :
    intersects a b = true ↔ ∀ i : Fin n, b.min[i] < a.max[i] ∧ a.min[i] < b.max[i] := by
  simp [intersects, allOf_iff]

theorem intersects_false_iff (a b : Box n) :
    intersects a b = false ↔ ∃ i : Fin n, ¬ (b.min[i] < a.max[i] ∧ a.min[i] < b.max[i]) := by
  rw [← Bool.not_eq_true, intersects_iff]
  simp

/-- a box is non-empty iff `pos < max` in every coordinate -/
theorem nonEmpty_iff (b : Box n) : NonEmpty b ↔ ∀ i : Fin n, b.min[i] < b.max[i] := by
  constructor
  · rintro ⟨p, hp⟩ i
    have := hp i
    simp only [Fin.getElem_fin] at *
    omega
  · intro h
    exact ⟨b.min, fun i => ⟨Int.le_refl _, h i⟩⟩

/-- the point that agrees with `pos` except in coordinate `i`, where it is `max - 1` -/
def farPoint (b : Box n) (i : Fin n) : Vec n := Vector.ofFn fun j => if j = i then b.max[i] - 1 else b.min[j]

theorem farPoint_mem (b : Box n) (h : ∀ i : Fin n, b.min[i] < b.max[i]) (i : Fin n) : Mem b (farPoint b i) := by
  intro j
  have hj := h j
  by_cases hji : j = i
  · subst hji
    simp [farPoint] at *
    omega
  · simp [farPoint, hji] at *
    omega

/-- subset of point sets, for a non-empty inner box, is the corner-wise comparison -/
theorem subset_iff (outer inner : Box n) (hi : NonEmpty inner) :
    Subset inner outer ↔ ∀ i : Fin n, outer.min[i] ≤ inner.min[i] ∧ inner.max[i] ≤ outer.max[i] := by
  have hne := (nonEmpty_iff inner).1 hi
  constructor
  · intro hs i
    have h1 := hs inner.min (fun j => ⟨Int.le_refl _, hne j⟩) i
    have h2 := hs (farPoint inner i) (farPoint_mem inner hne i) i
    simp [farPoint] at h1 h2 ⊢
    omega
  · intro h p hp i
    have := h i
    have := hp i
    simp only [Fin.getElem_fin] at *
    omega

theorem null_eq (t : Ty) (n : Nat) : null t n = .ok ⟨vzero n, vzero n⟩ := by
  unfold null mkPosSize
  rw [Ty.normV_ok t _ (fun i => by simpa using t.rep_zero)]
  have : vadd (vzero n) (vzero n) = vzero n := vec_ext fun i => by simp
  simp [this]
  rfl

theorem not_mem_null (hn : 0 < n) (p : Vec n) : ¬ Mem (⟨vzero n, vzero n⟩ : Box n) p := by
  intro h
  have := h ⟨0, hn⟩
  simp at this
  omega

end Fcppt.C13
