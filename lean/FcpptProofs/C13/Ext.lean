import FcpptProofs.C13.Sets
import FcpptProofs.C13.Arith
set_option linter.unusedSimpArgs false
/-!
Helper lemmas of the extension round: truncating division by 2, `halfV`, `Ty.wrap` on representable values.
-/
namespace Fcppt.C13
variable {n : Nat}

theorem tdiv2_bounds (x : Int) : (0 ≤ x → 0 ≤ Int.tdiv x 2 ∧ Int.tdiv x 2 ≤ x) ∧ (x ≤ 0 → x ≤ Int.tdiv x 2 ∧ Int.tdiv x 2 ≤ 0) := by
  constructor
  · intro h
    rw [Int.tdiv_eq_ediv_of_nonneg h]
    omega
  · intro h
    have e : Int.tdiv x 2 = -((-x) / 2) := by
      have : x = -(-x) := by omega
      rw [this, Int.neg_tdiv, Int.tdiv_eq_ediv_of_nonneg (by omega)]
      simp
    rw [e]
    omega

theorem halfV_ok (t : Ty) (v : Vec n) (h : ∀ i : Fin n, t.Rep v[i]) :
    halfV t v = .ok (Vector.ofFn fun i => Int.tdiv v[i] 2) := by
  unfold halfV
  apply seqFn_ok
  intro i
  have hi := h i
  have hrep : t.Rep (Int.tdiv v[i] 2) := by
    obtain ⟨b1, b2⟩ := tdiv2_bounds v[i]
    by_cases h0 : 0 ≤ v[i]
    · exact t.rep_between t.rep_zero hi (b1 h0).1 (b1 h0).2
    · exact t.rep_between hi t.rep_zero (b2 (by omega)).1 (b2 (by omega)).2
  simp only [Fin.getElem_fin] at hrep
  simp [Ty.div, t.norm_ok hrep, Except.map, pure, Except.pure, bind, Except.bind]

theorem Ty.wrap_of_rep (t : Ty) (hb : 0 < t.bits) {x : Int} (h : t.Rep x) : t.wrap x = x := by
  unfold Ty.wrap
  cases hs : t.signed
  · simp only [Bool.false_eq_true, if_false]; exact t.emod_of_rep hs h
  · simp only [if_true]
    obtain ⟨h1, h2⟩ := h
    simp only [Ty.lo, Ty.hi, hs, if_true] at h1 h2
    have e : (2 : Int) ^ t.bits = 2 * 2 ^ (t.bits - 1) := by
      have : t.bits = (t.bits - 1) + 1 := by omega
      rw [this, Int.pow_succ]; simp; omega
    have hp := two_pow_pos (t.bits - 1)
    rw [Int.emod_eq_of_lt (by omega) (by omega)]
    omega

end Fcppt.C13
