import FcpptModel.Spec.C13
set_option linter.unusedSimpArgs false
/-!
Helper lemmas for C13: `allOf` is a universal quantifier over indices, `initMax` is read back
index-wise, the arithmetic of the coordinate type in its three regimes (representable / signed
overflow / unsigned wrap-around).
-/
namespace Fcppt.C13
variable {n : Nat}

instance {ε α : Type} [DecidableEq ε] [DecidableEq α] : DecidableEq (Except ε α)
  | .ok a, .ok b => if h : a = b then isTrue (by rw [h]) else isFalse (fun e => h (Except.ok.inj e))
  | .error a, .error b => if h : a = b then isTrue (by rw [h]) else isFalse (fun e => h (Except.error.inj e))
  | .ok _, .error _ => isFalse (fun e => by cases e)
  | .error _, .ok _ => isFalse (fun e => by cases e)

instance (b : Box n) (p : Vec n) : Decidable (Mem b p) := by unfold Mem; infer_instance
instance (b : Box n) (p : Vec n) : Decidable (MemClosed b p) := by unfold MemClosed; infer_instance
instance (t : Ty) (b : Box n) : Decidable (b.Rep t) := by unfold Box.Rep; infer_instance

theorem allOf_iff (f : Fin n → Bool) : allOf f = true ↔ ∀ i, f i = true := by
  simp [allOf, List.all_eq_true, List.mem_finRange]

theorem allOf_false_iff (f : Fin n → Bool) : allOf f = false ↔ ∃ i, f i = false := by
  rw [← Bool.not_eq_true, allOf_iff]
  simp

@[simp] theorem initMax_min (f : Fin n → Int × Int) (i : Nat) (h : i < n) : (initMax f).min[i] = (f ⟨i, h⟩).1 := by
  simp [initMax, mkMinMax]

@[simp] theorem initMax_max (f : Fin n → Int × Int) (i : Nat) (h : i < n) : (initMax f).max[i] = (f ⟨i, h⟩).2 := by
  simp [initMax, mkMinMax]

@[simp] theorem vadd_get (a b : Vec n) (i : Nat) (h : i < n) : (vadd a b)[i] = a[i] + b[i] := by simp [vadd]
@[simp] theorem vsub_get (a b : Vec n) (i : Nat) (h : i < n) : (vsub a b)[i] = a[i] - b[i] := by simp [vsub]
@[simp] theorem vmul_get (a b : Vec n) (i : Nat) (h : i < n) : (vmul a b)[i] = a[i] * b[i] := by simp [vmul]
@[simp] theorem vzero_get (i : Nat) (h : i < n) : (vzero n)[i] = 0 := by simp [vzero]

theorem vec_ext {a b : Vec n} (h : ∀ i : Fin n, a[i] = b[i]) : a = b :=
  Vector.ext fun i hi => h ⟨i, hi⟩

theorem box_ext {a b : Box n} (h1 : ∀ i : Fin n, a.min[i] = b.min[i]) (h2 : ∀ i : Fin n, a.max[i] = b.max[i]) : a = b := by
  cases a; cases b
  simp only [Box.mk.injEq]
  exact ⟨vec_ext h1, vec_ext h2⟩

/-! ### the coordinate type -/

theorem two_pow_pos (k : Nat) : (0 : Int) < 2 ^ k := Int.pow_pos (by decide)

theorem Ty.lo_le_zero (t : Ty) : t.lo ≤ 0 := by
  unfold Ty.lo; split
  · have := two_pow_pos (t.bits - 1); omega
  · omega

theorem Ty.zero_le_hi (t : Ty) : 0 ≤ t.hi := by
  unfold Ty.hi; split
  · have := two_pow_pos (t.bits - 1); omega
  · have := two_pow_pos t.bits; omega

theorem Ty.rep_zero (t : Ty) : t.Rep 0 := ⟨t.lo_le_zero, t.zero_le_hi⟩

/-- the values of the type form an interval -/
theorem Ty.rep_between (t : Ty) {a b x : Int} (ha : t.Rep a) (hb : t.Rep b) (h1 : a ≤ x) (h2 : x ≤ b) : t.Rep x :=
  ⟨Int.le_trans ha.1 h1, Int.le_trans h2 hb.2⟩

theorem Ty.emod_of_rep (t : Ty) (hs : t.signed = false) {x : Int} (h : t.Rep x) : x % 2 ^ t.bits = x := by
  have h1 : t.lo = 0 := by simp [Ty.lo, hs]
  have h2 : t.hi = 2 ^ t.bits - 1 := by simp [Ty.hi, hs]
  obtain ⟨a, b⟩ := h
  apply Int.emod_eq_of_lt <;> omega

theorem Ty.norm_ok (t : Ty) {x : Int} (h : t.Rep x) : t.norm x = .ok x := by
  unfold Ty.norm
  cases hs : t.signed
  · simp [t.emod_of_rep hs h]
  · simp [h]

theorem Ty.norm_signed_err (t : Ty) (hs : t.signed = true) {x : Int} (h : ¬ t.Rep x) : t.norm x = .error .signedOverflow := by
  simp [Ty.norm, hs, h]

theorem Ty.norm_unsigned (t : Ty) (hs : t.signed = false) (x : Int) : t.norm x = .ok (x % 2 ^ t.bits) := by
  simp [Ty.norm, hs]

theorem Ty.normV_ok (t : Ty) (v : Vec n) (h : ∀ i : Fin n, t.Rep v[i]) : t.normV v = .ok v := by
  unfold Ty.normV
  cases hs : t.signed
  · simp only [Bool.false_eq_true, if_false]
    congr 1
    apply vec_ext
    intro i
    have := t.emod_of_rep hs (h i)
    simpa using this
  · have h' : ∀ i : Fin n, t.Rep v[i.val] := fun i => h i
    simp [h']

theorem Ty.normV_signed_err (t : Ty) (hs : t.signed = true) (v : Vec n) (h : ¬ ∀ i : Fin n, t.Rep v[i]) :
    t.normV v = .error .signedOverflow := by
  have h' : ¬ ∀ i : Fin n, t.Rep v[i.val] := fun h2 => h fun i => h2 i
  simp only [Ty.normV, hs, if_true, Fin.getElem_fin, h', if_false]

theorem Ty.normV_unsigned (t : Ty) (hs : t.signed = false) (v : Vec n) :
    t.normV v = .ok (v.map (· % 2 ^ t.bits)) := by
  simp [Ty.normV, hs]

/-- `seqFn` of total components -/
theorem seqFn_ok (f : Fin n → M Int) (g : Fin n → Int) (h : ∀ i, f i = .ok (g i)) : seqFn f = .ok (Vector.ofFn g) := by
  have hf : f = fun i => .ok (g i) := funext h
  subst hf
  have : (List.finRange n).findSome? (fun _ => (none : Option Fault)) = none := by
    rw [List.findSome?_eq_none_iff]; intros; rfl
  simp [seqFn, this]

end Fcppt.C13
