import FcpptProofs.C12.Refine
/-! The documented column formula; character-level parsers; end of input and failing streams. -/
namespace Fcppt.C12

/-- the documented column formula: with `j` the (1-based) index of the last newline among the first
    `i` characters (`j = 0` if there is none), the column is `i - j + 1`. -/
theorem column_doc_aux (t : List Ch) : ∀ i, i ≤ t.length →
    ∃ j, j ≤ i ∧ column t i = i - j + 1 ∧ (j = 0 ∨ t[j - 1]? = some nl) ∧
      ∀ m, j ≤ m → m < i → t[m]? ≠ some nl := by
  intro i
  induction i with
  | zero => intro _; exact ⟨0, Nat.le_refl _, by simp [column_zero], Or.inl rfl, by omega⟩
  | succ i ih =>
    intro hi
    have hlt : i < t.length := by omega
    have hget : t[i]? = some t[i] := List.getElem?_eq_getElem hlt
    by_cases hc : t[i] = nl
    · rw [hc] at hget
      refine ⟨i + 1, Nat.le_refl _, by simp [column_succ_nl hget], Or.inr (by simpa using hget), by omega⟩
    · obtain ⟨j, hj, hcol, hnl, hno⟩ := ih (by omega)
      refine ⟨j, by omega, by rw [column_succ_ne hget hc, hcol]; omega, hnl, ?_⟩
      intro m hm hm'
      rcases Nat.lt_or_ge m i with h | h
      · exact hno m hm h
      · have : m = i := by omega
        subst this
        rw [hget]; simpa using hc

/-- character-level parser on a live plain stream: end of input ⇒ "EOF" failure; matching
    character ⇒ success, index advanced; other character ⇒ "Expected" failure whose location is
    that of the index *after* the offending character. -/
theorem charPred_spec {t : List Ch} {x : HState} {a : AState} (r : Rel t none x a) (d : a.dead = false)
    (pred : Ch → Bool) :
    match t[a.i]? with
    | none => (x.s.charPred pred).2 = .ok (.fail .eof)
    | some c =>
      ((x.s.charPred pred).2 = .ok (if pred c then .ok c else .fail (.expected (some (locAt t (a.i + 1))))))
      ∧ (x.s.charPred pred).1.is.idx = a.i + 1 ∧ (x.s.charPred pred).1.loc = locAt t (a.i + 1) := by
  obtain ⟨⟨⟨buf, idx, eof, fail, bad, fa, reads⟩, loc⟩, saved⟩ := x
  obtain ⟨i, rd, dead, asaved⟩ := a
  obtain ⟨h1, h2, h3, h4, h5, h6, h7, h8, h9, h10, h11, h12⟩ := r
  simp only at h1 h2 h3 h4 h5 h6 h7 h8 h9 h10 h11 h12 d
  subst h1 h2 h3 h5 h6 h9 h10 d
  cases hget : buf[idx]? with
  | none =>
    cases eof <;> cases fail <;>
      simp [Stream.charPred, Stream.getChar, IStream.get, IStream.sentry, IStream.good, IStream.sbumpc, hget]
  | some c =>
    have hlt : idx < buf.length := by
      rcases Nat.lt_or_ge idx buf.length with h | h
      · exact h
      · simp [List.getElem?_eq_none_iff.mpr h] at hget
    have he : eof = false := by
      cases eof
      · rfl
      · have := h8 rfl rfl; omega
    have hf : fail = false := by
      cases fail
      · rfl
      · have := h7 rfl rfl; simp [he] at this
    subst he hf
    by_cases hc : c = nl
    · subst hc
      cases hp : pred nl <;>
        simp [Stream.charPred, Stream.getChar, Stream.getPosition, IStream.get, IStream.tellg, IStream.sentry,
          IStream.good, IStream.sbumpc, hget, hp, locAt_succ_nl hget]
    · cases hp : pred c <;>
        simp [Stream.charPred, Stream.getChar, Stream.getPosition, IStream.get, IStream.tellg, IStream.sentry,
          IStream.good, IStream.sbumpc, hget, hp, hc, locAt_succ_ne hget hc]

/-- at or past the end of the buffer no state of the flags yields a character -/
theorem getChar_eof (s : Stream) (h : s.is.buf.length ≤ s.is.idx) (c : Ch) : s.getChar.2 ≠ .ok (some c) := by
  obtain ⟨⟨buf, idx, eof, fail, bad, fa, reads⟩, loc⟩ := s
  have hget : buf[idx]? = none := List.getElem?_eq_none_iff.mpr h
  cases bad <;> cases eof <;> cases fail <;>
    simp [Stream.getChar, IStream.get, IStream.sentry, IStream.good, IStream.sbumpc, hget]

/-- a returned character is the buffer's character at the index, the stream was good, is still
    not bad, and the read budget was not exhausted -/
theorem getChar_some {s s' : Stream} {c : Ch} (h : s.getChar = (s', .ok (some c))) :
    s.is.good = true ∧ s.is.buf[s.is.idx]? = some c ∧ s'.is.idx = s.is.idx + 1 ∧ s'.is.bad = false ∧
      s'.is.buf = s.is.buf ∧ ∀ k, s.is.failAfter = some k → s.is.reads < k := by
  obtain ⟨⟨buf, idx, eof, fail, bad, fa, reads⟩, loc⟩ := s
  cases hget : buf[idx]? with
  | none =>
    cases bad <;> cases eof <;> cases fail <;>
      simp [Stream.getChar, IStream.get, IStream.sentry, IStream.good, IStream.sbumpc, hget] at h
  | some c' =>
    cases fa with
    | none =>
      cases bad <;> cases eof <;> cases fail <;>
        simp [Stream.getChar, IStream.get, IStream.sentry, IStream.good, IStream.sbumpc, hget] at h
      by_cases hc : c' = nl <;> simp [hc] at h <;> obtain ⟨rfl, rfl⟩ := h <;> simp [IStream.good, hc]
    | some k =>
      cases bad <;> cases eof <;> cases fail <;>
        simp [Stream.getChar, IStream.get, IStream.sentry, IStream.good, IStream.sbumpc, hget] at h
      by_cases hk : k ≤ reads
      · simp [hk] at h
      · by_cases hc : c' = nl <;> simp [hk, hc] at h <;> obtain ⟨rfl, rfl⟩ := h <;> simp [IStream.good, hc] <;> omega

end Fcppt.C12
