import FcpptProofs.C12.Refine
/-! Consequences of the simulation: reachable states, exact rewind, congruence of histories. -/
namespace Fcppt.C12

theorem run_append (h : HState) (a b : List Op) :
    run h (a ++ b) = ((run (run h a).1 b).1, (run h a).2 ++ (run (run h a).1 b).2) := by
  induction a generalizing h with
  | nil => simp [run]
  | cons op a ih => simp [run, ih]

theorem arun_append (t : List Ch) (k : Option Nat) (s : AState) (a b : List Op) :
    arun t k s (a ++ b) = ((arun t k (arun t k s a).1 b).1, (arun t k s a).2 ++ (arun t k (arun t k s a).1 b).2) := by
  induction a generalizing s with
  | nil => simp [arun]
  | cons op a ih => simp [arun, ih]

/-- a state reached by some history on text `t` (plain stream) -/
def Reach (t : List Ch) (h : HState) : Prop := ∃ ops, h = (run (HState.open t none) ops).1

theorem Reach.rel {t : List Ch} {h : HState} (r : Reach t h) : ∃ a, Rel t none h a ∧ a.dead = false := by
  obtain ⟨ops, rfl⟩ := r
  refine ⟨_, (run_refines_rel ops (rel_open t none)).1, ?_⟩
  -- the abstract plain stream never dies
  have : ∀ (ops : List Op) (a : AState), a.dead = false → (arun t none a ops).1.dead = false := by
    intro ops
    induction ops with
    | nil => intro a h; exact h
    | cons op ops ih =>
      intro a h
      simp only [arun]
      apply ih
      cases op with
      | get => simp only [astep, h]; cases t[a.i]? <;> simp [h]
      | pos => simp [astep, h]
      | set j => simp only [astep]; cases a.saved[j]? <;> simp [h]
  exact this ops _ rfl

/-- what a successful `pos` step does -/
theorem step_pos_ok {h : HState} {p : Pos} (e : (step h .pos).2 = .pos p) :
    h.s.getPosition = ((step h .pos).1.s, .ok p) ∧ (step h .pos).1.saved = h.saved ++ [p] := by
  simp only [step] at e ⊢
  split at e <;> simp_all

theorem rewind_state {t : List Ch} {x1 x2 : HState} {a1 a2 : AState} (r1 : Rel t none x1 a1) (r2 : Rel t none x2 a2)
    (d1 : a1.dead = false) (d2 : a2.dead = false) :
    ∃ s1 p, x1.s.getPosition = (s1, .ok p) ∧ p = posAt t a1.i ∧ x2.s.setPosition p = (s1, .ok ()) := by
  obtain ⟨⟨⟨buf, idx, eof, fail, bad, fa, reads⟩, loc⟩, saved⟩ := x1
  obtain ⟨i, rd, dead, asaved⟩ := a1
  obtain ⟨h1, h2, h3, h4, h5, h6, h7, h8, h9, h10, h11, h12⟩ := r1
  simp only at h1 h2 h3 h4 h5 h6 h7 h8 h9 h10 h11 h12 d1
  obtain ⟨⟨⟨buf', idx', eof', fail', bad', fa', reads'⟩, loc'⟩, saved'⟩ := x2
  obtain ⟨i', rd', dead', asaved'⟩ := a2
  obtain ⟨g1, g2, g3, g4, g5, g6, g7, g8, g9, g10, g11, g12⟩ := r2
  simp only at g1 g2 g3 g4 g5 g6 g7 g8 g9 g10 g11 g12 d2
  subst h1 h2 h3 h5 h6 h9 h10 g1 g2 g3 g5 g6 g9 g10 d1 d2
  have e1 := h12 trivial
  have e2 := g12 trivial
  subst e1 e2
  refine ⟨⟨⟨buf', idx, false, false, false, none, 0⟩, locAt buf' idx⟩, posAt buf' idx, ?_, rfl, ?_⟩
  · cases eof
    · have hf : fail = false := by
        cases fail
        · rfl
        · simpa using h7 rfl rfl
      subst hf
      simp [Stream.getPosition, IStream.tellg, IStream.sentry, IStream.good, posAt]
    · simp [Stream.getPosition, IStream.tellg, IStream.sentry, IStream.good, IStream.clear, posAt]
  · simp [Stream.setPosition, IStream.seekg, IStream.sentry, IStream.good, IStream.clear, posAt, h4]


/-- two history states that agree on the stream and on the first `m` saved positions -/
def Agree (m : Nat) (x y : HState) : Prop :=
  x.s = y.s ∧ m ≤ x.saved.length ∧ m ≤ y.saved.length ∧ ∀ i, i < m → x.saved[i]? = y.saved[i]?

def SetsBelow (m : Nat) (ops : List Op) : Prop := ∀ op ∈ ops, ∀ j, op = .set j → j < m

theorem step_agree {m : Nat} {x y : HState} (ag : Agree m x y) (op : Op) (hb : ∀ j, op = .set j → j < m) :
    Agree m (step x op).1 (step y op).1 ∧ (step x op).2 = (step y op).2 := by
  obtain ⟨es, lx, ly, eq⟩ := ag
  cases op with
  | get =>
    simp only [step, es]
    split <;> exact ⟨⟨rfl, lx, ly, eq⟩, rfl⟩
  | pos =>
    simp only [step, es]
    split
    · refine ⟨⟨rfl, ?_, ?_, ?_⟩, rfl⟩
      · simp; omega
      · simp; omega
      · intro i hi
        rw [List.getElem?_append_left (by omega), List.getElem?_append_left (by omega)]
        exact eq i hi
    · exact ⟨⟨rfl, lx, ly, eq⟩, rfl⟩
  | set j =>
    have hj := hb j rfl
    simp only [step, ← eq j hj, es]
    split
    · exact ⟨⟨es, lx, ly, eq⟩, rfl⟩
    · split <;> exact ⟨⟨rfl, lx, ly, eq⟩, rfl⟩

theorem run_agree {m : Nat} (ops : List Op) : ∀ {x y : HState}, Agree m x y → SetsBelow m ops →
    (run x ops).2 = (run y ops).2 := by
  induction ops with
  | nil => intros; rfl
  | cons op ops ih =>
    intro x y ag sb
    obtain ⟨ag1, e1⟩ := step_agree ag op (fun j hj => sb op (by simp) j hj)
    have := ih ag1 (fun o ho => sb o (by simp [ho]))
    simp only [run, e1, this]

theorem run_saved_prefix (ops : List Op) : ∀ (x : HState), ∃ ext, (run x ops).1.saved = x.saved ++ ext := by
  induction ops with
  | nil => intro x; exact ⟨[], by simp [run]⟩
  | cons op ops ih =>
    intro x
    obtain ⟨e2, h2⟩ := ih (step x op).1
    have h1 : ∃ e1, (step x op).1.saved = x.saved ++ e1 := by
      cases op with
      | get => simp only [step]; split <;> exact ⟨[], by simp⟩
      | pos => simp only [step]; split
               · exact ⟨_, rfl⟩
               · exact ⟨[], by simp⟩
      | set j => simp only [step]; split
                 · exact ⟨[], by simp⟩
                 · split <;> exact ⟨[], by simp⟩
    obtain ⟨e1, h1⟩ := h1
    exact ⟨e1 ++ e2, by simp only [run]; rw [h2, h1, List.append_assoc]⟩



theorem run_single (x : HState) (op : Op) : run x [op] = ((step x op).1, [(step x op).2]) := by
  simp [run]

theorem reach_run {t : List Ch} {x : HState} (r : Reach t x) (ops : List Op) : Reach t (run x ops).1 := by
  obtain ⟨o, rfl⟩ := r
  exact ⟨o ++ ops, by rw [run_append]⟩

theorem rewind_hist (t : List Ch) (ops1 ops2 ops3 : List Op) :
    let x1 := (run (HState.open t none) (ops1 ++ [.pos])).1
    let x2 := (run x1 (ops2 ++ [.set (x1.saved.length - 1)])).1
    SetsBelow x1.saved.length ops3 → (run x2 ops3).2 = (run x1 ops3).2 := by
  intro x1 x2 sb
  -- the state before the position is taken
  have r0 : Reach t (run (HState.open t none) ops1).1 := ⟨ops1, rfl⟩
  generalize hx0 : (run (HState.open t none) ops1).1 = x0 at r0
  have hx1 : x1 = (step x0 .pos).1 := by
    show (run (HState.open t none) (ops1 ++ [.pos])).1 = _
    rw [run_append, hx0, run_single]
  obtain ⟨a0, rel0, d0⟩ := r0.rel
  have hobs : (step x0 .pos).2 = .pos (posAt t a0.i) := by
    rw [(step_refines rel0 .pos).2]; simp [astep, d0]
  obtain ⟨hgp, hsaved⟩ := step_pos_ok hobs
  rw [← hx1] at hgp hsaved
  -- the state before the rewind
  have r1 : Reach t x1 := by rw [hx1]; exact reach_run r0 [.pos] |> (by simpa [run_single] using ·)
  have r2 : Reach t (run x1 ops2).1 := reach_run r1 ops2
  generalize hy : (run x1 ops2).1 = y at r2
  obtain ⟨ay, rely, dy⟩ := r2.rel
  obtain ⟨ext, hext⟩ := run_saved_prefix ops2 x1
  rw [hy] at hext
  obtain ⟨s1, p, g1, g2, g3⟩ := rewind_state rel0 rely d0 dy
  rw [hgp] at g1
  obtain ⟨rfl, rfl⟩ : x1.s = s1 ∧ posAt t a0.i = p := by simpa using g1
  have hlen : x1.saved.length - 1 = x0.saved.length := by simp [hsaved]
  have hslot : y.saved[x1.saved.length - 1]? = some (posAt t a0.i) := by
    rw [hlen, hext, hsaved]; simp
  have hx2 : x2 = { y with s := x1.s } := by
    show (run x1 (ops2 ++ [.set (x1.saved.length - 1)])).1 = _
    rw [run_append, hy, run_single]
    simp only [step, hslot, g3]
  have ag : Agree x1.saved.length x2 x1 := by
    rw [hx2]
    refine ⟨rfl, ?_, Nat.le_refl _, ?_⟩
    · simp [hext]
    · intro i hi
      simp only [hext]
      exact List.getElem?_append_left hi
  exact run_agree ops3 ag sb


end Fcppt.C12
