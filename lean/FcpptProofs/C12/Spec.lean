import FcpptModel.Spec.C12
/-! Lemmas about the declarative `line` / `column`: how they move when the index advances by one. -/
namespace Fcppt.C12

theorem take_succ_of_get {t : List Ch} {i : Nat} {c : Ch} (h : t[i]? = some c) :
    t.take (i + 1) = t.take i ++ [c] := by
  rw [List.take_add_one, h]; rfl

theorem line_zero (t : List Ch) : line t 0 = 1 := by simp [line]

theorem column_zero (t : List Ch) : column t 0 = 1 := by simp [column]

theorem locAt_zero (t : List Ch) : locAt t 0 = ⟨1, 1⟩ := by simp [locAt, line_zero, column_zero]

theorem line_succ_nl {t : List Ch} {i : Nat} (h : t[i]? = some nl) : line t (i + 1) = line t i + 1 := by
  simp [line, take_succ_of_get h, List.count_append]; omega

theorem line_succ_ne {t : List Ch} {i : Nat} {c : Ch} (h : t[i]? = some c) (hc : c ≠ nl) :
    line t (i + 1) = line t i := by
  simp [line, take_succ_of_get h, List.count_append, hc]

theorem column_succ_nl {t : List Ch} {i : Nat} (h : t[i]? = some nl) : column t (i + 1) = 1 := by
  simp [column, take_succ_of_get h]

theorem column_succ_ne {t : List Ch} {i : Nat} {c : Ch} (h : t[i]? = some c) (hc : c ≠ nl) :
    column t (i + 1) = column t i + 1 := by
  simp [column, take_succ_of_get h, hc]; omega

theorem locAt_succ_nl {t : List Ch} {i : Nat} (h : t[i]? = some nl) :
    locAt t (i + 1) = ⟨(locAt t i).line + 1, 1⟩ := by
  simp [locAt, line_succ_nl h, column_succ_nl h]

theorem locAt_succ_ne {t : List Ch} {i : Nat} {c : Ch} (h : t[i]? = some c) (hc : c ≠ nl) :
    locAt t (i + 1) = ⟨(locAt t i).line, (locAt t i).col + 1⟩ := by
  simp [locAt, line_succ_ne h hc, column_succ_ne h hc]

end Fcppt.C12
