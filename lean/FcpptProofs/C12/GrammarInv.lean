import FcpptProofs.C12.Grammar
import FcpptProofs.C12.GrammarTerm
/-! The location invariant through the combinators for EVERY stream, failing ones included, and
    whatever the outcome (result, stream exception, divergence). -/
namespace Fcppt.C12

/-- the stream is in simulation with some abstract state of the text `t` with read budget `k`
    (alive or dead): buffer = `t`, index inside, stored location = true line/column of the index -/
def Good (t : List Ch) (k : Option Nat) (s : Stream) : Prop :=
  ∃ i rd dead, Rel t k ⟨s, []⟩ ⟨i, rd, dead, []⟩

/-- a position that denotes an index of the text with its true location -/
def ValidPos (t : List Ch) (p : Pos) : Prop := ∃ j, j ≤ t.length ∧ p = posAt t j

theorem Rel.forget {t : List Ch} {k : Option Nat} {s : Stream} {sv : List Pos} {a : AState}
    (r : Rel t k ⟨s, sv⟩ a) : Rel t k ⟨s, []⟩ ⟨a.i, a.reads, a.dead, []⟩ := by
  obtain ⟨h1, h2, h3, h4, h5, h6, h7, h8, h9, h10, h11, h12⟩ := r
  constructor <;> simp_all

theorem Good.loc {t : List Ch} {k : Option Nat} {s : Stream} (h : Good t k s) :
    s.is.buf = t ∧ s.is.idx ≤ t.length ∧ s.loc = locAt t s.is.idx := by
  obtain ⟨i, rd, dead, r⟩ := h
  exact ⟨r.buf, by rw [r.idx]; exact r.le, by rw [r.idx]; exact r.loc⟩

theorem good_open (t : List Ch) (k : Option Nat) : Good t k (Stream.open t k) := ⟨0, 0, false, rel_open t k⟩

theorem good_of_at {t : List Ch} {s : Stream} {i : Nat} (h : At t s i) : Good t none s := ⟨i, 0, false, h⟩

theorem step_get_s (h : HState) : (step h .get).1.s = h.s.getChar.1 := by
  simp only [step]
  rcases h.s.getChar with ⟨s', r⟩
  cases r <;> rfl

theorem step_pos_s (h : HState) : (step h .pos).1.s = h.s.getPosition.1 := by
  simp only [step]
  rcases h.s.getPosition with ⟨s', r⟩
  cases r <;> rfl

theorem step_set_s (s : Stream) (p : Pos) : (step ⟨s, [p]⟩ (.set 0)).1.s = (s.setPosition p).1 := by
  simp only [step, List.getElem?_cons_zero]
  rcases s.setPosition p with ⟨s', r⟩
  cases r <;> rfl

theorem good_get {t : List Ch} {k : Option Nat} {s : Stream} (h : Good t k s) : Good t k s.getChar.1 := by
  obtain ⟨i, rd, dead, r⟩ := h
  have := (step_get r).1.forget
  rw [step_get_s] at this
  exact ⟨_, _, _, this⟩

theorem good_pos {t : List Ch} {k : Option Nat} {s : Stream} (h : Good t k s) :
    Good t k s.getPosition.1 ∧ ∀ p, s.getPosition.2 = .ok p → ValidPos t p := by
  obtain ⟨i, rd, dead, r⟩ := h
  obtain ⟨r', e⟩ := step_pos r
  constructor
  · have := r'.forget
    rw [step_pos_s] at this
    exact ⟨_, _, _, this⟩
  · intro p hp
    rcases hg : s.getPosition with ⟨s', res⟩
    rw [hg] at hp
    simp only at hp
    subst hp
    simp only [step, hg, astep] at e
    cases dead with
    | true => simp at e
    | false =>
      simp only [Bool.false_eq_true, ↓reduceIte, Obs.pos.injEq] at e
      exact ⟨i, r.le, e⟩

theorem good_set {t : List Ch} {k : Option Nat} {s : Stream} {p : Pos} (h : Good t k s) (hp : ValidPos t p) :
    Good t k (s.setPosition p).1 := by
  obtain ⟨i, rd, dead, r⟩ := h
  obtain ⟨j, hj, rfl⟩ := hp
  have r1 : Rel t k ⟨s, [posAt t j]⟩ ⟨i, rd, dead, [j]⟩ := by
    obtain ⟨h1, h2, h3, h4, h5, h6, h7, h8, h9, h10, h11, h12⟩ := r
    constructor <;> simp_all
  have := (step_set r1 0).1.forget
  rw [step_set_s] at this
  exact ⟨_, _, _, this⟩

/-- the log of `x'` extends the one of `x` by calls that left a `Good` stream -/
def ExtG (t : List Ch) (k : Option Nat) (x x' : TS) : Prop :=
  ∃ new, x'.log = new ++ x.log ∧ ∀ e ∈ new, Good t k e.s

theorem ExtG.refl (t : List Ch) (k : Option Nat) (x : TS) : ExtG t k x x := ⟨[], rfl, by simp⟩

theorem ExtG.trans {t : List Ch} {k : Option Nat} {x y z : TS} (a : ExtG t k x y) (b : ExtG t k y z) :
    ExtG t k x z := by
  obtain ⟨n1, e1, g1⟩ := a
  obtain ⟨n2, e2, g2⟩ := b
  refine ⟨n2 ++ n1, by rw [e2, e1, List.append_assoc], ?_⟩
  intro e he
  rcases List.mem_append.mp he with h | h
  · exact g2 e h
  · exact g1 e h

/-- the outcome of something started in `x`: the stream is still `Good`, and so it was after every call -/
def Safe (t : List Ch) (k : Option Nat) (x x' : TS) : Prop := Good t k x'.s ∧ ExtG t k x x'

theorem Safe.refl {t : List Ch} {k : Option Nat} {x : TS} (h : Good t k x.s) : Safe t k x x := ⟨h, ExtG.refl t k x⟩

theorem Safe.trans {t : List Ch} {k : Option Nat} {x y z : TS} (a : Safe t k x y) (b : Safe t k y z) :
    Safe t k x z := ⟨b.1, a.2.trans b.2⟩

theorem safe_get {t : List Ch} {k : Option Nat} {x : TS} (h : Good t k x.s) : Safe t k x x.getChar.1 := by
  have g := good_get h
  exact ⟨g, [_], rfl, by intro e he; simp only [List.mem_singleton] at he; subst he; exact g⟩

theorem safe_pos {t : List Ch} {k : Option Nat} {x : TS} (h : Good t k x.s) :
    Safe t k x x.getPosition.1 ∧ ∀ p, x.getPosition.2 = .ok p → ValidPos t p := by
  obtain ⟨g, v⟩ := good_pos h
  exact ⟨⟨g, [_], rfl, by intro e he; simp only [List.mem_singleton] at he; subst he; exact g⟩, v⟩

theorem safe_set {t : List Ch} {k : Option Nat} {x : TS} {p : Pos} (h : Good t k x.s) (hp : ValidPos t p) :
    Safe t k x (x.setPosition p).1 := by
  have g := good_set h hp
  exact ⟨g, [_], rfl, by intro e he; simp only [List.mem_singleton] at he; subst he; exact g⟩

theorem safe_anyChar {t : List Ch} {k : Option Nat} {x : TS} (h : Good t k x.s) : Safe t k x x.anyChar.1 := by
  have := safe_get h
  simp only [TS.anyChar]
  rcases hg : x.getChar with ⟨x1, r⟩
  rw [hg] at this
  cases r with
  | error f => exact this
  | ok c => cases c <;> exact this

theorem safe_charPred {t : List Ch} {k : Option Nat} (pred : Ch → Bool) {x : TS} (h : Good t k x.s) :
    Safe t k x (x.charPred pred).1 := by
  have h1 := safe_anyChar h
  simp only [TS.charPred]
  rcases hg : x.anyChar with ⟨x1, r⟩
  rw [hg] at h1
  cases r with
  | error f => exact h1
  | ok c =>
    cases c with
    | error e => exact h1
    | ok c =>
      simp only
      split
      · exact h1
      · have h2 := (safe_pos h1.1).1
        rcases hp : x1.getPosition with ⟨x2, r2⟩
        rw [hp] at h2
        cases r2 <;> exact h1.trans h2

theorem safe_strLoop {t : List Ch} {k : Option Nat} (s : List Ch) : ∀ {x : TS}, Good t k x.s →
    Safe t k x (strLoop s x).1 := by
  induction s with
  | nil => intro x h; exact Safe.refl h
  | cons e rest ih =>
    intro x h
    have h1 := safe_anyChar h
    simp only [strLoop]
    rcases hg : x.anyChar with ⟨x1, r⟩
    rw [hg] at h1
    cases r with
    | error f => exact h1
    | ok c =>
      cases c with
      | error e => exact h1
      | ok c =>
        simp only
        split
        · exact h1.trans (ih h1.1)
        · exact h1

theorem safe_andThen {t : List Ch} {k : Option Nat} {x : TS} {o : Out} {g : TS → Out}
    (h : Safe t k x o.1) (hg : ∀ x', Good t k x'.s → Safe t k x' (g x').1) : Safe t k x (o.andThen g).1 := by
  obtain ⟨x1, r⟩ := o
  cases r with
  | error f => exact h
  | ok r =>
    cases r with
    | error e => exact h
    | ok u => cases u; exact h.trans (hg x1 h.1)

theorem safe_repLoop {t : List Ch} {k : Option Nat} {body : TS → Out}
    (hb : ∀ x, Good t k x.s → Safe t k x (body x).1) :
    ∀ (n : Nat) (x : TS) (pos : Pos), Good t k x.s → ValidPos t pos →
      Safe t k x (repLoop body n x pos).1 ∧ ∀ q e, (repLoop body n x pos).2 = .ok (q, e) → ValidPos t q := by
  intro n
  induction n with
  | zero => intro x pos h _; exact ⟨Safe.refl h, by simp [repLoop]⟩
  | succ n ih =>
    intro x pos h hv
    have h1 := hb x h
    simp only [repLoop]
    rcases hbo : body x with ⟨x1, r⟩
    rw [hbo] at h1
    cases r with
    | error f => exact ⟨h1, by simp⟩
    | ok r =>
      cases r with
      | error e => exact ⟨h1, by intro q e' he; simp only [Except.ok.injEq, Prod.mk.injEq] at he; rw [← he.1]; exact hv⟩
      | ok u =>
        cases u
        obtain ⟨h2, v2⟩ := safe_pos h1.1
        simp only
        rcases hp : x1.getPosition with ⟨x2, r2⟩
        rw [hp] at h2 v2
        cases r2 with
        | error f => exact ⟨h1.trans h2, by simp⟩
        | ok p =>
          obtain ⟨h3, v3⟩ := ih x2 p h2.1 (v2 p rfl)
          exact ⟨(h1.trans h2).trans h3, v3⟩

theorem safe_repCore {t : List Ch} {k : Option Nat} {body : TS → Out}
    (hb : ∀ x, Good t k x.s → Safe t k x (body x).1) {x : TS} (h : Good t k x.s) :
    Safe t k x (repCore body x).1 := by
  obtain ⟨h1, v1⟩ := safe_pos h
  simp only [repCore]
  rcases hp : x.getPosition with ⟨x1, r1⟩
  rw [hp] at h1 v1
  cases r1 with
  | error f => exact h1
  | ok pos =>
    obtain ⟨h2, v2⟩ := safe_repLoop hb (x1.s.is.buf.length + 1) x1 pos h1.1 (v1 pos rfl)
    simp only
    rcases hl : repLoop body (x1.s.is.buf.length + 1) x1 pos with ⟨x2, r2⟩
    rw [hl] at h2 v2
    cases r2 with
    | error f => exact h1.trans h2
    | ok qe =>
      obtain ⟨q, e⟩ := qe
      have h3 := safe_set h2.1 (v2 q e rfl)
      simp only
      rcases hs : x2.setPosition q with ⟨x3, r3⟩
      rw [hs] at h3
      cases r3 <;> exact (h1.trans h2).trans h3

theorem safe_skip {t : List Ch} {k : Option Nat} (sk : Sk) : ∀ (x : TS), Good t k x.s → Safe t k x (sk.skip x).1 := by
  induction sk with
  | eps => intro x h; exact Safe.refl h
  | lit c => intro x h; exact safe_charPred _ h
  | cset cs => intro x h; exact safe_charPred _ h
  | seq l r ihl ihr =>
    intro x h
    have := safe_andThen (o := l.skip x) (g := r.skip) (ihl x h) ihr
    simpa only [Sk.skip, Out.andThen] using this
  | rep s ih => intro x h; exact safe_repCore ih h

theorem safe_elemThenSkip {t : List Ch} {k : Option Nat} {sk : Sk} {elem : TS → Out}
    (he : ∀ x, Good t k x.s → Safe t k x (elem x).1) :
    ∀ x, Good t k x.s → Safe t k x (elemThenSkip elem sk x).1 :=
  fun x h => safe_andThen (he x h) (safe_skip sk)

/-- get_position; `inner`; set_position of that position on some branches: the shape shared by
    `alternative`, `optional` and `not_` -/
theorem safe_parse {t : List Ch} {k : Option Nat} (sk : Sk) (p : P) :
    ∀ (x : TS), Good t k x.s → Safe t k x (p.parse sk x).1 := by
  induction p with
  | any =>
    intro x h
    have := safe_anyChar h
    simp only [P.parse]
    rcases hg : x.anyChar with ⟨x1, r⟩
    rw [hg] at this
    cases r with
    | error f => exact this
    | ok c => cases c <;> exact this
  | lit c => intro x h; exact safe_charPred _ h
  | cset cs => intro x h; exact safe_charPred _ h
  | str s => intro x h; exact safe_strLoop s h
  | seq l r ihl ihr =>
    intro x h
    exact safe_andThen (safe_andThen (ihl x h) (safe_skip sk)) ihr
  | alt l r ihl ihr =>
    intro x h
    obtain ⟨h1, v1⟩ := safe_pos h
    simp only [P.parse]
    rcases hp : x.getPosition with ⟨x1, r1⟩
    rw [hp] at h1 v1
    cases r1 with
    | error f => exact h1
    | ok old =>
      have h2 := ihl x1 h1.1
      simp only
      rcases hl : l.parse sk x1 with ⟨x2, r2⟩
      rw [hl] at h2
      cases r2 with
      | error f => exact h1.trans h2
      | ok r2 =>
        cases r2 with
        | ok u => cases u; exact h1.trans h2
        | error le =>
          have h3 := safe_set h2.1 (v1 old rfl)
          simp only
          rcases hs : x2.setPosition old with ⟨x3, r3⟩
          rw [hs] at h3
          have h03 := (h1.trans h2).trans h3
          cases r3 with
          | error f => exact h03
          | ok u =>
            simp only
            split
            · exact h03
            · have h4 := ihr x3 h3.1
              rcases hr : r.parse sk x3 with ⟨x4, r4⟩
              rw [hr] at h4
              cases r4 with
              | error f => exact h03.trans h4
              | ok r4 =>
                cases r4 with
                | ok u => cases u; exact h03.trans h4
                | error re =>
                  simp only
                  split <;> exact h03.trans h4
  | opt p ih =>
    intro x h
    obtain ⟨h1, v1⟩ := safe_pos h
    simp only [P.parse]
    rcases hp : x.getPosition with ⟨x1, r1⟩
    rw [hp] at h1 v1
    cases r1 with
    | error f => exact h1
    | ok pos =>
      have h2 := ih x1 h1.1
      simp only
      rcases hl : p.parse sk x1 with ⟨x2, r2⟩
      rw [hl] at h2
      cases r2 with
      | error f => exact h1.trans h2
      | ok r2 =>
        cases r2 with
        | ok u => cases u; exact h1.trans h2
        | error e =>
          have h3 := safe_set h2.1 (v1 pos rfl)
          simp only
          rcases hs : x2.setPosition pos with ⟨x3, r3⟩
          rw [hs] at h3
          cases r3 <;> exact (h1.trans h2).trans h3
  | rep p ih => intro x h; exact safe_repCore (safe_elemThenSkip ih) h
  | plus p ih =>
    intro x h
    exact safe_andThen (safe_andThen (ih x h) (safe_skip sk)) (fun x' h' => safe_repCore (safe_elemThenSkip ih) h')
  | not p ih =>
    intro x h
    obtain ⟨h1, v1⟩ := safe_pos h
    simp only [P.parse]
    rcases hp : x.getPosition with ⟨x1, r1⟩
    rw [hp] at h1 v1
    cases r1 with
    | error f => exact h1
    | ok pos =>
      have h2 := ih x1 h1.1
      simp only
      rcases hl : p.parse sk x1 with ⟨x2, r2⟩
      rw [hl] at h2
      cases r2 with
      | error f => exact h1.trans h2
      | ok r2 =>
        have h3 := safe_set h2.1 (v1 pos rfl)
        simp only
        rcases hs : x2.setPosition pos with ⟨x3, r3⟩
        rw [hs] at h3
        cases r3 with
        | error f => exact (h1.trans h2).trans h3
        | ok u => cases r2 <;> exact (h1.trans h2).trans h3
  | fatal p ih =>
    intro x h
    have := ih x h
    simp only [P.parse]
    rcases hl : p.parse sk x with ⟨x2, r2⟩
    rw [hl] at this
    cases r2 with
    | error f => exact this
    | ok r2 => cases r2 <;> exact this

/-! ### histories that interleave stream operations and whole parses -/

theorem phrase_fst (p : P) (sk : Sk) (x : TS) : (TS.phrase p sk x).1 = ((sk.skip x).andThen (p.parse sk)).1 := by
  simp only [TS.phrase]
  rcases (sk.skip x).andThen (p.parse sk) with ⟨y, r⟩
  cases r with
  | ok r => rfl
  | error f => cases f <;> rfl

theorem safe_phrase {t : List Ch} {k : Option Nat} (sk : Sk) (p : P) {x : TS} (h : Good t k x.s) :
    Safe t k x (TS.phrase p sk x).1 := by
  rw [phrase_fst]
  exact safe_andThen (o := sk.skip x) (g := p.parse sk) (safe_skip sk x h) (safe_parse sk p)

/-- the invariant of a history state: the stream is `Good` and every saved position denotes an
    index of the text with its true line and column -/
def GoodH (t : List Ch) (k : Option Nat) (h : HState) : Prop :=
  Good t k h.s ∧ ∀ p ∈ h.saved, ValidPos t p

theorem goodH_open (t : List Ch) (k : Option Nat) : GoodH t k (HState.open t k) :=
  ⟨good_open t k, by simp [HState.open]⟩

theorem goodH_step {t : List Ch} {k : Option Nat} {h : HState} (g : GoodH t k h) (o : Op) :
    GoodH t k (step h o).1 := by
  obtain ⟨g1, g2⟩ := g
  cases o with
  | get =>
    refine ⟨by rw [step_get_s]; exact good_get g1, ?_⟩
    simp only [step]
    rcases h.s.getChar with ⟨s', r⟩
    cases r <;> exact g2
  | pos =>
    obtain ⟨a, v⟩ := good_pos g1
    refine ⟨by rw [step_pos_s]; exact a, ?_⟩
    simp only [step]
    rcases hg : h.s.getPosition with ⟨s', r⟩
    rw [hg] at v
    cases r with
    | error f => exact g2
    | ok p =>
      intro q hq
      rcases List.mem_append.mp hq with hq | hq
      · exact g2 q hq
      · simp only [List.mem_singleton] at hq
        subst hq
        exact v q rfl
  | set j =>
    simp only [step]
    cases hj : h.saved[j]? with
    | none => exact ⟨g1, g2⟩
    | some p =>
      have hv := g2 p (List.mem_of_getElem? hj)
      have := good_set g1 hv
      simp only
      rcases hs : h.s.setPosition p with ⟨s', r⟩
      rw [hs] at this
      cases r <;> exact ⟨this, g2⟩

theorem goodH_xrun {t : List Ch} {k : Option Nat} (xs : List XOp) : ∀ {h : HState}, GoodH t k h →
    GoodH t k (xrun h xs) := by
  induction xs with
  | nil => intro h g; exact g
  | cons o os ih =>
    intro h g
    apply ih
    cases o with
    | op o => exact goodH_step g o
    | parse sk p => exact ⟨(safe_phrase sk p (x := ⟨h.s, []⟩) g.1).1, g.2⟩

/-! ### plain streams: the live invariant `At` through interleaved histories of well-formed parses -/

def XOp.wf : XOp → Bool
  | .op _ => true
  | .parse sk p => sk.wf && p.wf

/-- live plain stream at some index, every saved position valid -/
def LiveH (t : List Ch) (h : HState) : Prop := (∃ i, At t h.s i) ∧ ∀ p ∈ h.saved, ValidPos t p

theorem liveH_open (t : List Ch) : LiveH t (HState.open t none) := ⟨⟨0, at_open t⟩, by simp [HState.open]⟩

theorem live_at {t : List Ch} {h : HState} (g : LiveH t h) : At t h.s h.s.is.idx := by
  obtain ⟨⟨i, a⟩, _⟩ := g
  rw [a.idx]; exact a

theorem liveH_step {t : List Ch} {h : HState} (g : LiveH t h) (o : Op) : LiveH t (step h o).1 := by
  obtain ⟨⟨i, a⟩, g2⟩ := g
  cases o with
  | get =>
    obtain ⟨s', e, a'⟩ := at_get a
    simp only [step, e]
    exact ⟨⟨_, a'⟩, g2⟩
  | pos =>
    obtain ⟨s', e, a'⟩ := at_pos a
    simp only [step, e]
    refine ⟨⟨_, a'⟩, ?_⟩
    intro q hq
    rcases List.mem_append.mp hq with hq | hq
    · exact g2 q hq
    · simp only [List.mem_singleton] at hq
      subst hq
      exact ⟨i, a.le, rfl⟩
  | set j =>
    simp only [step]
    cases hj : h.saved[j]? with
    | none => exact ⟨⟨i, a⟩, g2⟩
    | some p =>
      obtain ⟨j', hj', rfl⟩ := g2 p (List.mem_of_getElem? hj)
      obtain ⟨s', e, a'⟩ := at_set a hj'
      simp only [e]
      exact ⟨⟨_, a'⟩, g2⟩

theorem liveH_xrun {t : List Ch} (xs : List XOp) : ∀ {h : HState}, LiveH t h → (∀ x ∈ xs, x.wf = true) →
    LiveH t (xrun h xs) := by
  induction xs with
  | nil => intro h g _; exact g
  | cons o os ih =>
    intro h g hw
    apply ih _ (fun x hx => hw x (by simp [hx]))
    cases o with
    | op o => exact liveH_step g o
    | parse sk p =>
      have hwf := hw (.parse sk p) (by simp)
      simp only [XOp.wf, Bool.and_eq_true] at hwf
      obtain ⟨⟨i, a⟩, g2⟩ := g
      obtain ⟨r, j, e, _, _, _⟩ := aphrase_prog t sk hwf.1 p hwf.2 i a.le
      have := agrees_andThen (skip_agrees sk ⟨h.s, []⟩ i a) (parse_agrees (t := t) sk p)
      have e' : (sk.askip t i).andThen (p.aparse t sk) = .ok (r, j) := e
      rw [e'] at this
      obtain ⟨_, h2, _⟩ := this
      refine ⟨⟨j, ?_⟩, g2⟩
      show At t (TS.phrase p sk ⟨h.s, []⟩).1.s j
      rw [phrase_fst]
      exact h2

end Fcppt.C12
