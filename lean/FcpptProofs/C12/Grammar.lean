import FcpptProofs.C12.Rewind
import FcpptModel.Spec.C12Grammar
/-! The backtracking combinators over the stream model refine the PEG semantics on an index. -/
namespace Fcppt.C12

/-- a live plain stream over text `t` standing at index `i`: buffer, index, state bits and the stored
    location are as the simulation relation says (in particular `loc = locAt t i`) -/
def At (t : List Ch) (s : Stream) (i : Nat) : Prop := Rel t none ⟨s, []⟩ ⟨i, 0, false, []⟩

theorem At.le {t : List Ch} {s : Stream} {i : Nat} (h : At t s i) : i ≤ t.length := Rel.le h
theorem At.loc {t : List Ch} {s : Stream} {i : Nat} (h : At t s i) : s.loc = locAt t i := Rel.loc h
theorem At.idx {t : List Ch} {s : Stream} {i : Nat} (h : At t s i) : s.is.idx = i := Rel.idx h
theorem At.buf {t : List Ch} {s : Stream} {i : Nat} (h : At t s i) : s.is.buf = t := Rel.buf h

theorem at_open (t : List Ch) : At t (Stream.open t none) 0 := rel_open t none

/-- a reachable plain stream is `At` its index -/
theorem Reach.at {t : List Ch} {h : HState} (r : Reach t h) : At t h.s h.s.is.idx := by
  obtain ⟨a, rel, d⟩ := r.rel
  obtain ⟨h1, h2, h3, h4, h5, h6, h7, h8, h9, h10, h11, h12⟩ := rel
  have hr : a.reads = 0 := h12 rfl
  constructor <;> simp_all

theorem at_get {t : List Ch} {s : Stream} {i : Nat} (h : At t s i) :
    ∃ s', s.getChar = (s', .ok t[i]?) ∧ At t s' (if i < t.length then i + 1 else i) := by
  obtain ⟨r, e⟩ := step_get h
  rcases hg : s.getChar with ⟨s', res⟩
  simp only [step, hg] at r e
  cases hc : t[i]? with
  | none =>
    have hi : ¬ i < t.length := by
      have := List.getElem?_eq_none_iff.mp hc; omega
    simp only [astep, hc, Bool.false_eq_true, ↓reduceIte] at r e
    cases res with
    | error f => simp at e
    | ok c =>
      simp only [Obs.ch.injEq] at e
      subst e
      exact ⟨s', rfl, by rw [if_neg hi]; exact r⟩
  | some c =>
    have hi : i < t.length := by
      rcases Nat.lt_or_ge i t.length with h | h
      · exact h
      · simp [List.getElem?_eq_none_iff.mpr h] at hc
    simp only [astep, hc, Bool.false_eq_true, ↓reduceIte] at r e
    cases res with
    | error f => simp at e
    | ok c' =>
      simp only [Obs.ch.injEq] at e
      subst e
      exact ⟨s', rfl, by rw [if_pos hi]; exact r⟩

theorem at_pos {t : List Ch} {s : Stream} {i : Nat} (h : At t s i) :
    ∃ s', s.getPosition = (s', .ok (posAt t i)) ∧ At t s' i := by
  obtain ⟨r, e⟩ := step_pos h
  rcases hg : s.getPosition with ⟨s', res⟩
  simp only [step, hg] at r e
  simp only [astep, Bool.false_eq_true, ↓reduceIte] at r e
  cases res with
  | error f => simp at e
  | ok p =>
    simp only [Obs.pos.injEq] at e
    subst e
    refine ⟨s', rfl, ?_⟩
    obtain ⟨h1, h2, h3, h4, h5, h6, h7, h8, h9, h10, h11, h12⟩ := r
    constructor <;> simp_all

theorem at_set {t : List Ch} {s : Stream} {i j : Nat} (h : At t s i) (hj : j ≤ t.length) :
    ∃ s', s.setPosition (posAt t j) = (s', .ok ()) ∧ At t s' j := by
  -- the same stream with `posAt t j` in slot 0
  have h' : Rel t none ⟨s, [posAt t j]⟩ ⟨i, 0, false, [j]⟩ := by
    obtain ⟨h1, h2, h3, h4, h5, h6, h7, h8, h9, h10, h11, h12⟩ := h
    constructor <;> simp_all
  obtain ⟨r, e⟩ := step_set h' 0
  rcases hg : s.setPosition (posAt t j) with ⟨s', res⟩
  simp only [step, List.getElem?_cons_zero, hg] at r e
  simp only [astep, List.getElem?_cons_zero, Bool.false_eq_true, ↓reduceIte] at r e
  cases res with
  | error f => simp at e
  | ok u =>
    refine ⟨s', rfl, ?_⟩
    obtain ⟨h1, h2, h3, h4, h5, h6, h7, h8, h9, h10, h11, h12⟩ := r
    constructor <;> simp_all

/-- `set_position` of the position of index `i` puts ANY live stream into exactly the state that
    `get_position` left when that position was taken -/
theorem at_set_exact {t : List Ch} {s1 s2 : Stream} {i i2 : Nat} (h1 : At t s1 i) (h2 : At t s2 i2) :
    (s2.setPosition (posAt t i)).1 = s1.getPosition.1 := by
  obtain ⟨s, p, g1, g2, g3⟩ := rewind_state h1 h2 rfl rfl
  simp only at g2
  subst g2
  rw [g1, g3]

/-! ### the traced stream -/

/-- `x'` continues `x`: its log extends the log of `x` by calls that each left a live stream whose
    stored location is the true one (`At`) -/
def Ext (t : List Ch) (x x' : TS) : Prop :=
  ∃ new, x'.log = new ++ x.log ∧ ∀ e ∈ new, ∃ j, At t e.s j

theorem Ext.refl (t : List Ch) (x : TS) : Ext t x x := ⟨[], rfl, by simp⟩

theorem Ext.trans {t : List Ch} {x y z : TS} (a : Ext t x y) (b : Ext t y z) : Ext t x z := by
  obtain ⟨n1, e1, g1⟩ := a
  obtain ⟨n2, e2, g2⟩ := b
  refine ⟨n2 ++ n1, by rw [e2, e1, List.append_assoc], ?_⟩
  intro e he
  rcases List.mem_append.mp he with h | h
  · exact g2 e h
  · exact g1 e h

theorem ts_get {t : List Ch} {x : TS} {i : Nat} (h : At t x.s i) :
    ∃ x', x.getChar = (x', .ok t[i]?) ∧ At t x'.s (if i < t.length then i + 1 else i) ∧ Ext t x x' := by
  obtain ⟨s', e, a⟩ := at_get h
  refine ⟨x.getChar.1, by simp only [TS.getChar, e], by simpa only [TS.getChar, e] using a, ⟨[_], by simp only [TS.getChar, e]; rfl, ?_⟩⟩
  intro ev hev
  simp only [List.mem_singleton] at hev
  subst hev
  exact ⟨_, a⟩

theorem ts_pos {t : List Ch} {x : TS} {i : Nat} (h : At t x.s i) :
    ∃ x', x.getPosition = (x', .ok (posAt t i)) ∧ At t x'.s i ∧ Ext t x x' := by
  obtain ⟨s', e, a⟩ := at_pos h
  refine ⟨x.getPosition.1, by simp only [TS.getPosition, e], by simpa only [TS.getPosition, e] using a, ⟨[_], by simp only [TS.getPosition, e]; rfl, ?_⟩⟩
  intro ev hev
  simp only [List.mem_singleton] at hev
  subst hev
  exact ⟨_, a⟩

theorem ts_set {t : List Ch} {x : TS} {i j : Nat} (h : At t x.s i) (hj : j ≤ t.length) :
    ∃ x', x.setPosition (posAt t j) = (x', .ok ()) ∧ At t x'.s j ∧ Ext t x x' := by
  obtain ⟨s', e, a⟩ := at_set h hj
  refine ⟨(x.setPosition (posAt t j)).1, by simp only [TS.setPosition, e], by simpa only [TS.setPosition, e] using a, ⟨[_], by simp only [TS.setPosition, e]; rfl, ?_⟩⟩
  intro ev hev
  simp only [List.mem_singleton] at hev
  subst hev
  exact ⟨_, a⟩

/-! ### agreement of a concrete outcome with an abstract one -/

/-- the outcome `o` of a parser started in `x` is the abstract outcome: same result, the stream is
    live at the abstract index with the true location stored, and so it was after every call -/
def Agrees (t : List Ch) (x : TS) (o : Out) : AOut → Prop
  | .error f => o.2 = .error f
  | .ok (r, j) => o.2 = .ok r ∧ At t o.1.s j ∧ Ext t x o.1

theorem Agrees.ext {t : List Ch} {x y : TS} {o : Out} {a : AOut} (e : Ext t x y) (h : Agrees t y o a) :
    Agrees t x o a := by
  cases a with
  | error f => exact h
  | ok rj => exact ⟨h.1, h.2.1, e.trans h.2.2⟩

theorem agrees_andThen {t : List Ch} {x : TS} {o : Out} {a : AOut} {g : TS → Out} {ga : Nat → AOut}
    (h : Agrees t x o a) (hg : ∀ x' j, At t x'.s j → Agrees t x' (g x') (ga j)) :
    Agrees t x (o.andThen g) (a.andThen ga) := by
  obtain ⟨x1, r1⟩ := o
  cases a with
  | error f =>
    simp only [Agrees] at h
    subst h
    simp [Out.andThen, AOut.andThen, Agrees]
  | ok rj =>
    obtain ⟨r, j⟩ := rj
    obtain ⟨h1, h2, h3⟩ := h
    simp only at h1 h2 h3
    subst h1
    cases r with
    | error e => simpa [Out.andThen, AOut.andThen, Agrees] using ⟨h2, h3⟩
    | ok u =>
      cases u
      simp only [Out.andThen, AOut.andThen]
      exact (hg x1 j h2).ext h3

/-! ### character-level parsers -/

theorem anyChar_spec {t : List Ch} {x : TS} {i : Nat} (h : At t x.s i) :
    ∃ x', x.anyChar = (x', .ok (match t[i]? with | none => .error (.plain .eof) | some c => .ok c)) ∧
      At t x'.s (if i < t.length then i + 1 else i) ∧ Ext t x x' := by
  obtain ⟨x', e, a, ex⟩ := ts_get h
  refine ⟨x', ?_, a, ex⟩
  simp only [TS.anyChar, e]
  cases t[i]? <;> rfl

theorem lt_of_get {t : List Ch} {i : Nat} {c : Ch} (h : t[i]? = some c) : i < t.length := by
  rcases Nat.lt_or_ge i t.length with h' | h'
  · exact h'
  · simp [List.getElem?_eq_none_iff.mpr h'] at h

theorem not_lt_of_get {t : List Ch} {i : Nat} (h : t[i]? = none) : ¬ i < t.length := by
  have := List.getElem?_eq_none_iff.mp h; omega

theorem charPred_agrees {t : List Ch} (pred : Ch → Bool) {x : TS} {i : Nat} (h : At t x.s i) :
    Agrees t x (x.charPred pred) (.ok (acharPred t pred i)) := by
  obtain ⟨x1, e1, a1, ex1⟩ := anyChar_spec h
  cases hc : t[i]? with
  | none =>
    simp only [hc] at e1
    simp only [not_lt_of_get hc, ↓reduceIte] at a1
    simp only [TS.charPred, e1, acharPred, hc]
    exact ⟨rfl, a1, ex1⟩
  | some c =>
    simp only [hc] at e1
    simp only [lt_of_get hc, ↓reduceIte] at a1
    cases hp : pred c with
    | true =>
      simp only [TS.charPred, e1, acharPred, hc, hp, ↓reduceIte]
      exact ⟨rfl, a1, ex1⟩
    | false =>
      obtain ⟨x2, e2, a2, ex2⟩ := ts_pos a1
      simp only [TS.charPred, e1, acharPred, hc, hp, Bool.false_eq_true, ↓reduceIte, e2, posAt]
      exact ⟨rfl, a2, ex1.trans ex2⟩

theorem strLoop_agrees {t : List Ch} (str : List Ch) : ∀ {x : TS} {i : Nat}, At t x.s i →
    Agrees t x (strLoop str x) (.ok (astr t str i)) := by
  induction str with
  | nil => intro x i h; exact ⟨rfl, h, Ext.refl t x⟩
  | cons e rest ih =>
    intro x i h
    obtain ⟨x1, e1, a1, ex1⟩ := anyChar_spec h
    cases hc : t[i]? with
    | none =>
      simp only [hc] at e1
      simp only [not_lt_of_get hc, ↓reduceIte] at a1
      simp only [strLoop, e1, astr, hc]
      exact ⟨rfl, a1, ex1⟩
    | some c =>
      simp only [hc] at e1
      simp only [lt_of_get hc, ↓reduceIte] at a1
      by_cases hce : c = e
      · simp only [strLoop, e1, astr, hc, hce, ↓reduceIte]
        exact (ih a1).ext ex1
      · simp only [strLoop, e1, astr, hc, hce, ↓reduceIte]
        exact ⟨rfl, a1, ex1⟩

/-! ### repetition -/

theorem repLoop_agrees {t : List Ch} {body : TS → Out} {abody : Nat → AOut}
    (hb : ∀ x j, At t x.s j → Agrees t x (body x) (abody j)) :
    ∀ (n : Nat) (x : TS) (i last : Nat), At t x.s i → last ≤ t.length →
      match arepLoop abody n i last with
      | .error f => (repLoop body n x (posAt t last)).2 = .error f
      | .ok (l, e) => ∃ x' j, repLoop body n x (posAt t last) = (x', .ok (posAt t l, e)) ∧ l ≤ t.length ∧
          At t x'.s j ∧ Ext t x x' := by
  intro n
  induction n with
  | zero => intro x i last _ _; simp [arepLoop, repLoop]
  | succ n ih =>
    intro x i last h hl
    have hbx := hb x i h
    rcases hbo : body x with ⟨x1, r1⟩
    rw [hbo] at hbx
    cases ha : abody i with
    | error f =>
      rw [ha] at hbx
      simp only [Agrees] at hbx
      subst hbx
      simp [arepLoop, repLoop, ha, hbo]
    | ok rj =>
      obtain ⟨r, j⟩ := rj
      rw [ha] at hbx
      obtain ⟨h1, h2, h3⟩ := hbx
      simp only at h1 h2 h3
      subst h1
      cases r with
      | error e =>
        simp only [arepLoop, repLoop, ha, hbo]
        exact ⟨x1, j, rfl, hl, h2, h3⟩
      | ok u =>
        cases u
        obtain ⟨x2, e2, a2, ex2⟩ := ts_pos h2
        simp only [arepLoop, repLoop, ha, hbo, e2]
        have := ih x2 j j a2 a2.le
        cases hr : arepLoop abody n j j with
        | error f => rw [hr] at this; exact this
        | ok le =>
          obtain ⟨l, e⟩ := le
          rw [hr] at this
          obtain ⟨x', j', e', hl', a', ex'⟩ := this
          exact ⟨x', j', e', hl', a', (h3.trans ex2).trans ex'⟩

theorem repCore_agrees {t : List Ch} {body : TS → Out} {abody : Nat → AOut}
    (hb : ∀ x j, At t x.s j → Agrees t x (body x) (abody j)) {x : TS} {i : Nat} (h : At t x.s i) :
    Agrees t x (repCore body x) (arepCore t abody i) := by
  obtain ⟨x1, e1, a1, ex1⟩ := ts_pos h
  have hbuf : x1.s.is.buf.length = t.length := by rw [a1.buf]
  have := repLoop_agrees hb (t.length + 1) x1 i i a1 a1.le
  simp only [repCore, e1, arepCore, hbuf]
  cases hr : arepLoop abody (t.length + 1) i i with
  | error f =>
    rw [hr] at this
    rcases hl : repLoop body (t.length + 1) x1 (posAt t i) with ⟨x2, r2⟩
    rw [hl] at this
    simp only at this
    subst this
    simp [Agrees]
  | ok le =>
    obtain ⟨l, e⟩ := le
    rw [hr] at this
    obtain ⟨x2, j, e2, hl, a2, ex2⟩ := this
    obtain ⟨x3, e3, a3, ex3⟩ := ts_set a2 hl
    simp only [e2, e3]
    exact ⟨rfl, a3, (ex1.trans ex2).trans ex3⟩

/-! ### skippers and parsers -/

theorem skip_agrees {t : List Ch} (sk : Sk) : ∀ (x : TS) (i : Nat), At t x.s i →
    Agrees t x (sk.skip x) (sk.askip t i) := by
  induction sk with
  | eps => intro x i h; exact ⟨rfl, h, Ext.refl t x⟩
  | lit c => intro x i h; exact charPred_agrees _ h
  | cset cs => intro x i h; exact charPred_agrees _ h
  | seq l r ihl ihr =>
    intro x i h
    have := agrees_andThen (ihl x i h) ihr
    simpa only [Sk.skip, Sk.askip, Out.andThen] using this
  | rep s ih => intro x i h; exact repCore_agrees ih h

theorem elemThenSkip_agrees {t : List Ch} {sk : Sk} {elem : TS → Out} {aelem : Nat → AOut}
    (he : ∀ x j, At t x.s j → Agrees t x (elem x) (aelem j)) :
    ∀ x j, At t x.s j → Agrees t x (elemThenSkip elem sk x) ((aelem j).andThen (sk.askip t)) := by
  intro x j h
  exact agrees_andThen (he x j h) (skip_agrees sk)

theorem parse_agrees {t : List Ch} (sk : Sk) (p : P) : ∀ (x : TS) (i : Nat), At t x.s i →
    Agrees t x (p.parse sk x) (p.aparse t sk i) := by
  induction p with
  | any =>
    intro x i h
    obtain ⟨x1, e1, a1, ex1⟩ := anyChar_spec h
    cases hc : t[i]? with
    | none =>
      simp only [hc] at e1
      simp only [not_lt_of_get hc, ↓reduceIte] at a1
      simp only [P.parse, e1, P.aparse, acharPred, hc]
      exact ⟨rfl, a1, ex1⟩
    | some c =>
      simp only [hc] at e1
      simp only [lt_of_get hc, ↓reduceIte] at a1
      simp only [P.parse, e1, P.aparse, acharPred, hc, ↓reduceIte]
      exact ⟨rfl, a1, ex1⟩
  | lit c => intro x i h; exact charPred_agrees _ h
  | cset cs => intro x i h; exact charPred_agrees _ h
  | str s => intro x i h; exact strLoop_agrees s h
  | seq l r ihl ihr =>
    intro x i h
    exact agrees_andThen (agrees_andThen (ihl x i h) (skip_agrees sk)) ihr
  | alt l r ihl ihr =>
    intro x i h
    obtain ⟨x1, e1, a1, ex1⟩ := ts_pos h
    have hl := ihl x1 i a1
    rcases hlo : l.parse sk x1 with ⟨x2, r2⟩
    rw [hlo] at hl
    simp only [P.parse, e1, hlo, P.aparse]
    cases hla : l.aparse t sk i with
    | error f =>
      rw [hla] at hl
      simp only [Agrees] at hl
      subst hl
      simp [Agrees]
    | ok rj =>
      obtain ⟨rl, j⟩ := rj
      rw [hla] at hl
      obtain ⟨g1, g2, g3⟩ := hl
      simp only at g1 g2 g3
      subst g1
      cases rl with
      | ok u =>
        cases u
        exact ⟨rfl, g2, ex1.trans g3⟩
      | error le =>
        obtain ⟨x3, e3, a3, ex3⟩ := ts_set g2 h.le
        simp only [e3]
        cases hf : le.fatal with
        | true =>
          simp only [↓reduceIte]
          exact ⟨rfl, a3, (ex1.trans g3).trans ex3⟩
        | false =>
          simp only [Bool.false_eq_true, ↓reduceIte]
          have hr := ihr x3 i a3
          rcases hro : r.parse sk x3 with ⟨x4, r4⟩
          rw [hro] at hr
          have e03 : Ext t x x3 := (ex1.trans g3).trans ex3
          cases hra : r.aparse t sk i with
          | error f =>
            rw [hra] at hr
            simp only [Agrees] at hr
            subst hr
            simp [Agrees]
          | ok rj' =>
            obtain ⟨rr, j'⟩ := rj'
            rw [hra] at hr
            obtain ⟨k1, k2, k3⟩ := hr
            simp only at k1 k2 k3
            subst k1
            cases rr with
            | ok u => cases u; exact ⟨rfl, k2, e03.trans k3⟩
            | error re =>
              cases hrf : re.fatal with
              | true => simp only [hrf, ↓reduceIte]; exact ⟨rfl, k2, e03.trans k3⟩
              | false =>
                simp only [hrf, Bool.false_eq_true, ↓reduceIte]
                exact ⟨rfl, k2, e03.trans k3⟩
  | opt p ih =>
    intro x i h
    obtain ⟨x1, e1, a1, ex1⟩ := ts_pos h
    have hp := ih x1 i a1
    rcases hpo : p.parse sk x1 with ⟨x2, r2⟩
    rw [hpo] at hp
    simp only [P.parse, e1, hpo, P.aparse]
    cases hpa : p.aparse t sk i with
    | error f =>
      rw [hpa] at hp
      simp only [Agrees] at hp
      subst hp
      simp [Agrees]
    | ok rj =>
      obtain ⟨rp, j⟩ := rj
      rw [hpa] at hp
      obtain ⟨g1, g2, g3⟩ := hp
      simp only at g1 g2 g3
      subst g1
      cases rp with
      | ok u => cases u; exact ⟨rfl, g2, ex1.trans g3⟩
      | error e =>
        obtain ⟨x3, e3, a3, ex3⟩ := ts_set g2 h.le
        simp only [e3]
        exact ⟨rfl, a3, (ex1.trans g3).trans ex3⟩
  | rep p ih =>
    intro x i h
    exact repCore_agrees (elemThenSkip_agrees ih) h
  | plus p ih =>
    intro x i h
    exact agrees_andThen (agrees_andThen (ih x i h) (skip_agrees sk))
      (fun x' j h' => repCore_agrees (elemThenSkip_agrees ih) h')
  | not p ih =>
    intro x i h
    obtain ⟨x1, e1, a1, ex1⟩ := ts_pos h
    have hp := ih x1 i a1
    rcases hpo : p.parse sk x1 with ⟨x2, r2⟩
    rw [hpo] at hp
    simp only [P.parse, e1, hpo, P.aparse]
    cases hpa : p.aparse t sk i with
    | error f =>
      rw [hpa] at hp
      simp only [Agrees] at hp
      subst hp
      simp [Agrees]
    | ok rj =>
      obtain ⟨rp, j⟩ := rj
      rw [hpa] at hp
      obtain ⟨g1, g2, g3⟩ := hp
      simp only at g1 g2 g3
      subst g1
      obtain ⟨x3, e3, a3, ex3⟩ := ts_set g2 h.le
      simp only [e3]
      cases rp with
      | ok u => cases u; exact ⟨rfl, a3, (ex1.trans g3).trans ex3⟩
      | error e => exact ⟨rfl, a3, (ex1.trans g3).trans ex3⟩
  | fatal p ih =>
    intro x i h
    have hp := ih x i h
    rcases hpo : p.parse sk x with ⟨x2, r2⟩
    rw [hpo] at hp
    simp only [P.parse, hpo, P.aparse]
    cases hpa : p.aparse t sk i with
    | error f =>
      rw [hpa] at hp
      simp only [Agrees] at hp
      subst hp
      simp [Agrees]
    | ok rj =>
      obtain ⟨rp, j⟩ := rj
      rw [hpa] at hp
      obtain ⟨g1, g2, g3⟩ := hp
      simp only at g1 g2 g3
      subst g1
      cases rp with
      | ok u => cases u; exact ⟨rfl, g2, g3⟩
      | error e => exact ⟨rfl, g2, g3⟩

/-! ### exactness of the backtracking: the state, not only the index -/

theorem ts_getPosition_s (x : TS) : x.getPosition.1.s = x.s.getPosition.1 := rfl
theorem ts_setPosition_s (x : TS) (p : Pos) : (x.setPosition p).1.s = (x.s.setPosition p).1 := rfl

/-- `not_`: whatever the inner parser did, the stream ends in exactly the state the initial
    `get_position` left (index, the three state bits, stored location) -/
theorem not_exact {t : List Ch} (sk : Sk) (p : P) {x : TS} {i : Nat} (h : At t x.s i)
    {r : R} {j : Nat} (ha : p.aparse t sk i = .ok (r, j)) :
    ((P.not p).parse sk x).1.s = x.s.getPosition.1 := by
  obtain ⟨x1, e1, a1, _⟩ := ts_pos h
  have hx1 : x1.s = x.s.getPosition.1 := by rw [← ts_getPosition_s, e1]
  have hp := parse_agrees sk p x1 i a1
  rcases hpo : p.parse sk x1 with ⟨x2, r2⟩
  rw [hpo, ha] at hp
  obtain ⟨g1, g2, _⟩ := hp
  simp only at g1 g2
  subst g1
  obtain ⟨x3, e3, _, _⟩ := ts_set g2 h.le
  have hx3 : x3.s = x.s.getPosition.1 := by
    have := ts_setPosition_s x2 (posAt t i)
    rw [e3] at this
    rw [this]
    exact at_set_exact h g2
  simp only [P.parse, e1, hpo, e3]
  cases r with
  | ok u => cases u; exact hx3
  | error e => exact hx3

/-- `optional` whose parser failed: exactly the state the initial `get_position` left -/
theorem opt_exact {t : List Ch} (sk : Sk) (p : P) {x : TS} {i : Nat} (h : At t x.s i)
    {e : PError} {j : Nat} (ha : p.aparse t sk i = .ok (.error e, j)) :
    ((P.opt p).parse sk x).1.s = x.s.getPosition.1 := by
  obtain ⟨x1, e1, a1, _⟩ := ts_pos h
  have hp := parse_agrees sk p x1 i a1
  rcases hpo : p.parse sk x1 with ⟨x2, r2⟩
  rw [hpo, ha] at hp
  obtain ⟨g1, g2, _⟩ := hp
  simp only at g1 g2
  subst g1
  obtain ⟨x3, e3, _, _⟩ := ts_set g2 h.le
  have hx3 : x3.s = x.s.getPosition.1 := by
    have := ts_setPosition_s x2 (posAt t i)
    rw [e3] at this
    rw [this]
    exact at_set_exact h g2
  simp only [P.parse, e1, hpo, e3]
  exact hx3

/-! ### `basic_string` in closed form -/

/-- length of the longest common prefix -/
def lcp : List Ch → List Ch → Nat
  | a :: as, b :: bs => if a = b then lcp as bs + 1 else 0
  | _, _ => 0

theorem getElem?_eq_head_drop (t : List Ch) (i : Nat) : t[i]? = (t.drop i).head? := by
  simp [List.head?_drop]

theorem astr_closed (t : List Ch) (s : List Ch) : ∀ i, i ≤ t.length →
    astr t s i =
      if lcp s (t.drop i) = s.length then (.ok (), i + s.length)
      else (.error (.plain (.exp none)), min (i + lcp s (t.drop i) + 1) t.length) := by
  induction s with
  | nil => intro i _; simp [astr, lcp]
  | cons e rest ih =>
    intro i hi
    cases hd : t.drop i with
    | nil =>
      have hc : t[i]? = none := by rw [getElem?_eq_head_drop, hd]; rfl
      have : t.length ≤ i := by simpa using hd
      simp only [astr, hc, lcp]
      simp
      omega
    | cons c rest' =>
      have hc : t[i]? = some c := by rw [getElem?_eq_head_drop, hd]; rfl
      have hlt := lt_of_get hc
      have hd' : t.drop (i + 1) = rest' := by
        have : t.drop (i + 1) = (t.drop i).drop 1 := by simp [List.drop_drop]
        rw [this, hd]; rfl
      by_cases hce : c = e
      · subst hce
        simp only [astr, hc, ↓reduceIte, lcp, ih (i + 1) (by omega), hd']
        by_cases hl : lcp rest rest' = rest.length
        · simp [hl]; omega
        · simp [hl]; omega
      · have hec : ¬ e = c := fun h => hce h.symm
        simp only [astr, hc, hce, ↓reduceIte, lcp, hec]
        simp
        omega

end Fcppt.C12
