import FcpptModel.Spec.C12Grammar
/-! Well-formed grammars (repetition bodies consume) always return: the loop fuel `length + 1` is
    never exhausted, indices only move forward and stay inside the text. -/
namespace Fcppt.C12

/-- `f` returns for every index of the text, never moves backwards, stays inside the text, and —
    if `cons` — a success has moved forward -/
def Prog (t : List Ch) (cons : Bool) (f : Nat → AOut) : Prop :=
  ∀ i, i ≤ t.length → ∃ r j, f i = .ok (r, j) ∧ i ≤ j ∧ j ≤ t.length ∧ (cons = true → r = .ok () → i < j)

theorem Prog.weaken {t : List Ch} {c c' : Bool} {f : Nat → AOut} (h : Prog t c f) (hc : c' = true → c = true) :
    Prog t c' f := by
  intro i hi
  obtain ⟨r, j, e, h1, h2, h3⟩ := h i hi
  exact ⟨r, j, e, h1, h2, fun a b => h3 (hc a) b⟩

theorem get_lt {t : List Ch} {i : Nat} {c : Ch} (h : t[i]? = some c) : i < t.length := by
  rcases Nat.lt_or_ge i t.length with h' | h'
  · exact h'
  · simp [List.getElem?_eq_none_iff.mpr h'] at h

theorem prog_charPred (t : List Ch) (pred : Ch → Bool) : Prog t true (fun i => .ok (acharPred t pred i)) := by
  intro i hi
  cases hc : t[i]? with
  | none => exact ⟨.error (.plain .eof), i, by simp [acharPred, hc], Nat.le_refl _, hi, by simp⟩
  | some c =>
    have := get_lt hc
    cases hp : pred c with
    | true => exact ⟨.ok (), i + 1, by simp [acharPred, hc, hp], by omega, by omega, by intros; omega⟩
    | false =>
      exact ⟨.error (.plain (.exp (some (locAt t (i + 1))))), i + 1, by simp [acharPred, hc, hp], by omega, by omega,
        by intros; omega⟩

theorem astr_prog (t : List Ch) (s : List Ch) : ∀ i, i ≤ t.length →
    ∃ r j, astr t s i = (r, j) ∧ i ≤ j ∧ j ≤ t.length ∧ (s ≠ [] → r = .ok () → i < j) := by
  induction s with
  | nil => intro i hi; exact ⟨_, i, rfl, Nat.le_refl _, hi, by simp⟩
  | cons e rest ih =>
    intro i hi
    cases hc : t[i]? with
    | none => exact ⟨.error (.plain (.exp none)), i, by simp [astr, hc], Nat.le_refl _, hi, by simp⟩
    | some c =>
      have := get_lt hc
      by_cases hce : c = e
      · obtain ⟨r, j, e1, h1, h2, _⟩ := ih (i + 1) (by omega)
        exact ⟨r, j, by simp [astr, hc, hce, e1], by omega, h2, by intros; omega⟩
      · exact ⟨.error (.plain (.exp none)), i + 1, by simp [astr, hc, hce], by omega, by omega, by simp⟩

theorem prog_str (t : List Ch) (s : List Ch) : Prog t (!s.isEmpty) (fun i => .ok (astr t s i)) := by
  intro i hi
  obtain ⟨r, j, e, h1, h2, h3⟩ := astr_prog t s i hi
  refine ⟨r, j, by show Except.ok (astr t s i) = _; rw [e], h1, h2, ?_⟩
  intro hc
  apply h3
  intro hs
  simp [hs] at hc

theorem prog_andThen {t : List Ch} {c1 c2 : Bool} {f g : Nat → AOut} (hf : Prog t c1 f) (hg : Prog t c2 g) :
    Prog t (c1 || c2) (fun i => (f i).andThen g) := by
  intro i hi
  obtain ⟨r, j, e, h1, h2, h3⟩ := hf i hi
  cases r with
  | error er =>
    exact ⟨_, j, by simp only [e, AOut.andThen] <;> rfl, h1, h2, by simp⟩
  | ok u =>
    cases u
    obtain ⟨r', j', e', g1, g2, g3⟩ := hg j h2
    refine ⟨r', j', by simp only [e, AOut.andThen, e'], by omega, g2, ?_⟩
    intro hc hr
    rcases Bool.or_eq_true _ _ |>.mp hc with h | h
    · have := h3 h rfl; omega
    · have := g3 h hr; omega

theorem arepLoop_prog {t : List Ch} {body : Nat → AOut} (hb : Prog t true body) :
    ∀ n i last, i ≤ t.length → last ≤ i → t.length + 1 ≤ n + i →
      ∃ l e, arepLoop body n i last = .ok (l, e) ∧ last ≤ l ∧ l ≤ t.length := by
  intro n
  induction n with
  | zero => intro i last hi _ hn; omega
  | succ n ih =>
    intro i last hi hl hn
    obtain ⟨r, j, e, h1, h2, h3⟩ := hb i hi
    cases r with
    | error er => exact ⟨last, er, by simp only [arepLoop, e], Nat.le_refl _, by omega⟩
    | ok u =>
      cases u
      have hlt := h3 rfl rfl
      obtain ⟨l, er, e', g1, g2⟩ := ih j j h2 (Nat.le_refl _) (by omega)
      exact ⟨l, er, by simp only [arepLoop, e, e'], by omega, g2⟩

theorem prog_repCore {t : List Ch} {body : Nat → AOut} (hb : Prog t true body) : Prog t false (arepCore t body) := by
  intro i hi
  obtain ⟨l, e, h, h1, h2⟩ := arepLoop_prog hb (t.length + 1) i i hi (Nat.le_refl _) (by omega)
  exact ⟨_, l, by simp only [arepCore, h] <;> rfl, h1, h2, by simp⟩

theorem askip_prog (t : List Ch) (sk : Sk) (hw : sk.wf = true) : Prog t sk.consumes (sk.askip t) := by
  induction sk with
  | eps => intro i hi; exact ⟨_, i, rfl, Nat.le_refl _, hi, by simp [Sk.consumes]⟩
  | lit c => exact prog_charPred t _
  | cset cs => exact prog_charPred t _
  | seq l r ihl ihr =>
    simp only [Sk.wf, Bool.and_eq_true] at hw
    exact prog_andThen (ihl hw.1) (ihr hw.2)
  | rep s ih =>
    simp only [Sk.wf, Bool.and_eq_true] at hw
    have := ih hw.2
    rw [hw.1] at this
    exact prog_repCore this

theorem aparse_prog (t : List Ch) (sk : Sk) (hs : sk.wf = true) (p : P) (hw : p.wf = true) :
    Prog t p.consumes (p.aparse t sk) := by
  have hsk := (askip_prog t sk hs).weaken (c' := false) (by simp)
  induction p with
  | any => exact prog_charPred t _
  | lit c => exact prog_charPred t _
  | cset cs => exact prog_charPred t _
  | str s => exact prog_str t s
  | seq l r ihl ihr =>
    simp only [P.wf, Bool.and_eq_true] at hw
    have := prog_andThen (prog_andThen (ihl hw.1) hsk) (ihr hw.2)
    intro i hi
    simpa only [P.aparse, P.consumes, Bool.or_false] using this i hi
  | alt l r ihl ihr =>
    simp only [P.wf, Bool.and_eq_true] at hw
    intro i hi
    obtain ⟨rl, jl, el, l1, l2, l3⟩ := ihl hw.1 i hi
    cases rl with
    | ok u =>
      cases u
      refine ⟨_, jl, by simp only [P.aparse, el] <;> rfl, l1, l2, ?_⟩
      intro hc _
      simp only [P.consumes, Bool.and_eq_true] at hc
      exact l3 hc.1 rfl
    | error le =>
      cases hf : le.fatal with
      | true => exact ⟨_, i, by simp only [P.aparse, el, hf, ↓reduceIte] <;> rfl, Nat.le_refl _, hi, by simp⟩
      | false =>
        obtain ⟨rr, jr, er, r1, r2, r3⟩ := ihr hw.2 i hi
        cases rr with
        | ok u =>
          cases u
          refine ⟨_, jr, by simp only [P.aparse, el, hf, Bool.false_eq_true, ↓reduceIte, er] <;> rfl, r1, r2, ?_⟩
          intro hc _
          simp only [P.consumes, Bool.and_eq_true] at hc
          exact r3 hc.2 rfl
        | error re =>
          cases hrf : re.fatal with
          | true =>
            exact ⟨_, jr, by simp only [P.aparse, el, hf, Bool.false_eq_true, ↓reduceIte, er, hrf] <;> rfl, r1, r2, by simp⟩
          | false =>
            exact ⟨_, jr, by simp only [P.aparse, el, hf, Bool.false_eq_true, ↓reduceIte, er, hrf] <;> rfl, r1, r2, by simp⟩
  | opt p ih =>
    simp only [P.wf] at hw
    intro i hi
    obtain ⟨r, j, e, h1, h2, _⟩ := ih hw i hi
    cases r with
    | ok u => cases u; exact ⟨_, j, by simp only [P.aparse, e] <;> rfl, h1, h2, by simp [P.consumes]⟩
    | error er => exact ⟨_, i, by simp only [P.aparse, e] <;> rfl, Nat.le_refl _, hi, by simp [P.consumes]⟩
  | rep p ih =>
    simp only [P.wf, Bool.and_eq_true] at hw
    have hp := ih hw.2
    rw [hw.1] at hp
    have := prog_andThen hp hsk
    exact prog_repCore (by simpa only [Bool.or_false] using this)
  | plus p ih =>
    simp only [P.wf, Bool.and_eq_true] at hw
    have hp := ih hw.2
    have hb : Prog t true (fun j => (p.aparse t sk j).andThen (sk.askip t)) := by
      have := prog_andThen hp hsk
      rw [hw.1] at this
      simpa only [Bool.or_false] using this
    have := prog_andThen (prog_andThen hp hsk) (prog_repCore hb)
    intro i hi
    simpa only [P.aparse, P.consumes, Bool.or_false] using this i hi
  | not p ih =>
    simp only [P.wf] at hw
    intro i hi
    obtain ⟨r, j, e, _, _, _⟩ := ih hw i hi
    cases r with
    | ok u => cases u; exact ⟨_, i, by simp only [P.aparse, e] <;> rfl, Nat.le_refl _, hi, by simp [P.consumes]⟩
    | error er => exact ⟨_, i, by simp only [P.aparse, e] <;> rfl, Nat.le_refl _, hi, by simp [P.consumes]⟩
  | fatal p ih =>
    simp only [P.wf] at hw
    intro i hi
    obtain ⟨r, j, e, h1, h2, h3⟩ := ih hw i hi
    cases r with
    | ok u => cases u; exact ⟨_, j, by simp only [P.aparse, e] <;> rfl, h1, h2, h3⟩
    | error er => exact ⟨_, j, by simp only [P.aparse, e] <;> rfl, h1, h2, by simp⟩

theorem aphrase_prog (t : List Ch) (sk : Sk) (hs : sk.wf = true) (p : P) (hw : p.wf = true) :
    Prog t p.consumes (aphrase t p sk) := by
  have := prog_andThen ((askip_prog t sk hs).weaken (c' := false) (by simp)) (aparse_prog t sk hs p hw)
  intro i hi
  simpa only [aphrase, Bool.false_or] using this i hi

end Fcppt.C12
