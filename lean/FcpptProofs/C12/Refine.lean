import FcpptProofs.C12.Spec
/-! The stream model refines the abstract stream of the documentation: simulation relation and
    the step lemma. -/
namespace Fcppt.C12

/-- simulation relation between the implementation-level state and the abstract state -/
structure Rel (t : List Ch) (k : Option Nat) (h : HState) (a : AState) : Prop where
  buf : h.s.is.buf = t
  fa : h.s.is.failAfter = k
  idx : h.s.is.idx = a.i
  le : a.i ≤ t.length
  reads : h.s.is.reads = a.reads
  bad : h.s.is.bad = a.dead
  failEof : a.dead = false → h.s.is.fail = true → h.s.is.eof = true
  eofEnd : a.dead = false → h.s.is.eof = true → a.i = t.length
  loc : h.s.loc = locAt t a.i
  saved : h.saved = a.saved.map (posAt t)
  savedLe : ∀ j ∈ a.saved, j ≤ t.length
  readsNone : k = none → a.reads = 0

theorem rel_open (t : List Ch) (k : Option Nat) : Rel t k (HState.open t k) AState.init := by
  constructor <;> simp [HState.open, Stream.open, IStream.open, AState.init, locAt_zero]

theorem step_get {t : List Ch} {k : Option Nat} {h : HState} {a : AState} (r : Rel t k h a) :
    Rel t k (step h .get).1 (astep t k a .get).1 ∧ (step h .get).2 = (astep t k a .get).2 := by
  obtain ⟨⟨⟨buf, idx, eof, fail, bad, fa, reads⟩, loc⟩, saved⟩ := h
  obtain ⟨i, rd, dead, asaved⟩ := a
  obtain ⟨h1, h2, h3, h4, h5, h6, h7, h8, h9, h10, h11, h12⟩ := r
  simp only at h1 h2 h3 h4 h5 h6 h7 h8 h9 h10 h11 h12
  subst h1 h2 h3 h5 h6 h9 h10
  cases bad
  · cases hget : buf[idx]? with
    | none =>
      have hlen : idx = buf.length := by
        have := List.getElem?_eq_none_iff.mp hget
        omega
      cases eof <;> cases fail <;>
        simp [step, astep, Stream.getChar, IStream.get, IStream.sentry, IStream.good, IStream.sbumpc, hget] <;>
        (constructor <;> simp_all)
    | some c =>
      have hlt : idx < buf.length := by
        rcases Nat.lt_or_ge idx buf.length with h | h
        · exact h
        · simp [List.getElem?_eq_none_iff.mpr h] at hget
      have he : eof = false := by
        cases eof
        · rfl
        · have := h8 rfl rfl; omega
      have hf : fail = false := by
        cases fail
        · rfl
        · have := h7 rfl rfl; simp [he] at this
      subst he hf
      cases fa with
      | none =>
        by_cases hc : c = nl
        · subst hc
          simp [step, astep, Stream.getChar, IStream.get, IStream.sentry, IStream.good, IStream.sbumpc, hget]
          constructor <;> simp_all [locAt_succ_nl hget] <;> omega
        · simp [step, astep, Stream.getChar, IStream.get, IStream.sentry, IStream.good, IStream.sbumpc, hget, hc]
          constructor <;> simp_all [locAt_succ_ne hget hc] <;> omega
      | some k =>
        by_cases hk : k ≤ reads
        · simp [step, astep, Stream.getChar, IStream.get, IStream.sentry, IStream.good, IStream.sbumpc, hget, hk]
          constructor <;> simp_all
        · by_cases hc : c = nl
          · subst hc
            simp [step, astep, Stream.getChar, IStream.get, IStream.sentry, IStream.good, IStream.sbumpc, hget, hk]
            constructor <;> simp_all [locAt_succ_nl hget] <;> omega
          · simp [step, astep, Stream.getChar, IStream.get, IStream.sentry, IStream.good, IStream.sbumpc, hget, hc, hk]
            constructor <;> simp_all [locAt_succ_ne hget hc] <;> omega
  · simp [step, astep, Stream.getChar]
    constructor <;> simp_all
theorem step_pos {t : List Ch} {k : Option Nat} {h : HState} {a : AState} (r : Rel t k h a) :
    Rel t k (step h .pos).1 (astep t k a .pos).1 ∧ (step h .pos).2 = (astep t k a .pos).2 := by
  obtain ⟨⟨⟨buf, idx, eof, fail, bad, fa, reads⟩, loc⟩, saved⟩ := h
  obtain ⟨i, rd, dead, asaved⟩ := a
  obtain ⟨h1, h2, h3, h4, h5, h6, h7, h8, h9, h10, h11, h12⟩ := r
  simp only at h1 h2 h3 h4 h5 h6 h7 h8 h9 h10 h11 h12
  subst h1 h2 h3 h5 h6 h9 h10
  cases bad
  · cases eof
    · have hf : fail = false := by
        cases fail
        · rfl
        · simpa using h7 rfl rfl
      subst hf
      simp [step, astep, Stream.getPosition, IStream.tellg, IStream.sentry, IStream.good, posAt]
      constructor <;> simp_all [posAt]
      · rintro j (hj | rfl)
        · exact h11 j hj
        · omega
    · simp [step, astep, Stream.getPosition, IStream.tellg, IStream.sentry, IStream.good, IStream.clear, posAt]
      constructor <;> simp_all [posAt]
      · rintro j (hj | rfl)
        · exact h11 j hj
        · omega
  · simp [step, astep, Stream.getPosition]
    constructor <;> simp_all

theorem step_set {t : List Ch} {k : Option Nat} {h : HState} {a : AState} (r : Rel t k h a) (j : Nat) :
    Rel t k (step h (.set j)).1 (astep t k a (.set j)).1 ∧ (step h (.set j)).2 = (astep t k a (.set j)).2 := by
  obtain ⟨⟨⟨buf, idx, eof, fail, bad, fa, reads⟩, loc⟩, saved⟩ := h
  obtain ⟨i, rd, dead, asaved⟩ := a
  obtain ⟨h1, h2, h3, h4, h5, h6, h7, h8, h9, h10, h11, h12⟩ := r
  simp only at h1 h2 h3 h4 h5 h6 h7 h8 h9 h10 h11 h12
  subst h1 h2 h3 h5 h6 h9 h10
  cases hj : asaved[j]? with
  | none =>
    simp [step, astep, hj]
    constructor <;> simp_all
  | some i' =>
    have hi' : i' ≤ buf.length := h11 i' (List.mem_of_getElem? hj)
    cases bad
    · simp [step, astep, hj, Stream.setPosition, IStream.seekg, IStream.sentry, IStream.good, IStream.clear, posAt, hi']
      constructor <;> simp_all
    · simp [step, astep, hj, Stream.setPosition, posAt]
      constructor <;> simp_all

theorem step_refines {t : List Ch} {k : Option Nat} {h : HState} {a : AState} (r : Rel t k h a) (op : Op) :
    Rel t k (step h op).1 (astep t k a op).1 ∧ (step h op).2 = (astep t k a op).2 := by
  cases op with
  | get => exact step_get r
  | pos => exact step_pos r
  | set j => exact step_set r j

theorem run_refines_rel {t : List Ch} {k : Option Nat} (ops : List Op) :
    ∀ {h : HState} {a : AState}, Rel t k h a →
      Rel t k (run h ops).1 (arun t k a ops).1 ∧ (run h ops).2 = (arun t k a ops).2 := by
  induction ops with
  | nil => intro h a r; exact ⟨r, rfl⟩
  | cons op ops ih =>
    intro h a r
    obtain ⟨r1, e1⟩ := step_refines r op
    obtain ⟨r2, e2⟩ := ih r1
    simp only [run, arun]
    exact ⟨r2, by rw [e1, e2]⟩

end Fcppt.C12
