import FcpptModel.Model.C01.Vector
import FcpptProofs.C06.Tactics
/-!
Lemmas for the vector wrappers of C01: `mapM` over pointwise-known results, `sequenceOpt` is all-or-nothing.
-/
namespace Fcppt.C01
open Fcppt

theorem mapM_ok_of_forall {α β} {f : α → M β} {g : α → β} :
    ∀ (l : List α), (∀ x ∈ l, f x = .ok (g x)) → l.mapM f = (Except.ok (l.map g) : M (List β))
  | [], _ => rfl
  | x :: r, h => by
    have hx := h x (by simp)
    have hr := mapM_ok_of_forall r (fun y hy => h y (by simp [hy]))
    simp only [List.mapM_cons, hx, hr, bind, Except.bind, List.map_cons]; rfl

theorem sequenceOpt_map_some {α} (l : List α) : sequenceOpt (l.map some) = some l := by
  induction l with
  | nil => rfl
  | cons x r ih => simp [sequenceOpt, ih]

theorem sequenceOpt_eq_none_iff {α} (l : List (Option α)) : sequenceOpt l = none ↔ none ∈ l := by
  induction l with
  | nil => simp [sequenceOpt]
  | cons x r ih =>
    cases x with
    | none => simp [sequenceOpt]
    | some v => simp [sequenceOpt, ih]

theorem sequenceOpt_eq_some {α} (l : List (Option α)) (r : List α) (h : sequenceOpt l = some r) : l = r.map some := by
  induction l generalizing r with
  | nil => simp [sequenceOpt] at h; subst h; rfl
  | cons x t ih =>
    cases x with
    | none => simp [sequenceOpt] at h
    | some v =>
      simp only [sequenceOpt, Option.map_eq_some_iff] at h
      obtain ⟨r', hr', rfl⟩ := h
      rw [ih r' hr']; rfl

theorem vectorMap_ok {f : Int → M (Option Int)} {g : Int → Option Int} (v : List Int) (h : ∀ x ∈ v, f x = .ok (g x)) :
    vectorMap f v = .ok (sequenceOpt (v.map g)) := by
  unfold vectorMap
  rw [mapM_ok_of_forall v h]; rfl

theorem vectorZip_ok {f : Int → Int → M (Option Int)} {g : Int → Int → Option Int} (l r : List Int)
    (h : ∀ p ∈ l.zip r, f p.1 p.2 = .ok (g p.1 p.2)) :
    vectorZip f l r = .ok (sequenceOpt ((l.zip r).map fun p => g p.1 p.2)) := by
  unfold vectorZip
  rw [mapM_ok_of_forall (g := fun p => g p.1 p.2) (l.zip r) h]; rfl

theorem u32_tdiv_inRange (x d : Int) (hx : IntTy.u32.InRange x) (hd : IntTy.u32.InRange d) (_h : d ≠ 0) :
    IntTy.u32.InRange (Int.tdiv x d) := by
  c06_norm
  have h1 := Int.tdiv_nonneg hx.1 hd.1
  have h2 := Int.tdiv_le_self (b := d) hx.1
  omega


end Fcppt.C01
