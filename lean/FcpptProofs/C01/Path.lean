import FcpptModel.Model.C01.Path
/-!
Lemmas for the path part of C01: where `_M_find_extension` puts the split, the extension begins with a dot.
-/
namespace Fcppt.C01.Path
open Fcppt Fcppt.C01

theorem rfindDot_some (s : Str) (k : Nat) (h : rfindDot s = some k) : k < s.length ∧ s[k]? = some '.' := by
  unfold rfindDot at h
  cases hf : s.reverse.findIdx? (· == '.') with
  | none => simp [hf] at h
  | some i =>
    simp only [hf, Option.some.injEq] at h
    obtain ⟨hlt, hp, _⟩ := List.findIdx?_eq_some_iff_getElem.mp hf
    have hlt' : i < s.length := by simpa using hlt
    subst h
    refine ⟨by omega, ?_⟩
    have hk : s.length - 1 - i < s.length := by omega
    rw [List.getElem?_eq_getElem hk]
    have := List.getElem_reverse (l := s) (i := i) hlt
    rw [this] at hp
    simpa using hp

/-- the split `_M_find_extension` reports lies inside the file name, behind its first character, on a dot -/
theorem findExtension_some (p : P) (s : Str) (k : Nat) (h : p.findExtension = some (s, some k)) :
    p.lastName = some s ∧ 0 < k ∧ k < s.length ∧ s[k]? = some '.' := by
  unfold P.findExtension at h
  cases hl : p.lastName with
  | none => simp [hl] at h
  | some n =>
    simp only [hl] at h
    split at h
    · cases h
    · split at h
      · cases h
      · cases hr : rfindDot n with
        | none => simp [hr] at h
        | some pos =>
          simp only [hr] at h
          by_cases hp : pos = 0
          · simp [hp] at h
          · simp only [hp, ↓reduceIte, Option.some.injEq, Prod.mk.injEq] at h
            obtain ⟨h1, h2⟩ := h
            subst h1 h2
            obtain ⟨hlt, hdot⟩ := rfindDot_some n pos hr
            exact ⟨rfl, by omega, hlt, hdot⟩

theorem findExtension_fst (p : P) (s : Str) (e : Option Nat) (h : p.findExtension = some (s, e)) : p.lastName = some s := by
  unfold P.findExtension at h
  cases hl : p.lastName with
  | none => simp [hl] at h
  | some n =>
    simp only [hl] at h
    split at h
    · cases h
    · split at h
      · cases h; rfl
      · cases hr : rfindDot n with
        | none => simp [hr] at h; rw [h.1]
        | some pos => simp [hr] at h; rw [h.1]

/-- a non-empty `extension()` begins with the dot -/
theorem extension_head (s : Str) (h : extension s ≠ []) : (extension s).head? = some '.' := by
  unfold extension pathToString P.extension at *
  cases hf : (parse s).findExtension with
  | none => simp [hf] at h
  | some pr =>
    obtain ⟨n, e⟩ := pr
    cases e with
    | none => simp [hf] at h
    | some k =>
      obtain ⟨_, _, hlt, hdot⟩ := findExtension_some _ n k hf
      simp only [hf]
      rw [List.head?_drop]
      exact hdot

end Fcppt.C01.Path
