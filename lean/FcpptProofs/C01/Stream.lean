import FcpptModel.Model.C01.Stream
/-!
Lemmas for the stream part of C01: the buffer that `read_chars` fills is written and read inside its block.
-/
namespace Fcppt.C01
open Fcppt

theorem writeCells_ok (cs : List Nat) : ∀ (pre rest : List (Option Nat)), cs.length ≤ rest.length →
    writeCells (pre ++ rest) pre.length cs = .ok (pre ++ cs.map some ++ rest.drop cs.length) := by
  induction cs with
  | nil => intro pre rest _; simp [writeCells]
  | cons c cs ih =>
    intro pre rest h
    cases rest with
    | nil => simp at h
    | cons r rest' =>
      have hlt : pre.length < (pre ++ r :: rest').length := by simp
      have hset : (pre ++ r :: rest').set pre.length (some c) = (pre ++ [some c]) ++ rest' := by
        simp [List.set_append_right]
      have hlen : (pre ++ [some c]).length = pre.length + 1 := by simp
      simp only [writeCells, writeCell, hlt, ↓reduceIte, bind, Except.bind, hset]
      rw [← hlen, ih (pre ++ [some c]) rest' (by simpa using h)]
      simp

theorem mapM_range_readCell (vals : List Nat) (rest : List (Option Nat)) :
    ∀ n, n ≤ vals.length → (List.range n).mapM (readCell (vals.map some ++ rest)) = (Except.ok (vals.take n) : M (List Nat))
  | 0, _ => rfl
  | n + 1, h => by
    have hn : n < vals.length := by omega
    have hcell : readCell (vals.map some ++ rest) n = .ok vals[n] := by
      simp [readCell, List.getElem?_append_left, hn]
    rw [List.range_succ, List.mapM_append, mapM_range_readCell vals rest n (by omega)]
    simp only [List.mapM_cons, List.mapM_nil, hcell]
    show Except.ok (List.take n vals ++ [vals[n]]) = _
    rw [List.take_succ, List.getElem?_eq_getElem hn]; rfl

theorem resize_from_empty (count : Nat) :
    Buf.empty.resizeWriteArea count = ⟨List.replicate count none, 0, count⟩ := by
  unfold Buf.resizeWriteArea Buf.empty
  by_cases h : count = 0
  · subst h; simp
  · have : ¬ (0 ≥ count) := by omega
    simp [this]

end Fcppt.C01
