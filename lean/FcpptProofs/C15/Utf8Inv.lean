import FcpptProofs.C15.Utf8
/-! The other direction: bytes that `classify` accepts as a character are exactly that character's encoding. -/
namespace Fcppt.C15

theorem seqLen_cases (b : Nat) :
    (seqLen b = 0) ∨ (seqLen b = 1 ∧ b < 128) ∨ (seqLen b = 2 ∧ 194 ≤ b ∧ b < 224) ∨ (seqLen b = 3 ∧ 224 ≤ b ∧ b < 240) ∨
    (seqLen b = 4 ∧ 240 ≤ b ∧ b < 248) ∨ (seqLen b = 5 ∧ 248 ≤ b ∧ b < 252) ∨ (seqLen b = 6 ∧ 252 ≤ b ∧ b < 254) := by
  unfold seqLen
  repeat (any_goals (first | omega | split))

theorem validWc_iff (c : Nat) : validWc c = true ↔ c ≤ 0x7FFFFFFF ∧ isSurrogate c = false := by
  simp [validWc]

/-- `classify` says "character `c`" only for the encoding of `c`, and `c` is then a valid character -/
theorem classify_char_inv (bs : List Nat) (c : Nat) (h : classify bs = .char c) : bs = encodeWc c ∧ validWc c = true := by
  cases bs with
  | nil => simp [classify] at h
  | cons b0 tail =>
    unfold classify at h
    simp only at h
    by_cases hn0 : seqLen b0 = 0
    · simp [hn0] at h
    · rw [if_neg hn0] at h
      by_cases hcont : tail.all isCont = true
      · simp only [hcont, Bool.not_true, Bool.false_eq_true, if_false] at h
        simp only [List.length_cons] at h
        by_cases hlt : tail.length + 1 < seqLen b0
        · rw [if_pos hlt] at h; cases h
        · rw [if_neg hlt] at h
          by_cases hgt : tail.length + 1 > seqLen b0
          · rw [if_pos hgt] at h; cases h
          · rw [if_neg hgt] at h
            have hlen : tail.length + 1 = seqLen b0 := by omega
            split at h
            · cases h
            · rename_i hok
              have hc : tail.foldl (fun acc b => acc * 64 + b % 64) (leadBits (seqLen b0) b0) = c := by
                injection h
              have hmin : ¬ c < minFor (seqLen b0) := by rw [← hc]; exact fun x => hok (Or.inl x)
              have hsur : isSurrogate c = false := by
                cases hs : isSurrogate c with
                | false => rfl
                | true => exact absurd (Or.inr (by rw [hc]; exact hs)) hok
              rcases seqLen_cases b0 with h0 | ⟨h1, hb⟩ | ⟨h2, hb1, hb2⟩ | ⟨h3, hb1, hb2⟩ | ⟨h4, hb1, hb2⟩ | ⟨h5, hb1, hb2⟩ | ⟨h6, hb1, hb2⟩
              · exact absurd h0 hn0
              · -- one byte
                rw [h1] at hlen hc
                have : tail = [] := List.eq_nil_of_length_eq_zero (by omega)
                subst this
                simp [leadBits] at hc
                subst hc
                refine ⟨by unfold encodeWc; rw [if_pos hb], (validWc_iff _).2 ⟨by omega, hsur⟩⟩
              · -- two bytes
                rw [h2] at hlen hc hmin
                obtain ⟨b1, rfl⟩ : ∃ b1, tail = [b1] := by
                  match tail, hlen with
                  | [b1], _ => exact ⟨b1, rfl⟩
                simp only [List.all_cons, List.all_nil, Bool.and_true, isCont_iff] at hcont
                simp only [leadBits, List.foldl_cons, List.foldl_nil, Nat.reducePow, Nat.reduceSub] at hc
                simp only [minFor] at hmin
                simp at hc hmin
                refine ⟨?_, (validWc_iff _).2 ⟨by omega, hsur⟩⟩
                unfold encodeWc
                rw [if_neg (by omega), if_pos (by omega)]
                congr 1
                · omega
                · congr 1; omega
              · -- three bytes
                rw [h3] at hlen hc hmin
                obtain ⟨b1, b2, rfl⟩ : ∃ b1 b2, tail = [b1, b2] := by
                  match tail, hlen with
                  | [b1, b2], _ => exact ⟨b1, b2, rfl⟩
                simp only [List.all_cons, List.all_nil, Bool.and_true, Bool.and_eq_true, isCont_iff] at hcont
                simp only [leadBits, List.foldl_cons, List.foldl_nil, Nat.reducePow, Nat.reduceSub] at hc
                simp only [minFor] at hmin
                simp at hc hmin
                refine ⟨?_, (validWc_iff _).2 ⟨by omega, hsur⟩⟩
                unfold encodeWc
                rw [if_neg (by omega), if_neg (by omega), if_pos (by omega)]
                congr 1
                · omega
                · congr 1
                  · omega
                  · congr 1; omega
              · -- four bytes
                rw [h4] at hlen hc hmin
                obtain ⟨b1, b2, b3, rfl⟩ : ∃ b1 b2 b3, tail = [b1, b2, b3] := by
                  match tail, hlen with
                  | [b1, b2, b3], _ => exact ⟨b1, b2, b3, rfl⟩
                simp only [List.all_cons, List.all_nil, Bool.and_true, Bool.and_eq_true, isCont_iff] at hcont
                simp only [leadBits, List.foldl_cons, List.foldl_nil, Nat.reducePow, Nat.reduceSub] at hc
                simp only [minFor] at hmin
                simp at hc hmin
                refine ⟨?_, (validWc_iff _).2 ⟨by omega, hsur⟩⟩
                unfold encodeWc
                rw [if_neg (by omega), if_neg (by omega), if_neg (by omega), if_pos (by omega)]
                congr 1
                · omega
                · congr 1
                  · omega
                  · congr 1
                    · omega
                    · congr 1; omega
              · -- five bytes
                rw [h5] at hlen hc hmin
                obtain ⟨b1, b2, b3, b4, rfl⟩ : ∃ b1 b2 b3 b4, tail = [b1, b2, b3, b4] := by
                  match tail, hlen with
                  | [b1, b2, b3, b4], _ => exact ⟨b1, b2, b3, b4, rfl⟩
                simp only [List.all_cons, List.all_nil, Bool.and_true, Bool.and_eq_true, isCont_iff] at hcont
                simp only [leadBits, List.foldl_cons, List.foldl_nil, Nat.reducePow, Nat.reduceSub] at hc
                simp only [minFor] at hmin
                simp at hc hmin
                refine ⟨?_, (validWc_iff _).2 ⟨by omega, hsur⟩⟩
                unfold encodeWc
                rw [if_neg (by omega), if_neg (by omega), if_neg (by omega), if_neg (by omega), if_pos (by omega)]
                congr 1
                · omega
                · congr 1
                  · omega
                  · congr 1
                    · omega
                    · congr 1
                      · omega
                      · congr 1; omega
              · -- six bytes
                rw [h6] at hlen hc hmin
                obtain ⟨b1, b2, b3, b4, b5, rfl⟩ : ∃ b1 b2 b3 b4 b5, tail = [b1, b2, b3, b4, b5] := by
                  match tail, hlen with
                  | [b1, b2, b3, b4, b5], _ => exact ⟨b1, b2, b3, b4, b5, rfl⟩
                simp only [List.all_cons, List.all_nil, Bool.and_true, Bool.and_eq_true, isCont_iff] at hcont
                simp only [leadBits, List.foldl_cons, List.foldl_nil, Nat.reducePow, Nat.reduceSub] at hc
                simp only [minFor] at hmin
                simp at hc hmin
                refine ⟨?_, (validWc_iff _).2 ⟨by omega, hsur⟩⟩
                unfold encodeWc
                rw [if_neg (by omega), if_neg (by omega), if_neg (by omega), if_neg (by omega), if_neg (by omega)]
                congr 1
                · omega
                · congr 1
                  · omega
                  · congr 1
                    · omega
                    · congr 1
                      · omega
                      · congr 1
                        · omega
                        · congr 1; omega
      · have : tail.all isCont = false := by cases h' : tail.all isCont <;> simp_all
        simp [this] at h

end Fcppt.C15
