import FcpptModel.Model.C15
/-! Bit-level facts about glibc-style UTF-8: what `classify` says about the bytes `encodeWc` writes, and back. -/
namespace Fcppt.C15

theorem seqLen_1 {b : Nat} (h : b < 0x80) : seqLen b = 1 := by
  unfold seqLen; rw [if_pos h]
theorem seqLen_2 {b : Nat} (h1 : 0xC2 ≤ b) (h2 : b < 0xE0) : seqLen b = 2 := by
  unfold seqLen; rw [if_neg (by omega), if_neg (by omega), if_pos (by omega)]
theorem seqLen_3 {b : Nat} (h1 : 0xE0 ≤ b) (h2 : b < 0xF0) : seqLen b = 3 := by
  unfold seqLen; rw [if_neg (by omega), if_neg (by omega), if_neg (by omega), if_pos (by omega)]
theorem seqLen_4 {b : Nat} (h1 : 0xF0 ≤ b) (h2 : b < 0xF8) : seqLen b = 4 := by
  unfold seqLen; rw [if_neg (by omega), if_neg (by omega), if_neg (by omega), if_neg (by omega), if_pos (by omega)]
theorem seqLen_5 {b : Nat} (h1 : 0xF8 ≤ b) (h2 : b < 0xFC) : seqLen b = 5 := by
  unfold seqLen; rw [if_neg (by omega), if_neg (by omega), if_neg (by omega), if_neg (by omega), if_neg (by omega), if_pos (by omega)]
theorem seqLen_6 {b : Nat} (h1 : 0xFC ≤ b) (h2 : b < 0xFE) : seqLen b = 6 := by
  unfold seqLen; rw [if_neg (by omega), if_neg (by omega), if_neg (by omega), if_neg (by omega), if_neg (by omega), if_neg (by omega), if_pos (by omega)]

theorem seqLen_le (b : Nat) : seqLen b ≤ 6 := by
  unfold seqLen; repeat (any_goals (first | omega | split))

theorem isCont_enc (x : Nat) : isCont (128 + x % 64) = true := by
  unfold isCont; simp; omega

theorem isCont_iff (b : Nat) : isCont b = true ↔ 128 ≤ b ∧ b ≤ 191 := by
  unfold isCont; simp

/-- unfold `classify` on an explicit byte list and evaluate everything that is closed -/
macro "classify_eval" : tactic =>
  `(tactic| (unfold classify
             simp only [*, isCont_enc, List.all_cons, List.all_nil, Bool.and_self, Bool.and_true, Bool.not_true, List.length_cons, List.length_nil,
               leadBits, minFor, List.foldl_cons, List.foldl_nil, Nat.reducePow, Nat.reduceSub, Nat.reduceMul, Nat.reduceAdd,
               Nat.reduceLT, Nat.reduceGT, Nat.reduceEqDiff, if_true, if_false, Bool.false_eq_true, reduceIte, reduceCtorEq]))

theorem surrogate_false_of_lt {c : Nat} (h : c < 0xD800) : isSurrogate c = false := by
  unfold isSurrogate; simp; omega
theorem surrogate_false_of_gt {c : Nat} (h : 0xDFFF < c) : isSurrogate c = false := by
  unfold isSurrogate; simp; omega

/-! ### one byte -/
theorem classify_enc1 (c : Nat) (h : c < 0x80) : classify [c] = .char c := by
  have hl : seqLen c = 1 := seqLen_1 h
  have hs : isSurrogate c = false := surrogate_false_of_lt (by omega)
  classify_eval
  simp

/-! ### two bytes -/
theorem classify_enc2 (c : Nat) (h1 : 0x80 ≤ c) (h2 : c < 0x800) :
    classify [192 + c / 64] = .pref ∧ classify [192 + c / 64, 128 + c % 64] = .char c := by
  have hl : seqLen (192 + c / 64) = 2 := seqLen_2 (by omega) (by omega)
  have hs : isSurrogate c = false := surrogate_false_of_lt (by omega)
  have hc : (192 + c / 64) % 32 * 64 + (128 + c % 64) % 64 = c := by omega
  constructor
  · classify_eval
  · classify_eval; simp; omega

/-! ### three bytes -/
theorem classify_enc3 (c : Nat) (h1 : 0x800 ≤ c) (h2 : c < 0x10000) (hs : isSurrogate c = false) :
    classify [224 + c / 4096] = .pref ∧ classify [224 + c / 4096, 128 + c / 64 % 64] = .pref ∧
    classify [224 + c / 4096, 128 + c / 64 % 64, 128 + c % 64] = .char c := by
  have hl : seqLen (224 + c / 4096) = 3 := seqLen_3 (by omega) (by omega)
  have hc : ((224 + c / 4096) % 16 * 64 + (128 + c / 64 % 64) % 64) * 64 + (128 + c % 64) % 64 = c := by omega
  refine ⟨?_, ?_, ?_⟩
  · classify_eval
  · classify_eval
  · classify_eval; simp; omega

/-! ### four bytes -/
theorem classify_enc4 (c : Nat) (h1 : 0x10000 ≤ c) (h2 : c < 0x200000) :
    classify [240 + c / 262144] = .pref ∧ classify [240 + c / 262144, 128 + c / 4096 % 64] = .pref ∧
    classify [240 + c / 262144, 128 + c / 4096 % 64, 128 + c / 64 % 64] = .pref ∧
    classify [240 + c / 262144, 128 + c / 4096 % 64, 128 + c / 64 % 64, 128 + c % 64] = .char c := by
  have hl : seqLen (240 + c / 262144) = 4 := seqLen_4 (by omega) (by omega)
  have hs : isSurrogate c = false := surrogate_false_of_gt (by omega)
  have hc : (((240 + c / 262144) % 8 * 64 + (128 + c / 4096 % 64) % 64) * 64 + (128 + c / 64 % 64) % 64) * 64 + (128 + c % 64) % 64 = c := by omega
  refine ⟨?_, ?_, ?_, ?_⟩
  · classify_eval
  · classify_eval
  · classify_eval
  · classify_eval; simp; omega

/-! ### five bytes -/
theorem classify_enc5 (c : Nat) (h1 : 0x200000 ≤ c) (h2 : c < 0x4000000) :
    classify [248 + c / 16777216] = .pref ∧ classify [248 + c / 16777216, 128 + c / 262144 % 64] = .pref ∧
    classify [248 + c / 16777216, 128 + c / 262144 % 64, 128 + c / 4096 % 64] = .pref ∧
    classify [248 + c / 16777216, 128 + c / 262144 % 64, 128 + c / 4096 % 64, 128 + c / 64 % 64] = .pref ∧
    classify [248 + c / 16777216, 128 + c / 262144 % 64, 128 + c / 4096 % 64, 128 + c / 64 % 64, 128 + c % 64] = .char c := by
  have hl : seqLen (248 + c / 16777216) = 5 := seqLen_5 (by omega) (by omega)
  have hs : isSurrogate c = false := surrogate_false_of_gt (by omega)
  have hc : ((((248 + c / 16777216) % 4 * 64 + (128 + c / 262144 % 64) % 64) * 64 + (128 + c / 4096 % 64) % 64) * 64 + (128 + c / 64 % 64) % 64) * 64 + (128 + c % 64) % 64 = c := by omega
  refine ⟨?_, ?_, ?_, ?_, ?_⟩
  · classify_eval
  · classify_eval
  · classify_eval
  · classify_eval
  · classify_eval; simp; omega

/-! ### six bytes -/
theorem classify_enc6 (c : Nat) (h1 : 0x4000000 ≤ c) (h2 : c ≤ 0x7FFFFFFF) :
    classify [252 + c / 1073741824] = .pref ∧ classify [252 + c / 1073741824, 128 + c / 16777216 % 64] = .pref ∧
    classify [252 + c / 1073741824, 128 + c / 16777216 % 64, 128 + c / 262144 % 64] = .pref ∧
    classify [252 + c / 1073741824, 128 + c / 16777216 % 64, 128 + c / 262144 % 64, 128 + c / 4096 % 64] = .pref ∧
    classify [252 + c / 1073741824, 128 + c / 16777216 % 64, 128 + c / 262144 % 64, 128 + c / 4096 % 64, 128 + c / 64 % 64] = .pref ∧
    classify [252 + c / 1073741824, 128 + c / 16777216 % 64, 128 + c / 262144 % 64, 128 + c / 4096 % 64, 128 + c / 64 % 64, 128 + c % 64] = .char c := by
  have hl : seqLen (252 + c / 1073741824) = 6 := seqLen_6 (by omega) (by omega)
  have hs : isSurrogate c = false := surrogate_false_of_gt (by omega)
  have hc : (((((252 + c / 1073741824) % 2 * 64 + (128 + c / 16777216 % 64) % 64) * 64 + (128 + c / 262144 % 64) % 64) * 64 + (128 + c / 4096 % 64) % 64) * 64 + (128 + c / 64 % 64) % 64) * 64 + (128 + c % 64) % 64 = c := by omega
  refine ⟨?_, ?_, ?_, ?_, ?_, ?_⟩
  · classify_eval
  · classify_eval
  · classify_eval
  · classify_eval
  · classify_eval
  · classify_eval; simp; omega


theorem encodeWc_zero' : encodeWc 0 = [0] := by decide

end Fcppt.C15
