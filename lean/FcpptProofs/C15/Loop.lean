import FcpptModel.Model.C15
/-! The `impl::codecvt` loop over an abstract converter: contract, termination, complete-or-failure. -/
namespace Fcppt.C15

/-- `R s a x s'`: converting exactly the input `a` from state `s` yields exactly `x` and leaves state `s'`.
The meaning of "conversion" for a converter; it has to be compatible with concatenation. -/
structure Compositional {σ In Out : Type} (R : σ → List In → List Out → σ → Prop) : Prop where
  nil : ∀ s, R s [] [] s
  append : ∀ {s s1 s2 a b x y}, R s a x s1 → R s1 b y s2 → R s (a ++ b) (x ++ y) s2

/-- What the loop relies on (the contract of `std::codecvt::in/out` as far as the loop needs it):
* `window`: the call writes inside `[to, to_end)`;
* `bound`: it reads inside `[from, from_end)`;
* `sound`: unless it reports `error` (or `noconv`), what it wrote is the conversion of what it consumed and the state
  it leaves is the state after that input;
* `progress`: output is only produced from consumed input. -/
structure Contract {σ In Out : Type} (cv : Converter σ In Out) (R : σ → List In → List Out → σ → Prop) : Prop where
  window : ∀ s inp w, (cv.step s inp w).produced.length ≤ w
  bound : ∀ s inp w, (cv.step s inp w).consumed ≤ inp.length
  sound : ∀ s inp w, (cv.step s inp w).res = .ok ∨ (cv.step s inp w).res = .part →
    R s (inp.take (cv.step s inp w).consumed) (cv.step s inp w).produced (cv.step s inp w).state
  progress : ∀ s inp w, (cv.step s inp w).res = .ok ∨ (cv.step s inp w).res = .part →
    (cv.step s inp w).produced ≠ [] → 0 < (cv.step s inp w).consumed

/-- what a finished loop may have returned -/
def Outcome {σ In Out : Type} (cv : Converter σ In Out) (R : σ → List In → List Out → σ → Prop) (string : List In)
    (res : Option (List Out)) : Prop :=
  res = none ∨ (res = some (string.map cv.cast) ∧ ∃ s inp w, (cv.step s inp w).res = .noconv) ∨
    ∃ out s', res = some out ∧ R cv.init string out s' ∧ cv.isInit s' = true

/-- measure: twice the remaining input, plus one while the window is smaller than a whole character -/
def loopMeasure {Out : Type} (n maxLength frm : Nat) (buf : Buf Out) : Nat :=
  2 * (n - frm) + (if buf.writeSize < max maxLength 1 then 1 else 0)

theorem resize_data {Out : Type} (b : Buf Out) (sz : Nat) : (b.resizeWriteArea sz).data = b.data := by
  unfold Buf.resizeWriteArea; split <;> rfl

theorem resize_writeSize {Out : Type} (b : Buf Out) (sz : Nat) : (b.resizeWriteArea sz).writeSize = sz := by
  unfold Buf.resizeWriteArea; split <;> rfl

theorem take_add_drop {α : Type} (l : List α) (i k : Nat) : l.take i ++ (l.drop i).take k = l.take (i + k) := by
  induction l generalizing i with
  | nil => simp
  | cons a l ih =>
    cases i with
    | zero => simp
    | succ i => simp [Nat.succ_add, ih]

theorem loop_outcome {σ In Out : Type} (cv : Converter σ In Out) (R : σ → List In → List Out → σ → Prop)
    (hc : Contract cv R) (hR : Compositional R) (string : List In) :
    ∀ (fuel : Nat) (state : σ) (frm : Nat) (buf : Buf Out),
      frm ≤ string.length → R cv.init (string.take frm) buf.data state →
      loopMeasure string.length cv.maxLength frm buf < fuel →
      ∃ res, codecvtLoop cv string fuel state frm buf = .ok res ∧ Outcome cv R string res := by
  intro fuel
  induction fuel with
  | zero => intro _ _ _ _ _ h; omega
  | succ fuel ih =>
    intro state frm buf hfrm hinv hfuel
    unfold codecvtLoop
    simp only
    generalize hr : cv.step state (string.drop frm) buf.writeSize = r
    have hwin : r.produced.length ≤ buf.writeSize := by rw [← hr]; exact hc.window _ _ _
    have hbd : r.consumed ≤ string.length - frm := by
      have := hc.bound state (string.drop frm) buf.writeSize
      rw [hr, List.length_drop] at this; exact this
    rw [if_neg (by omega)]
    have hsound : r.res = .ok ∨ r.res = .part → R cv.init (string.take (frm + r.consumed)) (buf.data ++ r.produced) r.state := by
      intro h
      have := hc.sound state (string.drop frm) buf.writeSize (by rw [hr]; exact h)
      rw [hr] at this
      rw [← take_add_drop]
      exact hR.append hinv this
    have hprog : r.res = .ok ∨ r.res = .part → r.produced ≠ [] → 0 < r.consumed := by
      intro h hp
      have := hc.progress state (string.drop frm) buf.writeSize (by rw [hr]; exact h) (by rw [hr]; exact hp)
      rw [hr] at this; exact this
    -- the common tail: partial, or ok with input left over
    have hgrow : r.res = .ok ∨ r.res = .part →
        ∃ res, (if r.produced.length = 0 ∧ (buf.written r.produced).writeSize ≥ max cv.maxLength 1 then (Except.ok none : Except Fault (Option (List Out)))
          else codecvtLoop cv string fuel r.state (frm + r.consumed)
            ((buf.written r.produced).resizeWriteArea (max ((buf.written r.produced).data.length * 2) (max cv.maxLength 1)))) = .ok res ∧
          Outcome cv R string res := by
      intro hres
      by_cases hstop : r.produced.length = 0 ∧ (buf.written r.produced).writeSize ≥ max cv.maxLength 1
      · rw [if_pos hstop]; exact ⟨none, rfl, Or.inl rfl⟩
      · rw [if_neg hstop]
        apply ih
        · omega
        · rw [resize_data]; exact hsound hres
        · unfold loopMeasure at hfuel ⊢
          rw [resize_writeSize]
          have hnl : ¬ (max ((buf.written r.produced).data.length * 2) (max cv.maxLength 1) < max cv.maxLength 1) := by omega
          rw [if_neg hnl]
          by_cases hw : r.produced.length = 0
          · have hws : (buf.written r.produced).writeSize = buf.writeSize := by simp [Buf.written, hw]
            rw [hws] at hstop
            have : buf.writeSize < max cv.maxLength 1 := by omega
            rw [if_pos this] at hfuel
            omega
          · have : 0 < r.consumed := hprog hres (by intro h; rw [h] at hw; exact hw rfl)
            split at hfuel <;> omega
    cases hres : r.res with
    | noconv => exact ⟨_, rfl, Or.inr (Or.inl ⟨rfl, state, string.drop frm, buf.writeSize, by rw [hr]; exact hres⟩)⟩
    | error => exact ⟨none, rfl, Or.inl rfl⟩
    | part => simp only; exact hgrow (Or.inr hres)
    | ok =>
      simp only
      by_cases hend : frm + r.consumed = string.length
      · rw [if_pos hend]
        by_cases hinit : cv.isInit r.state = true
        · simp only [hinit, Bool.not_true, Bool.false_eq_true, if_false]
          refine ⟨_, rfl, Or.inr (Or.inr ⟨_, r.state, rfl, ?_, hinit⟩)⟩
          have := hsound (Or.inl hres)
          rw [hend, List.take_length] at this
          exact this
        · have : cv.isInit r.state = false := by cases h : cv.isInit r.state <;> simp_all
          simp only [this, Bool.not_false, if_true]
          exact ⟨none, rfl, Or.inl rfl⟩
      · rw [if_neg hend]; exact hgrow (Or.inl hres)


/-- The converter does not get stuck on "good" input (`Good state remaining`): it never reports an error there, keeps
the input good, converts at least one character whenever the window has room for a whole one, reports `ok` when it
consumed everything, and is back in the initial state at the end of good input. -/
structure Live {σ In Out : Type} (cv : Converter σ In Out) (Good : σ → List In → Prop) : Prop where
  noError : ∀ s inp w, Good s inp → (cv.step s inp w).res = .ok ∨ (cv.step s inp w).res = .part
  keep : ∀ s inp w, Good s inp → Good (cv.step s inp w).state (inp.drop (cv.step s inp w).consumed)
  fits : ∀ s inp w, Good s inp → inp ≠ [] → max cv.maxLength 1 ≤ w → (cv.step s inp w).produced ≠ []
  allOk : ∀ s inp w, Good s inp → (cv.step s inp w).consumed = inp.length → (cv.step s inp w).res = .ok
  done : ∀ s, Good s [] → cv.isInit s = true

theorem loop_succeeds {σ In Out : Type} (cv : Converter σ In Out) (R : σ → List In → List Out → σ → Prop)
    (hc : Contract cv R) (Good : σ → List In → Prop) (hl : Live cv Good) (string : List In) :
    ∀ (fuel : Nat) (state : σ) (frm : Nat) (buf : Buf Out),
      frm < string.length → Good state (string.drop frm) →
      loopMeasure string.length cv.maxLength frm buf < fuel →
      ∃ out, codecvtLoop cv string fuel state frm buf = .ok (some out) := by
  intro fuel
  induction fuel with
  | zero => intro _ _ _ _ _ h; omega
  | succ fuel ih =>
    intro state frm buf hfrm hgood hfuel
    unfold codecvtLoop
    simp only
    have hne : string.drop frm ≠ [] := by
      intro h; have := congrArg List.length h; simp at this; omega
    generalize hr : cv.step state (string.drop frm) buf.writeSize = r
    have hwin : r.produced.length ≤ buf.writeSize := by rw [← hr]; exact hc.window _ _ _
    have hbd : r.consumed ≤ string.length - frm := by
      have := hc.bound state (string.drop frm) buf.writeSize
      rw [hr, List.length_drop] at this; exact this
    rw [if_neg (by omega)]
    have hres : r.res = .ok ∨ r.res = .part := by rw [← hr]; exact hl.noError _ _ _ hgood
    have hkeep : Good r.state (string.drop (frm + r.consumed)) := by
      have := hl.keep state (string.drop frm) buf.writeSize hgood
      rw [hr, List.drop_drop] at this; exact this
    have hprog : r.produced ≠ [] → 0 < r.consumed := by
      intro hp
      have := hc.progress state (string.drop frm) buf.writeSize (by rw [hr]; exact hres) (by rw [hr]; exact hp)
      rw [hr] at this; exact this
    have hgrow : frm + r.consumed ≠ string.length →
        ∃ out, (if r.produced.length = 0 ∧ (buf.written r.produced).writeSize ≥ max cv.maxLength 1 then (Except.ok none : Except Fault (Option (List Out)))
          else codecvtLoop cv string fuel r.state (frm + r.consumed)
            ((buf.written r.produced).resizeWriteArea (max ((buf.written r.produced).data.length * 2) (max cv.maxLength 1)))) = .ok (some out) := by
      intro hnend
      have hstop : ¬ (r.produced.length = 0 ∧ (buf.written r.produced).writeSize ≥ max cv.maxLength 1) := by
        intro ⟨h0, hws⟩
        have hws' : (buf.written r.produced).writeSize = buf.writeSize := by simp [Buf.written, h0]
        rw [hws'] at hws
        have := hl.fits state (string.drop frm) buf.writeSize hgood hne hws
        rw [hr] at this
        exact this (List.eq_nil_of_length_eq_zero h0)
      rw [if_neg hstop]
      apply ih
      · omega
      · exact hkeep
      · unfold loopMeasure at hfuel ⊢
        rw [resize_writeSize]
        have hnl : ¬ (max ((buf.written r.produced).data.length * 2) (max cv.maxLength 1) < max cv.maxLength 1) := by omega
        rw [if_neg hnl]
        by_cases hw : r.produced.length = 0
        · have hws : (buf.written r.produced).writeSize = buf.writeSize := by simp [Buf.written, hw]
          rw [hws] at hstop
          have : buf.writeSize < max cv.maxLength 1 := by omega
          rw [if_pos this] at hfuel
          omega
        · have : 0 < r.consumed := hprog (by intro h; rw [h] at hw; exact hw rfl)
          split at hfuel <;> omega
    rcases hres with hres | hres
    · rw [hres]
      simp only
      by_cases hend : frm + r.consumed = string.length
      · rw [if_pos hend]
        have hinit : cv.isInit r.state = true := by
          apply hl.done
          have := hkeep
          rw [hend, List.drop_length] at this
          exact this
        simp only [hinit, Bool.not_true, Bool.false_eq_true, if_false]
        exact ⟨_, rfl⟩
      · rw [if_neg hend]; exact hgrow hend
    · rw [hres]
      simp only
      apply hgrow
      intro hend
      have : r.consumed = (string.drop frm).length := by rw [List.length_drop]; omega
      have := hl.allOk state (string.drop frm) buf.writeSize hgood (by rw [hr]; exact this)
      rw [hr, hres] at this
      cases this

/-- `impl::codecvt` as a whole: it terminates without leaving the window or the input, and what it returns is a failure
or the conversion of the **complete** input ending in the initial state (or the input itself if the facet said `noconv`). -/
theorem codecvt_outcome {σ In Out : Type} (cv : Converter σ In Out) (R : σ → List In → List Out → σ → Prop)
    (hc : Contract cv R) (hR : Compositional R) (hinit : cv.isInit cv.init = true) (string : List In) :
    ∃ res, codecvt cv string = .ok res ∧ Outcome cv R string res := by
  unfold codecvt
  by_cases he : string.isEmpty = true
  · rw [if_pos he]
    have : string = [] := List.isEmpty_iff.1 he
    subst this
    exact ⟨_, rfl, Or.inr (Or.inr ⟨[], cv.init, rfl, hR.nil _, hinit⟩)⟩
  · rw [if_neg he]
    apply loop_outcome cv R hc hR string _ _ _ _ (Nat.zero_le _)
    · simpa [Buf.create] using hR.nil cv.init
    · unfold loopMeasure loopFuel Buf.create; simp only; split <;> omega

theorem codecvt_succeeds {σ In Out : Type} (cv : Converter σ In Out) (R : σ → List In → List Out → σ → Prop)
    (hc : Contract cv R) (Good : σ → List In → Prop) (hl : Live cv Good) (string : List In) (hg : Good cv.init string) :
    ∃ out, codecvt cv string = .ok (some out) := by
  unfold codecvt
  by_cases he : string.isEmpty = true
  · rw [if_pos he]; exact ⟨_, rfl⟩
  · rw [if_neg he]
    have hne : string ≠ [] := fun h => he (by simp [h])
    apply loop_succeeds cv R hc Good hl string
    · exact List.length_pos_iff.2 hne
    · simpa using hg
    · unfold loopMeasure loopFuel Buf.create; simp only; split <;> omega

end Fcppt.C15
