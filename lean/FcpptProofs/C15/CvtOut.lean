import FcpptProofs.C15.Loop
import FcpptProofs.C15.Utf8
/-! The concrete `out` facet (`utf8Out`) satisfies the loop's contract; it never gets stuck on valid input. -/
namespace Fcppt.C15

/-- conversion wide → UTF-8: every character is one the encoder accepts, the bytes are the concatenated encodings -/
def OutRel (_ : Unit) (ws bs : List Nat) (_ : Unit) : Prop := (∀ c ∈ ws, validWc c = true) ∧ bs = ws.flatMap encodeWc

theorem outRel_compositional : Compositional OutRel where
  nil := fun _ => ⟨by simp, by simp⟩
  append := by
    intro _ _ _ a b x y h1 h2
    refine ⟨?_, ?_⟩
    · intro c hc
      rcases List.mem_append.1 hc with h | h
      · exact h1.1 c h
      · exact h2.1 c h
    · rw [h1.2, h2.2, List.flatMap_append]

theorem encodeWc_zero : encodeWc 0 = [0] := by decide

theorem encodeWc_length (c : Nat) : 1 ≤ (encodeWc c).length ∧ (encodeWc c).length ≤ 6 := by
  unfold encodeWc; repeat (any_goals (first | (constructor <;> simp <;> done) | split))

/-- everything one needs to know about a run of `outGo` -/
theorem outGo_spec (inp : List Nat) : ∀ (atTop : Bool) (room consumed : Nat) (acc : List Nat),
    ∃ k out, k ≤ inp.length ∧ (outGo atTop inp room consumed acc).consumed = consumed + k ∧
      (outGo atTop inp room consumed acc).produced = acc.reverse ++ out ∧ out.length ≤ room ∧
      (∀ c ∈ inp.take k, validWc c = true) ∧ out = (inp.take k).flatMap encodeWc ∧ (out ≠ [] → 0 < k) ∧
      (outGo atTop inp room consumed acc).res ≠ .noconv ∧
      ((outGo atTop inp room consumed acc).res = .part → k < inp.length) ∧
      ((outGo atTop inp room consumed acc).res = .error → ∃ c, inp[k]? = some c ∧ validWc c = false) ∧
      ((outGo atTop inp room consumed acc).res = .ok → k < inp.length → atTop = true ∨ 0 < k) := by
  induction inp with
  | nil =>
    intro atTop room consumed acc
    exact ⟨0, [], by simp, by simp [outGo], by simp [outGo], by simp, by simp, by simp, by simp, by simp [outGo], by simp [outGo], by simp [outGo],
      by simp⟩
  | cons c r ih =>
    intro atTop room consumed acc
    unfold outGo
    by_cases h1 : (atTop && room == 0) = true
    · simp only [h1, if_true]
      exact ⟨0, [], by simp, by simp, by simp, by simp, by simp, by simp, by simp, by simp, by simp, by simp, by simp at h1; simp [h1.1]⟩
    · simp only [h1, if_false, Bool.false_eq_true]
      by_cases h2 : (c == 0) = true
      · have hc0 : c = 0 := by simpa using h2
        simp only [h2, if_true]
        by_cases h3 : (room == 0) = true
        · simp only [h3, if_true]
          exact ⟨0, [], by simp, by simp, by simp, by simp, by simp, by simp, by simp, by simp, by simp, by simp, by simp⟩
        · simp only [h3, if_false, Bool.false_eq_true]
          have hroom : 0 < room := by simp at h3; omega
          obtain ⟨k, out, hk, hcons, hprod, hlen, hval, hout, _, hnn, hpart, herr, hok⟩ := ih true (room - 1) (consumed + 1) (0 :: acc)
          refine ⟨k + 1, 0 :: out, by simp; omega, by rw [hcons]; omega, by rw [hprod]; simp, by simp; omega, ?_, ?_, by simp, hnn,
            fun h => by have := hpart h; simp; omega, ?_, fun _ _ => Or.inr (by omega)⟩
          · intro x hx; simp at hx
            rcases hx with hx | hx
            · subst hx; rw [hc0]; decide
            · exact hval x hx
          · simp [hc0, encodeWc_zero, hout]
          · intro h; obtain ⟨x, hx1, hx2⟩ := herr h; exact ⟨x, by simpa using hx1, hx2⟩
      · simp only [h2, if_false, Bool.false_eq_true]
        by_cases h3 : (room == 0) = true
        · simp only [h3, if_true]
          exact ⟨0, [], by simp, by simp, by simp, by simp, by simp, by simp, by simp, by simp, by simp, by simp, by simp⟩
        · simp only [h3, if_false, Bool.false_eq_true]
          by_cases h4 : validWc c = true
          · simp only [h4, Bool.not_true, if_false, Bool.false_eq_true]
            by_cases h5 : (encodeWc c).length > room
            · simp only [h5, if_true]
              exact ⟨0, [], by simp, by simp, by simp, by simp, by simp, by simp, by simp, by simp, by simp, by simp, by simp⟩
            · simp only [h5, if_false]
              obtain ⟨k, out, hk, hcons, hprod, hlen, hval, hout, _, hnn, hpart, herr, hok⟩ :=
                ih false (room - (encodeWc c).length) (consumed + 1) ((encodeWc c).reverse ++ acc)
              refine ⟨k + 1, encodeWc c ++ out, by simp; omega, by rw [hcons]; omega, by rw [hprod]; simp, by simp; omega, ?_, ?_,
                by simp, hnn, fun h => by have := hpart h; simp; omega, ?_, fun _ _ => Or.inr (by omega)⟩
              · intro x hx; simp at hx
                rcases hx with hx | hx
                · subst hx; exact h4
                · exact hval x hx
              · simp [hout]
              · intro h; obtain ⟨x, hx1, hx2⟩ := herr h; exact ⟨x, by simpa using hx1, hx2⟩
          · have h4' : validWc c = false := by cases h : validWc c <;> simp_all
            simp only [h4', Bool.not_false, if_true]
            exact ⟨0, [], by simp, by simp, by simp, by simp, by simp, by simp, by simp, by simp, by simp,
              fun _ => ⟨c, by simp, h4'⟩, by simp⟩

theorem utf8Out_contract : Contract utf8Out OutRel where
  window := by
    intro s inp w
    obtain ⟨k, out, _, _, hprod, hlen, _⟩ := outGo_spec inp true w 0 []
    show (outGo true inp w 0 []).produced.length ≤ w
    rw [hprod]; simpa using hlen
  bound := by
    intro s inp w
    obtain ⟨k, out, hk, hcons, _⟩ := outGo_spec inp true w 0 []
    show (outGo true inp w 0 []).consumed ≤ inp.length
    rw [hcons]; omega
  sound := by
    intro s inp w _
    obtain ⟨k, out, hk, hcons, hprod, hlen, hval, hout, _⟩ := outGo_spec inp true w 0 []
    show OutRel _ (inp.take (outGo true inp w 0 []).consumed) (outGo true inp w 0 []).produced _
    rw [hcons, hprod]; simp only [Nat.zero_add, List.reverse_nil, List.nil_append]
    exact ⟨hval, hout⟩
  progress := by
    intro s inp w _ hp
    obtain ⟨k, out, hk, hcons, hprod, hlen, hval, hout, hpos, _⟩ := outGo_spec inp true w 0 []
    show 0 < (outGo true inp w 0 []).consumed
    rw [hcons]
    have : (outGo true inp w 0 []).produced ≠ [] := hp
    rw [hprod] at this
    have := hpos (by simpa using this)
    omega

theorem utf8Out_never_noconv (s : Unit) (inp : List Nat) (w : Nat) : (utf8Out.step s inp w).res ≠ .noconv := by
  obtain ⟨_, _, _, _, _, _, _, _, _, hnn, _⟩ := outGo_spec inp true w 0 []
  exact hnn


/-- good input for the encoder: only characters it accepts -/
def OutGood (_ : Unit) (inp : List Nat) : Prop := ∀ c ∈ inp, validWc c = true

theorem utf8Out_live : Live utf8Out OutGood where
  noError := by
    intro s inp w hg
    obtain ⟨k, out, hk, _, _, _, _, _, _, hnn, _, herr, _⟩ := outGo_spec inp true w 0 []
    show (outGo true inp w 0 []).res = .ok ∨ (outGo true inp w 0 []).res = .part
    cases hres : (outGo true inp w 0 []).res with
    | ok => exact Or.inl rfl
    | part => exact Or.inr rfl
    | noconv => exact absurd hres hnn
    | error =>
      obtain ⟨c, hc1, hc2⟩ := herr hres
      have := hg c (List.mem_of_getElem? hc1)
      rw [hc2] at this; cases this
  keep := by
    intro s inp w hg c hc
    exact hg c (List.mem_of_mem_drop hc)
  fits := by
    intro s inp w hg hne hw
    show (outGo true inp w 0 []).produced ≠ []
    have hw6 : 6 ≤ w := by simpa [utf8Out] using hw
    cases inp with
    | nil => exact absurd rfl hne
    | cons c r =>
      have hv := hg c (by simp)
      unfold outGo
      have h3 : (w == 0) = false := by simp; omega
      simp only [Bool.true_and, h3, Bool.false_eq_true, if_false]
      by_cases h2 : (c == 0) = true
      · simp only [h2, if_true]
        obtain ⟨k, out, _, _, hprod, _⟩ := outGo_spec r true (w - 1) (0 + 1) [0]
        rw [hprod]; simp
      · simp only [h2, Bool.false_eq_true, if_false, hv, Bool.not_true]
        have hlen := encodeWc_length c
        have hfit : ¬ (encodeWc c).length > w := by omega
        rw [if_neg hfit]
        obtain ⟨k, out, _, _, hprod, _⟩ := outGo_spec r false (w - (encodeWc c).length) (0 + 1) ((encodeWc c).reverse ++ [])
        rw [hprod]
        intro h
        have := congrArg List.length h
        simp only [List.length_append, List.length_reverse, List.length_nil] at this; omega
  allOk := by
    intro s inp w _ hall
    obtain ⟨k, out, hk, hcons, _, _, _, _, _, hnn, hpart, herr, _⟩ := outGo_spec inp true w 0 []
    show (outGo true inp w 0 []).res = .ok
    have hk' : k = inp.length := by
      have : (outGo true inp w 0 []).consumed = inp.length := hall
      omega
    cases hres : (outGo true inp w 0 []).res with
    | ok => rfl
    | part => have := hpart hres; omega
    | noconv => exact absurd hres hnn
    | error =>
      obtain ⟨c, hc1, _⟩ := herr hres
      rw [hk'] at hc1; simp at hc1
  done := fun _ _ => rfl

theorem outRel_functional {ws : List Nat} {b1 b2 : List Nat} (h1 : OutRel () ws b1 ()) (h2 : OutRel () ws b2 ()) : b1 = b2 := by
  rw [h1.2, h2.2]

/-- `narrow_locale` never faults and returns a failure or the encoding of the **complete** string -/
theorem narrowLocale_outcome (ws : List Nat) :
    narrowLocale ws = .ok none ∨ (narrowLocale ws = .ok (some (ws.flatMap encodeWc)) ∧ ∀ c ∈ ws, validWc c = true) := by
  obtain ⟨res, hres, hout⟩ := codecvt_outcome utf8Out OutRel utf8Out_contract outRel_compositional rfl ws
  unfold narrowLocale
  rw [hres]
  rcases hout with h | h | ⟨out, s', h, hr, _⟩
  · exact Or.inl (by rw [h])
  · obtain ⟨_, s, inp, w, hn⟩ := h
    exact absurd hn (utf8Out_never_noconv s inp w)
  · exact Or.inr ⟨by rw [h, hr.2], hr.1⟩


/-- … and for a string of valid characters it is the encoding (all buffer sizes and growth paths) -/
theorem narrowLocale_valid (ws : List Nat) (hv : ∀ c ∈ ws, validWc c = true) :
    narrowLocale ws = .ok (some (ws.flatMap encodeWc)) := by
  obtain ⟨out, hout⟩ := codecvt_succeeds utf8Out OutRel utf8Out_contract OutGood utf8Out_live ws hv
  rcases narrowLocale_outcome ws with h | h
  · unfold narrowLocale at h; rw [hout] at h; cases h
  · exact h.1

end Fcppt.C15
