import FcpptProofs.C15.Loop
/-! The scripted converters of `Model/C15/Toy.lean` write inside the window, read inside the input and produce output only
from consumed input — so the loop terminates without a fault on every one of them, whatever they report. -/
namespace Fcppt.C15

theorem toyGo_spec (p : Toy) (st : Nat) (inp : List Nat) (room cnt : Nat) (acc : List Nat) :
    (toyGo p st inp room cnt acc).produced.length ≤ acc.length + room ∧
    cnt ≤ (toyGo p st inp room cnt acc).consumed ∧
    (toyGo p st inp room cnt acc).consumed ≤ cnt + inp.length ∧
    (acc.length < (toyGo p st inp room cnt acc).produced.length → cnt < (toyGo p st inp room cnt acc).consumed) := by
  fun_induction toyGo p st inp room cnt acc <;> simp_all [toyFull] <;> omega

/-- any relation at all is respected: only `window`, `bound` and `progress` carry information -/
def AnyRel : Nat → List Nat → List Nat → Nat → Prop := fun _ _ _ _ => True

theorem anyRel_compositional : Compositional AnyRel := ⟨fun _ => trivial, fun _ _ => trivial⟩

theorem toy_contract (p : Toy) (wide : Bool) : Contract (toyConverter p wide) AnyRel := by
  refine ⟨fun s inp w => ?_, fun s inp w => ?_, fun _ _ _ _ => trivial, fun s inp w _ hp => ?_⟩
  · have := (toyGo_spec p s inp w 0 []).1
    simpa [toyConverter, toyStep] using this
  · have := (toyGo_spec p s inp w 0 []).2.2.1
    simpa [toyConverter, toyStep] using this
  · have := (toyGo_spec p s inp w 0 []).2.2.2
    simp only [toyConverter, toyStep] at hp ⊢
    apply this
    simp only [List.length_nil]
    exact List.length_pos_iff.mpr hp

end Fcppt.C15
