import FcpptProofs.C15.Loop
/-! The scripted converters of `Model/C15/Toy.lean` write inside the window, read inside the input and produce output only
from consumed input — so the loop terminates without a fault on every one of them, whatever they report. -/
namespace Fcppt.C15

theorem toyGo_spec (p : Toy) (st : Nat) (inp : List Nat) (room cnt : Nat) (acc : List Nat) :
    (toyGo p st inp room cnt acc).produced.length ≤ acc.length + room ∧
    cnt ≤ (toyGo p st inp room cnt acc).consumed ∧
    (toyGo p st inp room cnt acc).consumed ≤ cnt + inp.length ∧
    (acc.length < (toyGo p st inp room cnt acc).produced.length → cnt < (toyGo p st inp room cnt acc).consumed) := by
  fun_induction toyGo p st inp room cnt acc <;> simp_all [toyFull] <;> omega

/-- any relation at all is respected: only `window`, `bound` and `progress` carry information -/
def AnyRel : Nat → List Nat → List Nat → Nat → Prop := fun _ _ _ _ => True

theorem anyRel_compositional : Compositional AnyRel := ⟨fun _ => trivial, fun _ _ => trivial⟩

theorem toy_contract (p : Toy) (wide : Bool) : Contract (toyConverter p wide) AnyRel := by
  refine ⟨fun s inp w => ?_, fun s inp w => ?_, fun _ _ _ _ => trivial, fun s inp w _ hp => ?_⟩
  · have := (toyGo_spec p s inp w 0 []).1
    simpa [toyConverter, toyStep] using this
  · have := (toyGo_spec p s inp w 0 []).2.2.1
    simpa [toyConverter, toyStep] using this
  · have := (toyGo_spec p s inp w 0 []).2.2.2
    simp only [toyConverter, toyStep] at hp ⊢
    apply this
    simp only [List.length_nil]
    exact List.length_pos_iff.mpr hp

/-- what "conversion" means for the scripted converters: `ToyRel s a x s'` — the units `a`, starting in state `s`,
become the units `x` and leave state `s'` -/
inductive ToyRel : Nat → List Nat → List Nat → Nat → Prop
  | nil (st : Nat) : ToyRel st [] [] st
  | follow {st c : Nat} {r out : List Nat} {st' : Nat} : st ≠ 0 → ToyRel 0 r out st' → ToyRel st (c :: r) (((st - 1 + c) % 256) :: out) st'
  | lead {c : Nat} {r out : List Nat} {st' : Nat} : c % 256 ≠ 0xEE → c % 256 ≠ 0xFD → c % 256 % 16 = 15 →
      ToyRel (1 + c % 256) r out st' → ToyRel 0 (c :: r) out st'
  | plain {c : Nat} {r out : List Nat} {st' : Nat} : c % 256 ≠ 0xEE → c % 256 ≠ 0xFD → c % 256 % 16 ≠ 15 →
      ToyRel 0 r out st' → ToyRel 0 (c :: r) (List.replicate (1 + c % 256 % 3) ((c % 256 + 1) % 256) ++ out) st'

theorem toyRel_append {s s1 s2 : Nat} {a b x y : List Nat} (h1 : ToyRel s a x s1) (h2 : ToyRel s1 b y s2) : ToyRel s (a ++ b) (x ++ y) s2 := by
  induction h1 with
  | nil st => exact h2
  | follow hs _ ih => exact ToyRel.follow hs (ih h2)
  | lead h1 h2' h3 _ ih => exact ToyRel.lead h1 h2' h3 (ih h2)
  | plain h1 h2' h3 _ ih => rw [List.cons_append, List.append_assoc]; exact ToyRel.plain h1 h2' h3 (ih h2)

theorem toyRel_compositional : Compositional ToyRel := ⟨ToyRel.nil, toyRel_append⟩

/-- the relation is a function of state and input -/
theorem toyRel_functional {s : Nat} {a x y : List Nat} {s1 s2 : Nat} (h1 : ToyRel s a x s1) (h2 : ToyRel s a y s2) : x = y ∧ s1 = s2 := by
  induction h1 generalizing y s2 with
  | nil st => cases h2; exact ⟨rfl, rfl⟩
  | follow hs _ ih =>
    cases h2 with
    | follow _ h => obtain ⟨e1, e2⟩ := ih h; exact ⟨by rw [e1], e2⟩
    | lead => exact absurd rfl hs
    | plain => exact absurd rfl hs
  | lead a1 a2 a3 _ ih =>
    cases h2 with
    | follow hs _ => exact absurd rfl hs
    | lead _ _ _ h => exact ih h
    | plain _ _ b3 _ => exact absurd a3 b3
  | plain a1 a2 a3 _ ih =>
    cases h2 with
    | follow hs _ => exact absurd rfl hs
    | lead _ _ b3 _ => exact absurd b3 a3
    | plain _ _ _ h => obtain ⟨e1, e2⟩ := ih h; exact ⟨by rw [e1], e2⟩

/-- one call: what it produced is the conversion of what it consumed -/
theorem toyGo_sound (p : Toy) (st : Nat) (inp : List Nat) (room cnt : Nat) (acc : List Nat)
    (h : (toyGo p st inp room cnt acc).res = .ok ∨ (toyGo p st inp room cnt acc).res = .part) :
    ∃ k out, (toyGo p st inp room cnt acc).consumed = cnt + k ∧ (toyGo p st inp room cnt acc).produced = acc.reverse ++ out ∧
      ToyRel st (inp.take k) out (toyGo p st inp room cnt acc).state := by
  fun_induction toyGo p st inp room cnt acc
  all_goals try (exact ⟨0, [], by simp, by simp, by simpa using ToyRel.nil _⟩)
  all_goals try (simp [toyFull]; done)
  all_goals try (simp at h; done)
  · exact ⟨0, [], by simp [toyFull], by simp [toyFull], by simpa [toyFull] using ToyRel.nil _⟩
  · rename_i st c r room cnt acc _ h2 _ ih
    obtain ⟨k, out, e1, e2, e3⟩ := ih h
    refine ⟨k + 1, ((st - 1 + c) % 256) :: out, by omega, by simp [e2], ?_⟩
    simpa using ToyRel.follow h2 e3
  · rename_i st c r room cnt acc _ h2 b _ _ _ _
    have : st = 0 := by omega
    subst this
    exact ⟨0, [], by simp, by simp, by simpa using ToyRel.nil _⟩
  · rename_i st c r room cnt acc _ h2 b h3 h4 h5 _ ih
    have : st = 0 := by omega
    subst this
    obtain ⟨k, out, e1, e2, e3⟩ := ih h
    refine ⟨k + 1, out, by omega, e2, ?_⟩
    simpa using ToyRel.lead h3 h4 h5 e3
  · exact ⟨0, [], by simp [toyFull], by simp [toyFull], by simpa [toyFull] using ToyRel.nil _⟩
  · rename_i st c r room cnt acc _ h2 b h3 h4 h5 need _ ih
    have : st = 0 := by omega
    subst this
    obtain ⟨k, out, e1, e2, e3⟩ := ih h
    refine ⟨k + 1, List.replicate need ((b + 1) % 256) ++ out, by omega, by simp [e2], ?_⟩
    have := ToyRel.plain h3 h4 h5 e3
    simp only [List.take_succ_cons]
    exact this


theorem toy_contract_sound (p : Toy) (wide : Bool) : Contract (toyConverter p wide) ToyRel := by
  have hc := toy_contract p wide
  refine ⟨hc.window, hc.bound, fun s inp w h => ?_, hc.progress⟩
  obtain ⟨k, out, e1, e2, e3⟩ := toyGo_sound p s inp w 0 [] h
  simp only [toyConverter, toyStep] at h ⊢
  simp only [Nat.zero_add, List.reverse_nil, List.nil_append] at e1 e2
  rw [e1, e2]; exact e3

end Fcppt.C15
