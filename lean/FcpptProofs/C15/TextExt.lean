import FcpptProofs.C15.EnumVec
import FcpptProofs.C15.Extract
/-! Lemmas for the neighbouring textual API: white space in front of a token, `bool`, words, grouping, several vectors. -/
namespace Fcppt.C15

/-! ## white space in front of a token is skipped by every formatted extraction -/

theorem dropWhile_space_append (ws b : List Ch) (hws : ∀ c ∈ ws, isSpace c = true) :
    (ws ++ b).dropWhile isSpace = b.dropWhile isSpace := by
  induction ws with
  | nil => rfl
  | cons c ws ih =>
    have hc := hws c (by simp)
    simp [hc, ih (fun x hx => hws x (by simp [hx]))]

theorem sentry_skip (ws b : List Ch) (hws : ∀ c ∈ ws, isSpace c = true) :
    sentry { buf := ws ++ b, eof := false, fail := false } false = sentry { buf := b, eof := false, fail := false } false := by
  simp [sentry, IStream.good, dropWhile_space_append ws b hws]

theorem getChar_skip (ws b : List Ch) (hws : ∀ c ∈ ws, isSpace c = true) :
    getChar { buf := ws ++ b, eof := false, fail := false } = getChar { buf := b, eof := false, fail := false } := by
  unfold getChar; rw [sentry_skip ws b hws]

theorem getWord_skip (ws b : List Ch) (hws : ∀ c ∈ ws, isSpace c = true) :
    getWord { buf := ws ++ b, eof := false, fail := false } = getWord { buf := b, eof := false, fail := false } := by
  unfold getWord; rw [sentry_skip ws b hws]

theorem extractNum_skip (t : IntTy) (ws b : List Ch) (hws : ∀ c ∈ ws, isSpace c = true) :
    extractNum t { buf := ws ++ b, eof := false, fail := false } = extractNum t { buf := b, eof := false, fail := false } := by
  unfold extractNum; rw [sentry_skip ws b hws]

theorem expect_skip (ws b : List Ch) (c : Ch) (hws : ∀ x ∈ ws, isSpace x = true) :
    expect { buf := ws ++ b, eof := false, fail := false } c = expect { buf := b, eof := false, fail := false } c := by
  unfold expect; rw [getChar_skip ws b hws]

/-! ## `bool` -/

theorem extractBool_as_long (s : List Ch) (b : Bool) (h : extractFromStringG extractBool s = some b) :
    extractFromString (.num ⟨8, true⟩) s = some (if b then 1 else 0) := by
  unfold extractFromStringG extractBool extractBoolRaw at h
  unfold extractFromString extract extractNum
  simp only [show ((⟨8, true⟩ : IntTy).signed && decide ((⟨8, true⟩ : IntTy).bytes < 8)) = false by decide] at *
  cases hs : sentry (IStream.ofString s) false with
  | mk s1 ok =>
    simp only [hs] at h ⊢
    cases ok with
    | false =>
      simp only [Bool.false_eq_true, if_false] at h
      split at h <;> simp_all
    | true =>
      simp only [if_true, Bool.false_eq_true, if_false] at h ⊢
      generalize numGet ⟨8, true⟩ s1.buf = r at h ⊢
      by_cases hv : r.value = 0 ∨ r.value = 1
      · rw [if_pos hv] at h
        simp only at h ⊢
        generalize (peek { buf := r.rest, eof := s1.eof || r.eof, fail := s1.fail || r.fail }).2.isNone = P at h ⊢
        cases P with
        | false => simp at h
        | true =>
          simp only [if_true] at h ⊢
          by_cases hf : (s1.fail || r.fail) = true
          · rw [if_pos hf] at h; cases h
          · rw [if_neg hf] at h ⊢
            simp only [Option.some.injEq] at h ⊢
            subst h
            rcases hv with hv | hv <;> simp [hv]
      · rw [if_neg hv] at h
        simp at h

/-! ## words -/

theorem takeWhile_all {p : Ch → Bool} (l : List Ch) : ∀ x ∈ l.takeWhile p, p x = true := by
  induction l with
  | nil => intro x hx; simp at hx
  | cons a l ih =>
    by_cases ha : p a = true
    · rw [List.takeWhile_cons_of_pos ha]
      intro x hx
      rcases List.mem_cons.1 hx with rfl | hx
      · exact ha
      · exact ih x hx
    · simp [List.takeWhile, ha]

theorem dropWhile_nil_all {p : Ch → Bool} (l : List Ch) (h : l.dropWhile p = []) : ∀ x ∈ l, p x = true := by
  induction l with
  | nil => intro x hx; simp at hx
  | cons a l ih =>
    by_cases ha : p a = true
    · simp only [List.dropWhile_cons_of_pos ha] at h
      intro x hx
      rcases List.mem_cons.1 hx with rfl | hx
      · exact ha
      · exact ih h x hx
    · simp [List.dropWhile, ha] at h

/-- a white-space-free word behind white space is extracted completely -/
theorem extractString_of_word (ws w : List Ch) (hws : ∀ c ∈ ws, isSpace c = true) (hne : w ≠ []) (hw : ∀ c ∈ w, isSpace c = false) :
    extractFromStringG extractString (ws ++ w) = some w := by
  have := getWord_word w [] hne hw (by intro c hc; simp at hc)
  rw [List.append_nil] at this
  simp only [extractFromStringG, extractString, IStream.ofString, getWord_skip ws w hws, this]
  simp [peek, sentry, IStream.good]

/-- a result is the whole text behind the leading white space: non-empty, free of white space -/
theorem extractString_some (s w : List Ch) (h : extractFromStringG extractString s = some w) :
    w ≠ [] ∧ (∀ c ∈ w, isSpace c = false) ∧ s = s.takeWhile isSpace ++ w := by
  have hsplit := List.takeWhile_append_dropWhile (p := isSpace) (l := s)
  have hws : ∀ c ∈ s.takeWhile isSpace, isSpace c = true := takeWhile_all s
  cases hb : s.dropWhile isSpace with
  | nil =>
    exfalso
    rw [← hsplit, hb, List.append_nil] at h
    simp only [extractFromStringG, extractString, getWord, sentry, IStream.ofString] at h
    have hd : (s.takeWhile isSpace).dropWhile isSpace = [] := by
      have := dropWhile_space_append (s.takeWhile isSpace) [] hws
      simpa using this
    simp [IStream.good, hd, peek, sentry] at h
  | cons c r =>
    have hc : isSpace c = false := by
      have h1 : (s.dropWhile isSpace).head? = some c := by rw [hb]; rfl
      have := List.head?_dropWhile_not (p := isSpace) (l := s)
      rw [h1] at this
      simpa using this
    by_cases hall : ∀ x ∈ c :: r, isSpace x = false
    · have := extractString_of_word (s.takeWhile isSpace) (c :: r) hws (by simp) hall
      rw [← hb, hsplit] at this
      rw [this] at h
      cases h
      exact ⟨by rw [hb]; simp, by rw [hb]; exact hall, hsplit.symm⟩
    · exfalso
      -- the word stops in front of a white-space character, which `peek` then sees
      have hne : (c :: r).dropWhile (fun x => !isSpace x) ≠ [] := by
        intro hnil
        apply hall
        intro x hx
        have := dropWhile_nil_all _ hnil x hx
        simpa using this
      rw [← hsplit, hb] at h
      simp only [extractFromStringG, extractString, IStream.ofString, getWord_skip _ _ hws] at h
      simp only [getWord, sentry_nonspace c r hc] at h
      cases hd : (c :: r).dropWhile (fun x => !isSpace x) with
      | nil => exact absurd hd hne
      | cons d r' =>
        have hw : (c :: r).takeWhile (fun x => !isSpace x) ≠ [] := by simp [List.takeWhile, hc]
        cases ht : (c :: r).takeWhile (fun x => !isSpace x) with
        | nil => exact absurd ht hw
        | cons e w' =>
          simp [hd, ht, peek, sentry, IStream.good] at h

/-! ## grouping -/

theorem groupDigits_filter (ds : List Ch) (h : ∀ c ∈ ds, c ≠ 44) : (groupDigits ds).filter (· != 44) = ds := by
  induction ds with
  | nil => rfl
  | cons c r ih =>
    have hc := h c (by simp)
    have ih' := ih (fun x hx => h x (by simp [hx]))
    unfold groupDigits
    split <;> simp [hc, ih']

theorem putIntGrouped_filter (v : Int) : (putIntGrouped v).filter (· != 44) = putInt v := by
  obtain ⟨_, hd, _⟩ := decDigits_spec v.natAbs
  have hn : ∀ c ∈ decDigits v.natAbs, c ≠ 44 := by
    intro c hc h
    have := (isDigit_iff c).1 (hd c hc)
    omega
  unfold putIntGrouped putInt
  split <;> simp [groupDigits_filter _ hn]

/-- the first character `os << v` writes is `-` or a digit -/
theorem putInt_head' (v : Int) : ∃ c r, putInt v = c :: r ∧ (c = 45 ∨ isDigit c = true) := by
  obtain ⟨hne, hd, _⟩ := decDigits_spec v.natAbs
  unfold putInt
  split
  · exact ⟨45, _, rfl, Or.inl rfl⟩
  · cases h : decDigits v.natAbs with
    | nil => exact absurd h hne
    | cons c r => exact ⟨c, r, rfl, Or.inr (hd c (by simp [h]))⟩

theorem dropWhile_pre {p : Ch → Bool} (pre b : List Ch) (hpre : ∀ c ∈ pre, p c = true) : (pre ++ b).dropWhile p = b.dropWhile p := by
  induction pre with
  | nil => rfl
  | cons c pre ih => simp [hpre c (by simp), ih (fun x hx => hpre x (by simp [hx]))]

/-! ## vectors with white space inside, several vectors on one stream -/

/-- the text between the parentheses with white space around every number -/
def vecBodyWs : List (List Ch × Int × List Ch) → List Ch
  | [] => []
  | [(a, v, b)] => a ++ putInt v ++ b
  | (a, v, b) :: w :: r => a ++ putInt v ++ b ++ [44] ++ vecBodyWs (w :: r)

def AllSpace (ws : List Ch) : Prop := ∀ c ∈ ws, isSpace c = true

theorem noDigitHead_space_then (b : List Ch) (c : Ch) (rest : List Ch) (hb : AllSpace b) (hc : isDigit c = false) :
    NoDigitHead (b ++ c :: rest) := by
  cases b with
  | nil => exact noDigitHead_cons hc
  | cons d b =>
    have hd := hb d (by simp)
    apply noDigitHead_cons
    cases hdig : isDigit d with
    | false => rfl
    | true => have := isSpace_digit hdig; rw [hd] at this; cases this

theorem extractNum_putInt_ws (t : IntTy) (ht : 0 < t.bytes) (h8 : t.bytes ≤ 8) (v : Int) (hv : t.InRange v)
    (a b : List Ch) (c : Ch) (rest : List Ch) (ha : AllSpace a) (hb : AllSpace b) (hc : isDigit c = false) :
    extractNum t { buf := a ++ (putInt v ++ (b ++ c :: rest)), eof := false, fail := false } =
      ({ buf := b ++ c :: rest, eof := false, fail := false }, some v) := by
  rw [extractNum_skip t a _ ha, extractNum_putInt t ht h8 v hv _ (noDigitHead_space_then b c rest hb hc)]
  simp

theorem expect_ws (b : List Ch) (c : Ch) (rest : List Ch) (hb : AllSpace b) (hc : isSpace c = false) :
    expect { buf := b ++ c :: rest, eof := false, fail := false } c = { buf := rest, eof := false, fail := false } := by
  rw [expect_skip b _ c hb, expect_match c rest hc]

theorem vecInputLoop_bodyWs (t : IntTy) (ht : 0 < t.bytes) (h8 : t.bytes ≤ 8) (items : List (List Ch × Int × List Ch))
    (hi : ∀ i ∈ items, AllSpace i.1 ∧ t.InRange i.2.1 ∧ AllSpace i.2.2) (rest : List Ch) (acc : List Int) :
    vecInputLoop t items.length { buf := vecBodyWs items ++ 41 :: rest, eof := false, fail := false } acc =
      (if items = [] then { buf := 41 :: rest, eof := false, fail := false }
        else { buf := (items.getLast?.map (·.2.2)).getD [] ++ 41 :: rest, eof := false, fail := false },
       acc.reverse ++ items.map (·.2.1)) := by
  induction items generalizing acc with
  | nil => simp [vecInputLoop, vecBodyWs]
  | cons i items ih =>
    obtain ⟨a, v, b⟩ := i
    obtain ⟨ha, hv, hb⟩ := hi (a, v, b) (by simp)
    cases items with
    | nil =>
      have h := extractNum_putInt_ws t ht h8 v hv a b 41 rest ha hb (by decide)
      simp only [List.length_cons, List.length_nil, vecInputLoop, vecBodyWs, List.append_assoc, h]
      simp
    | cons w r =>
      have h := extractNum_putInt_ws t ht h8 v hv a b 44 (vecBodyWs (w :: r) ++ 41 :: rest) ha hb (by decide)
      have ih' := ih (fun x hx => hi x (by simp [hx])) (v :: acc)
      simp only [List.length_cons] at ih' ⊢
      rw [vecInputLoop]
      simp only [vecBodyWs, List.append_assoc, List.cons_append, List.nil_append] at h ⊢
      rw [h]
      rw [if_neg (by omega), expect_ws b 44 _ hb (by decide), ih']
      simp

theorem vecBodyWs_plain (vs : List Int) : vecBodyWs (vs.map fun v => (([] : List Ch), v, ([] : List Ch))) = vecBody vs := by
  induction vs with
  | nil => rfl
  | cons v vs ihv =>
    cases vs with
    | nil => simp [vecBodyWs, vecBody]
    | cons w q => simp only [List.map_cons, vecBodyWs, vecBody] at ihv ⊢; rw [ihv]; simp

/-! ## enum input = `from_string` of the first word -/

theorem enumInput_word (names : List (List Ch)) (ws w rest : List Ch) (hws : AllSpace ws) (hne : w ≠ [])
    (hw : ∀ c ∈ w, isSpace c = false) (hr : SpaceHead rest) :
    enumInput names (IStream.ofString (ws ++ (w ++ rest))) =
      match (narrowString w).bind (enumFromString names) with
      | some e => ({ buf := rest, eof := rest.isEmpty, fail := false }, some e)
      | none => ({ buf := rest, eof := rest.isEmpty, fail := true }, none) := by
  unfold enumInput IStream.ofString
  rw [getWord_skip ws _ hws, getWord_word w rest hne hw hr]
  simp only [Bool.false_eq_true, if_false, Option.bind_some]
  cases (narrowString w).bind (enumFromString names) <;> rfl

theorem enumInputW_word (names : List (List Ch)) (ws w rest : List Ch) (hws : AllSpace ws) (hne : w ≠ [])
    (hw : ∀ c ∈ w, isSpace c = false) (hr : SpaceHead rest) :
    enumInputW names (IStream.ofString (ws ++ (w ++ rest))) =
      match (narrowStringW w).bind (enumFromString names) with
      | some e => ({ buf := rest, eof := rest.isEmpty, fail := false }, some e)
      | none => ({ buf := rest, eof := rest.isEmpty, fail := true }, none) := by
  unfold enumInputW IStream.ofString
  rw [getWord_skip ws _ hws, getWord_word w rest hne hw hr]
  simp only [Bool.false_eq_true, if_false, Option.bind_some]
  cases (narrowStringW w).bind (enumFromString names) <;> rfl

theorem enumInput_no_word (names : List (List Ch)) (ws : List Ch) (hws : AllSpace ws) :
    enumInput names (IStream.ofString ws) = ({ buf := [], eof := true, fail := true }, none) := by
  have hd : ws.dropWhile isSpace = [] := by
    have := dropWhile_space_append ws [] hws
    simpa using this
  simp [enumInput, getWord, sentry, IStream.ofString, IStream.good, hd]

/-! ## matrices -/

/-- the text between the outer parentheses: the rows as vectors -/
def matBody : List (List Int) → List Ch
  | [] => []
  | [r] => vecOutput r []
  | r :: w :: rs => vecOutput r [] ++ [44] ++ matBody (w :: rs)

theorem vecOutput_append (vs : List Int) (out : List Ch) : vecOutput vs out = out ++ vecOutput vs [] := by
  simp [vecOutput_eq]

theorem matOutputLoop_eq (rows : List (List Int)) (out : List Ch) : matOutputLoop rows out = out ++ matBody rows := by
  induction rows generalizing out with
  | nil => simp [matOutputLoop, matBody]
  | cons r rows ih =>
    cases rows with
    | nil => simp only [matOutputLoop, matBody]; exact vecOutput_append r out
    | cons w rs =>
      rw [matOutputLoop, ih, vecOutput_append r out]
      simp [matBody]
      intro h; cases h

/-! ## `io::get` / `io::peek` / `io::expect`, enum arrays -/

/-- `io::peek` does not consume: `io::get` right after it returns the same character and removes exactly it -/
theorem get_after_peek' (s : IStream) (c : Ch) (h : (peek s).2 = some c) :
    ∃ r, (peek s).1 = s ∧ s.buf = c :: r ∧ ioGet s = ({ s with buf := r }, some c) := by
  unfold peek sentry at h ⊢
  unfold ioGet sentry
  cases hg : s.good with
  | false => simp [hg] at h
  | true =>
    simp only [hg, if_true] at h ⊢
    cases hb : s.buf with
    | nil => simp [hb] at h
    | cons d r =>
      simp only [hb] at h ⊢
      cases h
      refine ⟨r, ?_, rfl, ?_⟩ <;> simp_all

/-- `io::expect(stream, c)`: white space is skipped, the next character is consumed; it is `c` or `failbit` is set -/
theorem expect_spec' (ws : List Ch) (d : Ch) (rest : List Ch) (c : Ch) (hws : AllSpace ws) (hd : isSpace d = false) :
    expect (IStream.ofString (ws ++ d :: rest)) c = { buf := rest, eof := false, fail := decide (d ≠ c) } := by
  unfold IStream.ofString
  rw [expect_skip ws _ c hws]
  unfold expect
  rw [getChar_nonspace d rest hd]
  by_cases h : d = c
  · simp [h]
  · simp [h]

/-- … and at the end of the text: `eofbit | failbit`. -/
theorem expect_at_end' (ws : List Ch) (c : Ch) (hws : AllSpace ws) :
    expect (IStream.ofString ws) c = { buf := [], eof := true, fail := true } := by
  have hd : ws.dropWhile isSpace = [] := by
    have := dropWhile_space_append ws [] hws
    simpa using this
  simp [expect, getChar, sentry, IStream.ofString, IStream.good, hd]

/-- the text between the brackets of an enum array -/
def enumArrayBody : List (List Ch × Int) → List Ch
  | [] => []
  | [(n, v)] => n ++ [61] ++ putInt v
  | (n, v) :: w :: r => n ++ [61] ++ putInt v ++ [44] ++ enumArrayBody (w :: r)

theorem enumArrayOutputLoop_eq (l : List (List Ch × Int)) (out : List Ch) : enumArrayOutputLoop l out = out ++ enumArrayBody l := by
  induction l generalizing out with
  | nil => simp [enumArrayOutputLoop, enumArrayBody]
  | cons a l ih =>
    obtain ⟨n, v⟩ := a
    cases l with
    | nil => simp [enumArrayOutputLoop, enumArrayBody]
    | cons w r =>
      rw [enumArrayOutputLoop, ih]
      · simp [enumArrayBody]
      · intro h; cases h

end Fcppt.C15
