import FcpptProofs.C15.CvtInLive
import FcpptProofs.C15.CvtOut
import FcpptProofs.C15.Utf8Inv
import FcpptModel.Spec.C15
/-! Decoder relation versus the encoding; the excluded input class; encoder versus the bit-layout specification. -/
namespace Fcppt.C15

/-- The input class of the known finding: somewhere in `bs` a NUL byte arrives while the bytes of an incomplete
sequence are pending (`p` = what is pending at the start). -/
def nulWhilePending : List Nat → List Nat → Bool
  | _, [] => false
  | p, b :: r =>
    if b == 0 then !p.isEmpty || nulWhilePending p r
    else
      match classify (p ++ [b]) with
      | .char _ => nulWhilePending [] r
      | .pref => nulWhilePending (p ++ [b]) r
      | .invalid => false

/-- Outside that class whatever the decoder computes is the real thing: the input is the concatenation of the encodings
of the output (followed by what is still pending), every character is valid. -/
theorem decRel_sound {p bs out p' : List Nat} (h : DecRel p bs out p') (hn : nulWhilePending p bs = false) :
    p ++ bs = out.flatMap encodeWc ++ p' ∧ ∀ c ∈ out, validWc c = true := by
  induction h with
  | nil p => simp
  | @nul p r out p' _ ih =>
    unfold nulWhilePending at hn
    simp only [BEq.rfl, if_true, Bool.or_eq_false_iff, Bool.not_eq_false'] at hn
    have hp : p = [] := List.isEmpty_iff.1 hn.1
    obtain ⟨h1, h2⟩ := ih hn.2
    subst hp
    refine ⟨?_, ?_⟩
    · simp only [List.nil_append] at h1 ⊢
      rw [List.flatMap_cons, encodeWc_zero', h1]; rfl
    · intro c hc; simp at hc
      rcases hc with hc | hc
      · subst hc; decide
      · exact h2 c hc
  | @char p r out p' b c hb hc _ ih =>
    unfold nulWhilePending at hn
    have hb' : (b == 0) = false := by simpa using hb
    simp only [hb', Bool.false_eq_true, if_false, hc] at hn
    obtain ⟨h1, h2⟩ := ih hn
    obtain ⟨he, hv⟩ := classify_char_inv _ _ hc
    refine ⟨?_, ?_⟩
    · simp only [List.nil_append] at h1
      rw [List.flatMap_cons, ← he, h1]; simp
    · intro x hx; simp at hx
      rcases hx with hx | hx
      · subst hx; exact hv
      · exact h2 x hx
  | @pref p r out p' b hb hc _ ih =>
    unfold nulWhilePending at hn
    have hb' : (b == 0) = false := by simpa using hb
    simp only [hb', Bool.false_eq_true, if_false, hc] at hn
    obtain ⟨h1, h2⟩ := ih hn
    exact ⟨by rw [← h1]; simp, h2⟩

/-- a NUL-free text is never in the excluded class -/
theorem nulWhilePending_of_no_nul (bs : List Nat) (h0 : ∀ b ∈ bs, b ≠ 0) : ∀ p, nulWhilePending p bs = false := by
  induction bs with
  | nil => intro p; rfl
  | cons b r ih =>
    intro p
    have hb : (b == 0) = false := by simpa using h0 b (by simp)
    have ih' := ih (fun x hx => h0 x (by simp [hx]))
    unfold nulWhilePending
    simp only [hb, Bool.false_eq_true, if_false]
    split <;> simp [ih']

/-- the encoding of valid characters is never in the excluded class either (NULs included) -/
theorem nulWhilePending_encodeAll (ws : List Nat) (hv : ∀ c ∈ ws, validWc c = true) :
    nulWhilePending [] (ws.flatMap encodeWc) = false := by
  induction ws with
  | nil => rfl
  | cons c r ih =>
    have ih' := ih (fun x hx => hv x (by simp [hx]))
    rw [List.flatMap_cons]
    by_cases hc0 : c = 0
    · subst hc0; rw [encodeWc_zero']; simp [nulWhilePending, ih']
    · obtain ⟨hpre, hfull, hnz⟩ := encode_classes c (hv c (by simp)) hc0
      have key : ∀ (suf pre : List Nat), suf ≠ [] → (∀ b ∈ suf, b ≠ 0) →
          (∀ k, 0 < k → k < suf.length → classify (pre ++ suf.take k) = .pref) → classify (pre ++ suf) = .char c →
          nulWhilePending pre (suf ++ r.flatMap encodeWc) = false := by
        intro suf
        induction suf with
        | nil => intro _ h; exact absurd rfl h
        | cons b t ih2 =>
          intro pre _ hnz hpre hfull
          have hb : (b == 0) = false := by simpa using hnz b (by simp)
          rw [List.cons_append]
          unfold nulWhilePending
          simp only [hb, Bool.false_eq_true, if_false]
          cases t with
          | nil =>
            simp only [List.nil_append] at hfull ⊢
            rw [hfull]; exact ih'
          | cons b' t' =>
            have h1 := hpre 1 (by omega) (by simp)
            simp only [List.take_succ_cons, List.take_zero] at h1
            rw [h1]
            simp only
            refine ih2 (pre ++ [b]) (by simp) (fun x hx => hnz x (by simp [hx])) ?_ (by simpa using hfull)
            intro k hk1 hk2
            have := hpre (k + 1) (by omega) (by simp only [List.length_cons] at hk2 ⊢; omega)
            simpa using this
      exact key (encodeWc c) [] (encodeWc_ne_nil c) hnz (by simpa using hpre) (by simpa using hfull)

/-! ## the encoder against the bit-layout specification -/

theorem encodeWc_eq_spec (c : Nat) : encodeWc c = Spec.utf8Encode c := by
  unfold encodeWc Spec.utf8Encode Spec.utf8Len
  by_cases h1 : c < 0x80
  · simp [h1]
  · by_cases h2 : c < 0x800
    · simp [h1, h2, List.range_succ]
    · by_cases h3 : c < 0x10000
      · simp [h1, h2, h3, List.range_succ]
      · by_cases h4 : c < 0x200000
        · simp [h1, h2, h3, h4, List.range_succ]
        · by_cases h5 : c < 0x4000000
          · simp [h1, h2, h3, h4, h5, List.range_succ]
          · simp [h1, h2, h3, h4, h5, List.range_succ]

theorem scalar_valid (c : Nat) (h : Spec.IsScalar c) : validWc c = true := by
  unfold Spec.IsScalar at h
  simp [validWc, isSurrogate]; omega

theorem scalar_len (c : Nat) (h : Spec.IsScalar c) : (Spec.utf8Encode c).length ≤ 4 := by
  unfold Spec.IsScalar at h
  unfold Spec.utf8Encode Spec.utf8Len
  simp only
  repeat (any_goals (first | (simp; done) | (simp; omega; done) | split))

theorem encodeAll_eq_spec (ws : List Nat) (hv : ∀ c ∈ ws, validWc c = true) : ws.flatMap encodeWc = Spec.utf8EncodeAll ws := by
  unfold Spec.utf8EncodeAll
  induction ws with
  | nil => rfl
  | cons c r ih =>
    rw [List.flatMap_cons, List.flatMap_cons, ih (fun x hx => hv x (by simp [hx])),
      encodeWc_eq_spec c]

end Fcppt.C15
