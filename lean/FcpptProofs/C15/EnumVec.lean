import FcpptProofs.C15.Text
/-! Lemmas for enum names tables and vector text I/O. -/
namespace Fcppt.C15

/-! ## `index_of` -/

theorem indexOf_some {α : Type} [DecidableEq α] (l : List α) (x : α) (i : Nat) (h : indexOf l x = some i) :
    l[i]? = some x ∧ ∀ j, j < i → l[j]? ≠ some x := by
  induction l generalizing i with
  | nil => simp [indexOf] at h
  | cons a l ih =>
    unfold indexOf at h
    by_cases hax : a = x
    · rw [if_pos hax] at h
      cases h
      exact ⟨by simp [hax], fun j hj => by omega⟩
    · rw [if_neg hax] at h
      cases hi : indexOf l x with
      | none => simp [hi] at h
      | some k =>
        simp [hi] at h
        subst h
        obtain ⟨h1, h2⟩ := ih k hi
        refine ⟨by simpa using h1, fun j hj => ?_⟩
        cases j with
        | zero => simp; exact hax
        | succ j => simp; exact h2 j (by omega)

theorem indexOf_none {α : Type} [DecidableEq α] (l : List α) (x : α) : indexOf l x = none ↔ x ∉ l := by
  induction l with
  | nil => simp [indexOf]
  | cons a l ih =>
    unfold indexOf
    by_cases hax : a = x
    · simp [hax]
    · rw [if_neg hax]
      cases hi : indexOf l x with
      | none => simp [ih.1 hi]; exact fun h => hax h.symm
      | some k =>
        simp
        have : x ∈ l := by
          apply Classical.byContradiction
          intro hn
          rw [ih.2 hn] at hi; cases hi
        exact fun _ => this

theorem indexOf_getElem {α : Type} [DecidableEq α] (l : List α) (hn : l.Nodup) (i : Nat) (x : α) (h : l[i]? = some x) :
    indexOf l x = some i := by
  induction l generalizing i with
  | nil => simp at h
  | cons a l ih =>
    rw [List.nodup_cons] at hn
    unfold indexOf
    cases i with
    | zero => simp at h; simp [h]
    | succ i =>
      simp at h
      have hx : x ∈ l := List.mem_of_getElem? h
      have : a ≠ x := fun e => hn.1 (e ▸ hx)
      rw [if_neg this, ih hn.2 i h]
      rfl

/-! ## words -/

theorem span_stop {p : Ch → Bool} (a rest : List Ch) (ha : ∀ c ∈ a, p c = true) (hr : ∀ c, rest.head? = some c → p c = false) :
    (a ++ rest).takeWhile p = a ∧ (a ++ rest).dropWhile p = rest := by
  induction a with
  | nil =>
    cases rest with
    | nil => simp
    | cons c rest => have := hr c rfl; simp [this]
  | cons d a ih =>
    have hd := ha d (by simp)
    have := ih (fun c hc => ha c (by simp [hc]))
    simp [hd, this.1, this.2]

/-- `rest` is empty or begins with white space -/
def SpaceHead (rest : List Ch) : Prop := ∀ c, rest.head? = some c → isSpace c = true

/-- `stream >> word` on a good stream that begins with the white-space-free word `w` -/
theorem getWord_word (w rest : List Ch) (hne : w ≠ []) (hw : ∀ c ∈ w, isSpace c = false) (hr : SpaceHead rest) :
    getWord { buf := w ++ rest, eof := false, fail := false } =
      ({ buf := rest, eof := rest.isEmpty, fail := false }, some w) := by
  obtain ⟨c, w', rfl⟩ : ∃ c w', w = c :: w' := by
    cases w with
    | nil => exact absurd rfl hne
    | cons c w' => exact ⟨c, w', rfl⟩
  have hsp := span_stop (p := fun c => !isSpace c) (c :: w') rest (fun x hx => by simp [hw x hx])
    (fun x hx => by simp [hr x hx])
  unfold getWord
  rw [List.cons_append, sentry_nonspace c _ (hw c (by simp))]
  simp only [if_true]
  rw [← List.cons_append, hsp.1, hsp.2]
  simp

/-! ## vectors -/

/-- the text between the parentheses -/
def vecBody : List Int → List Ch
  | [] => []
  | [v] => putInt v
  | v :: w :: r => putInt v ++ [44] ++ vecBody (w :: r)

theorem vecOutputLoop_eq (vs : List Int) (out : List Ch) : vecOutputLoop vs out = out ++ vecBody vs := by
  induction vs generalizing out with
  | nil => simp [vecOutputLoop, vecBody]
  | cons v vs ih =>
    cases vs with
    | nil => simp [vecOutputLoop, vecBody]
    | cons w r => rw [vecOutputLoop, ih]; simp [vecBody]; intro h; cases h

theorem vecOutput_eq (vs : List Int) (out : List Ch) : vecOutput vs out = out ++ [40] ++ vecBody vs ++ [41] := by
  simp [vecOutput, vecOutputLoop_eq]

theorem getChar_nonspace (c : Ch) (r : List Ch) (h : isSpace c = false) :
    getChar { buf := c :: r, eof := false, fail := false } = ({ buf := r, eof := false, fail := false }, some c) := by
  unfold getChar
  rw [sentry_nonspace c r h]
  rfl

theorem expect_match (c : Ch) (r : List Ch) (h : isSpace c = false) :
    expect { buf := c :: r, eof := false, fail := false } c = { buf := r, eof := false, fail := false } := by
  unfold expect
  rw [getChar_nonspace c r h]
  simp

theorem vecInputLoop_body (t : IntTy) (ht : 0 < t.bytes) (h8 : t.bytes ≤ 8) (vs : List Int) (hv : ∀ v ∈ vs, t.InRange v)
    (rest : List Ch) (acc : List Int) :
    vecInputLoop t vs.length { buf := vecBody vs ++ 41 :: rest, eof := false, fail := false } acc =
      ({ buf := 41 :: rest, eof := false, fail := false }, acc.reverse ++ vs) := by
  induction vs generalizing acc with
  | nil => simp [vecInputLoop, vecBody]
  | cons v vs ih =>
    have hv1 := hv v (by simp)
    cases vs with
    | nil =>
      have h := extractNum_putInt t ht h8 v hv1 (41 :: rest) (noDigitHead_cons (by decide))
      simp only [List.length_cons, List.length_nil, vecInputLoop, vecBody, h]
      simp
    | cons w r =>
      have h := extractNum_putInt t ht h8 v hv1 (44 :: (vecBody (w :: r) ++ 41 :: rest)) (noDigitHead_cons (by decide))
      have ih' := ih (fun x hx => hv x (by simp [hx])) (v :: acc)
      simp only [List.length_cons] at ih' ⊢
      rw [vecInputLoop]
      simp only [vecBody, List.append_assoc, List.cons_append, List.nil_append] at h ⊢
      rw [h]
      simp only [List.isEmpty_cons]
      rw [if_neg (by omega), expect_match 44 _ (by decide), ih']
      simp

end Fcppt.C15
