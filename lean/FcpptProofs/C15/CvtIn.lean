import FcpptProofs.C15.Loop
import FcpptProofs.C15.Utf8
/-! The concrete `in` facet (`utf8In`): what it computes as a relation, contract of the loop. -/
namespace Fcppt.C15

/-- `DecRel p bs out p'`: feeding the bytes `bs` to the decoder that has the incomplete sequence `p` pending yields the
characters `out` and leaves `p'` pending.  A NUL byte is passed through without looking at `p` (that is what
libstdc++'s `do_in` does; it is the source of the known finding). -/
inductive DecRel : List Nat → List Nat → List Nat → List Nat → Prop
  | nil (p : List Nat) : DecRel p [] [] p
  | nul {p r out p' : List Nat} : DecRel p r out p' → DecRel p (0 :: r) (0 :: out) p'
  | char {p r out p' : List Nat} {b c : Nat} : b ≠ 0 → classify (p ++ [b]) = .char c → DecRel [] r out p' →
      DecRel p (b :: r) (c :: out) p'
  | pref {p r out p' : List Nat} {b : Nat} : b ≠ 0 → classify (p ++ [b]) = .pref → DecRel (p ++ [b]) r out p' →
      DecRel p (b :: r) out p'

theorem decRel_append {p a x p1 b y p2 : List Nat} (h1 : DecRel p a x p1) (h2 : DecRel p1 b y p2) :
    DecRel p (a ++ b) (x ++ y) p2 := by
  induction h1 with
  | nil p => simpa using h2
  | nul _ ih => exact DecRel.nul (ih h2)
  | char hb hc _ ih => exact DecRel.char hb hc (ih h2)
  | pref hb hc _ ih => exact DecRel.pref hb hc (ih h2)

theorem decRel_compositional : Compositional DecRel where
  nil := DecRel.nil
  append := decRel_append

/-- the decoder is deterministic -/
theorem decRel_functional {p bs o1 p1 o2 p2 : List Nat} (h1 : DecRel p bs o1 p1) (h2 : DecRel p bs o2 p2) : o1 = o2 ∧ p1 = p2 := by
  induction h1 generalizing o2 p2 with
  | nil p => cases h2; exact ⟨rfl, rfl⟩
  | nul _ ih =>
    cases h2 with
    | nul h => obtain ⟨a, b⟩ := ih h; exact ⟨by rw [a], b⟩
    | char hb _ _ => exact absurd rfl hb
    | pref hb _ _ => exact absurd rfl hb
  | char hb hc _ ih =>
    cases h2 with
    | nul _ => exact absurd rfl hb
    | char _ hc' h => rw [hc] at hc'; cases hc'; obtain ⟨a, b⟩ := ih h; exact ⟨by rw [a], b⟩
    | pref _ hc' _ => rw [hc] at hc'; cases hc'
  | pref hb hc _ ih =>
    cases h2 with
    | nul _ => exact absurd rfl hb
    | char _ hc' _ => rw [hc] at hc'; cases hc'
    | pref _ _ h => exact ih h

/-- everything one needs to know about a run of `inGo`; `back > 0` (inside a character begun in this chunk) implies
that the window still has room for it -/
theorem inGo_spec (inp : List Nat) : ∀ (atTop : Bool) (pending : List Nat) (back room consumed : Nat) (acc : List Nat),
    (back = 0 ∨ 0 < room) →
    let r := inGo atTop pending back inp room consumed acc
    r.res ≠ .noconv ∧ r.consumed ≤ consumed + inp.length ∧
    (∃ out, r.produced = acc.reverse ++ out ∧ out.length ≤ room) ∧
    (r.res = .ok ∨ r.res = .part →
      ∃ k out, k ≤ inp.length ∧ r.consumed = consumed + k ∧ r.produced = acc.reverse ++ out ∧
        DecRel pending (inp.take k) out r.state ∧ (out ≠ [] → 0 < k)) := by
  induction inp with
  | nil =>
    intro atTop pending back room consumed acc _
    simp only [inGo]
    exact ⟨by simp, by simp, ⟨[], by simp, by simp⟩, fun _ => ⟨0, [], by simp, by simp, by simp, DecRel.nil _, by simp⟩⟩
  | cons b r ih =>
    intro atTop pending back room consumed acc hback
    unfold inGo
    by_cases h1 : (atTop && room == 0) = true
    · simp only [h1, if_true]
      exact ⟨by simp, by simp, ⟨[], by simp, by simp⟩, fun _ => ⟨0, [], by simp, by simp, by simp, DecRel.nil _, by simp⟩⟩
    · simp only [h1, if_false, Bool.false_eq_true]
      by_cases h2 : (b == 0) = true
      · have hb0 : b = 0 := by simpa using h2
        simp only [h2, if_true]
        by_cases h3 : (room == 0) = true
        · simp only [h3, if_true]
          exact ⟨by simp, by simp, ⟨[], by simp, by simp⟩, fun _ => ⟨0, [], by simp, by simp, by simp, DecRel.nil _, by simp⟩⟩
        · simp only [h3, if_false, Bool.false_eq_true]
          have hroom : 0 < room := by simp at h3; omega
          obtain ⟨hnn, hbd, ⟨o, ho1, ho2⟩, hok⟩ := ih true pending 0 (room - 1) (consumed + 1) (0 :: acc) (Or.inl rfl)
          refine ⟨hnn, by simp at hbd ⊢; omega, ⟨0 :: o, by rw [ho1]; simp, by simp; omega⟩, fun h => ?_⟩
          obtain ⟨k, out, hk, hc, hp, hd, _⟩ := hok h
          exact ⟨k + 1, 0 :: out, by simp; omega, by rw [hc]; omega, by rw [hp]; simp, by rw [hb0]; exact DecRel.nul hd, by simp⟩
      · simp only [h2, if_false, Bool.false_eq_true]
        have hbne : b ≠ 0 := by simpa using h2
        by_cases h3 : (back == 0 && room == 0) = true
        · simp only [h3, if_true]
          exact ⟨by simp, by simp, ⟨[], by simp, by simp⟩, fun _ => ⟨0, [], by simp, by simp, by simp, DecRel.nil _, by simp⟩⟩
        · simp only [h3, if_false, Bool.false_eq_true]
          have hroom : 0 < room := by
            rcases hback with h | h
            · simp [h] at h3; omega
            · exact h
          cases hcl : classify (pending ++ [b]) with
          | char c =>
            simp only
            obtain ⟨hnn, hbd, ⟨o, ho1, ho2⟩, hok⟩ := ih false [] 0 (room - 1) (consumed + 1) (c :: acc) (Or.inl rfl)
            refine ⟨hnn, by simp at hbd ⊢; omega, ⟨c :: o, by rw [ho1]; simp, by simp; omega⟩, fun h => ?_⟩
            obtain ⟨k, out, hk, hc, hp, hd, _⟩ := hok h
            exact ⟨k + 1, c :: out, by simp; omega, by rw [hc]; omega, by rw [hp]; simp, DecRel.char hbne hcl hd, by simp⟩
          | pref =>
            simp only
            obtain ⟨hnn, hbd, ⟨o, ho1, ho2⟩, hok⟩ := ih false (pending ++ [b]) (back + 1) room (consumed + 1) acc (Or.inr hroom)
            refine ⟨hnn, by simp at hbd ⊢; omega, ⟨o, ho1, ho2⟩, fun h => ?_⟩
            obtain ⟨k, out, hk, hc, hp, hd, hpos⟩ := hok h
            exact ⟨k + 1, out, by simp; omega, by rw [hc]; omega, hp, DecRel.pref hbne hcl hd, fun _ => by omega⟩
          | invalid =>
            simp only
            exact ⟨by simp, by simp; omega, ⟨[], by simp, by simp⟩, fun h => by simp at h⟩

theorem utf8In_contract : Contract utf8In DecRel where
  window := by
    intro s inp w
    obtain ⟨_, _, ⟨o, ho1, ho2⟩, _⟩ := inGo_spec inp true s 0 w 0 [] (Or.inl rfl)
    show (inGo true s 0 inp w 0 []).produced.length ≤ w
    rw [ho1]; simpa using ho2
  bound := by
    intro s inp w
    obtain ⟨_, hbd, _, _⟩ := inGo_spec inp true s 0 w 0 [] (Or.inl rfl)
    show (inGo true s 0 inp w 0 []).consumed ≤ inp.length
    simpa using hbd
  sound := by
    intro s inp w h
    obtain ⟨_, _, _, hok⟩ := inGo_spec inp true s 0 w 0 [] (Or.inl rfl)
    obtain ⟨k, out, hk, hc, hp, hd, _⟩ := hok h
    show DecRel s (inp.take (inGo true s 0 inp w 0 []).consumed) (inGo true s 0 inp w 0 []).produced (inGo true s 0 inp w 0 []).state
    rw [hc, hp]; simpa using hd
  progress := by
    intro s inp w h hp
    obtain ⟨_, _, _, hok⟩ := inGo_spec inp true s 0 w 0 [] (Or.inl rfl)
    obtain ⟨k, out, hk, hc, hpr, hd, hpos⟩ := hok h
    show 0 < (inGo true s 0 inp w 0 []).consumed
    have : (inGo true s 0 inp w 0 []).produced ≠ [] := hp
    rw [hpr] at this
    have := hpos (by simpa using this)
    omega

theorem utf8In_never_noconv (s : List Nat) (inp : List Nat) (w : Nat) : (utf8In.step s inp w).res ≠ .noconv :=
  (inGo_spec inp true s 0 w 0 [] (Or.inl rfl)).1

/-- `widen_locale` never faults; a result is what the decoder computes from the **complete** input, with nothing pending -/
theorem widenLocale_outcome (bs : List Nat) :
    widenLocale bs = .ok none ∨ ∃ out, widenLocale bs = .ok (some out) ∧ DecRel [] bs out [] := by
  obtain ⟨res, hres, hout⟩ := codecvt_outcome utf8In DecRel utf8In_contract decRel_compositional rfl bs
  unfold widenLocale
  rw [hres]
  rcases hout with h | ⟨_, s, inp, w, hn⟩ | ⟨out, s', h, hr, hi⟩
  · exact Or.inl (by rw [h])
  · exact absurd hn (utf8In_never_noconv s inp w)
  · refine Or.inr ⟨out, by rw [h], ?_⟩
    have : s' = [] := by simpa [utf8In] using hi
    rw [this] at hr
    exact hr

end Fcppt.C15
