import FcpptModel.Model.C15
/-! The code as it was before the `fix:` commits — only used by the refuted `example`s of `Props/C15.lean`. -/
namespace Fcppt.C15.Old

/-- `extract_from_string_locale` before 900f8ee: the "consumed completely" test was `iss.eof()` -/
def extractFromString (d : Dest) (source : List Ch) : Option Int :=
  let iss := IStream.ofString source
  let (iss, result) := extract d iss
  if iss.eof then result else none

end Fcppt.C15.Old
