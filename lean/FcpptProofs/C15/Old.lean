import FcpptModel.Model.C15
/-! The code as it was before the `fix:` commits — only used by the refuted `example`s of `Props/C15.lean`. -/
namespace Fcppt.C15.Old

/-- `extract_from_string_locale` before 900f8ee: the "consumed completely" test was `iss.eof()` -/
def extractFromString (d : Dest) (source : List Ch) : Option Int :=
  let iss := IStream.ofString source
  let (iss, result) := extract d iss
  if iss.eof then result else none


/-- The `impl::codecvt` loop as it was
* `v = 0`: originally — `partial` with nothing written returned the buffer as the result, the buffer only ever doubled;
* `v = 1`: after 59b5504 — `partial` grows to at least `max_length`, fails if nothing was written although a whole
  character fits; `ok` still returns whatever has been converted;
* `v = 2`: after 5e38615 — `ok` only ends the loop when all input was consumed, but the state is not looked at
  (ee22c42 added the `mbsinit` test: the current `Fcppt.C15.codecvtLoop`). -/
def codecvtLoop {σ In Out : Type} (v : Nat) (cv : Converter σ In Out) (string : List In) :
    Nat → σ → Nat → Buf Out → Except Fault (Option (List Out))
  | 0, _, _, _ => .error .fuel
  | fuel + 1, state, frm, buf =>
    let r := cv.step state (string.drop frm) buf.writeSize
    if r.produced.length > buf.writeSize ∨ frm + r.consumed > string.length then .error .oob
    else
      let written := r.produced.length
      let buf := buf.written r.produced
      let fromNext := frm + r.consumed
      let grow : Unit → Except Fault (Option (List Out)) := fun _ =>
        if v = 0 then
          if written = 0 then .ok (some buf.data)
          else codecvtLoop v cv string fuel r.state fromNext (buf.resizeWriteArea (buf.data.length * 2))
        else
          let maxLength := max cv.maxLength 1
          if written = 0 ∧ buf.writeSize ≥ maxLength then .ok none
          else codecvtLoop v cv string fuel r.state fromNext (buf.resizeWriteArea (max (buf.data.length * 2) maxLength))
      match r.res with
      | .noconv => .ok (some (string.map cv.cast))
      | .error => .ok none
      | .ok => if v ≤ 1 ∨ fromNext = string.length then .ok (some buf.data) else grow ()
      | .part => grow ()

def codecvt {σ In Out : Type} (v : Nat) (cv : Converter σ In Out) (string : List In) : Except Fault (Option (List Out)) :=
  if string.isEmpty then .ok (some [])
  else codecvtLoop v cv string (loopFuel string.length) cv.init 0 (Buf.create string.length)

end Fcppt.C15.Old
