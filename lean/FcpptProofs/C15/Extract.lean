import FcpptProofs.C15.Text
/-! `extract_from_string` ∘ `output_to_string` and the shape of every accepted text. -/
namespace Fcppt.C15

theorem extractFromString_output_num (t : IntTy) (ht : 0 < t.bytes) (h8 : t.bytes ≤ 8) (v : Int) (hv : t.InRange v) :
    extractFromString (.num t) (outputToString (.num t) v) = some v := by
  have h := extractNum_putInt t ht h8 v hv [] noDigitHead_nil
  simp only [List.append_nil, List.isEmpty_nil] at h
  unfold extractFromString extract outputToString IStream.ofString
  simp only [h, peek_at_end]
  simp

/-- what `extractNum` does on a fresh stream, unfolded once -/
theorem extractNum_fresh (t : IntTy) (s : List Ch) :
    extractNum t { buf := s, eof := false, fail := false } =
      if (s.dropWhile isSpace).isEmpty then ({ buf := [], eof := true, fail := true }, none)
      else
        let viaLong := t.signed && decide (t.bytes < 8)
        let r := numGet (if viaLong then ⟨8, true⟩ else t) (s.dropWhile isSpace)
        let p : Int × Bool :=
          if viaLong then
            if r.value < t.minVal then (t.minVal, true)
            else if r.value > t.maxVal then (t.maxVal, true)
            else (r.value, r.fail)
          else (r.value, r.fail)
        ({ buf := r.rest, eof := r.eof, fail := p.2 }, some p.1) := by
  unfold extractNum sentry IStream.good
  simp only [Bool.not_false, Bool.and_self, if_true, Bool.false_eq_true, if_false]
  by_cases hb : (s.dropWhile isSpace).isEmpty = true
  · simp only [hb, if_true]
    have : s.dropWhile isSpace = [] := List.isEmpty_iff.1 hb
    simp [this]
  · simp only [hb, if_false, Bool.false_or, Bool.false_eq_true]
    rw [if_pos trivial]

theorem numGetBody_eof (t : IntTy) (neg : Bool) (b : List Ch) : (numGetBody t neg b).eof = (numGetBody t neg b).rest.isEmpty := by
  unfold numGetBody
  simp only
  generalize digitLoop _ _ _ _ _ = d
  obtain ⟨a, b, c, d⟩ := d
  simp only
  split
  · rfl
  · split <;> rfl

theorem numGet_eof (t : IntTy) (b : List Ch) : (numGet t b).eof = (numGet t b).rest.isEmpty := by
  unfold numGet; exact numGetBody_eof _ _ _

theorem numVal_inRange_signed (t : IntTy) (ht : 0 < t.bytes) (hs : t.signed = true) (neg : Bool) (m : Nat) (h : m ≤ numMax t neg) :
    t.InRange (numVal t neg m) := by
  have hd := half_double' t ht
  have hH : 0 < 2 ^ (t.bits - 1) := Nat.pow_pos (by decide)
  unfold numMax IntTy.maxVal at h
  unfold IntTy.InRange IntTy.minVal IntTy.maxVal numVal
  generalize 2 ^ (t.bits - 1) = H at *
  generalize 2 ^ t.bits = P at *
  cases neg <;> simp only [hs, Bool.and_self, Bool.false_and, if_true, if_false, Bool.false_eq_true] at h ⊢ <;> omega

theorem numVal_inRange_unsigned (t : IntTy) (_ht : 0 < t.bytes) (hs : t.signed = false) (neg : Bool) (m : Nat) (h : m ≤ numMax t neg) :
    t.InRange (numVal t neg m) := by
  have hp : 0 < 2 ^ t.bits := Nat.pow_pos (by decide)
  unfold numMax IntTy.maxVal at h
  unfold IntTy.InRange IntTy.minVal IntTy.maxVal numVal
  have hm := Nat.mod_lt (2 ^ t.bits - m) hp
  generalize (2 ^ t.bits - m) % 2 ^ t.bits = R at *
  generalize 2 ^ t.bits = P at *
  cases neg <;> simp only [hs, Bool.and_false, if_true, if_false, Bool.false_eq_true] at h ⊢ <;> omega

theorem numVal_inRange (t : IntTy) (ht : 0 < t.bytes) (neg : Bool) (m : Nat) (h : m ≤ numMax t neg) : t.InRange (numVal t neg m) := by
  cases hs : t.signed
  · exact numVal_inRange_unsigned t ht hs neg m h
  · exact numVal_inRange_signed t ht hs neg m h

/-- Every text `extract_from_string` accepts for a number type is a numeral and nothing else, and the result is its value. -/
theorem extractFromString_num_some (t : IntTy) (ht : 0 < t.bytes) (s : List Ch) (v : Int)
    (h : extractFromString (.num t) s = some v) :
    ∃ neg mag, Spec.IsNumeral s neg mag ∧ t.InRange v ∧ v = Spec.numeralValue t.signed t.bits neg mag := by
  unfold extractFromString extract IStream.ofString at h
  simp only at h
  rw [extractNum_fresh] at h
  by_cases hb : (s.dropWhile isSpace).isEmpty = true
  · simp [hb] at h
  · simp only [hb, if_false, Bool.false_eq_true] at h
    generalize hvl : (t.signed && decide (t.bytes < 8)) = viaLong at h
    generalize ht' : (if viaLong = true then (⟨8, true⟩ : IntTy) else t) = t' at h
    have ht'pos : 0 < t'.bytes := by subst ht'; split <;> simp [ht]
    obtain ⟨sg, neg, b1, hsplit, hng, hsg⟩ := numGet_sign t' (s.dropWhile isSpace)
    rw [hng] at h
    generalize hr : numGetBody t' neg b1 = r at h
    -- the pair (value, fail)
    generalize hp : (if viaLong = true then
            if r.value < t.minVal then (t.minVal, true)
            else if r.value > t.maxVal then (t.maxVal, true) else (r.value, r.fail)
          else (r.value, r.fail) : Int × Bool) = p at h
    have heof : r.eof = r.rest.isEmpty := by rw [← hr, ← hng]; exact numGet_eof t' _
    by_cases hpk : (peek { buf := r.rest, eof := r.eof, fail := p.2 }).2 = none
    · simp only [hpk, Option.isNone_none, if_true] at h
      by_cases hf : p.2 = true
      · simp [hf] at h
      · simp only [hf, Bool.false_eq_true, if_false] at h
        have hv : p.1 = v := Option.some.inj h
        have hrest : r.rest = [] := by
          rcases (peek_none_iff _).1 hpk with h1 | h1 | h1
          · simp only [heof] at h1; exact List.isEmpty_iff.1 h1
          · exact absurd h1 hf
          · exact h1
        -- r did not fail and p = (r.value, false)
        have hpr : r.fail = false ∧ p.1 = r.value := by
          subst hp
          cases viaLong
          · simp at hf ⊢; exact hf
          · simp only [if_true] at hf ⊢
            split at hf
            · simp at hf
            · split at hf
              · simp at hf
              · rename_i h1 h2; simp at hf; simp [h1, h2, hf]
        obtain ⟨hne, hd, hle, hval⟩ := numGetBody_ok t' ht'pos neg b1 (by rw [hr]; exact hpr.1) (by rw [hr]; exact hrest)
        rw [hr] at hval
        refine ⟨neg, decFrom 0 b1, ⟨s.takeWhile isSpace, sg, b1, ?_, takeWhile_space_spec s, hsg, hne, digits_spec hd, (decValue_eq b1)⟩, ?_, ?_⟩
        · rw [List.append_assoc, ← hsplit, List.takeWhile_append_dropWhile]
        · -- in range
          rw [← hv, hpr.2, hval]
          cases viaLong
          · simp at ht'; subst ht'; exact numVal_inRange t ht neg _ hle
          · subst hp
            simp only [if_true] at hf hpr
            unfold IntTy.InRange
            rw [← hval]
            split at hf
            · simp at hf
            · split at hf
              · simp at hf
              · omega
        · rw [← hv, hpr.2, hval]
          unfold numVal Spec.numeralValue
          cases viaLong
          · simp at ht'; subst ht'; rfl
          · simp only [if_true] at ht'; subst ht'
            have hs : t.signed = true := by simp at hvl; exact hvl.1
            simp [hs]
    · have : ((peek { buf := r.rest, eof := r.eof, fail := p.2 }).2).isNone = false := by
        cases hc : (peek { buf := r.rest, eof := r.eof, fail := p.2 }).2 with
        | none => exact absurd hc hpk
        | some _ => rfl
      simp [this] at h

end Fcppt.C15
