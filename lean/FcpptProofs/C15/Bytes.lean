import FcpptModel.Model.C15
import FcpptModel.Spec.C15
/-! Lemmas for the binary part of C15: `reverse_mem` is list reversal, digit expansions. -/
namespace Fcppt.C15

/-- the buffer after the first `k` iterations of the `reverse_mem` loop -/
def RevInv {α : Type} (d cur : List α) (k : Nat) : Prop :=
  cur.length = d.length ∧
  ∀ i, cur[i]? = if i < k ∨ (d.length - k ≤ i ∧ i < d.length) then d[d.length - 1 - i]? else d[i]?

theorem revInv_step {α : Type} (d cur : List α) (k : Nat) (hk : k < d.length / 2) (h : RevInv d cur k) :
    ∃ cur', swapAt cur k (d.length - k - 1) = .ok cur' ∧ RevInv d cur' (k + 1) := by
  obtain ⟨hl, hi⟩ := h
  have h1 : k < cur.length := by omega
  have h2 : d.length - k - 1 < cur.length := by omega
  unfold swapAt
  rw [List.getElem?_eq_getElem h1, List.getElem?_eq_getElem h2]
  refine ⟨_, rfl, ?_, ?_⟩
  · simp [hl]
  · intro i
    rw [List.getElem?_set, List.getElem?_set]
    have ek : cur[k]? = d[k]? := by rw [hi]; rw [if_neg]; omega
    have ej : cur[d.length - k - 1]? = d[d.length - k - 1]? := by rw [hi]; rw [if_neg]; omega
    rw [List.getElem?_eq_getElem h1] at ek
    rw [List.getElem?_eq_getElem h2] at ej
    by_cases c1 : d.length - k - 1 = i
    · subst c1
      simp only [List.length_set, h2, if_true]
      rw [if_pos (by omega)]
      rw [ek]; congr 1; omega
    · rw [if_neg c1]
      by_cases c2 : k = i
      · subst c2
        simp only [h1, if_true]
        rw [if_pos (by omega), ej]; congr 1; omega
      · rw [if_neg c2, hi]
        by_cases c3 : i < k ∨ (d.length - k ≤ i ∧ i < d.length)
        · rw [if_pos c3, if_pos (by omega)]
        · rw [if_neg c3, if_neg (by omega)]

theorem foldlM_revInv {α : Type} (d : List α) (k : Nat) (hk : k ≤ d.length / 2) :
    ∃ cur, (List.range k).foldlM (fun cur index => swapAt cur index (d.length - index - 1)) d = .ok cur ∧ RevInv d cur k := by
  induction k with
  | zero =>
    refine ⟨d, rfl, rfl, fun i => ?_⟩
    rw [if_neg]; omega
  | succ k ih =>
    obtain ⟨cur, hc, hinv⟩ := ih (by omega)
    obtain ⟨cur', hs, hinv'⟩ := revInv_step d cur k (by omega) hinv
    refine ⟨cur', ?_, hinv'⟩
    rw [List.range_succ, List.foldlM_append, hc]
    simp [hs, bind, Except.bind, pure, Except.pure]

theorem reverseMem_eq_reverse {α : Type} (d : List α) : reverseMem d = .ok d.reverse := by
  obtain ⟨cur, hc, hl, hi⟩ := foldlM_revInv d (d.length / 2) (Nat.le_refl _)
  unfold reverseMem
  simp only [hc]
  congr 1
  apply List.ext_getElem? 
  intro i
  rw [hi]
  by_cases h : i < d.length
  · rw [List.getElem?_reverse h]
    split
    · rfl
    · have : i = d.length - 1 - i := by omega
      rw [← this]
  · have h1 : d.reverse[i]? = none := List.getElem?_eq_none (by simp; omega)
    have h2 : d[i]? = none := List.getElem?_eq_none (by omega)
    rw [h1, if_neg (by omega)]
    exact h2


/-! ## digits -/

@[simp] theorem length_leBytes (n x : Nat) : (leBytes n x).length = n := by
  induction n generalizing x with
  | zero => rfl
  | succ n ih => simp [leBytes, ih]

theorem ofLE_leBytes (n x : Nat) : ofLE (leBytes n x) = x % 256 ^ n := by
  induction n generalizing x with
  | zero => simp [leBytes, ofLE, Nat.mod_one]
  | succ n ih =>
    simp only [leBytes, ofLE, ih]
    rw [Nat.pow_succ, Nat.mul_comm (256 ^ n) 256, Nat.mod_mul]

theorem ofLE_lt (bs : List Byte) : ofLE bs < 256 ^ bs.length := by
  induction bs with
  | nil => simp [ofLE]
  | cons b bs ih =>
    simp only [ofLE, List.length_cons, Nat.pow_succ]
    have := b.isLt
    omega

theorem leBytes_ofLE (bs : List Byte) : leBytes bs.length (ofLE bs) = bs := by
  induction bs with
  | nil => rfl
  | cons b bs ih =>
    simp only [List.length_cons, leBytes, ofLE]
    have hb := b.isLt
    have h1 : (b.val + 256 * ofLE bs) % 256 = b.val := by omega
    have h2 : (b.val + 256 * ofLE bs) / 256 = ofLE bs := by omega
    congr 1
    · exact Fin.ext h1
    · rw [h2, ih]

theorem leBytes_map_val (n x : Nat) : (leBytes n x).map Fin.val = Spec.leDigits n x := by
  unfold Spec.leDigits
  induction n generalizing x with
  | zero => rfl
  | succ n ih =>
    rw [List.range_succ_eq_map]
    simp only [leBytes, List.map_cons, List.map_map, ih]
    congr 1
    · simp [Spec.digit]
    · apply List.map_congr_left
      intro i _
      simp only [Function.comp, Spec.digit, Nat.pow_succ]
      rw [Nat.mul_comm, Nat.div_div_eq_div_mul]

theorem beDigits_eq_reverse (n x : Nat) : Spec.beDigits n x = (Spec.leDigits n x).reverse := by
  unfold Spec.beDigits Spec.leDigits
  apply List.ext_getElem
  · simp
  · intro i h1 h2
    simp at h1
    simp [List.getElem_reverse]

theorem spec_ofLE_leDigits (n x : Nat) : Spec.ofLE (Spec.leDigits n x) = x % 256 ^ n := by
  rw [← leBytes_map_val, ← ofLE_leBytes]
  generalize leBytes n x = bs
  induction bs with
  | nil => rfl
  | cons b bs ih => simp [Spec.ofLE, ofLE, ih]

theorem spec_ofBE_reverse (ds : List Nat) : Spec.ofBE ds.reverse = Spec.ofLE ds := by
  induction ds with
  | nil => rfl
  | cons d ds ih =>
    simp only [Spec.ofBE, List.reverse_cons, List.foldl_append, List.foldl_cons, List.foldl_nil, Spec.ofLE] at *
    rw [ih]; omega

theorem spec_ofBE_beDigits (n x : Nat) : Spec.ofBE (Spec.beDigits n x) = x % 256 ^ n := by
  rw [beDigits_eq_reverse, spec_ofBE_reverse, spec_ofLE_leDigits]

/-! ## two's complement -/

theorem pow_bits (t : IntTy) : 2 ^ t.bits = 256 ^ t.bytes := by
  unfold IntTy.bits; rw [Nat.pow_mul]

theorem toU_lt (t : IntTy) (v : Int) : toU t v < 2 ^ t.bits := by
  unfold toU
  have hp : (0 : Int) < ((2 ^ t.bits : Nat) : Int) := by exact_mod_cast Nat.pow_pos (by decide : 0 < 2)
  have h1 := Int.emod_lt_of_pos v hp
  have h2 := Int.emod_nonneg v (Int.ne_of_gt hp)
  omega

theorem half_double (t : IntTy) (h : 0 < t.bytes) : 2 ^ t.bits = 2 * 2 ^ (t.bits - 1) := by
  have : t.bits = (t.bits - 1) + 1 := by unfold IntTy.bits; omega
  rw [this, Nat.pow_succ]; simp; omega

theorem ofU_toU (t : IntTy) (v : Int) (h : 0 < t.bytes) (hv : t.InRange v) : ofU t (toU t v) = v := by
  have hd := half_double t h
  unfold IntTy.InRange IntTy.minVal IntTy.maxVal at hv
  unfold ofU toU
  generalize 2 ^ t.bits = P at *
  generalize 2 ^ (t.bits - 1) = H at *
  subst hd
  cases hs : t.signed <;> simp only [hs, if_true, Bool.false_eq_true, if_false, false_and, true_and] at hv ⊢
  · obtain ⟨h1, h2⟩ := hv
    have : v % ((2 * H : Nat) : Int) = v := Int.emod_eq_of_lt h1 (by omega)
    rw [this]; omega
  · obtain ⟨h1, h2⟩ := hv
    by_cases hn : 0 ≤ v
    · have : v % ((2 * H : Nat) : Int) = v := Int.emod_eq_of_lt hn (by omega)
      rw [this, if_neg (by omega)]; omega
    · have : v % ((2 * H : Nat) : Int) = v + (2 * H : Nat) := by
        rw [← Int.add_emod_right]; exact Int.emod_eq_of_lt (by omega) (by omega)
      rw [this, if_pos (by omega)]; omega

theorem ofU_inRange (t : IntTy) (u : Nat) (h : 0 < t.bytes) (hu : u < 2 ^ t.bits) : t.InRange (ofU t u) := by
  have hd := half_double t h
  unfold IntTy.InRange IntTy.minVal IntTy.maxVal ofU
  generalize 2 ^ t.bits = P at *
  generalize 2 ^ (t.bits - 1) = H at *
  subst hd
  cases hs : t.signed <;> simp only [if_true, Bool.false_eq_true, if_false, false_and, true_and]
  · omega
  · split <;> omega

theorem toU_ofU (t : IntTy) (u : Nat) (h : 0 < t.bytes) (hu : u < 2 ^ t.bits) : toU t (ofU t u) = u := by
  have hd := half_double t h
  unfold ofU toU
  generalize 2 ^ t.bits = P at *
  generalize 2 ^ (t.bits - 1) = H at *
  subst hd
  split
  · have : ((u : Int) - (2 * H : Nat)) % ((2 * H : Nat) : Int) = u := by
      rw [← Int.add_emod_right, Int.sub_add_cancel]; exact Int.emod_eq_of_lt (by omega) (by omega)
    rw [this]; omega
  · have : (u : Int) % ((2 * H : Nat) : Int) = u := Int.emod_eq_of_lt (by omega) (by omega)
    rw [this]; omega

theorem toU_eq_twos (t : IntTy) (v : Int) (h : 0 < t.bytes) (hv : t.InRange v) : toU t v = Spec.twos t.bits v := by
  have hd := half_double t h
  unfold IntTy.InRange IntTy.minVal IntTy.maxVal at hv
  unfold toU Spec.twos
  generalize 2 ^ t.bits = P at *
  generalize 2 ^ (t.bits - 1) = H at *
  subst hd
  by_cases hn : 0 ≤ v
  · rw [if_pos hn]
    have : v % ((2 * H : Nat) : Int) = v := Int.emod_eq_of_lt hn (by cases hs : t.signed <;> simp [hs] at hv <;> omega)
    rw [this]
  · rw [if_neg hn]
    have : v % ((2 * H : Nat) : Int) = v + (2 * H : Nat) := by
      rw [← Int.add_emod_right]
      exact Int.emod_eq_of_lt (by cases hs : t.signed <;> simp [hs] at hv <;> omega) (by omega)
    rw [this]

/-! ## object representation -/

@[simp] theorem length_objRep (native : Endian) (t : IntTy) (v : Int) : (objRep native t v).length = t.bytes := by
  cases native <;> simp [objRep]

theorem ofObjRep_objRep (native : Endian) (t : IntTy) (v : Int) (h : 0 < t.bytes) (hv : t.InRange v) :
    ofObjRep native t (objRep native t v) = v := by
  have : ofLE (leBytes t.bytes (toU t v)) = toU t v := by
    rw [ofLE_leBytes, ← pow_bits]; exact Nat.mod_eq_of_lt (toU_lt t v)
  cases native <;> simp [objRep, ofObjRep, this, ofU_toU t v h hv]

theorem objRep_ofObjRep (native : Endian) (t : IntTy) (bs : List Byte) (h : 0 < t.bytes) (hl : bs.length = t.bytes) :
    objRep native t (ofObjRep native t bs) = bs := by
  have key : ∀ cs : List Byte, cs.length = t.bytes → leBytes t.bytes (toU t (ofU t (ofLE cs))) = cs := by
    intro cs hc
    rw [toU_ofU t _ h (by rw [pow_bits, ← hc]; exact ofLE_lt cs), ← hc, leBytes_ofLE]
  cases native
  · simp [objRep, ofObjRep, key bs hl]
  · simp [objRep, ofObjRep, key bs.reverse (by simp [hl])]

theorem ofObjRep_inRange (native : Endian) (t : IntTy) (bs : List Byte) (h : 0 < t.bytes) (hl : bs.length = t.bytes) :
    t.InRange (ofObjRep native t bs) := by
  cases native <;> unfold ofObjRep <;> simp only <;> apply ofU_inRange t _ h <;> rw [pow_bits, ← hl]
  · exact ofLE_lt bs
  · have := ofLE_lt bs.reverse; simpa using this

theorem swap_eq (native : Endian) (t : IntTy) (v : Int) :
    swap native t v = .ok (ofObjRep native t (objRep native t v).reverse) := by
  simp [swap, reverseMem_eq_reverse, bind, Except.bind, pure, Except.pure]

end Fcppt.C15
