import FcpptProofs.C15.Bytes
/-! One `std::stringstream` object: `io::write` / `io::read` / `write_chars` / `read_chars` with the shared state bits. -/
namespace Fcppt.C15

theorem convert_ok (native : Endian) (t : IntTy) (v : Int) (e : Endian) : ∃ x, convert native t v e = .ok x := by
  unfold convert; split
  · exact ⟨_, rfl⟩
  · exact ⟨_, swap_eq native t v⟩

/-- the bytes `io::write` puts on the wire for `v` -/
def wire (native : Endian) (t : IntTy) (v : Int) (e : Endian) : List Byte :=
  match convert native t v e with
  | .ok x => objRep native t x
  | .error _ => []

theorem write_wire (native : Endian) (t : IntTy) (pre : List Byte) (v : Int) (e : Endian) :
    write native t pre v e = .ok (pre ++ wire native t v e) := by
  obtain ⟨x, hx⟩ := convert_ok native t v e
  simp [write, wire, hx, bind, Except.bind, pure, Except.pure]

theorem length_objRep' (native : Endian) (t : IntTy) (v : Int) : (objRep native t v).length = t.bytes := by
  have h : ∀ n x, (leBytes n x).length = n := by
    intro n; induction n with
    | zero => intro x; rfl
    | succ n ih => intro x; simp [leBytes, ih]
  cases native <;> simp [objRep, h]

theorem wire_length (native : Endian) (t : IntTy) (v : Int) (e : Endian) : (wire native t v e).length = t.bytes := by
  obtain ⟨x, hx⟩ := convert_ok native t v e
  simp [wire, hx]

theorem swap_swap_l (native : Endian) (t : IntTy) (v : Int) (ht : 0 < t.bytes) (hv : t.InRange v) :
    (swap native t v >>= swap native t) = .ok v := by
  simp only [swap_eq, bind, Except.bind]
  rw [objRep_ofObjRep native t _ ht (by simp), List.reverse_reverse, ofObjRep_objRep native t v ht hv]

theorem convert_roundtrip_l (native : Endian) (t : IntTy) (v : Int) (e : Endian) (ht : 0 < t.bytes) (hv : t.InRange v) :
    (convert native t v e >>= fun x => convert native t x e) = .ok v := by
  unfold convert
  by_cases h : e = native
  · simp [h, bind, Except.bind, pure, Except.pure]
  · simp only [if_neg h]; exact swap_swap_l native t v ht hv

/-- reading what `io::write` put on the wire gives the value back and leaves the rest of the stream alone -/
theorem read_wire (native : Endian) (t : IntTy) (v : Int) (e : Endian) (ht : 0 < t.bytes) (hv : t.InRange v) (rest : List Byte) :
    read native t (wire native t v e ++ rest) e = .ok (some v, rest) := by
  obtain ⟨x, hx⟩ := convert_ok native t v e
  have hback : convert native t x e = .ok v := by
    have := convert_roundtrip_l native t v e ht hv
    simpa [hx, bind, Except.bind] using this
  have hxr : t.InRange x := by
    unfold convert at hx; split at hx
    · cases hx; exact hv
    · rw [swap_eq] at hx; cases hx; exact ofObjRep_inRange native t _ ht (by simp)
  have hw : wire native t v e = objRep native t x := by simp [wire, hx]
  rw [hw]
  unfold read
  rw [if_neg (by simp)]
  simp only [List.take_left' (length_objRep' native t x), List.drop_left' (length_objRep' native t x),
    ofObjRep_objRep native t x ht hxr, hback, bind, Except.bind, pure, Except.pure]

theorem ioWrite_good (native : Endian) (t : IntTy) (s : BStream) (v : Int) (e : Endian) (hg : s.good = true) :
    ioWrite native t s v e = .ok { s with buf := s.buf ++ wire native t v e } := by
  obtain ⟨x, hx⟩ := convert_ok native t v e
  simp [ioWrite, wire, hx, BStream.put, hg, bind, Except.bind, pure, Except.pure]

theorem ioWrite_not_good (native : Endian) (t : IntTy) (s : BStream) (v : Int) (e : Endian) (hg : s.good = false) :
    ioWrite native t s v e = .ok s := by
  obtain ⟨x, hx⟩ := convert_ok native t v e
  simp [ioWrite, hx, BStream.put, hg, bind, Except.bind, pure, Except.pure]

theorem ioRead_not_good (native : Endian) (t : IntTy) (s : BStream) (e : Endian) (hg : s.good = false) :
    ioRead native t s e = .ok ({ s with fail := true }, none) := by
  simp [ioRead, BStream.get, hg, pure, Except.pure]

theorem ioRead_short (native : Endian) (t : IntTy) (s : BStream) (e : Endian) (hg : s.good = true) (hl : s.buf.length < t.bytes) :
    ioRead native t s e = .ok ({ buf := [], eof := true, fail := true }, none) := by
  simp [ioRead, BStream.get, hg, hl, pure, Except.pure]

theorem good_fail (s : BStream) (hg : s.good = true) : s.fail = false ∧ s.eof = false := by
  unfold BStream.good at hg
  cases h1 : s.fail <;> cases h2 : s.eof <;> simp [h1, h2] at hg ⊢

/-- on a good stream `ioRead` is `read` on the unread bytes -/
theorem ioRead_good_enough (native : Endian) (t : IntTy) (s : BStream) (e : Endian) (hg : s.good = true) (hl : t.bytes ≤ s.buf.length)
    (v : Int) (rest : List Byte) (h : read native t s.buf e = .ok (some v, rest)) :
    ioRead native t s e = .ok ({ s with buf := rest }, some v) := by
  have hf := (good_fail s hg).1
  unfold read at h
  rw [if_neg (by omega)] at h
  unfold ioRead BStream.get
  simp only [hg, if_true, if_neg (show ¬ s.buf.length < t.bytes by omega), hf, Bool.false_eq_true, if_false]
  cases hc : convert native t (ofObjRep native t (List.take t.bytes s.buf)) e with
  | error f => simp [hc, bind, Except.bind] at h
  | ok r =>
    simp only [hc, bind, Except.bind, pure, Except.pure] at h ⊢
    cases h
    rfl

/-- what the items put on the wire, in order -/
def wires (native : Endian) (items : List Item) : List Byte := items.flatMap fun i => wire native i.t i.v i.e

theorem ioWriteAll_good (native : Endian) (items : List Item) : ∀ (s : BStream), s.good = true →
    ioWriteAll native s items = .ok { s with buf := s.buf ++ wires native items } := by
  induction items with
  | nil => intro s _; simp [ioWriteAll, wires, pure, Except.pure]
  | cons i r ih =>
    intro s hg
    unfold ioWriteAll
    rw [ioWrite_good native i.t s i.v i.e hg]
    simp only [bind, Except.bind]
    rw [ih _ (by simpa [BStream.good] using hg)]
    simp [wires, List.append_assoc]

theorem ioReadAll_wires (native : Endian) (items : List Item) (hok : ∀ i ∈ items, 0 < i.t.bytes ∧ i.t.InRange i.v) :
    ∀ (s : BStream) (rest : List Byte), s.good = true → s.buf = wires native items ++ rest →
    ioReadAll native s (items.map fun i => (i.t, i.e)) = .ok ({ s with buf := rest }, items.map fun i => some i.v) := by
  induction items with
  | nil => intro s rest _ hb; simp [ioReadAll, wires] at hb ⊢; simp [pure, Except.pure, ← hb]
  | cons i r ih =>
    intro s rest hg hb
    obtain ⟨hpos, hin⟩ := hok i (by simp)
    have hb' : s.buf = wire native i.t i.v i.e ++ (wires native r ++ rest) := by
      rw [hb]; simp [wires, List.append_assoc]
    have hread := read_wire native i.t i.v i.e hpos hin (wires native r ++ rest)
    rw [← hb'] at hread
    have hl : i.t.bytes ≤ s.buf.length := by rw [hb']; simp [wire_length]
    simp only [List.map_cons, ioReadAll]
    rw [ioRead_good_enough native i.t s i.e hg hl i.v _ hread]
    simp only [bind, Except.bind]
    rw [ih (fun j hj => hok j (by simp [hj])) { s with buf := wires native r ++ rest } rest (by simpa [BStream.good] using hg) rfl]
    simp [pure, Except.pure]

end Fcppt.C15
