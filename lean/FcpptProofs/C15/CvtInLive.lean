import FcpptProofs.C15.CvtIn
/-! The `in` facet on well-formed input: it follows the characters, never reports an error, never gets stuck. -/
namespace Fcppt.C15

/-- all about the bytes of one valid character: every proper prefix is a prefix, the whole is the character, no NUL -/
theorem encode_classes (c : Nat) (hv : validWc c = true) (h0 : c ≠ 0) :
    (∀ k, 0 < k → k < (encodeWc c).length → classify ((encodeWc c).take k) = .pref) ∧
    classify (encodeWc c) = .char c ∧ (∀ b ∈ encodeWc c, b ≠ 0) := by
  have hv' : c ≤ 0x7FFFFFFF ∧ isSurrogate c = false := by simpa [validWc] using hv
  unfold encodeWc
  by_cases h1 : c < 0x80
  · rw [if_pos h1]
    exact ⟨fun k h1 h2 => by simp at h2; omega, classify_enc1 c h1, by simp [h0]⟩
  · rw [if_neg h1]
    by_cases h2 : c < 0x800
    · rw [if_pos h2]
      obtain ⟨a, b⟩ := classify_enc2 c (by omega) h2
      refine ⟨fun k hk1 hk2 => ?_, b, by simp <;> omega⟩
      simp at hk2
      have : k = 1 := by omega
      subst this; exact a
    · rw [if_neg h2]
      by_cases h3 : c < 0x10000
      · rw [if_pos h3]
        obtain ⟨a, b, d⟩ := classify_enc3 c (by omega) h3 hv'.2
        refine ⟨fun k hk1 hk2 => ?_, d, by simp <;> omega⟩
        simp at hk2
        rcases k with _ | _ | _ | k
        · omega
        · exact a
        · exact b
        · omega
      · rw [if_neg h3]
        by_cases h4 : c < 0x200000
        · rw [if_pos h4]
          obtain ⟨a, b, d, e⟩ := classify_enc4 c (by omega) h4
          refine ⟨fun k hk1 hk2 => ?_, e, by simp <;> omega⟩
          simp at hk2
          rcases k with _ | _ | _ | _ | k
          · omega
          · exact a
          · exact b
          · exact d
          · omega
        · rw [if_neg h4]
          by_cases h5 : c < 0x4000000
          · rw [if_pos h5]
            obtain ⟨a, b, d, e, f⟩ := classify_enc5 c (by omega) h5
            refine ⟨fun k hk1 hk2 => ?_, f, by simp <;> omega⟩
            simp at hk2
            rcases k with _ | _ | _ | _ | _ | k
            · omega
            · exact a
            · exact b
            · exact d
            · exact e
            · omega
          · rw [if_neg h5]
            obtain ⟨a, b, d, e, f, g⟩ := classify_enc6 c (by omega) hv'.1
            refine ⟨fun k hk1 hk2 => ?_, g, by simp <;> omega⟩
            simp at hk2
            rcases k with _ | _ | _ | _ | _ | _ | k
            · omega
            · exact a
            · exact b
            · exact d
            · exact e
            · exact f
            · omega

/-- the automaton walks through the remaining bytes `suf` of a sequence whose earlier bytes `pre` are pending -/
theorem inGo_seq (c : Nat) (rest : List Nat) (room consumed : Nat) (acc : List Nat) (hroom : 0 < room) :
    ∀ (suf pre : List Nat) (atTop : Bool) (back : Nat), suf ≠ [] → (∀ b ∈ suf, b ≠ 0) →
      (∀ k, 0 < k → k < suf.length → classify (pre ++ suf.take k) = .pref) → classify (pre ++ suf) = .char c →
      inGo atTop pre back (suf ++ rest) room consumed acc = inGo false [] 0 rest (room - 1) (consumed + suf.length) (c :: acc) := by
  intro suf
  induction suf generalizing consumed with
  | nil => intro _ _ _ h; exact absurd rfl h
  | cons b t ih =>
    intro pre atTop back _ hnz hpre hfull
    have hb : (b == 0) = false := by simpa using hnz b (by simp)
    have hr : (room == 0) = false := by simp; omega
    rw [List.cons_append]
    conv => lhs; unfold inGo
    simp only [hr, Bool.and_false, Bool.false_eq_true, if_false, hb]
    cases t with
    | nil =>
      simp only [List.nil_append] at hfull ⊢
      rw [hfull]
      simp
    | cons b' t' =>
      have h1 := hpre 1 (by omega) (by simp)
      simp only [List.take_succ_cons, List.take_zero] at h1
      rw [h1]
      simp only
      rw [ih (consumed + 1) (pre ++ [b]) false (back + 1) (by simp) (fun x hx => hnz x (by simp [hx]))]
      · simp only [List.length_cons]; congr 1; omega
      · intro k hk1 hk2
        have := hpre (k + 1) (by omega) (by simp only [List.length_cons] at hk2 ⊢; omega)
        simpa using this
      · simpa using hfull

/-- the `in` facet seen per character on well-formed input -/
def inWs : Bool → List Nat → Nat → Nat → List Nat → StepOut (List Nat) Nat
  | _, [], _, consumed, acc => ⟨.ok, [], consumed, acc.reverse⟩
  | atTop, c :: r, room, consumed, acc =>
    if atTop && room == 0 then ⟨.ok, [], consumed, acc.reverse⟩
    else if room == 0 then ⟨.part, [], consumed, acc.reverse⟩
    else inWs (c == 0) r (room - 1) (consumed + (encodeWc c).length) (c :: acc)

theorem inGo_flat (ws : List Nat) (hv : ∀ c ∈ ws, validWc c = true) : ∀ (atTop : Bool) (room consumed : Nat) (acc : List Nat),
    inGo atTop [] 0 (ws.flatMap encodeWc) room consumed acc = inWs atTop ws room consumed acc := by
  induction ws with
  | nil => intro atTop room consumed acc; simp [inGo, inWs]
  | cons c r ih =>
    intro atTop room consumed acc
    have ih' := ih (fun x hx => hv x (by simp [hx]))
    rw [List.flatMap_cons]
    unfold inWs
    by_cases hc0 : c = 0
    · subst hc0
      rw [encodeWc_zero']
      simp only [List.cons_append, List.nil_append]
      unfold inGo
      by_cases h1 : (atTop && room == 0) = true
      · simp [h1]
      · simp only [h1, Bool.false_eq_true, if_false, BEq.rfl, if_true]
        by_cases h3 : (room == 0) = true
        · simp [h3]
        · simp only [h3, Bool.false_eq_true, if_false, List.length_cons, List.length_nil]
          exact ih' true (room - 1) (consumed + 1) (0 :: acc)
    · obtain ⟨hpre, hfull, hnz⟩ := encode_classes c (hv c (by simp)) hc0
      have hne : encodeWc c ≠ [] := by
        intro h; rw [h] at hfull; simp [classify] at hfull
      have hce : (c == 0) = false := by simpa using hc0
      by_cases h3 : (room == 0) = true
      · -- no room: decided at the first byte
        obtain ⟨b, t, hbt⟩ : ∃ b t, encodeWc c = b :: t := by
          cases h : encodeWc c with
          | nil => exact absurd h hne
          | cons b t => exact ⟨b, t, rfl⟩
        have hb : (b == 0) = false := by simpa using hnz b (by simp [hbt])
        rw [hbt, List.cons_append]
        unfold inGo
        by_cases h1 : (atTop && room == 0) = true
        · simp [h1]
        · simp [hb, h3]
      · have hroom : 0 < room := by simp at h3; omega
        have h3' : (room == 0) = false := by simpa using h3
        simp only [h3', Bool.and_false, Bool.false_eq_true, if_false, hce]
        rw [inGo_seq c (r.flatMap encodeWc) room consumed acc hroom (encodeWc c) [] atTop 0 hne hnz
          (by simpa using hpre) (by simpa using hfull)]
        exact ih' false (room - 1) _ _


theorem flatMap_take_drop (ws : List Nat) (j : Nat) :
    ws.flatMap encodeWc = (ws.take j).flatMap encodeWc ++ (ws.drop j).flatMap encodeWc := by
  rw [← List.flatMap_append, List.take_append_drop]

theorem encodeWc_ne_nil (c : Nat) : encodeWc c ≠ [] := by
  unfold encodeWc; repeat (any_goals (first | (simp; done) | split))

theorem flatMap_length_pos {ws : List Nat} (h : ws ≠ []) : 0 < (ws.flatMap encodeWc).length := by
  cases ws with
  | nil => exact absurd rfl h
  | cons c r =>
    have := List.length_pos_iff.2 (encodeWc_ne_nil c)
    simp; omega

/-- a run of the facet on well-formed input converts the first `j` characters, whole characters only -/
theorem inWs_spec (ws : List Nat) : ∀ (atTop : Bool) (room consumed : Nat) (acc : List Nat),
    ∃ j, j ≤ ws.length ∧ (inWs atTop ws room consumed acc).state = [] ∧
      (inWs atTop ws room consumed acc).consumed = consumed + ((ws.take j).flatMap encodeWc).length ∧
      (inWs atTop ws room consumed acc).produced = acc.reverse ++ ws.take j ∧
      ((inWs atTop ws room consumed acc).res = .ok ∨ (inWs atTop ws room consumed acc).res = .part) ∧
      ((inWs atTop ws room consumed acc).res = .part → j < ws.length) ∧
      (ws ≠ [] → 0 < room → 0 < j) := by
  induction ws with
  | nil =>
    intro atTop room consumed acc
    exact ⟨0, by simp, by simp [inWs], by simp [inWs], by simp [inWs], by simp [inWs], by simp [inWs], by simp⟩
  | cons c r ih =>
    intro atTop room consumed acc
    unfold inWs
    by_cases h1 : (atTop && room == 0) = true
    · simp only [h1, if_true]
      refine ⟨0, by simp, by simp, by simp, by simp, by simp, by simp, fun _ h => ?_⟩
      simp at h1; omega
    · simp only [h1, Bool.false_eq_true, if_false]
      by_cases h3 : (room == 0) = true
      · simp only [h3, if_true]
        refine ⟨0, by simp, by simp, by simp, by simp, by simp, by simp, fun _ h => ?_⟩
        simp at h3; omega
      · simp only [h3, Bool.false_eq_true, if_false]
        obtain ⟨j, hj, hst, hco, hpr, hres, hpart, _⟩ := ih (c == 0) (room - 1) (consumed + (encodeWc c).length) (c :: acc)
        refine ⟨j + 1, by simp; omega, hst, ?_, by rw [hpr]; simp, hres, fun h => by have := hpart h; simp; omega, fun _ _ => by omega⟩
        rw [hco]; simp; omega

/-- good input for the decoder: nothing pending and the bytes are the encodings of valid characters -/
def InGood (s : List Nat) (inp : List Nat) : Prop := s = [] ∧ ∃ ws : List Nat, (∀ c ∈ ws, validWc c = true) ∧ inp = ws.flatMap encodeWc

theorem utf8In_live : Live utf8In InGood where
  noError := by
    intro s inp w hg
    obtain ⟨hs, ws, hv, hi⟩ := hg
    subst hs; subst hi
    show (inGo true [] 0 (ws.flatMap encodeWc) w 0 []).res = .ok ∨ (inGo true [] 0 (ws.flatMap encodeWc) w 0 []).res = .part
    rw [inGo_flat ws hv]
    obtain ⟨_, _, _, _, _, hres, _⟩ := inWs_spec ws true w 0 []
    exact hres
  keep := by
    intro s inp w hg
    obtain ⟨hs, ws, hv, hi⟩ := hg
    subst hs; subst hi
    show InGood (inGo true [] 0 (ws.flatMap encodeWc) w 0 []).state ((ws.flatMap encodeWc).drop (inGo true [] 0 (ws.flatMap encodeWc) w 0 []).consumed)
    rw [inGo_flat ws hv]
    obtain ⟨j, hj, hst, hco, _⟩ := inWs_spec ws true w 0 []
    refine ⟨hst, ws.drop j, fun c hc => hv c (List.mem_of_mem_drop hc), ?_⟩
    rw [hco, Nat.zero_add, flatMap_take_drop ws j, List.drop_left]
  fits := by
    intro s inp w hg hne hw
    obtain ⟨hs, ws, hv, hi⟩ := hg
    subst hs; subst hi
    show (inGo true [] 0 (ws.flatMap encodeWc) w 0 []).produced ≠ []
    rw [inGo_flat ws hv]
    have hws : ws ≠ [] := by intro h; subst h; exact hne rfl
    have hw1 : 0 < w := by have : max utf8In.maxLength 1 ≤ w := hw; simp [utf8In] at this; omega
    obtain ⟨j, hj, _, _, hpr, _, _, hpos⟩ := inWs_spec ws true w 0 []
    rw [hpr]
    have := hpos hws hw1
    intro h
    have hl := congrArg List.length h
    simp only [List.reverse_nil, List.nil_append, List.length_take, List.length_nil] at hl
    omega
  allOk := by
    intro s inp w hg hall
    obtain ⟨hs, ws, hv, hi⟩ := hg
    subst hs; subst hi
    show (inGo true [] 0 (ws.flatMap encodeWc) w 0 []).res = .ok
    have hall' : (inGo true [] 0 (ws.flatMap encodeWc) w 0 []).consumed = (ws.flatMap encodeWc).length := hall
    rw [inGo_flat ws hv] at hall' ⊢
    obtain ⟨j, hj, _, hco, _, hres, hpart, _⟩ := inWs_spec ws true w 0 []
    rcases hres with h | h
    · exact h
    · have hjl := hpart h
      have hd : ws.drop j ≠ [] := by
        intro hd; have := congrArg List.length hd; simp at this; omega
      have := flatMap_length_pos hd
      have hlen := congrArg List.length (flatMap_take_drop ws j)
      simp only [List.length_append] at hlen
      omega
  done := by
    intro s hg
    obtain ⟨hs, _⟩ := hg
    subst hs; rfl

/-- one valid character in front: the decoder relation follows the encoding -/
theorem decRel_encode (c : Nat) (hv : validWc c = true) {rest out p' : List Nat} (h : DecRel [] rest out p') :
    DecRel [] (encodeWc c ++ rest) (c :: out) p' := by
  by_cases hc0 : c = 0
  · subst hc0; rw [encodeWc_zero']; exact DecRel.nul h
  · obtain ⟨hpre, hfull, hnz⟩ := encode_classes c hv hc0
    -- walk through the bytes with the prefix pending
    have key : ∀ (suf pre : List Nat), suf ≠ [] → (∀ b ∈ suf, b ≠ 0) →
        (∀ k, 0 < k → k < suf.length → classify (pre ++ suf.take k) = .pref) → classify (pre ++ suf) = .char c →
        DecRel pre (suf ++ rest) (c :: out) p' := by
      intro suf
      induction suf with
      | nil => intro _ h; exact absurd rfl h
      | cons b t ih =>
        intro pre _ hnz hpre hfull
        cases t with
        | nil => exact DecRel.char (hnz b (by simp)) (by simpa using hfull) h
        | cons b' t' =>
          have h1 := hpre 1 (by omega) (by simp)
          simp only [List.take_succ_cons, List.take_zero] at h1
          refine DecRel.pref (hnz b (by simp)) h1 (ih (pre ++ [b]) (by simp) (fun x hx => hnz x (by simp [hx])) ?_ (by simpa using hfull))
          intro k hk1 hk2
          have := hpre (k + 1) (by omega) (by simp only [List.length_cons] at hk2 ⊢; omega)
          simpa using this
    exact key (encodeWc c) [] (encodeWc_ne_nil c) hnz (by simpa using hpre) (by simpa using hfull)

/-- decoding the encoding of a string of valid characters gives the string (any length, NULs included) -/
theorem decRel_encodeAll (ws : List Nat) (hv : ∀ c ∈ ws, validWc c = true) : DecRel [] (ws.flatMap encodeWc) ws [] := by
  induction ws with
  | nil => exact DecRel.nil []
  | cons c r ih =>
    rw [List.flatMap_cons]
    exact decRel_encode c (hv c (by simp)) (ih (fun x hx => hv x (by simp [hx])))

/-- `widen_locale` of the encoding of valid characters gives them back -/
theorem widenLocale_valid (ws : List Nat) (hv : ∀ c ∈ ws, validWc c = true) :
    widenLocale (ws.flatMap encodeWc) = .ok (some ws) := by
  obtain ⟨out, hout⟩ := codecvt_succeeds utf8In DecRel utf8In_contract InGood utf8In_live (ws.flatMap encodeWc) ⟨rfl, ws, hv, rfl⟩
  rcases widenLocale_outcome (ws.flatMap encodeWc) with h | ⟨o, h, hd⟩
  · unfold widenLocale at h; rw [hout] at h; cases h
  · rw [h]
    have := (decRel_functional hd (decRel_encodeAll ws hv)).1
    rw [this]

end Fcppt.C15
