import FcpptModel.Model.C15
import FcpptModel.Spec.C15
/-! Lemmas for the textual part of C15: `num_put` digits, the `num_get` accumulation loop, stream extraction. -/
namespace Fcppt.C15

/-! ## digits -/

/-- left fold of the digit characters starting from `r` -/
def decFrom (r : Nat) (ds : List Ch) : Nat := ds.foldl (fun a c => a * 10 + (c - 48)) r

theorem decValue_eq (ds : List Ch) : Spec.decValue ds = decFrom 0 ds := by
  unfold Spec.decValue decFrom; rfl

@[simp] theorem decFrom_nil (r : Nat) : decFrom r [] = r := rfl
@[simp] theorem decFrom_cons (r : Nat) (c : Ch) (ds : List Ch) : decFrom r (c :: ds) = decFrom (r * 10 + (c - 48)) ds := by
  unfold decFrom; rw [List.foldl_cons]

theorem decFrom_append (r : Nat) (a b : List Ch) : decFrom r (a ++ b) = decFrom (decFrom r a) b := by
  simp [decFrom, List.foldl_append]

theorem le_decFrom (r : Nat) (ds : List Ch) : r ≤ decFrom r ds := by
  induction ds generalizing r with
  | nil => simp
  | cons c ds ih => simp only [decFrom_cons]; exact Nat.le_trans (by omega) (ih _)

theorem decFrom_mono {r r' : Nat} (h : r ≤ r') (ds : List Ch) : decFrom r ds ≤ decFrom r' ds := by
  induction ds generalizing r r' with
  | nil => simpa
  | cons c ds ih => simp only [decFrom_cons]; exact ih (by omega)

theorem isDigit_iff (c : Ch) : isDigit c = true ↔ 48 ≤ c ∧ c ≤ 57 := by simp [isDigit]

/-- value and shape of what `decDigitsAux` produces -/
theorem decDigitsAux_spec (fuel n : Nat) (acc : List Ch) (h : n < fuel) :
    ∃ ds, decDigitsAux fuel n acc = ds ++ acc ∧ ds ≠ [] ∧ (∀ c ∈ ds, isDigit c = true) ∧ decFrom 0 ds = n := by
  induction fuel generalizing n acc with
  | zero => omega
  | succ fuel ih =>
    unfold decDigitsAux
    by_cases h10 : n < 10
    · rw [if_pos h10]
      refine ⟨[48 + n], rfl, by simp, ?_, ?_⟩
      · intro c hc; simp at hc; subst hc; exact (isDigit_iff _).2 ⟨by omega, by omega⟩
      · simp [decFrom]
    · rw [if_neg h10]
      obtain ⟨ds, he, hne, hd, hv⟩ := ih (n / 10) ((48 + n % 10) :: acc) (by omega)
      refine ⟨ds ++ [48 + n % 10], by simp [he], by simp, ?_, ?_⟩
      · intro c hc
        rw [List.mem_append] at hc
        cases hc with
        | inl hc => exact hd c hc
        | inr hc => simp at hc; subst hc; exact (isDigit_iff _).2 ⟨by omega, by omega⟩
      · rw [decFrom_append, hv]; simp [decFrom]; omega

theorem decDigits_spec (n : Nat) :
    decDigits n ≠ [] ∧ (∀ c ∈ decDigits n, isDigit c = true) ∧ Spec.decValue (decDigits n) = n := by
  obtain ⟨ds, he, hne, hd, hv⟩ := decDigitsAux_spec (n + 1) n [] (by omega)
  unfold decDigits
  rw [he, List.append_nil]
  exact ⟨hne, hd, hv⟩

/-! ## the accumulation loop of `num_get` -/

theorem digitLoop_ovf (max : Nat) (ds rest : List Ch) (r s : Nat)
    (hd : ∀ c ∈ ds, isDigit c = true) (hr : ∀ c, rest.head? = some c → isDigit c = false) :
    ∃ r' s', digitLoop max (ds ++ rest) r true s = (r', true, s', rest) := by
  induction ds generalizing r s with
  | nil =>
    cases rest with
    | nil => exact ⟨r, s, rfl⟩
    | cons c rest =>
      have := hr c rfl
      exact ⟨r, s, by simp [digitLoop, this]⟩
  | cons c ds ih =>
    have hc : isDigit c = true := hd c (by simp)
    have ih' := fun r s => ih r s (fun x hx => hd x (by simp [hx]))
    simp only [List.cons_append, digitLoop, hc, if_true, Bool.true_or]
    split
    · exact ih' _ _
    · exact ih' _ _

/-- The loop on a run of digits `ds` followed by a non-digit (or the end): no overflow iff the number fits in `max`,
and then the result is the number; the rest is always what follows the digits. -/
theorem digitLoop_spec (max : Nat) (hmax : 9 ≤ max) (ds rest : List Ch) (r s : Nat) (hrm : r ≤ max)
    (hd : ∀ c ∈ ds, isDigit c = true) (hr : ∀ c, rest.head? = some c → isDigit c = false) :
    (decFrom r ds ≤ max → digitLoop max (ds ++ rest) r false s = (decFrom r ds, false, s + ds.length, rest)) ∧
    (max < decFrom r ds → ∃ r' s', digitLoop max (ds ++ rest) r false s = (r', true, s', rest)) := by
  induction ds generalizing r s with
  | nil =>
    refine ⟨fun _ => ?_, fun h => by simp at h; omega⟩
    cases rest with
    | nil => rfl
    | cons c rest => have := hr c rfl; simp [digitLoop, this]
  | cons c ds ih =>
    have hc : isDigit c = true := hd c (by simp)
    have hc' := (isDigit_iff c).1 hc
    have hds : ∀ x ∈ ds, isDigit x = true := fun x hx => hd x (by simp [hx])
    simp only [List.cons_append, digitLoop, hc, if_true, decFrom_cons, Bool.false_or, List.length_cons]
    by_cases h1 : r > max / 10
    · rw [if_pos h1]
      have hbig : max < decFrom (r * 10 + (c - 48)) ds := Nat.lt_of_lt_of_le (by omega) (le_decFrom _ ds)
      exact ⟨fun h => by omega, fun _ => digitLoop_ovf max ds rest r s hds hr⟩
    · rw [if_neg h1]
      by_cases h2 : r * 10 > max - (c - 48)
      · have hbig : max < decFrom (r * 10 + (c - 48)) ds := Nat.lt_of_lt_of_le (by omega) (le_decFrom _ ds)
        simp only [h2, decide_true]
        exact ⟨fun h => by omega, fun _ => digitLoop_ovf max ds rest _ _ hds hr⟩
      · simp only [h2, decide_false]
        have := ih (r * 10 + (c - 48)) (s + 1) (by omega) hds
        rw [show s + 1 + ds.length = s + (ds.length + 1) by omega] at this
        exact this


/-! ## `num_get` on a numeral -/

/-- `rest` does not continue a run of digits -/
def NoDigitHead (rest : List Ch) : Prop := ∀ c, rest.head? = some c → isDigit c = false

theorem noDigitHead_nil : NoDigitHead [] := by intro c h; simp at h
theorem noDigitHead_cons {c : Ch} {r : List Ch} (h : isDigit c = false) : NoDigitHead (c :: r) := by
  intro x hx; simp at hx; subst hx; exact h

theorem zeros_append (ds rest : List Ch) (hr : NoDigitHead rest) :
    (ds ++ rest).takeWhile (· == 48) = ds.takeWhile (· == 48) ∧
    (ds ++ rest).dropWhile (· == 48) = ds.dropWhile (· == 48) ++ rest := by
  induction ds with
  | nil =>
    cases rest with
    | nil => simp
    | cons c rest =>
      have h := hr c rfl
      have : (c == 48) = false := by
        cases hc : (c == 48) with
        | false => rfl
        | true => simp at hc; subst hc; simp [isDigit] at h
      simp [List.takeWhile, List.dropWhile, this]
  | cons d ds ih =>
    cases hd : (d == 48) with
    | false => simp [List.takeWhile, List.dropWhile, hd]
    | true => simp [List.takeWhile, List.dropWhile, hd, ih.1, ih.2]

theorem decFrom_dropZeros (ds : List Ch) : decFrom 0 (ds.dropWhile (· == 48)) = decFrom 0 ds := by
  induction ds with
  | nil => rfl
  | cons d ds ih =>
    cases hd : (d == 48) with
    | false => simp [List.dropWhile, hd]
    | true => simp at hd; subst hd; simp [List.dropWhile, ih]

theorem digits_dropZeros {ds : List Ch} (hd : ∀ c ∈ ds, isDigit c = true) : ∀ c ∈ ds.dropWhile (· == 48), isDigit c = true :=
  fun c hc => hd c ((List.dropWhile_sublist _).subset hc)

theorem half_double' (t : IntTy) (h : 0 < t.bytes) : 2 ^ t.bits = 2 * 2 ^ (t.bits - 1) := by
  have : t.bits = (t.bits - 1) + 1 := by unfold IntTy.bits; omega
  rw [this, Nat.pow_succ]; simp; omega

/-- the magnitude bound `__max` of `_M_extract_int` -/
def numMax (t : IntTy) (negative : Bool) : Nat := if negative && t.signed then 2 ^ (t.bits - 1) else t.maxVal.toNat

/-- the value `_M_extract_int` stores for sign `negative` and magnitude `m` -/
def numVal (t : IntTy) (negative : Bool) (m : Nat) : Int :=
  if negative then (if t.signed then -(m : Int) else ((2 ^ t.bits - m) % 2 ^ t.bits : Nat)) else m

theorem numMax_ge (t : IntTy) (ht : 0 < t.bytes) (negative : Bool) : 9 ≤ numMax t negative := by
  have h7 : 2 ^ 7 ≤ 2 ^ (t.bits - 1) := Nat.pow_le_pow_right (by decide) (by unfold IntTy.bits; omega)
  have h8 : 2 ^ 8 ≤ 2 ^ t.bits := Nat.pow_le_pow_right (by decide) (by unfold IntTy.bits; omega)
  unfold numMax IntTy.maxVal
  generalize 2 ^ (t.bits - 1) = H at *
  generalize 2 ^ t.bits = P at *
  cases negative <;> cases t.signed <;>
    simp only [Bool.and_self, Bool.false_and, Bool.and_false, if_true, if_false, Bool.false_eq_true] <;> omega

theorem numGetBody_spec (t : IntTy) (ht : 0 < t.bytes) (negative : Bool) (ds rest : List Ch)
    (hne : ds ≠ []) (hd : ∀ c ∈ ds, isDigit c = true) (hr : NoDigitHead rest) :
    (decFrom 0 ds ≤ numMax t negative →
      numGetBody t negative (ds ++ rest) = { rest := rest, value := numVal t negative (decFrom 0 ds), fail := false, eof := rest.isEmpty }) ∧
    (numMax t negative < decFrom 0 ds →
      (numGetBody t negative (ds ++ rest)).fail = true ∧ (numGetBody t negative (ds ++ rest)).rest = rest) := by
  obtain ⟨hz1, hz2⟩ := zeros_append ds rest hr
  have hspec := digitLoop_spec (numMax t negative) (numMax_ge t ht negative) (ds.dropWhile (· == 48)) rest 0 0 (Nat.zero_le _)
    (digits_dropZeros hd) hr
  rw [decFrom_dropZeros] at hspec
  have hsep : (ds.dropWhile (· == 48)).length = 0 → (ds.takeWhile (· == 48)).isEmpty = false := by
    intro h0
    have h1 : ds.dropWhile (· == 48) = [] := List.eq_nil_of_length_eq_zero h0
    have h2 := List.takeWhile_append_dropWhile (p := (· == 48)) (l := ds)
    rw [h1, List.append_nil] at h2
    rw [h2]; cases ds with
    | nil => exact absurd rfl hne
    | cons _ _ => rfl
  constructor
  · intro hle
    have h := hspec.1 hle
    unfold numGetBody
    simp only [hz1, hz2]
    unfold numMax at h
    rw [h]
    simp only [Nat.zero_add]
    by_cases h0 : (ds.dropWhile (· == 48)).length = 0
    · simp [h0, hsep h0, numVal]
    · simp [h0, numVal]
  · intro hgt
    obtain ⟨r', s', h⟩ := hspec.2 hgt
    unfold numGetBody
    simp only [hz1, hz2]
    unfold numMax at h
    rw [h]
    simp only
    split <;> simp


theorem digit_head_ne_sign {ds : List Ch} (hne : ds ≠ []) (hd : ∀ c ∈ ds, isDigit c = true) (rest : List Ch) :
    ((ds ++ rest).head? == some 45) = false ∧ ((ds ++ rest).head? == some 43) = false := by
  cases ds with
  | nil => exact absurd rfl hne
  | cons d ds =>
    have := (isDigit_iff d).1 (hd d (by simp))
    simp; omega

/-- `num_get` on a numeral without sign / with `-` / with `+` -/
theorem numGet_unsigned (t : IntTy) (ds rest : List Ch) (hne : ds ≠ []) (hd : ∀ c ∈ ds, isDigit c = true) :
    numGet t (ds ++ rest) = numGetBody t false (ds ++ rest) := by
  obtain ⟨h1, h2⟩ := digit_head_ne_sign hne hd rest
  unfold numGet; simp only [h1, h2, Bool.or_self, Bool.false_eq_true, if_false]

theorem numGet_minus (t : IntTy) (b : List Ch) : numGet t (45 :: b) = numGetBody t true b := by
  unfold numGet; simp

theorem numGet_plus (t : IntTy) (b : List Ch) : numGet t (43 :: b) = numGetBody t false b := by
  unfold numGet; simp

theorem pow_bits_le (t : IntTy) (h8 : t.bytes ≤ 8) : 2 ^ (t.bits - 1) ≤ 2 ^ 63 ∧ 2 ^ t.bits ≤ 2 ^ 64 :=
  ⟨Nat.pow_le_pow_right (by decide) (by unfold IntTy.bits; omega), Nat.pow_le_pow_right (by decide) (by unfold IntTy.bits; omega)⟩

/-- `num_get` reads back what `num_put` wrote for a value of the type, up to the first character that is not a digit -/
theorem numGet_putInt (t : IntTy) (ht : 0 < t.bytes) (v : Int) (hv : t.InRange v) (rest : List Ch) (hr : NoDigitHead rest) :
    numGet t (putInt v ++ rest) = { rest := rest, value := v, fail := false, eof := rest.isEmpty } := by
  obtain ⟨hne, hd, hval⟩ := decDigits_spec v.natAbs
  rw [decValue_eq] at hval
  have hd2 := half_double' t ht
  unfold IntTy.InRange IntTy.minVal IntTy.maxVal at hv
  unfold putInt
  by_cases hneg : v < 0
  · rw [if_pos hneg, List.cons_append, numGet_minus]
    have hs : t.signed = true := by
      cases h : t.signed with
      | true => rfl
      | false => simp [h] at hv; omega
    have hb := (numGetBody_spec t ht true _ rest hne hd hr).1 (by
      rw [hval]; unfold numMax; simp only [hs, Bool.and_self, if_true]
      simp only [hs, if_true] at hv; omega)
    rw [hb, hval]; unfold numVal; simp only [hs, if_true]
    congr 1; omega
  · rw [if_neg hneg, numGet_unsigned t _ rest hne hd]
    have hb := (numGetBody_spec t ht false _ rest hne hd hr).1 (by
      rw [hval]; unfold numMax IntTy.maxVal; simp only [Bool.false_and, Bool.false_eq_true, if_false]
      cases h : t.signed <;> simp only [h, if_true, if_false, Bool.false_eq_true] at hv ⊢ <;> omega)
    rw [hb, hval]; unfold numVal; simp only [Bool.false_eq_true, if_false]
    congr 1; omega


/-! ## stream extraction -/

theorem isSpace_digit {c : Ch} (h : isDigit c = true) : isSpace c = false := by
  have := (isDigit_iff c).1 h
  simp [isSpace]; omega

theorem putInt_head (v : Int) : ∃ c r, putInt v = c :: r ∧ isSpace c = false := by
  obtain ⟨hne, hd, _⟩ := decDigits_spec v.natAbs
  unfold putInt
  split
  · exact ⟨45, _, rfl, by decide⟩
  · cases h : decDigits v.natAbs with
    | nil => exact absurd h hne
    | cons c r => exact ⟨c, r, rfl, isSpace_digit (hd c (by simp [h]))⟩

/-- the sentry of a formatted extraction on a good stream whose next character is not white space -/
theorem sentry_nonspace (c : Ch) (r : List Ch) (h : isSpace c = false) :
    sentry { buf := c :: r, eof := false, fail := false } false = ({ buf := c :: r, eof := false, fail := false }, true) := by
  simp [sentry, IStream.good, List.dropWhile, h]

theorem inRange_long (t : IntTy) (_ht : 0 < t.bytes) (h8 : t.bytes ≤ 8) (v : Int) (hv : t.InRange v) (hs : t.signed = true) :
    IntTy.InRange ⟨8, true⟩ v := by
  obtain ⟨h63, h64⟩ := pow_bits_le t h8
  unfold IntTy.InRange IntTy.minVal IntTy.maxVal at *
  simp only [hs, if_true] at hv
  simp only [if_true, IntTy.bits]
  generalize 2 ^ (t.bits - 1) = H at *
  omega

/-- `stream >> x` for a number type reads back what `stream << v` wrote, stops in front of `rest` -/
theorem extractNum_putInt (t : IntTy) (ht : 0 < t.bytes) (h8 : t.bytes ≤ 8) (v : Int) (hv : t.InRange v)
    (rest : List Ch) (hr : NoDigitHead rest) :
    extractNum t { buf := putInt v ++ rest, eof := false, fail := false } =
      ({ buf := rest, eof := rest.isEmpty, fail := false }, some v) := by
  obtain ⟨c, r, hp, hc⟩ := putInt_head v
  unfold extractNum
  rw [hp, List.cons_append, sentry_nonspace c _ hc]
  simp only [if_true]
  rw [← List.cons_append, ← hp]
  by_cases hl : (t.signed && decide (t.bytes < 8)) = true
  · have hs : t.signed = true := by simp at hl; exact hl.1
    rw [if_pos hl, numGet_putInt ⟨8, true⟩ (by decide) v (inRange_long t ht h8 v hv hs) rest hr]
    simp only [hl, if_true]
    unfold IntTy.InRange at hv
    rw [if_neg (by omega), if_neg (by omega)]
    simp
  · rw [if_neg hl, numGet_putInt t ht v hv rest hr]
    simp [hl]

/-- `peek()` at the end of the text, after an extraction that ran into the end -/
theorem peek_at_end : (peek { buf := [], eof := true, fail := false }).2 = none := by
  simp [peek, sentry, IStream.good]


/-! ## what an accepted text looks like -/

theorem noDigitHead_dropWhile (b : List Ch) : NoDigitHead (b.dropWhile isDigit) := by
  intro c hc
  induction b with
  | nil => simp at hc
  | cons d b ih =>
    cases hd : isDigit d with
    | true => simp [List.dropWhile, hd] at hc; exact ih hc
    | false => simp [List.dropWhile, hd] at hc; subst hc; exact hd

theorem numGetBody_no_digits (t : IntTy) (ht : 0 < t.bytes) (neg : Bool) (b : List Ch) (hb : NoDigitHead b) :
    (numGetBody t neg b).fail = true := by
  obtain ⟨hz1, hz2⟩ := zeros_append [] b hb
  have h := (digitLoop_spec (numMax t neg) (numMax_ge t ht neg) [] b 0 0 (Nat.zero_le _) (by simp) hb).1 (Nat.zero_le _)
  simp only [List.nil_append, List.takeWhile, List.dropWhile] at hz1 hz2 h
  unfold numGetBody
  unfold numMax at h
  simp only [hz1, hz2, h]
  simp

/-- If `num_get` succeeds and leaves nothing, the text behind the sign is a non-empty run of digits that fits. -/
theorem numGetBody_ok (t : IntTy) (ht : 0 < t.bytes) (neg : Bool) (b : List Ch)
    (hf : (numGetBody t neg b).fail = false) (hrest : (numGetBody t neg b).rest = []) :
    b ≠ [] ∧ (∀ c ∈ b, isDigit c = true) ∧ decFrom 0 b ≤ numMax t neg ∧ (numGetBody t neg b).value = numVal t neg (decFrom 0 b) := by
  have hsplit : b = b.takeWhile isDigit ++ b.dropWhile isDigit := (List.takeWhile_append_dropWhile).symm
  have hd : ∀ c ∈ b.takeWhile isDigit, isDigit c = true := fun c hc =>
    List.all_eq_true.1 (List.all_takeWhile (l := b) (p := isDigit)) c hc
  have hr := noDigitHead_dropWhile b
  by_cases hne : b.takeWhile isDigit = []
  · rw [hne, List.nil_append] at hsplit
    rw [hsplit] at hf
    rw [numGetBody_no_digits t ht neg _ hr] at hf
    exact absurd hf (by decide)
  · have hs := numGetBody_spec t ht neg _ _ hne hd hr
    rw [← hsplit] at hs
    by_cases hle : decFrom 0 (b.takeWhile isDigit) ≤ numMax t neg
    · have h := hs.1 hle
      rw [h] at hrest
      simp only at hrest
      have hb : b = b.takeWhile isDigit := by rw [hrest, List.append_nil] at hsplit; exact hsplit
      rw [← hb] at hd hle h hne
      exact ⟨hne, hd, hle, by rw [h]⟩
    · have := (hs.2 (by omega)).1
      rw [this] at hf
      exact absurd hf (by decide)


theorem peek_none_iff (st : IStream) : (peek st).2 = none ↔ (st.eof = true ∨ st.fail = true ∨ st.buf = []) := by
  unfold peek sentry IStream.good
  cases he : st.eof <;> cases hf : st.fail <;> simp
  cases hb : st.buf <;> simp

theorem takeWhile_space_spec (s : List Ch) : ∀ c ∈ s.takeWhile isSpace, Spec.IsSpaceChar c := by
  intro c hc
  have := List.all_eq_true.1 (List.all_takeWhile (l := s) (p := isSpace)) c hc
  simp [isSpace] at this
  unfold Spec.IsSpaceChar; omega

theorem digits_spec {ds : List Ch} (hd : ∀ c ∈ ds, isDigit c = true) : ∀ c ∈ ds, Spec.IsDigitChar c :=
  fun c hc => (isDigit_iff c).1 (hd c hc)

/-- sign stage of `num_get` -/
theorem numGet_sign (t : IntTy) (b : List Ch) :
    ∃ sg neg b1, b = sg ++ b1 ∧ numGet t b = numGetBody t neg b1 ∧
      ((sg = [] ∧ neg = false) ∨ (sg = [43] ∧ neg = false) ∨ (sg = [45] ∧ neg = true)) := by
  cases b with
  | nil => exact ⟨[], false, [], rfl, by simp [numGet], Or.inl ⟨rfl, rfl⟩⟩
  | cons c b =>
    by_cases h45 : c = 45
    · subst h45; exact ⟨[45], true, b, rfl, numGet_minus t b, Or.inr (Or.inr ⟨rfl, rfl⟩)⟩
    · by_cases h43 : c = 43
      · subst h43; exact ⟨[43], false, b, rfl, numGet_plus t b, Or.inr (Or.inl ⟨rfl, rfl⟩)⟩
      · refine ⟨[], false, c :: b, rfl, ?_, Or.inl ⟨rfl, rfl⟩⟩
        have e45 : (c == 45) = false := by simp [h45]
        unfold numGet; simp [h43, e45]

end Fcppt.C15
