import FcpptModel.Spec.C10
import FcpptProofs.C10.Wf
set_option linter.unusedSimpArgs false
/-!
# C10 — property theorems

For every enum size `n`, every word width `w ≥ 1` (the C++ instantiations are w ∈ {8,16,32,64})
and every way `e` of computing a bitfield through the public interface:
the model's observable behaviour (`get`, `==`, `!=`, `is_subset_eq`, `hash`) is that of the
mathematical set `e.den`.  Only theorems live in this file; lemmas are in `FcpptProofs/C10/`.
-/
namespace Fcppt.C10
variable {w : Nat}

/-- lemma used below: left fold of `set` over a list of valid positions -/
private theorem foldl_set_spec (hw : 0 < w) (n : Nat) (l : List Nat) (f : Nat → Bool) (hl : ∀ i ∈ l, i < n)
    (a : Words w) (ha : Wf n a) :
    Wf n (l.foldl (fun a i => set a i (f i)) a) ∧
    ∀ j, bit (l.foldl (fun a i => set a i (f i)) a) j = if j ∈ l then f j else bit a j := by
  induction l generalizing a with
  | nil => exact ⟨ha, fun j => by simp⟩
  | cons x xs ih =>
    have hx : x < n := hl x (by simp)
    have hwf := wf_set hw ha hx (f x)
    obtain ⟨h1, h2⟩ := ih (fun i hi => hl i (by simp [hi])) (set a x (f x)) hwf
    refine ⟨h1, fun j => ?_⟩
    simp only [List.foldl_cons]
    rw [h2 j, bit_set hw a x (f x) (ha.len ▸ div_lt_nwords hw hx)]
    by_cases hj : j ∈ xs
    · simp [hj]
    · by_cases hjx : j = x
      · subst hjx; simp [hj]
      · simp [hj, hjx]

/-- **Every computed bitfield is well-formed and denotes `den`.**  (`~` included.) -/
theorem eval_spec (hw : 0 < w) (n : Nat) (e : Expr) (hv : e.Valid n) :
    Wf n (e.eval n w) ∧ ∀ i, i < n → get (e.eval n w) i = e.den i := by
  induction e with
  | lit l =>
    have := foldl_set_spec hw n l (fun _ => true) hv (null n w) (wf_null n)
    refine ⟨this.1, fun i _ => ?_⟩
    rw [get_eq_bit hw]
    show bit (l.foldl (fun a i => set a i true) (null n w)) i = _
    rw [this.2 i, bit_null]
    simp [Expr.den]
  | init t =>
    have := foldl_set_spec hw n (List.range n) (fun i => t.getD i false) (by simp) (null n w) (wf_null n)
    refine ⟨this.1, fun i hi => ?_⟩
    rw [get_eq_bit hw]
    show bit ((List.range n).foldl (fun a i => set a i (t.getD i false)) (null n w)) i = _
    rw [this.2 i]
    simp [hi, Expr.den]
  | set a i v ih =>
    obtain ⟨ha, hi⟩ := hv
    obtain ⟨hwf, hg⟩ := ih ha
    refine ⟨wf_set hw hwf hi v, fun j hj => ?_⟩
    rw [get_eq_bit hw]
    show bit (set (a.eval n w) i v) j = _
    rw [bit_set hw _ i v (hwf.len ▸ div_lt_nwords hw hi), ← get_eq_bit hw, hg j hj]
    simp [Expr.den]
  | or a b iha ihb =>
    obtain ⟨ha, hb⟩ := hv
    obtain ⟨wa, ga⟩ := iha ha
    obtain ⟨wb, gb⟩ := ihb hb
    refine ⟨wf_or wa wb, fun j hj => ?_⟩
    rw [get_eq_bit hw]
    show bit (or (a.eval n w) (b.eval n w)) j = _
    rw [bit_or _ _ (by rw [wa.len, wb.len]), ← get_eq_bit hw, ← get_eq_bit hw, ga j hj, gb j hj]
    rfl
  | and a b iha ihb =>
    obtain ⟨ha, hb⟩ := hv
    obtain ⟨wa, ga⟩ := iha ha
    obtain ⟨wb, gb⟩ := ihb hb
    refine ⟨wf_and wa wb, fun j hj => ?_⟩
    rw [get_eq_bit hw]
    show bit (and (a.eval n w) (b.eval n w)) j = _
    rw [bit_and _ _ (by rw [wa.len, wb.len]), ← get_eq_bit hw, ← get_eq_bit hw, ga j hj, gb j hj]
    rfl
  | xor a b iha ihb =>
    obtain ⟨ha, hb⟩ := hv
    obtain ⟨wa, ga⟩ := iha ha
    obtain ⟨wb, gb⟩ := ihb hb
    refine ⟨wf_xor wa wb, fun j hj => ?_⟩
    rw [get_eq_bit hw]
    show bit (xor (a.eval n w) (b.eval n w)) j = _
    rw [bit_xor _ _ (by rw [wa.len, wb.len]), ← get_eq_bit hw, ← get_eq_bit hw, ga j hj, gb j hj]
    rfl
  | not a ih =>
    obtain ⟨wa, ga⟩ := ih hv
    refine ⟨wf_not hw wa, fun j hj => ?_⟩
    rw [get_eq_bit hw]
    show bit (not n (a.eval n w)) j = _
    rw [bit_not hw wa, ← get_eq_bit hw, ga j hj]
    simp [hj, Expr.den]

/-- `get` agrees with set membership: union, intersection, symmetric difference, complement
relative to the enum, insertion/removal, initializer list, `init`. -/
theorem get_eq_den (hw : 0 < w) (n : Nat) (e : Expr) (hv : e.Valid n) (i : Nat) (hi : i < n) :
    get (e.eval n w) i = e.den i :=
  (eval_spec hw n e hv).2 i hi

/-- **Same set ⇒ same representation**, however the two bitfields were computed. -/
theorem eval_eq_of_same_set (hw : 0 < w) (n : Nat) (e₁ e₂ : Expr) (h₁ : e₁.Valid n) (h₂ : e₂.Valid n)
    (hs : ∀ i, i < n → e₁.den i = e₂.den i) : e₁.eval n w = e₂.eval n w := by
  obtain ⟨w1, g1⟩ := eval_spec hw n e₁ h₁
  obtain ⟨w2, g2⟩ := eval_spec hw n e₂ h₂
  apply wf_ext hw w1 w2
  intro i hi
  rw [← get_eq_bit hw, ← get_eq_bit hw, g1 i hi, g2 i hi, hs i hi]

/-- `==` is set equality. -/
theorem eq_iff_same_set (hw : 0 < w) (n : Nat) (e₁ e₂ : Expr) (h₁ : e₁.Valid n) (h₂ : e₂.Valid n) :
    eq (e₁.eval n w) (e₂.eval n w) = true ↔ ∀ i, i < n → e₁.den i = e₂.den i := by
  constructor
  · intro h i hi
    have : e₁.eval n w = e₂.eval n w := by simpa [eq] using h
    rw [← get_eq_den hw n e₁ h₁ i hi, ← get_eq_den hw n e₂ h₂ i hi, this]
  · intro hs
    simp [eq, eval_eq_of_same_set hw n e₁ e₂ h₁ h₂ hs]

/-- `!=` is the negation of `==`. -/
theorem ne_eq_not_eq (a b : Words w) : ne a b = !eq a b := rfl

/-- equal sets hash equally, for any `hash_combine` and any word hash. -/
theorem hash_eq_of_same_set (hw : 0 < w) (n : Nat) (e₁ e₂ : Expr) (h₁ : e₁.Valid n) (h₂ : e₂.Valid n)
    (hc : Nat → Nat → Nat) (hwd : BitVec w → Nat)
    (hs : ∀ i, i < n → e₁.den i = e₂.den i) :
    hash hc hwd (e₁.eval n w) = hash hc hwd (e₂.eval n w) := by
  rw [eval_eq_of_same_set hw n e₁ e₂ h₁ h₂ hs]

/-- `is_subset_eq` is the subset relation. -/
theorem isSubsetEq_iff (hw : 0 < w) (n : Nat) (e₁ e₂ : Expr) (h₁ : e₁.Valid n) (h₂ : e₂.Valid n) :
    isSubsetEq (e₁.eval n w) (e₂.eval n w) = true ↔ ∀ i, i < n → e₁.den i = true → e₂.den i = true := by
  have := eq_iff_same_set hw n (.and e₁ e₂) e₁ ⟨h₁, h₂⟩ h₁
  unfold isSubsetEq
  rw [show and (e₁.eval n w) (e₂.eval n w) = (Expr.and e₁ e₂).eval n w from rfl, this]
  constructor
  · intro h i hi h1
    have := h i hi
    simp [Expr.den, h1] at this
    exact this
  · intro h i hi
    simp only [Expr.den]
    cases h1 : e₁.den i
    · simp
    · simp [h i hi h1]

/-- `members` (what iterating `get` over all enumerators observes) is exactly the denoted set. -/
theorem members_eq (hw : 0 < w) (n : Nat) (e : Expr) (hv : e.Valid n) :
    members n (e.eval n w) = (List.range n).filter e.den := by
  unfold members
  apply List.filter_congr
  intro i hi
  exact get_eq_den hw n e hv i (by simpa using hi)

/-! ## Non-vacuity: the hypotheses are met by concrete, non-trivial values, and the
padding case (enum size not a multiple of the word size) is the one that used to fail. -/

example : (Expr.not (.lit [0, 2])).Valid 3 ∧ (Expr.lit [1]).Valid 3 := by
  simp [Expr.Valid]

-- ~{e0,e2} over a 3-element enum in 8-bit words equals {e1}: same words, so `==` and `hash` agree
example : (Expr.not (.lit [0, 2])).eval 3 8 = (Expr.lit [1]).eval 3 8 := by decide
-- the unrepaired complement (no masking of the last word) is a different array: the defect fixed in 2bd4a8e
example : ((Expr.lit [0, 2]).eval 3 8).map (~~~ ·) ≠ (Expr.lit [1]).eval 3 8 := by decide
-- 9 enumerators in 8-bit words: two words, one used bit in the last
example : (Expr.not (.lit [])).eval 9 8 = [255#8, 1#8] := by decide

end Fcppt.C10
