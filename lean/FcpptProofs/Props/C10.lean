import FcpptModel.Spec.C10
import FcpptProofs.C10.Wf
set_option linter.unusedSimpArgs false
/-!
# C10 — property theorems

For every enum size `n`, every word width `w ≥ 1` (the C++ instantiations are w ∈ {8,16,32,64})
and every way `e` of computing a bitfield through the public interface (initializer list,
`init`, raw-array constructor, `set`/`operator[] =`/`|= index`, writes through `array()`,
`| & ^ ~` and the assigning forms): the model's observable behaviour (`get`, `==`, `!=`,
`is_subset_eq`, `hash`, `underlying_value`, `operator<<`) is that of the mathematical set `e.den`.
The second half is about arbitrary word arrays (dirty padding included), the same object on
both sides of an operator, and set/restore sequences.  Only theorems live in this file; lemmas are in `FcpptProofs/C10/`.
-/
namespace Fcppt.C10
variable {w : Nat}

/-- lemma used below: left fold of `set` over a list of valid positions -/
private theorem foldl_set_spec (hw : 0 < w) (n : Nat) (l : List Nat) (f : Nat → Bool) (hl : ∀ i ∈ l, i < n)
    (a : Words w) (ha : Wf n a) :
    Wf n (l.foldl (fun a i => set a i (f i)) a) ∧
    ∀ j, bit (l.foldl (fun a i => set a i (f i)) a) j = if j ∈ l then f j else bit a j := by
  induction l generalizing a with
  | nil => exact ⟨ha, fun j => by simp⟩
  | cons x xs ih =>
    have hx : x < n := hl x (by simp)
    have hwf := wf_set hw ha hx (f x)
    obtain ⟨h1, h2⟩ := ih (fun i hi => hl i (by simp [hi])) (set a x (f x)) hwf
    refine ⟨h1, fun j => ?_⟩
    simp only [List.foldl_cons]
    rw [h2 j, bit_set hw a x (f x) (ha.len ▸ div_lt_nwords hw hx)]
    by_cases hj : j ∈ xs
    · simp [hj]
    · by_cases hjx : j = x
      · subst hjx; simp [hj]
      · simp [hj, hjx]

/-- **Every computed bitfield is well-formed and denotes `den`.**  (`~`, raw arrays and `array()` writes included.) -/
theorem eval_spec (hw : 0 < w) (n : Nat) (e : Expr w) (hv : e.Valid n) :
    Wf n (e.eval n) ∧ ∀ i, i < n → get (e.eval n) i = e.den i := by
  induction e with
  | lit l =>
    have := foldl_set_spec hw n l (fun _ => true) hv (null n w) (wf_null n)
    refine ⟨this.1, fun i _ => ?_⟩
    rw [get_eq_bit hw]
    show bit (l.foldl (fun a i => set a i true) (null n w)) i = _
    rw [this.2 i, bit_null]
    simp [Expr.den]
  | init t =>
    have := foldl_set_spec hw n (List.range n) (fun i => t.getD i false) (by simp) (null n w) (wf_null n)
    refine ⟨this.1, fun i hi => ?_⟩
    rw [get_eq_bit hw]
    show bit ((List.range n).foldl (fun a i => set a i (t.getD i false)) (null n w)) i = _
    rw [this.2 i]
    simp [hi, Expr.den]
  | raw ws =>
    obtain ⟨hl, hp⟩ := hv
    refine ⟨⟨hl, fun j hj => ?_⟩, fun i _ => ?_⟩
    · have := hp j hj
      rwa [get_eq_bit hw] at this
    · rw [get_eq_bit hw]; rfl
  | set a i v ih =>
    obtain ⟨ha, hi⟩ := hv
    obtain ⟨hwf, hg⟩ := ih ha
    refine ⟨wf_set hw hwf hi v, fun j hj => ?_⟩
    rw [get_eq_bit hw]
    show bit (set (a.eval n) i v) j = _
    rw [bit_set hw _ i v (hwf.len ▸ div_lt_nwords hw hi), ← get_eq_bit hw, hg j hj]
    simp [Expr.den]
  | poke a k x ih =>
    obtain ⟨ha, hk, hx⟩ := hv
    obtain ⟨hwf, hg⟩ := ih ha
    refine ⟨wf_poke hwf hk x hx, fun j hj => ?_⟩
    rw [get_eq_bit hw]
    show bit (poke (a.eval n) k x) j = _
    rw [bit_poke _ k x (hwf.len ▸ hk), ← get_eq_bit hw, hg j hj]
    rfl
  | or a b iha ihb =>
    obtain ⟨ha, hb⟩ := hv
    obtain ⟨wa, ga⟩ := iha ha
    obtain ⟨wb, gb⟩ := ihb hb
    refine ⟨wf_or wa wb, fun j hj => ?_⟩
    rw [get_eq_bit hw]
    show bit (or (a.eval n) (b.eval n)) j = _
    rw [bit_or _ _ (by rw [wa.len, wb.len]), ← get_eq_bit hw, ← get_eq_bit hw, ga j hj, gb j hj]
    rfl
  | and a b iha ihb =>
    obtain ⟨ha, hb⟩ := hv
    obtain ⟨wa, ga⟩ := iha ha
    obtain ⟨wb, gb⟩ := ihb hb
    refine ⟨wf_and wa wb, fun j hj => ?_⟩
    rw [get_eq_bit hw]
    show bit (and (a.eval n) (b.eval n)) j = _
    rw [bit_and _ _ (by rw [wa.len, wb.len]), ← get_eq_bit hw, ← get_eq_bit hw, ga j hj, gb j hj]
    rfl
  | xor a b iha ihb =>
    obtain ⟨ha, hb⟩ := hv
    obtain ⟨wa, ga⟩ := iha ha
    obtain ⟨wb, gb⟩ := ihb hb
    refine ⟨wf_xor wa wb, fun j hj => ?_⟩
    rw [get_eq_bit hw]
    show bit (xor (a.eval n) (b.eval n)) j = _
    rw [bit_xor _ _ (by rw [wa.len, wb.len]), ← get_eq_bit hw, ← get_eq_bit hw, ga j hj, gb j hj]
    rfl
  | not a ih =>
    obtain ⟨wa, ga⟩ := ih hv
    refine ⟨wf_not hw wa, fun j hj => ?_⟩
    rw [get_eq_bit hw]
    show bit (not n (a.eval n)) j = _
    rw [bit_not hw wa, ← get_eq_bit hw, ga j hj]
    simp [hj, Expr.den]

/-- `get` agrees with set membership: union, intersection, symmetric difference, complement
relative to the enum, insertion/removal, initializer list, `init`, raw array. -/
theorem get_eq_den (hw : 0 < w) (n : Nat) (e : Expr w) (hv : e.Valid n) (i : Nat) (hi : i < n) :
    get (e.eval n) i = e.den i :=
  (eval_spec hw n e hv).2 i hi

/-- **Same set ⇒ same representation**, however the two bitfields were computed. -/
theorem eval_eq_of_same_set (hw : 0 < w) (n : Nat) (e₁ e₂ : Expr w) (h₁ : e₁.Valid n) (h₂ : e₂.Valid n)
    (hs : ∀ i, i < n → e₁.den i = e₂.den i) : e₁.eval n = e₂.eval n := by
  obtain ⟨w1, g1⟩ := eval_spec hw n e₁ h₁
  obtain ⟨w2, g2⟩ := eval_spec hw n e₂ h₂
  apply wf_ext hw w1 w2
  intro i hi
  rw [← get_eq_bit hw, ← get_eq_bit hw, g1 i hi, g2 i hi, hs i hi]

/-- `==` is set equality. -/
theorem eq_iff_same_set (hw : 0 < w) (n : Nat) (e₁ e₂ : Expr w) (h₁ : e₁.Valid n) (h₂ : e₂.Valid n) :
    eq (e₁.eval n) (e₂.eval n) = true ↔ ∀ i, i < n → e₁.den i = e₂.den i := by
  constructor
  · intro h i hi
    have : e₁.eval n = e₂.eval n := by simpa [eq] using h
    rw [← get_eq_den hw n e₁ h₁ i hi, ← get_eq_den hw n e₂ h₂ i hi, this]
  · intro hs
    simp [eq, eval_eq_of_same_set hw n e₁ e₂ h₁ h₂ hs]

/-- `!=` is the negation of `==`. -/
theorem ne_eq_not_eq (a b : Words w) : ne a b = !eq a b := rfl

/-- equal sets hash equally, for any `hash_combine` and any word hash. -/
theorem hash_eq_of_same_set (hw : 0 < w) (n : Nat) (e₁ e₂ : Expr w) (h₁ : e₁.Valid n) (h₂ : e₂.Valid n)
    (hc : Nat → Nat → Nat) (hwd : BitVec w → Nat)
    (hs : ∀ i, i < n → e₁.den i = e₂.den i) :
    hash hc hwd (e₁.eval n) = hash hc hwd (e₂.eval n) := by
  rw [eval_eq_of_same_set hw n e₁ e₂ h₁ h₂ hs]

/-- the concrete hash of this tree (`fcppt::hash_combine` on a 64-bit `size_t`, identity word hash). -/
theorem hash64_eq_of_same_set (hw : 0 < w) (n : Nat) (e₁ e₂ : Expr w) (h₁ : e₁.Valid n) (h₂ : e₂.Valid n)
    (hs : ∀ i, i < n → e₁.den i = e₂.den i) : hash64 (e₁.eval n) = hash64 (e₂.eval n) :=
  hash_eq_of_same_set hw n e₁ e₂ h₁ h₂ _ _ hs

/-- `is_subset_eq` is the subset relation. -/
theorem isSubsetEq_iff (hw : 0 < w) (n : Nat) (e₁ e₂ : Expr w) (h₁ : e₁.Valid n) (h₂ : e₂.Valid n) :
    isSubsetEq (e₁.eval n) (e₂.eval n) = true ↔ ∀ i, i < n → e₁.den i = true → e₂.den i = true := by
  have := eq_iff_same_set hw n (.and e₁ e₂) e₁ ⟨h₁, h₂⟩ h₁
  unfold isSubsetEq
  rw [show and (e₁.eval n) (e₂.eval n) = (Expr.and e₁ e₂).eval n from rfl, this]
  constructor
  · intro h i hi h1
    have := h i hi
    simp [Expr.den, h1] at this
    exact this
  · intro h i hi
    simp only [Expr.den]
    cases h1 : e₁.den i
    · simp
    · simp [h i hi h1]

/-- `members` (what iterating `get` over all enumerators observes) is exactly the denoted set. -/
theorem members_eq (hw : 0 < w) (n : Nat) (e : Expr w) (hv : e.Valid n) :
    members n (e.eval n) = (List.range n).filter e.den := by
  unfold members
  apply List.filter_congr
  intro i hi
  exact get_eq_den hw n e hv i (by simpa using hi)

/-! ## Arbitrary word arrays: bit addressing, well-formed arrays, dirty padding -/

/-- `fcppt::bit::shifted_mask` as used by the proxy (`bit_mask (bit_offset pos)`): exactly bit `pos % w`. -/
theorem shifted_mask_spec (hw : 0 < w) (i k : Nat) (hk : k < w) :
    (mask w i).getLsbD k = decide (k = i % w) :=
  mask_getLsbD hw i k hk

/-- `fcppt::bit::test` against a shifted mask reads that bit. -/
theorem bit_test_spec (hw : 0 < w) (x : BitVec w) (i : Nat) :
    bitTest x (mask w i) = x.getLsbD (i % w) := by
  simpa [bitTest] using and_mask_ne_zero hw x i

/-- **Bit addressing**: enumerator `i` is bit `i % w` of word `i / w` (`proxy::array_offset`,
`bit_offset`, `bit_mask`, `bit::test`), for any array. -/
theorem get_addressing (hw : 0 < w) (a : Words w) (i : Nat) :
    get a i = match a[i / w]? with | some x => x.getLsbD (i % w) | none => false :=
  get_eq_bit hw a i

/-- a well-formed array is a valid raw-array expression denoting what `get` observes -/
private theorem raw_valid (hw : 0 < w) {n : Nat} {a : Words w} (ha : Wf n a) :
    (Expr.raw a).Valid n ∧ ∀ i, (Expr.raw a).den i = get a i :=
  ⟨⟨ha.len, fun j hj => by rw [get_eq_bit hw]; exact ha.pad j hj⟩, fun i => (get_eq_bit hw a i).symm⟩

/-- `==` on any two well-formed arrays (however obtained, e.g. through the raw-array
constructor) is equality of what `get` observes. -/
theorem eq_iff_same_members (hw : 0 < w) {n : Nat} {a b : Words w} (ha : Wf n a) (hb : Wf n b) :
    eq a b = true ↔ ∀ i, i < n → get a i = get b i := by
  obtain ⟨va, da⟩ := raw_valid hw ha
  obtain ⟨vb, db⟩ := raw_valid hw hb
  have := eq_iff_same_set hw n (.raw a) (.raw b) va vb
  simp only [da, db] at this
  exact this

/-- `is_subset_eq` on any two well-formed arrays. -/
theorem isSubsetEq_iff_members (hw : 0 < w) {n : Nat} {a b : Words w} (ha : Wf n a) (hb : Wf n b) :
    isSubsetEq a b = true ↔ ∀ i, i < n → get a i = true → get b i = true := by
  obtain ⟨va, da⟩ := raw_valid hw ha
  obtain ⟨vb, db⟩ := raw_valid hw hb
  have := isSubsetEq_iff hw n (.raw a) (.raw b) va vb
  simp only [da, db] at this
  exact this

/-- **`~` repairs padding**: for *any* array of the right length — dirty padding included —
the complement is well-formed and is the complement relative to the enum. -/
theorem not_any_array (hw : 0 < w) {n : Nat} {a : Words w} (hl : a.length = nwords n w) :
    Wf n (not n a) ∧ ∀ i, i < n → get (not n a) i = !get a i := by
  refine ⟨wf_not_len hw hl, fun i hi => ?_⟩
  rw [get_eq_bit hw, bit_not_len hw hl, get_eq_bit hw]
  simp [hi]

/-- `get` after every operation on *arbitrary* arrays of equal length (no padding hypothesis):
membership is computed bit-wise whatever the padding holds; only `==` and `hash` need `Wf`. -/
theorem get_ops_any_array (hw : 0 < w) {n : Nat} (a b : Words w) (hl : a.length = b.length)
    (hn : a.length = nwords n w) (i : Nat) :
    get (or a b) i = (get a i || get b i) ∧ get (and a b) i = (get a i && get b i) ∧
    get (xor a b) i = (get a i ^^ get b i) ∧ (i < n → get (not n a) i = !get a i) ∧
    ∀ j v, j / w < a.length → get (set a j v) i = if i = j then v else get a i := by
  simp only [get_eq_bit hw]
  refine ⟨bit_or a b hl i, bit_and a b hl i, bit_xor a b hl i, fun hi => ?_, fun j v hj => bit_set hw a j v hj i⟩
  rw [bit_not_len hw hn]; simp [hi]

/-- `init` builds a well-formed array with `get = f` from any predicate (this is the
canonical rebuild used by the correspondence: `init(λ e. b.get(e))`). -/
theorem init_spec (hw : 0 < w) (n : Nat) (f : Nat → Bool) :
    Wf n (init n w f) ∧ ∀ i, i < n → get (init n w f) i = f i := by
  have := foldl_set_spec hw n (List.range n) f (by simp) (null n w) (wf_null n)
  refine ⟨this.1, fun i hi => ?_⟩
  rw [get_eq_bit hw]
  show bit ((List.range n).foldl (fun a i => set a i (f i)) (null n w)) i = _
  rw [this.2 i]
  simp [hi]

/-! ## The same object on both sides, set / restore sequences -/

/-- `a |= a`, `a &= a`, `a ^= a`, `a == a`, `is_subset_eq(a, a)` — the results the real
operators must produce when both operands are the same object. -/
theorem self_ops (hw : 0 < w) {n : Nat} (a : Words w) (hl : a.length = nwords n w) :
    or a a = a ∧ and a a = a ∧ xor a a = null n w ∧ eq a a = true ∧ isSubsetEq a a = true := by
  have h1 : or a a = a := ext_bits hw (length_zip _ a a rfl) fun j => by rw [bit_or a a rfl]; simp
  have h2 : and a a = a := ext_bits hw (length_zip _ a a rfl) fun j => by rw [bit_and a a rfl]; simp
  have h3 : xor a a = null n w :=
    ext_bits hw (by rw [xor, length_zip _ a a rfl, hl, length_null]) fun j => by
      rw [bit_xor a a rfl, bit_null]; simp
  refine ⟨h1, h2, h3, by simp [eq], ?_⟩
  unfold isSubsetEq
  rw [h2]; simp [eq]

/-- save – mutate – restore: writing a bit and writing the saved old value back restores the
array exactly (every position, every word, dirty or clean). -/
theorem set_restore (hw : 0 < w) (a : Words w) (i : Nat) (v : Bool) (hi : i / w < a.length) :
    set (set a i v) i (get a i) = a := by
  apply ext_bits hw (by simp [length_set])
  intro j
  rw [bit_set hw _ i _ (by simpa [length_set] using hi), bit_set hw a i v hi, get_eq_bit hw]
  by_cases h : j = i
  · subst h; simp
  · simp [h]

/-- the last write to a position wins -/
theorem set_set_same (hw : 0 < w) (a : Words w) (i : Nat) (v u : Bool) (hi : i / w < a.length) :
    set (set a i v) i u = set a i u := by
  apply ext_bits hw (by simp [length_set])
  intro j
  rw [bit_set hw _ i _ (by simpa [length_set] using hi), bit_set hw a i v hi, bit_set hw a i u hi]
  by_cases h : j = i <;> simp [h]

/-- writes to different positions commute (same word or different words) -/
theorem set_comm (hw : 0 < w) (a : Words w) (i j : Nat) (v u : Bool) (hij : i ≠ j)
    (hi : i / w < a.length) (hj : j / w < a.length) :
    set (set a i v) j u = set (set a j u) i v := by
  apply ext_bits hw (by simp [length_set])
  intro k
  rw [bit_set hw _ j _ (by simpa [length_set] using hj), bit_set hw a i v hi,
    bit_set hw _ i _ (by simpa [length_set] using hi), bit_set hw a j u hj]
  by_cases h1 : k = j <;> by_cases h2 : k = i <;> simp [h1, h2]
  all_goals (intro h; omega)

/-- the defaulted proxy copy-assignment rebinds: `p = q; p = v` writes `q`'s bit and leaves `p`'s old bit alone. -/
theorem proxy_assign_rebinds (hw : 0 < w) (a : Words w) (p q : Proxy) (v : Bool)
    (hq : q.pos / w < a.length) (hpq : p.pos ≠ q.pos) :
    Proxy.assignBool a (Proxy.assignProxy p q) v = set a q.pos v ∧
    Proxy.toBool (Proxy.assignBool a (Proxy.assignProxy p q) v) p = Proxy.toBool a p := by
  refine ⟨rfl, ?_⟩
  show get (set a q.pos v) p.pos = get a p.pos
  rw [get_eq_bit hw, get_eq_bit hw, bit_set hw a q.pos v hq]
  simp [hpq]

/-! ## `underlying_value` and `operator<<` -/

/-- `underlying_value` exists exactly for one-word bitfields and is the characteristic number
of the set: bit `k` is set iff `k` is an enumerator contained in the bitfield. -/
theorem underlyingValue_spec (hw : 0 < w) {n : Nat} {a : Words w} (ha : Wf n a) :
    ((underlyingValue a).isSome ↔ nwords n w = 1) ∧
    ∀ x, underlyingValue a = some x → ∀ k, x.getLsbD k = (decide (k < n) && get a k) := by
  constructor
  · rw [← ha.len]
    unfold underlyingValue
    rcases a with _ | ⟨x, _ | ⟨y, r⟩⟩ <;> simp
  · intro x hx k
    have hax : a = [x] := by
      unfold underlyingValue at hx
      rcases a with _ | ⟨y, _ | ⟨z, r⟩⟩ <;> simp at hx
      rw [hx]
    have hn : n ≤ w := by
      have := (nwords_spec hw n).1
      rw [← ha.len, hax] at this
      simpa using this
    rw [get_eq_bit hw]
    by_cases hk : k < w
    · have hb : bit a k = x.getLsbD k := by
        unfold bit
        rw [Nat.div_eq_of_lt hk, Nat.mod_eq_of_lt hk, hax]
        rfl
      by_cases hkn : k < n
      · simp [hkn, hb]
      · have := ha.pad k (by omega)
        rw [hb] at this
        simp [hkn, this]
    · have : ¬ k < n := by omega
      simp [this]
      exact BitVec.getLsbD_of_ge x k (by omega)

/-- lemma: the `operator<<` loop over a list of enumerators -/
private theorem output_fold (name : Nat → String) (a : Words w) (l : List Nat) (acc : List String) (fst : Bool) :
    l.foldl (fun (st : List String × Bool) e =>
        if get a e then ((if st.2 then st.1 else st.1 ++ [","]) ++ [name e], false) else st) (acc, fst)
      = match l.filter (get a) with
        | [] => (acc, fst)
        | ms => (acc ++ (if fst then [] else [","]) ++ List.intersperse "," (ms.map name), false) := by
  induction l generalizing acc fst with
  | nil => rfl
  | cons e es ih =>
    simp only [List.foldl_cons]
    by_cases he : get a e
    · simp only [he, ↓reduceIte, List.filter_cons_of_pos]
      rw [ih]
      cases hms : es.filter (get a) with
      | nil => cases fst <;> simp
      | cons m ms => cases fst <;> simp [List.intersperse]
    · simp only [he, Bool.false_eq_true, ↓reduceIte]
      rw [ih, List.filter_cons_of_neg (by simpa using he)]

/-- `operator<<` writes `{`, the names of the contained enumerators in enumerator order
separated by `,`, and `}`. -/
theorem output_spec (name : Nat → String) (n : Nat) (a : Words w) :
    output name n a = ["{"] ++ List.intersperse "," ((members n a).map name) ++ ["}"] := by
  unfold output members
  rw [output_fold]
  cases (List.range n).filter (get a) <;> simp

/-- equal sets print equally -/
theorem output_eq_of_same_set (hw : 0 < w) (n : Nat) (e₁ e₂ : Expr w) (h₁ : e₁.Valid n) (h₂ : e₂.Valid n)
    (name : Nat → String) (hs : ∀ i, i < n → e₁.den i = e₂.den i) :
    output name n (e₁.eval n) = output name n (e₂.eval n) := by
  rw [eval_eq_of_same_set hw n e₁ e₂ h₁ h₂ hs]

/-! ## Non-vacuity: the hypotheses are met by concrete, non-trivial values, and the
padding case (enum size not a multiple of the word size) is the one that used to fail. -/

example : (Expr.not (.lit [0, 2]) : Expr 8).Valid 3 ∧ (Expr.lit [1] : Expr 8).Valid 3 := by
  simp [Expr.Valid]

-- ~{e0,e2} over a 3-element enum in 8-bit words equals {e1}: same words, so `==` and `hash` agree
example : (Expr.not (.lit [0, 2]) : Expr 8).eval 3 = (Expr.lit [1] : Expr 8).eval 3 := by decide
-- the unrepaired complement (no masking of the last word) is a different array: the defect fixed in 2bd4a8e
example : ((Expr.lit [0, 2] : Expr 8).eval 3).map (~~~ ·) ≠ (Expr.lit [1] : Expr 8).eval 3 := by decide
-- 9 enumerators in 8-bit words: two words, one used bit in the last
example : (Expr.not (.lit []) : Expr 8).eval 9 = [255#8, 1#8] := by decide
-- a raw array with clean padding is valid; writing a clean word through array() is valid
example : (Expr.poke (.raw [255#8, 1#8]) 1 0#8 : Expr 8).Valid 9 := by
  refine ⟨⟨rfl, ?_⟩, by decide, ?_⟩
  · intro j hj
    unfold get
    by_cases h : j < 16
    · have : j ∈ List.range 16 := by simpa using h
      revert hj; revert this; revert j; decide
    · have : ¬ j / 8 < 2 := by omega
      simp [List.getElem?_eq_none (show [255#8, 1#8].length ≤ j / 8 by simp; omega)]
  · intro j _ _; simp
-- the raw-array constructor is a trust boundary: an array with a padding bit set has the
-- members of {e0,e1,e2} but is not == to it (so `Valid` for `raw` cannot be dropped);
-- `~~` of it is the well-formed array again (`not_any_array`)
example : members 3 ([255#8] : Words 8) = members 3 ((Expr.lit [0, 1, 2] : Expr 8).eval 3)
    ∧ eq ([255#8] : Words 8) ((Expr.lit [0, 1, 2] : Expr 8).eval 3) = false
    ∧ not 3 (not 3 ([255#8] : Words 8)) = (Expr.lit [0, 1, 2] : Expr 8).eval 3 := by decide
-- a duplicate in the initializer list does not toggle
example : (Expr.lit [1, 1] : Expr 8).eval 3 = (Expr.lit [1] : Expr 8).eval 3 := by decide
-- a ^= a is the empty set, a |= a and a &= a are a
example : xor ((Expr.lit [0, 8] : Expr 8).eval 9) ((Expr.lit [0, 8] : Expr 8).eval 9) = null 9 8 := by decide
-- underlying_value of {e0,e2} is 5
example : underlyingValue ((Expr.lit [0, 2] : Expr 8).eval 3) = some 5#8 := by decide
-- operator<<
example : output (fun i => s!"v{i}") 3 ((Expr.lit [2, 0] : Expr 8).eval 3) = ["{", "v0", ",", "v2", "}"] := by decide
example : output (fun i => s!"v{i}") 3 (null 3 8) = ["{", "}"] := by decide

end Fcppt.C10
