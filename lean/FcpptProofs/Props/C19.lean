/-! Property theorems for C19 — placeholder until the property's model is built. -/
