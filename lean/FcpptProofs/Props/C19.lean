import FcpptModel.Spec.C19
import FcpptProofs.C19.Hist
import FcpptProofs.C19.Conc
/-!
# C19 — property theorems (sequential part)

For every root level, every history `ops` of `context::set` calls and log-object creations (all
three constructors), every location and every log object created by the history:
`context::get`, `object::level`, `object::enabled` and the text `object::log` writes are those the
specification `levelOf` / `specText` prescribes.  Lemmas live in `FcpptProofs/C19/`.
The concurrent part (interleaving model `FcpptModel/Model/C19/Conc.lean`) follows below.
-/
namespace Fcppt.C19

/-- the hypotheses: levels are enumerators of `fcppt::log::level` (0 … 5) or empty -/
def History.Valid (root : Level) (ops : List Op) : Prop := Level.Valid root ∧ ∀ op ∈ ops, op.Valid

/-- **`context::get` = latest set on a prefix wins**, else the root level — for every history and location,
whether or not a node exists at that location. -/
theorem get_eq_latest_prefix (root : Level) (ops : List Op) (hv : History.Valid root ops) (loc : Loc) :
    ctxGet (run root ops).tree loc = levelOf root (setsOf ops) loc := by
  have h := SInv.run_ok hv.1 ops hv.2
  unfold ctxGet
  rw [h.inv.getInt loc]
  exact fromInt_convertLevel (levelOf_valid hv.1 (setsOf_valid hv.2) loc)

/-- **`object::level`** of every log object the history created: the reference it holds is valid (no fault)
and the level read through it is `levelOf` of the object's location. -/
theorem object_level_eq_latest_prefix (root : Level) (ops : List Op) (hv : History.Valid root ops)
    (o : Obj) (ho : o ∈ (run root ops).objs) :
    objLevel (run root ops).tree o = .ok (levelOf root (setsOf ops) o.node) := by
  have h := SInv.run_ok hv.1 ops hv.2
  have hex := h.objs o ho
  unfold objLevel nodeLvl
  cases hl : lvlAt (run root ops).tree o.node with
  | none => simp [hl] at hex
  | some l =>
    rw [h.inv.level _ _ hl]
    simp only [Except.map]
    rw [fromInt_convertLevel (levelOf_valid hv.1 (setsOf_valid hv.2) o.node)]

/-- **`object::enabled(l)`** holds exactly when the location's level is set and `l` is at least that level. -/
theorem enabled_iff (root : Level) (ops : List Op) (hv : History.Valid root ops)
    (o : Obj) (ho : o ∈ (run root ops).objs) (l : Nat) :
    ∃ b, objEnabled (run root ops).tree o l = .ok b ∧
      (b = true ↔ ∃ e, levelOf root (setsOf ops) o.node = some e ∧ e ≤ l) := by
  unfold objEnabled
  rw [object_level_eq_latest_prefix root ops hv o ho]
  refine ⟨_, rfl, ?_⟩
  unfold enabledAt
  cases levelOf root (setsOf ops) o.node with
  | none => simp
  | some e => simp

/-- **a message is emitted exactly when its level is enabled**, and **its text** is the object's formatter
applied to the location prefixes (root first, `name: ` each, empty names skipped) applied to the level
stream's formatter applied to the message.  `i` is the object's index, `f` the formatter it was created with. -/
theorem emits_iff (root : Level) (ops : List Op) (hv : History.Valid root ops) (streams : Nat → OptFn)
    (i : Nat) (o : Obj) (f : OptFn) (ho : (run root ops).objs[i]? = some o) (hf : (run root ops).fmts[i]? = some f)
    (l : Nat) (msg : String) :
    objLog (run root ops).tree streams o l msg =
      .ok (if (∃ e, levelOf root (setsOf ops) o.node = some e ∧ e ≤ l)
           then some (specText f (streams l) o.node msg) else none) := by
  have h := SInv.run_ok hv.1 ops hv.2
  have hmem : o ∈ (run root ops).objs := List.mem_of_getElem? ho
  unfold objLog objEnabled
  rw [object_level_eq_latest_prefix root ops hv o hmem, h.fmt i o f ho hf, streamLog_eq]
  simp only [Except.map]
  congr 1
  unfold enabledAt
  cases levelOf root (setsOf ops) o.node with
  | none => simp
  | some e => simp

/-- **prefix order**: the text of `specText` spelled out — object formatter outermost, then the location's
names root first, the level stream's formatter innermost. -/
theorem prefix_order (f own : OptFn) (p : Loc) (msg : String) :
    streamLog own (chain f (treeFormatter (toRootNames p))) msg
      = (f.getD id) (prefixText p ((own.getD id) msg)) :=
  streamLog_eq own f p msg

/-- locations of created objects, as documented: name / location + name / parent's location + name -/
theorem object_location_root (s : State) (name : String) (f : OptFn) :
    ((step s (.objRoot name f)).objs.map Obj.node) = s.objs.map Obj.node ++ [[name]] := by
  simp [step, State.add, objRoot, objAtNode]

theorem object_location_at (s : State) (loc : Loc) (name : String) (f : OptFn) :
    ((step s (.objAt loc name f)).objs.map Obj.node) = s.objs.map Obj.node ++ [loc ++ [name]] := by
  simp [step, State.add, objAt, objAtNode]

theorem object_location_child (s : State) (i : Nat) (p : Obj) (hp : s.objs[i]? = some p) (name : String) (f : OptFn) :
    ((step s (.objChild i name f)).objs.map Obj.node) = s.objs.map Obj.node ++ [p.node ++ [name]] := by
  simp [step, hp, State.add, objChild, objAtNode]

/-- the spec itself: appending a `set` -/
theorem levelOf_snoc (root : Level) (sets : List (Loc × Level)) (L : Loc) (v : Level) (loc : Loc) :
    levelOf root (sets ++ [(L, v)]) loc = if L.isPrefixOf loc then v else levelOf root sets loc :=
  levelOf_append root sets L v loc

/-- the spec is "the last set whose location is a prefix, else the root level" -/
theorem levelOf_spec (root : Level) (sets : List (Loc × Level)) (loc : Loc) :
    (∃ pre L v post, sets = pre ++ (L, v) :: post ∧ L.isPrefixOf loc = true ∧
        (∀ s ∈ post, s.1.isPrefixOf loc = false) ∧ levelOf root sets loc = v)
    ∨ ((∀ s ∈ sets, s.1.isPrefixOf loc = false) ∧ levelOf root sets loc = root) := by
  induction sets generalizing root with
  | nil => right; simp [levelOf]
  | cons s ss ih =>
    obtain ⟨L, v⟩ := s
    rw [levelOf_cons]
    rcases ih (if L.isPrefixOf loc then v else root) with ⟨pre, L', v', post, he, hp, hpost, hl⟩ | ⟨hno, hl⟩
    · left; exact ⟨(L, v) :: pre, L', v', post, by simp [he], hp, hpost, hl⟩
    · by_cases h : L.isPrefixOf loc = true
      · left; exact ⟨[], L, v, ss, by simp, h, hno, by simpa [h] using hl⟩
      · right
        refine ⟨?_, by simpa [h] using hl⟩
        intro s hs
        rcases List.mem_cons.mp hs with h1 | h1
        · subst h1; exact Bool.eq_false_iff.mpr h
        · exact hno s h1

/-! ## Non-vacuity -/

-- a history with sets on nested locations, objects through all three constructors, a disabled level
def exampleOps : List Op :=
  [.set ["a", "b"] (some 1), .objAt ["a"] "b" none, .objRoot "c" none, .set ["a"] none,
   .objChild 0 "d" (some (fun s => "T<" ++ s ++ ">")), .set ["a", "b", "d"] (some 4), .set [] (some 2), .set ["a", "b"] (some 5)]

example : History.Valid (some 3) exampleOps := by
  refine ⟨by intro v h; cases h; decide, ?_⟩
  intro op hop
  simp [exampleOps] at hop
  rcases hop with rfl | rfl | rfl | rfl | rfl | rfl | rfl | rfl <;> simp [Op.Valid, Level.Valid, levelCount]

example : levelOf (some 3) (setsOf exampleOps) ["a", "b", "d"] = some 5 := by decide
example : levelOf (some 3) (setsOf exampleOps) ["a", "x"] = some 2 := by decide
example : levelOf (some 3) (setsOf (exampleOps.take 4)) ["a", "b", "d"] = none := by decide
example : ((run (some 3) exampleOps).objs.map Obj.node) = [["a", "b"], ["c"], ["a", "b", "d"]] := by decide
example : specText (some (fun s => "T<" ++ s ++ ">")) (some (defaultLevel 4)) ["a", "", "d"] "m" = "T<a: d: error: m\n>" := by decide


/-! ## Concurrent part: every interleaving of the transcribed step system

`Reachable root s`: `s` is reachable from a fresh context by any interleaving of any number of threads
executing `set` / `get` / constructors / unlocked level loads in any order (`Conc.Step`).
These theorems are about the transcription in `FcpptModel/Model/C19/Conc.lean`; that the transcription's
lock/atomic annotations match the code is witnessed (sampled) by the ThreadSanitizer harness. -/
open Conc

/-- mutual exclusion: at most one thread is inside a `lock_guard` section -/
theorem one_thread_in_critical_section (root : Level) (hr : Level.Valid root) {s : Sys} (h : Reachable root s)
    (i j : Tid) (hi : (s.ph i).holds = true) (hj : (s.ph j).holds = true) : i = j := by
  have he := (DInv.of_reachable hr h).excl
  have h1 := (he i).mp hi
  have h2 := (he j).mp hj
  rw [h1] at h2
  simpa using h2

/-- **lock discipline**: every plain access to the tree structure and every level store is performed by the
thread that owns the mutex -/
theorem lock_discipline (root : Level) (hr : Level.Valid root) {s s' : Sys} {i : Tid} {acc : List Access}
    (h : Reachable root s) (st : Step s i acc s') (a : Access) (ha : a ∈ acc)
    (hg : (∃ w, a = .treePlain w) ∨ (∃ p x, a = .atomicStore p x)) : s.holder = some i := by
  have he := (DInv.of_reachable hr h).excl
  have own : (s.ph i).holds = true → s.holder = some i := (he i).mp
  cases st with
  | call c hi hv => simp at ha
  | acquire c hi hfree => rcases hg with ⟨w, rfl⟩ | ⟨p, x, rfl⟩ <;> simp at ha
  | setFind l v hi => exact own (by rw [hi]; rfl)
  | setStore l v q todo hi => exact own (by rw [hi]; rfl)
  | setDone l v hi => exact own (by rw [hi]; rfl)
  | getRead l hi => exact own (by rw [hi]; rfl)
  | createFind l hi => exact own (by rw [hi]; rfl)
  | unlock after hi hna => exact own (by rw [hi]; rfl)
  | format l hi => rcases hg with ⟨w, rfl⟩ | ⟨p, x, rfl⟩ <;> simp at ha
  | load p val hi ho hl => rcases hg with ⟨w, rfl⟩ | ⟨p, x, rfl⟩ <;> simp at ha

/-- no data race on the tree structure: in no reachable state do two different threads both have a plain
structure access (or level store) enabled -/
theorem no_conflicting_unsynchronised_accesses (root : Level) (hr : Level.Valid root) {s s₁ s₂ : Sys} {i j : Tid}
    {a b : List Access} (h : Reachable root s) (st₁ : Step s i a s₁) (st₂ : Step s j b s₂)
    (x y : Access) (hx : x ∈ a) (hy : y ∈ b)
    (gx : (∃ w, x = .treePlain w) ∨ (∃ p v, x = .atomicStore p v))
    (gy : (∃ w, y = .treePlain w) ∨ (∃ p v, y = .atomicStore p v)) : i = j := by
  have h1 := lock_discipline root hr h st₁ x hx gx
  have h2 := lock_discipline root hr h st₂ y hy gy
  rw [h1] at h2
  simpa using h2

/-- the unlocked plain reads of `tree_formatter` (`name_`, `parent_`) only touch nodes that already exist,
i.e. whose write-once fields were initialised in an earlier critical section -/
theorem frozen_read_of_existing_node (root : Level) (hr : Level.Valid root) {s s' : Sys} {i : Tid} {acc : List Access}
    (h : Reachable root s) (st : Step s i acc s') (p : Loc) (ha : Access.frozenRead p ∈ acc) :
    (lvlAt s.tree p).isSome = true := by
  have hd := DInv.of_reachable hr h
  cases st with
  | format l hi =>
    simp only [List.mem_map] at ha
    obtain ⟨q, hq, he⟩ := ha
    injection he with he; subst he
    unfold prefixes at hq
    obtain ⟨k, _, rfl⟩ := List.mem_map.mp hq
    exact isSome_lvlAt_take s.tree l k (hd.fmtp i l (Or.inl hi))
  | call c hi hv => simp at ha
  | acquire c hi hfree => simp at ha
  | setFind l v hi => simp at ha
  | setStore l v q todo hi => simp at ha
  | setDone l v hi => simp at ha
  | getRead l hi => simp at ha
  | createFind l hi => simp at ha
  | unlock after hi hna => simp at ha
  | load p' val hi ho hl => simp at ha

/-- **`context::get` is linearisable**: the value it returns is `levelOf` of the `set` calls whose critical
sections precede its own -/
theorem get_linearised (root : Level) (hr : Level.Valid root) {s : Sys} (h : Reachable root s) (i : Tid) (l : Loc)
    (hi : s.ph i = .getRead l) : ctxGet s.tree l = levelOf root s.done l := by
  have hd := DInv.of_reachable hr h
  have hinv := hd.quiet (hd.noStore_of_holder (i := i) (by rw [hi]; rfl) (by simp [hi]))
  unfold ctxGet
  rw [hinv.getInt l]
  exact fromInt_convertLevel (levelOf_valid hr hd.doneValid l)


/-- **every observed level is justified**: a value returned by any atomic level load — the locked one of `get`
or the unlocked one of `object::level/enabled/log` — is the specified level of the loaded node under a
linearisation of the overlapping calls: all `set`s whose critical sections are complete, optionally followed
by the one `set` that is in its store loop at that moment. -/
theorem observed_level_justified (root : Level) (hr : Level.Valid root) {s s' : Sys} {i : Tid} {acc : List Access}
    (h : Reachable root s) (st : Step s i acc s') (p : Loc) (x : Nat) (ha : Access.atomicLoad p x ∈ acc) :
    x = convertLevel (levelOf root s.done p) ∨
    ∃ j l v todo, s.ph j = .setStore l v todo ∧ x = convertLevel (levelOf root (s.done ++ [(l, v)]) p) := by
  have hd := DInv.of_reachable hr h
  have main : ∀ (p : Loc) (x : Nat), lvlAt s.tree p = some x →
      (x = convertLevel (levelOf root s.done p) ∨
       ∃ j l v todo, s.ph j = .setStore l v todo ∧ x = convertLevel (levelOf root (s.done ++ [(l, v)]) p)) := by
    intro p x hl
    by_cases hn : NoStore s
    · exact Or.inl ((hd.quiet hn).level p x hl)
    · have hex : ∃ j l v todo, s.ph j = .setStore l v todo := by
        apply Classical.byContradiction
        intro hne
        exact hn (fun j l v todo hj => hne ⟨j, l, v, todo, hj⟩)
      obtain ⟨j, l, v, todo, hj⟩ := hex
      rcases (hd.mid j l v todo hj).level p x hl with h1 | ⟨h1, h2⟩
      · exact Or.inl h1
      · exact Or.inr ⟨j, l, v, todo, hj, by rw [levelOf_append]; simp [h1, h2]⟩
  cases st with
  | getRead l hi =>
    simp only [List.mem_cons, List.not_mem_nil, or_false] at ha
    rcases ha with ha | ha
    · simp at ha
    · injection ha with h1 h2; subst h1 h2
      exact main _ _ (lvlAt_deepest s.tree l)
  | load p' val hi ho hl =>
    simp only [List.mem_singleton] at ha
    injection ha with h1 h2; subst h1 h2
    exact main _ _ hl
  | call c hi hv => simp at ha
  | acquire c hi hfree => simp at ha
  | setFind l v hi => simp at ha
  | setStore l v q todo hi => simp at ha
  | setDone l v hi => simp at ha
  | createFind l hi => simp at ha
  | unlock after hi hna => simp at ha
  | format l hi => simp at ha

/-- in a state where no `set` is in its store loop (in particular whenever the mutex is free), the tree is
exactly what the sequential specification says for the linearised history -/
theorem quiescent_tree_matches_linearisation (root : Level) (hr : Level.Valid root) {s : Sys} (h : Reachable root s)
    (hq : s.holder = none) (loc : Loc) : ctxGet s.tree loc = levelOf root s.done loc := by
  have hd := DInv.of_reachable hr h
  have hn : NoStore s := by
    intro j l v todo hj
    have := (hd.excl j).mp (by rw [hj]; rfl)
    rw [hq] at this; simp at this
  unfold ctxGet
  rw [(hd.quiet hn).getInt loc]
  exact fromInt_convertLevel (levelOf_valid hr hd.doneValid loc)

/-! non-vacuity of the concurrent model: a thread can really be inside the store loop while another one owns
an object (so the second disjunct of `observed_level_justified` is inhabited) -/
example : ∃ s, Reachable (some 3) s ∧ s.holder = some 0 ∧ (s.ph 0).holds = true := by
  let s0 := Sys.init (some 3)
  have r0 : Reachable (some 3) s0 := .init
  have r1 := Reachable.step r0 (Step.call s0 0 (.set ["a"] (some 1)) rfl (by intro l v h; injection h with _ h; subst h; intro x hx; cases hx; decide))
  have r2 := Reachable.step r1 (Step.acquire _ 0 (.set ["a"] (some 1)) (by simp [upd]) rfl)
  exact ⟨_, r2, rfl, by simp [upd, Call.locked, Phase.holds]⟩

end Fcppt.C19
