import FcpptModel.Spec.C19
import FcpptProofs.C19.Hist
import FcpptProofs.C19.Conc
import FcpptProofs.C19.Api
/-!
# C19 — property theorems (sequential part)

For every root level, every history `ops` of `context::set` calls and log-object creations (all
three constructors), every location and every log object created by the history:
`context::get`, `object::level`, `object::enabled` and the text `object::log` writes are those the
specification `levelOf` / `specText` prescribes.  Lemmas live in `FcpptProofs/C19/`.
The concurrent part (interleaving model `FcpptModel/Model/C19/Conc.lean`) follows below.
-/
namespace Fcppt.C19

/-- the hypotheses: levels are enumerators of `fcppt::log::level` (0 … 5) or empty -/
def History.Valid (root : Level) (ops : List Op) : Prop := Level.Valid root ∧ ∀ op ∈ ops, op.Valid

/-- **`context::get` = latest set on a prefix wins**, else the root level — for every history and location,
whether or not a node exists at that location. -/
theorem get_eq_latest_prefix (root : Level) (ops : List Op) (hv : History.Valid root ops) (loc : Loc) :
    ctxGet (run root ops).tree loc = levelOf root (setsOf ops) loc := by
  have h := SInv.run_ok hv.1 ops hv.2
  unfold ctxGet
  rw [h.inv.getInt loc]
  exact fromInt_convertLevel (levelOf_valid hv.1 (setsOf_valid hv.2) loc)

/-- **`object::level`** of every log object the history created: the reference it holds is valid (no fault)
and the level read through it is `levelOf` of the object's location. -/
theorem object_level_eq_latest_prefix (root : Level) (ops : List Op) (hv : History.Valid root ops)
    (o : Obj) (ho : o ∈ (run root ops).objs) :
    objLevel (run root ops).tree o = .ok (levelOf root (setsOf ops) o.node) := by
  have h := SInv.run_ok hv.1 ops hv.2
  have hex := h.objs o ho
  unfold objLevel nodeLvl
  cases hl : lvlAt (run root ops).tree o.node with
  | none => simp [hl] at hex
  | some l =>
    rw [h.inv.level _ _ hl]
    simp only [Except.map]
    rw [fromInt_convertLevel (levelOf_valid hv.1 (setsOf_valid hv.2) o.node)]

/-- **`object::enabled(l)`** holds exactly when the location's level is set and `l` is at least that level. -/
theorem enabled_iff (root : Level) (ops : List Op) (hv : History.Valid root ops)
    (o : Obj) (ho : o ∈ (run root ops).objs) (l : Nat) :
    ∃ b, objEnabled (run root ops).tree o l = .ok b ∧
      (b = true ↔ ∃ e, levelOf root (setsOf ops) o.node = some e ∧ e ≤ l) := by
  unfold objEnabled
  rw [object_level_eq_latest_prefix root ops hv o ho]
  refine ⟨_, rfl, ?_⟩
  unfold enabledAt
  cases levelOf root (setsOf ops) o.node with
  | none => simp
  | some e => simp

/-- **a message is emitted exactly when its level is enabled**, and **its text** is the object's formatter
applied to the location prefixes (root first, `name: ` each, empty names skipped) applied to the level
stream's formatter applied to the message.  `i` is the object's index, `f` the formatter it was created with. -/
theorem emits_iff (root : Level) (ops : List Op) (hv : History.Valid root ops) (streams : Nat → OptFn)
    (i : Nat) (o : Obj) (f : OptFn) (ho : (run root ops).objs[i]? = some o) (hf : (run root ops).fmts[i]? = some f)
    (l : Nat) (msg : String) :
    objLog (run root ops).tree streams o l msg =
      .ok (if (∃ e, levelOf root (setsOf ops) o.node = some e ∧ e ≤ l)
           then some (specText f (streams l) o.node msg) else none) := by
  have h := SInv.run_ok hv.1 ops hv.2
  have hmem : o ∈ (run root ops).objs := List.mem_of_getElem? ho
  unfold objLog objEnabled
  rw [object_level_eq_latest_prefix root ops hv o hmem, h.fmt i o f ho hf, streamLog_eq]
  simp only [Except.map]
  congr 1
  unfold enabledAt
  cases levelOf root (setsOf ops) o.node with
  | none => simp
  | some e => simp

/-- **prefix order**: the text of `specText` spelled out — object formatter outermost, then the location's
names root first, the level stream's formatter innermost. -/
theorem prefix_order (f own : OptFn) (p : Loc) (msg : String) :
    streamLog own (chain f (treeFormatter (toRootNames p))) msg
      = (f.getD id) (prefixText p ((own.getD id) msg)) :=
  streamLog_eq own f p msg

/-- locations of created objects, as documented: name / location + name / parent's location + name -/
theorem object_location_root (s : State) (name : String) (f : OptFn) :
    ((step s (.objRoot name f)).objs.map Obj.node) = s.objs.map Obj.node ++ [[name]] := by
  simp [step, State.add, objRoot, objAtNode]

theorem object_location_at (s : State) (loc : Loc) (name : String) (f : OptFn) :
    ((step s (.objAt loc name f)).objs.map Obj.node) = s.objs.map Obj.node ++ [loc ++ [name]] := by
  simp [step, State.add, objAt, objAtNode]

theorem object_location_child (s : State) (i : Nat) (p : Obj) (hp : s.objs[i]? = some p) (name : String) (f : OptFn) :
    ((step s (.objChild i name f)).objs.map Obj.node) = s.objs.map Obj.node ++ [p.node ++ [name]] := by
  simp [step, hp, State.add, objChild, objAtNode]

/-- the spec itself: appending a `set` -/
theorem levelOf_snoc (root : Level) (sets : List (Loc × Level)) (L : Loc) (v : Level) (loc : Loc) :
    levelOf root (sets ++ [(L, v)]) loc = if L.isPrefixOf loc then v else levelOf root sets loc :=
  levelOf_append root sets L v loc

/-- the spec is "the last set whose location is a prefix, else the root level" -/
theorem levelOf_spec (root : Level) (sets : List (Loc × Level)) (loc : Loc) :
    (∃ pre L v post, sets = pre ++ (L, v) :: post ∧ L.isPrefixOf loc = true ∧
        (∀ s ∈ post, s.1.isPrefixOf loc = false) ∧ levelOf root sets loc = v)
    ∨ ((∀ s ∈ sets, s.1.isPrefixOf loc = false) ∧ levelOf root sets loc = root) := by
  induction sets generalizing root with
  | nil => right; simp [levelOf]
  | cons s ss ih =>
    obtain ⟨L, v⟩ := s
    rw [levelOf_cons]
    rcases ih (if L.isPrefixOf loc then v else root) with ⟨pre, L', v', post, he, hp, hpost, hl⟩ | ⟨hno, hl⟩
    · left; exact ⟨(L, v) :: pre, L', v', post, by simp [he], hp, hpost, hl⟩
    · by_cases h : L.isPrefixOf loc = true
      · left; exact ⟨[], L, v, ss, by simp, h, hno, by simpa [h] using hl⟩
      · right
        refine ⟨?_, by simpa [h] using hl⟩
        intro s hs
        rcases List.mem_cons.mp hs with h1 | h1
        · subst h1; exact Bool.eq_false_iff.mpr h
        · exact hno s h1

/-! ## Non-vacuity -/

-- a history with sets on nested locations, objects through all three constructors, a disabled level
def exampleOps : List Op :=
  [.set ["a", "b"] (some 1), .objAt ["a"] "b" none, .objRoot "c" none, .set ["a"] none,
   .objChild 0 "d" (some (fun s => "T<" ++ s ++ ">")), .set ["a", "b", "d"] (some 4), .set [] (some 2), .set ["a", "b"] (some 5)]

example : History.Valid (some 3) exampleOps := by
  refine ⟨by intro v h; cases h; decide, ?_⟩
  intro op hop
  simp [exampleOps] at hop
  rcases hop with rfl | rfl | rfl | rfl | rfl | rfl | rfl | rfl <;> simp [Op.Valid, Level.Valid, levelCount]

example : levelOf (some 3) (setsOf exampleOps) ["a", "b", "d"] = some 5 := by decide
example : levelOf (some 3) (setsOf exampleOps) ["a", "x"] = some 2 := by decide
example : levelOf (some 3) (setsOf (exampleOps.take 4)) ["a", "b", "d"] = none := by decide
example : ((run (some 3) exampleOps).objs.map Obj.node) = [["a", "b"], ["c"], ["a", "b", "d"]] := by decide
example : specText (some (fun s => "T<" ++ s ++ ">")) (some (defaultLevel 4)) ["a", "", "d"] "m" = "T<a: d: error: m\n>" := by decide


/-! ## Consequences on the level of single calls -/

theorem History.Valid.snoc {root : Level} {ops : List Op} (hv : History.Valid root ops) {op : Op} (ho : op.Valid) :
    History.Valid root (ops ++ [op]) := by
  refine ⟨hv.1, ?_⟩
  intro o hmem
  rcases List.mem_append.mp hmem with h | h
  · exact hv.2 o h
  · simp at h; subst h; exact ho

/-- **`set` overrides its whole subtree**: after `set L v`, whatever happened before (earlier sets on `L`, on deeper
locations, objects created in any order, the same `set` already made), every location below `L` — existing or not —
reports `v`. -/
theorem set_overrides_subtree (root : Level) (ops : List Op) (hv : History.Valid root ops) (L : Loc) (v : Level)
    (hl : Level.Valid v) (loc : Loc) (hp : L.isPrefixOf loc = true) :
    ctxGet (run root (ops ++ [.set L v])).tree loc = v := by
  rw [get_eq_latest_prefix root _ (hv.snoc (op := .set L v) hl), setsOf_append]
  show levelOf root (setsOf ops ++ [(L, v)]) loc = v
  rw [levelOf_snoc, if_pos hp]

/-- **`set` touches nothing else**: locations that `L` is not a prefix of keep their level. -/
theorem set_leaves_rest_alone (root : Level) (ops : List Op) (hv : History.Valid root ops) (L : Loc) (v : Level)
    (hl : Level.Valid v) (loc : Loc) (hp : L.isPrefixOf loc = false) :
    ctxGet (run root (ops ++ [.set L v])).tree loc = ctxGet (run root ops).tree loc := by
  rw [get_eq_latest_prefix root _ (hv.snoc (op := .set L v) hl), get_eq_latest_prefix root _ hv, setsOf_append]
  show levelOf root (setsOf ops ++ [(L, v)]) loc = _
  rw [levelOf_snoc, hp]; simp

/-- **creating a log object changes no level** — whichever constructor, whether or not nodes are created for it. -/
theorem creation_preserves_levels (root : Level) (ops : List Op) (hv : History.Valid root ops) (c : Op)
    (hc : ∀ L v, c ≠ .set L v) (loc : Loc) :
    ctxGet (run root (ops ++ [c])).tree loc = ctxGet (run root ops).tree loc := by
  have hcv : c.Valid := by cases c <;> simp [Op.Valid] <;> exact absurd rfl (hc _ _)
  have hs : setsOf [c] = [] := by cases c <;> simp [setsOf] <;> exact absurd rfl (hc _ _)
  rw [get_eq_latest_prefix root _ (hv.snoc hcv), get_eq_latest_prefix root _ hv, setsOf_append, hs, List.append_nil]

/-- `enabled` is upward closed in the message level -/
theorem enabled_monotone (cur : Level) (l l' : Nat) (h : enabledAt cur l = true) (hle : l ≤ l') : enabledAt cur l' = true := by
  cases cur with
  | none => simp [enabledAt] at h
  | some e => simp [enabledAt] at h ⊢; omega

/-- **`FCPPT_LOG_<LEVEL>`** writes exactly what `object::log` writes, and evaluates its message expression exactly when
something is written (once), never otherwise. -/
theorem macro_evaluates_iff_emitted (t : Tree) (streams : Nat → OptFn) (o : Obj) (l : Nat) (msg : String) :
    logMacro t streams o l msg = (objLog t streams o l msg).map (fun r => (r, if r.isSome then 1 else 0)) := by
  unfold logMacro objLog
  cases h : objEnabled t o l with
  | error f => rfl
  | ok b => cases b <;> rfl

/-! ## The rest of the public API -/

/-- `level_from_string` inverts `level_to_string` … -/
theorem levelFromString_levelName (l : Nat) (h : l < levelCount) : levelFromString (levelName l) = some l :=
  levelFromString_levelName' l h

/-- … and accepts nothing but the six names -/
theorem levelFromString_some (s : String) (l : Nat) (h : levelFromString s = some l) : l < levelCount ∧ levelName l = s :=
  levelFromString_some' s l h

/-- `level_to_string` is defined exactly on the enumerators -/
theorem levelToString_ok (l : Nat) : (∃ s, levelToString l = .ok s) ↔ l < levelCount := by
  unfold levelToString
  by_cases h : l < levelCount <;> simp [h]

/-- `operator>>`: on failure the variable keeps its value; on success it holds the level named by the first word -/
theorem levelInput_spec (old : Nat) (inp : List Char) :
    let r := levelInput old inp
    (r.2.1 = true → r.1 = old) ∧
    (r.2.1 = false → levelFromString (String.ofList ((inp.dropWhile isSpace).takeWhile (fun c => !isSpace c))) = some r.1) := by
  simp only [levelInput]
  split
  · simp
  · split <;> simp_all

/-- a location built by `location(name)`, `/=` and `/` is the list of its names in order -/
theorem location_build (n : String) (names : List String) : names.foldl locPush (locOfName n) = n :: names := by
  have : ∀ (l : Loc), names.foldl locPush l = l ++ names := by
    induction names with
    | nil => simp
    | cons x xs ih => intro l; simp [List.foldl_cons, ih, locPush]
  simpa [locOfName] using this [n]

/-- what `location::string` computes on the pinned tree: each further entry goes IN FRONT, followed by `::`
    (documented is `::root::child`; see notes/C19.md, DEFECT CANDIDATE) -/
theorem locString_push (l : Loc) (n : String) : locString (locPush l n) = n ++ "::" ++ locString l := by
  simp [locString, locPush, List.foldl_append]

theorem locString_nil : locString [] = "" := rfl

/-- `format::chain`: nothing is the unit, two functions compose parent ∘ child -/
theorem chain_spec (a b : OptFn) (s : String) :
    chain none b = b ∧ chain a none = a ∧ (chain a b).isSome = (a.isSome || b.isSome) ∧
    ((chain a b).getD id) s = (a.getD id) ((b.getD id) s) := by
  refine ⟨rfl, by cases a <;> rfl, chain_isSome a b, ?_⟩
  cases a <;> cases b <;> rfl

/-- chaining is associative (as a function applied to a text) -/
theorem chain_assoc (a b c : OptFn) (s : String) :
    ((chain (chain a b) c).getD id) s = ((chain a (chain b c)).getD id) s := by
  cases a <;> cases b <;> cases c <;> rfl

/-- `level_stream::log` / `object::level_sink(l).log`: additional formatter outside, the stream's own inside -/
theorem sinkLog_spec (streams : Nat → OptFn) (l : Nat) (add : OptFn) (msg : String) :
    sinkLog streams l add msg = (add.getD id) (((streams l).getD id) msg) := by
  unfold sinkLog streamLog
  cases add <;> cases streams l <;> rfl

/-- `level_stream::sink` redirects the text and keeps the formatter -/
theorem levelStream_sink (s : LevelStream) (d : Nat) (add : OptFn) (msg : String) :
    (s.sink d).log add msg = (d, (s.log add msg).2) ∧ (s.sink d).fmt = s.fmt := ⟨rfl, rfl⟩

/-- `format::default_level`, `time_stamp`, `prefix`, `inserter` as texts -/
theorem formatter_texts (l : Nat) (now p pre suf t : String) :
    defaultLevel l t = levelName l ++ ": " ++ t ++ "\n" ∧ timeStamp now t = now ++ ": " ++ t ∧
    prefixFn p t = p ++ ": " ++ t ∧ inserter pre suf t = pre ++ t ++ suf := ⟨rfl, rfl, rfl, rfl⟩

/-- `default_level_streams`: verbose … warning go to `clog`, error and fatal to `cerr`, each with `default_level` -/
theorem defaultLevelStreams_spec (l : Nat) (t : String) :
    ((defaultLevelStreams l).1 = true ↔ 4 ≤ l) ∧ ((defaultLevelStreams l).2.getD id) t = levelName l ++ ": " ++ t ++ "\n" := by
  simp [defaultLevelStreams, defaultStream, defaultLevel, inserter]

/-- `out << p₁ << … << pₙ` is the concatenation -/
theorem outParts_append (a b : List String) : outParts (a ++ b) = outParts a ++ outParts b := by
  unfold outParts
  rw [List.foldl_append]
  generalize a.foldl (· ++ ·) "" = x
  induction b generalizing x with
  | nil => simp
  | cons y ys ih => simp only [List.foldl_cons]; rw [ih (x ++ y), ih ("" ++ y)]; simp [String.append_assoc]

-- the seeded regression C19-1 (early return when the node already has the requested level): the third call must
-- still push the level down
example : ctxGet (run (some 3) ([.set ["p"] (some 1), .set ["p", "q"] (some 4)] ++ [.set ["p"] (some 1)])).tree ["p", "q"] = some 1 := by
  apply set_overrides_subtree
  · refine ⟨by intro v h; cases h; decide, ?_⟩
    intro op hop
    simp at hop
    rcases hop with rfl | rfl <;> simp [Op.Valid, Level.Valid, levelCount]
  · simp [Level.Valid, levelCount]
  · decide
example : levelFromString "warning" = some 3 ∧ levelFromString "Warning" = none ∧ levelFromString "" = none := by decide
example : locString ["root", "child"] = "child::root::" := by decide
example : levelInput 5 "  debug x".toList = (1, false, " x".toList) := by decide


/-! ## Concurrent part: every interleaving of the transcribed step system

`Reachable root s`: `s` is reachable from a fresh context by any interleaving of any number of threads
executing `set` / `get` / constructors / unlocked level loads in any order (`Conc.Step`).
These theorems are about the transcription in `FcpptModel/Model/C19/Conc.lean`; that the transcription's
lock/atomic annotations match the code is witnessed (sampled) by the ThreadSanitizer harness. -/
open Conc

/-- mutual exclusion: at most one thread is inside a `lock_guard` section -/
theorem one_thread_in_critical_section (root : Level) (hr : Level.Valid root) {s : Sys} (h : Reachable root s)
    (i j : Tid) (hi : (s.ph i).holds = true) (hj : (s.ph j).holds = true) : i = j := by
  have he := (DInv.of_reachable hr h).excl
  have h1 := (he i).mp hi
  have h2 := (he j).mp hj
  rw [h1] at h2
  simpa using h2

/-- **lock discipline**: every plain access to the tree structure and every level store is performed by the
thread that owns the mutex -/
theorem lock_discipline (root : Level) (hr : Level.Valid root) {s s' : Sys} {i : Tid} {acc : List Access}
    (h : Reachable root s) (st : Step s i acc s') (a : Access) (ha : a ∈ acc)
    (hg : (∃ w, a = .treePlain w) ∨ (∃ p x, a = .atomicStore p x)) : s.holder = some i := by
  have he := (DInv.of_reachable hr h).excl
  have own : (s.ph i).holds = true → s.holder = some i := (he i).mp
  cases st with
  | call c hi hv => simp at ha
  | acquire c hi hfree => rcases hg with ⟨w, rfl⟩ | ⟨p, x, rfl⟩ <;> simp at ha
  | setFind l v hi => exact own (by rw [hi]; rfl)
  | setStore l v q todo hi => exact own (by rw [hi]; rfl)
  | setDone l v hi => exact own (by rw [hi]; rfl)
  | getRead l hi => exact own (by rw [hi]; rfl)
  | createFind l hi => exact own (by rw [hi]; rfl)
  | unlock after hi hna => exact own (by rw [hi]; rfl)
  | format l hi => rcases hg with ⟨w, rfl⟩ | ⟨p, x, rfl⟩ <;> simp at ha
  | load p val hi ho hl => rcases hg with ⟨w, rfl⟩ | ⟨p, x, rfl⟩ <;> simp at ha

/-- no data race on the tree structure: in no reachable state do two different threads both have a plain
structure access (or level store) enabled -/
theorem no_conflicting_unsynchronised_accesses (root : Level) (hr : Level.Valid root) {s s₁ s₂ : Sys} {i j : Tid}
    {a b : List Access} (h : Reachable root s) (st₁ : Step s i a s₁) (st₂ : Step s j b s₂)
    (x y : Access) (hx : x ∈ a) (hy : y ∈ b)
    (gx : (∃ w, x = .treePlain w) ∨ (∃ p v, x = .atomicStore p v))
    (gy : (∃ w, y = .treePlain w) ∨ (∃ p v, y = .atomicStore p v)) : i = j := by
  have h1 := lock_discipline root hr h st₁ x hx gx
  have h2 := lock_discipline root hr h st₂ y hy gy
  rw [h1] at h2
  simpa using h2

/-- the unlocked plain reads of `tree_formatter` (`name_`, `parent_`) only touch nodes that already exist,
i.e. whose write-once fields were initialised in an earlier critical section -/
theorem frozen_read_of_existing_node (root : Level) (hr : Level.Valid root) {s s' : Sys} {i : Tid} {acc : List Access}
    (h : Reachable root s) (st : Step s i acc s') (p : Loc) (ha : Access.frozenRead p ∈ acc) :
    (lvlAt s.tree p).isSome = true := by
  have hd := DInv.of_reachable hr h
  cases st with
  | format l hi =>
    simp only [List.mem_map] at ha
    obtain ⟨q, hq, he⟩ := ha
    injection he with he; subst he
    unfold prefixes at hq
    obtain ⟨k, _, rfl⟩ := List.mem_map.mp hq
    exact isSome_lvlAt_take s.tree l k (hd.fmtp i l (Or.inl hi))
  | call c hi hv => simp at ha
  | acquire c hi hfree => simp at ha
  | setFind l v hi => simp at ha
  | setStore l v q todo hi => simp at ha
  | setDone l v hi => simp at ha
  | getRead l hi => simp at ha
  | createFind l hi => simp at ha
  | unlock after hi hna => simp at ha
  | load p' val hi ho hl => simp at ha

/-- **`context::get` is linearisable**: the value it returns is `levelOf` of the `set` calls whose critical
sections precede its own -/
theorem get_linearised (root : Level) (hr : Level.Valid root) {s : Sys} (h : Reachable root s) (i : Tid) (l : Loc)
    (hi : s.ph i = .getRead l) : ctxGet s.tree l = levelOf root s.done l := by
  have hd := DInv.of_reachable hr h
  have hinv := hd.quiet (hd.noStore_of_holder (i := i) (by rw [hi]; rfl) (by simp [hi]))
  unfold ctxGet
  rw [hinv.getInt l]
  exact fromInt_convertLevel (levelOf_valid hr hd.doneValid l)


/-- **every observed level is justified**: a value returned by any atomic level load — the locked one of `get`
or the unlocked one of `object::level/enabled/log` — is the specified level of the loaded node under a
linearisation of the overlapping calls: all `set`s whose critical sections are complete, optionally followed
by the one `set` that is in its store loop at that moment. -/
theorem observed_level_justified (root : Level) (hr : Level.Valid root) {s s' : Sys} {i : Tid} {acc : List Access}
    (h : Reachable root s) (st : Step s i acc s') (p : Loc) (x : Nat) (ha : Access.atomicLoad p x ∈ acc) :
    x = convertLevel (levelOf root s.done p) ∨
    ∃ j l v todo, s.ph j = .setStore l v todo ∧ x = convertLevel (levelOf root (s.done ++ [(l, v)]) p) := by
  have hd := DInv.of_reachable hr h
  have main : ∀ (p : Loc) (x : Nat), lvlAt s.tree p = some x →
      (x = convertLevel (levelOf root s.done p) ∨
       ∃ j l v todo, s.ph j = .setStore l v todo ∧ x = convertLevel (levelOf root (s.done ++ [(l, v)]) p)) := by
    intro p x hl
    by_cases hn : NoStore s
    · exact Or.inl ((hd.quiet hn).level p x hl)
    · have hex : ∃ j l v todo, s.ph j = .setStore l v todo := by
        apply Classical.byContradiction
        intro hne
        exact hn (fun j l v todo hj => hne ⟨j, l, v, todo, hj⟩)
      obtain ⟨j, l, v, todo, hj⟩ := hex
      rcases (hd.mid j l v todo hj).level p x hl with h1 | ⟨h1, h2⟩
      · exact Or.inl h1
      · exact Or.inr ⟨j, l, v, todo, hj, by rw [levelOf_append]; simp [h1, h2]⟩
  cases st with
  | getRead l hi =>
    simp only [List.mem_cons, List.not_mem_nil, or_false] at ha
    rcases ha with ha | ha
    · simp at ha
    · injection ha with h1 h2; subst h1 h2
      exact main _ _ (lvlAt_deepest s.tree l)
  | load p' val hi ho hl =>
    simp only [List.mem_singleton] at ha
    injection ha with h1 h2; subst h1 h2
    exact main _ _ hl
  | call c hi hv => simp at ha
  | acquire c hi hfree => simp at ha
  | setFind l v hi => simp at ha
  | setStore l v q todo hi => simp at ha
  | setDone l v hi => simp at ha
  | createFind l hi => simp at ha
  | unlock after hi hna => simp at ha
  | format l hi => simp at ha

/-- **operations that do not overlap a `set` see exactly the sequential result**: an atomic level load made while no
thread is inside the store loop of a `set` (in particular every load of a schedule that runs the calls one after the
other) returns precisely the specified level for the completed `set`s. -/
theorem observed_level_exact_when_no_set_in_progress (root : Level) (hr : Level.Valid root) {s s' : Sys} {i : Tid}
    {acc : List Access} (h : Reachable root s) (st : Step s i acc s') (p : Loc) (x : Nat)
    (ha : Access.atomicLoad p x ∈ acc) (hq : ∀ j l v todo, s.ph j ≠ .setStore l v todo) :
    x = convertLevel (levelOf root s.done p) := by
  rcases observed_level_justified root hr h st p x ha with h1 | ⟨j, l, v, todo, hj, _⟩
  · exact h1
  · exact absurd hj (hq j l v todo)

/-- **a node created by a constructor starts with the specified level** of its location (it inherits, under the lock,
from a parent that holds the specified level): right after `find_location` / `find_child` the object's node exists
and holds `levelOf` of the completed `set`s. -/
theorem created_node_has_linearised_level (root : Level) (hr : Level.Valid root) {s s' : Sys} {i : Tid} {acc : List Access}
    (h : Reachable root s) (st : Step s i acc s') (l : Loc) (hi : s.ph i = .createFind l) :
    lvlAt s'.tree l = some (convertLevel (levelOf root s'.done l)) := by
  have hd' := DInv.of_reachable hr (Reachable.step h st)
  cases st with
  | createFind l' hi' =>
    rw [hi] at hi'
    injection hi' with hl
    subst hl
    have hn : NoStore { s with tree := ensure s.tree l, ph := upd s.ph i (.unlock (.format l)) } :=
      hd'.noStore_of_holder (i := i) (by simp [upd, Phase.holds]) (by simp [upd])
    have hinv := hd'.quiet hn
    have hex : (lvlAt (ensure s.tree l) l).isSome = true := hd'.fmtp i l (Or.inr (by simp [upd]))
    cases hx : lvlAt (ensure s.tree l) l with
    | none => simp [hx] at hex
    | some x => simp only; rw [hinv.level l x hx]
  | call c hi' hv => rw [hi] at hi'; cases hi'
  | acquire c hi' hfree => rw [hi] at hi'; cases hi'
  | setFind l' v hi' => rw [hi] at hi'; cases hi'
  | setStore l' v q todo hi' => rw [hi] at hi'; cases hi'
  | setDone l' v hi' => rw [hi] at hi'; cases hi'
  | getRead l' hi' => rw [hi] at hi'; cases hi'
  | unlock after hi' hna => rw [hi] at hi'; cases hi'
  | format l' hi' => rw [hi] at hi'; cases hi'
  | load p' val hi' ho hl => rw [hi] at hi'; cases hi'

/-- **a location without a node** ("no such location"): `context::get` creates nothing and answers with the level
stored in the deepest node that exists on the way — which, by `get_eq_latest_prefix`, is the specified level. -/
theorem get_reads_deepest_existing_node (t : Tree) (loc : Loc) :
    (deepest t loc).isPrefixOf loc = true ∧ lvlAt t (deepest t loc) = some (getInt t loc) ∧
    ((lvlAt t loc).isSome = true → deepest t loc = loc) := by
  refine ⟨deepest_isPrefix t loc, lvlAt_deepest t loc, ?_⟩
  induction loc generalizing t with
  | nil => intro _; rfl
  | cons x xs ih =>
    intro h
    unfold deepest
    rw [lvlAt_cons] at h
    cases hc : findChild t.kids x with
    | none => simp [hc] at h
    | some c =>
      simp only [hc] at h ⊢
      rw [ih c (by simpa using h)]

/-- in a state where no `set` is in its store loop (in particular whenever the mutex is free), the tree is
exactly what the sequential specification says for the linearised history -/
theorem quiescent_tree_matches_linearisation (root : Level) (hr : Level.Valid root) {s : Sys} (h : Reachable root s)
    (hq : s.holder = none) (loc : Loc) : ctxGet s.tree loc = levelOf root s.done loc := by
  have hd := DInv.of_reachable hr h
  have hn : NoStore s := by
    intro j l v todo hj
    have := (hd.excl j).mp (by rw [hj]; rfl)
    rw [hq] at this; simp at this
  unfold ctxGet
  rw [(hd.quiet hn).getInt loc]
  exact fromInt_convertLevel (levelOf_valid hr hd.doneValid loc)

/-! non-vacuity of the concurrent model: a thread can really be inside the store loop while another one owns
an object (so the second disjunct of `observed_level_justified` is inhabited) -/
example : ∃ s, Reachable (some 3) s ∧ s.holder = some 0 ∧ (s.ph 0).holds = true := by
  let s0 := Sys.init (some 3)
  have r0 : Reachable (some 3) s0 := .init
  have r1 := Reachable.step r0 (Step.call s0 0 (.set ["a"] (some 1)) rfl (by intro l v h; injection h with _ h; subst h; intro x hx; cases hx; decide))
  have r2 := Reachable.step r1 (Step.acquire _ 0 (.set ["a"] (some 1)) (by simp [upd]) rfl)
  exact ⟨_, r2, rfl, by simp [upd, Call.locked, Phase.holds]⟩

end Fcppt.C19
