import FcpptModel.Spec.C19
import FcpptProofs.C19.Hist
/-!
# C19 — property theorems (sequential part)

For every root level, every history `ops` of `context::set` calls and log-object creations (all
three constructors), every location and every log object created by the history:
`context::get`, `object::level`, `object::enabled` and the text `object::log` writes are those the
specification `levelOf` / `specText` prescribes.  Lemmas live in `FcpptProofs/C19/`.
The concurrent part is in `FcpptProofs/Props/C19Conc.lean`.
-/
namespace Fcppt.C19

/-- the hypotheses: levels are enumerators of `fcppt::log::level` (0 … 5) or empty -/
def History.Valid (root : Level) (ops : List Op) : Prop := Level.Valid root ∧ ∀ op ∈ ops, op.Valid

/-- **`context::get` = latest set on a prefix wins**, else the root level — for every history and location,
whether or not a node exists at that location. -/
theorem get_eq_latest_prefix (root : Level) (ops : List Op) (hv : History.Valid root ops) (loc : Loc) :
    ctxGet (run root ops).tree loc = levelOf root (setsOf ops) loc := by
  have h := SInv.run_ok hv.1 ops hv.2
  unfold ctxGet
  rw [h.inv.getInt loc]
  exact fromInt_convertLevel (levelOf_valid hv.1 (setsOf_valid hv.2) loc)

/-- **`object::level`** of every log object the history created: the reference it holds is valid (no fault)
and the level read through it is `levelOf` of the object's location. -/
theorem object_level_eq_latest_prefix (root : Level) (ops : List Op) (hv : History.Valid root ops)
    (o : Obj) (ho : o ∈ (run root ops).objs) :
    objLevel (run root ops).tree o = .ok (levelOf root (setsOf ops) o.node) := by
  have h := SInv.run_ok hv.1 ops hv.2
  have hex := h.objs o ho
  unfold objLevel nodeLvl
  cases hl : lvlAt (run root ops).tree o.node with
  | none => simp [hl] at hex
  | some l =>
    rw [h.inv.level _ _ hl]
    simp only [Except.map]
    rw [fromInt_convertLevel (levelOf_valid hv.1 (setsOf_valid hv.2) o.node)]

/-- **`object::enabled(l)`** holds exactly when the location's level is set and `l` is at least that level. -/
theorem enabled_iff (root : Level) (ops : List Op) (hv : History.Valid root ops)
    (o : Obj) (ho : o ∈ (run root ops).objs) (l : Nat) :
    ∃ b, objEnabled (run root ops).tree o l = .ok b ∧
      (b = true ↔ ∃ e, levelOf root (setsOf ops) o.node = some e ∧ e ≤ l) := by
  unfold objEnabled
  rw [object_level_eq_latest_prefix root ops hv o ho]
  refine ⟨_, rfl, ?_⟩
  unfold enabledAt
  cases levelOf root (setsOf ops) o.node with
  | none => simp
  | some e => simp

/-- **a message is emitted exactly when its level is enabled**, and **its text** is the object's formatter
applied to the location prefixes (root first, `name: ` each, empty names skipped) applied to the level
stream's formatter applied to the message.  `i` is the object's index, `f` the formatter it was created with. -/
theorem emits_iff (root : Level) (ops : List Op) (hv : History.Valid root ops) (streams : Nat → OptFn)
    (i : Nat) (o : Obj) (f : OptFn) (ho : (run root ops).objs[i]? = some o) (hf : (run root ops).fmts[i]? = some f)
    (l : Nat) (msg : String) :
    objLog (run root ops).tree streams o l msg =
      .ok (if (∃ e, levelOf root (setsOf ops) o.node = some e ∧ e ≤ l)
           then some (specText f (streams l) o.node msg) else none) := by
  have h := SInv.run_ok hv.1 ops hv.2
  have hmem : o ∈ (run root ops).objs := List.mem_of_getElem? ho
  unfold objLog objEnabled
  rw [object_level_eq_latest_prefix root ops hv o hmem, h.fmt i o f ho hf, streamLog_eq]
  simp only [Except.map]
  congr 1
  unfold enabledAt
  cases levelOf root (setsOf ops) o.node with
  | none => simp
  | some e => simp

/-- **prefix order**: the text of `specText` spelled out — object formatter outermost, then the location's
names root first, the level stream's formatter innermost. -/
theorem prefix_order (f own : OptFn) (p : Loc) (msg : String) :
    streamLog own (chain f (treeFormatter (toRootNames p))) msg
      = (f.getD id) (prefixText p ((own.getD id) msg)) :=
  streamLog_eq own f p msg

/-- locations of created objects, as documented: name / location + name / parent's location + name -/
theorem object_location_root (s : State) (name : String) (f : OptFn) :
    ((step s (.objRoot name f)).objs.map Obj.node) = s.objs.map Obj.node ++ [[name]] := by
  simp [step, State.add, objRoot, objAtNode]

theorem object_location_at (s : State) (loc : Loc) (name : String) (f : OptFn) :
    ((step s (.objAt loc name f)).objs.map Obj.node) = s.objs.map Obj.node ++ [loc ++ [name]] := by
  simp [step, State.add, objAt, objAtNode]

theorem object_location_child (s : State) (i : Nat) (p : Obj) (hp : s.objs[i]? = some p) (name : String) (f : OptFn) :
    ((step s (.objChild i name f)).objs.map Obj.node) = s.objs.map Obj.node ++ [p.node ++ [name]] := by
  simp [step, hp, State.add, objChild, objAtNode]

/-- the spec itself: appending a `set` -/
theorem levelOf_snoc (root : Level) (sets : List (Loc × Level)) (L : Loc) (v : Level) (loc : Loc) :
    levelOf root (sets ++ [(L, v)]) loc = if L.isPrefixOf loc then v else levelOf root sets loc :=
  levelOf_append root sets L v loc

/-- the spec is "the last set whose location is a prefix, else the root level" -/
theorem levelOf_spec (root : Level) (sets : List (Loc × Level)) (loc : Loc) :
    (∃ pre L v post, sets = pre ++ (L, v) :: post ∧ L.isPrefixOf loc = true ∧
        (∀ s ∈ post, s.1.isPrefixOf loc = false) ∧ levelOf root sets loc = v)
    ∨ ((∀ s ∈ sets, s.1.isPrefixOf loc = false) ∧ levelOf root sets loc = root) := by
  induction sets generalizing root with
  | nil => right; simp [levelOf]
  | cons s ss ih =>
    obtain ⟨L, v⟩ := s
    rw [levelOf_cons]
    rcases ih (if L.isPrefixOf loc then v else root) with ⟨pre, L', v', post, he, hp, hpost, hl⟩ | ⟨hno, hl⟩
    · left; exact ⟨(L, v) :: pre, L', v', post, by simp [he], hp, hpost, hl⟩
    · by_cases h : L.isPrefixOf loc = true
      · left; exact ⟨[], L, v, ss, by simp, h, hno, by simpa [h] using hl⟩
      · right
        refine ⟨?_, by simpa [h] using hl⟩
        intro s hs
        rcases List.mem_cons.mp hs with h1 | h1
        · subst h1; exact Bool.eq_false_iff.mpr h
        · exact hno s h1

/-! ## Non-vacuity -/

-- a history with sets on nested locations, objects through all three constructors, a disabled level
def exampleOps : List Op :=
  [.set ["a", "b"] (some 1), .objAt ["a"] "b" none, .objRoot "c" none, .set ["a"] none,
   .objChild 0 "d" (some (fun s => "T<" ++ s ++ ">")), .set ["a", "b", "d"] (some 4), .set [] (some 2), .set ["a", "b"] (some 5)]

example : History.Valid (some 3) exampleOps := by
  refine ⟨by intro v h; cases h; decide, ?_⟩
  intro op hop
  simp [exampleOps] at hop
  rcases hop with rfl | rfl | rfl | rfl | rfl | rfl | rfl | rfl <;> simp [Op.Valid, Level.Valid, levelCount]

example : levelOf (some 3) (setsOf exampleOps) ["a", "b", "d"] = some 5 := by decide
example : levelOf (some 3) (setsOf exampleOps) ["a", "x"] = some 2 := by decide
example : levelOf (some 3) (setsOf (exampleOps.take 4)) ["a", "b", "d"] = none := by decide
example : ((run (some 3) exampleOps).objs.map Obj.node) = [["a", "b"], ["c"], ["a", "b", "d"]] := by decide
example : specText (some (fun s => "T<" ++ s ++ ">")) (some (defaultLevel 4)) ["a", "", "d"] "m" = "T<a: d: error: m\n>" := by decide

end Fcppt.C19
