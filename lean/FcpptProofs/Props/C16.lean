import FcpptModel.Spec.C16
import FcpptProofs.C16.Loops
import FcpptProofs.C16.Find
import FcpptProofs.C16.Strings
import FcpptProofs.C16.Assoc
import FcpptProofs.C16.BSearch
import FcpptProofs.C16.BSearchAny
import FcpptProofs.C16.Assoc2
import FcpptProofs.C16.Extra
import FcpptProofs.C16.Callbacks
/-!
# C16 — property theorems

For every helper: the loop-level model (`FcpptModel/Model/C16.lean`, mirrors the C++) equals the one-line `List`
specification, for **all** lists / tables / states; the visit log is the documented prefix; `join_strings` inverts
`split_string`; `binary_search` on sorted input finds the unique equivalent element.
Only theorems live here; lemmas are in `FcpptProofs/C16/`.
-/
namespace Fcppt.C16
variable {α β σ : Type}

/-! ## loops: visit in order, stop where documented -/

/-- `loop_break` with an instrumented body computes the same state, and the elements it looked at are a prefix
    of the range, in order — for every (state-dependent) body. -/
theorem visits_in_order (xs : List α) (body : α → σ → Loop × σ) (s : σ) :
    ∃ k, k ≤ xs.length ∧ loopBreak xs (logged body) (s, []) = (loopBreak xs body s, xs.take k) := by
  simpa using loopBreak_logged xs body s []

/-- If the body stops exactly on the elements satisfying `brk`, the loop looks at everything up to and including the
    first such element and at nothing else. -/
theorem stops_at_break (brk : α → Bool) (xs : List α) (body : α → σ → Loop × σ)
    (hb : ∀ x s, (body x s).1 = if brk x then .break_ else .continue_) (s : σ) :
    (loopBreak xs (logged body) (s, [])).2 = xs.take (xs.findIdx brk + 1) := by
  simpa [Spec.visited] using loopBreak_logged_visited brk xs body hb s []

/-- the index recursion used for tuples and mpl lists is the same loop -/
theorem tupleLoopBreak_eq_loopBreak (xs : List α) (body : α → σ → Loop × σ) (s : σ) :
    tupleLoopBreak xs body 0 s = loopBreak xs body s := by
  simpa using tupleLoopBreak_drop xs body 0 s

/-- `loop` visits every element once, in order: it is the left fold -/
theorem loop_spec (xs : List α) (body : α → σ → σ) (s : σ) : loop xs body s = xs.foldl (fun s x => body x s) s :=
  loop_eq_foldl xs body s

/-! ## map, map_optional, map_concat, fold, fold_break -/

/-- `map` into a sequence container = `List.map`, `f` is called on every element once, in order -/
theorem map_spec (hint : Option Nat) (xs : List α) (f : α → β) :
    (mapSeq hint xs f).1.elems = xs.map f ∧ (mapSeq hint xs f).2 = xs := mapSeq_eq hint xs f

/-- the `reserve` optimisation does not change the result -/
theorem map_reserve_irrelevant (h₁ h₂ : Option Nat) (xs : List α) (f : α → β) :
    (mapSeq h₁ xs f).1.elems = (mapSeq h₂ xs f).1.elems := by
  rw [(mapSeq_eq h₁ xs f).1, (mapSeq_eq h₂ xs f).1]

/-- `map` into a `std::set`: strictly sorted, and exactly the images as members -/
theorem map_set_spec (xs : List α) (f : α → Nat) :
    Spec.StrictSorted (mapSet xs f).1.elems ∧ (∀ y, y ∈ (mapSet xs f).1.elems ↔ y ∈ xs.map f) ∧ (mapSet xs f).2 = xs := by
  rw [(mapSet_eq xs f).1]
  exact ⟨(setOfList_spec _).1, (setOfList_spec _).2, (mapSet_eq xs f).2⟩

theorem map_optional_spec (xs : List α) (f : α → Option β) : mapOptional xs f = (xs.filterMap f, xs) :=
  mapOptional_eq xs f

theorem map_concat_spec (xs : List α) (f : α → List β) : mapConcat xs f = (xs.flatMap f, xs) :=
  mapConcat_eq xs f

theorem fold_spec (xs : List α) (s : σ) (f : α → σ → σ) : fold xs s f = xs.foldl (fun st e => f e st) s :=
  fold_eq_foldl xs s f

/-- `fold_break` returns `s_x` for the largest `x` such that `l_j = continue_` for all `j < x` (documentation of fold_break.hpp) -/
theorem fold_break_spec (f : α → σ → Loop × σ) (xs : List α) (s : σ) : foldBreak xs s f = Spec.foldBreak f xs s :=
  foldBreak_eq f xs s

/-! ## all_of, contains(_if), find_opt, find_if_opt, find_by_opt, index_of -/

/-- `all_of` = `List.all`; the predicate is evaluated up to and including the first failing element -/
theorem all_of_spec (xs : List α) (p : α → Bool) :
    allOf xs p = (xs.all p, xs.take (xs.findIdx (fun x => !p x) + 1)) := allOf_eq xs p

/-- `contains_if` = `List.any`; the predicate is evaluated up to and including the first hit -/
theorem contains_if_spec (xs : List α) (p : α → Bool) :
    containsIf xs p = (xs.any p, xs.take (xs.findIdx p + 1)) := containsIf_eq xs p

theorem contains_spec [BEq α] (xs : List α) (v : α) : contains xs v = xs.any (· == v) := contains_eq xs v

theorem contains_mem [BEq α] [LawfulBEq α] (xs : List α) (v : α) : contains xs v = true ↔ v ∈ xs :=
  contains_iff_mem xs v

/-- `find_opt`: position of the first occurrence, or nothing -/
theorem find_opt_spec [BEq α] (xs : List α) (v : α) : findOpt xs v = xs.idxOf? v := findOpt_eq xs v

/-- the iterator returned by `find_opt` can be dereferenced and points at an element equal to `v` -/
theorem find_opt_valid [BEq α] [LawfulBEq α] (xs : List α) (v : α) (i : Nat) (h : findOpt xs v = some i) :
    xs[i]? = some v := by
  rw [findOpt_eq, List.idxOf?, List.findIdx?_eq_some_iff_getElem] at h
  obtain ⟨hi, hv, _⟩ := h
  simp [List.getElem?_eq_getElem hi, eq_of_beq hv]

theorem find_if_opt_spec (xs : List α) (p : α → Bool) : findIfOpt xs p = xs.findIdx? p := findIfOpt_eq xs p

theorem index_of_spec [BEq α] (xs : List α) (v : α) : indexOf xs v = xs.idxOf? v := indexOf_eq xs v

/-- `find_by_opt` = `findSome?`; `f` is called up to and including the first element with a non-empty result -/
theorem find_by_opt_spec (xs : List α) (f : α → Option β) :
    findByOpt xs f = (xs.findSome? f, xs.take (xs.findIdx (fun x => (f x).isSome) + 1)) := findByOpt_eq xs f

/-! ## equal_range, binary_search -/

/-- on a sorted range `equal_range` is `[#{x < v}, #{¬ v < x})`, without any out-of-bounds access and within the loop budget -/
theorem equal_range_sorted (lt : α → α → Bool) (hlt : StrictWeak lt) (xs : List α) (v : α) (hs : Spec.SortedBy lt xs) :
    equalRange lt xs v = .ok (Spec.equalRange lt xs v) := equalRange_eq lt hlt xs v hs

/-- `binary_search` on a sorted range: the position of the element equivalent to `v` if there is exactly one, else nothing -/
theorem binary_search_sorted (lt : α → α → Bool) (hlt : StrictWeak lt) (xs : List α) (v : α) (hs : Spec.SortedBy lt xs) :
    binarySearch lt xs v = .ok (Spec.binarySearch lt xs v) := binarySearch_eq lt hlt xs v hs

/-! ## remove(_if), unique(_if), reverse, repeat, generate_n -/

/-- `remove_if` leaves the elements not satisfying `p`, in order, and reports whether something was removed —
    whatever `std::remove_if` leaves behind its returned position (`junk`) -/
theorem remove_if_spec (xs junk : List α) (p : α → Bool) :
    removeIf xs junk p = (xs.any p, xs.filter (fun x => !p x)) := removeIf_eq xs junk p

theorem remove_spec [BEq α] (xs junk : List α) (e : α) :
    remove xs junk e = (xs.any (fun r => e == r), xs.filter (fun r => !(e == r))) := remove_eq xs junk e

/-- `unique_if` keeps the first element of every run (each element is compared with the last kept one) -/
theorem unique_if_spec (xs junk : List α) (pred : α → α → Bool) : uniqueIf xs junk pred = xs.eraseRepsBy pred :=
  uniqueIf_eq xs junk pred

theorem unique_spec [BEq α] (xs junk : List α) : unique xs junk = xs.eraseReps := unique_eq xs junk

theorem reverse_spec (xs : List α) : reverse xs = .ok xs.reverse := reverse_eq xs

/-- `repeat(count, f)` calls `f` exactly `max(count, 0)` times -/
theorem repeat_spec (count : Int) (f : σ → σ) (s : σ) : repeatLoop count f 0 s = Nat.repeat f count.toNat s := by
  simpa using repeatLoop_eq count f 0 s

/-- `generate_n` collects the first `count` outputs of the generator, in call order -/
theorem generate_n_spec (count : Nat) (gen : σ → β × σ) (g : σ) :
    (generateN count gen g).1.elems = Spec.genOutputs gen count g ∧ (generateN count gen g).2 = Spec.genState gen count g :=
  generateN_eq count gen g

/-! ## split_string, join_strings -/

theorem split_string_spec [BEq α] (s : List α) (delim : α) : splitString s delim = s.splitOn delim := by
  have h := splitLoop_eq s delim 0 0 [] (Nat.le_refl _) (Nat.zero_le _)
  obtain ⟨p, ps, hp⟩ := List.exists_cons_of_ne_nil (List.splitOn_ne_nil delim s)
  rw [splitString, h]
  simp [substr, hp]

theorem join_strings_spec (range : List (List α)) (delim : List α) : joinStrings range delim = delim.intercalate range := by
  simpa [joinStrings] using joinLoop_eq range delim 0 []

/-- `split_string` is inverted by `join_strings` -/
theorem join_split [BEq α] [LawfulBEq α] (s : List α) (delim : α) :
    joinStrings (splitString s delim) [delim] = s := by
  rw [split_string_spec, join_strings_spec, List.intercalate_splitOn]

/-- and conversely, for a non-empty list of pieces that do not contain the delimiter -/
theorem split_join [BEq α] [LawfulBEq α] (pieces : List (List α)) (delim : α)
    (hd : ∀ l ∈ pieces, delim ∉ l) (hne : pieces ≠ []) :
    splitString (joinStrings pieces [delim]) delim = pieces := by
  rw [split_string_spec, join_strings_spec, List.splitOn_intercalate delim hd hne]

/-! ## erase while iterating -/

/-- `sequence_iteration` visits every element exactly once, in order, and leaves exactly the kept ones -/
theorem sequence_iteration_spec (xs : List α) (rm : α → Bool) :
    seqIteration xs (fun e (log : List α) => (rm e, log ++ [e])) [] = (xs.filter (fun x => !rm x), xs) := by
  simpa [seqIteration] using iterate_eq rm [] xs []

/-- `map_iteration` (erase through the saved `next` iterator) likewise -/
theorem map_iteration_spec (m : Map) (rm : Nat × Nat → Bool) :
    mapIteration m (fun e (log : List (Nat × Nat)) => (rm e, log ++ [e])) [] = (m.filter (fun x => !rm x), m) := by
  simpa [mapIteration] using iterate_eq rm [] m []

/-- the same for an arbitrary state-dependent action (it may count, remember what it has seen, …): every element is offered
    exactly once, in order, with the state left by the previous call; exactly the elements answered with `remove` are gone -/
theorem sequence_iteration_general (xs : List α) (action : α → σ → Bool × σ) (s : σ) :
    seqIteration xs action s = (Spec.kept xs (Spec.decisions action xs s).1, (Spec.decisions action xs s).2) := by
  simpa [seqIteration] using iterate_general action [] xs s

theorem map_iteration_general (m : Map) (action : Nat × Nat → σ → Bool × σ) (s : σ) :
    mapIteration m action s = (Spec.kept m (Spec.decisions action m s).1, (Spec.decisions action m s).2) := by
  simpa [mapIteration] using iterate_general action [] m s

/-! ## container helpers -/

theorem join_spec (first : List β) (args : List (List β)) : join first args = first ++ args.flatten := join_eq first args

/-- `join` on sets: strictly sorted, members = union of the members -/
theorem join_set_spec (first : List Nat) (args : List (List Nat)) (hs : Spec.StrictSorted first) :
    Spec.StrictSorted (joinSet first args) ∧ ∀ y, y ∈ joinSet first args ↔ y ∈ first ∨ ∃ a ∈ args, y ∈ a := by
  unfold joinSet
  induction args generalizing first with
  | nil => simp [hs]
  | cons a as ih =>
    simp only [List.foldl_cons]
    obtain ⟨h1, h2⟩ := setOfList_foldl a first hs
    obtain ⟨h3, h4⟩ := ih _ h1
    refine ⟨h3, fun y => ?_⟩
    rw [h4, h2]
    simp only [List.mem_cons, exists_eq_or_imp]
    grind

theorem at_optional_spec (xs : List α) (i : Nat) : atOptional xs i = xs[i]?.map Except.ok := atOptional_eq xs i

theorem find_opt_mapped_spec (m : Map) (k : Nat) : findOptMapped m k = m.lookup k := findOptMapped_eq m k

/-- `get_or_insert_with_result`: found → the mapped value, `inserted = false`, nothing changes, `create` not called;
    not found → `create(key)` is called once, its value is inserted and returned, `inserted = true` -/
theorem get_or_insert_spec (m : Map) (k : Nat) (create : Nat → σ → Nat × σ) (s : σ) (hs : Spec.StrictSorted (m.map (·.1))) :
    getOrInsert m k create s =
      match m.lookup k with
      | some e => (.ok (e, false), m, s)
      | none => (.ok ((create k s).1, true), mapEmplace k (create k s).1 m, (create k s).2) :=
  getOrInsert_eq m k create s hs

/-- the map after an insertion: only the new key changed, and the keys stay strictly sorted -/
theorem map_emplace_spec (k v k' : Nat) (m : Map) (hs : Spec.StrictSorted (m.map (·.1))) :
    (mapEmplace k v m).lookup k' = (if k' = k then (match m.lookup k with | some e => some e | none => some v) else m.lookup k')
    ∧ Spec.StrictSorted ((mapEmplace k v m).map (·.1)) := by
  refine ⟨lookup_mapEmplace k v k' m hs, ?_⟩
  have := keys_mapEmplace k v m
  unfold keys at this
  rw [this]
  exact strictSorted_setInsert k _ hs

theorem key_set_spec (m : Map) (hs : Spec.StrictSorted (m.map (·.1))) : keySet m = m.map (·.1) := keySet_eq m hs

theorem map_values_spec (m : Map) : mapValues m = m.map (·.2) := mapValues_eq m

theorem set_union_spec (a b : List Nat) :
    Spec.StrictSorted (setUnion a b) ∧ ∀ z, z ∈ setUnion a b ↔ z ∈ a ∨ z ∈ b := by
  refine ⟨(setOfList_spec _).1, fun z => ?_⟩
  rw [setUnion, (setOfList_spec _).2, mem_stdSetUnion]

theorem set_intersection_spec (a b : List Nat) (ha : Spec.StrictSorted a) (hb : Spec.StrictSorted b) :
    Spec.StrictSorted (setIntersection a b) ∧ ∀ z, z ∈ setIntersection a b ↔ z ∈ a ∧ z ∈ b := by
  refine ⟨(setOfList_spec _).1, fun z => ?_⟩
  rw [setIntersection, (setOfList_spec _).2, mem_stdSetIntersection a b ha hb]

theorem set_difference_spec (a b : List Nat) (ha : Spec.StrictSorted a) (hb : Spec.StrictSorted b) :
    Spec.StrictSorted (setDifference a b) ∧ ∀ z, z ∈ setDifference a b ↔ z ∈ a ∧ z ∉ b := by
  refine ⟨(setOfList_spec _).1, fun z => ?_⟩
  rw [setDifference, (setOfList_spec _).2, mem_stdSetDifference a b ha hb]

/-- `index_map::get`: the vector grows to `index + 1` by appending successive results of `insert()`, existing
    elements are untouched, the returned element exists and is the one at `index` -/
theorem index_map_get_spec (impl : List α) (index : Nat) (insert : σ → α × σ) (s : σ) :
    ∃ x, indexMapGet impl index insert s =
        .ok (x, impl ++ Spec.genOutputs insert (index + 1 - impl.length) s, Spec.genState insert (index + 1 - impl.length) s)
      ∧ (impl ++ Spec.genOutputs insert (index + 1 - impl.length) s)[index]? = some x :=
  indexMapGet_eq impl index insert s

/-! ## arrays and tuples -/

/-- `array::init` calls the function with the indices 0 … N-1 in this order -/
theorem array_init_spec (g : Nat → β) (n : Nat) :
    arrayInitS (fun i (log : List Nat) => (g i, log ++ [i])) n [] = ((List.range n).map g, List.range n) := by
  simpa using arrayInitS_eq g n []

theorem array_map_spec (src : List α) (f : α → β) : arrayMap src f = .ok (src.map f) := arrayMap_eq src f
theorem array_append_spec (a1 a2 : List α) : arrayAppend a1 a2 = .ok (a1 ++ a2) := arrayAppend_eq a1 a2
theorem array_join_spec (a1 : List α) (rest : List (List α)) : arrayJoin a1 rest = .ok (a1 ++ rest.flatten) := arrayJoin_eq a1 rest
theorem array_push_back_spec (src : List α) (x : α) : arrayPushBack src x = .ok (src ++ [x]) := arrayAppend_eq src [x]
theorem array_from_range_spec (size : Nat) (src : List α) :
    arrayFromRange size src = if src.length = size then some (.ok src) else none := arrayFromRange_eq size src
theorem tuple_map_spec (t : List α) (f : α → β) : tupleMap t f = .ok (t.map f) := arrayMap_eq t f
theorem tuple_concat_spec (ts : List (List α)) : tupleConcat ts = ts.flatten := tupleConcat_eq ts
theorem tuple_push_back_spec (t : List α) (x : α) : tuplePushBack t x = .ok (t ++ [x]) := tuplePushBack_eq t x

/-! ## equal_range / binary_search on arbitrary input (sorted or not, any comparison) -/

/-- for every list and every comparison function `equal_range` terminates within its loop budget, never dereferences
    outside the range, and returns positions `a ≤ b ≤ size`; a one-element result is an element equivalent to `v` -/
theorem equal_range_any (lt : α → α → Bool) (xs : List α) (v : α) :
    ∃ a b, equalRange lt xs v = .ok (a, b) ∧ a ≤ b ∧ b ≤ xs.length ∧
      (a + 1 = b → ∃ h : a < xs.length, lt xs[a] v = false ∧ lt v xs[a] = false) := equalRange_any lt xs v

/-- `binary_search` on arbitrary input: no fault, and an iterator it returns can be dereferenced and points at an
    element equivalent to the value searched for -/
theorem binary_search_any (lt : α → α → Bool) (xs : List α) (v : α) :
    ∃ r, binarySearch lt xs v = .ok r ∧ ∀ i, r = some i → ∃ h : i < xs.length, Spec.equiv lt v xs[i] = true :=
  binarySearch_any lt xs v

/-- `range::singular`: exactly one element -/
theorem singular_spec (i j : Nat) : singular (i, j) = decide (i + 1 = j) := by
  unfold singular
  by_cases h : i + 1 = j
  · have : ¬ i = j := by omega
    simp [h, this]
  · simp [h]

theorem range_singular_spec (xs : List α) : rangeSingular xs = decide (xs.length = 1) := rangeSingular_eq xs

/-! ## the reserve optimisation of `map` -/

/-- `map` reserves exactly the source's size when it is known, once, and never otherwise -/
theorem map_reserve_spec (hint : Option Nat) (xs : List α) (f : α → β) : (mapSeq hint xs f).1.cap = hint.getD 0 := by
  unfold mapSeq
  rw [loop_eq_foldl]
  have h : ∀ (c : Cont β) (log : List α),
      (xs.foldl (fun (s : Cont β × List α) x => (s.1.insertEndSeq (f x), s.2 ++ [x])) (c, log)).1.cap = c.cap := by
    induction xs with
    | nil => intro c log; rfl
    | cons x xs ih => intro c log; simp only [List.foldl_cons]; rw [ih]; rfl
  rw [h]
  cases hint <;> simp [Cont.reserve]

/-! ## references and aliasing -/

/-- `loop` over a non-const lvalue range with an assigning body rewrites every element once, in place -/
theorem loop_ref_spec (xs : List α) (f : α → α) : loopRef xs f = xs.map f := loopRef_eq xs f

/-- `loop_break` with an assigning body: exactly the elements up to and including the first `break_` are rewritten -/
theorem loop_break_ref_spec (brk : α → Bool) (new : α → α) (xs : List α) (body : α → Loop × α)
    (hb : ∀ x, body x = (if brk x then .break_ else .continue_, new x)) :
    loopBreakRef xs body = (xs.take (xs.findIdx brk + 1)).map new ++ xs.drop (xs.findIdx brk + 1) :=
  loopBreakRef_eq brk new xs body hb

/-- `remove(c, c[i])`: the element to remove may be a reference into the container (it is captured by value): every
    occurrence disappears, the flag is `true` -/
theorem remove_alias_spec [BEq α] [LawfulBEq α] (xs junk : List α) (i : Nat) (h : i < xs.length) :
    remove xs junk xs[i] = (true, xs.filter (fun r => !(xs[i] == r))) := by
  rw [remove_spec]
  congr 1
  simp only [List.any_eq_true]
  exact ⟨xs[i], List.getElem_mem h, by simp⟩

/-- searching a container for (a reference to) one of its own elements always succeeds -/
theorem contains_alias [BEq α] [LawfulBEq α] (xs : List α) (i : Nat) (h : i < xs.length) : contains xs xs[i] = true :=
  (contains_mem xs xs[i]).2 (List.getElem_mem h)

/-- `find_opt(c, c[i])` / `index_of(c, c[i])`: the first occurrence, which is at or in front of position `i` -/
theorem find_opt_alias [BEq α] [LawfulBEq α] (xs : List α) (i : Nat) (h : i < xs.length) :
    ∃ j, findOpt xs xs[i] = some j ∧ indexOf xs xs[i] = some j ∧ j ≤ i ∧ xs[j]? = some xs[i] := by
  rw [index_of_spec, find_opt_spec]
  cases hj : xs.idxOf? xs[i] with
  | none =>
    rw [List.idxOf?, List.findIdx?_eq_none_iff] at hj
    have := hj xs[i] (List.getElem_mem h)
    simp at this
  | some j =>
    refine ⟨j, rfl, rfl, ?_, find_opt_valid xs xs[i] j (by rw [find_opt_spec, hj])⟩
    rw [List.idxOf?, List.findIdx?_eq_some_iff_getElem] at hj
    obtain ⟨_, _, hmin⟩ := hj
    by_cases hle : j ≤ i
    · exact hle
    · have := hmin i (by omega)
      simp at this

/-! ## value categories: an lvalue source is left untouched, an rvalue source is consumed element by element -/

theorem map_vc_spec (rv : Bool) (moved : α) (xs : List α) (f : α → β) :
    mapVC rv moved xs f = (xs.map f, Spec.consumed rv moved xs) := mapVC_eq rv moved xs f

/-- in particular `map` does not modify a source passed as an lvalue -/
theorem map_lvalue_source_unchanged (moved : α) (xs : List α) (f : α → β) : (mapVC false moved xs f).2 = xs := by
  simp [mapVC_eq, Spec.consumed]

theorem join_vc_spec (moved : α) (first : List α) (args : List (Bool × List α)) :
    joinVC moved first args = (first ++ (args.map (·.2)).flatten, args.map fun c => Spec.consumed c.1 moved c.2) :=
  joinVC_eq moved first args

theorem array_map_vc_spec (rv : Bool) (moved : α) (src : List α) (f : α → β) :
    arrayMapVC rv moved src f = .ok (src.map f, Spec.consumed rv moved src) := arrayMapVC_eq rv moved src f

theorem array_append_vc_spec (rv1 rv2 : Bool) (moved : α) (a1 a2 : List α) :
    arrayAppendVC rv1 rv2 moved a1 a2 = .ok (a1 ++ a2, Spec.consumed rv1 moved a1, Spec.consumed rv2 moved a2) :=
  arrayAppendVC_eq rv1 rv2 moved a1 a2

theorem array_join3_vc_spec (rv1 rv2 rv3 : Bool) (moved : α) (a1 a2 a3 : List α) :
    arrayJoin3VC rv1 rv2 rv3 moved a1 a2 a3 =
      .ok (a1 ++ a2 ++ a3, Spec.consumed rv1 moved a1, Spec.consumed rv2 moved a2, Spec.consumed rv3 moved a3) :=
  arrayJoin3VC_eq rv1 rv2 rv3 moved a1 a2 a3

theorem array_push_back_vc_spec (rv rvx : Bool) (moved : α) (src : List α) (x : α) :
    arrayPushBackVC rv rvx moved src x = .ok (src ++ [x], Spec.consumed rv moved src, if rvx then moved else x) :=
  arrayPushBackVC_eq rv rvx moved src x

theorem array_from_range_vc_spec (rv : Bool) (moved : α) (size : Nat) (src : List α) :
    arrayFromRangeVC rv moved size src = if src.length = size then some (.ok (src, Spec.consumed rv moved src)) else none :=
  arrayFromRangeVC_eq rv moved size src

theorem tuple_map_vc_spec (rv : Bool) (moved : α) (t : List α) (f : α → β) :
    tupleMapVC rv moved t f = .ok (t.map f, Spec.consumed rv moved t) := arrayMapVC_eq rv moved t f

theorem tuple_push_back_vc_spec (rv rvx : Bool) (moved : α) (t : List α) (x : α) :
    tuplePushBackVC rv rvx moved t x = .ok (t ++ [x], Spec.consumed rv moved t, if rvx then moved else x) :=
  tuplePushBackVC_eq rv rvx moved t x

theorem tuple_concat_vc_spec (moved : α) (ts : List (Bool × List α)) :
    tupleConcatVC moved ts = ((ts.map (·.2)).flatten, ts.map fun t => Spec.consumed t.1 moved t.2) :=
  tupleConcatVC_eq moved ts

/-- `container::make`: the arguments in order; every argument is moved from -/
theorem make_spec (moved : α) (args : List α) : makeContainer moved args = .ok (args, args.map fun _ => moved) :=
  makeContainer_eq moved args

/-- `move_range`: the const view shows the elements, the non-const iterators hand every element out once, in order,
    and leave it moved-from -/
theorem move_range_spec (moved : α) (xs : List α) : moveRange moved xs = (xs, xs, xs.map fun _ => moved) :=
  moveRange_eq moved xs

/-! ## equal -/

theorem equal_spec [BEq α] [LawfulBEq α] (bothRandomAccess : Bool) (xs ys : List α) :
    equal bothRandomAccess xs ys = (xs == ys) := equal_eq bothRandomAccess xs ys

theorem equal_iff [BEq α] [LawfulBEq α] (bothRandomAccess : Bool) (xs ys : List α) :
    equal bothRandomAccess xs ys = true ↔ xs = ys := by
  rw [equal_eq]; exact beq_iff_eq

/-! ## secondary entry points -/

theorem map_iteration_second_spec (m : Map) (rm : Nat → Bool) :
    mapIterationSecond m (fun v (log : List Nat) => (rm v, log ++ [v])) [] = (m.filter (fun e => !rm e.2), m.map (·.2)) :=
  mapIterationSecond_eq m rm

/-- `get_or_insert` returns the element of `get_or_insert_with_result` and has the same effect -/
theorem get_or_insert_plain_spec (m : Map) (k : Nat) (create : Nat → σ → Nat × σ) (s : σ) (hs : Spec.StrictSorted (m.map (·.1))) :
    getOrInsertPlain m k create s =
      match m.lookup k with
      | some e => (.ok e, m, s)
      | none => (.ok (create k s).1, mapEmplace k (create k s).1 m, (create k s).2) := by
  rw [getOrInsertPlain_eq, get_or_insert_spec m k create s hs]
  cases m.lookup k <;> rfl

/-- `map_values_ref`: one reference per entry, in order, each to the mapped object of that entry -/
theorem map_values_ref_spec (m : Map) : mapValuesRef m = List.range m.length := mapValuesRef_eq m

theorem map_array_spec (src : List α) (f : α → β) : mapArray src f = .ok (src.map f) := arrayMap_eq src f
theorem map_tuple_spec (t : List α) (f : α → β) : mapTuple t f = .ok (t.map f) := arrayMap_eq t f
theorem reverse_rvalue_spec (xs : List α) : reverseRvalue xs = .ok xs.reverse := reverse_eq xs

/-! ## find_opt_iterator, find_opt, contains, insert -/

theorem find_opt_iterator_spec (m : Map) (k : Nat) : findOptIterator m k = m.findIdx? (fun e => e.1 == k) :=
  findOptIterator_eq m k

/-- `container::find_opt` refers to the first (for a map: the) entry with the key; the reference is valid -/
theorem container_find_opt_spec (m : Map) (k : Nat) :
    containerFindOpt m k = (m.find? (fun e => e.1 == k)).map Except.ok := containerFindOpt_eq m k

/-- `find_opt_mapped` is `.second` of what `find_opt` refers to -/
theorem find_opt_mapped_via_find_opt (m : Map) (k : Nat) :
    (findOptMapped m k).map Except.ok = (containerFindOpt m k).map (fun r => r.map (·.2)) :=
  findOptMapped_eq_findOpt m k

theorem container_contains_spec (keys : List Nat) (k : Nat) : containerContains keys k = true ↔ k ∈ keys :=
  containerContains_iff keys k

/-- `container::insert` into a map: `true` iff the key was absent; then (and only then) the pair is in the map afterwards -/
theorem map_insert_spec (m : Map) (kv : Nat × Nat) (k' : Nat) (hs : Spec.StrictSorted (m.map (·.1))) :
    (mapInsert m kv).1 = (m.lookup kv.1).isNone
    ∧ (mapInsert m kv).2.lookup k' = (if k' = kv.1 then (match m.lookup kv.1 with | some e => some e | none => some kv.2) else m.lookup k')
    ∧ Spec.StrictSorted ((mapInsert m kv).2.map (·.1)) := by
  rw [mapInsert_eq]
  cases h : m.lookup kv.1 with
  | none =>
    have := map_emplace_spec kv.1 kv.2 k' m hs
    simp only [h] at this
    simp [this.1, this.2]
  | some e =>
    simp only [Option.isSome_some, if_true, Option.isNone_some, hs, and_true, true_and]
    by_cases hk : k' = kv.1
    · subst hk; simp [h]
    · simp [hk]

/-- `container::insert` into a set -/
theorem set_insert_spec (s : List Nat) (x : Nat) (hs : Spec.StrictSorted s) :
    (setInsertFlag s x).1 = !s.contains x
    ∧ Spec.StrictSorted (setInsertFlag s x).2 ∧ ∀ y, y ∈ (setInsertFlag s x).2 ↔ y = x ∨ y ∈ s := by
  rw [setInsertFlag_eq]
  by_cases h : s.contains x = true
  · have hx : x ∈ s := by simpa using h
    simp only [h, if_true, Bool.not_true, hs, true_and]
    intro y
    constructor
    · exact Or.inr
    · rintro (rfl | h') <;> assumption
  · simp only [h, Bool.false_eq_true, if_false, true_and]
    exact ⟨strictSorted_setInsert x s hs, fun y => mem_setInsert x y s⟩

/-! ## maybe_front / maybe_back / pop_back / pop_front / size / data / dynamic_array / output -/

theorem maybe_front_spec (xs : List α) : maybeFront xs = xs.head?.map Except.ok := maybeFront_eq xs
theorem maybe_back_spec (xs : List α) : maybeBack xs = xs.getLast?.map Except.ok := maybeBack_eq xs
theorem pop_back_spec (xs : List α) : popBack xs = (xs.getLast?.map Except.ok, xs.dropLast) := popBack_eq xs
theorem pop_front_spec (xs : List α) : popFront xs = (xs.head?.map Except.ok, xs.tail) := popFront_eq xs

/-- `container::size` is the number of elements whether or not the range has `size()` -/
theorem container_size_spec (hasSize : Bool) (xs : List α) : containerSize hasSize xs = xs.length := containerSize_eq hasSize xs

/-- `data_end(c) - data(c) = c.size()` for a non-empty container; both are null for an empty one (and `nullptr + 0` is
    the only pointer arithmetic done on a null pointer) -/
theorem data_end_spec (xs : List α) :
    data xs = (if xs.isEmpty then none else some 0) ∧ dataEnd xs = .ok (if xs.isEmpty then none else some xs.length) :=
  ⟨rfl, dataEnd_eq xs⟩

/-- `dynamic_array(n)`: `size() = data_end() - data() = n`; once every cell has been written, every cell reads back what
    was written (no read of an uninitialised cell, no access outside the allocation) -/
theorem dynamic_array_spec (n : Nat) (g : Nat → α) :
    (DynArray.mk' n : DynArray α).size = n ∧ (DynArray.mk' n : DynArray α).extent = n
    ∧ DynArray.fillRead n g = .ok ((List.range n).map g) := by
  refine ⟨DynArray.size_mk' n, ?_, DynArray.fillRead_eq n g⟩
  simp [DynArray.mk', DynArray.extent]

theorem output_spec (render : α → List Char) (xs : List α) :
    output render xs = ['['] ++ [','].intercalate (xs.map render) ++ [']'] := output_eq render xs

/-! ## user functions that observe the container they are called from, and user functions that throw -/

/-- `get_or_insert_with_result` with an arbitrary `create` (it may inspect the container, keep state, throw): found → nothing is
    called, nothing changes; not found → `create` is called exactly once, with the container as it was passed in -/
theorem get_or_insert_e_spec (m : Map) (k : Nat) (create : Map → Nat → σ → Except Fault Nat × σ) (s : σ)
    (hs : Spec.StrictSorted (m.map (·.1))) :
    getOrInsertE m k create s =
      match m.lookup k with
      | some e => (.ok (e, false), m, s)
      | none =>
        match create m k s with
        | (.error e, s') => (.error e, m, s')
        | (.ok v, s') => (.ok (v, true), mapEmplace k v m, s') := getOrInsertE_eq m k create s hs

/-- `create` never sees the key it is asked to create a value for: what `create` would do on containers that hold the key
    has no influence on the outcome (the key is inserted only after `create` has returned) -/
theorem get_or_insert_create_sees_no_key (m : Map) (k : Nat) (create₁ create₂ : Map → Nat → σ → Except Fault Nat × σ) (s : σ)
    (hs : Spec.StrictSorted (m.map (·.1)))
    (h : ∀ mm : Map, mm.lookup k = none → create₁ mm k = create₂ mm k) :
    getOrInsertE m k create₁ s = getOrInsertE m k create₂ s := by
  rw [getOrInsertE_eq m k create₁ s hs, getOrInsertE_eq m k create₂ s hs]
  cases hl : m.lookup k with
  | some e => rfl
  | none => simp only [h m hl]

/-- if `create` throws, the exception leaves the container exactly as it was (no placeholder entry), so a second attempt
    calls `create` again -/
theorem get_or_insert_throw_leaves_map_unchanged (m : Map) (k : Nat) (create : Map → Nat → σ → Except Fault Nat × σ) (s : σ)
    (hs : Spec.StrictSorted (m.map (·.1))) (e : Fault) (hk : m.lookup k = none) (ht : (create m k s).1 = .error e) :
    getOrInsertE m k create s = (.error e, m, (create m k s).2)
    ∧ ∀ (create' : Map → Nat → σ → Except Fault Nat × σ) (s' : σ),
        getOrInsertE (getOrInsertE m k create s).2.1 k create' s' = getOrInsertE m k create' s' := by
  have h1 : getOrInsertE m k create s = (.error e, m, (create m k s).2) := by
    rw [getOrInsertE_eq m k create s hs, hk]
    rcases hc : create m k s with ⟨r, s'⟩
    rw [hc] at ht
    simp only at ht
    subst ht
    rfl
  exact ⟨h1, fun create' s' => by rw [h1]⟩

/-- the index recursion for tuples and mpl lists is the range loop, also with bodies that throw -/
theorem tupleLoopBreakE_eq_loopBreakE (xs : List α) (body : α → σ → Except Fault Loop × σ) (s : σ) :
    tupleLoopBreakE xs body 0 s = loopBreakE xs body s := by
  simpa using tupleLoopBreakE_drop xs body 0 s

/-- a loop body that throws at its `k`-th call: exactly the first `k` elements have been looked at (the records of the first
    `k - 1` completed calls and of the throwing one are there), nothing behind them; without a throw: everything, once -/
theorem loop_throw_prefix (k : Nat) (rec : α → σ → σ) (xs : List α) (s : σ) :
    loopE xs (fun x => throwAt k (rec x) (fun s => ((), s))) (0, s) =
      if 0 < k ∧ k ≤ xs.length then
        (.error (.exception (.other "cb")), (k, (xs.take k).foldl (fun s x => rec x s) s))
      else (.ok (), (xs.length, xs.foldl (fun s x => rec x s) s)) := by
  simpa using loopE_throwAt k rec xs 0 s

/-- erase while iterating: the action is always handed a container in which the element it is called for is still present -/
theorem iteration_action_sees_element (rm : α → Bool) (xs : List α) :
    ∀ p ∈ (iterateE (fun cont e (log : List (List α × α)) => (.ok (rm e), log ++ [(cont, e)])) [] xs []).2.2, p.2 ∈ p.1 :=
  iterateE_sees_element rm [] xs [] (by simp)

/-- erase while iterating with an action that throws at its `k`-th call: the container holds exactly the effects of the first
    `k - 1` actions — their removed elements are gone, the `k`-th element and everything behind it are untouched -/
theorem iteration_throw_prefix (k : Nat) (rm : α → Bool) (rec : List α → α → σ → σ) (xs : List α) (s : σ) :
    ∃ s', iterateE (fun cont e => throwAt k (rec cont e) (fun s => (rm e, s))) [] xs (0, s) =
      if 0 < k ∧ k ≤ xs.length then
        (.error (.exception (.other "cb")), (xs.take (k - 1)).filter (fun x => !rm x) ++ xs.drop (k - 1), (k, s'))
      else (.ok (), xs.filter (fun x => !rm x), (xs.length, s')) := by
  simpa using iterateE_throwAt k rm rec [] xs 0 s

/-! ## Non-vacuity and concrete instances -/

example : Spec.SortedBy (fun a b : Nat => decide (a < b)) [0, 1, 1, 2] := by unfold Spec.SortedBy; decide
example : binarySearch (fun a b : Nat => decide (a < b)) [0, 1, 1, 2] 2 = .ok (some 3) := by rfl
-- duplicates: not "exactly one" → nothing
example : binarySearch (fun a b : Nat => decide (a < b)) [0, 1, 1, 2] 1 = .ok none := by rfl
-- the hypothesis of the sorted theorems is satisfiable: `<` on Nat is a strict weak order
example : StrictWeak (fun a b : Nat => decide (a < b)) :=
  ⟨by intro a b h; simp at h ⊢; omega, by intro a b c h; simp at h ⊢; omega⟩
example : splitString [1, 0, 0, 2, 0] 0 = [[1], [], [2], []] := by rw [split_string_spec]; decide
example : joinStrings [[1], [], [2], []] [0] = [1, 0, 0, 2, 0] := by rw [join_strings_spec]; decide
-- an off-by-one in `remove_if` (erase from `position + 1`) would keep a removed element: the model does not
example : removeIf [1, 0, 1, 2] [9, 9, 9, 9] (· == 1) = (true, [0, 2]) := by decide
example : (allOf [0, 0, 1, 0] (· == 0)).2 = [0, 0, 1] := by rw [all_of_spec]; decide
example : Spec.StrictSorted [0, 2] ∧ (getOrInsert [(0, 5), (2, 7)] 1 (fun k (n : Nat) => (k + 10, n + 1)) 0)
    = (.ok (11, true), [(0, 5), (1, 11), (2, 7)], 1) := ⟨by unfold Spec.StrictSorted; decide, by rfl⟩

-- create throws: nothing is left behind; create that looks for its key in the map does not find it
example : (getOrInsertE [(0, 5)] 1 (fun _ _ (n : Nat) => (.error (.exception (.other "cb")), n + 1)) 0).2.1 = [(0, 5)] := by decide
example : getOrInsertE [(0, 5)] 1 (fun mm k (_ : Unit) => (.ok (if (mm.lookup k).isSome then 7 else 3), ())) ()
    = (.ok (3, true), [(0, 5), (1, 3)], ()) := by decide
-- a state-dependent action: remove every second element offered
example : seqIteration [5, 6, 7, 8] (fun _ (n : Nat) => (n % 2 == 1, n + 1)) 0 = ([5, 7], 4) := by
  rw [sequence_iteration_general]; decide
-- value categories: an rvalue first and an lvalue second argument of `array::append`
example : arrayAppendVC true false 9 [0, 1] [2] = .ok ([0, 1, 2], [9, 9], [2]) := by decide
-- `remove(c, c[0])` on [1, 0, 1]: both 1s go although the first one is overwritten while `std::remove_if` runs
example : remove [1, 0, 1] [7, 7, 7] ([1, 0, 1][0]) = (true, [0]) := by decide
-- binary_search on unsorted input: whatever it returns is an equivalent element (here: finds nothing although 0 occurs)
example : binarySearch (fun a b : Nat => decide (a < b)) [2, 1, 0] 0 = .ok none := by rfl
example : binarySearch (fun a b : Nat => decide (a < b)) [1, 0, 2, 3] 2 = .ok (some 2) := by rfl
example : output (fun n : Nat => (toString n).toList) [1, 22, 3] = "[1,22,3]".toList := by rw [output_spec]; decide
example : mapInsert [(0, 5), (2, 7)] (2, 9) = (false, [(0, 5), (2, 7)]) ∧ mapInsert [(0, 5), (2, 7)] (1, 9) = (true, [(0, 5), (1, 9), (2, 7)]) := by
  decide

end Fcppt.C16
