/-! Property theorems for C16 — placeholder until the property's model is built. -/
