/-! Property theorems for C17 — placeholder until the property's model is built. -/
