import FcpptModel.Spec.C17
import FcpptProofs.C17.Types
import FcpptProofs.C17.Int
import FcpptProofs.Props.C10
/-!
# C17 — property theorems

Part (a): every `strong_typedef` operator is unwrap – operate – wrap (`transparent_*`), the assigning and
stepping forms produce the value of the plain operator and hand back the operand / the old copy, the C operator
itself is the exact integer result (signed) or the result modulo 2^bits (unsigned).

Part (b): for every comparison function as coded, for **any** component type whose `==` is equality
(`LawfulEq`) and whose `<` is a strict total order (`StrictTotal`), and for values of any size / shape:
`==` holds exactly when the values are equal (`*_eq_iff_components`) and is therefore an equivalence
(`*_eq_equivalence`), `!=` is its negation (`*_ne_eq_not`), `<` is a strict weak order (`*_lt_strict_weak`)
compatible with `==` (`*_lt_compatible_eq`), the derived `> <= >=` are consistent (`*_order_ops`), equal values
have equal hashes for any `hash_combine` and component hash (`*_hash_eq_of_eq`), and the comparisons that walk
two ranges never read out of bounds (the `.ok` in the grid / raw_vector statements).

Only theorems live in this file; the lemmas are in `FcpptProofs/C17/`.
-/
namespace Fcppt.C17
variable {α β : Type}

/-! ## Part (a): strong_typedef is transparent -/

/-- `get` of a constructed strong_typedef is the wrapped value (constructor / `get` pair) -/
theorem transparent_get (v : Int) : (ST.mk v).get = v := rfl

theorem transparent_add (t : IntTy) (l r : ST) : ST.add t l r = (t.add l.get r.get).map ST.mk := by
  unfold ST.add; cases t.add l.get r.get <;> rfl
theorem transparent_sub (t : IntTy) (l r : ST) : ST.sub t l r = (t.sub l.get r.get).map ST.mk := by
  unfold ST.sub; cases t.sub l.get r.get <;> rfl
theorem transparent_mul (t : IntTy) (l r : ST) : ST.mul t l r = (t.mul l.get r.get).map ST.mk := by
  unfold ST.mul; cases t.mul l.get r.get <;> rfl
theorem transparent_neg (t : IntTy) (x : ST) : ST.neg t x = (t.neg x.get).map ST.mk := by
  unfold ST.neg; cases t.neg x.get <;> rfl
theorem transparent_and (t : IntTy) (l r : ST) : ST.band t l r = ST.mk (t.band l.get r.get) := rfl
theorem transparent_or (t : IntTy) (l r : ST) : ST.bor t l r = ST.mk (t.bor l.get r.get) := rfl
theorem transparent_xor (t : IntTy) (l r : ST) : ST.bxor t l r = ST.mk (t.bxor l.get r.get) := rfl
theorem transparent_not (t : IntTy) (x : ST) : ST.bnot t x = ST.mk (t.bnot x.get) := rfl

/-- `l op= r` is the compound assignment of the wrapped type on the wrapped values: its result is left in `l` and the
returned reference shows it -/
theorem transparent_add_assign (t : IntTy) (l r : ST) :
    ST.addAssign t l r = (t.addAssign l.get r.get).map fun v => (ST.mk v, ST.mk v) := by
  unfold ST.addAssign; cases t.addAssign l.get r.get <;> rfl
theorem transparent_sub_assign (t : IntTy) (l r : ST) :
    ST.subAssign t l r = (t.subAssign l.get r.get).map fun v => (ST.mk v, ST.mk v) := by
  unfold ST.subAssign; cases t.subAssign l.get r.get <;> rfl
theorem transparent_mul_assign (t : IntTy) (l r : ST) :
    ST.mulAssign t l r = (t.mulAssign l.get r.get).map fun v => (ST.mk v, ST.mk v) := by
  unfold ST.mulAssign; cases t.mulAssign l.get r.get <;> rfl
theorem transparent_and_assign (t : IntTy) (l r : ST) :
    ST.andAssign t l r = (ST.mk (t.andAssign l.get r.get), ST.mk (t.andAssign l.get r.get)) := rfl
theorem transparent_or_assign (t : IntTy) (l r : ST) :
    ST.orAssign t l r = (ST.mk (t.orAssign l.get r.get), ST.mk (t.orAssign l.get r.get)) := rfl
theorem transparent_xor_assign (t : IntTy) (l r : ST) :
    ST.xorAssign t l r = (ST.mk (t.xorAssign l.get r.get), ST.mk (t.xorAssign l.get r.get)) := rfl

/-- `++x`: operand and result are both the incremented value of the underlying type -/
theorem transparent_pre_inc (t : IntTy) (x : ST) :
    ST.preInc t x = (t.inc x.get).map fun v => (ST.mk v, ST.mk v) := by
  unfold ST.preInc; cases t.inc x.get <;> rfl
theorem transparent_pre_dec (t : IntTy) (x : ST) :
    ST.preDec t x = (t.dec x.get).map fun v => (ST.mk v, ST.mk v) := by
  unfold ST.preDec; cases t.dec x.get <;> rfl
/-- `x++`: the operand becomes the incremented value, the result is the old value -/
theorem transparent_post_inc (t : IntTy) (x : ST) :
    ST.postInc t x = (t.inc x.get).map fun v => (ST.mk v, x) := by
  unfold ST.postInc ST.preInc; cases t.inc x.get <;> rfl
theorem transparent_post_dec (t : IntTy) (x : ST) :
    ST.postDec t x = (t.dec x.get).map fun v => (ST.mk v, x) := by
  unfold ST.postDec ST.preDec; cases t.dec x.get <;> rfl

/-- members: writing through `get()`, copy assignment, `strong_typedef_map`, `strong_typedef_apply`,
`strong_typedef_construct_cast` all act on the one wrapped value -/
theorem transparent_members (x y : ST) (v : Int) (f : Int → Int) (g : Int → Int → Int) :
    (ST.set x v).get = v ∧ ST.assign x y = (y, y) ∧ (ST.map f x).get = f x.get ∧
    (ST.apply2 g x y).get = g x.get y.get ∧ (ST.constructCast f v).get = f v := ⟨rfl, rfl, rfl, rfl, rfl⟩

/-- the operators are `strong_typedef_apply` / `strong_typedef_map` of the plain operators -/
theorem transparent_ops_are_apply (t : IntTy) (l r : ST) :
    ST.band t l r = ST.apply2 t.band l r ∧ ST.bor t l r = ST.apply2 t.bor l r ∧ ST.bxor t l r = ST.apply2 t.bxor l r ∧
    ST.bnot t l = ST.map t.bnot l := ⟨rfl, rfl, rfl, rfl⟩

/-- the same object on both sides (`x -= x`, `x ^= x`): zero, whatever the type -/
theorem self_assign_ops_zero (t : IntTy) (x : ST) :
    ST.subAssign t x x = .ok (ST.mk 0, ST.mk 0) ∧ ST.xorAssign t x x = (ST.mk 0, ST.mk 0) := by
  constructor
  · have h0 : t.promoted.arith 0 = .ok 0 := by
      by_cases hw : t.bits < 32
      · rw [IntTy.promoted_narrow t hw]; rfl
      · rw [IntTy.promoted_wide t hw]
        cases hs : t.signed with
        | true =>
          apply IntTy.arith_signed_ok t hs
          have := IntTy.two_pow_pos (t.bits - 1)
          unfold IntTy.Repr IntTy.lo IntTy.hi; simp only [hs, if_true]; omega
        | false => rw [IntTy.arith_unsigned t hs]; simp
    unfold ST.subAssign IntTy.subAssign IntTy.sub
    rw [Int.sub_self, h0]
    show (Except.ok (ST.mk (t.conv 0), ST.mk (t.conv 0)) : M (ST × ST)) = _
    rw [IntTy.conv_zero]
  · unfold ST.xorAssign IntTy.xorAssign
    rw [IntTy.bxor_self, IntTy.conv_zero]

/-- the six comparison operators are those of the wrapped values -/
theorem transparent_comparison (l r : ST) :
    ST.lt l r = decide (l.get < r.get) ∧ ST.le l r = decide (l.get ≤ r.get) ∧ ST.gt l r = decide (l.get > r.get) ∧
    ST.ge l r = decide (l.get ≥ r.get) ∧ ST.eq l r = decide (l.get = r.get) ∧ ST.ne l r = decide (l.get ≠ r.get) :=
  ⟨rfl, rfl, rfl, rfl, rfl, rfl⟩

/-- the hash is the hash of the wrapped value -/
theorem transparent_hash (h : Int → Nat) (x : ST) : ST.hash h x = h x.get := rfl

/-- `type_iso::transform<strong_typedef>`: `decorate` and `undecorate` are inverse -/
theorem type_iso_round_trip (v : Int) (s : ST) :
    ST.undecorate (ST.decorate v) = v ∧ ST.decorate (ST.undecorate s) = s := ⟨rfl, rfl⟩

/-- what the underlying signed operator yields: the exact integer result if representable … -/
theorem int_arith_signed_exact (t : IntTy) (hs : t.signed = true) (a b : Int) :
    (t.Repr (a + b) → t.add a b = .ok (a + b)) ∧ (t.Repr (a - b) → t.sub a b = .ok (a - b)) ∧
    (t.Repr (a * b) → t.mul a b = .ok (a * b)) ∧ (t.Repr (-a) → t.neg a = .ok (-a)) :=
  ⟨IntTy.arith_signed_ok t hs _, IntTy.arith_signed_ok t hs _, IntTy.arith_signed_ok t hs _, IntTy.arith_signed_ok t hs _⟩

/-- … and undefined behaviour (reported as a fault, `ub` in the correspondence) otherwise -/
theorem int_arith_signed_overflow (t : IntTy) (hs : t.signed = true) (a b : Int) :
    (¬ t.Repr (a + b) → t.add a b = .error .signedOverflow) ∧ (¬ t.Repr (a - b) → t.sub a b = .error .signedOverflow) ∧
    (¬ t.Repr (a * b) → t.mul a b = .error .signedOverflow) ∧ (¬ t.Repr (-a) → t.neg a = .error .signedOverflow) :=
  ⟨IntTy.arith_signed_overflow t hs _, IntTy.arith_signed_overflow t hs _, IntTy.arith_signed_overflow t hs _,
   IntTy.arith_signed_overflow t hs _⟩

/-- unsigned operators never fault and wrap modulo 2^bits -/
theorem int_arith_unsigned_wraps (t : IntTy) (hs : t.signed = false) (a b : Int) :
    t.add a b = .ok ((a + b) % 2 ^ t.bits) ∧ t.sub a b = .ok ((a - b) % 2 ^ t.bits) ∧
    t.mul a b = .ok ((a * b) % 2 ^ t.bits) ∧ t.neg a = .ok ((-a) % 2 ^ t.bits) :=
  ⟨IntTy.arith_unsigned t hs _, IntTy.arith_unsigned t hs _, IntTy.arith_unsigned t hs _, IntTy.arith_unsigned t hs _⟩

/-- every successful arithmetic result is again a value of the type -/
theorem int_arith_closed (t : IntTy) (a b v : Int) :
    (t.add a b = .ok v → t.Repr v) ∧ (t.sub a b = .ok v → t.Repr v) ∧ (t.mul a b = .ok v → t.Repr v) ∧
    (t.neg a = .ok v → t.Repr v) :=
  ⟨IntTy.arith_repr t _ v, IntTy.arith_repr t _ v, IntTy.arith_repr t _ v, IntTy.arith_repr t _ v⟩

/-! ### compound assignment of the underlying type: integral promotion for the types narrower than `int` -/

/-- conversion to the type: identity on its values, always lands in the type, congruent modulo 2^bits -/
theorem int_conv_spec (t : IntTy) (hb : 0 < t.bits) (x : Int) :
    (t.Repr x → t.conv x = x) ∧ t.Repr (t.conv x) ∧ ∃ k : Int, t.conv x = x + k * 2 ^ t.bits :=
  ⟨IntTy.conv_of_repr t hb x, IntTy.conv_repr t hb x, IntTy.conv_congr t x⟩

/-- `int` and wider: `a op= b` is `a op b` (same value, same undefined cases), `++a` is `a + 1` -/
theorem int_assign_wide (t : IntTy) (hb : 0 < t.bits) (hw : ¬ t.bits < 32) (a b : Int) :
    t.addAssign a b = t.add a b ∧ t.subAssign a b = t.sub a b ∧ t.mulAssign a b = t.mul a b ∧
    t.inc a = t.add a 1 ∧ t.dec a = t.sub a 1 := by
  have hp := IntTy.promoted_wide t hw
  refine ⟨?_, ?_, ?_, ?_, ?_⟩ <;>
    simp only [IntTy.inc, IntTy.dec, IntTy.addAssign, IntTy.subAssign, IntTy.mulAssign, hp, IntTy.add, IntTy.sub, IntTy.mul] <;>
    exact IntTy.arith_conv_wide t hb _

/-- for `int` and wider types (no integral promotion) `l op= r` leaves in `l` exactly what `l op r` returns -/
theorem transparent_assign_is_binary_wide (t : IntTy) (hb : 0 < t.bits) (hw : ¬ t.bits < 32) (l r : ST) :
    ST.addAssign t l r = (ST.add t l r).map (fun s => (s, s)) ∧
    ST.subAssign t l r = (ST.sub t l r).map (fun s => (s, s)) ∧
    ST.mulAssign t l r = (ST.mul t l r).map (fun s => (s, s)) ∧
    ST.andAssign t l r = (ST.band t l r, ST.band t l r) ∧
    ST.orAssign t l r = (ST.bor t l r, ST.bor t l r) ∧
    ST.xorAssign t l r = (ST.bxor t l r, ST.bxor t l r) := by
  have hp := IntTy.promoted_wide t hw
  obtain ⟨h1, h2, h3, -, -⟩ := int_assign_wide t hb hw l.get r.get
  refine ⟨?_, ?_, ?_, ?_, ?_, ?_⟩
  · unfold ST.addAssign ST.add; rw [h1]; cases t.add l.get r.get <;> rfl
  · unfold ST.subAssign ST.sub; rw [h2]; cases t.sub l.get r.get <;> rfl
  · unfold ST.mulAssign ST.mul; rw [h3]; cases t.mul l.get r.get <;> rfl
  · unfold ST.andAssign ST.band IntTy.andAssign; rw [hp]; unfold IntTy.band; rw [IntTy.bitwise_conv_wide t hb]
  · unfold ST.orAssign ST.bor IntTy.orAssign; rw [hp]; unfold IntTy.bor; rw [IntTy.bitwise_conv_wide t hb]
  · unfold ST.xorAssign ST.bxor IntTy.xorAssign; rw [hp]; unfold IntTy.bxor; rw [IntTy.bitwise_conv_wide t hb]

/-- types of at most 16 bits: `+=`, `-=`, `++`, `--` are computed in `int`, never overflow, and wrap modulo 2^bits
(also for the signed types: `short x = 32767; ++x` is `-32768`, not undefined) -/
theorem int_assign_narrow (t : IntTy) (h16 : t.bits ≤ 16) (a b : Int) (ha : t.Repr a) (hb : t.Repr b) :
    t.addAssign a b = .ok (t.conv (a + b)) ∧ t.subAssign a b = .ok (t.conv (a - b)) ∧
    t.inc a = .ok (t.conv (a + 1)) ∧ t.dec a = .ok (t.conv (a - 1)) := by
  have hn : t.bits < 32 := by omega
  have hp := IntTy.promoted_narrow t hn
  have h1 := IntTy.repr_narrow_bound t h16 a ha
  have h2 := IntTy.repr_narrow_bound t h16 b hb
  refine ⟨?_, ?_, ?_, ?_⟩ <;>
    simp only [IntTy.inc, IntTy.dec, IntTy.addAssign, IntTy.subAssign, hp, IntTy.add, IntTy.sub]
  · rw [IntTy.i32_arith_ok _ (by omega)]; rfl
  · rw [IntTy.i32_arith_ok _ (by omega)]; rfl
  · rw [IntTy.i32_arith_ok _ (by omega)]; rfl
  · rw [IntTy.i32_arith_ok _ (by omega)]; rfl

/-- `*=` on a narrow type multiplies in `int`: the wrapped product when it fits into `int`, undefined otherwise
(`unsigned short` 65535 * 65535) -/
theorem int_mul_assign_narrow (t : IntTy) (hn : t.bits < 32) (a b : Int) :
    (IntTy.i32.Repr (a * b) → t.mulAssign a b = .ok (t.conv (a * b))) ∧
    (¬ IntTy.i32.Repr (a * b) → t.mulAssign a b = .error .signedOverflow) := by
  have hp := IntTy.promoted_narrow t hn
  constructor <;> intro h <;> simp only [IntTy.mulAssign, hp, IntTy.mul]
  · rw [IntTy.arith_signed_ok _ rfl _ h]; rfl
  · rw [IntTy.arith_signed_overflow _ rfl _ h]; rfl

/-- … which cannot happen for the signed narrow types and for `unsigned char` -/
theorem int_mul_assign_narrow_defined (t : IntTy) (h16 : t.bits ≤ 16) (hs : t.signed = true ∨ t.bits ≤ 15) (a b : Int)
    (ha : t.Repr a) (hb : t.Repr b) : t.mulAssign a b = .ok (t.conv (a * b)) := by
  apply (int_mul_assign_narrow t (by omega) a b).1
  rw [IntTy.i32_repr_iff]
  have key : -32768 ≤ a ∧ a ≤ 32768 ∧ -32768 ≤ b ∧ b ≤ 32768 := by
    have hp := IntTy.two_pow_pos (t.bits - 1)
    have hq := IntTy.two_pow_pos t.bits
    have e15 : (2 : Int) ^ 15 = 32768 := by decide
    unfold IntTy.Repr IntTy.lo IntTy.hi at ha hb
    rcases hs with hs | hs
    · have h2 : (2 : Int) ^ (t.bits - 1) ≤ 2 ^ 15 := by
        have : (2 : Nat) ^ (t.bits - 1) ≤ 2 ^ 15 := Nat.pow_le_pow_right (by decide) (by omega)
        exact_mod_cast this
      simp only [hs, if_true] at ha hb
      omega
    · have h2 : (2 : Int) ^ t.bits ≤ 2 ^ 15 := by
        have : (2 : Nat) ^ t.bits ≤ 2 ^ 15 := Nat.pow_le_pow_right (by decide) hs
        exact_mod_cast this
      have h3 : (2 : Int) ^ (t.bits - 1) ≤ 2 ^ 15 := by
        have : (2 : Nat) ^ (t.bits - 1) ≤ 2 ^ 15 := Nat.pow_le_pow_right (by decide) (by omega)
        exact_mod_cast this
      cases hsg : t.signed <;> simp only [hsg, if_true, Bool.false_eq_true, if_false] at ha hb <;> omega
  have := IntTy.mul_bound a b 32768 ⟨key.1, key.2.1⟩ ⟨key.2.2.1, key.2.2.2⟩
  omega

/-! ### strong_typedef: comparison coherence -/

theorem strong_typedef_eq_iff_components (l r : ST) : ST.eq l r = true ↔ l = r := ST.eq_iff l r
theorem strong_typedef_eq_equivalence : IsEquivalence ST.eq := LawfulEq.isEquivalence ST.eq_iff
theorem strong_typedef_ne_eq_not (l r : ST) : ST.ne l r = !ST.eq l r := by simp [ST.ne, ST.eq]
theorem strong_typedef_lt_strict_weak : StrictWeak ST.lt := ST.lt_strictTotal.strictWeak
theorem strong_typedef_lt_compatible_eq : Compatible (fun l r => ST.eq l r = true) ST.lt :=
  compatible_of ST.eq_iff ST.lt_strictTotal
theorem strong_typedef_order_ops : OrderOps ST.lt ST.gt ST.le ST.ge where
  gt_iff a b := by simp [ST.gt, ST.lt]
  le_iff a b := by
    simp only [ST.le, ST.lt, decide_eq_true_eq]
    constructor
    · intro h
      rcases Int.lt_or_eq_of_le h with h | h
      · exact Or.inl h
      · exact Or.inr (ST.ext' a b h)
    · rintro (h | rfl)
      · exact Int.le_of_lt h
      · exact Int.le_refl _
  ge_iff a b := by
    simp only [ST.ge, ST.lt, decide_eq_true_eq]
    constructor
    · intro h
      rcases Int.lt_or_eq_of_le h with h | h
      · exact Or.inl h
      · exact Or.inr (ST.ext' a b h.symm)
    · rintro (h | rfl)
      · exact Int.le_of_lt h
      · exact Int.le_refl _
theorem strong_typedef_hash_eq_of_eq (h : Int → Nat) (l r : ST) (he : ST.eq l r = true) : ST.hash h l = ST.hash h r := by
  rw [(ST.eq_iff l r).1 he]

/-! ## Part (b) -/

/-! ### building blocks of the standard library, as used by the headers -/

/-- `std::equal` with three iterators is safe exactly because the callers compare the sizes first:
equal lengths → no fault and the answer is equality -/
theorem std_equal_same_length {eq : α → α → Bool} (he : LawfulEq eq) (a b : List α) (h : a.length = b.length) :
    ∃ r, stdEqual3 eq a b = .ok r ∧ (r = true ↔ a = b) := stdEqual3_same_length he a b h

/-- … and it reads out of bounds when the second range is a proper prefix of the first -/
theorem std_equal_shorter_second_oob {eq : α → α → Bool} (he : LawfulEq eq) (b : List α) (x : α) (s : List α) :
    stdEqual3 eq (b ++ x :: s) b = .error .oob := stdEqual3_oob he b x s

/-- `std::lexicographical_compare` decides the lexicographic order and is a strict total order -/
theorem lexicographical_compare_spec {lt : α → α → Bool} (h : StrictTotal lt) (a b : List α) :
    lexCompare lt a b = true ↔ LexLt lt a b := lexCompare_iff_lexLt h a b
theorem lexicographical_compare_strict_total {lt : α → α → Bool} (h : StrictTotal lt) : StrictTotal (lexCompare lt) :=
  lexCompare_strictTotal h

/-! ### optional -/
theorem optional_eq_iff_components {eq : α → α → Bool} (he : LawfulEq eq) (a b : Option α) :
    Opt.eq eq a b = true ↔ a = b := Opt.eq_iff he a b
theorem optional_eq_equivalence {eq : α → α → Bool} (he : LawfulEq eq) : IsEquivalence (Opt.eq eq) :=
  LawfulEq.isEquivalence (Opt.eq_iff he)
theorem optional_ne_eq_not (eq : α → α → Bool) (a b : Option α) : Opt.ne eq a b = !Opt.eq eq a b := rfl
theorem optional_lt_strict_weak {lt : α → α → Bool} (h : StrictTotal lt) : StrictWeak (Opt.lt lt) :=
  (Opt.lt_strictTotal h).strictWeak
theorem optional_lt_compatible_eq {eq lt : α → α → Bool} (he : LawfulEq eq) (h : StrictTotal lt) :
    Compatible (fun a b => Opt.eq eq a b = true) (Opt.lt lt) := compatible_of (Opt.eq_iff he) (Opt.lt_strictTotal h)
/-- the empty optional is the least element -/
theorem optional_nothing_least (lt : α → α → Bool) (a : Option α) (y : α) :
    Opt.lt lt none (some y) = true ∧ Opt.lt lt a none = false := ⟨rfl, Opt.lt_none lt a⟩

/-! ### either -/
theorem either_eq_iff_components {eqF : α → α → Bool} {eqS : β → β → Bool} (hF : LawfulEq eqF) (hS : LawfulEq eqS)
    (a b : Sum α β) : Either.eq eqF eqS a b = true ↔ a = b := Either.eq_iff hF hS a b
theorem either_eq_equivalence {eqF : α → α → Bool} {eqS : β → β → Bool} (hF : LawfulEq eqF) (hS : LawfulEq eqS) :
    IsEquivalence (Either.eq eqF eqS) := LawfulEq.isEquivalence (Either.eq_iff hF hS)
theorem either_ne_eq_not (eqF : α → α → Bool) (eqS : β → β → Bool) (a b : Sum α β) :
    Either.ne eqF eqS a b = !Either.eq eqF eqS a b := rfl

/-! ### variant -/
theorem variant_eq_iff_components {eq : α → α → Bool} (he : LawfulEq eq) (a b : Var α) :
    Var.eq eq a b = true ↔ a = b := Var.eq_iff he a b
theorem variant_eq_equivalence {eq : α → α → Bool} (he : LawfulEq eq) : IsEquivalence (Var.eq eq) :=
  LawfulEq.isEquivalence (Var.eq_iff he)
theorem variant_ne_eq_not (eq : α → α → Bool) (a b : Var α) : Var.ne eq a b = !Var.eq eq a b := rfl
theorem variant_lt_strict_weak {lt : α → α → Bool} (h : StrictTotal lt) : StrictWeak (Var.lt lt) :=
  (Var.lt_strictTotal h).strictWeak
theorem variant_lt_compatible_eq {eq lt : α → α → Bool} (he : LawfulEq eq) (h : StrictTotal lt) :
    Compatible (fun a b => Var.eq eq a b = true) (Var.lt lt) := compatible_of (Var.eq_iff he) (Var.lt_strictTotal h)
/-- `variant::compare` with `==` as comparer is `==` of the variants -/
theorem variant_compare_eq (eq : α → α → Bool) (a b : Var α) : Var.compare eq a b = Var.eq eq a b := by
  unfold Var.compare Var.eq
  by_cases h : a.idx = b.idx <;> simp [h]

/-! ### tuples, variants and records whose positions have types of their own (nest `Pair` / `SumV` for any arity) -/
/-- `tuple<A, B>` (and, nested, any arity): `==` holds exactly when every position is equal -/
theorem hetero_tuple_eq_iff_components {eqA : α → α → Bool} {eqB : β → β → Bool} (hA : LawfulEq eqA) (hB : LawfulEq eqB)
    (a b : α × β) : Pair.eq eqA eqB a b = true ↔ a = b := Pair.eq_iff hA hB a b
/-- the three-position instance used by the harness, `tuple<int, long, short>` -/
theorem hetero_tuple3_eq_iff_components {γ : Type} {eqA : α → α → Bool} {eqB : β → β → Bool} {eqC : γ → γ → Bool}
    (hA : LawfulEq eqA) (hB : LawfulEq eqB) (hC : LawfulEq eqC) (a b : α × β × γ) :
    Pair.eq eqA (Pair.eq eqB eqC) a b = true ↔ a = b := Pair.eq_iff hA (Pair.eq_iff hB hC) a b
theorem hetero_tuple_eq_equivalence {eqA : α → α → Bool} {eqB : β → β → Bool} (hA : LawfulEq eqA) (hB : LawfulEq eqB) :
    IsEquivalence (Pair.eq eqA eqB) := LawfulEq.isEquivalence (Pair.eq_iff hA hB)
theorem hetero_tuple_ne_eq_not (eqA : α → α → Bool) (eqB : β → β → Bool) (a b : α × β) :
    Pair.ne eqA eqB a b = !Pair.eq eqA eqB a b := rfl
/-- `variant<A, B>` (nested: any number of alternatives, each with its own `==` / `<`) -/
theorem hetero_variant_eq_iff_components {eqA : α → α → Bool} {eqB : β → β → Bool} (hA : LawfulEq eqA) (hB : LawfulEq eqB)
    (a b : Sum α β) : SumV.eq eqA eqB a b = true ↔ a = b := SumV.eq_iff hA hB a b
theorem hetero_variant3_eq_iff_components {γ : Type} {eqA : α → α → Bool} {eqB : β → β → Bool} {eqC : γ → γ → Bool}
    (hA : LawfulEq eqA) (hB : LawfulEq eqB) (hC : LawfulEq eqC) (a b : Sum α (Sum β γ)) :
    SumV.eq eqA (SumV.eq eqB eqC) a b = true ↔ a = b := SumV.eq_iff hA (SumV.eq_iff hB hC) a b
theorem hetero_variant_eq_equivalence {eqA : α → α → Bool} {eqB : β → β → Bool} (hA : LawfulEq eqA) (hB : LawfulEq eqB) :
    IsEquivalence (SumV.eq eqA eqB) := LawfulEq.isEquivalence (SumV.eq_iff hA hB)
theorem hetero_variant_ne_eq_not (eqA : α → α → Bool) (eqB : β → β → Bool) (a b : Sum α β) :
    SumV.ne eqA eqB a b = !SumV.eq eqA eqB a b := rfl
theorem hetero_variant_lt_strict_weak {ltA : α → α → Bool} {ltB : β → β → Bool} (hA : StrictTotal ltA)
    (hB : StrictTotal ltB) : StrictWeak (SumV.lt ltA ltB) := (SumV.lt_strictTotal hA hB).strictWeak
theorem hetero_variant3_lt_strict_weak {γ : Type} {ltA : α → α → Bool} {ltB : β → β → Bool} {ltC : γ → γ → Bool}
    (hA : StrictTotal ltA) (hB : StrictTotal ltB) (hC : StrictTotal ltC) :
    StrictWeak (SumV.lt ltA (SumV.lt ltB ltC)) := (SumV.lt_strictTotal hA (SumV.lt_strictTotal hB hC)).strictWeak
theorem hetero_variant_lt_compatible_eq {eqA ltA : α → α → Bool} {eqB ltB : β → β → Bool} (hA : LawfulEq eqA)
    (hB : LawfulEq eqB) (hlA : StrictTotal ltA) (hlB : StrictTotal ltB) :
    Compatible (fun a b => SumV.eq eqA eqB a b = true) (SumV.lt ltA ltB) :=
  compatible_of (SumV.eq_iff hA hB) (SumV.lt_strictTotal hlA hlB)
/-- `variant::compare` with the `==` of each alternative is `==` of the variants -/
theorem hetero_variant_compare_eq (eqA : α → α → Bool) (eqB : β → β → Bool) (a b : Sum α β) :
    SumV.compare eqA eqB a b = SumV.eq eqA eqB a b := SumV.compare_eq eqA eqB a b
/-- a record against the same record type with its elements in another order: equal exactly when every label agrees -/
theorem hetero_record_eq_permuted {eqA : α → α → Bool} {eqB : β → β → Bool} (hA : LawfulEq eqA) (hB : LawfulEq eqB)
    (r1 : α × β) (r2 : β × α) : Rec2.eqPermuted eqA eqB r1 r2 = true ↔ (r1.1 = r2.2 ∧ r1.2 = r2.1) := by
  simp [Rec2.eqPermuted, hA _ _, hB _ _]

/-! ### tuple, array, enum array, math::vector, math::dim, math::matrix (index-wise `==`) -/
theorem array_eq_iff_components {n : Nat} {eq : α → α → Bool} (he : LawfulEq eq) (a b : Vector α n) :
    equalV eq a b = true ↔ a = b := equalV_iff he a b
theorem array_eq_equivalence {n : Nat} {eq : α → α → Bool} (he : LawfulEq eq) : IsEquivalence (equalV (n := n) eq) :=
  LawfulEq.isEquivalence (equalV_iff he)
theorem vector_eq_iff_components {n : Nat} {eq : α → α → Bool} (he : LawfulEq eq) (a b : Vector α n) :
    MVec.eq eq a b = true ↔ a = b := equalV_iff he a b
theorem vector_eq_equivalence {n : Nat} {eq : α → α → Bool} (he : LawfulEq eq) : IsEquivalence (MVec.eq (n := n) eq) :=
  LawfulEq.isEquivalence (equalV_iff he)
theorem vector_ne_eq_not {n : Nat} (eq : α → α → Bool) (a b : Vector α n) : MVec.ne eq a b = !MVec.eq eq a b := rfl
theorem vector_lt_strict_weak {n : Nat} {lt : α → α → Bool} (h : StrictTotal lt) : StrictWeak (MVec.lt (n := n) lt) :=
  (arrayLess_strictTotal h).strictWeak
theorem vector_lt_compatible_eq {n : Nat} {eq lt : α → α → Bool} (he : LawfulEq eq) (h : StrictTotal lt) :
    Compatible (fun a b : Vector α n => MVec.eq eq a b = true) (MVec.lt lt) :=
  compatible_of (equalV_iff he) (arrayLess_strictTotal h)
theorem vector_order_ops {n : Nat} {lt : α → α → Bool} (h : StrictTotal lt) :
    OrderOps (MVec.lt (n := n) lt) (MVec.gt lt) (MVec.le lt) (MVec.ge lt) := orderOps_of (arrayLess_strictTotal h)
/-- `<` on vectors / dims is the lexicographic order of the components -/
theorem vector_lt_lexicographic {n : Nat} {lt : α → α → Bool} (h : StrictTotal lt) (a b : Vector α n) :
    MVec.lt lt a b = true ↔ LexLt lt a.toList b.toList := lexCompare_iff_lexLt h _ _
/-- covers `std::hash` of vector, dim, matrix and `range::hash` of an array -/
theorem vector_hash_eq_of_eq {n : Nat} {eq : α → α → Bool} (he : LawfulEq eq) (hc : Nat → Nat → Nat) (h : α → Nat)
    (a b : Vector α n) (hab : MVec.eq eq a b = true) : MVec.hash hc h a = MVec.hash hc h b := by
  rw [(equalV_iff he a b).1 hab]

/-! the same code paths under the names of the other types that use them -/
/-- `fcppt::tuple` (`std::tuple ==`) -/
theorem tuple_eq_iff_components {n : Nat} {eq : α → α → Bool} (he : LawfulEq eq) (a b : Vector α n) :
    equalV eq a b = true ↔ a = b := equalV_iff he a b
theorem tuple_eq_equivalence {n : Nat} {eq : α → α → Bool} (he : LawfulEq eq) : IsEquivalence (equalV (n := n) eq) :=
  LawfulEq.isEquivalence (equalV_iff he)
/-- `fcppt::enum_::array` (`std::equal` over two arrays of the same static size) -/
theorem enum_array_eq_iff_components {n : Nat} {eq : α → α → Bool} (he : LawfulEq eq) (a b : Vector α n) :
    equalV eq a b = true ↔ a = b := equalV_iff he a b
theorem enum_array_eq_equivalence {n : Nat} {eq : α → α → Bool} (he : LawfulEq eq) : IsEquivalence (equalV (n := n) eq) :=
  LawfulEq.isEquivalence (equalV_iff he)
/-- `math::matrix<R, C>`: `array_equal` over the `R * C` cells of the row-major storage -/
theorem matrix_eq_iff_components {r c : Nat} {eq : α → α → Bool} (he : LawfulEq eq) (a b : Vector α (r * c)) :
    MVec.eq eq a b = true ↔ a = b := equalV_iff he a b
theorem matrix_eq_equivalence {r c : Nat} {eq : α → α → Bool} (he : LawfulEq eq) :
    IsEquivalence (MVec.eq (n := r * c) eq) := LawfulEq.isEquivalence (equalV_iff he)
theorem matrix_hash_eq_of_eq {r c : Nat} {eq : α → α → Bool} (he : LawfulEq eq) (hc : Nat → Nat → Nat) (h : α → Nat)
    (a b : Vector α (r * c)) (hab : MVec.eq eq a b = true) : MVec.hash hc h a = MVec.hash hc h b := by
  rw [(equalV_iff he a b).1 hab]
/-- `range::hash` of an `fcppt::array` -/
theorem array_hash_eq_of_eq {n : Nat} {eq : α → α → Bool} (he : LawfulEq eq) (hc : Nat → Nat → Nat) (h : α → Nat)
    (a b : Vector α n) (hab : equalV eq a b = true) : rangeHash hc h a.toList = rangeHash hc h b.toList := by
  rw [(equalV_iff he a b).1 hab]

/-! ### record -/
/-- records of equivalent types (same labels, any element order): `==` is defined and holds exactly when every
label has the same value on both sides -/
theorem record_eq_iff_components {eq : α → α → Bool} (he : LawfulEq eq) (r1 r2 : Rec α)
    (hq : Rec.equivalent r1 r2 = true) :
    ∃ b, Rec.eq eq r1 r2 = some b ∧ (b = true ↔ ∀ l ∈ Rec.labels r1, List.lookup l r1 = List.lookup l r2) :=
  Rec.eq_spec he r1 r2 hq
theorem record_ne_eq_not (eq : α → α → Bool) (r1 r2 : Rec α) : Rec.ne eq r1 r2 = (Rec.eq eq r1 r2).map (!·) := rfl
/-- records that are not equivalent are rejected (static_assert) -/
theorem record_not_equivalent {eq : α → α → Bool} (r1 r2 : Rec α) (hq : Rec.equivalent r1 r2 = false) :
    Rec.eq eq r1 r2 = none := Rec.eq_none r1 r2 hq

/-! ### box, sphere -/
/-- the class stores `min_` and `max_`; `==` compares `pos()` = `min_` and `size()` = `max_ - min_`.  When the
coordinate type's `-` can be undone (integers, also modulo 2^n) this is equality of the two stored corners, i.e. of
every observable component -/
theorem box_eq_iff_components {n : Nat} {sub : α → α → α} {eq : α → α → Bool} (hs : SubCancel sub) (he : LawfulEq eq)
    (a b : Box α n) : Box.eq sub eq a b = true ↔ a = b := Box.eq_iff hs he a b
theorem box_eq_equivalence {n : Nat} {sub : α → α → α} {eq : α → α → Bool} (hs : SubCancel sub) (he : LawfulEq eq) :
    IsEquivalence (Box.eq (n := n) sub eq) := LawfulEq.isEquivalence (Box.eq_iff hs he)
theorem box_ne_eq_not {n : Nat} (sub : α → α → α) (eq : α → α → Bool) (a b : Box α n) :
    Box.ne sub eq a b = !Box.eq sub eq a b := rfl
theorem box_lt_strict_weak {n : Nat} {sub : α → α → α} {lt : α → α → Bool} (hs : SubCancel sub) (h : StrictTotal lt) :
    StrictWeak (Box.lt (n := n) sub lt) := (Box.lt_strictTotal hs h).strictWeak
theorem box_lt_compatible_eq {n : Nat} {sub : α → α → α} {eq lt : α → α → Bool} (hs : SubCancel sub) (he : LawfulEq eq)
    (h : StrictTotal lt) : Compatible (fun a b : Box α n => Box.eq sub eq a b = true) (Box.lt sub lt) :=
  compatible_of (Box.eq_iff hs he) (Box.lt_strictTotal hs h)
/-- the `(pos, size)` constructor: `pos()` and `size()` give the arguments back -/
theorem box_pos_size_round_trip {n : Nat} {add sub : α → α → α} (hadd : ∀ p s, sub (add p s) p = s) (p s : Vector α n) :
    (Box.ofPosSize add p s).pos = p ∧ (Box.ofPosSize add p s).size sub = s := Box.ofPosSize_spec hadd p s
theorem sphere_eq_iff_components {n : Nat} {eq : α → α → Bool} (he : LawfulEq eq) (a b : Sphere α n) :
    Sphere.eq eq a b = true ↔ a = b := Sphere.eq_iff he a b
theorem sphere_eq_equivalence {n : Nat} {eq : α → α → Bool} (he : LawfulEq eq) : IsEquivalence (Sphere.eq (n := n) eq) :=
  LawfulEq.isEquivalence (Sphere.eq_iff he)
theorem sphere_ne_eq_not {n : Nat} (eq : α → α → Bool) (a b : Sphere α n) : Sphere.ne eq a b = !Sphere.eq eq a b := rfl

/-! ### grid (values satisfying the class invariant `Grid.Wf`) -/
/-- `==` never reads out of bounds and holds exactly when extent and content are equal -/
theorem grid_eq_iff_components {n : Nat} {eq : α → α → Bool} (he : LawfulEq eq) (a b : Grid α n) (ha : a.Wf) (hb : b.Wf) :
    ∃ r, Grid.eq eq a b = .ok r ∧ (r = true ↔ a = b) := Grid.eq_spec he a b ha hb
theorem grid_eq_equivalence {n : Nat} {eq : α → α → Bool} (he : LawfulEq eq) :
    Equivalence (fun (a b : {g : Grid α n // g.Wf}) => Grid.eq eq a.1 b.1 = .ok true) := by
  have key : ∀ a b : {g : Grid α n // g.Wf}, Grid.eq eq a.1 b.1 = .ok true ↔ a = b := by
    intro a b
    obtain ⟨r, hr, hiff⟩ := Grid.eq_spec he a.1 b.1 a.2 b.2
    rw [hr]
    constructor
    · intro h
      have : r = true := by injection h
      exact Subtype.ext (hiff.1 this)
    · intro h
      rw [hiff.2 (congrArg Subtype.val h)]
  exact ⟨fun a => (key a a).2 rfl, fun h => (key _ _).2 ((key _ _).1 h).symm,
    fun h1 h2 => (key _ _).2 (((key _ _).1 h1).trans ((key _ _).1 h2))⟩
theorem grid_ne_eq_not {n : Nat} (eq : α → α → Bool) (a b : Grid α n) :
    Grid.ne eq a b = (Grid.eq eq a b).map (!·) := by
  unfold Grid.ne; cases Grid.eq eq a b <;> rfl
theorem grid_lt_strict_weak {n : Nat} {lt : α → α → Bool} (h : StrictTotal lt) : StrictWeak (Grid.lt (n := n) lt) :=
  (Grid.lt_strictTotal h).strictWeak
theorem grid_lt_compatible_eq {n : Nat} {eq lt : α → α → Bool} (he : LawfulEq eq) (h : StrictTotal lt) :
    Compatible (fun (a b : {g : Grid α n // g.Wf}) => Grid.eq eq a.1 b.1 = .ok true) (fun a b => Grid.lt lt a.1 b.1) := by
  apply compatible_of
  · intro a b
    obtain ⟨r, hr, hiff⟩ := Grid.eq_spec he a.1 b.1 a.2 b.2
    rw [hr]
    constructor
    · intro h
      have : r = true := by injection h
      exact Subtype.ext (hiff.1 this)
    · intro h
      rw [hiff.2 (congrArg Subtype.val h)]
  · exact (Grid.lt_strictTotal h).comap Subtype.val (fun _ _ e => Subtype.ext e)
theorem grid_order_ops {n : Nat} {lt : α → α → Bool} (h : StrictTotal lt) :
    OrderOps (Grid.lt (n := n) lt) (Grid.gt lt) (Grid.le lt) (Grid.ge lt) := orderOps_of (Grid.lt_strictTotal h)
/-- the extent is compared first (lexicographically), the content only between grids of the same extent -/
theorem grid_lt_size_first {n : Nat} {lt : α → α → Bool} (a b : Grid α n) :
    Grid.lt lt a b = true ↔
      (arrayLess Grid.natLt a.size b.size = true ∨ (a.size = b.size ∧ lexCompare lt a.data b.data = true)) :=
  Grid.lt_iff a b

/-! ### tree -/
theorem tree_eq_iff_components {eq : α → α → Bool} (he : LawfulEq eq) (t u : Tree α) :
    Tree.eq eq t u = true ↔ t = u := Tree.eq_iff he t u
theorem tree_eq_equivalence {eq : α → α → Bool} (he : LawfulEq eq) : IsEquivalence (Tree.eq eq) :=
  LawfulEq.isEquivalence (Tree.eq_iff he)
theorem tree_ne_eq_not (eq : α → α → Bool) (t u : Tree α) : Tree.ne eq t u = !Tree.eq eq t u := rfl

/-! ### raw_vector -/
/-- `==` never reads out of bounds (the size test guards `std::equal`) and is equality of the element lists -/
theorem raw_vector_eq_iff_components {eq : α → α → Bool} (he : LawfulEq eq) (l r : List α) :
    ∃ b, RawVec.eq eq l r = .ok b ∧ (b = true ↔ l = r) := RawVec.eq_spec he l r
theorem raw_vector_eq_true_iff {eq : α → α → Bool} (he : LawfulEq eq) (l r : List α) :
    RawVec.eq eq l r = .ok true ↔ l = r := by
  obtain ⟨b, hb, hiff⟩ := RawVec.eq_spec he l r
  rw [hb]
  constructor
  · intro h
    have : b = true := by injection h
    exact hiff.1 this
  · intro h; rw [hiff.2 h]
theorem raw_vector_eq_equivalence {eq : α → α → Bool} (he : LawfulEq eq) :
    Equivalence (fun l r : List α => RawVec.eq eq l r = .ok true) := by
  have key := raw_vector_eq_true_iff he
  exact ⟨fun a => (key a a).2 rfl, fun h => (key _ _).2 ((key _ _).1 h).symm,
    fun h1 h2 => (key _ _).2 (((key _ _).1 h1).trans ((key _ _).1 h2))⟩
theorem raw_vector_ne_eq_not (eq : α → α → Bool) (l r : List α) : RawVec.ne eq l r = (RawVec.eq eq l r).map (!·) := by
  unfold RawVec.ne; cases RawVec.eq eq l r <;> rfl
theorem raw_vector_lt_strict_weak {lt : α → α → Bool} (h : StrictTotal lt) : StrictWeak (RawVec.lt lt) :=
  (lexCompare_strictTotal h).strictWeak
theorem raw_vector_lt_compatible_eq {eq lt : α → α → Bool} (he : LawfulEq eq) (h : StrictTotal lt) :
    Compatible (fun l r : List α => RawVec.eq eq l r = .ok true) (RawVec.lt lt) :=
  compatible_of (raw_vector_eq_true_iff he) (lexCompare_strictTotal h)
theorem raw_vector_order_ops {lt : α → α → Bool} (h : StrictTotal lt) :
    OrderOps (RawVec.lt lt) (RawVec.gt lt) (RawVec.le lt) (RawVec.ge lt) := by
  have := orderOps_of (lexCompare_strictTotal h)
  exact ⟨this.gt_iff, this.le_iff, this.ge_iff⟩
theorem raw_vector_hash_eq_of_eq {eq : α → α → Bool} (he : LawfulEq eq) (hc : Nat → Nat → Nat) (h : α → Nat)
    (l r : List α) (hlr : RawVec.eq eq l r = .ok true) : rangeHash hc h l = rangeHash hc h r := by
  rw [(raw_vector_eq_true_iff he l r).1 hlr]

/-! ### recursive -/
theorem recursive_eq_iff_components {eq : α → α → Bool} (he : LawfulEq eq) (a b : α) :
    Recursive.eq eq a b = true ↔ a = b := he a b
theorem recursive_ne_eq_not (eq : α → α → Bool) (a b : α) : Recursive.ne eq a b = !Recursive.eq eq a b := rfl

/-! ### recursive exposes exactly the wrapped object (constructors, assignments, `get`) -/
/-- `get` of a freshly constructed `recursive` is the value it was constructed from -/
theorem recursive_get_exposes (v : α) : (RecCell.make v).get = .ok v := rfl
/-- the copy constructor makes a new object: writing through the copy leaves the original alone -/
theorem recursive_copy_independent (v w : α) :
    ((RecCell.make v).copy >>= fun c => c.set w >>= RecCell.get) = .ok w ∧ (RecCell.make v).get = .ok v := ⟨rfl, rfl⟩
/-- copy assignment: afterwards the target shows the source's value (whatever it held), the source is unchanged;
assigning an object to itself changes nothing -/
theorem recursive_assign (self other : RecCell α) (v : α) (h : other.get = .ok v) :
    (RecCell.assign self other false >>= RecCell.get) = .ok v ∧ RecCell.assign self self true = .ok self := by
  constructor
  · unfold RecCell.assign
    simp only [Bool.false_eq_true, if_false]
    rw [h]; rfl
  · rfl
/-- moving hands the object over; the moved-from wrapper must not be read any more -/
theorem recursive_move (r : RecCell α) : r.move.1.get = r.get ∧ r.move.2.get = .error .emptyDeref := ⟨rfl, rfl⟩
/-- `*p` of a unique_ptr is the object it owns; moving and `release_ownership` hand exactly that object on and leave null -/
theorem unique_ptr_get_exposes (mem : Nat → α) (p : Nat) :
    UPtr.get mem ⟨some p⟩ = .ok (mem p) ∧ (UPtr.move ⟨some p⟩).1.get mem = .ok (mem p) ∧
    (UPtr.move ⟨some p⟩).2.get mem = .error .emptyDeref ∧ UPtr.release ⟨some p⟩ = (some p, ⟨none⟩) := ⟨rfl, rfl, rfl, rfl⟩
/-- `*p` of a shared_ptr is the object at the stored pointer — the same for every owner -/
theorem shared_ptr_get_exposes (mem : Nat → α) (p o₁ o₂ : Nat) : SPtr.get mem ⟨p, o₁⟩ = SPtr.get mem ⟨p, o₂⟩ := rfl

/-! ### unit, iterator::range -/
theorem unit_eq_iff_components (a b : Unit) : UnitT.eq a b = true ↔ a = b := by simp [UnitT.eq]
theorem unit_eq_equivalence : IsEquivalence UnitT.eq := ⟨fun _ => rfl, fun _ _ _ => rfl, fun _ _ _ _ _ => rfl⟩
theorem unit_ne_eq_not (a b : Unit) : UnitT.ne a b = !UnitT.eq a b := rfl
/-- two ranges are equal exactly when they begin and end at the same iterators -/
theorem iterator_range_eq_iff_components {eqI : α → α → Bool} (he : LawfulEq eqI) (a b : α × α) :
    IterRange.eq eqI a b = true ↔ a = b := by
  cases a; cases b
  simp [IterRange.eq, he _ _]
theorem iterator_range_eq_equivalence {eqI : α → α → Bool} (he : LawfulEq eqI) : IsEquivalence (IterRange.eq eqI) :=
  LawfulEq.isEquivalence (iterator_range_eq_iff_components he)
theorem iterator_range_ne_eq_not (eqI : α → α → Bool) (a b : α × α) : IterRange.ne eqI a b = !IterRange.eq eqI a b := rfl

/-! ### reference -/
/-- two references are equal exactly when they designate the same object -/
theorem reference_eq_iff_components (a b : Ref) : Ref.eq a b = true ↔ a = b := Ref.eq_iff a b
theorem reference_eq_equivalence : IsEquivalence Ref.eq := LawfulEq.isEquivalence Ref.eq_iff
theorem reference_ne_eq_not (a b : Ref) : Ref.ne a b = !Ref.eq a b := rfl
theorem reference_lt_strict_weak : StrictWeak Ref.lt := Ref.lt_strictTotal.strictWeak
theorem reference_lt_compatible_eq : Compatible (fun a b => Ref.eq a b = true) Ref.lt :=
  compatible_of Ref.eq_iff Ref.lt_strictTotal
theorem reference_hash_eq_of_eq (hp : Nat → Nat) (a b : Ref) (h : Ref.eq a b = true) : Ref.hash hp a = Ref.hash hp b := by
  rw [(Ref.eq_iff a b).1 h]
/-- `get` yields the referent itself -/
theorem reference_get_exposes (mem : Nat → α) (a : Ref) : Ref.get mem a = mem a.addr := rfl

/-! ### shared_ptr (compared and hashed by the stored pointer, whoever owns it) -/
theorem shared_ptr_eq_iff_components (a b : SPtr) : SPtr.eq a b = true ↔ a.ptr = b.ptr := SPtr.eq_iff a b
theorem shared_ptr_eq_equivalence : IsEquivalence SPtr.eq where
  refl a := by simp [SPtr.eq]
  symm a b := by simp only [SPtr.eq_iff]; exact Eq.symm
  trans a b c := by simp only [SPtr.eq_iff]; exact Eq.trans
theorem shared_ptr_ne_eq_not (a b : SPtr) : SPtr.ne a b = !SPtr.eq a b := by
  simp [SPtr.ne, SPtr.eq, bne]
/-- on shared_ptrs `<` is a strict weak order whose incomparability is exactly `==` (it is total on the stored pointers) -/
theorem shared_ptr_lt_strict_weak : StrictWeak SPtr.lt where
  irrefl a := by simp [SPtr.lt]
  trans a b c := by simp only [SPtr.lt, decide_eq_true_eq]; omega
  incomp_trans a b c := by
    simp only [Incomp, SPtr.lt, decide_eq_false_iff_not]; omega
theorem shared_ptr_lt_compatible_eq : Compatible (fun a b => SPtr.eq a b = true) SPtr.lt where
  incomp_of_eq a b := by simp only [SPtr.eq_iff, Incomp, SPtr.lt, decide_eq_false_iff_not]; omega
  eq_of_incomp a b := by simp only [SPtr.eq_iff, Incomp, SPtr.lt, decide_eq_false_iff_not]; omega
  congr_left a b c := by simp only [SPtr.eq_iff, SPtr.lt]; intro h; rw [h]
  congr_right a b c := by simp only [SPtr.eq_iff, SPtr.lt]; intro h; rw [h]
theorem shared_ptr_hash_eq_of_eq (hp : Nat → Nat) (a b : SPtr) (h : SPtr.eq a b = true) :
    SPtr.hash hp a = SPtr.hash hp b := by
  simp only [SPtr.hash, (SPtr.eq_iff a b).1 h]

/-! ### bitfield (model and set semantics of C10; `~` included) -/
theorem bitfield_eq_equivalence {w : Nat} : IsEquivalence (C10.eq (w := w)) :=
  LawfulEq.isEquivalence (fun a b => by simp [C10.eq])
theorem bitfield_ne_eq_not {w : Nat} (a b : C10.Words w) : C10.ne a b = !C10.eq a b := rfl
/-- `==` on computed bitfields is equality of the denoted sets (padding never matters) -/
theorem bitfield_eq_iff_components {w : Nat} (hw : 0 < w) (n : Nat) (e₁ e₂ : C10.Expr w) (h₁ : e₁.Valid n) (h₂ : e₂.Valid n) :
    C10.eq (e₁.eval n) (e₂.eval n) = true ↔ ∀ i, i < n → e₁.den i = e₂.den i :=
  C10.eq_iff_same_set hw n e₁ e₂ h₁ h₂
theorem bitfield_hash_eq_of_eq {w : Nat} (hc : Nat → Nat → Nat) (hwd : BitVec w → Nat) (a b : C10.Words w)
    (h : C10.eq a b = true) : C10.hash hc hwd a = C10.hash hc hwd b := by
  have : a = b := by simpa [C10.eq] using h
  rw [this]

/-! ### the theorems compose: a nested value type inherits the laws from its components -/
/-- `optional<variant<optional<T>, vector<T, n>>>` (the nested type of the harness): `==` is equality, `<` a strict weak
order compatible with it — by instantiating the component hypotheses of each level with the theorem of the level below -/
theorem nested_composition {n : Nat} {eq lt : α → α → Bool} (he : LawfulEq eq) (hl : StrictTotal lt) :
    LawfulEq (Opt.eq (SumV.eq (Opt.eq eq) (MVec.eq (n := n) eq))) ∧
    StrictWeak (Opt.lt (SumV.lt (Opt.lt lt) (MVec.lt (n := n) lt))) ∧
    Compatible (fun a b => Opt.eq (SumV.eq (Opt.eq eq) (MVec.eq (n := n) eq)) a b = true)
      (Opt.lt (SumV.lt (Opt.lt lt) (MVec.lt (n := n) lt))) := by
  have e1 : LawfulEq (SumV.eq (Opt.eq eq) (MVec.eq (n := n) eq)) := SumV.eq_iff (Opt.eq_iff he) (equalV_iff he)
  have l1 : StrictTotal (SumV.lt (Opt.lt lt) (MVec.lt (n := n) lt)) :=
    SumV.lt_strictTotal (Opt.lt_strictTotal hl) (arrayLess_strictTotal hl)
  exact ⟨Opt.eq_iff e1, (Opt.lt_strictTotal l1).strictWeak, compatible_of (Opt.eq_iff e1) (Opt.lt_strictTotal l1)⟩

/-! ## Non-vacuity: the component hypotheses hold for `int`; concrete values on every interesting branch -/

example : LawfulEq (fun a b : Int => a == b) := fun a b => by simp
example : StrictTotal (fun a b : Int => decide (a < b)) where
  irrefl a := by simp
  trans a b c := by simp only [decide_eq_true_eq]; omega
  total a b := by simp only [decide_eq_true_eq]; omega
-- integer subtraction can be undone (the hypothesis of the box theorems)
example : SubCancel (fun a b : Int => a - b) := fun a b c h => by simp only at h; omega
example : ∀ p s : Int, (p + s) - p = s := by intro p s; omega
-- signed overflow is a fault, unsigned wraps
example : IntTy.i32.add 2147483647 1 = .error .signedOverflow := by rfl
example : IntTy.u32.add 4294967295 1 = .ok 0 := by rfl
example : IntTy.u32.neg 1 = .ok 4294967295 := by rfl
example : ST.postInc .i32 ⟨5⟩ = .ok (⟨6⟩, ⟨5⟩) := by rfl
-- integral promotion: short 32767 + 1 wraps (no fault), unsigned short 65535 * 65535 overflows int, 255 * 255 does not
example : ST.preInc .i16 ⟨32767⟩ = .ok (⟨-32768⟩, ⟨-32768⟩) := by decide
example : IntTy.u16.mulAssign 65535 65535 = .error .signedOverflow := by decide
example : IntTy.u16.mulAssign 255 255 = .ok 65025 := by decide
example : IntTy.i8.mulAssign 127 2 = .ok (-2) := by decide
example : IntTy.u8.addAssign 200 200 = .ok 144 := by decide
-- optional: nothing < just 0; just 1 is not < just 0
example : Opt.lt (fun a b : Int => decide (a < b)) none (some 0) = true ∧
    Opt.lt (fun a b : Int => decide (a < b)) (some 1) (some 0) = false := by decide
-- variant: the alternative index dominates the value
example : Var.lt (fun a b : Int => decide (a < b)) ⟨0, 2⟩ ⟨1, 0⟩ = true := by decide
-- grid: a 2x1 grid is not less than a 1x2 grid although its content is smaller (extent first)
example : Grid.lt (fun a b : Int => decide (a < b)) (n := 2) ⟨⟨#[2, 1], rfl⟩, [0, 0]⟩ ⟨⟨#[1, 2], rfl⟩, [5, 5]⟩ = false := by
  decide
example : (⟨⟨#[2, 1], rfl⟩, [0, 0]⟩ : Grid Int 2).Wf := by rfl
-- raw_vector: without the size test `std::equal` would read past the shorter vector
example : stdEqual3 (fun a b : Int => a == b) [1, 2] [1] = .error .oob := by rfl
example : RawVec.eq (fun a b : Int => a == b) [1, 2] [1] = .ok false := by rfl
-- records with permuted elements compare by label
example : Rec.eq (fun a b : Int => a == b) [(0, 4), (1, 7)] [(1, 7), (0, 4)] = some true := by decide
example : Rec.eq (fun a b : Int => a == b) [(0, 4), (1, 7)] [(2, 7), (0, 4)] = none := by decide
-- bitfield: ~{e0,e2} and {e1} are the same value, hence hash equally (the defect fixed in 2bd4a8e: the
-- unmasked complement was a different array)
example : C10.eq ((C10.Expr.not (.lit [0, 2]) : C10.Expr 8).eval 3) ((C10.Expr.lit [1] : C10.Expr 8).eval 3) = true := by decide
example : C10.eq (((C10.Expr.lit [0, 2] : C10.Expr 8).eval 3).map (~~~ ·)) ((C10.Expr.lit [1] : C10.Expr 8).eval 3) = false := by decide

end Fcppt.C17
