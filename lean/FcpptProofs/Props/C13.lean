import FcpptModel.Spec.C13
import FcpptProofs.C13.Sets
set_option linter.unusedSimpArgs false
/-!
# C13 — property theorems: boxes are half-open point sets

For every dimension `n`, all boxes with integer corners (no bound on the coordinates; inverted and
degenerate boxes included) and all points of ℤ^n.  `Mem b p` is `pos_i ≤ p_i < max_i` for all `i`.
Functions that perform arithmetic in the coordinate type `t` are stated in three regimes: results
representable (then the exact mathematical value), signed and not representable (fault =
undefined behaviour), unsigned (value modulo 2^bits).
-/
namespace Fcppt.C13
variable {n : Nat}

/-! ## membership, intersection, intersects, contains, bounding box -/

/-- `contains_point` is membership in the half-open point set. -/
theorem containsPoint_iff_mem (b : Box n) (p : Vec n) : containsPoint b p = true ↔ Mem b p :=
  containsPoint_iff b p

/-- `intersection` never faults (for any coordinate type). -/
theorem intersection_total (t : Ty) (a b : Box n) : ∃ r, intersection t a b = .ok r := by
  unfold intersection
  split
  · exact ⟨_, rfl⟩
  · exact ⟨_, null_eq t n⟩

/-- The intersection contains exactly the common points — for *all* boxes, empty or inverted ones included. -/
theorem mem_intersection (t : Ty) (a b r : Box n) (h : intersection t a b = .ok r) (p : Vec n) :
    Mem r p ↔ Mem a p ∧ Mem b p := by
  unfold intersection at h
  split at h
  · cases h
    constructor
    · intro hm
      refine ⟨fun i => ?_, fun i => ?_⟩ <;>
      · have := hm i
        simp only [Fin.getElem_fin, initMax_min, initMax_max] at this ⊢
        omega
    · rintro ⟨ha, hb⟩ i
      have := ha i
      have := hb i
      simp only [Fin.getElem_fin, initMax_min, initMax_max] at *
      omega
  · rename_i hni
    rw [null_eq] at h
    cases h
    have hf : intersects a b = false := by simpa using hni
    obtain ⟨i, hi⟩ := (intersects_false_iff a b).1 hf
    have hn : 0 < n := Nat.lt_of_le_of_lt (Nat.zero_le _) i.isLt
    constructor
    · intro hm
      exact absurd hm (not_mem_null hn p)
    · rintro ⟨ha, hb⟩
      exfalso
      have := ha i
      have := hb i
      simp only [Fin.getElem_fin] at *
      omega

/-- When `intersects` is false the result is the null box (all coordinates 0) … -/
theorem intersection_null_of_not_intersects (t : Ty) (a b : Box n) (h : intersects a b = false) :
    intersection t a b = .ok ⟨vzero n, vzero n⟩ := by
  simp [intersection, h, null_eq]

/-- … in particular whenever the two boxes have no common point and are non-empty
    (for non-empty boxes `intersects` is exactly "a common point exists", next theorem). -/
theorem intersects_iff_common_point (a b : Box n) (ha : NonEmpty a) (hb : NonEmpty b) :
    intersects a b = true ↔ ∃ p, Mem a p ∧ Mem b p := by
  have ha' := (nonEmpty_iff a).1 ha
  have hb' := (nonEmpty_iff b).1 hb
  rw [intersects_iff]
  constructor
  · intro h
    refine ⟨Vector.ofFn fun i => Max.max a.min[i] b.min[i], fun i => ?_, fun i => ?_⟩ <;>
    · have := h i
      have := ha' i
      have := hb' i
      simp only [Fin.getElem_fin, Vector.getElem_ofFn] at *
      omega
  · rintro ⟨p, hpa, hpb⟩ i
    have := hpa i
    have := hpb i
    simp only [Fin.getElem_fin] at *
    omega

/-- A common point forces `intersects` (no non-emptiness needed). -/
theorem intersects_of_common_point (a b : Box n) (p : Vec n) (hpa : Mem a p) (hpb : Mem b p) : intersects a b = true := by
  rw [intersects_iff]
  intro i
  have := hpa i
  have := hpb i
  simp only [Fin.getElem_fin] at *
  omega

theorem intersection_null_of_disjoint (t : Ty) (a b : Box n) (ha : NonEmpty a) (hb : NonEmpty b)
    (hd : ¬ ∃ p, Mem a p ∧ Mem b p) : intersection t a b = .ok ⟨vzero n, vzero n⟩ := by
  apply intersection_null_of_not_intersects
  rw [← Bool.not_eq_true, intersects_iff_common_point a b ha hb]
  exact hd

/-- `contains(outer, inner)`, for a non-empty inner box, is the subset relation of the point sets. -/
theorem contains_iff_subset (outer inner : Box n) (hi : NonEmpty inner) :
    contains outer inner = true ↔ Subset inner outer := by
  rw [contains_iff, subset_iff outer inner hi]

/-- `contains` implies subset for every inner box (also empty ones). -/
theorem subset_of_contains (outer inner : Box n) (h : contains outer inner = true) : Subset inner outer := by
  rw [contains_iff] at h
  intro p hp i
  have := h i
  have := hp i
  simp only [Fin.getElem_fin] at *
  omega

/-- The bounding box contains both boxes (as corner-wise `contains`, hence as point sets). -/
theorem extendBox_contains (a b : Box n) :
    contains (extendBox a b) a = true ∧ contains (extendBox a b) b = true := by
  simp only [contains_iff, extendBox]
  refine ⟨fun i => ?_, fun i => ?_⟩ <;>
  · simp only [Fin.getElem_fin, initMax_min, initMax_max]
    omega

theorem extendBox_upper (a b : Box n) : Subset a (extendBox a b) ∧ Subset b (extendBox a b) :=
  ⟨subset_of_contains _ _ (extendBox_contains a b).1, subset_of_contains _ _ (extendBox_contains a b).2⟩

/-- … and it is the least such box: every box whose point set contains both non-empty boxes
    contains the bounding box. -/
theorem extendBox_least (a b c : Box n) (ha : NonEmpty a) (hb : NonEmpty b)
    (hac : Subset a c) (hbc : Subset b c) : contains c (extendBox a b) = true ∧ Subset (extendBox a b) c := by
  have h1 := (subset_iff c a ha).1 hac
  have h2 := (subset_iff c b hb).1 hbc
  have hc : contains c (extendBox a b) = true := by
    rw [contains_iff]
    intro i
    have := h1 i
    have := h2 i
    simp only [Fin.getElem_fin, extendBox, initMax_min, initMax_max] at *
    omega
  exact ⟨hc, subset_of_contains _ _ hc⟩

/-- the bounding box of two non-empty boxes is non-empty -/
theorem extendBox_nonEmpty (a b : Box n) (ha : NonEmpty a) : NonEmpty (extendBox a b) := by
  obtain ⟨p, hp⟩ := ha
  exact ⟨p, (extendBox_upper a b).1 p hp⟩

/-- `extend_bounding_box(box, point)`: the least box that contains `box` corner-wise and has the
    point in its *closed* hull (the point itself is not a member when it lies on or beyond `max`). -/
theorem extendPoint_spec (b : Box n) (p : Vec n) :
    contains (extendPoint b p) b = true ∧ MemClosed (extendPoint b p) p ∧
    ∀ c : Box n, contains c b = true → MemClosed c p → contains c (extendPoint b p) = true := by
  refine ⟨?_, ?_, ?_⟩
  · rw [contains_iff]
    intro i
    simp only [Fin.getElem_fin, extendPoint, initMax_min, initMax_max]
    omega
  · intro i
    simp only [Fin.getElem_fin, extendPoint, initMax_min, initMax_max]
    omega
  · intro c hc hp
    rw [contains_iff] at *
    intro i
    have := hc i
    have := hp i
    simp only [Fin.getElem_fin, extendPoint, initMax_min, initMax_max] at *
    omega

/-- a point inside the box leaves it unchanged -/
theorem extendPoint_of_mem (b : Box n) (p : Vec n) (h : Mem b p) : extendPoint b p = b := by
  apply box_ext <;>
  · intro i
    have := h i
    simp only [Fin.getElem_fin, extendPoint, initMax_min, initMax_max] at *
    omega

end Fcppt.C13
