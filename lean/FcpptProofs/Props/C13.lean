/-! Property theorems for C13 — placeholder until the property's model is built. -/
